(* C14: every subscribe / leave / delete request is answered exactly once (a leave that crosses the
   session's eviction may be answered by the eviction notice alone); the steps of the real code at
   which a request vanishes silently are named one by one ([lossy]). *)
From Coq Require Import List Arith Bool Lia.
Import ListNotations.
Require Import Tinode.Sys.Lifecycle Tinode.Sys.LifecycleProofs Tinode.Sys.LifecycleAttach Tinode.Sys.LifecycleTerm.

(* ---------- ghost: the requests issued so far ---------- *)

Definition issue (c : config) (l : label) : list req :=
  match l with
  | ClientSub s t ch => [mkReq s (c_nextrid c) KSub t true ch]
  | ClientLeave s t u ch => [mkReq s (c_nextrid c) (KLeave u) t true ch]
  | ClientDel s t => [mkReq s (c_nextrid c) KDel t true false]
  | _ => []
  end.

(* ---------- counting one request id ---------- *)

Definition hit (n : rid) (r : req) : bool := r_init r && Nat.eqb (r_rid r) n.
Definition cR (n : rid) (l : list req) : nat := length (filter (hit n) l).
Definition cP (n : rid) (l : list (inst * req)) : nat := cR n (map snd l).
Definition dels (l : list hmsg) : list req := flat_map (fun m => match m with HDel r => [r] | HUnload _ => [] end) l.
Definition cH (n : rid) (l : list hmsg) : nat := cR n (dels l).
Definition hitp (n : rid) (p : reply) : bool := match p_rid p with Some k => Nat.eqb k n | None => false end.
Definition ans (n : rid) (x : sess) : nat := length (filter (hitp n) (s_out x)).

Definition queuedN (n : rid) (c : config) : nat :=
  cR n (c_hjoin c) + cP n (c_inits c) + cP n (c_treg c) + cP n (c_tunreg c) + cH n (c_hunreg c).

(* replies received for request q plus copies of q still in a queue *)
Definition acct (q : req) (c : config) : nat := ans (r_rid q) (c_sess c (r_sid q)) + queuedN (r_rid q) c.

Lemma cR_app : forall n l1 l2, cR n (l1 ++ l2) = cR n l1 + cR n l2.
Proof. intros. unfold cR. rewrite filter_app, app_length. reflexivity. Qed.
Lemma cP_app : forall n l1 l2, cP n (l1 ++ l2) = cP n l1 + cP n l2.
Proof. intros. unfold cP. rewrite map_app. apply cR_app. Qed.
Lemma cH_app : forall n l1 l2, cH n (l1 ++ l2) = cH n l1 + cH n l2.
Proof. intros. unfold cH, dels. rewrite flat_map_app. apply cR_app. Qed.
Lemma cR_cons : forall n r l, cR n (r :: l) = (if hit n r then 1 else 0) + cR n l.
Proof. intros. unfold cR. simpl. destruct (hit n r); reflexivity. Qed.
Lemma cP_cons : forall n i r l, cP n ((i, r) :: l) = (if hit n r then 1 else 0) + cP n l.
Proof. intros. unfold cP. simpl. apply cR_cons. Qed.
Lemma cH_cons_del : forall n r l, cH n (HDel r :: l) = (if hit n r then 1 else 0) + cH n l.
Proof. intros. unfold cH. simpl. apply cR_cons. Qed.
Lemma cH_cons_unl : forall n t l, cH n (HUnload t :: l) = cH n l.
Proof. reflexivity. Qed.
Lemma cR_nil : forall n, cR n [] = 0. Proof. reflexivity. Qed.
Lemma cP_nil : forall n, cP n [] = 0. Proof. reflexivity. Qed.
Lemma cH_nil : forall n, cH n [] = 0. Proof. reflexivity. Qed.

Lemma cP_take_first : forall n i l r l',
  take_first i l = Some (r, l') -> cP n l = (if hit n r then 1 else 0) + cP n l'.
Proof.
  intros n i l r l' H. apply take_first_spec in H. destruct H as (l1 & l2 & -> & -> & _).
  rewrite !cP_app, cP_cons. lia.
Qed.

Lemma cP_requeue : forall n i l,
  cP n (fst (requeue_reg i l)) + cR n (snd (requeue_reg i l)) = cP n l.
Proof.
  intros n i l. unfold requeue_reg. simpl. induction l as [|[j r] rest IH]; simpl; auto.
  destruct (Nat.eqb i j); simpl.
  - rewrite cR_cons, cP_cons. lia.
  - rewrite !cP_cons. lia.
Qed.

Lemma cP_all_internal : forall n (f : tid * inst -> inst * req) l,
  (forall x, r_init (snd (f x)) = false) -> cP n (map f l) = 0.
Proof.
  intros n f l H. induction l as [|x r IH]; simpl; auto.
  destruct (f x) as [j q] eqn:E. rewrite cP_cons, IH. unfold hit.
  specialize (H x). rewrite E in H. simpl in H. rewrite H. reflexivity.
Qed.

Lemma ans_reply : forall n x p, ans n (s_reply x p) = if s_term x then ans n x else ans n x + (if hitp n p then 1 else 0).
Proof.
  intros. unfold s_reply. destruct (s_term x); auto. unfold ans. simpl.
  rewrite filter_app, app_length. simpl. destruct (hitp n p); reflexivity.
Qed.

Lemma hitp_rep : forall n r cd, hitp n (rep r cd) = Nat.eqb (r_rid r) n.
Proof. reflexivity. Qed.

(* ---------- the requests in the queues ---------- *)

Definition inq (r : req) (c : config) : Prop :=
  In r (c_hjoin c) \/ In r (map snd (c_inits c)) \/ In r (map snd (c_treg c)) \/ In r (map snd (c_tunreg c)) \/
  In (HDel r) (c_hunreg c).

Lemma cR_pos_in : forall n l, 0 < cR n l -> exists r, In r l /\ hit n r = true.
Proof.
  induction l as [|r rest IH]; intros H; [unfold cR in H; simpl in H; lia|].
  rewrite cR_cons in H. destruct (hit n r) eqn:E.
  - exists r. split; [left; reflexivity|exact E].
  - destruct (IH H) as (x & A & B). exists x. split; [right; exact A|exact B].
Qed.

Lemma in_dels : forall r l, In r (dels l) <-> In (HDel r) l.
Proof.
  intros r l. unfold dels. rewrite in_flat_map. split.
  - intros ([t|q] & A & B); simpl in B; [contradiction|]. destruct B as [->|[]]. exact A.
  - intros H. exists (HDel r). split; [exact H|left; reflexivity].
Qed.

Lemma queuedN_pos_inq : forall n c, 0 < queuedN n c -> exists r, inq r c /\ hit n r = true.
Proof.
  intros n c H. unfold queuedN in H.
  destruct (Nat.eq_dec (cR n (c_hjoin c)) 0) as [E1|E1];
    [|destruct (cR_pos_in n (c_hjoin c)) as (r & A & B); [lia|exists r; split; [left; exact A|exact B]]].
  destruct (Nat.eq_dec (cP n (c_inits c)) 0) as [E2|E2];
    [|destruct (cR_pos_in n (map snd (c_inits c))) as (r & A & B); [unfold cP in E2; lia|exists r; split; [right; left; exact A|exact B]]].
  destruct (Nat.eq_dec (cP n (c_treg c)) 0) as [E3|E3];
    [|destruct (cR_pos_in n (map snd (c_treg c))) as (r & A & B); [unfold cP in E3; lia|exists r; split; [right; right; left; exact A|exact B]]].
  destruct (Nat.eq_dec (cP n (c_tunreg c)) 0) as [E4|E4];
    [|destruct (cR_pos_in n (map snd (c_tunreg c))) as (r & A & B); [unfold cP in E4; lia|exists r; split; [right; right; right; left; exact A|exact B]]].
  destruct (cR_pos_in n (dels (c_hunreg c))) as (r & A & B); [unfold cH in H; lia|].
  exists r. split; [right; right; right; right; apply in_dels; exact A|exact B].
Qed.

Lemma map_snd_sub : forall (l l' : list (inst * req)), (forall x, In x l' -> In x l) ->
  forall r, In r (map snd l') -> In r (map snd l).
Proof.
  intros l l' H r Hin. apply in_map_iff in Hin. destruct Hin as (x & <- & Hx). apply in_map. auto.
Qed.

Lemma drain_unreg_sub : forall i l f l' f', drain_unreg i l f = (l', f') -> forall x, In x l' -> In x l.
Proof.
  induction l as [|[j r] rest IH]; intros f l' f' H x Hin; simpl in H.
  - inversion H; subst. contradiction.
  - destruct (Nat.eqb i j).
    + right. eapply IH; eauto.
    + destruct (drain_unreg i rest f) as [l2 f2] eqn:E. inversion H; subst.
      destruct Hin as [<-|Hin]; [left; reflexivity|right; eapply IH; eauto].
Qed.

Ltac inq_same :=
  let r := fresh "r" in let Hi := fresh "Hi" in let H := fresh "H" in
  intros r Hi H; left; unfold inq in *; simpl in *; tauto.

Lemma inq_pre404 : forall c r0 e r, inq r (pre404 c r0 e) <-> inq r c.
Proof.
  intros c r0 e r. destruct (pre404_frame c r0 e) as (_ & _ & _ & E1 & E2 & E3 & E4 & E5 & _).
  unfold inq. rewrite E1, E2, E3, E4, E5. tauto.
Qed.

Lemma inq_unreg_step : forall c i a e c', unreg_step c i a e = Some c' ->
  forall r, r_init r = true -> inq r c' -> inq r c \/ In r [].
Proof.
  intros c i a e c' Hs. unfold unreg_step in Hs.
  destruct (negb (is_run (i_phase (c_inst c i)))); [discriminate|].
  destruct (take_first i (c_tunreg c)) as [[q unreg']|] eqn:E; [|discriminate].
  destruct (in_take_first _ _ _ _ _ E) as [Hq Hsub]. simpl in Hs. inv_some.
  assert (Hgen : forall c2, c_hjoin c2 = c_hjoin c -> c_inits c2 = c_inits c -> c_treg c2 = c_treg c -> c_tunreg c2 = unreg' ->
            c_hunreg c2 = c_hunreg c -> forall r, r_init r = true -> inq r c2 -> inq r c \/ In r []).
  { intros c2 E1 E2 E3 E4 E5 r Hi H. left. unfold inq in *. rewrite E1, E2, E3, E4, E5 in H.
    destruct H as [H|[H|[H|[H|H]]]]; try tauto. right. right. right. left. eapply map_snd_sub; eauto. }
  apply Hgen; destruct (inactive (c_inst c i)); destruct (r_init q); try (destruct (r_kind q) as [|[|]|]); simpl;
    repeat match goal with |- context [if ?b then _ else _] => destruct b eqn:?; simpl end; reflexivity.
Qed.

(* every client request found in a queue was issued: queues only move requests around *)
Lemma inq_step : forall c l c', step c l c' -> forall r, r_init r = true -> inq r c' -> inq r c \/ In r (issue c l).
Proof.
  intros c l c' Hs. unfold step in Hs.
  destruct l as [s0 t0 ch0|s0 t0 u0 ch0|s0 t0| |i ok|i ok|i|i s0|i|vis|i|s0|s0|s0|]; simpl in Hs.
  - destruct (s_term (c_sess c s0) || negb (s_inflight (c_sess c s0) =? 0)); [discriminate|].
    destruct (lookup t0 (s_subs (c_sess c s0))); inv_some; [inq_same|].
    intros r Hi H. unfold inq in *. simpl in *. destruct H as [H|H]; [|tauto].
    apply in_app_or in H. destruct H as [H|[<-|[]]]; tauto.
  - destruct (s_term (c_sess c s0) || negb (s_inflight (c_sess c s0) =? 0)); [discriminate|].
    destruct (lookup t0 (s_subs (c_sess c s0))); inv_some; [|inq_same].
    intros r Hi H. unfold inq in *. simpl in *. destruct H as [H|[H|[H|[H|H]]]]; try tauto.
    rewrite map_app in H. apply in_app_or in H. simpl in H. destruct H as [H|[<-|[]]]; tauto.
  - destruct (s_term (c_sess c s0) || negb (c_user c s0 =? c_owner c t0)); [discriminate|]. inv_some.
    intros r Hi H. unfold inq in *. simpl in *. destruct H as [H|[H|[H|[H|H]]]]; try tauto.
    apply in_app_or in H. simpl in H. destruct H as [H|[E|[]]]; [tauto|]. inversion E; subst. tauto.
  - (* HubJoin *)
    destruct (c_hjoin c) as [|q rest] eqn:E; [discriminate|]. simpl in Hs.
    destruct (c_table c (r_topic q)) as [i|].
    + destruct (inactive (c_inst c i)); inv_some; intros r Hi H; left; unfold inq in *; simpl in *; rewrite ?E; simpl.
      * tauto.
      * destruct H as [H|[H|[H|[H|H]]]]; try tauto. rewrite map_app in H. apply in_app_or in H. simpl in H.
        destruct H as [H|[<-|[]]]; tauto.
    + inv_some. intros r Hi H; left; unfold inq in *; simpl in *; rewrite ?E; simpl.
      destruct H as [H|[H|[H|[H|H]]]]; try tauto. rewrite map_app in H. apply in_app_or in H. simpl in H.
      destruct H as [H|[<-|[]]]; tauto.
  - (* InitDone *)
    destruct (negb (is_init (i_phase (c_inst c i)))); [discriminate|].
    destruct (take_first i (c_inits c)) as [[q inits']|] eqn:E; [|discriminate].
    destruct (in_take_first _ _ _ _ _ E) as [Hq Hsub]. simpl in Hs. destruct ok.
    + destruct (negb (c_store c (i_name (c_inst c i)))); [discriminate|].
      destruct (i_deleted (c_inst c i)); inv_some; intros r Hi H; left; unfold inq in *; simpl in *.
      * destruct H as [H|[H|[H|[H|H]]]]; try tauto. right. left. eapply map_snd_sub; eauto.
      * destruct H as [H|[H|[H|[H|H]]]]; try tauto.
        -- right. left. eapply map_snd_sub; eauto.
        -- rewrite map_app in H. apply in_app_or in H. simpl in H. destruct H as [H|[<-|[]]]; [tauto|].
           right. left. apply (in_map snd) in Hq. exact Hq.
    + unfold requeue_reg in Hs. simpl in Hs.
      destruct (drain_unreg i (c_tunreg c) _) as [unreg' f'] eqn:Ed. simpl in Hs.
      assert (Hgen : forall c2, c_hjoin c2 = c_hjoin c ++ map snd (filter (fun x => i =? fst x) (c_treg c)) ->
                c_inits c2 = inits' -> c_treg c2 = filter (fun x => negb (i =? fst x)) (c_treg c) ->
                c_tunreg c2 = unreg' -> (forall x, In x (c_hunreg c2) -> In x (c_hunreg c)) ->
                forall r, r_init r = true -> inq r c2 -> inq r c \/ In r []).
      { intros c2 E1 E2 E3 E4 E5 r Hi H. left. unfold inq in *. rewrite E1, E2, E3, E4 in H.
        destruct H as [H|[H|[H|[H|H]]]].
        - apply in_app_or in H. destruct H as [H|H]; [tauto|]. right. right. left.
          apply in_map_iff in H. destruct H as (x & <- & Hx). apply filter_In in Hx. apply in_map. tauto.
        - right. left. eapply map_snd_sub; eauto.
        - right. right. left. apply in_map_iff in H. destruct H as (x & <- & Hx). apply filter_In in Hx. apply in_map. tauto.
        - right. right. right. left. eapply map_snd_sub; [|exact H]. eapply drain_unreg_sub; eauto.
        - right. right. right. right. apply E5. exact H. }
      destruct (take_first i (c_texit c)) as [[b exit']|]; inv_some; apply Hgen; auto.
  - (* TopicReg *)
    destruct (negb (is_run (i_phase (c_inst c i)))); [discriminate|].
    destruct (take_first i (c_treg c)) as [[q reg']|] eqn:E; [|discriminate].
    destruct (in_take_first _ _ _ _ _ E) as [Hq Hsub]. simpl in Hs. inv_some.
    assert (Hgen : forall c2, c_hjoin c2 = c_hjoin c -> c_inits c2 = c_inits c -> c_treg c2 = reg' -> c_tunreg c2 = c_tunreg c ->
              c_hunreg c2 = c_hunreg c -> forall r, r_init r = true -> inq r c2 -> inq r c \/ In r []).
    { intros c2 E1 E2 E3 E4 E5 r Hi H. left. unfold inq in *. rewrite E1, E2, E3, E4, E5 in H.
      destruct H as [H|[H|[H|[H|H]]]]; try tauto. right. right. left. eapply map_snd_sub; eauto. }
    apply Hgen; destruct (inactive (c_inst c i)); try (destruct (lookup _ _); [|destruct (verify_chan _ _ _) as [aC [|]]; [|destruct ok]]); reflexivity.
  - (* TopicUnreg *)
    destruct (exec_unreg_inv _ _ _ Hs) as (r0 & rest0 & aC & eR & _ & _ & Hu).
    intros r Hi H. destruct (inq_unreg_step _ _ _ _ _ Hu r Hi H) as [X|[]]. left. apply (inq_pre404 c r0 eR r). exact X.
  - exec_split Hs; inv_some; inq_same.
  - exec_split Hs; inv_some.
    intros r Hi H. left. unfold inq in *. simpl in *. destruct H as [H|[H|[H|[H|H]]]]; try tauto.
    apply in_app_or in H. simpl in H. destruct H as [H|[E|[]]]; [tauto|discriminate].
  - (* HubUnreg *)
    destruct (c_hunreg c) as [|[t1|q] rest] eqn:E; [discriminate| |]; simpl in Hs.
    + destruct (c_table c t1); inv_some; intros r Hi H; left; unfold inq in *; simpl in *; rewrite ?E; simpl; tauto.
    + destruct (c_table c (r_topic q)) as [i|].
      * destruct (is_init (i_phase (c_inst c i)) && negb vis); inv_some; intros r Hi H; left; unfold inq in *; simpl in *; rewrite ?E; simpl; tauto.
      * destruct (c_store c (r_topic q)); inv_some; intros r Hi H; left; unfold inq in *; simpl in *; rewrite ?E; simpl; tauto.
  - exec_split Hs; inv_some; inq_same.
  - exec_split Hs; inv_some; inq_same.
  - exec_split Hs; inv_some; inq_same.
  - (* DiscEnd *)
    destruct (negb (s_term (c_sess c s0)) || s_done (c_sess c s0) || negb (s_inflight (c_sess c s0) =? 0)); inv_some.
    intros r Hi H. left. unfold inq in *. simpl in *. destruct H as [H|[H|[H|[H|H]]]]; try tauto.
    rewrite map_app in H. apply in_app_or in H. destruct H as [H|H]; [tauto|].
    rewrite map_map in H. apply in_map_iff in H. destruct H as (x & <- & _). simpl in Hi. discriminate.
  - (* HubUnregFail *)
    destruct (c_hunreg c) as [|[tq|q] rest] eqn:E; try discriminate; simpl in Hs.
    destruct (c_table c (r_topic q)) as [i|] eqn:Et.
    + destruct (is_init (i_phase (c_inst c i))) eqn:Ei; [discriminate|]. inv_some; intros r Hi H; left; unfold inq in *; simpl in *; rewrite ?E; simpl; tauto.
    + destruct (c_store c (r_topic q)) eqn:Est; [|discriminate]. inv_some; intros r Hi H; left; unfold inq in *; simpl in *; rewrite ?E; simpl; tauto.
Qed.

(* ---------- the eviction-notice exception and the silent steps ---------- *)

Definition is_notice (t : tid) (p : reply) : bool :=
  match p_rid p, p_code p with
  | None, CEvicted => Nat.eqb (p_topic p) t
  | _, _ => false
  end.
Definition noticed (q : req) (c : config) : bool := existsb (is_notice (r_topic q)) (s_out (c_sess c (r_sid q))).
Definition is_leave (q : req) : bool := match r_kind q with KLeave _ => true | _ => false end.

(* The steps at which the code drops a client request without a word:
   - topicInit finds the topic marked deleted and just returns (init_topic.go:111-114);
   - the hub forwards the owner's {del} to a topic that is still loading, where replyDelTopic only logs;
   - handleLeaveRequest finds the session gone from Topic.sessions and says nothing - unless the session was
     told by an eviction notice for that topic, which the property accepts as the answer to a {leave}. *)
Definition lossy (c : config) (l : label) : bool :=
  match l with
  | InitDone i true => i_deleted (c_inst c i)
  | HubUnreg vis =>
      match c_hunreg c with
      | HDel r :: _ => match c_table c (r_topic r) with
                       | Some i => is_init (i_phase (c_inst c i)) && negb vis
                       | None => false
                       end
      | _ => false
      end
  | TopicUnreg i =>
      match take_first i (c_tunreg c) with
      | Some (r, _) =>
          r_init r && negb (inactive (c_inst c i)) && (match r_kind r with KLeave true => false | _ => true end) &&
          negb (mem (r_sid r) (i_sessions (c_inst c i))) && negb (is_leave r && noticed r c)
      | None => false
      end
  | _ => false
  end.

(* The step at which the code answers one request TWICE: a {leave} that addresses a topic WITHOUT channel
   functionality by a channel name: verifyChannelAccess fails, handleLeaveRequest queues the 404 and goes on
   (topic.go:697-702), and the rest of the function answers again (200 / 403 / 404 / 503). *)
Definition noisy (c : config) (l : label) : bool :=
  match l with
  | TopicUnreg i =>
      match take_first i (c_tunreg c) with
      | Some (r, _) => r_init r && r_aschan r && negb (c_ischan c (i_name (c_inst c i)))
      | None => false
      end
  | _ => false
  end.

(* ... and the request whose account it raises *)
Definition extra (c : config) (l : label) (q : req) : nat :=
  match l with
  | TopicUnreg i =>
      match take_first i (c_tunreg c) with
      | Some (r, _) => if noisy c l && hit (r_rid q) r then 1 else 0
      | None => 0
      end
  | _ => 0
  end.

Lemma extra_quiet : forall c l q, noisy c l = false -> extra c l q = 0.
Proof.
  intros c l q H. destruct l; simpl in *; auto.
  destruct (take_first i (c_tunreg c)) as [[r rest]|]; auto. rewrite H. reflexivity.
Qed.

Definition uniq (q : req) (c : config) : Prop := forall r, inq r c -> hit (r_rid q) r = true -> r = q.

(* what one step may do to the account of an already issued request q *)
Definition conserves (c : config) (l : label) (c' : config) (q : req) : Prop :=
  acct q c' <= acct q c + extra c l q /\
  (s_term (c_sess c' (r_sid q)) = false -> lossy c l = false -> noisy c l = false ->
   acct q c' = acct q c \/ (acct q c' + 1 = acct q c /\ is_leave q = true /\ noticed q c' = true)).

(* the form all steps but the noisy one satisfy *)
Definition conserves0 (c : config) (l : label) (c' : config) (q : req) : Prop :=
  acct q c' <= acct q c /\
  (s_term (c_sess c' (r_sid q)) = false -> lossy c l = false ->
   acct q c' = acct q c \/ (acct q c' + 1 = acct q c /\ is_leave q = true /\ noticed q c' = true)).

Lemma conserves0_conserves : forall c l c' q, conserves0 c l c' q -> conserves c l c' q.
Proof. intros c l c' q [A B]. split; [lia|auto]. Qed.

Ltac acct_simpl :=
  unfold acct, queuedN; simpl; unfold on_sess, upd; simpl;
  rewrite ?cR_app, ?cP_app, ?cH_app, ?cR_cons, ?cP_cons, ?cH_cons_del, ?cH_cons_unl, ?cR_nil, ?cP_nil, ?cH_nil.

Lemma hit_new : forall q s k t n ch, r_rid q <> n -> hit (r_rid q) (mkReq s n k t true ch) = false.
Proof. intros. unfold hit. simpl. destruct (Nat.eqb_spec n (r_rid q)); [congruence|reflexivity]. Qed.

Lemma hitp_new : forall q s k t b cd n ch, r_rid q <> n -> hitp (r_rid q) (rep (mkReq s n k t b ch) cd) = false.
Proof. intros. rewrite hitp_rep. simpl. destruct (Nat.eqb_spec n (r_rid q)); [congruence|reflexivity]. Qed.

Lemma cons_client_sub : forall c s t ch c' q, exec (ClientSub s t ch) c = Some c' -> r_rid q <> c_nextrid c -> conserves0 c (ClientSub s t ch) c' q.
Proof.
  intros c s t ch c' q Hs Hn. simpl in Hs.
  destruct (s_term (c_sess c s)) eqn:Et; [discriminate|]. simpl in Hs.
  destruct (negb (s_inflight (c_sess c s) =? 0)); [discriminate|].
  assert (X : acct q c' = acct q c).
  { destruct (lookup t (s_subs (c_sess c s))); inv_some; acct_simpl.
    - destruct (Nat.eqb_spec (r_sid q) s) as [->|]; auto. rewrite ans_reply, Et, hitp_new; auto.
    - rewrite hit_new by auto. destruct (Nat.eqb_spec (r_sid q) s) as [->|]; simpl; unfold ans; simpl; lia. }
  split; [lia|auto].
Qed.

Lemma cons_client_leave : forall c s t u ch c' q, exec (ClientLeave s t u ch) c = Some c' -> r_rid q <> c_nextrid c -> conserves0 c (ClientLeave s t u ch) c' q.
Proof.
  intros c s t u ch c' q Hs Hn. simpl in Hs.
  destruct (s_term (c_sess c s)) eqn:Et; [discriminate|]. simpl in Hs.
  destruct (negb (s_inflight (c_sess c s) =? 0)); [discriminate|].
  assert (X : acct q c' = acct q c).
  { destruct (lookup t (s_subs (c_sess c s))); inv_some; acct_simpl.
    - rewrite hit_new by auto. destruct (Nat.eqb_spec (r_sid q) s) as [->|]; simpl; unfold ans; simpl; lia.
    - destruct (Nat.eqb_spec (r_sid q) s) as [->|]; auto. rewrite ans_reply, Et, hitp_new; auto. }
  split; [lia|auto].
Qed.

Lemma cons_client_del : forall c s t c' q, exec (ClientDel s t) c = Some c' -> r_rid q <> c_nextrid c -> conserves0 c (ClientDel s t) c' q.
Proof.
  intros c s t c' q Hs Hn. simpl in Hs.
  destruct (s_term (c_sess c s) || negb (c_user c s =? c_owner c t)); [discriminate|]. inv_some.
  assert (X : acct q (set_hunreg (set_nextrid c (S (c_nextrid c))) (c_hunreg c ++ [HDel (mkReq s (c_nextrid c) KDel t true false)])) = acct q c).
  { acct_simpl. rewrite hit_new by auto. lia. }
  split; [lia|auto].
Qed.

Lemma ans_ext : forall n x y, s_out x = s_out y -> ans n x = ans n y.
Proof. intros n x y H. unfold ans. rewrite H. reflexivity. Qed.

(* the consumed request r is answered: what the outbox of q's session gains *)
Lemma ans_upd_reply : forall q r (f : sid -> sess) (g : sess -> sess) cd,
  r_init r = true -> (hit (r_rid q) r = true -> r = q) ->
  (forall x, s_out (g x) = s_out x /\ s_term (g x) = s_term x) ->
  ans (r_rid q) (upd f (r_sid r) (s_reply (g (f (r_sid r))) (rep r cd)) (r_sid q)) =
  ans (r_rid q) (f (r_sid q)) + (if s_term (f (r_sid q)) then 0 else if hit (r_rid q) r then 1 else 0).
Proof.
  intros q r f g cd Hi Hu Hg. unfold upd.
  destruct (Nat.eqb_spec (r_sid q) (r_sid r)) as [E|Hne].
  - rewrite <- E. rewrite ans_reply. destruct (Hg (f (r_sid q))) as [Ho Ht]. rewrite Ht.
    rewrite (ans_ext _ (g (f (r_sid q))) (f (r_sid q)) Ho).
    destruct (s_term (f (r_sid q))); [lia|]. rewrite hitp_rep. unfold hit. rewrite Hi. simpl. reflexivity.
  - destruct (hit (r_rid q) r) eqn:Eh; [|destruct (s_term (f (r_sid q))); lia].
    exfalso. apply Hne. rewrite (Hu eq_refl). reflexivity.
Qed.

Lemma g_id : forall x : sess, s_out x = s_out x /\ s_term x = s_term x. Proof. auto. Qed.
Lemma g_done : forall x : sess, s_out (s_donereq x) = s_out x /\ s_term (s_donereq x) = s_term x. Proof. auto. Qed.

Lemma cons_same : forall c l c' q, acct q c' = acct q c -> conserves0 c l c' q.
Proof. intros c l c' q X. split; [lia|auto]. Qed.

(* the consumed request r gets its reply *)
Lemma cons_answered : forall c l c' q r g cd,
  queuedN (r_rid q) c' + (if hit (r_rid q) r then 1 else 0) = queuedN (r_rid q) c ->
  ans (r_rid q) (c_sess c' (r_sid q)) =
    ans (r_rid q) (upd (c_sess c) (r_sid r) (s_reply (g (c_sess c (r_sid r))) (rep r cd)) (r_sid q)) ->
  s_term (c_sess c' (r_sid q)) = s_term (c_sess c (r_sid q)) ->
  r_init r = true -> (hit (r_rid q) r = true -> r = q) ->
  (forall x, s_out (g x) = s_out x /\ s_term (g x) = s_term x) ->
  conserves0 c l c' q.
Proof.
  intros c l c' q r g cd Hq Hs Hterm Hri Hu Hg. unfold conserves0, acct. rewrite Hs, Hterm.
  rewrite (ans_upd_reply q r (c_sess c) g cd Hri Hu Hg). split.
  - destruct (s_term (c_sess c (r_sid q))); destruct (hit (r_rid q) r); lia.
  - intros Ht0 _. left. rewrite Ht0. destruct (hit (r_rid q) r); lia.
Qed.

Ltac sess_eq := simpl; unfold on_sess, upd; simpl;
  repeat match goal with |- context [Nat.eqb ?a ?b] => destruct (Nat.eqb_spec a b); subst; simpl end;
  autorewrite with lc; simpl; try reflexivity; try congruence;
  try (apply ans_ext; simpl; autorewrite with lc; simpl; congruence).

(* the consumed request r vanishes at a step named in [lossy] *)
Lemma cons_dropped : forall c l c' q r,
  queuedN (r_rid q) c' + (if hit (r_rid q) r then 1 else 0) = queuedN (r_rid q) c ->
  ans (r_rid q) (c_sess c' (r_sid q)) = ans (r_rid q) (c_sess c (r_sid q)) ->
  lossy c l = true -> conserves0 c l c' q.
Proof.
  intros c l c' q r Hq Ha Hl. unfold conserves0, acct. rewrite Ha. split.
  - destruct (hit (r_rid q) r); lia.
  - intros _ X. congruence.
Qed.

Lemma cons_hubjoin : forall c c' q, exec HubJoin c = Some c' -> init_true c -> uniq q c -> conserves0 c HubJoin c' q.
Proof.
  intros c c' q Hs (H1 & _ & _) U. simpl in Hs.
  destruct (c_hjoin c) as [|r rest] eqn:E; [discriminate|]. simpl in Hs.
  assert (Hri : r_init r = true) by (apply H1; left; reflexivity).
  assert (Hu : hit (r_rid q) r = true -> r = q) by (apply U; left; rewrite E; left; reflexivity).
  destruct (c_table c (r_topic r)) as [i|].
  - destruct (inactive (c_inst c i)); inv_some.
    + apply (cons_answered _ _ _ q r s_donereq CLocked); auto using g_done; [|sess_eq].
      unfold queuedN. simpl. rewrite E, cR_cons. lia.
    + apply cons_same. acct_simpl. rewrite E, cR_cons. lia.
  - inv_some. apply cons_same. acct_simpl. rewrite E, cR_cons. lia.
Qed.

Lemma g_setsubs : forall l x, s_out (s_setsubs x l) = s_out x /\ s_term (s_setsubs x l) = s_term x. Proof. auto. Qed.

Lemma in_map_snd : forall (i : inst) (r : req) l, In (i, r) l -> In r (map snd l).
Proof. intros i r l H. apply (in_map snd) in H. exact H. Qed.

Lemma cons_topicreg : forall c i ok c' q, exec (TopicReg i ok) c = Some c' -> init_true c -> uniq q c -> conserves0 c (TopicReg i ok) c' q.
Proof.
  intros c i ok c' q Hs (_ & _ & H3) U. simpl in Hs.
  destruct (negb (is_run (i_phase (c_inst c i)))); [discriminate|].
  destruct (take_first i (c_treg c)) as [[r reg']|] eqn:E; [|discriminate].
  destruct (in_take_first _ _ _ _ _ E) as [Hin _].
  assert (Hri : r_init r = true) by (apply (H3 (i, r)); auto).
  assert (Hu : hit (r_rid q) r = true -> r = q).
  { apply U. right. right. left. eapply in_map_snd; eauto. }
  pose proof (cP_take_first (r_rid q) _ _ _ _ E) as Hc.
  simpl in Hs. inv_some.
  destruct (inactive (c_inst c i)).
  { apply (cons_answered _ _ _ q r (fun x => x) CLocked); auto using g_id; [unfold queuedN; simpl; lia| |]; sess_eq. }
  destruct (lookup _ _).
  { apply (cons_answered _ _ _ q r (fun x => x) CAlready); auto using g_id; [unfold queuedN; simpl; lia| |]; sess_eq. }
  destruct (verify_chan _ _ _) as [aC [|]].
  { apply (cons_answered _ _ _ q r (fun x => x) CNotFound); auto using g_id; [unfold queuedN; simpl; lia| |]; sess_eq. }
  destruct ok.
  - apply (cons_answered _ _ _ q r (fun x => s_setsubs x ((i_name (c_inst c i), i) :: s_subs x)) COk); auto using g_setsubs;
      [unfold queuedN; simpl; lia| |]; sess_eq.
  - apply (cons_answered _ _ _ q r (fun x => x) (if aC then CUseOther else CDenied)); auto using g_id; [unfold queuedN; simpl; lia| |]; sess_eq.
Qed.

Definition dels_init (c : config) : Prop := forall r, In (HDel r) (c_hunreg c) -> r_init r = true.

Lemma cons_hubunreg : forall c vis c' q, exec (HubUnreg vis) c = Some c' -> dels_init c -> uniq q c -> conserves0 c (HubUnreg vis) c' q.
Proof.
  intros c vis c' q Hs Hd U. simpl in Hs.
  destruct (c_hunreg c) as [|[t|r] rest] eqn:E; [discriminate| |]; simpl in Hs.
  - destruct (c_table c t); inv_some; apply cons_same; acct_simpl; rewrite E, cH_cons_unl; lia.
  - assert (Hu : hit (r_rid q) r = true -> r = q).
    { apply U. right. right. right. right. rewrite E. left. reflexivity. }
    assert (Hri : r_init r = true) by (apply Hd; rewrite E; left; reflexivity).
    assert (Hq : forall c2, c_hjoin c2 = c_hjoin c -> c_inits c2 = c_inits c -> c_treg c2 = c_treg c -> c_tunreg c2 = c_tunreg c ->
                 c_hunreg c2 = rest -> queuedN (r_rid q) c2 + (if hit (r_rid q) r then 1 else 0) = queuedN (r_rid q) c).
    { intros c2 E1 E2 E3 E4 E5. unfold queuedN. rewrite E1, E2, E3, E4, E5, E, cH_cons_del. lia. }
    destruct (c_table c (r_topic r)) as [i|] eqn:Et.
    + destruct (is_init (i_phase (c_inst c i)) && negb vis) eqn:El; inv_some.
      * apply (cons_dropped _ _ _ q r); [apply Hq; reflexivity|reflexivity|]. simpl. rewrite E, Et. exact El.
      * apply (cons_answered _ _ _ q r (fun x => x) COk); auto using g_id; first [apply Hq; reflexivity | sess_eq].
    + destruct (c_store c (r_topic r)); inv_some.
      * apply (cons_answered _ _ _ q r (fun x => x) COk); auto using g_id; first [apply Hq; reflexivity | sess_eq].
      * apply (cons_answered _ _ _ q r (fun x => x) CNoAction); auto using g_id; first [apply Hq; reflexivity | sess_eq].
Qed.

Lemma cons_hubunregfail : forall c c' q, exec HubUnregFail c = Some c' -> dels_init c -> uniq q c -> conserves0 c HubUnregFail c' q.
Proof.
  intros c c' q Hs Hd U. simpl in Hs.
  destruct (c_hunreg c) as [|[t|r] rest] eqn:E; try discriminate; simpl in Hs.
  assert (Hu : hit (r_rid q) r = true -> r = q).
  { apply U. right. right. right. right. rewrite E. left. reflexivity. }
  assert (Hri : r_init r = true) by (apply Hd; rewrite E; left; reflexivity).
  assert (Hq : forall c2, c_hjoin c2 = c_hjoin c -> c_inits c2 = c_inits c -> c_treg c2 = c_treg c -> c_tunreg c2 = c_tunreg c ->
               c_hunreg c2 = rest -> queuedN (r_rid q) c2 + (if hit (r_rid q) r then 1 else 0) = queuedN (r_rid q) c).
  { intros c2 E1 E2 E3 E4 E5. unfold queuedN. rewrite E1, E2, E3, E4, E5, E, cH_cons_del. lia. }
  destruct (c_table c (r_topic r)) as [i|] eqn:Et.
  + destruct (is_init (i_phase (c_inst c i))) eqn:El; [discriminate|]. inv_some.
    apply (cons_answered _ _ _ q r (fun x => x) CInternal); auto using g_id; first [apply Hq; reflexivity | sess_eq].
  + destruct (c_store c (r_topic r)); [|discriminate]. inv_some.
    apply (cons_answered _ _ _ q r (fun x => x) CInternal); auto using g_id; first [apply Hq; reflexivity | sess_eq].
Qed.

Lemma ans_detach : forall n x t, ans n (s_detach x t) = ans n x.
Proof. intros. unfold s_detach. destruct (s_term x); reflexivity. Qed.
Lemma ans_notice : forall n x cd t, ans n (s_reply x (mkRep None cd t)) = ans n x.
Proof. intros. rewrite ans_reply. destruct (s_term x); auto. Qed.
Lemma ans_donereq : forall n x, ans n (s_donereq x) = ans n x.
Proof. reflexivity. Qed.
Lemma hit_noninit : forall n r, r_init r = false -> hit n r = false.
Proof. intros n r H. unfold hit. now rewrite H. Qed.

Lemma cons_unreg_step : forall c i a e c' q, unreg_step c i a e = Some c' -> uniq q c -> conserves0 c (TopicUnreg i) c' q.
Proof.
  intros c i a e c' q Hs U. unfold unreg_step in Hs.
  destruct (negb (is_run (i_phase (c_inst c i)))); [discriminate|].
  destruct (take_first i (c_tunreg c)) as [[r unreg']|] eqn:E; [|discriminate].
  destruct (in_take_first _ _ _ _ _ E) as [Hin _].
  assert (Hu : hit (r_rid q) r = true -> r = q).
  { apply U. right. right. right. left. eapply in_map_snd; eauto. }
  pose proof (cP_take_first (r_rid q) _ _ _ _ E) as Hc.
  assert (Hq : forall c2, c_hjoin c2 = c_hjoin c -> c_inits c2 = c_inits c -> c_treg c2 = c_treg c -> c_tunreg c2 = unreg' ->
               c_hunreg c2 = c_hunreg c -> queuedN (r_rid q) c2 + (if hit (r_rid q) r then 1 else 0) = queuedN (r_rid q) c).
  { intros c2 E1 E2 E3 E4 E5. unfold queuedN. rewrite E1, E2, E3, E4, E5. lia. }
  simpl in Hs. inv_some.
  destruct (r_init r) eqn:Hri.
  - (* a client request *)
    destruct (inactive (c_inst c i)) eqn:Ein.
    { apply (cons_answered _ _ _ q r (fun x => x) CLocked); auto using g_id; first [apply Hq; reflexivity | sess_eq]. }
    destruct (r_kind r) as [|[|]|] eqn:Ek; simpl.
    + (* KSub: treated like a leave *)
      destruct (mem (r_sid r) (i_sessions (c_inst c i))) eqn:Em.
      * apply (cons_answered _ _ _ q r (fun x => s_setsubs x (remove_key (i_name (c_inst c i)) (s_subs x))) (if Bool.eqb (mem (r_sid r) (i_chansub (c_inst c i))) a then COk else CNotFound)); auto using g_setsubs;
          first [apply Hq; reflexivity | sess_eq].
      * apply (cons_dropped _ _ _ q r); [apply Hq; reflexivity|sess_eq|].
        simpl. rewrite E, Hri, Ein, Ek, Em. unfold is_leave. rewrite Ek. reflexivity.
    + (* unsubscribe *)
      destruct (Nat.eqb (c_user c (r_sid r)) (c_owner c (i_name (c_inst c i)))) eqn:Eo.
      * apply (cons_answered _ _ _ q r (fun x => x) CDenied); auto using g_id; first [apply Hq; reflexivity | sess_eq].
      * destruct e.
        { apply (cons_answered _ _ _ q r (fun x => x) CNotFound); auto using g_id; first [apply Hq; reflexivity | sess_eq]. }
        apply (cons_answered _ _ _ q r (fun x => x) COk); auto using g_id;
          first [apply Hq; reflexivity
                | simpl; unfold on_sess, upd; simpl;
                  repeat match goal with |- context [Nat.eqb ?a ?b] => destruct (Nat.eqb_spec a b); subst; simpl end;
                  repeat match goal with |- context [if ?b then _ else _] => destruct b eqn:?; simpl end;
                  rewrite ?ans_donereq, ?ans_notice, ?ans_detach, ?ans_donereq; autorewrite with lc; simpl; autorewrite with lc;
                  try reflexivity; try congruence;
                  try (apply ans_ext; simpl; autorewrite with lc; reflexivity) ].
    + (* leave *)
      destruct (mem (r_sid r) (i_sessions (c_inst c i))) eqn:Em.
      * apply (cons_answered _ _ _ q r (fun x => s_setsubs x (remove_key (i_name (c_inst c i)) (s_subs x))) (if Bool.eqb (mem (r_sid r) (i_chansub (c_inst c i))) a then COk else CNotFound)); auto using g_setsubs;
          first [apply Hq; reflexivity | sess_eq].
      * (* the session is not attached any more: nothing is said *)
        assert (Ha : ans (r_rid q) (c_sess (on_sess (set_tunreg c unreg') (r_sid r) s_donereq) (r_sid q)) = ans (r_rid q) (c_sess c (r_sid q))) by sess_eq.
        assert (Hq' := Hq (on_sess (set_tunreg c unreg') (r_sid r) s_donereq) eq_refl eq_refl eq_refl eq_refl eq_refl).
        unfold conserves0, acct. rewrite Ha. split; [destruct (hit (r_rid q) r); lia|].
        intros Ht Hl. destruct (hit (r_rid q) r) eqn:Eh; [|left; lia].
        right. pose proof (Hu eq_refl) as Hrq. subst r.
        simpl in Hl. rewrite E, Hri, Ein, Ek, Em in Hl. simpl in Hl.
        apply negb_false_iff in Hl. apply andb_true_iff in Hl. destruct Hl as [Hl1 Hl2].
        split; [lia|split; [exact Hl1|]].
        unfold noticed in *. simpl. unfold on_sess, upd. simpl. rewrite Nat.eqb_refl. simpl. exact Hl2.
    + (* KDel: treated like a leave *)
      destruct (mem (r_sid r) (i_sessions (c_inst c i))) eqn:Em.
      * apply (cons_answered _ _ _ q r (fun x => s_setsubs x (remove_key (i_name (c_inst c i)) (s_subs x))) (if Bool.eqb (mem (r_sid r) (i_chansub (c_inst c i))) a then COk else CNotFound)); auto using g_setsubs;
          first [apply Hq; reflexivity | sess_eq].
      * apply (cons_dropped _ _ _ q r); [apply Hq; reflexivity|sess_eq|].
        simpl. rewrite E, Hri, Ein, Ek, Em. unfold is_leave. rewrite Ek. reflexivity.
  - (* the session is being dropped: no reply is due *)
    rewrite (hit_noninit _ _ Hri) in *.
    apply cons_same. unfold acct.
    destruct (inactive (c_inst c i)); [|destruct (mem (r_sid r) (i_sessions (c_inst c i)))];
      (match goal with |- ans _ (c_sess ?c2 _) + _ = _ =>
         pose proof (Hq c2 eq_refl eq_refl eq_refl eq_refl eq_refl) as Hq';
         assert (Ha : ans (r_rid q) (c_sess c2 (r_sid q)) = ans (r_rid q) (c_sess c (r_sid q))) by sess_eq end);
      rewrite Ha; lia.
Qed.

Lemma is_notice_rep : forall t r cd, is_notice t (rep r cd) = false.
Proof. reflexivity. Qed.

Lemma noticed_pre404 : forall c r0 e q, noticed q (pre404 c r0 e) = noticed q c.
Proof.
  intros c r0 e q. unfold noticed, pre404. destruct e; auto. simpl. unfold upd.
  destruct (Nat.eqb_spec (r_sid q) (r_sid r0)) as [->|]; auto.
  unfold s_reply. destruct (s_term (c_sess c (r_sid r0))); auto. simpl.
  rewrite existsb_app. simpl. rewrite orb_false_r. reflexivity.
Qed.

Lemma lossy_unreg_pre404 : forall c r0 e i, lossy (pre404 c r0 e) (TopicUnreg i) = lossy c (TopicUnreg i).
Proof.
  intros c r0 e i. simpl. destruct (pre404_frame c r0 e) as (Ei & _ & _ & _ & _ & _ & _ & Eu & _). rewrite Ei, Eu.
  destruct (take_first i (c_tunreg c)) as [[r rest]|]; auto. rewrite noticed_pre404. reflexivity.
Qed.

Lemma cons_topicunreg : forall c i c' q, exec (TopicUnreg i) c = Some c' -> uniq q c -> conserves c (TopicUnreg i) c' q.
Proof.
  intros c i c' q Hs U.
  destruct (exec_unreg_inv _ _ _ Hs) as (r0 & rest0 & aC & eR & E & He & Hu).
  assert (U1 : uniq q (pre404 c r0 eR)).
  { intros r Hr Hh. apply U; auto. apply (inq_pre404 c r0 eR r). exact Hr. }
  pose proof (cons_unreg_step _ _ _ _ _ q Hu U1) as [A B].
  destruct eR.
  - (* the 404 of l.697-702 was queued: the request is answered a second time below *)
    destruct (He eq_refl) as (Hri & Hch & Hic).
    assert (Hn : noisy c (TopicUnreg i) = true) by (simpl; rewrite E, Hri, Hch, Hic; reflexivity).
    destruct (in_take_first _ _ _ _ _ E) as [Hin _].
    assert (Hu0 : hit (r_rid q) r0 = true -> r0 = q).
    { apply U. right. right. right. left. eapply in_map_snd; eauto. }
    assert (X : acct q (pre404 c r0 true) <= acct q c + (if hit (r_rid q) r0 then 1 else 0)).
    { unfold acct, queuedN. destruct (pre404_frame c r0 true) as (_ & _ & _ & -> & -> & -> & -> & -> & _).
      unfold pre404. simpl. rewrite (ans_upd_reply q r0 (c_sess c) (fun x => x) CNotFound Hri Hu0 g_id).
      destruct (s_term (c_sess c (r_sid q))); destruct (hit (r_rid q) r0); lia. }
    split.
    + unfold extra. rewrite E, Hn. simpl. lia.
    + intros _ _ Hq. congruence.
  - unfold pre404 in *. split; [lia|]. intros Ht Hl _. apply B; auto.
Qed.

(* the drain of a failed topic's unreg queue answers every client request it removes *)
Lemma drain_acct : forall q i l f l' f',
  drain_unreg i l f = (l', f') ->
  (forall x, In x l -> hit (r_rid q) (snd x) = true -> snd x = q) ->
  s_term (f' (r_sid q)) = s_term (f (r_sid q)) /\
  cP (r_rid q) l' + ans (r_rid q) (f' (r_sid q)) <= cP (r_rid q) l + ans (r_rid q) (f (r_sid q)) /\
  (s_term (f (r_sid q)) = false -> cP (r_rid q) l' + ans (r_rid q) (f' (r_sid q)) = cP (r_rid q) l + ans (r_rid q) (f (r_sid q))).
Proof.
  intros q i. induction l as [|[j r] rest IH]; intros f l' f' H Hu; simpl in H.
  - inversion H; subst. repeat split; auto.
  - assert (Hu' : forall x, In x rest -> hit (r_rid q) (snd x) = true -> snd x = q) by (intros; apply Hu; auto; right; auto).
    assert (Hur : hit (r_rid q) r = true -> r = q) by (apply (Hu (j, r)); left; reflexivity).
    rewrite cP_cons. destruct (Nat.eqb i j).
    + destruct (IH _ _ _ H Hu') as (A & B & C). clear IH.
      destruct (r_init r) eqn:Hri.
      * pose proof (ans_upd_reply q r f s_donereq CLocked Hri Hur g_done) as X.
        assert (Y : s_term (upd f (r_sid r) (s_reply (s_donereq (f (r_sid r))) (rep r CLocked)) (r_sid q)) = s_term (f (r_sid q))).
        { unfold upd. destruct (Nat.eqb_spec (r_sid q) (r_sid r)) as [Eq|]; auto. rewrite s_reply_term. simpl. rewrite Eq. reflexivity. }
        rewrite X in B, C. rewrite Y in A, C. split; [exact A|split].
        -- destruct (s_term (f (r_sid q))); destruct (hit (r_rid q) r); lia.
        -- intros Ht. specialize (C Ht). rewrite Ht in C. destruct (hit (r_rid q) r); lia.
      * rewrite (hit_noninit _ _ Hri).
        assert (X : upd f (r_sid r) (f (r_sid r)) (r_sid q) = f (r_sid q)).
        { unfold upd. destruct (Nat.eqb_spec (r_sid q) (r_sid r)) as [Eq|]; auto; rewrite Eq; reflexivity. }
        rewrite X in A, B, C. auto.
    + destruct (drain_unreg i rest f) as [l2 f2] eqn:E. inversion H; subst.
      destruct (IH _ _ _ E Hu') as (A & B & C). rewrite cP_cons. split; [exact A|split].
      * lia.
      * intros Ht. specialize (C Ht). lia.
Qed.

Lemma cons_initdone : forall c i ok c' q, exec (InitDone i ok) c = Some c' -> init_true c -> uniq q c -> conserves0 c (InitDone i ok) c' q.
Proof.
  intros c i ok c' q Hs (_ & H2 & _) U. simpl in Hs.
  destruct (negb (is_init (i_phase (c_inst c i)))); [discriminate|].
  destruct (take_first i (c_inits c)) as [[r inits']|] eqn:E; [|discriminate].
  destruct (in_take_first _ _ _ _ _ E) as [Hin _].
  assert (Hri : r_init r = true) by (apply (H2 (i, r)); auto).
  assert (Hu : hit (r_rid q) r = true -> r = q).
  { apply U. right. left. eapply in_map_snd; eauto. }
  pose proof (cP_take_first (r_rid q) _ _ _ _ E) as Hc.
  simpl in Hs. destruct ok.
  - destruct (negb (c_store c (i_name (c_inst c i)))); [discriminate|].
    destruct (i_deleted (c_inst c i)) eqn:Edl; inv_some.
    + apply (cons_dropped _ _ _ q r); [unfold queuedN; simpl; lia|sess_eq|simpl; exact Edl].
    + apply cons_same. acct_simpl. lia.
  - unfold requeue_reg in Hs. simpl in Hs.
    destruct (drain_unreg i (c_tunreg c) _) as [unreg' f'] eqn:Ed. simpl in Hs.
    pose proof (cP_requeue (r_rid q) i (c_treg c)) as Hrq. unfold requeue_reg in Hrq. simpl in Hrq.
    assert (Hud : forall x, In x (c_tunreg c) -> hit (r_rid q) (snd x) = true -> snd x = q).
    { intros x Hx Hh. apply U; auto. right. right. right. left. apply in_map. exact Hx. }
    destruct (drain_acct q _ _ _ _ _ Ed Hud) as (A & B & C).
    pose proof (ans_upd_reply q r (c_sess c) (fun x => x) CNotFound Hri Hu g_id) as X.
    assert (Y : s_term (upd (c_sess c) (r_sid r) (s_reply (c_sess c (r_sid r)) (rep r CNotFound)) (r_sid q)) = s_term (c_sess c (r_sid q))).
    { unfold upd. destruct (Nat.eqb_spec (r_sid q) (r_sid r)) as [Eq|]; auto. rewrite s_reply_term. rewrite Eq. reflexivity. }
    unfold upd in X, Y. unfold on_sess, upd in A, B, C. simpl in A, B, C.
    rewrite X in B, C. rewrite Y in A, C.
    assert (Hfin : forall c2,
              queuedN (r_rid q) c2 = cR (r_rid q) (c_hjoin c ++ map snd (filter (fun x => i =? fst x) (c_treg c))) + cP (r_rid q) inits' +
                                     cP (r_rid q) (filter (fun x => negb (i =? fst x)) (c_treg c)) + cP (r_rid q) unreg' + cH (r_rid q) (c_hunreg c) ->
              ans (r_rid q) (c_sess c2 (r_sid q)) = ans (r_rid q) (f' (r_sid q)) ->
              s_term (c_sess c2 (r_sid q)) = s_term (f' (r_sid q)) ->
              conserves0 c (InitDone i false) c2 q).
    { intros c2 E1 E2 E3. unfold conserves0, acct. rewrite E1, E2, E3, A, cR_app. unfold queuedN. split.
      - destruct (s_term (c_sess c (r_sid q))); destruct (hit (r_rid q) r); lia.
      - intros Ht _. left. specialize (C Ht). rewrite Ht in C. destruct (hit (r_rid q) r); lia. }
    destruct (take_first i (c_texit c)) as [[b exit']|]; inv_some; apply Hfin; try reflexivity;
      simpl; unfold on_sess, upd; simpl; destruct (Nat.eqb_spec (r_sid q) (r_sid r)) as [Eq|]; try reflexivity;
      rewrite <- ?Eq; reflexivity.
Qed.

Lemma conserves_step : forall c l c' q,
  step c l c' -> init_true c -> dels_init c -> uniq q c -> (r_rid q <> c_nextrid c \/ issue c l = []) -> conserves c l c' q.
Proof.
  intros c l c' q Hs IT DI U Hn. unfold step in Hs.
  destruct l as [s0 t0 ch0|s0 t0 u0 ch0|s0 t0| |i ok|i ok|i|i s0|i|vis|i|s0|s0|s0|].
  - apply conserves0_conserves. eapply cons_client_sub; eauto. destruct Hn as [Hn|Hn]; [exact Hn|discriminate].
  - apply conserves0_conserves. eapply cons_client_leave; eauto. destruct Hn as [Hn|Hn]; [exact Hn|discriminate].
  - apply conserves0_conserves. eapply cons_client_del; eauto. destruct Hn as [Hn|Hn]; [exact Hn|discriminate].
  - apply conserves0_conserves. eapply cons_hubjoin; eauto.
  - apply conserves0_conserves. eapply cons_initdone; eauto.
  - apply conserves0_conserves. eapply cons_topicreg; eauto.
  - eapply cons_topicunreg; eauto.
  - (* Evict *)
    simpl in Hs. destruct (negb (is_run (i_phase (c_inst c i))) || negb (mem s0 (i_sessions (c_inst c i)))); [discriminate|].
    destruct (inactive (c_inst c i)); inv_some; apply conserves0_conserves; apply cons_same; auto.
    unfold acct, queuedN. simpl. f_equal. sess_eq.
  - simpl in Hs. destruct (negb (is_run (i_phase (c_inst c i)))); [discriminate|].
    destruct (i_sessions (c_inst c i)); inv_some. apply conserves0_conserves. apply cons_same. acct_simpl. lia.
  - apply conserves0_conserves. eapply cons_hubunreg; eauto.
  - (* TopicExit *)
    simpl in Hs. destruct (negb (is_run (i_phase (c_inst c i)))); [discriminate|].
    destruct (take_first i (c_texit c)) as [[b exit']|]; inv_some. apply conserves0_conserves. apply cons_same.
    unfold acct, queuedN. simpl. f_equal. destruct (mem (r_sid q) (i_sessions (c_inst c i))); auto. apply ans_detach.
  - simpl in Hs. destruct (s_detachq (c_sess c s0)); inv_some. apply conserves0_conserves. apply cons_same.
    unfold acct, queuedN. simpl. f_equal. sess_eq.
  - simpl in Hs. destruct (s_term (c_sess c s0)); inv_some. apply conserves0_conserves. apply cons_same.
    unfold acct, queuedN. simpl. f_equal. sess_eq.
  - simpl in Hs. destruct (negb (s_term (c_sess c s0)) || s_done (c_sess c s0) || negb (s_inflight (c_sess c s0) =? 0)); inv_some.
    apply conserves0_conserves. apply cons_same. unfold acct, queuedN. simpl. rewrite cP_app, cP_all_internal by reflexivity. f_equal; [sess_eq|lia].
  - apply conserves0_conserves. eapply cons_hubunregfail; eauto.
Qed.

(* ---------- the invariant over instrumented executions ---------- *)

Inductive reachI (st : tid -> bool) (ow : tid -> uid) (us : sid -> uid) : config -> list req -> Prop :=
| ri_init : forall ch, reachI st ow us (init_config st ow us ch) []
| ri_step : forall c iss l c', reachI st ow us c iss -> step c l c' -> reachI st ow us c' (issue c l ++ iss).

(* executions in which the step that answers twice does not occur *)
Inductive reachI_nd (st : tid -> bool) (ow : tid -> uid) (us : sid -> uid) : config -> list req -> Prop :=
| rn_init : forall ch, reachI_nd st ow us (init_config st ow us ch) []
| rn_step : forall c iss l c', reachI_nd st ow us c iss -> noisy c l = false -> step c l c' ->
                               reachI_nd st ow us c' (issue c l ++ iss).

(* executions in which none of the silent steps occurs, nor the one that answers twice *)
Inductive reachI_ok (st : tid -> bool) (ow : tid -> uid) (us : sid -> uid) : config -> list req -> Prop :=
| rk_init : forall ch, reachI_ok st ow us (init_config st ow us ch) []
| rk_step : forall c iss l c', reachI_ok st ow us c iss -> lossy c l = false -> noisy c l = false -> step c l c' ->
                               reachI_ok st ow us c' (issue c l ++ iss).

Lemma reachI_ok_reachI : forall st ow us c iss, reachI_ok st ow us c iss -> reachI st ow us c iss.
Proof. induction 1; [constructor|econstructor; eauto]. Qed.

Lemma reachI_nd_reachI : forall st ow us c iss, reachI_nd st ow us c iss -> reachI st ow us c iss.
Proof. induction 1; [constructor|econstructor; eauto]. Qed.

Lemma reachI_ok_nd : forall st ow us c iss, reachI_ok st ow us c iss -> reachI_nd st ow us c iss.
Proof. induction 1; [constructor|econstructor; eauto]. Qed.

Lemma reachI_reach : forall st ow us c iss, reachI st ow us c iss -> reach st ow us c.
Proof. induction 1; [constructor|econstructor; eauto]. Qed.

Lemma reach_reachI : forall st ow us c, reach st ow us c -> exists iss, reachI st ow us c iss.
Proof. induction 1 as [ch|c l c' Hr [iss IH] Hs]; [exists []; constructor|]. exists (issue c l ++ iss). econstructor; eauto. Qed.

Definition fresh (c : config) : Prop :=
  forall s n, c_nextrid c <= n -> ans n (c_sess c s) = 0 /\ queuedN n c = 0.

Lemma cR_in_pos : forall n l r, In r l -> hit n r = true -> 0 < cR n l.
Proof.
  induction l as [|x rest IH]; intros r Hin Hh; [contradiction|]. rewrite cR_cons.
  destruct Hin as [->|Hin]; [rewrite Hh; lia|]. specialize (IH _ Hin Hh). lia.
Qed.

Lemma inq_hit_pos : forall n c r, inq r c -> hit n r = true -> 0 < queuedN n c.
Proof.
  intros n c r H Hh. unfold queuedN, cP, cH. destruct H as [H|[H|[H|[H|H]]]].
  - pose proof (cR_in_pos n _ _ H Hh). lia.
  - pose proof (cR_in_pos n _ _ H Hh). lia.
  - pose proof (cR_in_pos n _ _ H Hh). lia.
  - pose proof (cR_in_pos n _ _ H Hh). lia.
  - apply in_dels in H. pose proof (cR_in_pos n _ _ H Hh). lia.
Qed.

Lemma nextrid_unreg_step : forall c i a e c', unreg_step c i a e = Some c' -> c_nextrid c' = c_nextrid c.
Proof.
  intros c i a e c' Hs. unfold unreg_step in Hs.
  destruct (negb (is_run (i_phase (c_inst c i)))); [discriminate|].
  destruct (take_first i (c_tunreg c)) as [[q unreg']|]; [|discriminate]. simpl in Hs. inv_some.
  destruct (inactive (c_inst c i)); destruct (r_init q); try (destruct (r_kind q) as [|[|]|]); simpl;
    repeat match goal with |- context [if ?b then _ else _] => destruct b eqn:?; simpl end; auto.
Qed.

Lemma nextrid_step : forall c l c', step c l c' ->
  (issue c l = [] /\ c_nextrid c' = c_nextrid c) \/
  (exists q, issue c l = [q] /\ r_rid q = c_nextrid c /\ r_init q = true /\ c_nextrid c' = S (c_nextrid c) /\
             s_term (c_sess c (r_sid q)) = false).
Proof.
  intros c l c' Hs. unfold step in Hs.
  destruct l as [s0 t0 ch0|s0 t0 u0 ch0|s0 t0| |i ok|i ok|i|i s0|i|vis|i|s0|s0|s0|]; simpl in Hs;
    try (left; split; [reflexivity|]; exec_split Hs; inv_some; reflexivity).
  - right. destruct (s_term (c_sess c s0)) eqn:Et; [discriminate|]. exec_split Hs; inv_some; eexists; simpl; repeat split; auto.
  - right. destruct (s_term (c_sess c s0)) eqn:Et; [discriminate|]. exec_split Hs; inv_some; eexists; simpl; repeat split; auto.
  - right. destruct (s_term (c_sess c s0)) eqn:Et; [discriminate|]. exec_split Hs; inv_some; eexists; simpl; repeat split; auto.
  - left. split; [reflexivity|].
    destruct (exec_unreg_inv _ _ _ Hs) as (r0 & rest0 & aC & eR & _ & _ & Hu).
    rewrite (nextrid_unreg_step _ _ _ _ _ Hu).
    destruct (pre404_frame c r0 eR) as (_ & _ & _ & _ & _ & _ & _ & _ & _ & _ & _ & _ & -> & _). reflexivity.
Qed.

Lemma hunreg_unreg_step : forall c i a e c', unreg_step c i a e = Some c' -> c_hunreg c' = c_hunreg c.
Proof.
  intros c i a e c' Hs. unfold unreg_step in Hs.
  destruct (negb (is_run (i_phase (c_inst c i)))); [discriminate|].
  destruct (take_first i (c_tunreg c)) as [[q unreg']|]; [|discriminate]. simpl in Hs. inv_some.
  destruct (inactive (c_inst c i)); destruct (r_init q); try (destruct (r_kind q) as [|[|]|]); simpl;
    repeat match goal with |- context [if ?b then _ else _] => destruct b eqn:?; simpl end; auto.
Qed.

Lemma dels_init_step : forall c l c', dels_init c -> step c l c' -> dels_init c'.
Proof.
  intros c l c' H Hs r Hin.
  destruct (r_init r) eqn:Hri; auto. exfalso.
  (* a delete message in the hub's queue either was there or has just been issued by ClientDel *)
  unfold step in Hs.
  destruct l as [s0 t0 ch0|s0 t0 u0 ch0|s0 t0| |i ok|i ok|i|i s0|i|vis|i|s0|s0|s0|]; simpl in Hs.
  - exec_split Hs; inv_some; simpl in Hin; apply H in Hin; congruence.
  - exec_split Hs; inv_some; simpl in Hin; apply H in Hin; congruence.
  - exec_split Hs; inv_some. simpl in Hin. apply in_app_or in Hin. destruct Hin as [Hin|[Hin|[]]]; [apply H in Hin; congruence|].
    inversion Hin; subst. discriminate.
  - exec_split Hs; inv_some; simpl in Hin; apply H in Hin; congruence.
  - destruct (negb (is_init (i_phase (c_inst c i)))); [discriminate|].
    destruct (take_first i (c_inits c)) as [[q inits']|]; [|discriminate]. simpl in Hs. destruct ok.
    + exec_split Hs; inv_some; simpl in Hin; apply H in Hin; congruence.
    + unfold requeue_reg in Hs. simpl in Hs. destruct (drain_unreg i (c_tunreg c) _) as [u f]. simpl in Hs.
      destruct (take_first i (c_texit c)) as [[b e]|]; inv_some; simpl in Hin; apply H in Hin; congruence.
  - destruct (negb (is_run (i_phase (c_inst c i)))); [discriminate|].
    destruct (take_first i (c_treg c)) as [[q reg']|]; [|discriminate]. simpl in Hs. inv_some.
    assert (X : In (HDel r) (c_hunreg c)).
    { revert Hin. destruct (inactive (c_inst c i)); [|destruct (lookup _ _); [|destruct (verify_chan _ _ _) as [aC [|]]; [|destruct ok]]]; simpl; auto. }
    apply H in X. congruence.
  - destruct (exec_unreg_inv _ _ _ Hs) as (r0 & rest0 & aC & eR & _ & _ & Hu).
    rewrite (hunreg_unreg_step _ _ _ _ _ Hu) in Hin.
    destruct (pre404_frame c r0 eR) as (_ & _ & _ & _ & E5 & _). rewrite E5 in Hin. apply H in Hin. congruence.
  - exec_split Hs; inv_some; simpl in Hin; apply H in Hin; congruence.
  - exec_split Hs; inv_some. simpl in Hin. apply in_app_or in Hin. destruct Hin as [Hin|[Hin|[]]]; [apply H in Hin; congruence|discriminate].
  - destruct (c_hunreg c) as [|[t1|q] rest] eqn:E; [discriminate| |]; simpl in Hs.
    + assert (X : In (HDel r) rest) by (destruct (c_table c t1); inv_some; simpl in Hin; exact Hin).
      assert (Y : In (HDel r) (c_hunreg c)) by (rewrite E; right; exact X). apply H in Y. congruence.
    + assert (X : In (HDel r) rest).
      { destruct (c_table c (r_topic q)) as [i|]; [destruct (is_init (i_phase (c_inst c i)) && negb vis)|destruct (c_store c (r_topic q))];
          inv_some; simpl in Hin; exact Hin. }
      assert (Y : In (HDel r) (c_hunreg c)) by (rewrite E; right; exact X). apply H in Y. congruence.
  - exec_split Hs; inv_some; simpl in Hin; apply H in Hin; congruence.
  - exec_split Hs; inv_some; simpl in Hin; apply H in Hin; congruence.
  - exec_split Hs; inv_some; simpl in Hin; apply H in Hin; congruence.
  - exec_split Hs; inv_some; simpl in Hin; apply H in Hin; congruence.
  - (* HubUnregFail *)
    destruct (c_hunreg c) as [|[tq|q] rest] eqn:E; try discriminate; simpl in Hs.
    destruct (c_table c (r_topic q)) as [i|] eqn:Et.
    + destruct (is_init (i_phase (c_inst c i))) eqn:Ei; [discriminate|]. inv_some; simpl in Hin; assert (Y : In (HDel r) (c_hunreg c)) by (rewrite E; right; exact Hin); apply H in Y; congruence.
    + destruct (c_store c (r_topic q)) eqn:Est; [|discriminate]. inv_some; simpl in Hin; assert (Y : In (HDel r) (c_hunreg c)) by (rewrite E; right; exact Hin); apply H in Y; congruence.
Qed.

Record inv_rep (c : config) (iss : list req) : Prop := mkIR {
  ir_inq : forall r, r_init r = true -> inq r c -> In r iss;
  ir_iss : forall q, In q iss -> r_rid q < c_nextrid c /\ r_init q = true;
  ir_nodup : NoDup (map r_rid iss);
  ir_dels : dels_init c;
  ir_fresh : fresh c }.

Lemma NoDup_map_inj : forall (A B : Type) (f : A -> B) (l : list A) a b,
  NoDup (map f l) -> In a l -> In b l -> f a = f b -> a = b.
Proof.
  induction l as [|x r IH]; intros a b Hn Ha Hb E; [contradiction|].
  simpl in Hn. inversion Hn as [|? ? Hx Hr]; subst.
  destruct Ha as [->|Ha]; destruct Hb as [->|Hb]; auto.
  - exfalso. apply Hx. rewrite E. apply in_map. exact Hb.
  - exfalso. apply Hx. rewrite <- E. apply in_map. exact Ha.
Qed.

Lemma hit_true : forall n r, hit n r = true -> r_init r = true /\ r_rid r = n.
Proof. intros n r H. unfold hit in H. apply andb_true_iff in H. destruct H as [A B]. apply Nat.eqb_eq in B. auto. Qed.

Lemma uniq_of_inv : forall c iss q, inv_rep c iss -> In q iss -> uniq q c.
Proof.
  intros c iss q [I1 I2 I3 _ _] Hq r Hr Hh. destruct (hit_true _ _ Hh) as [A B].
  eapply NoDup_map_inj; eauto.
Qed.

Lemma uniq_fresh : forall c q, fresh c -> c_nextrid c <= r_rid q -> uniq q c.
Proof.
  intros c q F Hn r Hr Hh. exfalso. destruct (F (r_sid q) (r_rid q) Hn) as [_ Q].
  pose proof (inq_hit_pos _ _ _ Hr Hh). lia.
Qed.

(* the request just issued is counted once *)
Lemma new_acct : forall c l c' q, step c l c' -> fresh c -> issue c l = [q] -> acct q c' = 1.
Proof.
  intros c l c' q Hs F Hi. unfold step in Hs.
  destruct l as [s0 t0 ch0|s0 t0 u0 ch0|s0 t0| |i ok|i ok|i|i s0|i|vis|i|s0|s0|s0|]; simpl in Hi; try discriminate; inversion Hi; subst q; clear Hi; simpl in Hs.
  - destruct (F s0 (c_nextrid c) (le_n _)) as [A Q]. unfold queuedN in Q.
    destruct (s_term (c_sess c s0)) eqn:Et; [discriminate|]. simpl in Hs.
    destruct (negb (s_inflight (c_sess c s0) =? 0)); [discriminate|].
    destruct (lookup t0 (s_subs (c_sess c s0))); inv_some; acct_simpl; rewrite Nat.eqb_refl.
    + rewrite ans_reply, Et, hitp_rep. simpl. rewrite Nat.eqb_refl. lia.
    + unfold hit. simpl. rewrite Nat.eqb_refl. simpl. change (ans (c_nextrid c) (s_addreq (c_sess c s0))) with (ans (c_nextrid c) (c_sess c s0)). lia.
  - destruct (F s0 (c_nextrid c) (le_n _)) as [A Q]. unfold queuedN in Q.
    destruct (s_term (c_sess c s0)) eqn:Et; [discriminate|]. simpl in Hs.
    destruct (negb (s_inflight (c_sess c s0) =? 0)); [discriminate|].
    destruct (lookup t0 (s_subs (c_sess c s0))); inv_some; acct_simpl; rewrite Nat.eqb_refl.
    + unfold hit. simpl. rewrite Nat.eqb_refl. simpl. change (ans (c_nextrid c) (s_addreq (c_sess c s0))) with (ans (c_nextrid c) (c_sess c s0)). lia.
    + rewrite ans_reply, Et, hitp_rep. simpl. rewrite Nat.eqb_refl. lia.
  - destruct (F s0 (c_nextrid c) (le_n _)) as [A Q]. unfold queuedN in Q.
    destruct (s_term (c_sess c s0) || negb (c_user c s0 =? c_owner c t0)); [discriminate|]. inv_some.
    acct_simpl. unfold hit. simpl. rewrite Nat.eqb_refl. simpl. lia.
Qed.

Lemma inv_rep_init : forall st ow us ch, inv_rep (init_config st ow us ch) [].
Proof.
  intros. constructor; simpl; intros; try contradiction.
  - unfold inq in H0. simpl in H0. tauto.
  - constructor.
  - intros r Hr. contradiction.
  - intros s n Hn. split; reflexivity.
Qed.

(* a request id that has not been issued yet is not the one the noisy step answers twice *)
Lemma extra_fresh : forall c l q, fresh c -> c_nextrid c <= r_rid q -> extra c l q = 0.
Proof.
  intros c l q F Hn. destruct l; simpl; auto.
  destruct (take_first i (c_tunreg c)) as [[r rest]|] eqn:E; auto.
  destruct (hit (r_rid q) r) eqn:Hh; [|rewrite andb_false_r; reflexivity]. exfalso.
  destruct (in_take_first _ _ _ _ _ E) as [Hin _].
  destruct (F (r_sid q) (r_rid q) Hn) as [_ Q].
  assert (X : inq r c) by (right; right; right; left; eapply in_map_snd; eauto).
  pose proof (inq_hit_pos _ _ _ X Hh). lia.
Qed.

Lemma inv_rep_step : forall c iss l c', inv_rep c iss -> init_true c -> step c l c' -> inv_rep c' (issue c l ++ iss).
Proof.
  intros c iss l c' I IT Hs. pose proof I as [I1 I2 I3 I4 I5].
  pose proof (nextrid_step _ _ _ Hs) as Hn.
  constructor.
  - intros r Hi Hr. apply in_or_app. destruct (inq_step _ _ _ Hs r Hi Hr); auto.
  - intros q Hq. apply in_app_or in Hq. destruct Hn as [(E & En)|(q0 & E & A & B & En & _)]; rewrite E in Hq; simpl in Hq.
    + destruct Hq as [[]|Hq]. rewrite En. apply I2; auto.
    + destruct Hq as [[<-|[]]|Hq]; [rewrite En; split; auto; lia|]. destruct (I2 _ Hq). rewrite En. split; auto; lia.
  - destruct Hn as [(E & En)|(q0 & E & A & B & En & _)]; rewrite E; simpl; auto.
    constructor; auto. intros Hin. apply in_map_iff in Hin. destruct Hin as (x & Ex & Hx). destruct (I2 _ Hx). lia.
  - eapply dels_init_step; eauto.
  - intros s n Hle.
    assert (Hle0 : c_nextrid c <= n) by (destruct Hn as [(_ & En)|(q0 & _ & _ & _ & En & _)]; lia).
    set (q := mkReq s n KSub 0 true false).
    assert (U : uniq q c) by (apply uniq_fresh; auto).
    assert (Hd : r_rid q <> c_nextrid c \/ issue c l = []).
    { destruct Hn as [(E & _)|(q0 & _ & _ & _ & En & _)]; [right; exact E|left; simpl; lia]. }
    destruct (conserves_step _ _ _ q Hs IT I4 U Hd) as [Hc _].
    rewrite (extra_fresh c l q I5 Hle0) in Hc.
    destruct (I5 s n Hle0) as [A Q]. unfold acct in Hc. simpl in Hc. lia.
Qed.

Lemma inv_rep_reach : forall st ow us c iss, reachI st ow us c iss -> inv_rep c iss.
Proof.
  induction 1; [apply inv_rep_init|]. apply inv_rep_step; auto.
  eapply init_true_reach. eapply reachI_reach; eauto.
Qed.

(* ---------- the outbox only grows ---------- *)

Lemma in_out_reply : forall x p p0, In p (s_out x) -> In p (s_out (s_reply x p0)).
Proof. intros x p p0 H. unfold s_reply. destruct (s_term x); auto. simpl. apply in_or_app. auto. Qed.
Lemma in_out_detach : forall x p t, In p (s_out x) -> In p (s_out (s_detach x t)).
Proof. intros x p t H. unfold s_detach. destruct (s_term x); auto. Qed.

Lemma drain_unreg_out : forall i l f l' f', drain_unreg i l f = (l', f') ->
  forall s p, In p (s_out (f s)) -> In p (s_out (f' s)).
Proof.
  induction l as [|[j r] rest IH]; intros f l' f' H s p Hin; simpl in H.
  - inversion H; subst. auto.
  - destruct (Nat.eqb i j).
    + eapply IH; eauto. unfold upd. destruct (Nat.eqb_spec s (r_sid r)) as [->|]; auto.
      destruct (r_init r); auto. apply in_out_reply. exact Hin.
    + destruct (drain_unreg i rest f) as [l2 f2] eqn:E. inversion H; subst. eapply IH; eauto.
Qed.

Ltac out_tac :=
  simpl; unfold on_sess, upd; simpl;
  repeat first
    [ match goal with |- context [Nat.eqb ?a ?b] => destruct (Nat.eqb_spec a b); subst; simpl end
    | match goal with |- context [if ?b then _ else _] => destruct b eqn:?; simpl end ];
  repeat first [apply in_out_reply | apply in_out_detach]; simpl; auto; try congruence.

Lemma out_unreg_step : forall c i a e c', unreg_step c i a e = Some c' ->
  forall s p, In p (s_out (c_sess c s)) -> In p (s_out (c_sess c' s)).
Proof.
  intros c i a e c' Hs s p Hin. unfold unreg_step in Hs.
  destruct (negb (is_run (i_phase (c_inst c i)))); [discriminate|].
  destruct (take_first i (c_tunreg c)) as [[r unreg']|]; [|discriminate]. simpl in Hs. inv_some.
  destruct (inactive (c_inst c i)); destruct (r_init r); try (destruct (r_kind r) as [|[|]|]); out_tac.
Qed.

Lemma out_grows : forall c l c', step c l c' -> forall s p, In p (s_out (c_sess c s)) -> In p (s_out (c_sess c' s)).
Proof.
  intros c l c' Hs s p Hin. unfold step in Hs.
  destruct l as [s0 t0 ch0|s0 t0 u0 ch0|s0 t0| |i ok|i ok|i|i s0|i|vis|i|s0|s0|s0|]; simpl in Hs.
  - exec_split Hs; inv_some; out_tac.
  - exec_split Hs; inv_some; out_tac.
  - exec_split Hs; inv_some; out_tac.
  - exec_split Hs; inv_some; out_tac.
  - destruct (negb (is_init (i_phase (c_inst c i)))); [discriminate|].
    destruct (take_first i (c_inits c)) as [[r inits']|]; [|discriminate]. simpl in Hs. destruct ok.
    + exec_split Hs; inv_some; out_tac.
    + unfold requeue_reg in Hs. simpl in Hs.
      destruct (drain_unreg i (c_tunreg c) _) as [unreg' f'] eqn:Ed. simpl in Hs.
      assert (X : In p (s_out (f' s))).
      { eapply drain_unreg_out; eauto. out_tac. }
      destruct (take_first i (c_texit c)) as [[b e]|]; inv_some; out_tac.
  - destruct (negb (is_run (i_phase (c_inst c i)))); [discriminate|].
    destruct (take_first i (c_treg c)) as [[r reg']|]; [|discriminate]. simpl in Hs. inv_some.
    destruct (inactive (c_inst c i)); [|destruct (lookup _ _); [|destruct (verify_chan _ _ _) as [aC [|]]; [|destruct ok]]]; out_tac.
  - destruct (exec_unreg_inv _ _ _ Hs) as (r0 & rest0 & aC & eR & _ & _ & Hu).
    eapply out_unreg_step; [exact Hu|]. unfold pre404. destruct eR; auto. out_tac.
  - exec_split Hs; inv_some; out_tac.
  - exec_split Hs; inv_some; out_tac.
  - destruct (c_hunreg c) as [|[t1|q] rest]; [discriminate| |]; simpl in Hs.
    + destruct (c_table c t1); inv_some; out_tac.
    + destruct (c_table c (r_topic q)) as [j|]; [destruct (is_init (i_phase (c_inst c j)) && negb vis)|destruct (c_store c (r_topic q))];
        inv_some; out_tac.
  - exec_split Hs; inv_some; out_tac.
  - exec_split Hs; inv_some; out_tac.
  - exec_split Hs; inv_some; out_tac.
  - exec_split Hs; inv_some; out_tac.
  - (* HubUnregFail *)
    destruct (c_hunreg c) as [|[tq|q] rest] eqn:E; try discriminate; simpl in Hs.
    destruct (c_table c (r_topic q)) as [i|] eqn:Et.
    + destruct (is_init (i_phase (c_inst c i))) eqn:Ei; [discriminate|]. inv_some; out_tac.
    + destruct (c_store c (r_topic q)) eqn:Est; [|discriminate]. inv_some; out_tac.
Qed.

Lemma noticed_mono : forall c l c' q, step c l c' -> noticed q c = true -> noticed q c' = true.
Proof.
  intros c l c' q Hs H. unfold noticed in *. apply existsb_exists in H. destruct H as (p & A & B).
  apply existsb_exists. exists p. split; auto. eapply out_grows; eauto.
Qed.

Lemma term_mono : forall c l c' s, step c l c' -> s_term (c_sess c s) = true -> s_term (c_sess c' s) = true.
Proof.
  intros c l c' s Hs H.
  destruct (step_sess_flags _ _ _ Hs s) as [(_ & B & _)|[(_ & A & _)|(_ & _ & _ & _ & B & _)]]; congruence.
Qed.

(* ---------- answered exactly once ---------- *)

(* request q has its one answer or is still in a queue, or - for a {leave} - the session got the eviction
   notice of that topic instead *)
Definition good (q : req) (c : config) : Prop :=
  acct q c = 1 \/ (acct q c = 0 /\ is_leave q = true /\ noticed q c = true).

Lemma good_reach_ok : forall st ow us c iss, reachI_ok st ow us c iss ->
  forall q, In q iss -> s_term (c_sess c (r_sid q)) = false -> good q c.
Proof.
  induction 1 as [ch|c iss l c' Hr IH Hl Hnz Hs]; [contradiction|].
  pose proof (reachI_ok_reachI _ _ _ _ _ Hr) as HrI.
  pose proof (inv_rep_reach _ _ _ _ _ HrI) as I. pose proof I as [I1 I2 I3 I4 I5].
  assert (IT : init_true c) by (eapply init_true_reach; eapply reachI_reach; eauto).
  intros q Hq Ht. apply in_app_or in Hq.
  destruct (nextrid_step _ _ _ Hs) as [(E & En)|(q0 & E & A & B & En & _)]; rewrite E in Hq; simpl in Hq.
  - destruct Hq as [[]|Hq].
    assert (Ht0 : s_term (c_sess c (r_sid q)) = false).
    { destruct (s_term (c_sess c (r_sid q))) eqn:X; auto. rewrite (term_mono _ _ _ _ Hs X) in Ht. discriminate. }
    destruct (conserves_step _ _ _ q Hs IT I4 (uniq_of_inv _ _ _ I Hq) (or_intror E)) as [Hc Hk].
    rewrite (extra_quiet _ _ q Hnz) in Hc.
    destruct (IH q Hq Ht0) as [G|(G1 & G2 & G3)].
    + destruct (Hk Ht Hl Hnz) as [X|(X & Y & Z)]; [left; lia|right; repeat split; auto; lia].
    + right. repeat split; auto; [lia|eapply noticed_mono; eauto].
  - destruct Hq as [[<-|[]]|Hq]; [left; eapply new_acct; eauto|].
    assert (Ht0 : s_term (c_sess c (r_sid q)) = false).
    { destruct (s_term (c_sess c (r_sid q))) eqn:X; auto. rewrite (term_mono _ _ _ _ Hs X) in Ht. discriminate. }
    assert (Hd : r_rid q <> c_nextrid c) by (destruct (I2 _ Hq); lia).
    destruct (conserves_step _ _ _ q Hs IT I4 (uniq_of_inv _ _ _ I Hq) (or_introl Hd)) as [Hc Hk].
    rewrite (extra_quiet _ _ q Hnz) in Hc.
    destruct (IH q Hq Ht0) as [G|(G1 & G2 & G3)].
    + destruct (Hk Ht Hl Hnz) as [X|(X & Y & Z)]; [left; lia|right; repeat split; auto; lia].
    + right. repeat split; auto; [lia|eapply noticed_mono; eauto].
Qed.

(* at most once, on every execution without the step that answers twice: a request is never answered twice, never
   both answered and still queued *)
Lemma at_most_once : forall st ow us c iss, reachI_nd st ow us c iss -> forall q, In q iss -> acct q c <= 1.
Proof.
  induction 1 as [ch|c iss l c' Hr IH Hnz Hs]; [contradiction|].
  pose proof (reachI_nd_reachI _ _ _ _ _ Hr) as HrI.
  pose proof (inv_rep_reach _ _ _ _ _ HrI) as I. pose proof I as [I1 I2 I3 I4 I5].
  assert (IT : init_true c) by (eapply init_true_reach; eapply reachI_reach; eauto).
  intros q Hq. apply in_app_or in Hq.
  destruct (nextrid_step _ _ _ Hs) as [(E & En)|(q0 & E & A & B & En & _)]; rewrite E in Hq; simpl in Hq.
  - destruct Hq as [[]|Hq].
    destruct (conserves_step _ _ _ q Hs IT I4 (uniq_of_inv _ _ _ I Hq) (or_intror E)) as [Hc _].
    rewrite (extra_quiet _ _ q Hnz) in Hc. specialize (IH _ Hq). lia.
  - destruct Hq as [[<-|[]]|Hq]; [rewrite (new_acct _ _ _ _ Hs I5 E); lia|].
    assert (Hd : r_rid q <> c_nextrid c) by (destruct (I2 _ Hq); lia).
    destruct (conserves_step _ _ _ q Hs IT I4 (uniq_of_inv _ _ _ I Hq) (or_introl Hd)) as [Hc _].
    rewrite (extra_quiet _ _ q Hnz) in Hc. specialize (IH _ Hq). lia.
Qed.

(* on EVERY execution: one step adds at most one to the account of a request, and only the step named in [noisy] *)
Lemma at_most_one_more : forall st ow us c iss l c' q, reachI st ow us c iss -> In q iss -> step c l c' ->
  acct q c' <= acct q c + extra c l q /\ extra c l q <= 1.
Proof.
  intros st ow us c iss l c' q H Hq Hs.
  pose proof (inv_rep_reach _ _ _ _ _ H) as I. pose proof I as [I1 I2 I3 I4 I5].
  assert (IT : init_true c) by (eapply init_true_reach; eapply reachI_reach; eauto).
  assert (Hd : r_rid q <> c_nextrid c \/ issue c l = []) by (left; destruct (I2 _ Hq); lia).
  destruct (conserves_step _ _ _ q Hs IT I4 (uniq_of_inv _ _ _ I Hq) Hd) as [Hc _]. split; auto.
  destruct l; simpl; auto. destruct (take_first _ _) as [[r rest]|]; auto. destruct (_ && _); auto.
Qed.

(* at quiescence nothing is queued: the request of a live session has exactly one reply (or the notice) *)
Lemma quiescent_queued0 : forall c n, quiescent c -> queuedN n c = 0.
Proof. intros c n (A & B & C & D & E & _). unfold queuedN. rewrite A, B, C, D, E. reflexivity. Qed.

Lemma answered_at_quiescence : forall st ow us c iss, reachI_ok st ow us c iss -> quiescent c ->
  forall q, In q iss -> s_term (c_sess c (r_sid q)) = false ->
    ans (r_rid q) (c_sess c (r_sid q)) = 1 \/
    (ans (r_rid q) (c_sess c (r_sid q)) = 0 /\ is_leave q = true /\ noticed q c = true).
Proof.
  intros st ow us c iss Hr Hq q Hin Ht.
  pose proof (quiescent_queued0 c (r_rid q) Hq) as Q.
  destruct (good_reach_ok _ _ _ _ _ Hr q Hin Ht) as [G|(G1 & G2 & G3)]; unfold acct in *; [left|right; repeat split; auto]; lia.
Qed.

(* ---------- witness: {leave unsub}{leave} pipelined on one connection ---------- *)

Fixpoint runI (ls : list label) (c : config) (iss : list req) : option (config * list req) :=
  match ls with
  | [] => Some (c, iss)
  | l :: r => match exec l c with Some c' => runI r c' (issue c l ++ iss) | None => None end
  end.

Lemma runI_reachI : forall st ow us ls c iss c' iss',
  reachI st ow us c iss -> runI ls c iss = Some (c', iss') -> reachI st ow us c' iss'.
Proof.
  induction ls as [|l r IH]; intros c iss c' iss' Hr H; simpl in H.
  - inversion H; subst. exact Hr.
  - destruct (exec l c) as [c1|] eqn:E; [|discriminate]. eapply IH; [|exact H]. econstructor; eauto.
Qed.

(* session 1 (not the owner) attaches to topic 1, unsubscribes, and sends {leave} before its write loop has
   applied the detach notice: the second request reaches the topic, which no longer lists the session *)
Definition leave_after_unsub_trace : list label :=
  [ClientSub 1 1 false; HubJoin; InitDone 0 true; TopicReg 0 true;
   ClientLeave 1 1 true false; TopicUnreg 0; ClientLeave 1 1 false false; TopicUnreg 0; SessDetach 1].

Lemma leave_after_unsub_lost : exists c iss q,
  runI leave_after_unsub_trace (init_config ex_stored ex_owner ex_user ex_chan) [] = Some (c, iss) /\
  In q iss /\ r_kind q = KLeave false /\ s_term (c_sess c (r_sid q)) = false /\
  acct q c = 0 /\ noticed q c = false /\ quiescent c.
Proof.
  eexists. eexists. exists (mkReq 1 3 (KLeave false) 1 true false).
  split; [vm_compute; reflexivity|]. split; [left; reflexivity|].
  split; [reflexivity|]. split; [reflexivity|]. split; [reflexivity|]. split; [reflexivity|].
  unfold quiescent. simpl. repeat split. intros s. destruct s as [|[|[|s]]]; reflexivity.
Qed.

(* ---------- witness: a group topic without channel functionality left by its channel name ---------- *)

(* session 1 attaches to topic 1 (no channel functionality: ex_chan) by its group name and sends {leave} addressed
   as chnXXX: the topic answers 404 (verifyChannelAccess) AND 200 (the session is detached) *)
Definition chn_leave_twice_trace : list label :=
  [ClientSub 1 1 false; HubJoin; InitDone 0 true; TopicReg 0 true; ClientLeave 1 1 false true; TopicUnreg 0].

Lemma chn_leave_twice : exists c iss q,
  runI chn_leave_twice_trace (init_config ex_stored ex_owner ex_user ex_chan) [] = Some (c, iss) /\
  In q iss /\ acct q c = 2 /\ ans (r_rid q) (c_sess c (r_sid q)) = 2 /\ quiescent c /\
  s_out (c_sess c 1) = [mkRep (Some 1) COk 1; mkRep (Some 2) CNotFound 1; mkRep (Some 2) COk 1] /\
  lookup 1 (s_subs (c_sess c 1)) = None /\ i_sessions (c_inst c 0) = [].
Proof.
  eexists. eexists. exists (mkReq 1 2 (KLeave false) 1 true true).
  split; [vm_compute; reflexivity|]. split; [left; reflexivity|].
  split; [reflexivity|]. split; [reflexivity|]. split; [|repeat split].
  unfold quiescent. simpl. repeat split. intros s. destruct s as [|[|[|s]]]; reflexivity.
Qed.

(* ---------- witness: a channel subscription left by the group name ---------- *)

(* topic 1 WITH channel functionality; session 1 attaches as chnXXX and sends {leave} addressed as grpXXX: answered
   404 once, and detached on BOTH sides (remSession and delSub come before the name-form check) *)
Definition ex_chan1 (t : tid) : bool := Nat.eqb t 1.
Definition chan_leave_by_group_name_trace : list label :=
  [ClientSub 1 1 true; HubJoin; InitDone 0 true; TopicReg 0 true; ClientLeave 1 1 false false; TopicUnreg 0].

Lemma chan_leave_by_group_name : exists c,
  run chan_leave_by_group_name_trace (init_config ex_stored ex_owner ex_user ex_chan1) = Some c /\
  s_out (c_sess c 1) = [mkRep (Some 1) COk 1; mkRep (Some 2) CNotFound 1] /\
  lookup 1 (s_subs (c_sess c 1)) = None /\ i_sessions (c_inst c 0) = [] /\ i_chansub (c_inst c 0) = [].
Proof. eexists. split; [vm_compute; reflexivity|]. repeat split. Qed.
