(* C01 consequences of the numbering invariant: what is shown never exceeds the
   persisted high-water mark, which never decreases - for every history with
   any faults, crashes, unloads and restarts. *)
From Coq Require Import ZArith NArith List Bool Lia.
From Tinode Require Import Base.Util Pure.Acs Sys.Topic Sys.TopicTac Sys.TopicFrame Sys.TopicNum Sys.TopicOut.
Import ListNotations.
Open Scope Z_scope.

Lemma publish_shown f s c n sid u content noecho n0 :
  inv_num (mkState s (Some c) n0) ->
  shown_le (t_seqid (h_st (publish f s c n sid u content noecho))) (h_out (publish f s c n sid u content noecho)) /\
  t_seqid s <= t_seqid (h_st (publish f s c n sid u content noecho)).
Proof.
  intros [A [B [C0 [C1 C2]]]]. cbn [st ca] in *.
  destruct (publish_cases f s c n sid u content noecho) as [[E1 [E2 [_ [E3 [_ [code [E4 E5]]]]]]]|[E1 [E2 [E3 [E4 E5]]]]].
  - split.
    + rewrite E4. apply all_plain_shown. apply code_plain. lia.
    + destruct E3 as [E3|E3]; rewrite E3; lia.
  - rewrite E2. split; [|lia]. rewrite E5.
    intros k Hk. unfold out_seqs in Hk. cbn [flat_map snd frame_seqs filter map fst N.eqb P_seq] in Hk.
    cbn in Hk. destruct Hk as [<-|Hk]; [lia|].
    fold (out_seqs (fanout_data (h_ca (publish f s c n sid u content noecho)) (if noecho then sid else 0%N) (Data (c_lastid c + 1) u content)
                    ++ push_out (h_ca (publish f s c n sid u content noecho)) (c_lastid c + 1) u)) in Hk.
    revert k Hk. apply (shown_le_app (c_lastid c + 1)); [apply fanout_data_shown; lia|].
    unfold push_out. destruct (push_rcpt _); intros k Hk; cbn in Hk; intuition; subst; lia.
Qed.

Section StepShown.
Variable dr : Z -> list (Z * Z) -> option (list (Z * Z)).
Variable nr : list (Z * Z) -> list (Z * Z).
Variable sm : sessmap.

Ltac plain_case := split; [apply all_plain_shown; first [out_solve | apply code_plain; lia] | ].

Lemma hframe_seqid s c h : hframe s c h -> t_seqid (h_st h) = t_seqid s.
Proof. intros [[_ [H _]] _]. exact H. Qed.

(* every number shown by a step is at most the persisted mark after it, and the mark does not decrease *)
Lemma step_shown f x o : inv_num x ->
  shown_le (t_seqid (st (fst (step dr nr sm f x o)))) (snd (step dr nr sm f x o)) /\
  t_seqid (st x) <= t_seqid (st (fst (step dr nr sm f x o))).
Proof.
  intros I. destruct x as [s cx n0].
  assert (forall c, cx = Some c -> 0 <= c_lastid c /\ c_lastid c <= t_seqid s /\
                                   (forall k, In k (map m_seq (msgs s)) -> k <= t_seqid s)) as IC.
  { intros c ->. destruct I as [A [B [C0 [C1 C2]]]]. cbn [st ca] in *. repeat split; try lia.
    intros k Hk. apply A in Hk. lia. }
  assert (forall k, In k (map m_seq (msgs s)) -> k <= t_seqid s) as IA.
  { destruct I as [A _]. intros k Hk. apply A in Hk. cbn in *. lia. }
  assert (0 <= t_seqid s) as I0.
  { destruct I as [A [B C]]. destruct cx; cbn [st ca] in *; lia. }
  destruct o; unfold step; cbn [st ca].
  - (* OSub *)
    destruct cx as [c|].
    + destruct (attached c sid); cbn [fst snd st].
      * split; [apply all_plain_shown; apply code_plain; lia|lia].
      * rewrite (hframe_seqid _ _ _ (sub_reply_frame f s c 0 sid (sess_uid sm sid) want bkg)).
        split; [apply all_plain_shown; apply sub_reply_out|lia].
    + destruct (try_load f s 0) as [n1 [c|code]] eqn:TL; cbn [fst snd st].
      * rewrite (hframe_seqid _ _ _ (sub_reply_frame f s c n1 sid (sess_uid sm sid) want bkg)).
        split; [apply all_plain_shown; apply sub_reply_out|lia].
      * split; [|lia]. apply all_plain_shown. apply code_plain.
        unfold try_load in TL. repeat break_match_hyp; inv TL; lia.
  - (* OLeave *)
    destruct cx as [c|]; cbn [negb]; [destruct (attached c sid) eqn:AT|]; cbn [negb fst snd st].
    + destruct unsub; cbn [fst snd st].
      * rewrite (hframe_seqid _ _ _ (leave_unsub_frame f s c 0 sid _)).
        split; [apply all_plain_shown; apply leave_unsub_out|lia].
      * pose proof (leave_out c sid (match alookup sid (c_sess c) with Some (a, _) => a | None => sess_uid sm sid end)) as LO.
        destruct (leave c sid _) as [c1 o1]. cbn [fst snd st h_st h_out] in *.
        split; [apply all_plain_shown; exact LO|lia].
    + split; [|lia]. apply all_plain_shown. destruct unsub; apply code_plain; lia.
    + split; [|lia]. apply all_plain_shown. destruct unsub; apply code_plain; lia.
  - (* OPub *)
    destruct cx as [c|]; cbn [negb]; [destruct (attached c sid)|]; cbn [negb fst snd st].
    + eapply publish_shown. exact I.
    + split; [apply all_plain_shown; apply code_plain; lia|lia].
    + split; [apply all_plain_shown; apply code_plain; lia|lia].
  - (* ONote *)
    destruct cx as [c|]; cbn [negb]; [destruct (attached c sid)|]; cbn [negb fst snd st];
      repeat break_match; cbn [fst snd st];
      try (split; [first [apply all_plain_shown; first [apply all_out_nil | apply code_plain; lia]] | lia]).
    all: destruct (IC c eq_refl) as [C0 [C1 _]];
      rewrite (hframe_seqid _ _ _ (note_frame f s c 0 sid (sess_uid sm sid) what seq));
      (split; [|lia]); eapply shown_le_mono; [exact C1|]; apply note_shown; exact C0.
  - (* OGetData *)
    destruct cx as [c|]; cbn [negb]; [destruct (attached c sid)|]; cbn [negb fst snd st];
      try (split; [apply all_plain_shown; apply code_plain; lia|lia]).
    rewrite (hframe_seqid _ _ _ (get_data_frame f s c 0 sid (sess_uid sm sid) since before limit)).
    split; [|lia]. apply get_data_shown. exact IA.
  - (* OGetDesc *)
    destruct cx as [c|]; cbn [negb]; [destruct (attached c sid)|]; cbn [negb fst snd st].
    + destruct (IC c eq_refl) as [C0 [C1 _]].
      rewrite (hframe_seqid _ _ _ (get_desc_frame s c 0 sid (sess_uid sm sid))).
      split; [|lia]. eapply shown_le_mono; [exact C1|]. apply get_desc_shown. exact C0.
    + rewrite offline_get_desc_frame. split; [|lia]. apply offline_get_desc_shown. exact I0.
    + rewrite offline_get_desc_frame. split; [|lia]. apply offline_get_desc_shown. exact I0.
  - (* OGetSub *)
    destruct cx as [c|]; cbn [negb]; [destruct (attached c sid)|]; cbn [negb fst snd st].
    + rewrite (hframe_seqid _ _ _ (get_sub_frame f s c 0 sid (sess_uid sm sid))).
      split; [apply all_plain_shown; apply get_sub_out|lia].
    + rewrite offline_get_sub_frame. split; [apply all_plain_shown; apply offline_get_sub_out|lia].
    + rewrite offline_get_sub_frame. split; [apply all_plain_shown; apply offline_get_sub_out|lia].
  - (* OGetDel *)
    destruct cx as [c|]; cbn [negb]; [destruct (attached c sid)|]; cbn [negb fst snd st];
      try (split; [apply all_plain_shown; apply code_plain; lia|lia]).
    rewrite (hframe_seqid _ _ _ (get_del_frame nr f s c 0 sid (sess_uid sm sid) since before limit)).
    split; [apply all_plain_shown; apply get_del_out|lia].
  - (* ODelMsg *)
    destruct cx as [c|]; cbn [negb]; [destruct (attached c sid)|]; cbn [negb fst snd st];
      try (split; [apply all_plain_shown; apply code_plain; lia|lia]).
    destruct (del_msg_num dr f s c 0 sid (sess_uid sm sid) ranges hard) as [E1 _]. rewrite E1.
    split; [apply all_plain_shown; apply del_msg_out|lia].
  - (* OSetSub *)
    destruct cx as [c|]; cbn [negb]; [destruct (attached c sid)|]; cbn [negb fst snd st].
    + rewrite (hframe_seqid _ _ _ (set_sub_frame f s c 0 sid (sess_uid sm sid) target mode)).
      split; [apply all_plain_shown; apply set_sub_out|lia].
    + destruct (sframe_seqs _ _ (offline_set_sub_frame f s sid (sess_uid sm sid) target mode)) as [E1 _]. rewrite E1.
      split; [apply all_plain_shown; apply offline_set_sub_out|lia].
    + destruct (sframe_seqs _ _ (offline_set_sub_frame f s sid (sess_uid sm sid) target mode)) as [E1 _]. rewrite E1.
      split; [apply all_plain_shown; apply offline_set_sub_out|lia].
  - (* ODelSub *)
    destruct cx as [c|]; cbn [negb]; [destruct (attached c sid)|]; cbn [negb fst snd st];
      try (split; [apply all_plain_shown; apply code_plain; lia|lia]).
    rewrite (hframe_seqid _ _ _ (del_sub_frame f s c 0 sid (sess_uid sm sid) target)).
    split; [apply all_plain_shown; apply del_sub_out|lia].
  - (* OUnload *)
    destruct cx as [c|]; [destruct (c_sess c)|]; cbn [fst snd st]; (split; [apply all_plain_shown; apply all_out_nil|lia]).
  - (* ORestart *)
    cbn [fst snd st]. split; [apply all_plain_shown; apply all_out_nil|lia].
Qed.
End StepShown.

Section RunNum.
Variable dr : Z -> list (Z * Z) -> option (list (Z * Z)).
Variable nr : list (Z * Z) -> list (Z * Z).
Variable sm : sessmap.

Lemma step_f_inv_num x fo : inv_num x -> inv_num (fst (step_f dr nr sm x fo)).
Proof.
  intros I. unfold step_f. pose proof (step_inv_num dr nr sm (fst fo) x (snd fo) I) as I1.
  destruct (step dr nr sm (fst fo) x (snd fo)) as [x1 o1]. cbn [fst] in *.
  destruct (fst fo); cbn [fst]; auto.
  destruct x1 as [s1 [c1|] n1]; [apply (inv_num_unload s1 c1 n1 n1); exact I1|exact I1].
Qed.

Lemma step_f_shown x fo : inv_num x ->
  shown_le (t_seqid (st (fst (step_f dr nr sm x fo)))) (snd (step_f dr nr sm x fo)) /\
  t_seqid (st x) <= t_seqid (st (fst (step_f dr nr sm x fo))).
Proof.
  intros I. unfold step_f. pose proof (step_shown dr nr sm (fst fo) x (snd fo) I) as S.
  destruct (step dr nr sm (fst fo) x (snd fo)) as [x1 o1]. cbn [fst snd] in *.
  destruct (fst fo); cbn [fst snd st]; auto.
Qed.

Lemma run_inv_num h : forall x, inv_num x -> inv_num (fst (run dr nr sm x h)).
Proof.
  induction h as [|fo h IH]; intros x I; cbn [run fst]; [exact I|].
  pose proof (step_f_inv_num x fo I) as I1.
  destruct (step_f dr nr sm x fo) as [x1 o1]. cbn [fst] in I1.
  specialize (IH x1 I1). destruct (run dr nr sm x1 h) as [x2 os]. exact IH.
Qed.

(* every number shown anywhere in the history is at most the persisted mark at its end *)
Lemma run_shown h : forall x, inv_num x ->
  Forall (shown_le (t_seqid (st (fst (run dr nr sm x h))))) (snd (run dr nr sm x h)) /\
  t_seqid (st x) <= t_seqid (st (fst (run dr nr sm x h))).
Proof.
  induction h as [|fo h IH]; intros x I; cbn [run fst snd].
  - split; [constructor|lia].
  - pose proof (step_f_inv_num x fo I) as I1. pose proof (step_f_shown x fo I) as [S1 S2].
    destruct (step_f dr nr sm x fo) as [x1 o1]. cbn [fst snd] in *.
    destruct (IH x1 I1) as [R1 R2]. destruct (run dr nr sm x1 h) as [x2 os]. cbn [fst snd] in *.
    split; [|lia]. constructor; [|exact R1]. eapply shown_le_mono; [exact R2|exact S1].
Qed.
End RunNum.

(* the initial state: the topic row exists with no messages, nothing loaded *)
Definition fresh (s : store) : Prop := msgs s = [] /\ t_seqid s = 0.
Lemma fresh_inv s n : fresh s -> inv_num (mkState s None n).
Proof. intros [E1 E2]. unfold inv_num, seqs. cbn. rewrite E1, E2. cbn. repeat split; try lia; try constructor; intros k []. Qed.

(* ------------------------------------------------------------------ *)
(* only an accepted publish acknowledges a number or advances lastID *)
Definition nonack (fr : frame) : bool := negb (is_ack fr).
Lemma plain_nonack fr : plain fr = true -> nonack fr = true.
Proof.
  destruct fr; cbn; try discriminate; auto.
  all: intros H; apply andb_true_iff in H; destruct H as [H _]; apply negb_true_iff in H; apply Z.eqb_neq in H;
    unfold nonack, is_ack; destruct code as [|p|p]; auto; repeat (destruct p; auto); lia.
Qed.
Lemma all_plain_nonack o : all_out plain o -> all_out nonack o.
Proof. intros H e He. apply plain_nonack. auto. Qed.
Lemma all_info_nonack o : all_out is_info o -> all_out nonack o.
Proof. intros H e He. specialize (H e He). destruct (snd e); try discriminate; reflexivity. Qed.
Lemma get_data_nonack f s c n sid u a b l : all_out nonack (h_out (get_data f s c n sid u a b l)).
Proof.
  unfold get_data. repeat break_match; cbn [h_out]; try solve [apply all_plain_nonack; out_solve].
  apply all_out_app; [|apply all_plain_nonack; out_solve].
  intros e He. apply in_map_iff in He. destruct He as [m0 [<- _]]. reflexivity.
Qed.
Lemma get_desc_nonack s c n sid u : all_out nonack (h_out (get_desc s c n sid u)).
Proof. unfold get_desc. repeat break_match; cbn [h_out]; intros e [<-|[]]; reflexivity. Qed.
Lemma offline_get_desc_nonack f s sid u : all_out nonack (o_out (offline_get_desc f s sid u)).
Proof. unfold offline_get_desc. repeat break_match; cbn [o_out]; intros e [<-|[]]; reflexivity. Qed.

Section StepLast.
Variable dr : Z -> list (Z * Z) -> option (list (Z * Z)).
Variable nr : list (Z * Z) -> list (Z * Z).
Variable sm : sessmap.

Definition lastid_of (x : state) : option Z := option_map c_lastid (ca x).

(* A step that is not a publish by an attached session acknowledges nothing and,
   if the topic stays loaded, leaves lastID alone. *)
Lemma step_nonpub f x o c :
  ca x = Some c ->
  (forall sid content noecho, o = OPub sid content noecho -> attached c sid = false) ->
  all_out nonack (snd (step dr nr sm f x o)) /\
  (forall c', ca (fst (step dr nr sm f x o)) = Some c' -> c_lastid c' = c_lastid c).
Proof.
  intros Hc NP. destruct x as [s cx n0]. cbn [ca] in Hc. subst cx.
  assert (forall h, hframe s c h -> forall c', Some (h_ca h) = Some c' -> c_lastid c' = c_lastid c) as HF.
  { intros h [_ [E _]] c' H. inv H. exact E. }
  destruct o; unfold step; cbn [st ca negb].
  - destruct (attached c sid); cbn [fst snd ca].
    + split; [apply all_plain_nonack; apply code_plain; lia|intros c' H; now inv H].
    + split; [apply all_plain_nonack; apply sub_reply_out|apply HF; apply sub_reply_frame].
  - destruct (attached c sid) eqn:AT; cbn [negb fst snd ca].
    + destruct unsub; cbn [fst snd ca].
      * split; [apply all_plain_nonack; apply leave_unsub_out|apply HF; apply leave_unsub_frame].
      * pose proof (leave_out c sid (match alookup sid (c_sess c) with Some (a, _) => a | None => sess_uid sm sid end)) as LO.
        pose proof (leave_frame c sid (match alookup sid (c_sess c) with Some (a, _) => a | None => sess_uid sm sid end)) as [LF _].
        destruct (leave c sid _) as [c1 o1]. cbn [fst snd ca h_ca h_out] in *.
        split; [apply all_plain_nonack; exact LO|intros c' H; inv H; exact LF].
    + split; [apply all_plain_nonack; destruct unsub; apply code_plain; lia|intros c' H; now inv H].
  - destruct (attached c sid) eqn:AT; cbn [negb fst snd ca].
    + specialize (NP sid content noecho eq_refl). congruence.
    + split; [apply all_plain_nonack; apply code_plain; lia|intros c' H; now inv H].
  - destruct (attached c sid); cbn [negb fst snd ca]; repeat break_match; cbn [fst snd ca];
      try (split; [first [apply all_plain_nonack; first [apply all_out_nil | apply code_plain; lia]]|intros c' H; now inv H]);
      (split; [apply all_info_nonack; apply note_out|apply HF; apply note_frame]).
  - destruct (attached c sid); cbn [negb fst snd ca].
    + split; [apply get_data_nonack|apply HF; apply get_data_frame].
    + split; [apply all_plain_nonack; apply code_plain; lia|intros c' H; now inv H].
  - destruct (attached c sid); cbn [negb fst snd ca].
    + split; [apply get_desc_nonack|apply HF; apply get_desc_frame].
    + split; [apply offline_get_desc_nonack|intros c' H; now inv H].
  - destruct (attached c sid); cbn [negb fst snd ca].
    + split; [apply all_plain_nonack; apply get_sub_out|apply HF; apply get_sub_frame].
    + split; [apply all_plain_nonack; apply offline_get_sub_out|intros c' H; now inv H].
  - destruct (attached c sid); cbn [negb fst snd ca].
    + split; [apply all_plain_nonack; apply get_del_out|apply HF; apply get_del_frame].
    + split; [apply all_plain_nonack; apply code_plain; lia|intros c' H; now inv H].
  - destruct (attached c sid); cbn [negb fst snd ca].
    + split; [apply all_plain_nonack; apply del_msg_out|].
      intros c' H. inv H. apply del_msg_num.
    + split; [apply all_plain_nonack; apply code_plain; lia|intros c' H; now inv H].
  - destruct (attached c sid); cbn [negb fst snd ca].
    + split; [apply all_plain_nonack; apply set_sub_out|apply HF; apply set_sub_frame].
    + split; [apply all_plain_nonack; apply offline_set_sub_out|intros c' H; now inv H].
  - destruct (attached c sid); cbn [negb fst snd ca].
    + split; [apply all_plain_nonack; apply del_sub_out|apply HF; apply del_sub_frame].
    + split; [apply all_plain_nonack; apply code_plain; lia|intros c' H; now inv H].
  - destruct (c_sess c); cbn [fst snd ca]; (split; [apply all_out_nil|intros c' H; try discriminate; now inv H]).
  - cbn [fst snd ca]. split; [apply all_out_nil|intros c' H; discriminate].
Qed.

(* a publish by an attached session: the characterisation of [publish] applies *)
Lemma step_pub f s c n0 sid content noecho :
  attached c sid = true ->
  step dr nr sm f (mkState s (Some c) n0) (OPub sid content noecho) =
  (let h := publish f s c 0 sid (sess_uid sm sid) content noecho in
   (mkState (h_st h) (Some (h_ca h)) (h_n h), h_out h)).
Proof. intros AT. unfold step. cbn [st ca]. rewrite AT. reflexivity. Qed.
End StepLast.
