(** * C11 (part x): who chooses head.sender of a stored / delivered message.

    Statement-by-statement model of the two places of tinode/chat that write the "sender"
    header of a client {pub}:

    - site 1, [Session.publish] (server/session.go 694-706), executed BEFORE the route is
      chosen (attached topic -> sub.broadcast; not attached and RcptTo = "sys" ->
      hub.routeCli; otherwise 409 "must attach first");
    - site 2, [Topic.saveAndBroadcastMessage] (server/topic.go 976-985), executed by the
      topic goroutine on every {pub} that passed the topic's gates, whatever the route.

    The header map of Go ([map[string]any], possibly nil) is [head]; keys and values are
    opaque numbers, key [KSender] stands for "sender".  Definitions only. *)
From Coq Require Import NArith List Bool.
From Tinode Require Import Sys.SessionAuth.
Import ListNotations.
Local Open Scope N_scope.

Definition hmap := list (N * N).
Definition head := option hmap.          (* None: nil map *)
Definition KSender : N := 0.

Fixpoint hget (k : N) (h : hmap) : option N :=
  match h with
  | [] => None
  | (k', v) :: r => if k' =? k then Some v else hget k r
  end.

(** delete(m, k) *)
Definition hdel (k : N) (h : hmap) : hmap := filter (fun p => negb (fst p =? k)) h.

(** m[k] = v *)
Definition hset (k v : N) (h : hmap) : hmap := (k, v) :: hdel k h.

Definition head_get (k : N) (h : head) : option N :=
  match h with None => None | Some l => hget k l end.

(** Site 1 (session.go 694-706):
<<
	if msg.AsUser != s.uid.UserId() {
		if msg.Pub.Head == nil { msg.Pub.Head = make(map[string]any) }
		msg.Pub.Head["sender"] = s.uid.UserId()
	} else if msg.Pub.Head != nil {
		delete(msg.Pub.Head, "sender")
		if len(msg.Pub.Head) == 0 { msg.Pub.Head = nil }
	}
>> *)
Definition site1_c11x (suid au : N) (h : head) : head :=
  if negb (au =? suid) then
    Some (hset KSender suid (match h with None => [] | Some l => l end))
  else
    match h with
    | None => None
    | Some l => match hdel KSender l with [] => None | l' => Some l' end
    end.

(** Site 2 (topic.go 976-985; msg.sess is never nil for a client {pub}: dispatch sets it):
<<
	if msg.sess != nil && msg.sess.uid != asUid {
		if head == nil { head = map[string]any{} }
		head["sender"] = msg.sess.uid.UserId()
	} else if head != nil {
		delete(head, "sender")
	}
>> *)
Definition site2_c11x (suid au : N) (h : head) : head :=
  if negb (au =? suid) then
    Some (hset KSender suid (match h with None => [] | Some l => l end))
  else
    match h with
    | None => None
    | Some l => Some (hdel KSender l)
    end.

(** One {pub} as the session and the topic see it.  [q_name_ok]: expandTopicName
    succeeded; [q_attached]: s.getSub(RcptTo) != nil; [q_sys]: RcptTo = "sys";
    [q_gates]: ORACLE - the topic is loaded and accepted the message (active, writable,
    'W' permission unless the topic is 'sys', Messages.Save succeeded); [q_head]:
    msg.Pub.Head as supplied by the client. *)
Record pubq := { q_name_ok : bool; q_attached : bool; q_sys : bool; q_gates : bool; q_head : head }.

Inductive outcome :=
| OName                              (* refused by expandTopicName *)
| OAttachFirst                       (* 409: neither attached nor 'sys' *)
| OTopic                             (* reached the topic (or the hub), nothing stored *)
| OStored (from : N) (h : head).     (* types.Message{From, Head} = MsgServerData{From, Head} *)

(** handlePubBroadcast + saveAndBroadcastMessage: the same [head] value goes to
    store.Messages.Save and into the {data} broadcast to the attached sessions. *)
Definition topic_pub_c11x (suid au : N) (q : pubq) (h : head) : outcome :=
  if negb (q_gates q) then OTopic else OStored au (site2_c11x suid au h).

(** Session.publish followed by the topic, the code as it is. *)
Definition pub_flow_c11x (suid au : N) (q : pubq) : outcome :=
  if negb (q_name_ok q) then OName
  else
    let h1 := site1_c11x suid au (q_head q) in
    if q_attached q then topic_pub_c11x suid au q h1
    else if q_sys q then topic_pub_c11x suid au q h1
    else OAttachFirst.

(** The same flow with each site switchable per route (used to state which route relies
    on which site; [sites_head_c11x] is the code as it is). *)
Record sites := { s1_attached : bool; s1_sys : bool; s2 : bool }.
Definition sites_head_c11x : sites := {| s1_attached := true; s1_sys := true; s2 := true |}.

Definition topic_pub_cfg_c11x (cfg : sites) (suid au : N) (q : pubq) (h : head) : outcome :=
  if negb (q_gates q) then OTopic
  else OStored au (if s2 cfg then site2_c11x suid au h else h).

Definition pub_flow_cfg_c11x (cfg : sites) (suid au : N) (q : pubq) : outcome :=
  if negb (q_name_ok q) then OName
  else if q_attached q then
    topic_pub_cfg_c11x cfg suid au q (if s1_attached cfg then site1_c11x suid au (q_head q) else q_head q)
  else if q_sys q then
    topic_pub_cfg_c11x cfg suid au q (if s1_sys cfg then site1_c11x suid au (q_head q) else q_head q)
  else OAttachFirst.

(** The whole request: dispatch (guards, as-user resolution) then the flow above with the
    acting user dispatch hands to the handler. *)
Definition pub_msg_c11x (e : extra) (q : pubq) : msg :=
  {| m_extra := e; m_body := BTopic TPub (head_get KSender (q_head q)) false |}.

Definition pub_c11x (t : table) (st : sstate) (e : extra) (q : pubq) : list reply + outcome :=
  let r := dispatch t st (pub_msg_c11x e q) in
  match r_call r with
  | None => inl (r_replies r)
  | Some c => inr (pub_flow_c11x (uid st) (c_user c) q)
  end.

(** What the property demands of the header: absent on the session's own message, the
    session's real user on a message on behalf of another user. *)
Definition servers_own_c11x (suid au : N) : option N :=
  if au =? suid then None else Some suid.

Definition sender_ok_c11x (cfg : sites) : Prop :=
  forall suid au q f h, pub_flow_cfg_c11x cfg suid au q = OStored f h ->
    f = au /\ head_get KSender h = servers_own_c11x suid au.
