(* C14: attachment invariants of the interleaving model Sys/Lifecycle.v
   (session lists topic <-> topic lists session, modulo detach notices in flight). *)
From Coq Require Import List Arith Bool Lia.
Import ListNotations.
Require Import Tinode.Sys.Lifecycle Tinode.Sys.LifecycleProofs.

(* ---------- list library ---------- *)

Lemma mem_true_iff : forall x l, mem x l = true <-> In x l.
Proof.
  induction l as [|y r IH]; simpl; [split; [discriminate|tauto]|].
  rewrite orb_true_iff, IH, Nat.eqb_eq. split; intros [H|H]; auto.
Qed.

Lemma mem_remove_nat : forall x y l, mem x (remove_nat y l) = mem x l && negb (Nat.eqb x y).
Proof.
  induction l as [|z r IH]; simpl; auto.
  destruct (Nat.eqb_spec y z) as [->|Hne]; simpl.
  - rewrite IH. destruct (Nat.eqb_spec x z); simpl; auto. rewrite andb_false_r. reflexivity.
  - rewrite IH. destruct (Nat.eqb_spec x z) as [->|]; simpl; auto.
    destruct (Nat.eqb_spec z y); [congruence|]. reflexivity.
Qed.

Lemma mem_filter : forall f x l, mem x (filter f l) = mem x l && f x.
Proof.
  induction l as [|z r IH]; simpl; auto.
  destruct (f z) eqn:Ef; simpl; rewrite IH; destruct (Nat.eqb_spec x z) as [->|]; simpl; auto;
    rewrite Ef, ?andb_false_r; reflexivity.
Qed.

Lemma lookup_remove_key : forall t t' l,
  lookup t (remove_key t' l) = if Nat.eqb t t' then None else lookup t l.
Proof.
  induction l as [|[k j] r IH]; simpl.
  - destruct (Nat.eqb t t'); reflexivity.
  - destruct (Nat.eqb_spec t' k) as [->|Hne]; simpl.
    + rewrite IH. destruct (Nat.eqb_spec t k); reflexivity.
    + rewrite IH. destruct (Nat.eqb_spec t k) as [->|]; auto.
      destruct (Nat.eqb_spec k t'); [congruence|reflexivity].
Qed.

Lemma lookup_cons : forall t t' j l,
  lookup t ((t', j) :: l) = if Nat.eqb t t' then Some j else lookup t l.
Proof. reflexivity. Qed.

(* drain_unreg touches only the outbox and the in-flight counter *)
Lemma drain_unreg_frame : forall i l f l' f',
  drain_unreg i l f = (l', f') ->
  forall s, s_subs (f' s) = s_subs (f s) /\ s_detachq (f' s) = s_detachq (f s) /\
            s_term (f' s) = s_term (f s) /\ s_done (f' s) = s_done (f s).
Proof.
  induction l as [|[j r] rest IH]; intros f l' f' H s; simpl in H.
  - inversion H; subst. auto.
  - destruct (Nat.eqb i j).
    + destruct (IH _ _ _ H s) as (A & B & C & D). unfold upd in *.
      destruct (Nat.eqb s (r_sid r)) eqn:E.
      * apply Nat.eqb_eq in E. subst s. destruct (r_init r); autorewrite with lc in *; simpl in *; auto.
      * auto.
    + destruct (drain_unreg i rest f) as [l2 f2] eqn:E. inversion H; subst. eapply IH; eauto.
Qed.

Lemma s_donereq_subs : forall x, s_subs (s_donereq x) = s_subs x. Proof. reflexivity. Qed.
Lemma s_donereq_detachq : forall x, s_detachq (s_donereq x) = s_detachq x. Proof. reflexivity. Qed.
Lemma s_donereq_term : forall x, s_term (s_donereq x) = s_term x. Proof. reflexivity. Qed.
Lemma s_detach_detachq : forall x t, s_detachq (s_detach x t) = if s_term x then s_detachq x else s_detachq x ++ [t].
Proof. intros. unfold s_detach. destruct (s_term x); reflexivity. Qed.

(* ---------- the invariant ---------- *)

Record inv_att (c : config) : Prop := mkIA {
  ia_fresh : forall s t i, lookup t (s_subs (c_sess c s)) = Some i -> i < c_next c;
  ia_mem_sub : forall s i, i_phase (c_inst c i) <> PDead -> mem s (i_sessions (c_inst c i)) = true ->
               lookup (i_name (c_inst c i)) (s_subs (c_sess c s)) = Some i;
  ia_sub_mem : forall s t i, s_term (c_sess c s) = false -> lookup t (s_subs (c_sess c s)) = Some i ->
               (i_phase (c_inst c i) = PRun /\ mem s (i_sessions (c_inst c i)) = true /\ i_name (c_inst c i) = t) \/
               In t (s_detachq (c_sess c s));
  ia_det_dead : forall s t j, In t (s_detachq (c_sess c s)) -> i_name (c_inst c j) = t ->
               mem s (i_sessions (c_inst c j)) = true -> i_phase (c_inst c j) = PDead;
  ia_det_sub : forall s t, In t (s_detachq (c_sess c s)) -> lookup t (s_subs (c_sess c s)) <> None;
  ia_nodup : forall s, NoDup (s_detachq (c_sess c s));
  ia_init_empty : forall i, i_phase (c_inst c i) = PInit -> i_sessions (c_inst c i) = [];
  ia_term_detq : forall s, s_term (c_sess c s) = true -> s_detachq (c_sess c s) = [];
  ia_live_fresh : forall i, i_phase (c_inst c i) <> PDead -> i < c_next c }.

Lemma inv_att_init : forall st ow us ch, inv_att (init_config st ow us ch).
Proof.
  intros. constructor; simpl; intros; try discriminate; try contradiction; auto; try congruence. constructor.
Qed.

(* ---------- steps that do not touch the attachment state ---------- *)

Definition same_att (c c' : config) : Prop :=
  c_next c' = c_next c /\
  (forall s, s_subs (c_sess c' s) = s_subs (c_sess c s) /\ s_detachq (c_sess c' s) = s_detachq (c_sess c s) /\
             s_term (c_sess c' s) = s_term (c_sess c s)) /\
  (forall i, i_name (c_inst c' i) = i_name (c_inst c i) /\ i_sessions (c_inst c' i) = i_sessions (c_inst c i) /\
             i_phase (c_inst c' i) = i_phase (c_inst c i)).

Lemma inv_att_same : forall c c', same_att c c' -> inv_att c -> inv_att c'.
Proof.
  intros c c' (En & Es & Ei) [F M S D DS ND IE TD LF]. constructor.
  - intros s t i. destruct (Es s) as (-> & _ & _). rewrite En. apply F.
  - intros s i. destruct (Es s) as (-> & _ & _). destruct (Ei i) as (-> & -> & ->). apply M.
  - intros s t i. destruct (Es s) as (-> & -> & ->). destruct (Ei i) as (-> & -> & ->). apply S.
  - intros s t j. destruct (Es s) as (_ & -> & _). destruct (Ei j) as (-> & -> & ->). apply D.
  - intros s t. destruct (Es s) as (-> & -> & _). apply DS.
  - intros s. destruct (Es s) as (_ & -> & _). apply ND.
  - intros i. destruct (Ei i) as (_ & -> & ->). apply IE.
  - intros s. destruct (Es s) as (_ & -> & ->). apply TD.
  - intros i. destruct (Ei i) as (_ & _ & ->). rewrite En. apply LF.
Qed.

Ltac deq :=
  repeat match goal with
         | |- context [Nat.eqb ?a ?b] => destruct (Nat.eqb_spec a b); subst; simpl in *
         | H : context [Nat.eqb ?a ?b] |- _ => destruct (Nat.eqb_spec a b); subst; simpl in *
         end.

Ltac same_att_tac :=
  repeat split; intros; simpl; unfold on_sess, on_inst, upd; simpl; deq; autorewrite with lc; simpl; auto.

Lemma att_client_sub : forall c s t ch c', inv_att c -> exec (ClientSub s t ch) c = Some c' -> inv_att c'.
Proof.
  intros c s t ch c' I Hs. simpl in Hs.
  destruct (s_term (c_sess c s) || negb (s_inflight (c_sess c s) =? 0)); [discriminate|].
  destruct (lookup t (s_subs (c_sess c s))); inv_some; (eapply inv_att_same; [|exact I]); same_att_tac.
Qed.

Lemma att_client_leave : forall c s t u ch c', inv_att c -> exec (ClientLeave s t u ch) c = Some c' -> inv_att c'.
Proof.
  intros c s t u ch c' I Hs. simpl in Hs.
  destruct (s_term (c_sess c s) || negb (s_inflight (c_sess c s) =? 0)); [discriminate|].
  destruct (lookup t (s_subs (c_sess c s))); inv_some; (eapply inv_att_same; [|exact I]); same_att_tac.
Qed.

Lemma att_client_del : forall c s t c', inv_att c -> exec (ClientDel s t) c = Some c' -> inv_att c'.
Proof.
  intros c s t c' I Hs. simpl in Hs.
  destruct (s_term (c_sess c s) || negb (c_user c s =? c_owner c t)); [discriminate|].
  inv_some; (eapply inv_att_same; [|exact I]); same_att_tac.
Qed.

Lemma att_idle : forall c i c', inv_att c -> exec (IdleTimeout i) c = Some c' -> inv_att c'.
Proof.
  intros c i c' I Hs. simpl in Hs.
  destruct (negb (is_run (i_phase (c_inst c i)))); [discriminate|].
  destruct (i_sessions (c_inst c i)); inv_some; (eapply inv_att_same; [|exact I]); same_att_tac.
Qed.

Lemma att_hubunreg : forall c v c', inv_att c -> exec (HubUnreg v) c = Some c' -> inv_att c'.
Proof.
  intros c v c' I Hs. simpl in Hs.
  destruct (c_hunreg c) as [|[t|r] rest]; [discriminate| |]; simpl in Hs.
  - destruct (c_table c t); inv_some; (eapply inv_att_same; [|exact I]); same_att_tac.
  - destruct (c_table c (r_topic r)) as [i|].
    + destruct (is_init (i_phase (c_inst c i)) && negb v); inv_some; (eapply inv_att_same; [|exact I]); same_att_tac.
    + destruct (c_store c (r_topic r)); inv_some; (eapply inv_att_same; [|exact I]); same_att_tac.
Qed.

Lemma att_hubunregfail : forall c c', inv_att c -> exec HubUnregFail c = Some c' -> inv_att c'.
Proof.
  intros c c' I Hs. simpl in Hs.
  destruct (c_hunreg c) as [|[t|r] rest]; try discriminate; simpl in Hs.
  destruct (c_table c (r_topic r)) as [i|].
  - destruct (is_init (i_phase (c_inst c i))); [discriminate|]. inv_some; (eapply inv_att_same; [|exact I]); same_att_tac.
  - destruct (c_store c (r_topic r)); [|discriminate]. inv_some; (eapply inv_att_same; [|exact I]); same_att_tac.
Qed.

Lemma att_discend : forall c s c', inv_att c -> exec (DiscEnd s) c = Some c' -> inv_att c'.
Proof.
  intros c s c' I Hs. simpl in Hs.
  destruct (negb (s_term (c_sess c s)) || s_done (c_sess c s) || negb (s_inflight (c_sess c s) =? 0)) eqn:E; inv_some.
  assert (Et : s_term (c_sess c s) = true).
  { destruct (s_term (c_sess c s)); auto; simpl in E; discriminate. }
  clear E. (eapply inv_att_same; [|exact I]); same_att_tac.
Qed.

Lemma att_hubjoin : forall c c', inv_att c -> exec HubJoin c = Some c' -> inv_att c'.
Proof.
  intros c c' I Hs. simpl in Hs.
  destruct (c_hjoin c) as [|r rest]; [discriminate|]. simpl in Hs.
  destruct (c_table c (r_topic r)) as [i|].
  - destruct (inactive (c_inst c i)); inv_some; (eapply inv_att_same; [|exact I]); same_att_tac.
  - inv_some. destruct I as [F M S D DS ND IE TD LF]. constructor; simpl.
    + intros s t i H. apply F in H. lia.
    + intros s i. unfold upd. destruct (Nat.eqb_spec i (c_next c)); simpl; [discriminate|]. apply M.
    + intros s t i Ht H. unfold upd. destruct (Nat.eqb_spec i (c_next c)) as [->|].
      * apply F in H. lia.
      * apply S; auto.
    + intros s t j. unfold upd. destruct (Nat.eqb_spec j (c_next c)); simpl; [discriminate|]. apply D.
    + exact DS.
    + exact ND.
    + intros i. unfold upd. destruct (Nat.eqb_spec i (c_next c)); simpl; auto.
    + exact TD.
    + intros i. unfold upd. destruct (Nat.eqb_spec i (c_next c)); simpl; [lia|]. intros H. apply LF in H. lia.
Qed.

Lemma att_discbegin : forall c s c', inv_att c -> exec (DiscBegin s) c = Some c' -> inv_att c'.
Proof.
  intros c s c' I Hs. simpl in Hs.
  destruct (s_term (c_sess c s)) eqn:Et; [discriminate|]. inv_some.
  destruct I as [F M S D DS ND IE TD LF]. constructor; simpl; unfold on_sess, upd; simpl.
  - intros s0 t i. destruct (Nat.eqb_spec s0 s); subst; simpl; apply F.
  - intros s0 i. destruct (Nat.eqb_spec s0 s); subst; simpl; apply M.
  - intros s0 t i. destruct (Nat.eqb_spec s0 s); subst; simpl; [discriminate|]. apply S.
  - intros s0 t j. destruct (Nat.eqb_spec s0 s); subst; simpl; [contradiction|]. apply D.
  - intros s0 t. destruct (Nat.eqb_spec s0 s); subst; simpl; [contradiction|]. apply DS.
  - intros s0. destruct (Nat.eqb_spec s0 s); subst; simpl; [constructor|]. apply ND.
  - exact IE.
  - intros s0. destruct (Nat.eqb_spec s0 s); subst; simpl; auto.
  - exact LF.
Qed.

Lemma att_sessdetach : forall c s c', inv_att c -> exec (SessDetach s) c = Some c' -> inv_att c'.
Proof.
  intros c s c' I Hs. simpl in Hs.
  destruct (s_detachq (c_sess c s)) as [|t rest] eqn:Eq; [discriminate|]. inv_some.
  destruct I as [F M S D DS ND IE TD LF].
  assert (Hnd : NoDup (t :: rest)) by (rewrite <- Eq; apply ND).
  assert (Hlive : s_term (c_sess c s) = false).
  { destruct (s_term (c_sess c s)) eqn:Et; auto. rewrite (TD _ Et) in Eq. discriminate. }
  constructor; simpl; unfold on_sess, upd; simpl.
  - intros s0 t0 i. destruct (Nat.eqb_spec s0 s); subst; simpl; [|apply F].
    rewrite lookup_remove_key. destruct (Nat.eqb t0 t); [discriminate|]. apply F.
  - intros s0 i Hp Hm. destruct (Nat.eqb_spec s0 s); subst; simpl; [|apply M; auto].
    rewrite lookup_remove_key. destruct (Nat.eqb_spec (i_name (c_inst c i)) t) as [En|]; [|apply M; auto].
    exfalso. apply Hp. apply (D s t i); auto. rewrite Eq. left. reflexivity.
  - intros s0 t0 i. destruct (Nat.eqb_spec s0 s); subst; simpl; [|apply S].
    rewrite lookup_remove_key. destruct (Nat.eqb_spec t0 t) as [->|Hne]; [discriminate|].
    intros Ht H. destruct (S _ _ _ Ht H) as [L|R]; [left; exact L|right].
    rewrite Eq in R. destruct R as [->|R]; [congruence|exact R].
  - intros s0 t0 j. destruct (Nat.eqb_spec s0 s); subst; simpl; [|apply D].
    intros Hin. apply D. rewrite Eq. right. exact Hin.
  - intros s0 t0. destruct (Nat.eqb_spec s0 s); subst; simpl; [|apply DS].
    intros Hin. rewrite lookup_remove_key. destruct (Nat.eqb_spec t0 t) as [->|Hne].
    + inversion Hnd; subst. contradiction.
    + apply DS. rewrite Eq. right. exact Hin.
  - intros s0. destruct (Nat.eqb_spec s0 s); subst; simpl; [|apply ND]. inversion Hnd; auto.
  - exact IE.
  - intros s0. destruct (Nat.eqb_spec s0 s); subst; simpl; [|apply TD]. congruence.
  - exact LF.
Qed.

(* an instance leaves PInit; nothing else of the attachment state changes *)
Definition phase_att (c c' : config) (i : inst) (p : phase) : Prop :=
  c_next c' = c_next c /\
  (forall s, s_subs (c_sess c' s) = s_subs (c_sess c s) /\ s_detachq (c_sess c' s) = s_detachq (c_sess c s) /\
             s_term (c_sess c' s) = s_term (c_sess c s)) /\
  (forall j, i_name (c_inst c' j) = i_name (c_inst c j) /\ i_sessions (c_inst c' j) = i_sessions (c_inst c j) /\
             i_phase (c_inst c' j) = if Nat.eqb j i then p else i_phase (c_inst c j)).

Lemma inv_att_phase : forall c c' i p, phase_att c c' i p -> i_phase (c_inst c i) = PInit -> p <> PInit ->
  inv_att c -> inv_att c'.
Proof.
  intros c c' i p (En & Es & Ei) Hi Hp [F M S D DS ND IE TD LF].
  assert (Hemp : i_sessions (c_inst c i) = []) by (apply IE; exact Hi).
  constructor.
  - intros s t j. destruct (Es s) as (-> & _ & _). rewrite En. apply F.
  - intros s j. destruct (Es s) as (-> & _ & _). destruct (Ei j) as (-> & -> & ->).
    destruct (Nat.eqb_spec j i) as [->|]; [|apply M]. rewrite Hemp. simpl. discriminate.
  - intros s t j. destruct (Es s) as (-> & -> & ->). destruct (Ei j) as (-> & -> & ->).
    destruct (Nat.eqb_spec j i) as [->|]; [|apply S].
    intros Ht H. destruct (S _ _ _ Ht H) as [(L & _)|R]; [congruence|right; exact R].
  - intros s t j. destruct (Es s) as (_ & -> & _). destruct (Ei j) as (-> & -> & ->).
    destruct (Nat.eqb_spec j i) as [->|]; [|apply D]. rewrite Hemp. simpl. discriminate.
  - intros s t. destruct (Es s) as (-> & -> & _). apply DS.
  - intros s. destruct (Es s) as (_ & -> & _). apply ND.
  - intros j. destruct (Ei j) as (_ & -> & ->). destruct (Nat.eqb_spec j i) as [->|]; [congruence|apply IE].
  - intros s. destruct (Es s) as (_ & -> & ->). apply TD.
  - intros j. destruct (Ei j) as (_ & _ & ->). rewrite En. destruct (Nat.eqb_spec j i) as [->|]; [|apply LF].
    intros _. apply LF. congruence.
Qed.

Lemma att_initdone : forall c i ok c', inv_att c -> exec (InitDone i ok) c = Some c' -> inv_att c'.
Proof.
  intros c i ok c' I Hs. simpl in Hs.
  destruct (i_phase (c_inst c i)) eqn:Ep; simpl in Hs; try discriminate.
  destruct (take_first i (c_inits c)) as [[r inits']|] eqn:E; [|discriminate].
  simpl in Hs. destruct ok.
  - destruct (negb (c_store c (i_name (c_inst c i)))); [discriminate|].
    destruct (i_deleted (c_inst c i)); inv_some.
    + apply (inv_att_phase c _ i PDead); auto; [|discriminate].
      repeat split; intros; simpl; unfold on_sess, on_inst, upd; simpl; deq; autorewrite with lc; simpl; auto.
    + apply (inv_att_phase c _ i PRun); auto; [|discriminate].
      repeat split; intros; simpl; unfold on_sess, on_inst, upd; simpl; deq; autorewrite with lc; simpl; auto.
  - unfold requeue_reg in Hs. simpl in Hs.
    destruct (drain_unreg i (c_tunreg c) _) as [unreg' f'] eqn:Ed. simpl in Hs.
    pose proof (drain_unreg_frame _ _ _ _ _ Ed) as Fr.
    apply (inv_att_phase c c' i PDead); auto; [|discriminate].
    destruct (take_first i (c_texit c)) as [[b exit']|]; inv_some;
      (split; [reflexivity|split]; intros x; simpl; unfold on_sess, on_inst, upd; simpl;
       [destruct (Fr x) as (A & B & C & _); simpl in *; unfold on_sess, upd in *; simpl in *;
        repeat match goal with |- context [Nat.eqb ?a ?b] => destruct (Nat.eqb_spec a b); subst; simpl in * end;
        autorewrite with lc in *; simpl in *; rewrite ?A, ?B, ?C;
        repeat match goal with H : context [Nat.eqb ?a ?a] |- _ => rewrite Nat.eqb_refl in H end;
        autorewrite with lc in *; simpl in *; auto;
        repeat match goal with |- context [Nat.eqb ?a ?b] => destruct (Nat.eqb_spec a b); subst; simpl in * end;
        autorewrite with lc; auto
       |destruct (Nat.eqb_spec x i); subst; simpl; auto]).
Qed.

Lemma mem_add : forall x s l, mem x (if mem s l then l else s :: l) = mem x l || Nat.eqb x s.
Proof.
  intros. destruct (mem s l) eqn:E; simpl.
  - destruct (Nat.eqb_spec x s) as [->|]; [rewrite E|rewrite orb_false_r]; reflexivity.
  - rewrite orb_comm. reflexivity.
Qed.

(* registerSession accepted: the session is linked on both sides in one handler *)
Lemma inv_att_attach : forall c c' s i,
  c_next c' = c_next c ->
  (forall s0, s_subs (c_sess c' s0) = (if Nat.eqb s0 s then (i_name (c_inst c i), i) :: s_subs (c_sess c s) else s_subs (c_sess c s0)) /\
              s_detachq (c_sess c' s0) = s_detachq (c_sess c s0) /\ s_term (c_sess c' s0) = s_term (c_sess c s0)) ->
  (forall j, i_name (c_inst c' j) = i_name (c_inst c j) /\
             i_sessions (c_inst c' j) = (if Nat.eqb j i then (if mem s (i_sessions (c_inst c i)) then i_sessions (c_inst c i) else s :: i_sessions (c_inst c i))
                                         else i_sessions (c_inst c j)) /\
             i_phase (c_inst c' j) = i_phase (c_inst c j)) ->
  i_phase (c_inst c i) = PRun -> lookup (i_name (c_inst c i)) (s_subs (c_sess c s)) = None ->
  inv_att c -> inv_att c'.
Proof.
  intros c c' s i En Es Ei Hp Hl [F M S D DS ND IE TD LF].
  assert (Hi : i < c_next c) by (apply LF; congruence).
  constructor.
  - intros s0 t j. destruct (Es s0) as (-> & _ & _). rewrite En.
    destruct (Nat.eqb_spec s0 s) as [->|]; [|apply F]. rewrite lookup_cons.
    destruct (Nat.eqb t (i_name (c_inst c i))); [|apply F]. intros H. inversion H; subst. exact Hi.
  - intros s0 j. destruct (Es s0) as (-> & _ & _). destruct (Ei j) as (-> & -> & ->).
    intros Hpj Hm.
    destruct (Nat.eqb_spec j i) as [->|Hji].
    + rewrite mem_add in Hm. destruct (Nat.eqb_spec s0 s) as [->|Hs].
      * rewrite lookup_cons, Nat.eqb_refl. reflexivity.
      * rewrite orb_false_r in Hm. apply M; auto.
    + destruct (Nat.eqb_spec s0 s) as [->|Hs]; [|apply M; auto].
      rewrite lookup_cons. destruct (Nat.eqb_spec (i_name (c_inst c j)) (i_name (c_inst c i))) as [En'|]; [|apply M; auto].
      pose proof (M s j Hpj Hm) as Hx. rewrite En' in Hx. congruence.
  - intros s0 t j. destruct (Es s0) as (-> & -> & ->). destruct (Ei j) as (-> & -> & ->).
    intros Ht H.
    destruct (Nat.eqb_spec s0 s) as [->|Hs].
    + rewrite lookup_cons in H. destruct (Nat.eqb_spec t (i_name (c_inst c i))) as [->|Hne].
      * inversion H; subst. rewrite Nat.eqb_refl, mem_add, Nat.eqb_refl, orb_true_r. left. auto.
      * destruct (S _ _ _ Ht H) as [(A & B & C)|R]; [left|right; exact R].
        destruct (Nat.eqb_spec j i) as [->|]; [congruence|]. auto.
    + destruct (S _ _ _ Ht H) as [(A & B & C)|R]; [left|right; exact R].
      destruct (Nat.eqb_spec j i) as [->|]; auto. rewrite mem_add, B. auto.
  - intros s0 t j. destruct (Es s0) as (_ & -> & _). destruct (Ei j) as (-> & -> & ->).
    intros Hin Hn Hm. destruct (Nat.eqb_spec j i) as [->|]; [|apply (D s0 t j); auto].
    rewrite mem_add in Hm. destruct (Nat.eqb_spec s0 s) as [->|Hs].
    + exfalso. apply (DS s t Hin). rewrite <- Hn. exact Hl.
    + rewrite orb_false_r in Hm. apply (D s0 t i); auto.
  - intros s0 t. destruct (Es s0) as (-> & -> & _). intros Hin.
    destruct (Nat.eqb_spec s0 s) as [->|]; [|apply DS; auto].
    rewrite lookup_cons. destruct (Nat.eqb t (i_name (c_inst c i))); [discriminate|apply DS; auto].
  - intros s0. destruct (Es s0) as (_ & -> & _). apply ND.
  - intros j. destruct (Ei j) as (_ & -> & ->). destruct (Nat.eqb_spec j i) as [->|]; [congruence|apply IE].
  - intros s0. destruct (Es s0) as (_ & -> & ->). apply TD.
  - intros j. destruct (Ei j) as (_ & _ & ->). rewrite En. apply LF.
Qed.

Lemma att_topicreg : forall c i ok c', inv_att c -> exec (TopicReg i ok) c = Some c' -> inv_att c'.
Proof.
  intros c i ok c' I Hs. simpl in Hs.
  destruct (i_phase (c_inst c i)) eqn:Ep; simpl in Hs; try discriminate.
  destruct (take_first i (c_treg c)) as [[r reg']|] eqn:E; [|discriminate].
  simpl in Hs. inv_some.
  destruct (inactive (c_inst c i)) eqn:Ein; [(eapply inv_att_same; [|exact I]); same_att_tac|].
  destruct (lookup (i_name (c_inst c i)) (s_subs (c_sess c (r_sid r)))) eqn:El; [(eapply inv_att_same; [|exact I]); same_att_tac|].
  destruct (verify_chan _ _ _) as [aC [|]]; [(eapply inv_att_same; [|exact I]); same_att_tac|].
  destruct ok; [|(eapply inv_att_same; [|exact I]); same_att_tac].
  apply (inv_att_attach c _ (r_sid r) i); auto.
  - intros s0. simpl. unfold on_sess, on_inst, upd. simpl. deq; autorewrite with lc; simpl; auto; congruence.
  - intros j. simpl. unfold on_sess, on_inst, upd. simpl. deq; autorewrite with lc; simpl; auto; congruence.
Qed.

(* leave / disconnect / slow-consumer eviction: unlinked on both sides in one handler *)
Lemma inv_att_detach2 : forall c c' s i,
  c_next c' = c_next c ->
  (forall s0, s_subs (c_sess c' s0) = (if Nat.eqb s0 s then remove_key (i_name (c_inst c i)) (s_subs (c_sess c s)) else s_subs (c_sess c s0)) /\
              s_detachq (c_sess c' s0) = s_detachq (c_sess c s0) /\ s_term (c_sess c' s0) = s_term (c_sess c s0)) ->
  (forall j, i_name (c_inst c' j) = i_name (c_inst c j) /\
             i_sessions (c_inst c' j) = (if Nat.eqb j i then remove_nat s (i_sessions (c_inst c i)) else i_sessions (c_inst c j)) /\
             i_phase (c_inst c' j) = i_phase (c_inst c j)) ->
  i_phase (c_inst c i) = PRun -> mem s (i_sessions (c_inst c i)) = true ->
  inv_att c -> inv_att c'.
Proof.
  intros c c' s i En Es Ei Hp Hmem [F M S D DS ND IE TD LF].
  assert (Hnd : i_phase (c_inst c i) <> PDead) by congruence.
  pose proof (M s i Hnd Hmem) as Hsi.
  constructor.
  - intros s0 t j. destruct (Es s0) as (-> & _ & _). rewrite En.
    destruct (Nat.eqb_spec s0 s) as [->|]; [|apply F]. rewrite lookup_remove_key.
    destruct (Nat.eqb t (i_name (c_inst c i))); [discriminate|apply F].
  - intros s0 j. destruct (Es s0) as (-> & _ & _). destruct (Ei j) as (-> & -> & ->).
    intros Hpj Hm.
    destruct (Nat.eqb_spec j i) as [->|Hji].
    + rewrite mem_remove_nat in Hm. apply andb_true_iff in Hm. destruct Hm as [Hm Hne].
      destruct (Nat.eqb_spec s0 s); [discriminate|]. apply M; auto.
    + destruct (Nat.eqb_spec s0 s) as [->|Hs]; [|apply M; auto].
      rewrite lookup_remove_key.
      destruct (Nat.eqb_spec (i_name (c_inst c j)) (i_name (c_inst c i))) as [En'|]; [|apply M; auto].
      pose proof (M s j Hpj Hm) as Hx. rewrite En' in Hx. congruence.
  - intros s0 t j. destruct (Es s0) as (-> & -> & ->). destruct (Ei j) as (-> & -> & ->).
    intros Ht H.
    destruct (Nat.eqb_spec s0 s) as [->|Hs].
    + rewrite lookup_remove_key in H. destruct (Nat.eqb_spec t (i_name (c_inst c i))) as [->|Hne]; [discriminate|].
      destruct (S _ _ _ Ht H) as [(A & B & C)|R]; [left|right; exact R].
      destruct (Nat.eqb_spec j i) as [->|]; [congruence|]. auto.
    + destruct (S _ _ _ Ht H) as [(A & B & C)|R]; [left|right; exact R].
      destruct (Nat.eqb_spec j i) as [->|]; auto. rewrite mem_remove_nat, B.
      destruct (Nat.eqb_spec s0 s); [contradiction|]. auto.
  - intros s0 t j. destruct (Es s0) as (_ & -> & _). destruct (Ei j) as (-> & -> & ->).
    intros Hin Hn Hm. apply (D s0 t j); auto.
    destruct (Nat.eqb_spec j i) as [->|]; auto.
    rewrite mem_remove_nat in Hm. apply andb_true_iff in Hm. tauto.
  - intros s0 t. destruct (Es s0) as (-> & -> & _). intros Hin.
    destruct (Nat.eqb_spec s0 s) as [->|]; [|apply DS; auto].
    rewrite lookup_remove_key. destruct (Nat.eqb_spec t (i_name (c_inst c i))) as [->|]; [|apply DS; auto].
    exfalso. apply Hnd. apply (D s (i_name (c_inst c i)) i); auto.
  - intros s0. destruct (Es s0) as (_ & -> & _). apply ND.
  - intros j. destruct (Ei j) as (_ & -> & ->). destruct (Nat.eqb_spec j i) as [->|]; [congruence|apply IE].
  - intros s0. destruct (Es s0) as (_ & -> & ->). apply TD.
  - intros j. destruct (Ei j) as (_ & _ & ->). rewrite En. apply LF.
Qed.

Lemma att_evict : forall c i s c', inv_att c -> exec (Evict i s) c = Some c' -> inv_att c'.
Proof.
  intros c i s c' I Hs. simpl in Hs.
  destruct (i_phase (c_inst c i)) eqn:Ep; simpl in Hs; try discriminate.
  destruct (mem s (i_sessions (c_inst c i))) eqn:Em; simpl in Hs; [|discriminate].
  destruct (inactive (c_inst c i)); inv_some; auto.
  apply (inv_att_detach2 c _ s i); auto.
  - intros s0. simpl. unfold on_sess, on_inst, upd. simpl. deq; autorewrite with lc; simpl; auto; congruence.
  - intros j. simpl. unfold on_sess, on_inst, upd. simpl. deq; autorewrite with lc; simpl; auto; congruence.
Qed.

Lemma NoDup_snoc : forall (A : Type) (l : list A) x, NoDup l -> ~ In x l -> NoDup (l ++ [x]).
Proof.
  induction l as [|y r IH]; intros x Hn Hx; simpl.
  - constructor; auto.
  - inversion Hn; subst. constructor.
    + intros Hin. apply in_app_or in Hin. destruct Hin as [Hin|[->|[]]]; [contradiction|]. apply Hx. left. reflexivity.
    + apply IH; auto. intros Hin. apply Hx. right. exact Hin.
Qed.

(* evictUser: the sessions in [gone] leave Topic.sessions at once, their Session.subs entry goes
   when the detach notice is applied *)
Lemma inv_att_evictuser : forall c c' i (gone : sid -> bool),
  c_next c' = c_next c ->
  (forall s0, gone s0 = true -> mem s0 (i_sessions (c_inst c i)) = true) ->
  (forall s0, s_subs (c_sess c' s0) = s_subs (c_sess c s0) /\
              s_detachq (c_sess c' s0) = (if gone s0 && negb (s_term (c_sess c s0)) then s_detachq (c_sess c s0) ++ [i_name (c_inst c i)]
                                          else s_detachq (c_sess c s0)) /\
              s_term (c_sess c' s0) = s_term (c_sess c s0)) ->
  (forall j, i_name (c_inst c' j) = i_name (c_inst c j) /\
             i_sessions (c_inst c' j) = (if Nat.eqb j i then filter (fun s' => negb (gone s')) (i_sessions (c_inst c i)) else i_sessions (c_inst c j)) /\
             i_phase (c_inst c' j) = i_phase (c_inst c j)) ->
  i_phase (c_inst c i) = PRun ->
  inv_att c -> inv_att c'.
Proof.
  intros c c' i gone En Hg Es Ei Hp [F M S D DS ND IE TD LF].
  assert (Hnd : i_phase (c_inst c i) <> PDead) by congruence.
  assert (Hsub : forall s0 j, mem s0 (i_sessions (c_inst c' j)) = true -> mem s0 (i_sessions (c_inst c j)) = true).
  { intros s0 j. destruct (Ei j) as (_ & -> & _). destruct (Nat.eqb_spec j i) as [->|]; auto.
    rewrite mem_filter. intros H. apply andb_true_iff in H. tauto. }
  constructor.
  - intros s0 t j. destruct (Es s0) as (-> & _ & _). rewrite En. apply F.
  - intros s0 j Hpj Hm. destruct (Es s0) as (-> & _ & _). destruct (Ei j) as (-> & _ & Ej). rewrite Ej in Hpj.
    apply M; auto.
  - intros s0 t j. destruct (Es s0) as (-> & Eq & ->). intros Ht H.
    destruct (S _ _ _ Ht H) as [(A & B & C)|R].
    + destruct (Ei j) as (-> & -> & ->). destruct (Nat.eqb_spec j i) as [->|]; [|left; auto].
      destruct (gone s0) eqn:Eg.
      * right. rewrite Eq, Ht. simpl. apply in_or_app. right. left. exact C.
      * left. rewrite mem_filter, B, Eg. auto.
    + right. rewrite Eq. destruct (gone s0 && negb (s_term (c_sess c s0))); auto. apply in_or_app. auto.
  - intros s0 t j Hin Hn Hm. destruct (Es s0) as (_ & Eq & _). destruct (Ei j) as (Enj & _ & ->). rewrite Enj in Hn.
    rewrite Eq in Hin. pose proof (Hsub _ _ Hm) as Hm0.
    destruct (gone s0 && negb (s_term (c_sess c s0))) eqn:Eg; [|apply (D s0 t j); auto].
    apply in_app_or in Hin. destruct Hin as [Hin|[<-|[]]]; [apply (D s0 t j); auto|].
    apply andb_true_iff in Eg. destruct Eg as [Eg _].
    destruct (Nat.eqb_spec j i) as [->|Hji].
    + destruct (Ei i) as (_ & Ex & _). rewrite Ex, Nat.eqb_refl, mem_filter, Eg, andb_false_r in Hm. discriminate.
    + destruct (i_phase (c_inst c j)) eqn:Epj; auto; exfalso.
      * rewrite (IE _ Epj) in Hm0. discriminate.
      * assert (Hj : i_phase (c_inst c j) <> PDead) by congruence.
        pose proof (M s0 j Hj Hm0) as X1. pose proof (M s0 i Hnd (Hg _ Eg)) as X2. rewrite Hn in X1. congruence.
  - intros s0 t Hin. destruct (Es s0) as (-> & Eq & _). rewrite Eq in Hin.
    destruct (gone s0 && negb (s_term (c_sess c s0))) eqn:Eg; [|apply DS; auto].
    apply in_app_or in Hin. destruct Hin as [Hin|[<-|[]]]; [apply DS; auto|].
    apply andb_true_iff in Eg. destruct Eg as [Eg _]. rewrite (M s0 i Hnd (Hg _ Eg)). discriminate.
  - intros s0. destruct (Es s0) as (_ & -> & _).
    destruct (gone s0 && negb (s_term (c_sess c s0))) eqn:Eg; [|apply ND].
    apply andb_true_iff in Eg. destruct Eg as [Eg _].
    apply NoDup_snoc; [apply ND|]. intros Hin. apply Hnd. apply (D s0 _ i Hin); auto.
  - intros j. destruct (Ei j) as (_ & -> & ->). destruct (Nat.eqb_spec j i) as [->|]; [congruence|apply IE].
  - intros s0. destruct (Es s0) as (_ & -> & ->). intros Ht. rewrite Ht, andb_false_r. apply TD. exact Ht.
  - intros j. destruct (Ei j) as (_ & _ & ->). rewrite En. apply LF.
Qed.

(* the run loop takes the termination request: every attached session gets a detach notice, the loop returns *)
Lemma inv_att_exit : forall c c' i,
  c_next c' = c_next c ->
  (forall s0, s_subs (c_sess c' s0) = s_subs (c_sess c s0) /\
              s_detachq (c_sess c' s0) = (if mem s0 (i_sessions (c_inst c i)) && negb (s_term (c_sess c s0)) then s_detachq (c_sess c s0) ++ [i_name (c_inst c i)]
                                          else s_detachq (c_sess c s0)) /\
              s_term (c_sess c' s0) = s_term (c_sess c s0)) ->
  (forall j, i_name (c_inst c' j) = i_name (c_inst c j) /\ i_sessions (c_inst c' j) = i_sessions (c_inst c j) /\
             i_phase (c_inst c' j) = if Nat.eqb j i then PDead else i_phase (c_inst c j)) ->
  i_phase (c_inst c i) = PRun ->
  inv_att c -> inv_att c'.
Proof.
  intros c c' i En Es Ei Hp [F M S D DS ND IE TD LF].
  assert (Hnd : i_phase (c_inst c i) <> PDead) by congruence.
  constructor.
  - intros s0 t j. destruct (Es s0) as (-> & _ & _). rewrite En. apply F.
  - intros s0 j. destruct (Es s0) as (-> & _ & _). destruct (Ei j) as (-> & -> & ->).
    destruct (Nat.eqb_spec j i) as [->|]; [congruence|apply M].
  - intros s0 t j. destruct (Es s0) as (-> & Eq & ->). intros Ht H.
    destruct (S _ _ _ Ht H) as [(A & B & C)|R].
    + destruct (Ei j) as (-> & -> & ->). destruct (Nat.eqb_spec j i) as [->|]; [|left; auto].
      right. rewrite Eq, B, Ht. simpl. apply in_or_app. right. left. exact C.
    + right. rewrite Eq. destruct (_ && _); auto. apply in_or_app. auto.
  - intros s0 t j Hin Hn Hm. destruct (Es s0) as (_ & Eq & _). destruct (Ei j) as (Enj & Esj & ->). rewrite Enj in Hn. rewrite Esj in Hm.
    destruct (Nat.eqb_spec j i) as [->|Hji]; [reflexivity|].
    rewrite Eq in Hin.
    destruct (mem s0 (i_sessions (c_inst c i)) && negb (s_term (c_sess c s0))) eqn:Eg; [|apply (D s0 t j); auto].
    apply in_app_or in Hin. destruct Hin as [Hin|[<-|[]]]; [apply (D s0 t j); auto|].
    apply andb_true_iff in Eg. destruct Eg as [Eg _].
    destruct (i_phase (c_inst c j)) eqn:Epj; auto; exfalso.
    + rewrite (IE _ Epj) in Hm. discriminate.
    + assert (Hj : i_phase (c_inst c j) <> PDead) by congruence.
      pose proof (M s0 j Hj Hm) as X1. pose proof (M s0 i Hnd Eg) as X2. rewrite Hn in X1. congruence.
  - intros s0 t Hin. destruct (Es s0) as (-> & Eq & _). rewrite Eq in Hin.
    destruct (mem s0 (i_sessions (c_inst c i)) && negb (s_term (c_sess c s0))) eqn:Eg; [|apply DS; auto].
    apply in_app_or in Hin. destruct Hin as [Hin|[<-|[]]]; [apply DS; auto|].
    apply andb_true_iff in Eg. destruct Eg as [Eg _]. rewrite (M s0 i Hnd Eg). discriminate.
  - intros s0. destruct (Es s0) as (_ & -> & _).
    destruct (mem s0 (i_sessions (c_inst c i)) && negb (s_term (c_sess c s0))) eqn:Eg; [|apply ND].
    apply andb_true_iff in Eg. destruct Eg as [Eg _].
    apply NoDup_snoc; [apply ND|]. intros Hin. apply Hnd. apply (D s0 _ i Hin); auto.
  - intros j. destruct (Ei j) as (_ & -> & ->). destruct (Nat.eqb_spec j i) as [->|]; [discriminate|apply IE].
  - intros s0. destruct (Es s0) as (_ & -> & ->). intros Ht. rewrite Ht, andb_false_r. apply TD. exact Ht.
  - intros j. destruct (Ei j) as (_ & _ & ->). rewrite En. destruct (Nat.eqb_spec j i) as [->|]; [congruence|apply LF].
Qed.

Global Hint Rewrite s_detach_detachq : lc.

Lemma att_topicexit : forall c i c', inv_att c -> exec (TopicExit i) c = Some c' -> inv_att c'.
Proof.
  intros c i c' I Hs. simpl in Hs.
  destruct (i_phase (c_inst c i)) eqn:Ep; simpl in Hs; try discriminate.
  destruct (take_first i (c_texit c)) as [[b exit']|]; inv_some.
  apply (inv_att_exit c _ i); auto.
  - intros s0. simpl. destruct (mem s0 (i_sessions (c_inst c i))); simpl; autorewrite with lc; simpl; auto.
    destruct (s_term (c_sess c s0)); auto.
  - intros j. simpl. unfold on_inst, upd. simpl. destruct (Nat.eqb_spec j i); subst; simpl; auto.
Qed.

Lemma att_unreg_step : forall c i a e c', inv_att c -> unreg_step c i a e = Some c' -> inv_att c'.
Proof.
  intros c i a e c' I Hs. unfold unreg_step in Hs.
  destruct (i_phase (c_inst c i)) eqn:Ep; simpl in Hs; try discriminate.
  destruct (take_first i (c_tunreg c)) as [[r unreg']|] eqn:E; [|discriminate].
  simpl in Hs. inv_some.
  destruct (inactive (c_inst c i)) eqn:Ein.
  { destruct (r_init r); (eapply inv_att_same; [|exact I]); same_att_tac. }
  assert (Hleave : forall c1,
            c1 = (if mem (r_sid r) (i_sessions (c_inst c i))
                  then on_sess (on_inst (set_tunreg c unreg') i (fun y => i_setchansub (i_setsessions y (remove_nat (r_sid r) (i_sessions y)))
                                                                                         (remove_nat (r_sid r) (i_chansub y)))) (r_sid r)
                         (fun x => let x0 := s_setsubs x (remove_key (i_name (c_inst c i)) (s_subs x)) in
                                   if r_init r
                                   then s_reply x0 (rep r (if Bool.eqb (mem (r_sid r) (i_chansub (c_inst c i))) a then COk else CNotFound))
                                   else x0)
                  else set_tunreg c unreg') ->
            inv_att (if r_init r then on_sess c1 (r_sid r) s_donereq else c1)).
  { intros c1 ->. destruct (mem (r_sid r) (i_sessions (c_inst c i))) eqn:Em.
    - apply (inv_att_detach2 c _ (r_sid r) i); auto.
      + destruct (r_init r); reflexivity.
      + intros s0. destruct (r_init r); simpl; unfold on_sess, on_inst, upd; simpl; deq; autorewrite with lc; simpl; auto; congruence.
      + intros j. destruct (r_init r); simpl; unfold on_sess, on_inst, upd; simpl; deq; autorewrite with lc; simpl; auto; congruence.
    - destruct (r_init r); (eapply inv_att_same; [|exact I]); same_att_tac. }
  destruct (r_init r) eqn:Ei.
  - destruct (r_kind r) as [|[|]|]; simpl.
    + apply (Hleave _ eq_refl).
    + destruct (Nat.eqb (c_user c (r_sid r)) (c_owner c (i_name (c_inst c i)))) eqn:Eo.
      * (eapply inv_att_same; [|exact I]); same_att_tac.
      * destruct e; [(eapply inv_att_same; [|exact I]); same_att_tac|].
        apply (inv_att_evictuser c _ i
                 (fun s' => mem s' (i_sessions (c_inst c i)) && Nat.eqb (c_user c s') (c_user c (r_sid r)))); auto.
        -- intros s0 H. apply andb_true_iff in H. tauto.
        -- intros s0. simpl. unfold on_sess, on_inst, upd. simpl.
           destruct (mem s0 (i_sessions (c_inst c i)) && Nat.eqb (c_user c s0) (c_user c (r_sid r))) eqn:Eg; simpl;
             destruct (Nat.eqb_spec s0 (r_sid r)); subst; simpl; rewrite ?Eg; simpl; autorewrite with lc; simpl;
             rewrite ?Nat.eqb_refl; autorewrite with lc; simpl; auto;
             try (destruct (s_term (c_sess c (r_sid r))); auto; fail);
             try (destruct (s_term (c_sess c s0)); auto; fail).
        -- intros j. simpl. unfold on_sess, on_inst, upd. simpl. destruct (Nat.eqb_spec j i); subst; simpl; auto.
    + apply (Hleave _ eq_refl).
    + apply (Hleave _ eq_refl).
  - apply (Hleave _ eq_refl).
Qed.

(* a reply queued to a session changes nothing of the attachment state *)
Lemma inv_att_pre404 : forall c r e, inv_att c -> inv_att (pre404 c r e).
Proof.
  intros c r e I. eapply inv_att_same; [|exact I].
  destruct (pre404_frame c r e) as (Ei & En & _). unfold same_att. rewrite Ei, En.
  split; [reflexivity|]. split; [|auto].
  intros s. destruct (pre404_sess c r e s) as (A & _ & B & _ & C). auto.
Qed.

Lemma att_topicunreg : forall c i c', inv_att c -> exec (TopicUnreg i) c = Some c' -> inv_att c'.
Proof.
  intros c i c' I Hs. destruct (exec_unreg_inv _ _ _ Hs) as (r0 & rest0 & aC & eR & _ & _ & Hu).
  eapply att_unreg_step; [|exact Hu]. apply inv_att_pre404. exact I.
Qed.

Lemma inv_att_step : forall c l c', inv_att c -> step c l c' -> inv_att c'.
Proof.
  intros c l c' I Hs. unfold step in Hs. destruct l.
  - eapply att_client_sub; eauto.
  - eapply att_client_leave; eauto.
  - eapply att_client_del; eauto.
  - eapply att_hubjoin; eauto.
  - eapply att_initdone; eauto.
  - eapply att_topicreg; eauto.
  - eapply att_topicunreg; eauto.
  - eapply att_evict; eauto.
  - eapply att_idle; eauto.
  - eapply att_hubunreg; eauto.
  - eapply att_topicexit; eauto.
  - eapply att_sessdetach; eauto.
  - eapply att_discbegin; eauto.
  - eapply att_discend; eauto.
  - eapply att_hubunregfail; eauto.
Qed.

Lemma inv_att_reach : forall st ow us c, reach st ow us c -> inv_att c.
Proof. induction 1; [apply inv_att_init|eapply inv_att_step; eauto]. Qed.

(* ---------- quiescent symmetry ---------- *)

(* At quiescence (all queues empty, no detach notice in flight) a live session lists a topic,
   through instance i, exactly when instance i of that topic is running and lists the session. *)
Lemma quiescent_symmetry : forall st ow us c, reach st ow us c -> quiescent c ->
  forall s t i, s_term (c_sess c s) = false ->
    (lookup t (s_subs (c_sess c s)) = Some i <->
     i_phase (c_inst c i) = PRun /\ i_name (c_inst c i) = t /\ mem s (i_sessions (c_inst c i)) = true).
Proof.
  intros st ow us c Hr Hq s t i Ht. destruct (inv_att_reach _ _ _ _ Hr) as [F M S D DS ND IE TD LF].
  destruct Hq as (_ & _ & _ & _ & _ & _ & Hd). split.
  - intros H. destruct (S _ _ _ Ht H) as [(A & B & C)|R]; [auto|]. rewrite Hd in R. contradiction.
  - intros (A & B & C). subst t. apply M; auto. congruence.
Qed.

(* without the quiescence hypothesis: what can be in flight is exactly a detach notice *)
Lemma symmetry_modulo_detach : forall st ow us c, reach st ow us c ->
  forall s t i, s_term (c_sess c s) = false -> lookup t (s_subs (c_sess c s)) = Some i ->
    (i_phase (c_inst c i) = PRun /\ i_name (c_inst c i) = t /\ mem s (i_sessions (c_inst c i)) = true) \/
    In t (s_detachq (c_sess c s)).
Proof.
  intros st ow us c Hr s t i Ht H. destruct (inv_att_reach _ _ _ _ Hr) as [F M S D DS ND IE TD LF].
  destruct (S _ _ _ Ht H) as [(A & B & C)|R]; auto.
Qed.

Lemma attached_listed : forall st ow us c, reach st ow us c ->
  forall s i, i_phase (c_inst c i) <> PDead -> mem s (i_sessions (c_inst c i)) = true ->
    lookup (i_name (c_inst c i)) (s_subs (c_sess c s)) = Some i.
Proof. intros st ow us c Hr. apply (ia_mem_sub _ (inv_att_reach _ _ _ _ Hr)). Qed.

(* ---------- the leave handler detaches BOTH sides in one step, whatever the name form ---------- *)

Lemma mem_remove_nat_same : forall x l, mem x (remove_nat x l) = false.
Proof. intros. rewrite mem_remove_nat, Nat.eqb_refl, andb_false_r. reflexivity. Qed.

Lemma lookup_remove_key_same : forall t l, lookup t (remove_key t l) = None.
Proof. intros. rewrite lookup_remove_key, Nat.eqb_refl. reflexivity. Qed.

(* handleLeaveRequest for a {leave} without unsub, or for a session dropped by the server (disconnect, slow
   consumer): when it returns the topic does not list the session and the session does not list the topic - also on
   the path where the name form of the request differs from the form the session attached under (answered 404)
   and on the path where a topic without channel functionality was addressed as a channel (404 and then 200). *)
Lemma leave_detaches_both_sides : forall c i c' r rest,
  exec (TopicUnreg i) c = Some c' -> take_first i (c_tunreg c) = Some (r, rest) ->
  inactive (c_inst c i) = false -> (r_init r = false \/ r_kind r <> KLeave true) ->
  mem (r_sid r) (i_sessions (c_inst c' i)) = false /\
  (mem (r_sid r) (i_sessions (c_inst c i)) = true ->
   lookup (i_name (c_inst c i)) (s_subs (c_sess c' (r_sid r))) = None /\ mem (r_sid r) (i_chansub (c_inst c' i)) = false).
Proof.
  intros c i c' r rest Hs E Hin Hk.
  destruct (exec_unreg_inv _ _ _ Hs) as (r0 & rest0 & aC & eR & E0 & _ & Hu).
  rewrite E in E0. inversion E0; subst r0 rest0. clear E0.
  unfold unreg_step in Hu.
  destruct (pre404_frame c r eR) as (Ei & _ & _ & _ & _ & _ & _ & Eu & _).
  rewrite Ei, Eu, E in Hu.
  destruct (negb (is_run (i_phase (c_inst c i)))); [discriminate|]. simpl in Hu. rewrite ?Ei in Hu. rewrite Hin in Hu.
  assert (Hb : forall c1, c_inst c1 = c_inst c ->
            (forall s, s_subs (c_sess c1 s) = s_subs (c_sess c s)) ->
            forall c2, c2 = (if mem (r_sid r) (i_sessions (c_inst c i))
                  then on_sess (on_inst c1 i (fun y => i_setchansub (i_setsessions y (remove_nat (r_sid r) (i_sessions y)))
                                                                      (remove_nat (r_sid r) (i_chansub y)))) (r_sid r)
                         (fun x => let x0 := s_setsubs x (remove_key (i_name (c_inst c i)) (s_subs x)) in
                                   if r_init r
                                   then s_reply x0 (rep r (if Bool.eqb (mem (r_sid r) (i_chansub (c_inst c i))) aC then COk else CNotFound))
                                   else x0)
                  else c1) ->
            forall c3, c3 = (if r_init r then on_sess c2 (r_sid r) s_donereq else c2) ->
            mem (r_sid r) (i_sessions (c_inst c3 i)) = false /\
            (mem (r_sid r) (i_sessions (c_inst c i)) = true ->
             lookup (i_name (c_inst c i)) (s_subs (c_sess c3 (r_sid r))) = None /\ mem (r_sid r) (i_chansub (c_inst c3 i)) = false)).
  { intros c1 E1 E2 c2 -> c3 ->.
    destruct (mem (r_sid r) (i_sessions (c_inst c i))) eqn:Em.
    - destruct (r_init r); simpl; unfold on_sess, on_inst, upd; simpl; rewrite ?Nat.eqb_refl; simpl; rewrite E1;
        autorewrite with lc; simpl; rewrite ?mem_remove_nat_same, ?lookup_remove_key_same; auto.
    - destruct (r_init r); simpl; rewrite E1, Em; split; auto; discriminate. }
  destruct (r_init r) eqn:Hri.
  - destruct Hk as [Hk|Hk]; [discriminate|].
    destruct (r_kind r) as [|[|]|]; try congruence; inv_some;
      (eapply (Hb (set_tunreg (pre404 c r eR) rest)); [simpl; exact Ei| |reflexivity|reflexivity]);
      intros s; simpl; destruct (pre404_sess c r eR s) as (-> & _); reflexivity.
  - inv_some.
    (eapply (Hb (set_tunreg (pre404 c r eR) rest)); [simpl; exact Ei| |reflexivity|reflexivity]);
      intros s; simpl; destruct (pre404_sess c r eR s) as (-> & _); reflexivity.
Qed.
