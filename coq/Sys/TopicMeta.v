(* A meta-theorem: a predicate on (store, cache) that every handler of the topic model
   preserves is an invariant of [step], [step_f] and [run].  It reduces each further
   invariant to per-handler lemmas. *)
From Coq Require Import ZArith NArith List Bool Lia.
From Tinode Require Import Base.Util Pure.Acs Sys.Topic Sys.TopicTac Sys.TopicFrame Sys.TopicNum.
Import ListNotations.
Open Scope Z_scope.

Lemma get_data_same0 f s c n sid u a b l : h_st (get_data f s c n sid u a b l) = s /\ h_ca (get_data f s c n sid u a b l) = c.
Proof. unfold get_data. repeat break_match; split; reflexivity. Qed.
Lemma get_desc_same0 s c n sid u : h_st (get_desc s c n sid u) = s /\ h_ca (get_desc s c n sid u) = c.
Proof. unfold get_desc. repeat break_match; split; reflexivity. Qed.
Lemma get_sub_same0 f s c n sid u : h_st (get_sub f s c n sid u) = s /\ h_ca (get_sub f s c n sid u) = c.
Proof. unfold get_sub. repeat break_match; split; reflexivity. Qed.
Lemma get_del_same0 nr f s c n sid u a b l : h_st (get_del nr f s c n sid u a b l) = s /\ h_ca (get_del nr f s c n sid u a b l) = c.
Proof. unfold get_del. repeat break_match; split; reflexivity. Qed.

Section Meta.
Variable dr : Z -> list (Z * Z) -> option (list (Z * Z)).
Variable nr : list (Z * Z) -> list (Z * Z).
Variable sm : sessmap.
Variable Q : store -> Prop.              (* holds of the store while the topic is not loaded *)
Variable P : store -> cache -> Prop.     (* holds of store and cache while it is loaded *)

Definition minv (x : state) : Prop := match ca x with Some c => P (st x) c | None => Q (st x) end.

Hypothesis H_load : forall s, Q s -> P s (load s).
Hypothesis H_unload : forall s c, P s c -> Q s.
Hypothesis H_sub : forall f s c n sid u w b, P s c -> P (h_st (sub_reply f s c n sid u w b)) (h_ca (sub_reply f s c n sid u w b)).
Hypothesis H_leave_unsub : forall f s c n sid u, P s c -> P (h_st (leave_unsub f s c n sid u)) (h_ca (leave_unsub f s c n sid u)).
Hypothesis H_leave : forall s c sid u, P s c -> P s (fst (leave c sid u)).
Hypothesis H_pub : forall f s c n sid u ct ne, P s c -> P (h_st (publish f s c n sid u ct ne)) (h_ca (publish f s c n sid u ct ne)).
Hypothesis H_note : forall f s c n sid u w q, P s c -> P (h_st (note f s c n sid u w q)) (h_ca (note f s c n sid u w q)).
Hypothesis H_del_msg : forall f s c n sid u r h, P s c -> P (h_st (del_msg dr f s c n sid u r h)) (h_ca (del_msg dr f s c n sid u r h)).
Hypothesis H_set_sub : forall f s c n sid u t m, P s c -> P (h_st (set_sub f s c n sid u t m)) (h_ca (set_sub f s c n sid u t m)).
Hypothesis H_del_sub : forall f s c n sid u t, P s c -> P (h_st (del_sub f s c n sid u t)) (h_ca (del_sub f s c n sid u t)).
Hypothesis H_off_set_Q : forall f s sid u t m, Q s -> Q (o_st (offline_set_sub f s sid u t m)).
Hypothesis H_off_set_P : forall f s c sid u t m, P s c -> P (o_st (offline_set_sub f s sid u t m)) c.

Lemma step_minv f x o : minv x -> minv (fst (step dr nr sm f x o)).
Proof.
  intros I. destruct x as [s cx n0]. unfold minv in *. cbn [st ca] in *.
  destruct o; unfold step; cbn [st ca negb].
  - destruct cx as [c|].
    + destruct (attached c sid); cbn [fst st ca]; auto.
    + destruct (try_load f s 0) as [n1 [c|code]] eqn:TL; cbn [fst st ca]; auto.
      apply try_load_cases in TL. subst c. auto.
  - destruct cx as [c|]; [destruct (attached c sid)|]; cbn [negb fst st ca]; auto.
    destruct unsub; cbn [fst st ca]; auto.
    pose proof (H_leave s c sid (match alookup sid (c_sess c) with Some (a, _) => a | None => sess_uid sm sid end) I) as L.
    destruct (leave c sid _) as [c1 o1]. cbn [fst st ca h_st h_ca] in *. exact L.
  - destruct cx as [c|]; [destruct (attached c sid)|]; cbn [negb fst st ca]; auto.
  - destruct cx as [c|]; [destruct (attached c sid)|]; cbn [negb fst st ca];
      repeat match goal with |- context [if ?b then _ else _] => destruct b end; cbn [fst st ca]; auto.
  - destruct cx as [c|]; [destruct (attached c sid)|]; cbn [negb fst st ca]; auto.
    destruct (get_data_same0 f s c 0 sid (sess_uid sm sid) since before limit) as [-> ->]. exact I.
  - destruct cx as [c|]; [destruct (attached c sid)|]; cbn [negb fst st ca]; try rewrite offline_get_desc_frame; auto.
    destruct (get_desc_same0 s c 0 sid (sess_uid sm sid)) as [-> ->]. exact I.
  - destruct cx as [c|]; [destruct (attached c sid)|]; cbn [negb fst st ca]; try rewrite offline_get_sub_frame; auto.
    destruct (get_sub_same0 f s c 0 sid (sess_uid sm sid)) as [-> ->]. exact I.
  - destruct cx as [c|]; [destruct (attached c sid)|]; cbn [negb fst st ca]; auto.
    destruct (get_del_same0 nr f s c 0 sid (sess_uid sm sid) since before limit) as [-> ->]. exact I.
  - destruct cx as [c|]; [destruct (attached c sid)|]; cbn [negb fst st ca]; auto.
  - destruct cx as [c|]; [destruct (attached c sid)|]; cbn [negb fst st ca]; auto.
  - destruct cx as [c|]; [destruct (attached c sid)|]; cbn [negb fst st ca]; auto.
  - destruct cx as [c|]; [destruct (c_sess c)|]; cbn [fst st ca]; eauto.
  - cbn [fst st ca]. destruct cx as [c|]; eauto.
Qed.

Lemma step_f_minv x fo : minv x -> minv (fst (step_f dr nr sm x fo)).
Proof.
  intros I. unfold step_f. pose proof (step_minv (fst fo) x (snd fo) I) as I1.
  destruct (step dr nr sm (fst fo) x (snd fo)) as [x1 o1]. cbn [fst] in *.
  destruct (fst fo); cbn [fst]; auto.
  unfold minv in *. cbn [st ca]. destruct (ca x1); eauto.
Qed.

Lemma run_minv h : forall x, minv x -> minv (fst (run dr nr sm x h)).
Proof.
  induction h as [|fo h IH]; intros x I; cbn [run fst]; [exact I|].
  pose proof (step_f_minv x fo I) as I1.
  destruct (step_f dr nr sm x fo) as [x1 o1]. cbn [fst] in I1.
  specialize (IH x1 I1). destruct (run dr nr sm x1 h) as [x2 os]. exact IH.
Qed.
End Meta.
