(* C01, several requests in flight: (1) the idle-unload race between a topic instance the hub
   has unregistered and the instance loaded after it, (2) the sessions' write loops, which
   serialise a queued frame some time after the topic goroutine produced it.

   Definitions only.  Code modelled, statement by statement:
     server/topic.go    handleTopicTimeout (first statement: hub.unreg <- topicUnreg{rcptTo}),
                        runLocal (clientMsg and exit are two cases of one select: a {pub} queued
                        before the exit message may be handled first), handlePubBroadcast
                        (isInactive -> ErrLocked 503, before anything else), handleTopicTermination
                        (reason StopNone: sessions are told to detach, nothing is sent or stored)
     server/hub.go      topicUnreg 'Case 2: just unregister': t.markDeleted(); h.topicDel(topic);
                        t.exit <- shutDown; Hub.run case join: a topic that is not registered is
                        loaded from the store as a NEW instance
     server/session.go  subscribe (already subscribed -> 304), publish (an attached session sends
                        straight to the instance it is attached to: sub.broadcast), queueOut
                        (the frame is put on Session.send)
     server/hdl_websock.go writeLoop (a frame is serialised when it is taken from Session.send)
   The registered instance and the store are the group-topic model Sys/Topic.v ([step_f]). *)
From Coq Require Import ZArith NArith List Bool.
From Tinode Require Import Base.Util Pure.Acs Sys.Topic.
Import ListNotations.
Open Scope Z_scope.

(* an instance the hub has removed from its registry and told to exit; its goroutine has not
   read the exit message yet.  [z_deleted] is the status bit set by markDeleted. *)
Record zinst := mkZ {
  z_ca : cache; z_deleted : bool;
  (* Some (sid, content, noecho): when the hub unregistered it, its goroutine was inside
     handlePubBroadcast for this {pub}, past the isInactive check and not yet in store.Messages.Save *)
  z_inflight : option (N * N * bool) }.

Record rstate := mkR {
  r_x : state;                 (* store; the instance registered with the hub; adapter calls of the last request *)
  r_pend : nat;                (* unregister requests sent by handleTopicTimeout the hub has not handled yet *)
  r_zomb : list zinst;         (* unregistered instances still running, oldest first *)
  r_issued : list (Z * bool)   (* ghost: (SeqId passed to store.Messages.Save, Save returned nil), in call order *) }.

Inductive rop :=
| RReq (f : fault) (o : op)                              (* one client request, handled to completion *)
| RTimeout                                               (* the kill timer of the registered instance fires *)
| RHubUnreg                                              (* the hub handles one pending unregister request *)
| RZPub (i : nat) (sid : N) (content : N) (noecho : bool) (* unregistered instance i handles a queued {pub} *)
| RZExit (i : nat)                                       (* unregistered instance i reads its exit message *)
(* The handlers of one instance are atomic with respect to each other, NOT with respect to the
   hub: the status bits are written by the hub goroutine.  RHubUnregMid: the hub handles a pending
   unregister request while the registered instance is inside handlePubBroadcast for a {pub} of
   session sid - it has passed the isInactive check and has not yet called Save.  RZFinish: that
   instance completes the publish (Save, acknowledgement, broadcast) and then reads its exit message. *)
| RHubUnregMid (sid : N) (content : N) (noecho : bool)
| RZFinish (i : nat).

Definition op_sid (o : op) : N :=
  match o with
  | OLeave a _ | OPub a _ _ | ONote a _ _ | OGetData a _ _ _ | OGetDesc a | OGetSub a
  | OGetDel a _ _ _ | ODelMsg a _ _ | OSetSub a _ _ | ODelSub a _ | OSub a _ _ => a
  | OUnload | ORestart => 0%N
  end.

(* the first unregistered instance the session is still attached to *)
Fixpoint zfind (sid : N) (i : nat) (zs : list zinst) : option nat :=
  match zs with
  | [] => None
  | z :: r => if attached (z_ca z) sid then Some i else zfind sid (S i) r
  end.

Fixpoint zset (i : nat) (z : zinst) (zs : list zinst) : list zinst :=
  match zs, i with
  | [], _ => []
  | _ :: r, O => z :: r
  | y :: r, S j => y :: zset j z r
  end.

Fixpoint zdrop (i : nat) (zs : list zinst) : list zinst :=
  match zs, i with
  | [], _ => []
  | _ :: r, O => r
  | y :: r, S j => y :: zdrop j r
  end.

Definition is_crash (f : fault) : bool := match f with CrashAt _ => true | _ => false end.
Definition is_restart (o : op) : bool := match o with ORestart => true | _ => false end.

Section Race.
Variable del_ranges : Z -> list (Z * Z) -> option (list (Z * Z)).
Variable norm_ranges : list (Z * Z) -> list (Z * Z).
Variable sm : sessmap.
(* [mark] = topicUnreg marks the instance deleted before telling it to exit (the code as it is: true) *)
Variable mark : bool.

(* saveAndBroadcastMessage reaches store.Messages.Save iff the author has W; SeqId = lastID+1;
   Save returned nil iff the publish was acknowledged *)
Definition pub_issue (c : cache) (u : N) (h : hres) : list (Z * bool) :=
  if is_writer (user_mode c u) then [(c_lastid c + 1, negb (c_lastid (h_ca h) =? c_lastid c))] else [].

Definition req_issue (x : state) (f : fault) (o : op) : list (Z * bool) :=
  match o, ca x with
  | OPub sid content noecho, Some c =>
    if attached c sid
    then pub_issue c (sess_uid sm sid) (publish f (st x) c 0 sid (sess_uid sm sid) content noecho)
    else []
  | _, _ => []
  end.

(* handlePubBroadcast of an unregistered instance *)
Definition zpub (r : rstate) (f : fault) (i : nat) (z : zinst) (sid content : N) (noecho : bool) : rstate * out :=
  if z_deleted z then (r, [(sid, Ctrl 503 [])]) else
  let x := r_x r in
  let u := sess_uid sm sid in
  let h := publish f (st x) (z_ca z) 0 sid u content noecho in
  (mkR (mkState (h_st h) (ca x) (h_n h)) (r_pend r) (zset i (mkZ (h_ca h) false None) (r_zomb r))
       (r_issued r ++ pub_issue (z_ca z) u h), h_out h).

(* None = the action is outside this model (a session still attached to an unregistered instance
   sends something other than {sub} / {pub}; an instance index that does not exist) *)
Definition rstep (r : rstate) (a : rop) : option (rstate * out) :=
  match a with
  | RReq f o =>
    let sid := op_sid o in
    match zfind sid 0 (r_zomb r) with
    | Some i =>
      match o, nth_error (r_zomb r) i with
      | OSub _ _ _, _ => Some (r, [(sid, Ctrl 304 [])])          (* Session.subscribe: already subscribed *)
      | OPub _ content noecho, Some z =>
        match z_inflight z with
        | None => Some (zpub r f i z sid content noecho)
        | Some _ => None                                        (* its goroutine is busy until RZFinish *)
        end
      | _, _ => None
      end
    | None =>
      let '(x1, o1) := step_f del_ranges norm_ranges sm (r_x r) (f, o) in
      let dead := is_crash f || is_restart o in               (* the process is gone: every instance with it *)
      Some (mkR x1 (if dead then O else r_pend r) (if dead then [] else r_zomb r)
                (r_issued r ++ req_issue (r_x r) f o), o1)
    end
  | RTimeout =>
    (* handleTopicTimeout: the timer is armed only while no session is attached *)
    match ca (r_x r) with
    | Some c => match c_sess c with
                | [] => Some (mkR (r_x r) (S (r_pend r)) (r_zomb r) (r_issued r), [])
                | _ => Some (r, [])
                end
    | None => Some (r, [])
    end
  | RHubUnreg =>
    match r_pend r with
    | O => Some (r, [])
    | S p =>
      (* topicUnreg, case 2: whatever instance is registered under the name now *)
      match ca (r_x r) with
      | Some c => Some (mkR (mkState (st (r_x r)) None 0) p (r_zomb r ++ [mkZ c mark None]) (r_issued r), [])
      | None => Some (mkR (r_x r) p (r_zomb r) (r_issued r), [])
      end
    end
  | RZPub i sid content noecho =>
    match nth_error (r_zomb r) i with
    | Some z =>
      match z_inflight z with
      | None => if attached (z_ca z) sid then Some (zpub r NoFault i z sid content noecho) else None
      | Some _ => None
      end
    | None => None
    end
  | RZExit i =>
    match nth_error (r_zomb r) i with
    | Some z =>
      match z_inflight z with
      | None => Some (mkR (r_x r) (r_pend r) (zdrop i (r_zomb r)) (r_issued r), [])
      | Some _ => None
      end
    | None => None
    end
  | RHubUnregMid sid content noecho =>
    match r_pend r, ca (r_x r) with
    | S p, Some c =>
      (* the window exists only if the publish gets as far as Save: attached session, author with W *)
      if attached c sid && is_writer (user_mode c (sess_uid sm sid))
      then Some (mkR (mkState (st (r_x r)) None 0) p (r_zomb r ++ [mkZ c mark (Some (sid, content, noecho))]) (r_issued r), [])
      else None
    | _, _ => None
    end
  | RZFinish i =>
    match nth_error (r_zomb r) i with
    | Some z =>
      match z_inflight z with
      | Some (sid, content, noecho) =>
        (* saveAndBroadcastMessage does not look at the status bits again *)
        let x := r_x r in
        let u := sess_uid sm sid in
        let h := publish NoFault (st x) (z_ca z) 0 sid u content noecho in
        Some (mkR (mkState (h_st h) (ca x) (h_n h)) (r_pend r) (zdrop i (r_zomb r))
                  (r_issued r ++ pub_issue (z_ca z) u h), h_out h)
      | None => None
      end
    | None => None
    end
  end.

(* histories in which no unregistration lands inside a publish handler *)
Definition mid_free (a : rop) : bool :=
  match a with RHubUnregMid _ _ _ => false | _ => true end.

Fixpoint rrun (r : rstate) (l : list rop) : option (rstate * list out) :=
  match l with
  | [] => Some (r, [])
  | a :: l' =>
    match rstep r a with
    | None => None
    | Some (r1, o1) =>
      match rrun r1 l' with
      | None => None
      | Some (r2, os) => Some (r2, o1 :: os)
      end
    end
  end.

(* ------------------------------------------------------------------ *)
(* the sessions' write loops.  queueOut appends the frame to the session's queue; the write
   loop of session [sid] takes the oldest frame queued for it and serialises it, at any later
   time.  A frame is a value: what is serialised is what was queued (the implementation must
   not share mutable state between a queued frame and later work of the topic goroutine - that
   is the assumption the driver checks by serialising at dequeue time). *)
Inductive wact :=
| WDo (a : rop)
| WDrain (sid : N).

Record wstate := mkW { w_r : rstate; w_queue : out; w_wire : out }.

Fixpoint take_first (sid : N) (q : out) : option (frame * out) :=
  match q with
  | [] => None
  | (s, fr) :: q' =>
    if N.eqb s sid then Some (fr, q')
    else match take_first sid q' with
         | Some (fr', q'') => Some (fr', (s, fr) :: q'')
         | None => None
         end
  end.

Definition wstep (w : wstate) (a : wact) : option wstate :=
  match a with
  | WDo a =>
    match rstep (w_r w) a with
    | Some (r1, o) => Some (mkW r1 (w_queue w ++ o) (w_wire w))
    | None => None
    end
  | WDrain sid =>
    match take_first sid (w_queue w) with
    | Some (fr, q) => Some (mkW (w_r w) q (w_wire w ++ [(sid, fr)]))
    | None => Some w
    end
  end.

Fixpoint wrun (w : wstate) (l : list wact) : option wstate :=
  match l with
  | [] => Some w
  | a :: l' => match wstep w a with Some w1 => wrun w1 l' | None => None end
  end.

(* the requests of a schedule, without the write-loop steps *)
Fixpoint wdos (l : list wact) : list rop :=
  match l with
  | [] => []
  | WDo a :: l' => a :: wdos l'
  | WDrain _ :: l' => wdos l'
  end.

(* what one session reads, in order *)
Definition for_sid (sid : N) (o : out) : list frame := map snd (filter (fun e => N.eqb (fst e) sid) o).
End Race.

(* a burst: publishes dispatched back to back, handled by the one topic goroutine in
   dispatch order (FIFO channel) *)
Definition burst_ops (ps : list (N * N * bool)) : list (fault * op) :=
  map (fun p => (NoFault, OPub (fst (fst p)) (snd (fst p)) (snd p))) ps.
