(* C14: progress (no request bookkeeping blocks a session or a topic for ever) and the refutations
   of the full statements by the two witness schedules. *)
From Coq Require Import List Arith Bool Lia.
Import ListNotations.
Require Import Tinode.Sys.Lifecycle Tinode.Sys.LifecycleProofs Tinode.Sys.LifecycleAttach Tinode.Sys.LifecycleTerm.

(* the steps the server takes by itself (a goroutine that can run): everything except new client
   requests, a socket closing, a send queue overflowing, the idle timer firing and a store call failing
   ([HubUnregFail]: the environment decides) *)
Definition internal (l : label) : bool :=
  match l with
  | HubJoin | InitDone _ _ | TopicReg _ _ | TopicUnreg _ | HubUnreg _ | TopicExit _ | SessDetach _ | DiscEnd _ => true
  | _ => false
  end.

Definition stuck (c : config) : Prop := forall l c', internal l = true -> ~ step c l c'.

(* nothing is left to do: queues empty, no session holds its in-flight semaphore, every closing session has
   finished cleanUp *)
Definition settled (c : config) : Prop :=
  quiescent c /\ (forall s, s_inflight (c_sess c s) = 0) /\
  (forall s, s_term (c_sess c s) = true -> s_done (c_sess c s) = true).

Lemma stuck_quiescent : forall st ow us c,
  reach st ow us c -> no_dead_items c -> stuck c -> quiescent c.
Proof.
  intros st ow us c Hr (D1 & D2 & D3 & D4) Hstuck.
  pose proof (init_has_goroutine_reach _ _ _ _ Hr) as Hg.
  assert (Hno : forall P : Prop, (exists lb c', internal lb = true /\ step c lb c') -> P).
  { intros P (lb & c' & Hi & Hs). exfalso. eapply Hstuck; eauto. }
  assert (Hinit : forall i, i_phase (c_inst c i) = PInit -> exists lb c', internal lb = true /\ step c lb c').
  { intros i Ep. destruct (initdone_enabled c i Ep (Hg _ Ep)) as [c' Hc]. exists (InitDone i false), c'. auto. }
  unfold quiescent. repeat split.
  - destruct (c_hjoin c) eqn:E; auto. apply Hno.
    destruct (hubjoin_enabled c) as [c' Hc]; [congruence|]. exists HubJoin, c'. auto.
  - destruct (c_hunreg c) eqn:E; auto. apply Hno.
    destruct (hubunreg_enabled c) as [c' Hc]; [congruence|]. exists (HubUnreg true), c'. auto.
  - destruct (nil_or_in _ (c_inits c)) as [E|[x Hin]]; auto. apply Hno. apply (Hinit (fst x)). apply D1. exact Hin.
  - destruct (nil_or_in _ (c_treg c)) as [E|[x Hin]]; auto. apply Hno.
    destruct (i_phase (c_inst c (fst x))) eqn:Ep.
    + apply (Hinit _ Ep).
    + destruct (topicreg_enabled c _ Ep (in_has_tag _ _ _ Hin)) as [c' Hc]. exists (TopicReg (fst x) true), c'. auto.
    + exfalso. apply (D2 _ Hin). exact Ep.
  - destruct (nil_or_in _ (c_tunreg c)) as [E|[x Hin]]; auto. apply Hno.
    destruct (i_phase (c_inst c (fst x))) eqn:Ep.
    + apply (Hinit _ Ep).
    + destruct (topicunreg_enabled c _ Ep (in_has_tag _ _ _ Hin)) as [c' Hc]. exists (TopicUnreg (fst x)), c'. auto.
    + exfalso. apply (D3 _ Hin). exact Ep.
  - destruct (nil_or_in _ (c_texit c)) as [E|[x Hin]]; auto. apply Hno.
    destruct (i_phase (c_inst c (fst x))) eqn:Ep.
    + apply (Hinit _ Ep).
    + destruct (topicexit_enabled c _ Ep (in_has_tag _ _ _ Hin)) as [c' Hc]. exists (TopicExit (fst x)), c'. auto.
    + exfalso. apply (D4 _ Hin). exact Ep.
  - intros s. destruct (s_detachq (c_sess c s)) eqn:E; auto. apply Hno.
    destruct (sessdetach_enabled c s) as [c' Hc]; [congruence|]. exists (SessDetach s), c'. auto.
Qed.

Lemma quiescent_pending0 : forall c s, quiescent c -> pending s c = 0.
Proof.
  intros c s (A & _ & B & C & D & _). unfold pending. rewrite A, B, C, D. reflexivity.
Qed.

Lemma discend_enabled : forall c s, s_term (c_sess c s) = true -> s_done (c_sess c s) = false ->
  s_inflight (c_sess c s) = 0 -> exists c', step c (DiscEnd s) c'.
Proof. intros c s A B C. unfold step. simpl. rewrite A, B, C. simpl. eauto. Qed.

(* PARTIAL progress theorem: on executions without the nil-done step, as long as no request sits in a queue of an
   instance whose goroutine is gone, the system never stops short of [settled] *)
Lemma no_stuck_safe : forall st ow us c,
  reach_safe st ow us c -> no_dead_items c -> stuck c -> settled c.
Proof.
  intros st ow us c Hs Hd Hst.
  pose proof (reach_safe_reach _ _ _ _ Hs) as Hr.
  pose proof (stuck_quiescent _ _ _ _ Hr Hd Hst) as Hq.
  destruct (inv_bal_safe _ _ _ _ Hs) as [_ Hb].
  assert (H0 : forall s, s_inflight (c_sess c s) = 0).
  { intros s. rewrite (Hb s). apply quiescent_pending0. exact Hq. }
  split; [exact Hq|split; [exact H0|]].
  intros s Ht. destruct (s_done (c_sess c s)) eqn:Ed; auto. exfalso.
  destruct (discend_enabled c s Ht Ed (H0 s)) as [c' Hc]. apply (Hst (DiscEnd s) c'); auto.
Qed.

(* ---------- the witnesses ---------- *)

Definition lost_leave_cfg : option config := run lost_leave_trace (init_config ex_stored ex_owner ex_user ex_chan).
Definition stale_unload_cfg : option config := run stale_unload_trace (init_config ex_stored ex_owner ex_user ex_chan).

Ltac stuck_tac :=
  let l := fresh "l" in let c' := fresh "c'" in let Hint := fresh "Hint" in let Hs := fresh "Hs" in
  intros l c' Hint Hs; unfold step in Hs;
  destruct l as [? ?|? ? ?|? ?| |i ?|i ?|i|i ?|i|?|i|s|s|s|]; simpl in Hint; try discriminate Hint;
  try (simpl in Hs; discriminate Hs);
  try (destruct i as [|[|[|i]]]; simpl in Hs; discriminate Hs);
  try (destruct s as [|[|[|[|s]]]]; simpl in Hs; discriminate Hs).

Lemma lost_leave_refutes : exists c,
  run lost_leave_trace (init_config ex_stored ex_owner ex_user ex_chan) = Some c /\
  stuck c /\ c_tunreg c <> [] /\ s_inflight (c_sess c 1) = 1 /\ s_term (c_sess c 1) = false.
Proof.
  eexists. split; [vm_compute; reflexivity|]. split; [|simpl; repeat split; discriminate].
  stuck_tac.
Qed.

(* the stale-unload schedule, continued until nothing can move (the old instance takes its termination request) *)
Definition stale_unload_end_trace : list label := stale_unload_trace ++ [TopicExit 0].

Lemma stale_unload_refutes : exists c,
  run stale_unload_end_trace (init_config ex_stored ex_owner ex_user ex_chan) = Some c /\
  stuck c /\ quiescent c /\ s_inflight (c_sess c 1) = 1 /\ s_term (c_sess c 1) = false.
Proof.
  eexists. split; [vm_compute; reflexivity|]. split; [|simpl; unfold quiescent; simpl; repeat split].
  - stuck_tac.
  - intros s. destruct s as [|[|[|s]]]; reflexivity.
Qed.
