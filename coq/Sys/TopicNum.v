(* C01: message numbering.  Invariant over every reachable state of every
   history (any faults, crashes, unloads, restarts), and its consequences. *)
From Coq Require Import ZArith NArith List Bool Lia.
From Tinode Require Import Base.Util Pure.Acs Sys.Topic Sys.TopicTac Sys.TopicFrame.
Import ListNotations.
Open Scope Z_scope.

(* (a) every stored message number is at most the persisted high-water mark;
   (b) message numbers are unique; (c) while loaded, lastID <= seqid <= lastID+1
   and every stored number is at most lastID. *)
Definition inv_num (x : state) : Prop :=
  (forall n, In n (seqs (st x)) -> 1 <= n <= t_seqid (st x)) /\
  NoDup (seqs (st x)) /\
  match ca x with
  | Some c => 0 <= c_lastid c /\ c_lastid c <= t_seqid (st x) <= c_lastid c + 1 /\
              (forall n, In n (seqs (st x)) -> n <= c_lastid c)
  | None => 0 <= t_seqid (st x)
  end.

Definition num_same (s : store) (c : cache) (h : hres) : Prop :=
  t_seqid (h_st h) = t_seqid s /\ seqs (h_st h) = seqs s /\ c_lastid (h_ca h) = c_lastid c.

Lemma hframe_num s c h : hframe s c h -> num_same s c h.
Proof.
  intros [[_ [H1 [_ [_ [_ [H2 _]]]]]] [H3 _]]. repeat split; auto. unfold seqs. now rewrite H2.
Qed.

Lemma inv_num_same s c h n :
  inv_num (mkState s (Some c) n) -> num_same s c h -> forall n', inv_num (mkState (h_st h) (Some (h_ca h)) n').
Proof.
  unfold inv_num, num_same. cbn. intros [A [B C]] [E1 [E2 E3]] n'. rewrite E1, E2, E3. auto.
Qed.

(* publish: either nothing is numbered (rejected, or a store call failed before the
   row was stored: lastID and the stored numbers are unchanged, the persisted
   high-water mark is unchanged or already lastID+1), or the message got lastID+1 *)
Definition acked (o : out) (sid : N) (n : Z) : Prop := In (sid, Ctrl 202 [(P_seq, n)]) o.
Definition no_ack (o : out) : Prop := forall sid n, ~ acked o sid n.

Lemma msgs_subs_update s u up : msgs (ad_subs_update s u up) = msgs s.
Proof. unfold ad_subs_update. break_match; reflexivity. Qed.

Lemma fanout_data_frames c skip fr x : In x (fanout_data c skip fr) -> snd x = fr.
Proof.
  unfold fanout_data. rewrite in_flat_map. intros [[s0 [u0 b0]] [_ H]].
  repeat break_match_hyp; cbn in H; intuition; subst; reflexivity.
Qed.

Lemma publish_cases f s c n sid u content noecho :
  let h := publish f s c n sid u content noecho in
  (h_ca h = c /\ seqs (h_st h) = seqs s /\ msgs (h_st h) = msgs s /\
   (t_seqid (h_st h) = t_seqid s \/ t_seqid (h_st h) = c_lastid c + 1) /\ no_ack (h_out h) /\
   exists code, h_out h = [(sid, Ctrl code [])] /\ 400 <= code)
  \/
  (c_lastid (h_ca h) = c_lastid c + 1 /\ t_seqid (h_st h) = c_lastid c + 1 /\
   msgs (h_st h) = msgs s ++ [mkMsg (c_lastid c + 1) u content 0] /\
   ~ In (c_lastid c + 1) (seqs s) /\
   h_out h = (sid, Ctrl 202 [(P_seq, c_lastid c + 1)]) ::
             fanout_data (h_ca h) (if noecho then sid else 0%N) (Data (c_lastid c + 1) u content)
             ++ push_out (h_ca h) (c_lastid c + 1) u).
Proof.
  cbn zeta. unfold publish.
  destruct (negb (is_writer (pud_mode (get_pud c u)))).
  { left. cbn. repeat split; auto. - intros a b H. destruct H as [H|[]]. discriminate. - exists 403. split; [reflexivity|lia]. }
  destruct (call f n) as [ok1 n1].
  destruct (negb ok1).
  { left. cbn. repeat split; auto. - intros a b H. destruct H as [H|[]]. discriminate. - exists 500. split; [reflexivity|lia]. }
  destruct (call f n1) as [ok2 n2].
  destruct (negb ok2).
  { left. cbn. repeat split; auto. - intros a b H. destruct H as [H|[]]. discriminate. - exists 500. split; [reflexivity|lia]. }
  destruct (ad_msg_save (st_seqid (c_lastid c + 1) s) (c_lastid c + 1) u content) as [s2|] eqn:SV.
  2:{ left. cbn. repeat split; auto. - intros a b H. destruct H as [H|[]]. discriminate. - exists 500. split; [reflexivity|lia]. }
  right.
  unfold ad_msg_save in SV.
  destruct (existsb (fun m => m_seq m =? c_lastid c + 1) (msgs (st_seqid (c_lastid c + 1) s))) eqn:EX; [discriminate|].
  inv SV.
  assert (~ In (c_lastid c + 1) (seqs s)) as NI.
  { intros Hin. unfold seqs in Hin. apply in_map_iff in Hin. destruct Hin as [m [Hm1 Hm2]].
    assert (existsb (fun m => m_seq m =? c_lastid c + 1) (msgs s) = true) as E.
    { apply existsb_exists. exists m. split; [assumption|]. lia. }
    cbn in EX. congruence. }
  destruct (is_reader (pud_mode (get_pud c u))); [destruct (call f n2) as [ok3 n3]|];
    cbn [h_st h_ca h_out];
    repeat match goal with |- context [if ?b then _ else _] => destruct b end;
    cbn [c_lastid c_set_lastid c_set_users]; try rewrite seqid_subs_update; try rewrite msgs_subs_update;
    cbn [t_seqid msgs st_msgs st_seqid]; repeat split; auto.
Qed.

Lemma del_msg_num dr f s c n sid u req hard : num_same s c (del_msg dr f s c n sid u req hard).
Proof.
  unfold del_msg, num_same. repeat break_match; cbn [h_st h_ca c_lastid c_set_delid c_set_users];
    autorewrite with topic; cbn [t_seqid st_delid]; autorewrite with topic; auto.
Qed.

Lemma publish_inv f s c n sid u content noecho n0 n' :
  inv_num (mkState s (Some c) n0) ->
  inv_num (mkState (h_st (publish f s c n sid u content noecho)) (Some (h_ca (publish f s c n sid u content noecho))) n').
Proof.
  intros [A [B [C0 [C1 C2]]]]. cbn [st ca] in *.
  destruct (publish_cases f s c n sid u content noecho) as [[E1 [E2 [_ [E3 _]]]]|[E1 [E2 [E3 [E4 _]]]]];
    unfold inv_num; cbn [st ca].
  - rewrite E1, E2. split; [|split]; auto.
    + intros m Hm. specialize (A m Hm). specialize (C2 m Hm). destruct E3 as [E3|E3]; rewrite E3; lia.
    + repeat split; auto; destruct E3 as [E3|E3]; rewrite E3; lia.
  - assert (seqs (h_st (publish f s c n sid u content noecho)) = seqs s ++ [c_lastid c + 1]) as ES.
    { unfold seqs. rewrite E3, map_app. reflexivity. }
    rewrite ES, E1, E2. split; [|split].
    + intros m Hm. apply in_app_or in Hm. destruct Hm as [Hm|[Hm|[]]].
      * specialize (A m Hm). specialize (C2 m Hm). lia.
      * lia.
    + apply NoDup_app_single; [assumption|]. exact E4.
    + repeat split; try lia. intros m Hm. apply in_app_or in Hm. destruct Hm as [Hm|[Hm|[]]].
      * specialize (C2 m Hm). lia.
      * lia.
Qed.

Lemma load_inv s n : (forall m, In m (seqs s) -> 1 <= m <= t_seqid s) -> NoDup (seqs s) -> 0 <= t_seqid s ->
  inv_num (mkState s (Some (load s)) n).
Proof.
  intros A B C. unfold inv_num. cbn [st ca load c_lastid].
  split; [exact A|]. split; [exact B|].
  split; [lia|]. split; [lia|]. intros m Hm. apply A in Hm. lia.
Qed.

Lemma inv_num_unload s c n n' : inv_num (mkState s (Some c) n) -> inv_num (mkState s None n').
Proof. intros [A [B [C0 [C1 C2]]]]. unfold inv_num. cbn [st ca] in *. split; [exact A|]. split; [exact B|]. lia. Qed.

Lemma inv_num_ncalls s c n n' : inv_num (mkState s c n) -> inv_num (mkState s c n').
Proof. auto. Qed.

#[global] Arguments publish : simpl never.
#[global] Arguments note : simpl never.
#[global] Arguments get_data : simpl never.
#[global] Arguments get_desc : simpl never.
#[global] Arguments get_sub : simpl never.
#[global] Arguments get_del : simpl never.
#[global] Arguments del_msg : simpl never.
#[global] Arguments del_sub : simpl never.
#[global] Arguments leave_unsub : simpl never.
#[global] Arguments leave : simpl never.
#[global] Arguments sub_reply : simpl never.
#[global] Arguments set_sub : simpl never.
#[global] Arguments offline_get_desc : simpl never.
#[global] Arguments offline_get_sub : simpl never.
#[global] Arguments offline_set_sub : simpl never.
#[global] Arguments try_load : simpl never.
#[global] Arguments load : simpl never.

Lemma inv_num_store s s' c n n' :
  t_seqid s' = t_seqid s -> seqs s' = seqs s -> inv_num (mkState s c n) -> inv_num (mkState s' c n').
Proof. intros E1 E2 I. unfold inv_num in *. cbn [st ca] in *. now rewrite E1, E2. Qed.

Lemma sframe_seqs s s' : sframe s s' -> t_seqid s' = t_seqid s /\ seqs s' = seqs s.
Proof. intros [_ [H1 [_ [_ [_ [H2 _]]]]]]. split; auto. unfold seqs. now rewrite H2. Qed.

Lemma try_load_cases f s n n1 r : try_load f s n = (n1, r) ->
  match r with inl c => c = load s | inr _ => True end.
Proof. unfold try_load. repeat break_match; intros H; inv H; auto. Qed.

Section StepNum.
Variable dr : Z -> list (Z * Z) -> option (list (Z * Z)).
Variable nr : list (Z * Z) -> list (Z * Z).
Variable sm : sessmap.

Ltac keep_case I := first [ exact I | eapply inv_num_ncalls; exact I ].
Ltac same_case I L := eapply inv_num_same; [exact I | apply hframe_num; apply L].

Lemma step_inv_num f x o : inv_num x -> inv_num (fst (step dr nr sm f x o)).
Proof.
  intros I. destruct x as [s cx n0].
  destruct o; unfold step; cbn [st ca].
  - (* OSub *)
    destruct cx as [c|].
    + destruct (attached c sid); cbn [fst]; [keep_case I|]. same_case I sub_reply_frame.
    + destruct (try_load f s 0) as [n1 [c|code]] eqn:TL; cbn [fst].
      * apply try_load_cases in TL. subst c.
        eapply inv_num_same; [|apply hframe_num; apply sub_reply_frame].
        destruct I as [A [B C]]. apply load_inv; auto.
      * keep_case I.
  - (* OLeave *)
    destruct cx as [c|]; cbn [negb]; [destruct (attached c sid) eqn:AT|]; cbn [negb fst].
    + destruct unsub; cbn [fst].
      * same_case I leave_unsub_frame.
      * destruct (leave c sid _) as [c1 o1] eqn:L. cbn [fst h_st h_ca h_n].
        pose proof (leave_frame c sid (match alookup sid (c_sess c) with Some (a, _) => a | None => sess_uid sm sid end)) as LF.
        rewrite L in LF. cbn [fst] in LF. destruct LF as [E1 _].
        destruct I as [A [B C]]. unfold inv_num. cbn [st ca] in *. rewrite E1. auto.
    + keep_case I.
    + keep_case I.
  - (* OPub *)
    destruct cx as [c|]; cbn [negb]; [destruct (attached c sid)|]; cbn [negb fst]; try keep_case I.
    eapply publish_inv. exact I.
  - (* ONote *)
    destruct cx as [c|]; cbn [negb]; [destruct (attached c sid)|]; cbn [negb fst];
      repeat break_match; cbn [fst]; try keep_case I; same_case I note_frame.
  - (* OGetData *)
    destruct cx as [c|]; cbn [negb]; [destruct (attached c sid)|]; cbn [negb fst]; try keep_case I.
    same_case I get_data_frame.
  - (* OGetDesc *)
    destruct cx as [c|]; cbn [negb]; [destruct (attached c sid)|]; cbn [negb fst].
    + same_case I get_desc_frame.
    + rewrite offline_get_desc_frame. keep_case I.
    + rewrite offline_get_desc_frame. keep_case I.
  - (* OGetSub *)
    destruct cx as [c|]; cbn [negb]; [destruct (attached c sid)|]; cbn [negb fst].
    + same_case I get_sub_frame.
    + rewrite offline_get_sub_frame. keep_case I.
    + rewrite offline_get_sub_frame. keep_case I.
  - (* OGetDel *)
    destruct cx as [c|]; cbn [negb]; [destruct (attached c sid)|]; cbn [negb fst]; try keep_case I.
    same_case I get_del_frame.
  - (* ODelMsg *)
    destruct cx as [c|]; cbn [negb]; [destruct (attached c sid)|]; cbn [negb fst]; try keep_case I.
    eapply inv_num_same; [exact I | apply del_msg_num].
  - (* OSetSub *)
    destruct cx as [c|]; cbn [negb]; [destruct (attached c sid)|]; cbn [negb fst].
    + same_case I set_sub_frame.
    + destruct (sframe_seqs _ _ (offline_set_sub_frame f s sid (sess_uid sm sid) target mode)) as [E1 E2].
      eapply inv_num_store; eauto.
    + destruct (sframe_seqs _ _ (offline_set_sub_frame f s sid (sess_uid sm sid) target mode)) as [E1 E2].
      eapply inv_num_store; eauto.
  - (* ODelSub *)
    destruct cx as [c|]; cbn [negb]; [destruct (attached c sid)|]; cbn [negb fst]; try keep_case I.
    same_case I del_sub_frame.
  - (* OUnload *)
    destruct cx as [c|]; [destruct (c_sess c)|]; cbn [fst]; try keep_case I.
    apply (inv_num_unload s c n0 0); exact I.
  - (* ORestart *)
    cbn [fst]. destruct cx as [c|]; [apply (inv_num_unload s c n0 0); exact I | keep_case I].
  Unshelve. all: exact O.
Qed.
End StepNum.
