(* C17, part E: ONE run of Cluster.electLeader (server/cluster_leader.go) as a
   function of the replies that actually arrive on its [done] channel, in the
   order in which they arrive.  Definitions only.

     func (c *Cluster) electLeader() {
       c.fo.term++
       c.fo.leader = ""
       nodeCount := len(c.nodes)
       expectVotes := (nodeCount+1)>>1 + 1
       done := make(chan *rpc.Call, nodeCount)
       for _, node := range c.nodes {
         response := ClusterVoteResponse{}
         node.callAsync("Cluster.Vote", &ClusterVoteRequest{Node: c.thisNodeName, Term: c.fo.term}, &response, done)
       }
       voteCount := 1
       timeout := time.NewTimer(...)
       for i := 0; i < nodeCount && voteCount < expectVotes; {
         select {
         case call := <-done:
           if call.Error == nil {
             if call.Reply.Result { voteCount++ }
             else if c.fo.term < call.Reply.Term { i = nodeCount; voteCount = 0 }
           }
           i++
         case <-timeout.C:
           i = nodeCount
         }
       }
       if voteCount >= expectVotes { c.fo.leader = c.thisNodeName }
     }

   ClusterNode.callAsync (cluster.go): a node that is not connected gets no
   request; a call with Error set is put on [done] at once.

   A reply, as electLeader sees it in call.Error / call.Reply: a YES
   (Result = true, with the voter's term), a NO (Result = false, with the voter's
   term), or an error (the handler failed, the connection broke, the node is not
   connected).  A reply that does not arrive before the timer fires is simply not
   in the list: when the list is exhausted while the loop condition still holds,
   the only enabled case of the select is the timer.

   The candidate is a [node] of Sys/Election.v; c.nodes = the OTHER configured
   nodes, each with ClusterNode.connected. *)
From Coq Require Import List Bool Arith.
From Tinode Require Import Sys.Election.
Import ListNotations.

Inductive reply_c17e := RYes (t : nat) | RNo (t : nat) | RErr.

(* expectVotes := (nodeCount+1)>>1 + 1 *)
Definition expect_c17e (nc : nat) : nat := Nat.div2 (nc + 1) + 1.

Record tally_c17e := mkTallyC17e {
  tl_votes : nat;       (* voteCount when the loop is left *)
  tl_taken : nat;       (* replies taken from [done] *)
  tl_timeout : bool     (* the loop was left through the timer case *)
}.

(* the loop; [i], [vc] are the Go variables i and voteCount, [k] counts the replies taken *)
Fixpoint loop_c17e (nc ev term : nat) (arr : list reply_c17e) (i vc k : nat) : tally_c17e :=
  if (i <? nc) && (vc <? ev) then
    match arr with
    | [] => mkTallyC17e vc k true                      (* case <-timeout.C: i = nodeCount *)
    | r :: arr' =>
      match r with
      | RYes _ => loop_c17e nc ev term arr' (S i) (S vc) (S k)
      | RNo rt =>
        if term <? rt then loop_c17e nc ev term arr' (S nc) 0 (S k)   (* i = nodeCount; voteCount = 0; i++ *)
        else loop_c17e nc ev term arr' (S i) vc (S k)
      | RErr => loop_c17e nc ev term arr' (S i) vc (S k)
      end
    end
  else mkTallyC17e vc k false.

Record cand_c17e := mkCandC17e {
  cd_self : node;                    (* c.thisNodeName *)
  cd_term : nat;                     (* c.fo.term on entry *)
  cd_leader : option node;           (* c.fo.leader on entry *)
  cd_peers : list (node * bool)      (* c.nodes: name, ClusterNode.connected *)
}.

Record outcome_c17e := mkOutC17e {
  oc_term : nat;                                 (* c.fo.term on return *)
  oc_leader : option node;                       (* c.fo.leader on return *)
  oc_requests : list (node * (node * nat));      (* (receiver, (ClusterVoteRequest.Node, .Term)) *)
  oc_tally : tally_c17e
}.

(* the errors callAsync itself puts on [done] for the nodes that are not connected *)
Definition unconnected_c17e (ps : list (node * bool)) : list reply_c17e :=
  map (fun _ => RErr) (filter (fun p => negb (snd p)) ps).

(* [arr]: the replies of the connected nodes in their order of arrival *)
Definition elect_c17e (c : cand_c17e) (arr : list reply_c17e) : outcome_c17e :=
  let t := S (cd_term c) in
  let nc := length (cd_peers c) in
  let ev := expect_c17e nc in
  let reqs := map (fun p => (fst p, (cd_self c, t))) (filter snd (cd_peers c)) in
  let tl := loop_c17e nc ev t (unconnected_c17e (cd_peers c) ++ arr) 0 1 0 in
  mkOutC17e t (if ev <=? tl_votes tl then Some (cd_self c) else None) reqs tl.

Definition is_yes_c17e (r : reply_c17e) : bool := match r with RYes _ => true | _ => false end.
(* the YES replies among the replies given *)
Definition count_yes_c17e (arr : list reply_c17e) : nat := length (filter is_yes_c17e arr).

(* Two candidates of one term.  [ballot m] = the candidate to which node m has given
   its vote of the term in question (a function: at most one vote per node and term,
   which is c17_el_one_vote_per_term for the voters of Sys/Election.v, whose ghost
   [votes s T] is such a ballot).  [ord] = the nodes whose replies reached the
   candidate, in their order of arrival; [rep m] = the reply of m.  The view is
   truthful when a YES reply was really given by its voter. *)
Definition supports_c17e (ballot : node -> option node) (c m : node) : bool :=
  match ballot m with Some x => x =? c | None => false end.

Record view_ok_c17e (nodes : list node) (ballot : node -> option node)
       (c : cand_c17e) (ord : list node) (rep : node -> reply_c17e) : Prop := mkViewOkC17e {
  vo_in : In (cd_self c) nodes;
  vo_nc : S (length (cd_peers c)) = length nodes;           (* c.nodes = the other configured nodes *)
  vo_nodup : NoDup ord;                                     (* at most one reply per request *)
  vo_peers : forall m, In m ord -> In m nodes /\ m <> cd_self c;
  vo_self : ballot (cd_self c) = Some (cd_self c);          (* the candidate's own vote *)
  vo_yes : forall m t, In m ord -> rep m = RYes t -> ballot m = Some (cd_self c)
}.

(* the same with the voters of Sys/Election.v in state [s], term [T] *)
Record view_el_c17e (cfg : config) (s : state) (T : nat)
       (c : cand_c17e) (ord : list node) (rep : node -> reply_c17e) : Prop := mkViewElC17e {
  ve_in : In (cd_self c) (cfg_nodes cfg);
  ve_peers : map fst (cd_peers c) = peers cfg (cd_self c);
  ve_term : S (cd_term c) = T;
  ve_nodup : NoDup ord;
  ve_ord : forall m, In m ord -> In m (peers cfg (cd_self c));
  ve_self : votes s T (cd_self c) = Some (cd_self c);
  ve_yes : forall m t, In m ord -> rep m = RYes t -> votes s T m = Some (cd_self c)
}.
