(* C03, creation of a peer-to-peer topic and the publishes that follow it (s03f).

   Slice of server/session.go Session.dispatch (acting user AND acting auth level of a request:
   the session's own, or extra.obo / extra.authlevel for a ROOT session), server/utils.go
   selectAccessMode, server/init_topic.go initTopicP2P (cases 1, 2.1, 2.2, 3, 4; no {sub.set}),
   server/topic.go subscriptionReply + thisUserSub (existing entry, no requested mode) and
   saveAndBroadcastMessage's gate.  One p2p topic between the accounts [ua] and [ub]; both
   accounts exist; no store faults; no {leave}; the topic stays loaded once loaded.

   The auth level that selects the default access is an explicit argument [lsel] of
   [init_p2p_c03f]; the faithful step passes the ACTING level (auth.Level(sreg.AuthLvl) as set
   by dispatch), the variant [step_sessvar_c03f] passes the SESSION's level (sreg.sess.authLvl)
   and exists only to be refuted.

   Definitions only.  Proofs: Sys/P2PCreateC03fProofs.v. *)
From Coq Require Import ZArith NArith List Bool.
From Tinode Require Import Base.Util Sys.Topic.
Import ListNotations.
Open Scope Z_scope.

(* auth.Level *)
Inductive lvl_c03f := LvNone | LvAnon | LvAuth | LvRoot.
Definition lvl_is_root_c03f (l : lvl_c03f) : bool := match l with LvRoot => true | _ => false end.

(* utils.go selectAccessMode *)
Definition select_mode_c03f (l : lvl_c03f) (anon auth root : N) : N :=
  match l with LvNone => 0%N | LvAnon => anon | LvAuth => auth | LvRoot => root end.

(* extra.authlevel as a string: absent/"" | "anon" | "auth" | "root" | anything else; auth.ParseAuthLevel *)
Inductive xlvl_c03f := XAbsent | XAnon | XAuth | XRoot | XJunk.
Definition parse_level_c03f (x : xlvl_c03f) : lvl_c03f :=
  match x with XAnon => LvAnon | XAuth => LvAuth | XRoot => LvRoot | XAbsent | XJunk => LvNone end.

(* extra.obo: absent | not a user id | usrN *)
Inductive obo_c03f := ObNone | ObBad | ObUser (u : N).

(* Session.dispatch: who the request is executed as, and at which level *)
Inductive disp_c03f := DRun (u : N) (l : lvl_c03f) | DRefuse (code : Z).
Definition dispatch_c03f (suid : N) (slvl : lvl_c03f) (o : obo_c03f) (x : xlvl_c03f) : disp_c03f :=
  match o with
  | ObNone => DRun suid slvl                      (* msg.AsUser = s.uid; msg.AuthLvl = s.authLvl *)
  | _ =>
    if negb (lvl_is_root_c03f slvl) then DRefuse 403 else
    match o with
    | ObUser u =>
      (* AuthLvl not set by the caller (or invalid): LevelAuth *)
      DRun u (match parse_level_c03f x with LvNone => LvAuth | l => l end)
    | _ => DRefuse 400
    end
  end.

Definition ModeCP2P_c03f : N := 31%N.    (* JRWPA *)
Definition p2p_sane_c03f (m : N) : N := N.lor (N.land m ModeCP2P_c03f) mA.   (* m & ModeCP2P | ModeApprove *)

(* an account's default access; a subscription's modes *)
Record acct_c03f := mkAcct { d_auth : N; d_anon : N }.
Record row_c03f := mkRow { r_want : N; r_given : N }.
Definition row_mode_c03f (r : row_c03f) : N := N.land (r_given r) (r_want r).

Record cache_c03f := mkCa {
  k_a : row_c03f; k_b : row_c03f;       (* perUser of the two parties *)
  k_lastid : Z;
  k_sess : list (N * N) }.              (* attached sessions: sid -> the user it is attached as *)

Record state_c03f := mkSt {
  acc_a : acct_c03f; acc_b : acct_c03f;
  t_ex : bool; t_seq : Z;               (* the topics row and its seqid *)
  s_a : option row_c03f; s_b : option row_c03f;   (* live stored subscription rows *)
  s_msgs : list (Z * N);                (* stored messages: seq, author *)
  ca : option cache_c03f }.

Section Parties.
Variable ua ub : N.

Definition acct_of (s : state_c03f) (u : N) : acct_c03f := if N.eqb u ua then acc_a s else acc_b s.
Definition srow_of (s : state_c03f) (u : N) : option row_c03f := if N.eqb u ua then s_a s else s_b s.
Definition crow_of (c : cache_c03f) (u : N) : row_c03f := if N.eqb u ua then k_a c else k_b c.
Definition peer_c03f (u : N) : N := if N.eqb u ua then ub else ua.
Definition party_c03f (u : N) : bool := N.eqb u ua || N.eqb u ub.
Definition set_srow (s : state_c03f) (u : N) (r : row_c03f) : state_c03f :=
  if N.eqb u ua then mkSt (acc_a s) (acc_b s) (t_ex s) (t_seq s) (Some r) (s_b s) (s_msgs s) (ca s)
  else mkSt (acc_a s) (acc_b s) (t_ex s) (t_seq s) (s_a s) (Some r) (s_msgs s) (ca s).
Definition set_crow (c : cache_c03f) (u : N) (r : row_c03f) : cache_c03f :=
  if N.eqb u ua then mkCa r (k_b c) (k_lastid c) (k_sess c) else mkCa (k_a c) r (k_lastid c) (k_sess c).
Definition set_ca (s : state_c03f) (c : option cache_c03f) : state_c03f :=
  mkSt (acc_a s) (acc_b s) (t_ex s) (t_seq s) (s_a s) (s_b s) (s_msgs s) c.
Definition mk_cache (u1 : N) (r1 r2 : row_c03f) (lastid : Z) : cache_c03f :=
  if N.eqb u1 ua then mkCa r1 r2 lastid [] else mkCa r2 r1 lastid [].

Inductive ires_c03f :=
| IErr (code : Z)
| IOk (s : state_c03f) (c : cache_c03f) (newsub : bool).

(* initTopicP2P; [u1] = requester (sreg.AsUser), the other user is his peer; [lsel] = the level
   handed to selectAccessMode *)
Definition init_p2p_c03f (lsel : lvl_c03f) (s : state_c03f) (u1 : N) : ires_c03f :=
  let u2 := peer_c03f u1 in
  let ex := t_ex s in
  let sub1 := if ex then srow_of s u1 else None in
  let sub2 := if ex then srow_of s u2 else None in
  let lastid := if ex then t_seq s else 0 in
  match ex, sub1, sub2 with
  | true, None, None => IErr 500                                (* case 3: ErrInternal *)
  | true, Some r1, Some r2 => IOk s (mk_cache u1 r1 r2 lastid) false   (* case 4 *)
  | _, _, _ =>
    let acc1 := acct_of s u1 in
    let acc2 := acct_of s u2 in
    let sel := select_mode_c03f lsel (d_anon acc2) (d_auth acc2) ModeCP2P_c03f in
    (* sub2 == nil: ModeGiven = users[u1].Access.Auth & ModeCP2P | ModeApprove *)
    let g2 := match sub2 with Some r => r_given r | None => p2p_sane_c03f (d_auth acc1) end in
    (* sub1 == nil: modeGiven = selectAccessMode(level, users[u2].Access...), modeWant = sub2.ModeGiven *)
    let r1 := match sub1 with Some r => r | None => mkRow g2 sel end in
    (* !user1only: sub2.ModeWant = selectAccessMode(...) & ModeCP2P | ModeApprove *)
    let r2 := match sub2 with Some r => r | None => mkRow (p2p_sane_c03f sel) g2 end in
    let newsub := match sub1 with Some _ => false | None => true end in
    let user1only := match sub2 with Some _ => true | None => false end in
    let s' := if ex then (if user1only then set_srow s u1 r1 else set_srow s u2 r2)
              else set_srow (set_srow (mkSt (acc_a s) (acc_b s) true 0 None None (s_msgs s) (ca s)) u1 r1) u2 r2 in
    IOk s' (mk_cache u1 r1 r2 lastid) newsub
  end.

Definition attached_c03f (c : cache_c03f) (sid : N) : bool :=
  match alookup sid (k_sess c) with Some _ => true | None => false end.
Definition evict_c03f (c : cache_c03f) (u : N) : cache_c03f :=
  mkCa (k_a c) (k_b c) (k_lastid c) (filter (fun e => negb (N.eqb (snd e) u)) (k_sess c)).
Definition attach_c03f (c : cache_c03f) (sid u : N) : cache_c03f :=
  mkCa (k_a c) (k_b c) (k_lastid c) (aset sid u (k_sess c)).

(* the requester's frame: {ctrl code} with params.seq on an accepted publish *)
Definition reply_c03f := (Z * option Z)%type.

(* subscriptionReply + thisUserSub, existing cache entry, no requested mode; [l] = pkt.AuthLvl.
   t.accessFor(l) of a p2p topic = selectAccessMode(l, 0, 0, ModeCP2P) *)
Definition sub_c03f (l : lvl_c03f) (s : state_c03f) (c : cache_c03f) (sid u : N) (newsub : bool)
  : state_c03f * reply_c03f :=
  let p := crow_of c u in
  let oldw := r_want p in
  let g := r_given p in
  let w := if negb (is_joiner oldw) then N.ldiff (N.lor g (select_mode_c03f l 0%N 0%N ModeCP2P_c03f)) mO else oldw in
  let need := negb (w =? oldw)%N in
  let s1 := if need then set_srow s u (mkRow w g) else s in      (* Subs.Update *)
  let c1 := set_crow c u (mkRow w g) in
  let changed := newsub || need in
  let has_joined := if changed then is_joiner (N.land g w) else true in
  let att (c' : cache_c03f) := if has_joined then attach_c03f c' sid u else c' in
  if negb (is_joiner w) then (set_ca s1 (Some (att (evict_c03f c1 u))), (200, None)) else
  if negb (is_joiner g) then (set_ca s1 (Some c1), (403, None)) else
  (set_ca s1 (Some (att c1)), (200, None)).

(* saveAndBroadcastMessage: the gate and the numbering (no store faults) *)
Definition pub_c03f (s : state_c03f) (c : cache_c03f) (u : N) : state_c03f * reply_c03f :=
  if negb (is_writer (row_mode_c03f (crow_of c u))) then (s, (403, None)) else
  let seq := k_lastid c + 1 in
  (mkSt (acc_a s) (acc_b s) (t_ex s) seq (s_a s) (s_b s) (s_msgs s ++ [(seq, u)])
        (Some (mkCa (k_a c) (k_b c) seq (k_sess c))), (202, Some seq)).

Inductive kind_c03f := KSub | KPub.
Record req_c03f := mkReq { q_sid : N; q_obo : obo_c03f; q_xl : xlvl_c03f; q_kind : kind_c03f }.

(* sessions: sid -> (user, level) *)
Definition sessions_c03f := list (N * (N * lvl_c03f)).

(* one request handled to quiescence; [sessvar] = true selects the refuted variant in which the
   level handed to initTopicP2P's selectAccessMode is the session's own.  None: outside the
   fragment (unknown session, acting user is not a party of this topic) *)
Definition step_gen_c03f (sessvar : bool) (sm : sessions_c03f) (s : state_c03f) (q : req_c03f)
  : option (state_c03f * reply_c03f) :=
  match alookup (q_sid q) sm with
  | None => None
  | Some (suid, slvl) =>
    match dispatch_c03f suid slvl (q_obo q) (q_xl q) with
    | DRefuse code => Some (s, (code, None))
    | DRun u l =>
      if negb (party_c03f u) then None else
      let sid := q_sid q in
      match q_kind q with
      | KSub =>
        match ca s with
        | Some c =>
          if attached_c03f c sid then Some (s, (304, None))      (* Session.subscribe: already subscribed *)
          else Some (sub_c03f l s c sid u false)
        | None =>
          match init_p2p_c03f (if sessvar then slvl else l) s u with
          | IErr code => Some (s, (code, None))
          | IOk s1 c newsub => Some (sub_c03f l s1 c sid u newsub)
          end
        end
      | KPub =>
        match ca s with
        | Some c => if attached_c03f c sid then Some (pub_c03f s c u) else Some (s, (409, None))
        | None => Some (s, (409, None))                          (* Session.publish: attach first *)
        end
      end
    end
  end.

Definition step_c03f := step_gen_c03f false.
Definition step_sessvar_c03f := step_gen_c03f true.

Fixpoint run_c03f (sm : sessions_c03f) (s : state_c03f) (h : list req_c03f) : option state_c03f :=
  match h with
  | [] => Some s
  | q :: h' => match step_c03f sm s q with Some (s', _) => run_c03f sm s' h' | None => None end
  end.

(* cache and store agree: the cached modes of both parties are their live stored rows, the
   cached counter is the stored one *)
Definition coh_c03f (s : state_c03f) : Prop :=
  match ca s with
  | None => True
  | Some c => t_ex s = true /\ s_a s = Some (k_a c) /\ s_b s = Some (k_b c) /\ t_seq s = k_lastid c
  end.

(* the acting user is a subscriber with W in both modes according to the STORE *)
Definition stored_writer_c03f (s : state_c03f) (u : N) : bool :=
  match srow_of s u with Some r => is_writer (r_want r) && is_writer (r_given r) | None => false end.
Definition attached_now_c03f (s : state_c03f) (sid : N) : bool :=
  match ca s with Some c => attached_c03f c sid | None => false end.

End Parties.
