(* C13  Requests addressed to a topic WHILE IT IS BEING LOADED, and the end of the load.

   Hub.run registers the paused Topic before `go topicInit(t, join, h)` (hub.go:166-199), so the hub already
   routes to it: while the database call of the load is in flight, requests of OTHER sessions reach the topic's
   queues.  This file models, statement by statement,

     Session.publish / note / get / set / del / leave / subscribe   session.go:617-760, 1095-1312
         for a session that is NOT attached to the topic (nobody is: it is not loaded yet)
     Hub.run, cases routeCli / join / meta / unreg                   hub.go:201-262, 300-313
     Hub.topicUnreg with reason StopDeleted on a registered topic     hub.go:392-437 ({del what=topic})
     topicInit, failure branch                                         init_topic.go:63-101
         (reply to join; re-queue t.reg; reject t.clientMsg, t.unreg, t.meta with 503 "locked")
     topicInit, success                                                init_topic.go:104-131 and what the run loop
         then does with the queued messages (one reply with the request's id per {pub} / {del}, none per {note})

   [as_is = true] is the code as it is; [as_is = false] the variant whose clientMsg drain answers with join.Id
   instead of msg.Id.

   Reply codes decided below this level (store results, permission checks) are the oracle code 999; what is
   modelled exactly is WHO is answered, with WHICH id, HOW OFTEN.  Definitions only. *)
From Coq Require Import List NArith Bool.
Import ListNotations.
Open Scope N_scope.

Definition str := list N.

Inductive nwhat := NKp | NRead | NRecv | NCallEvent (routable : bool) | NData | NOther.

Inductive mkind :=
| KPub
| KNote (w : nwhat) (valid : bool)            (* valid: passes the seq / payload / p2p checks at the top of Session.note *)
| KGet (any desc_or_sub : bool)                (* MetaWhat != 0; MetaWhat & (desc|sub) != 0 *)
| KSet (any tags_or_cred : bool)
| KDelTopic (owner : bool)                     (* {del what=topic}; owner: the requester is the stored owner of the (group) topic *)
| KDelOther (known : bool)
| KLeave (unsub : bool)
| KSub.

(* a client message: the session it came from, its id (empty for a note) *)
Record cmsg := mkMsg { m_sess : N; m_id : str; m_kind : mkind }.

Record reply := mkRep { r_to : N; r_code : N; r_id : str }.

(* the topic being loaded *)
Record tinfo := mkTi {
  ti_sys : bool;       (* msg.RcptTo == "sys" *)
  ti_p2p : bool }.     (* initTopicP2P has set t.cat = TopicCatP2P before its first store call *)

Record held := mkHeld {
  h_join : cmsg;              (* the {sub} whose load is in flight *)
  h_registered : bool;        (* Hub.topics still has the topic *)
  h_deleted : bool;           (* markDeleted by a {del what=topic} *)
  h_client : list cmsg;       (* t.clientMsg (capacity 192) *)
  h_meta : list cmsg }.       (* t.meta (capacity 64) *)

Definition init_held (join : cmsg) : held := mkHeld join true false [] [].

Definition client_cap : nat := 192.

Definition code_oracle : N := 999.

Definition own (m : cmsg) (code : N) : reply := mkRep (m_sess m) code (m_id m).

(* Hub.run, case msg := <-h.routeCli *)
Definition hub_route_cli (h : held) (m : cmsg) : held * list reply :=
  if h_registered h then
    if Nat.ltb (length (h_client h)) client_cap then
      (mkHeld (h_join h) (h_registered h) (h_deleted h) (h_client h ++ [m]) (h_meta h), [])     (* dst.clientMsg <- msg *)
    else (h, [])                                                  (* default: logged, dropped *)
  else match m_kind m with
       | KNote _ _ => (h, [])                                     (* unknown topic: a note is ignored *)
       | _ => (h, [own m 202])                                    (* NoErrAcceptedExplicitTs(msg.Id, ...) *)
       end.

(* one request of a session that is not attached to the topic *)
Definition route (ti : tinfo) (h : held) (m : cmsg) : held * list reply :=
  match m_kind m with
  | KPub =>
      if ti_sys ti then hub_route_cli h m                         (* publishing to sys needs no subscription *)
      else (h, [own m 409])                                       (* ErrAttachFirst *)
  | KNote w valid =>
      if negb valid then (h, [])
      else match w with
           | NRecv | NCallEvent true => hub_route_cli h m
           | _ => (h, [own m 409])                                (* ErrAttachFirst(msg): the id of a note is empty *)
           end
  | KGet any ds =>
      if negb any then (h, [own m 400])
      else if ds then (h, [own m code_oracle])                    (* hub.meta -> go replyOfflineTopicGet* *)
      else (h, [own m 403])
  | KSet any tc =>
      if negb any then (h, [own m 400])
      else if tc then (h, [own m 403])
      else (h, [own m code_oracle])                               (* hub.meta -> go replyOfflineTopicSetSub *)
  | KDelTopic _ =>
      (* hub.unreg -> topicUnreg(sess, topic, msg, StopDeleted) *)
      if h_registered h then
        (* t.owner is still zero: the requester is not "the owner" *)
        if ti_p2p ti then
          (* t.cat == P2P && t.subsCount() < 2 (perUser is still empty): the topic row is deleted, reply 200,
             h.topicDel, t.markDeleted, t.exit <- shutDown *)
          (mkHeld (h_join h) false true (h_client h) (h_meta h), [own m 200])
        else (mkHeld (h_join h) (h_registered h) (h_deleted h) (h_client h) (h_meta h ++ [m]), [])      (* t.meta <- msg *)
      else (h, [own m code_oracle])                               (* offline branch *)
  | KDelOther known =>
      if known then (h, [own m 409]) else (h, [own m 400])
  | KLeave unsub =>
      (h, [own m (if unsub then 409 else 304)])                   (* Add(1); not attached: Done(); reply *)
  | KSub =>
      (* Add(1); hub.join: the topic is registered and inactive: Done(); ErrLockedReply.  Once a {del} has
         unregistered it a new load starts: it answers with the request's id (oracle code) *)
      if h_registered h then (h, [own m 503]) else (h, [own m code_oracle])
  end.

Fixpoint route_all (ti : tinfo) (h : held) (ms : list cmsg) : held * list reply :=
  match ms with
  | [] => (h, [])
  | m :: r =>
      let '(h1, rs1) := route ti h m in
      let '(h2, rs2) := route_all ti h1 r in
      (h2, rs1 ++ rs2)
  end.

(* topicInit, failure branch: `msg.sess.queueOut(ErrLockedExplicitTs(msg.Id, ...))` for every queued client message *)
Definition reject_client (as_is : bool) (join m : cmsg) : reply :=
  mkRep (m_sess m) 503 (if as_is then m_id m else m_id join).

Definition release_fail (as_is : bool) (errcode : N) (h : held) : list reply :=
  own (h_join h) errcode
  :: map (reject_client as_is (h_join h)) (h_client h)            (* every queued message has msg.init *)
  ++ map (fun m => own m 503) (h_meta h).                         (* ErrLockedReply(msg, ...) *)

(* the load succeeds *)
Definition is_empty (s : str) : bool := match s with [] => true | _ => false end.

Definition client_reply (m : cmsg) : list reply :=
  match m_kind m with
  | KPub => if is_empty (m_id m) then []                          (* an accepted {pub} without id is not acknowledged: `if msg.Id != ""` *)
            else [own m code_oracle]                              (* handlePubBroadcast: exactly one {ctrl} with msg.Id *)
  | _ => []                                                       (* handleNoteBroadcast never replies *)
  end.

(* a {pub} carries an id (a {pub} without id is by protocol design not acknowledged when accepted) *)
Definition pub_has_id (m : cmsg) : bool := match m_kind m with KPub => negb (is_empty (m_id m)) | _ => true end.

(* handleMeta -> handleMetaDel -> replyDelTopic (topic.go:3095-3103): a requester who is not the owner is
   unsubscribed and answered; for the owner the function logs "replyDelTopic called by owner (SHOULD NOT HAPPEN!)"
   and returns WITHOUT a reply *)
Definition meta_reply (m : cmsg) : list reply :=
  match m_kind m with
  | KDelTopic true => []
  | _ => [own m code_oracle]
  end.

Definition release_ok (h : held) : list reply :=
  if h_deleted h then []                                          (* `if t.isDeleted() { return }`: nobody is told *)
  else own (h_join h) code_oracle
       :: flat_map client_reply (h_client h)
       ++ flat_map meta_reply (h_meta h).

Inductive release := RelOk | RelFail (errcode : N).

Definition run_held (as_is : bool) (ti : tinfo) (join : cmsg) (ms : list cmsg) (rel : release) : list reply :=
  let '(h, rs) := route_all ti (init_held join) ms in
  rs ++ match rel with
        | RelOk => release_ok h
        | RelFail e => release_fail as_is e h
        end.

(* ---------- what the property says about it ---------- *)
Fixpoint eqs (a b : str) : bool :=
  match a, b with
  | [], [] => true
  | x :: a', y :: b' => N.eqb x y && eqs a' b'
  | _, _ => false
  end.

(* the reply answers request m: it goes to m's session and carries m's id *)
Definition answers (r : reply) (m : cmsg) : bool := N.eqb (r_to r) (m_sess m) && eqs (r_id r) (m_id m).

(* every reply carries the id of a request of the session it is sent to *)
Definition all_own (reqs : list cmsg) (rs : list reply) : bool :=
  forallb (fun r => existsb (answers r) reqs) rs.

Definition is_note (m : cmsg) : bool := match m_kind m with KNote _ _ => true | _ => false end.

Definition answered (rs : list reply) (m : cmsg) : bool := existsb (fun r => answers r m) rs.

(* ---------- witnesses ---------- *)
Definition ti_sys_topic : tinfo := mkTi true false.
Definition ti_p2p_topic : tinfo := mkTi false true.
Definition w_join : cmsg := mkMsg 1 [115;49] KSub.                          (* session 1: {sub id="s1"} *)
Definition w_pub : cmsg := mkMsg 2 [112;55] KPub.                           (* session 2: {pub id="p7" topic="sys"} *)
Definition w_del : cmsg := mkMsg 3 [100;51] (KDelTopic false).              (* session 3: {del id="d3" what="topic"} *)
Definition ti_grp_topic : tinfo := mkTi false false.
Definition w_del_owner : cmsg := mkMsg 3 [100;51] (KDelTopic true).         (* the same from the owner of the group topic *)
