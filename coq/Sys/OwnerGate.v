(* C06, last clause: "only the owner can delete the topic for everybody or change its
   public/trusted description, default access and tags".  The permission gates of these
   requests for a GROUP topic, translated statement by statement from
     session.go  Session.set / Session.del        (routing: attached or not)
     hub.go      topicUnreg (reason StopDeleted)  ({del what=topic}, topic loaded / not loaded)
     hub.go      replyOfflineTopicSetSub          ({set} from a session that is not attached)
     topic.go    replySetDesc / replySetTags / replyDelTopic -> replyLeaveUnsub
   Definitions only; fault-free store (a failing store call turns an accepted request
   into a 500 without effect).  The requests considered carry a value that differs
   from the stored one, so "304 not modified because nothing changes" does not arise
   for an accepted request. *)
From Coq Require Import ZArith NArith List Bool.
Import ListNotations.
Open Scope Z_scope.

Inductive gkind :=
| GDelTopic                    (* {del what="topic"} *)
| GSetPublic                   (* {set desc={public: ...}} *)
| GSetTrusted                  (* {set desc={trusted: ...}} *)
| GSetDefacs (with_o : bool)   (* {set desc={defacs: {auth: ...}}}; with_o: the mode names O *)
| GSetTags.                    (* {set tags=[...]} *)

Record greq := mkGreq {
  g_loaded : bool;      (* hub.topicGet(topic) != nil *)
  g_attached : bool;    (* Session.getSub(topic) != nil (implies loaded) *)
  g_owner_c : bool;     (* t.owner == asUid, read when the topic is loaded *)
  g_owner_s : bool;     (* the requester's stored subscription has O in want & given, read when not loaded *)
  g_subscribed : bool;  (* the requester has a live subscription (stored; cached when loaded) *)
  g_root : bool }.      (* the session's authentication level is root *)

Inductive gout :=
| GAll (code : Z)     (* accepted: the topic is deleted for everybody / its shared description, default access or tags change *)
| GOwn (code : Z)     (* only the requester's own subscription is deleted *)
| GNone (code : Z).   (* refused, or nothing to do *)

(* hub.topicUnreg, reason == StopDeleted *)
Definition gate_del (r : greq) : gout :=
  if g_loaded r then
    (* case 1.1: topic is online *)
    if g_owner_c r then GAll 200                      (* 1.1.1 store.Topics.Delete *)
    else                                              (* 1.1.2 t.meta <- msg: replyDelTopic -> replyLeaveUnsub *)
      if g_subscribed r then GOwn 200 else GNone 304  (* Subs.Delete: ErrNotFound -> InfoNoAction *)
  else
    (* case 1.2: topic is offline; the subscriptions are read from the store *)
    if negb (g_subscribed r) then GNone 304           (* "If user has no subscription, tell him all is fine" *)
    else if negb (g_owner_s r) then GOwn 200          (* 1.2.2.1 store.Subs.Delete(topic, asUid) *)
    else GAll 200.                                    (* 1.2.1.1 store.Topics.Delete *)

(* Session.set -> Topic.replySetDesc (attached) / replyOfflineTopicSetSub (not attached) *)
Definition gate_desc (public trusted : bool) (defacs : option bool) (r : greq) : gout :=
  if negb (g_attached r) then GNone 304               (* offline path looks at desc.private and sub.mode only *)
  else if trusted && negb (g_root r) then GNone 403   (* "Only ROOT can change Trusted" *)
  else if g_owner_c r then
    match defacs with
    | Some true => GNone 400                          (* "default 'owner' access is not permitted" -> ErrMalformed *)
    | _ => GAll 200
    end
  else if public || trusted || (match defacs with Some _ => true | None => false end) then GNone 403
  else GNone 304.

(* Session.set -> Topic.replySetTags *)
Definition gate_tags (r : greq) : gout :=
  if negb (g_attached r) then GNone 403               (* "can Set tags/creds for subscribed topics only" *)
  else if negb (g_owner_c r) then GNone 403           (* "tags update by non-owner" *)
  else GAll 200.

Definition gate (k : gkind) (r : greq) : gout :=
  match k with
  | GDelTopic => gate_del r
  | GSetPublic => gate_desc true false None r
  | GSetTrusted => gate_desc false true None r
  | GSetDefacs o => gate_desc false false (Some o) r
  | GSetTags => gate_tags r
  end.

(* who the code takes for the owner on the path the request travels *)
Definition g_is_owner (r : greq) : bool := if g_loaded r then g_owner_c r else g_owner_s r.
