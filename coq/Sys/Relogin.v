(* Token RE-ISSUANCE on {login}: model of Session.login (server/session.go:910-982, the
   part after the handler lookup) and Session.onLogin (server/session.go:1043-1094), with
   the records the three authenticators hand to them:
     token  auth_token.go:128-133  (Lifetime = time.Until(expires))
     code   auth_code.go:134-141   (AuthLevel None, Lifetime = ca.lifetime, Features NoLogin)
     basic  auth_basic.go:242-252  (Lifetime = time.Until(record expiry) or 0, Features 0)
   and the call GenSecret(rec) of the token authenticator (Pure/Token.v, gen_secret) that
   produces the token handed back in the reply.

   auth.Rec is [Token.grec] (Uid, AuthLevel, Features, Lifetime: exactly the fields
   GenSecret reads).  Times are Z nanoseconds.  One {login} reads the clock three times:
   in Authenticate (expiry check), in time.Until (remaining lifetime) and in GenSecret;
   the three readings are inputs ([clock]).  What the login path reads from the rest of
   the server is an input as well ([login_env]): whether the user record exists in state
   OK, and whether stringSliceDelta(authValidators[level], validated) is non-empty.
   The verdicts of the code and basic authenticators are inputs (their own models are
   Pure/Code.v, Pure/Basic.v); the token authenticator is the real model of Token.v.

   Definitions only; proofs in ReloginProofs.v. *)
From Coq Require Import NArith ZArith List Bool.
From Tinode Require Import Pure.Token.
Import ListNotations.
Open Scope Z_scope.

(* auth.FeatureValidated = 1 << 0, auth.FeatureNoLogin = 1 << 1 *)
Definition feature_validated : N := 1.
Definition feature_nologin : N := 2.
(* f & bit != 0 *)
Definition has_feature (f bit : N) : bool := negb (N.land f bit =? 0)%N.

(* the fields of Session the login path reads and writes: s.uid, s.authLvl *)
Record sess := mkSess { s_uid : N; s_lvl : Z }.

(* the three readings of time.Now() during one {login}, in program order *)
Record clock := mkClk { t_auth : Z; t_until : Z; t_gen : Z }.

(* the token authenticator as configured by Init: key, serial_num, expire_in * time.Second *)
Record tcfg := mkTC { tc_key : list N; tc_serial : Z; tc_lifetime : Z }.

(* what the login path reads from the rest of the server *)
Record login_env := mkLE {
  le_state_ok : bool;        (* userGetState(rec.Uid) = StateOK, no error *)
  le_unvalidated : bool;     (* some validator required at rec.AuthLevel is not among the validated credentials *)
  le_code_lifetime : Z       (* the code authenticator's expire_in * time.Second *)
}.

(* the secret presented, with the verdict of the authenticator where that is an input *)
Inductive secret :=
| SecToken (tok : list N)                      (* scheme "token" *)
| SecCode (ok : option N)                      (* scheme "code": uid of the accepted code, None = refused *)
| SecBasic (ok : option (N * Z * option Z))    (* scheme "basic": uid, level, expiry of the record; None = refused *)
| SecUnknownScheme.

Inductive lcode := LOk200 | LValidate300 | LRefused4xx | LAlready409.

(* the reply: code, and params["token"], params["expires"] when GenSecret succeeded *)
Record login_out := mkLO { lo_code : lcode; lo_token : option (list N * Z) }.

Inductive auth_res := ARec (rec : grec) | AErr.

Section Relogin.
Variable mac : list N -> list N -> list N.

(* token authenticator, Authenticate: the verdict of Token.authenticate plus the Lifetime field *)
Definition token_rec (c : tcfg) (clk : clock) (tok : list N) : auth_res :=
  match authenticate mac (tc_key c) (tc_serial c) (t_auth clk) tok with
  | TOk r =>
    let tl := decode_fields (firstn data_size tok) in
    ARec (mkG (r_uid r) (Z.of_N (r_level r)) (r_features r)
              (Z.of_N (f_expires tl) * second - t_until clk))
  | TErr _ => AErr
  end.

(* code authenticator, record of a successful Authenticate *)
Definition code_rec (uid : N) (code_lifetime : Z) : grec := mkG uid 0 feature_nologin code_lifetime.

(* basic authenticator, record of a successful Authenticate *)
Definition basic_rec (uid : N) (lvl : Z) (expires : option Z) (clk : clock) : grec :=
  mkG uid lvl 0 (match expires with Some e => e - t_until clk | None => 0 end).

(* handler.Authenticate(msg.Login.Secret) *)
Definition authenticate_secret (c : tcfg) (env : login_env) (clk : clock) (sec : secret) : auth_res :=
  match sec with
  | SecToken tok => token_rec c clk tok
  | SecCode (Some uid) => ARec (code_rec uid (le_code_lifetime env))
  | SecBasic (Some (uid, lvl, expires)) => ARec (basic_rec uid lvl expires clk)
  | _ => AErr
  end.

(* Session.onLogin.  The record passed to GenSecret is [rec] with Features and Lifetime
   as left by the statements above the call. *)
Definition on_login (c : tcfg) (s : sess) (now_gen : Z) (rec : grec) (missing : bool)
  : sess * login_out :=
  let features := g_features rec in
  if missing then
    (* reply = InfoValidateCredentials; rec.Features = features (unchanged), Lifetime untouched *)
    (s, mkLO LValidate300
             (gen_secret mac (tc_key c) (tc_serial c) (tc_lifetime c) now_gen
                (mkG (g_uid rec) (g_level rec) features (g_lifetime rec))))
  else
    (* if features&auth.FeatureNoLogin == 0 { s.uid = ..; s.authLvl = ..; rec.Lifetime = 0 } *)
    let full := negb (has_feature features feature_nologin) in
    let s1 := if full then mkSess (g_uid rec) (g_level rec) else s in
    let lifetime1 := if full then 0 else g_lifetime rec in
    (* features |= auth.FeatureValidated *)
    let features1 := N.lor features feature_validated in
    (s1, mkLO LOk200
              (gen_secret mac (tc_key c) (tc_serial c) (tc_lifetime c) now_gen
                 (mkG (g_uid rec) (g_level rec) features1 lifetime1))).

(* Session.login after the "reset" branch *)
Definition login (c : tcfg) (env : login_env) (s : sess) (clk : clock) (sec : secret)
  : sess * login_out :=
  if negb (s_uid s =? 0)%N then (s, mkLO LAlready409 None) else
  match sec with
  | SecUnknownScheme => (s, mkLO LRefused4xx None)
  | _ =>
    match authenticate_secret c env clk sec with
    | AErr => (s, mkLO LRefused4xx None)
    | ARec rec =>
      (* rec.State is StateUndefined for the three authenticators: userGetState *)
      if negb (le_state_ok env) then (s, mkLO LRefused4xx None) else
      (* challenge is nil for the three authenticators *)
      let missing := negb (has_feature (g_features rec) feature_validated) && le_unvalidated env in
      on_login c s (t_gen clk) rec missing
    end
  end.

(* ---- temporary tokens the server issues by itself and hands to a credential validator ---- *)

Definition level_none : Z := 0.    (* auth.LevelNone *)
Definition level_auth : Z := 20.   (* auth.LevelAuth *)
Definition tmp_token_lifetime : Z := 24 * 3600 * second.     (* time.Hour * 24 *)

(* replyUpdateUser (user.go:286-291) and Topic.replySetCred (topic.go:2921-2926) *)
Definition update_cred_rec (uid : N) : grec := mkG uid level_none feature_nologin tmp_token_lifetime.
(* replyCreateUser (user.go:178-182): no Features *)
Definition create_cred_rec (uid : N) : grec := mkG uid level_auth 0 tmp_token_lifetime.

(* store.Store.GetLogicalAuthHandler("token").GenSecret(rec), errors dropped *)
Definition tmp_token (c : tcfg) (now : Z) (rec : grec) : option (list N * Z) :=
  gen_secret mac (tc_key c) (tc_serial c) (tc_lifetime c) now rec.

(* ---- histories of logins ---- *)
(* every login of a history presents either an independently obtained secret or the token handed
   back by an EARLIER login of the same history (by position); session, environment and clock of
   every login are arbitrary *)
Inductive src := Indep (sec : secret) | Earlier (i : nat).
Record lreq := mkRq { rq_src : src; rq_env : login_env; rq_sess : sess; rq_clk : clock }.

Definition no_out : sess * login_out := (mkSess 0 0, mkLO LRefused4xx None).
Definition out_tok (o : sess * login_out) : option (list N) :=
  match lo_token (snd o) with Some (t, _) => Some t | None => None end.

Definition presented (done : list (sess * login_out)) (r : lreq) : secret :=
  match rq_src r with
  | Indep s => s
  | Earlier i => match out_tok (nth i done no_out) with Some t => SecToken t | None => SecToken [] end
  end.

Definition hstep (c : tcfg) (done : list (sess * login_out)) (r : lreq) : sess * login_out :=
  login c (rq_env r) (rq_sess r) (rq_clk r) (presented done r).

Fixpoint hist (c : tcfg) (done : list (sess * login_out)) (reqs : list lreq) : list (sess * login_out) :=
  match reqs with
  | [] => done
  | r :: rest => hist c (done ++ [hstep c done r]) rest
  end.

Definition history (c : tcfg) (reqs : list lreq) : list (sess * login_out) := hist c [] reqs.

End Relogin.

(* ---------------- what the theorems and the monitors read ---------------- *)

(* signed fields of a token (first 18 bytes) *)
Definition tok_fields (tok : list N) : fields := decode_fields (firstn data_size tok).
Definition tok_expiry (tok : list N) : Z := Z.of_N (f_expires (tok_fields tok)).
Definition tok_restricted (tok : list N) : bool := has_feature (f_features (tok_fields tok)) feature_nologin.

(* the login is processed promptly: the clock readings are ordered and less than
   a second (minus the half millisecond of rounding) apart *)
Definition prompt (clk : clock) : Prop :=
  0 <= t_auth clk /\ t_auth clk <= t_until clk /\ t_until clk <= t_gen clk /\
  t_gen clk - t_auth clk < 999500000.

(* harness helper: the two extreme clocks of a login bracketed by the readings t0 <= t1 the driver
   took before and after the dispatch (earliest / latest expiry the reply can carry) *)
Definition clk_lo (t0 t1 : Z) : clock := mkClk t0 t0 t0.
Definition clk_hi (t0 t1 : Z) : clock := mkClk t0 t0 t1.
