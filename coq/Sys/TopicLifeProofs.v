(* C03: proofs about the wrapper model Sys/TopicLife.v (deletion window, suspension, me/fnd/sys). *)
From Coq Require Import ZArith NArith List Bool Lia.
From Tinode Require Import Base.Util Pure.Acs Sys.Topic Sys.TopicTac Sys.TopicFrame Sys.TopicNum Sys.TopicOut
  Sys.TopicNumThm Sys.TopicPub Sys.TopicMarks Sys.TopicMeta Sys.TopicCoh Sys.TopicLife.
Import ListNotations.
Open Scope Z_scope.

Section LifeProofs.
Variable dr : Z -> list (Z * Z) -> option (list (Z * Z)).
Variable nr : list (Z * Z) -> list (Z * Z).
Variable sm : sessmap.

Notation xstep := (TopicLife.xstep dr nr sm).
Notation xcore := (TopicLife.xcore dr nr sm).
Notation xrun := (TopicLife.xrun dr nr sm).
Notation base_step := (TopicLife.base_step dr nr sm).

(* the conjunction the property lists, for the group topic *)
Definition xaccepts (x : xstate) (sid : N) : bool :=
  match x_del x with
  | Some _ => false                               (* being deleted *)
  | None => negb (x_ro x) && accepts sm (xb x) sid  (* not suspended; attached; W in want and given *)
  end.

(* invariants of reachable states *)
Definition xwf (x : xstate) : Prop :=
  (ca (xb x) = None -> x_ro x = false) /\ (x_del x <> None -> ca (xb x) <> None).
Definition sys_inv (x : xstate) : Prop :=
  (forall m, In m (x_sys_msgs x) -> m_seq m <= x_sys_lastid x) /\ x_sys_lastid x <= x_sys_seqid x.
(* 'sys' is never read-only; every peer-to-peer topic satisfies the numbering invariant and has no read-only bit
   while it is not loaded *)
Definition pt_inv (p : ptopic) : Prop := inv_num (pt_b p) /\ (ca (pt_b p) = None -> pt_ro p = false).
Definition xp_inv (x : xstate) : Prop := x_sys_ro x = false /\ Forall pt_inv (x_p2p x).
Definition xinv (x : xstate) : Prop := inv_num (xb x) /\ xwf x /\ sys_inv x /\ xp_inv x.

Lemma accepts_attached b sid : accepts sm b sid = true -> match ca b with Some c => attached c sid = true | None => False end.
Proof. unfold accepts. destruct (ca b); [|discriminate]. intros H. apply andb_true_iff in H. tauto. Qed.

Lemma x_attached_accepts x sid : x_attached x sid = false -> accepts sm (xb x) sid = false.
Proof.
  unfold x_attached, accepts. destruct (ca (xb x)); [|reflexivity]. intros ->. reflexivity.
Qed.

Lemma step_f_nofault b o : step_f dr nr sm b (NoFault, o) = step dr nr sm NoFault b o.
Proof. unfold step_f. cbn [fst snd]. destruct (step dr nr sm NoFault b o). reflexivity. Qed.

(* ---------- acceptance ---------- *)
Lemma xaccept_iff x sid content noecho : inv_num (xb x) ->
  ((exists n, first_reply (snd (xstep x (EBase NoFault (OPub sid content noecho)))) sid = Some (Ctrl 202 [(P_seq, n)]))
   <-> xaccepts x sid = true).
Proof.
  intros I. unfold TopicLife.xstep, xaccepts. destruct (x_del x) as [d|].
  - unfold first_reply. cbn [snd]. split; [intros [n H]|intros H]; [|discriminate].
    rewrite N.eqb_refl in H. destruct (x_attached x sid); discriminate.
  - unfold TopicLife.xcore, TopicLife.base_step. cbn [op_sid].
    destruct (x_ro x) eqn:RO; cbn [andb negb].
    + destruct (x_attached x sid) eqn:AT.
      * unfold first_reply. cbn [snd]. change (403 =? 0) with false. cbv iota.
        split; [intros [n H]; rewrite N.eqb_refl in H; discriminate|discriminate].
      * rewrite step_f_nofault.
        pose proof (accept_iff dr nr sm (xb x) sid content noecho I) as A.
        rewrite (x_attached_accepts _ _ AT) in A.
        destruct (step dr nr sm NoFault (xb x) (OPub sid content noecho)) as [b1 o1]. cbn [snd] in *.
        split; [intros H; apply A in H; discriminate|discriminate].
    + rewrite step_f_nofault.
      pose proof (accept_iff dr nr sm (xb x) sid content noecho I) as A.
      destruct (step dr nr sm NoFault (xb x) (OPub sid content noecho)) as [b1 o1]. cbn [snd] in *. exact A.
Qed.

(* ---------- a rejected publish ---------- *)
(* exactly one error reply, to the sender; nothing stored anywhere; and unless the fault plan is a crash
   (the process dies after replying) nothing in memory changes either *)
Definition stores_same (x x' : xstate) : Prop :=
  st (xb x') = st (xb x) /\ x_susp x' = x_susp x /\ x_sys_seqid x' = x_sys_seqid x /\ x_sys_msgs x' = x_sys_msgs x /\
  map (fun p => st (pt_b p)) (x_p2p x') = map (fun p => st (pt_b p)) (x_p2p x).
Definition is_crash (f : fault) : bool := match f with CrashAt _ => true | _ => false end.

Lemma stores_same_after_crash f x y : stores_same x y -> stores_same x (after_crash f y).
Proof.
  intros [A [B [C [D E]]]]. destruct f; cbn [after_crash]; try (repeat split; assumption).
  unfold mem_reset. repeat split; cbn; try assumption. rewrite map_map. exact E.
Qed.

Lemma xreject_no_effect x f sid content noecho : xwf x -> xaccepts x sid = false ->
  exists code, 400 <= code /\
    snd (xstep x (EBase f (OPub sid content noecho))) = [(sid, Ctrl code [])] /\
    stores_same x (fst (xstep x (EBase f (OPub sid content noecho)))) /\
    (is_crash f = false -> fst (xstep x (EBase f (OPub sid content noecho))) = set_b (mkState (st (xb x)) (ca (xb x)) 0) x).
Proof.
  intros [WF1 WF2] A. unfold TopicLife.xstep, xaccepts in *. destruct (x_del x) as [d|] eqn:D.
  - exists (if x_attached x sid then 503 else 409). split; [destruct (x_attached x sid); lia|].
    cbn [fst snd]. split; [reflexivity|]. split; [repeat split|reflexivity].
  - unfold TopicLife.xcore, TopicLife.base_step. cbn [op_sid].
    destruct (x_ro x && x_attached x sid) eqn:BL.
    + exists 403. split; [lia|]. cbn [fst snd]. split; [reflexivity|]. split.
      * apply stores_same_after_crash. repeat split.
      * intros NC. destruct f; [reflexivity|reflexivity|discriminate].
    + assert (AC : accepts sm (xb x) sid = false).
      { destruct (x_ro x) eqn:RO; cbn [andb negb] in *; [apply x_attached_accepts; exact BL|exact A]. }
      destruct (reject_no_effect dr nr sm f (xb x) sid content noecho AC) as [code [Hc E]].
      exists code. split; [exact Hc|]. unfold step_f. cbn [fst snd]. rewrite E.
      split; [destruct f; reflexivity|]. split.
      * destruct f; cbn [fst snd st ca]; apply stores_same_after_crash; try (destruct (ca (xb x))); repeat split.
      * intros NC. destruct f; try discriminate; cbn [fst snd st ca after_crash].
        -- destruct (ca (xb x)) eqn:CA; [reflexivity|]. unfold set_ro, set_b. cbn. rewrite (WF1 eq_refl).
           destruct x; cbn in *. subst. reflexivity.
        -- destruct (ca (xb x)) eqn:CA; [reflexivity|]. unfold set_ro, set_b. cbn. rewrite (WF1 eq_refl).
           destruct x; cbn in *. subst. reflexivity.
Qed.

(* ---------- me / fnd: always refused, nothing changes ---------- *)
Lemma xcore_pub_me x sid c : exists code, 400 <= code /\ xcore x (EPubMe sid c) = (x, [(sid, Ctrl code [])]).
Proof. exists (if memN sid (x_me x) then 403 else 409). split; [destruct (memN sid (x_me x)); lia|reflexivity]. Qed.
Lemma xcore_pub_fnd x sid c : exists code, 400 <= code /\ xcore x (EPubFnd sid c) = (x, [(sid, Ctrl code [])]).
Proof. exists (if memN sid (x_fnd x) then 403 else 409). split; [destruct (memN sid (x_fnd x)); lia|reflexivity]. Qed.

(* in general: the only thing that can happen on the way is that a held delete finishes *)
Lemma xstep_pub_me x sid c : exists code, 400 <= code /\
  xstep x (EPubMe sid c) = (fst (del_finish x), snd (del_finish x) ++ [(sid, Ctrl code [])]).
Proof.
  unfold TopicLife.xstep. destruct (x_del x) eqn:D.
  - destruct (del_finish x) as [x1 o1] eqn:DF. destruct (xcore_pub_me x1 sid c) as [code [H E]].
    exists code. split; [exact H|]. rewrite E. reflexivity.
  - destruct (xcore_pub_me x sid c) as [code [H E]]. exists code. split; [exact H|].
    rewrite E. unfold del_finish. rewrite D. reflexivity.
Qed.
Lemma xstep_pub_fnd x sid c : exists code, 400 <= code /\
  xstep x (EPubFnd sid c) = (fst (del_finish x), snd (del_finish x) ++ [(sid, Ctrl code [])]).
Proof.
  unfold TopicLife.xstep. destruct (x_del x) eqn:D.
  - destruct (del_finish x) as [x1 o1] eqn:DF. destruct (xcore_pub_fnd x1 sid c) as [code [H E]].
    exists code. split; [exact H|]. rewrite E. reflexivity.
  - destruct (xcore_pub_fnd x sid c) as [code [H E]]. exists code. split; [exact H|].
    rewrite E. unfold del_finish. rewrite D. reflexivity.
Qed.

(* ---------- sys: any logged-in author, no attachment ---------- *)
Lemma publish_sys_accepts x sid c : sess_uid sm sid <> 0%N -> sys_inv x -> x_sys_ro x = false ->
  publish_sys sm x NoFault sid c =
    (set_sys (x_sys_lastid x + 1) (x_sys_lastid x + 1)
             (x_sys_msgs x ++ [mkMsg (x_sys_lastid x + 1) (sess_uid sm sid) c 0]) x,
     (sid, Ctrl 202 [(P_seq, x_sys_lastid x + 1)]) :: sys_push x (x_sys_lastid x + 1) (sess_uid sm sid)).
Proof.
  intros U [S1 S2] RO. unfold publish_sys. destruct (N.eqb_spec (sess_uid sm sid) 0); [contradiction|].
  rewrite RO. cbn [call fails negb after_crash].
  destruct (existsb (fun m => m_seq m =? x_sys_lastid x + 1) (x_sys_msgs x)) eqn:E; [|reflexivity].
  apply existsb_exists in E. destruct E as [m [Hm E]]. apply Z.eqb_eq in E. specialize (S1 m Hm). lia.
Qed.

(* a publish to sys that is not acknowledged stored no message; unless the process died its lastID is unchanged *)
Lemma publish_sys_cases x f sid c :
  (exists n, snd (publish_sys sm x f sid c) = (sid, Ctrl 202 [(P_seq, n)]) :: sys_push x n (sess_uid sm sid)) \/
  ((snd (publish_sys sm x f sid c) = [(sid, Ctrl 500 [])] \/
    (x_sys_ro x = true /\ snd (publish_sys sm x f sid c) = [(sid, Ctrl 403 [])]) \/
    snd (publish_sys sm x f sid c) = []) /\
   x_sys_msgs (fst (publish_sys sm x f sid c)) = x_sys_msgs x /\
   st (xb (fst (publish_sys sm x f sid c))) = st (xb x) /\
   (is_crash f = false -> x_sys_lastid (fst (publish_sys sm x f sid c)) = x_sys_lastid x /\
                          xb (fst (publish_sys sm x f sid c)) = xb x)).
Proof.
  unfold publish_sys. destruct (sess_uid sm sid =? 0)%N.
  - right. cbn [fst snd]. repeat split; auto.
  - destruct (x_sys_ro x) eqn:RO.
    + right. cbn [fst snd]. split; [right; left; split; reflexivity|].
      destruct f; cbn [after_crash mem_reset x_sys_msgs xb x_sys_lastid is_crash st]; repeat split; auto; try discriminate.
    + repeat break_match; cbn [fst snd]; try (left; eexists; reflexivity); right;
      (split; [left; reflexivity|]);
      destruct f; cbn [after_crash mem_reset set_sys x_sys_msgs xb x_sys_lastid is_crash st]; repeat split; auto; try discriminate.
Qed.

(* ---------- invariants ---------- *)
Lemma inv_num_drop b n : inv_num b -> inv_num (mkState (st b) None n).
Proof. destruct b as [s [c|] n0]; intros I; [apply (inv_num_unload s c n0 n); exact I|exact I]. Qed.

Lemma xp_inv_mem_reset x : xp_inv x -> xp_inv (mem_reset x).
Proof.
  intros [_ P]. split; [reflexivity|]. unfold mem_reset. cbn [x_p2p].
  apply Forall_map. eapply Forall_impl; [|exact P]. intros p [I _]. split; cbn [pt_b pt_ro ca]; [|reflexivity].
  apply inv_num_drop. exact I.
Qed.

Lemma xinv_mem_reset x : inv_num (xb x) -> sys_inv x -> xp_inv x -> xinv (mem_reset x).
Proof.
  intros I [S1 S2] P. split; [|split; [|split]].
  - unfold mem_reset. cbn [xb]. apply inv_num_drop. exact I.
  - unfold xwf, mem_reset. cbn. split; [reflexivity|congruence].
  - unfold sys_inv, mem_reset. cbn. split; [intros m Hm; specialize (S1 m Hm); lia|lia].
  - apply xp_inv_mem_reset. exact P.
Qed.
Lemma xinv_after_crash f x : xinv x -> xinv (after_crash f x).
Proof. intros X. destruct f; cbn; auto. destruct X as [I [_ [S P]]]. now apply xinv_mem_reset. Qed.

Lemma inv_num_wipe s n : inv_num (mkState (wipe s) None n).
Proof. unfold inv_num. cbn. split; [intros n0 []|]. split; [constructor|lia]. Qed.

Lemma del_after_crash f x : x_del x = None -> x_del (after_crash f x) = None.
Proof. destruct f; cbn; auto. Qed.

Lemma xinv_del_finish x : xinv x -> xinv (fst (del_finish x)) /\ x_del (fst (del_finish x)) = None.
Proof.
  intros X. unfold del_finish. destruct (x_del x) as [[sid f]|] eqn:D; [|split; [exact X|exact D]].
  destruct X as [I [[W1 W2] S]].
  destruct (fails f 1); cbn [fst].
  - split; [|apply del_after_crash; reflexivity]. apply xinv_after_crash. split; [|split].
    + cbn. exact I.
    + split; cbn; [exact W1|congruence].
    + exact S.
  - split; [|apply del_after_crash; reflexivity]. apply xinv_after_crash. split; [|split].
    + cbn. apply inv_num_wipe.
    + split; cbn; [reflexivity|congruence].
    + exact S.
Qed.

Lemma xinv_base_step x f o : x_del x = None -> xinv x -> xinv (fst (base_step x f o)) /\ x_del (fst (base_step x f o)) = None.
Proof.
  intros D [I [[W1 W2] S]]. unfold TopicLife.base_step.
  destruct (if x_ro x && x_attached x (op_sid o) then _ else None) as [code|]; cbn [fst].
  - split; [|apply del_after_crash; exact D].
    destruct f; cbn [after_crash].
    + split; [exact I|split]; [split; cbn; [exact W1|rewrite D; congruence]|exact S].
    + split; [exact I|split]; [split; cbn; [exact W1|rewrite D; congruence]|exact S].
    + destruct S as [S P]. apply xinv_mem_reset; [cbn; apply inv_num_drop; exact I|exact S|exact P].
  - pose proof (step_f_inv_num dr nr sm (xb x) (f, o) I) as I1.
    destruct (step_f dr nr sm (xb x) (f, o)) as [b1 o1]. cbn [fst] in *.
    assert (X2 : xinv (match ca b1 with None => set_ro false (set_b b1 x) | Some _ => set_b b1 x end)).
    { split; [destruct (ca b1); exact I1|]. split; [|destruct (ca b1); exact S].
      destruct (ca b1) eqn:CB; split; cbn; try rewrite CB; try rewrite D; congruence. }
    assert (D2 : x_del (match ca b1 with None => set_ro false (set_b b1 x) | Some _ => set_b b1 x end) = None)
      by (destruct (ca b1); exact D).
    split.
    + destruct o; try (apply xinv_after_crash; exact X2).
      destruct X2 as [A [_ [B P]]]. now apply xinv_mem_reset.
    + destruct o; try (apply del_after_crash; exact D2). reflexivity.
Qed.

Lemma xinv_publish_sys x f sid c : xinv x -> xinv (fst (publish_sys sm x f sid c)).
Proof.
  intros X. unfold publish_sys. destruct (sess_uid sm sid =? 0)%N; [exact X|].
  destruct (x_sys_ro x); [cbn [fst]; apply xinv_after_crash; exact X|].
  destruct X as [I [W [[S1 S2] P]]].
  repeat break_match; cbn [fst]; apply xinv_after_crash; (split; [exact I|split; [exact W|split; [|exact P]]]);
    unfold sys_inv, set_sys; cbn; try (split; [exact S1|lia]).
  split; [|lia]. intros m Hm. apply in_app_or in Hm. destruct Hm as [Hm|[Hm|[]]]; [specialize (S1 m Hm); lia|subst m; cbn; lia].
Qed.

(* ---------- hub.topicsStateForUser ---------- *)
Lemma state_pred_grp m o u : state_pred CatGrp m o u = N.eqb o u.
Proof. reflexivity. Qed.
Lemma state_pred_sys m o u : state_pred CatSys m o u = N.eqb o u.
Proof. reflexivity. Qed.
Lemma state_pred_p2p m o u : state_pred CatP2P m o u = m || N.eqb o u.
Proof. reflexivity. Qed.
Lemma state_pred_me m o u : state_pred CatMe m o u = false.
Proof. reflexivity. Qed.
Lemma state_pred_fnd m o u : state_pred CatFnd m o u = false.
Proof. reflexivity. Qed.

Lemma mark_topics_xb x u b : xb (mark_topics x u b) = xb x.
Proof. unfold mark_topics. repeat break_match; reflexivity. Qed.
Lemma mark_topics_del x u b : x_del (mark_topics x u b) = x_del x.
Proof. unfold mark_topics. repeat break_match; reflexivity. Qed.
Lemma mark_topics_susp x u b : x_susp (mark_topics x u b) = x_susp x.
Proof. unfold mark_topics. repeat break_match; reflexivity. Qed.
Lemma mark_topics_sys x u b : x_sys_seqid (mark_topics x u b) = x_sys_seqid x /\
  x_sys_lastid (mark_topics x u b) = x_sys_lastid x /\ x_sys_msgs (mark_topics x u b) = x_sys_msgs x /\
  x_sys_subs (mark_topics x u b) = x_sys_subs x /\ x_me (mark_topics x u b) = x_me x /\ x_fnd (mark_topics x u b) = x_fnd x.
Proof. unfold mark_topics. repeat break_match; repeat split; reflexivity. Qed.
Lemma mark_topics_p2p x u b : x_p2p (mark_topics x u b) = map (mark_p2p u b) (x_p2p x).
Proof. unfold mark_topics. repeat break_match; reflexivity. Qed.
(* the group topic: marked iff it is loaded and u is its owner *)
Lemma mark_topics_ro x u b : x_ro (mark_topics x u b) =
  match ca (xb x) with Some c => if N.eqb (c_owner c) u then b else x_ro x | None => x_ro x end.
Proof.
  unfold mark_topics. destruct (ca (xb x)) as [c|]; [rewrite state_pred_grp; destruct (N.eqb (c_owner c) u)|];
    destruct (state_pred CatSys _ _ _); reflexivity.
Qed.
(* 'sys' has no owner: never marked by the suspension of an account *)
Lemma mark_topics_sys_ro x u b : u <> 0%N -> x_sys_ro (mark_topics x u b) = x_sys_ro x.
Proof.
  intros U. unfold mark_topics. rewrite state_pred_sys.
  destruct (N.eqb_spec 0 u) as [E|_]; [exfalso; apply U; symmetry; exact E|].
  repeat break_match; reflexivity.
Qed.
Lemma mark_p2p_b u b p : pt_b (mark_p2p u b p) = pt_b p.
Proof. unfold mark_p2p. repeat break_match; reflexivity. Qed.
Lemma mark_p2p_ro u b p : pt_ro (mark_p2p u b p) =
  match ca (pt_b p) with
  | Some c => if is_member c u || N.eqb (c_owner c) u then b else pt_ro p
  | None => pt_ro p
  end.
Proof. unfold mark_p2p. destruct (ca (pt_b p)) as [c|]; [rewrite state_pred_p2p; destruct (_ || _)|]; reflexivity. Qed.
Lemma mark_p2p_inv u b p : pt_inv p -> pt_inv (mark_p2p u b p).
Proof.
  intros [I R]. split; [rewrite mark_p2p_b; exact I|]. rewrite mark_p2p_b, mark_p2p_ro. intros E. rewrite E. exact (R E).
Qed.

Lemma xinv_mark_topics x u b : u <> 0%N -> xinv x -> xinv (mark_topics x u b).
Proof.
  intros U [I [[W1 W2] [[S1 S2] [R P]]]]. destruct (mark_topics_sys x u b) as [E1 [E2 [E3 _]]].
  split; [rewrite mark_topics_xb; exact I|]. split; [|split].
  - split; rewrite mark_topics_xb.
    + intros E. rewrite mark_topics_ro, E. exact (W1 E).
    + rewrite mark_topics_del. exact W2.
  - unfold sys_inv. rewrite E1, E2, E3. split; assumption.
  - split; [rewrite (mark_topics_sys_ro x u b U); exact R|].
    rewrite mark_topics_p2p. apply Forall_map. eapply Forall_impl; [|exact P]. intros p. apply mark_p2p_inv.
Qed.

Lemma xinv_suspend x f u b : xinv x -> xinv (suspend x f u b).
Proof.
  intros X. unfold suspend.
  destruct (call f 0) as [ok1 n1]. destruct (negb ok1); [exact X|].
  destruct (N.eqb_spec u 0) as [E|U]; [exact X|].
  destruct (alookup u (users (st (xb x)))); [|exact X].
  destruct (Bool.eqb (memN u (x_susp x)) b); [exact X|].
  destruct (call f n1) as [ok2 n2]. destruct (negb ok2); [exact X|].
  apply xinv_mark_topics; [exact U|].
  destruct X as [I [W S]]. split; [exact I|split; [exact W|exact S]].
Qed.

(* ---------- peer-to-peer topics ---------- *)
Lemma Forall_upd_nth {A} (P : A -> Prop) k v l : Forall P l -> P v -> Forall P (upd_nth k v l).
Proof.
  revert k. induction l as [|a r IH]; intros k F V; [destruct k; constructor|].
  inversion F; subst. destruct k; cbn; constructor; auto.
Qed.
Lemma nth_error_Forall {A} (P : A -> Prop) l k v : Forall P l -> nth_error l k = Some v -> P v.
Proof. intros F E. apply nth_error_In in E. rewrite Forall_forall in F. auto. Qed.

Lemma xinv_set_p2p x l : xinv x -> Forall pt_inv l -> xinv (set_p2p l x).
Proof. intros [I [W [S [R _]]]] F. split; [exact I|split; [exact W|split; [exact S|split; [exact R|exact F]]]]. Qed.

Lemma xinv_p2p_step x k f po : xinv x -> xinv (fst (TopicLife.p2p_step dr nr sm x k f po)) /\
  (x_del x = None -> x_del (fst (TopicLife.p2p_step dr nr sm x k f po)) = None).
Proof.
  intros X. unfold p2p_step. destruct (nth_error (x_p2p x) k) as [p|] eqn:E; [|split; [exact X|auto]].
  destruct (negb _); [split; [exact X|auto]|].
  assert (PI : pt_inv p) by (destruct X as [_ [_ [_ [_ P]]]]; exact (nth_error_Forall _ _ _ _ P E)).
  assert (P : Forall pt_inv (x_p2p x)) by (destruct X as [_ [_ [_ [_ P]]]]; exact P).
  destruct (pt_ro p && pt_attached p (op_sid (p2p_op po)) && is_ppub po) eqn:BL; cbn [fst].
  - split; [|intros D; apply del_after_crash; exact D].
    apply xinv_after_crash. apply xinv_set_p2p; [exact X|]. apply Forall_upd_nth; [exact P|].
    destruct PI as [I R]. split; cbn [pt_b pt_ro ca]; [destruct (pt_b p); exact I|exact R].
  - pose proof (step_f_inv_num dr nr sm (pt_b p) (f, p2p_op po) (proj1 PI)) as I1.
    destruct (step_f dr nr sm (pt_b p) (f, p2p_op po)) as [b1 o1]. cbn [fst] in *.
    split; [|intros D; apply del_after_crash; exact D].
    apply xinv_after_crash. apply xinv_set_p2p; [exact X|]. apply Forall_upd_nth; [exact P|].
    split; cbn [pt_b pt_ro]; [exact I1|]. intros C. rewrite C. reflexivity.
Qed.

Lemma xinv_xcore x e : x_del x = None -> xinv x -> xinv (fst (xcore x e)).
Proof.
  intros D X. destruct e; cbn [TopicLife.xcore].
  - apply xinv_base_step; assumption.
  - destruct (ca (xb x)) eqn:CA; [|exact X].
    destruct (negb (sess_uid sm sid =? 0)%N && (c_owner c =? sess_uid sm sid)%N); cbn [fst]; [|exact X].
    destruct X as [I [[W1 W2] S]]. split; [exact I|split; [|exact S]]. split; cbn; [exact W1|intros _; congruence].
  - exact X.
  - cbn [fst]. apply xinv_after_crash. apply xinv_suspend. exact X.
  - destruct (_ || _); cbn [fst]; [exact X|]. destruct X as [I [W S]]. split; [exact I|split; [exact W|exact S]].
  - destruct (_ || _); cbn [fst]; [exact X|]. destruct X as [I [W S]]. split; [exact I|split; [exact W|exact S]].
  - exact X.
  - exact X.
  - apply xinv_publish_sys. exact X.
  - apply xinv_p2p_step. exact X.
Qed.

Lemma xinv_xstep x e : xinv x -> xinv (fst (xstep x e)).
Proof.
  intros X. unfold TopicLife.xstep. destruct (x_del x) as [d|] eqn:D; [|apply xinv_xcore; assumption].
  assert (G : forall e', xinv (fst (let '(x1, o1) := del_finish x in let '(x2, o2) := xcore x1 e' in (x2, o1 ++ o2)))).
  { intros e'. destruct (xinv_del_finish x X) as [X1 D1]. destruct (del_finish x) as [x1 o1]. cbn [fst] in *.
    pose proof (xinv_xcore x1 e' D1 X1) as X2. destruct (xcore x1 e') as [x2 o2]. exact X2. }
  destruct e; try apply G.
  destruct o; try apply G. cbn [fst].
  destruct X as [I [[W1 W2] S]]. split; [exact I|split; [|exact S]]. split; cbn; assumption.
Qed.

Lemma xinv_xrun h : forall x, xinv x -> xinv (fst (xrun x h)).
Proof.
  induction h as [|e h IH]; intros x X; cbn [TopicLife.xrun fst]; [exact X|].
  pose proof (xinv_xstep x e X) as X1. destruct (xstep x e) as [x1 o1]. cbn [fst] in X1.
  specialize (IH x1 X1). destruct (xrun x1 h) as [x2 os]. exact IH.
Qed.

Lemma xinv_init_pop s subs ps : fresh s -> Forall fresh ps -> xinv (xinit_pop s subs ps).
Proof.
  intros F FP. split; [apply fresh_inv; exact F|]. split; [split; cbn; congruence|].
  split; [split; cbn; [intros m []|lia]|]. split; [reflexivity|]. unfold xinit_pop. cbn [x_p2p].
  apply Forall_map. eapply Forall_impl; [|exact FP]. intros s' F'. split; cbn [pt_b pt_ro ca]; [apply fresh_inv; exact F'|reflexivity].
Qed.
Lemma xinv_init s : fresh s -> xinv (xinit s).
Proof. intros F. apply xinv_init_pop; [exact F|constructor]. Qed.

(* ---------- suspension ---------- *)
Definition susp_upd (l : list N) (u : N) (b : bool) : list N :=
  if b then u :: l else filter (fun v => negb (N.eqb v u)) l.

(* a request that changes the state of an existing account marks the loaded topics; any other request
   (unknown account, account already in that state, a failed store call) changes nothing at all *)
Lemma suspend_success x u b a : u <> 0%N -> alookup u (users (st (xb x))) = Some a -> memN u (x_susp x) = negb b ->
  suspend x NoFault u b = mark_topics (set_susp (susp_upd (x_susp x) u b) x) u b.
Proof.
  intros U US MS. unfold suspend. cbn [call fails negb].
  destruct (N.eqb_spec u 0) as [E|_]; [contradiction|]. rewrite US, MS.
  destruct b; reflexivity.
Qed.
Lemma suspend_cases x f u b : suspend x f u b = x \/
  (u <> 0%N /\ memN u (x_susp x) = negb b /\ suspend x f u b = mark_topics (set_susp (susp_upd (x_susp x) u b) x) u b).
Proof.
  unfold suspend. destruct (call f 0) as [ok1 n1]. destruct (negb ok1); [left; reflexivity|].
  destruct (N.eqb_spec u 0) as [E|U]; [left; reflexivity|].
  destruct (alookup u (users (st (xb x)))); [|left; reflexivity].
  destruct (Bool.eqb (memN u (x_susp x)) b) eqn:EB; [left; reflexivity|].
  destruct (call f n1) as [ok2 n2]. destruct (negb ok2); [left; reflexivity|].
  right. split; [exact U|]. split; [|destruct b; reflexivity].
  destruct (memN u (x_susp x)), b; cbn in *; congruence.
Qed.

(* the read-only bit is set on the loaded topic of the user who is being suspended ... *)
Lemma suspend_marks x u b c a : u <> 0%N -> ca (xb x) = Some c -> c_owner c = u -> alookup u (users (st (xb x))) = Some a ->
  memN u (x_susp x) = negb b -> x_ro (suspend x NoFault u b) = b.
Proof.
  intros U CA OW US MS. rewrite (suspend_success x u b a U US MS), mark_topics_ro. cbn [xb set_susp].
  rewrite CA, OW, N.eqb_refl. reflexivity.
Qed.

(* ... and exactly there: every loaded topic of every category *)
Lemma suspend_exact x u b a : u <> 0%N -> alookup u (users (st (xb x))) = Some a -> memN u (x_susp x) = negb b ->
  let x' := suspend x NoFault u b in
  (* the group topic: iff u is its owner; a plain member's suspension leaves it alone *)
  x_ro x' = match ca (xb x) with Some c => if N.eqb (c_owner c) u then b else x_ro x | None => x_ro x end /\
  (* 'sys': never, whether u is one of its subscribers or not *)
  x_sys_ro x' = x_sys_ro x /\
  (* the peer-to-peer topics: the loaded ones u is a party of (no p2p topic has an owner) *)
  x_p2p x' = map (mark_p2p u b) (x_p2p x) /\
  (* nothing else changes but the account's state *)
  xb x' = xb x /\ x_del x' = x_del x /\ x_susp x' = susp_upd (x_susp x) u b /\ x_me x' = x_me x /\ x_fnd x' = x_fnd x /\
  x_sys_seqid x' = x_sys_seqid x /\ x_sys_lastid x' = x_sys_lastid x /\ x_sys_msgs x' = x_sys_msgs x /\
  x_sys_subs x' = x_sys_subs x.
Proof.
  intros U US MS. cbv zeta. rewrite (suspend_success x u b a U US MS).
  destruct (mark_topics_sys (set_susp (susp_upd (x_susp x) u b) x) u b) as [E1 [E2 [E3 [E4 [E5 E6]]]]].
  rewrite mark_topics_ro, (mark_topics_sys_ro _ u b U), mark_topics_p2p, mark_topics_xb, mark_topics_del, mark_topics_susp,
    E1, E2, E3, E4, E5, E6.
  repeat split; reflexivity.
Qed.

(* 'sys' is not read-only in any reachable state, hence: *)
Lemma sys_accepts_reachable x sid c : xinv x -> sess_uid sm sid <> 0%N ->
  publish_sys sm x NoFault sid c =
    (set_sys (x_sys_lastid x + 1) (x_sys_lastid x + 1)
             (x_sys_msgs x ++ [mkMsg (x_sys_lastid x + 1) (sess_uid sm sid) c 0]) x,
     (sid, Ctrl 202 [(P_seq, x_sys_lastid x + 1)]) :: sys_push x (x_sys_lastid x + 1) (sess_uid sm sid)).
Proof. intros [_ [_ [S [R _]]]] U. apply publish_sys_accepts; assumption. Qed.

(* as an event of a history: the only other thing that can complete on the way is a delete already in flight *)
Lemma xstep_pub_sys x f sid c :
  xstep x (EPubSys f sid c) =
    (fst (publish_sys sm (fst (del_finish x)) f sid c), snd (del_finish x) ++ snd (publish_sys sm (fst (del_finish x)) f sid c)).
Proof.
  unfold TopicLife.xstep. destruct (x_del x) eqn:D.
  - destruct (del_finish x) as [x1 o1]. cbn [TopicLife.xcore fst snd]. destruct (publish_sys sm x1 f sid c). reflexivity.
  - unfold del_finish. rewrite D. cbn [TopicLife.xcore fst snd app]. destruct (publish_sys sm x f sid c). reflexivity.
Qed.
Lemma xstep_pub_sys_accepts x sid c : xinv x -> sess_uid sm sid <> 0%N ->
  let x1 := fst (del_finish x) in
  xstep x (EPubSys NoFault sid c) =
    (set_sys (x_sys_lastid x1 + 1) (x_sys_lastid x1 + 1) (x_sys_msgs x1 ++ [mkMsg (x_sys_lastid x1 + 1) (sess_uid sm sid) c 0]) x1,
     snd (del_finish x) ++ (sid, Ctrl 202 [(P_seq, x_sys_lastid x1 + 1)]) :: sys_push x1 (x_sys_lastid x1 + 1) (sess_uid sm sid)).
Proof.
  intros X U. cbv zeta. rewrite xstep_pub_sys. rewrite (sys_accepts_reachable _ sid c (proj1 (xinv_del_finish x X)) U). reflexivity.
Qed.

(* a suspension as an event of a history *)
Lemma xstep_suspend x f u b : x_del x = None -> xstep x (ESuspend f u b) = (after_crash f (suspend x f u b), []).
Proof. intros D. unfold TopicLife.xstep. rewrite D. reflexivity. Qed.

(* ---------- publishes to a peer-to-peer topic ---------- *)
Definition p2p_addressable (p : ptopic) (sid : N) : bool :=
  negb (sess_uid sm sid =? 0)%N && p2p_party p (sess_uid sm sid).
(* the conjunction the property lists, for a peer-to-peer topic *)
Definition p2p_accepts (p : ptopic) (sid : N) : bool :=
  p2p_addressable p sid && negb (pt_ro p) && accepts sm (pt_b p) sid.

Notation p2p_step := (TopicLife.p2p_step dr nr sm).

Lemma pt_attached_accepts p sid : pt_attached p sid = false -> accepts sm (pt_b p) sid = false.
Proof. unfold pt_attached, accepts. destruct (ca (pt_b p)); [|reflexivity]. intros ->. reflexivity. Qed.

Lemma p2p_accept_iff x k p sid content noecho : nth_error (x_p2p x) k = Some p -> inv_num (pt_b p) ->
  ((exists n, first_reply (snd (p2p_step x k NoFault (PPub sid content noecho))) sid = Some (Ctrl 202 [(P_seq, n)]))
   <-> p2p_accepts p sid = true).
Proof.
  intros E I. unfold TopicLife.p2p_step, p2p_accepts, p2p_addressable. rewrite E. cbn [p2p_op op_sid is_ppub].
  destruct (negb (sess_uid sm sid =? 0)%N && p2p_party p (sess_uid sm sid)); cbn [negb andb].
  2:{ cbn. split; [intros [n H]; discriminate|discriminate]. }
  rewrite andb_true_r.
  destruct (pt_ro p) eqn:RO; cbn [andb negb].
  - destruct (pt_attached p sid) eqn:AT.
    + unfold first_reply. cbn [snd]. rewrite N.eqb_refl. split; [intros [n H]; discriminate|discriminate].
    + rewrite step_f_nofault.
      pose proof (accept_iff dr nr sm (pt_b p) sid content noecho I) as A.
      rewrite (pt_attached_accepts _ _ AT) in A.
      destruct (step dr nr sm NoFault (pt_b p) (OPub sid content noecho)) as [b1 o1]. cbn [snd] in *.
      split; [intros H; apply A in H; discriminate|discriminate].
  - rewrite step_f_nofault.
    pose proof (accept_iff dr nr sm (pt_b p) sid content noecho I) as A.
    destruct (step dr nr sm NoFault (pt_b p) (OPub sid content noecho)) as [b1 o1]. cbn [snd] in *. exact A.
Qed.

(* the stores of the peer-to-peer topics *)
Definition p2p_stores (x : xstate) : list store := map (fun p => st (pt_b p)) (x_p2p x).
Lemma p2p_stores_mem_reset x : p2p_stores (mem_reset x) = p2p_stores x.
Proof. unfold p2p_stores, mem_reset. cbn [x_p2p]. rewrite map_map. apply map_ext. reflexivity. Qed.
Lemma p2p_stores_after_crash f x : p2p_stores (after_crash f x) = p2p_stores x.
Proof. destruct f; cbn [after_crash]; auto using p2p_stores_mem_reset. Qed.
Lemma upd_nth_same_store k p p' l : nth_error l k = Some p -> st (pt_b p') = st (pt_b p) ->
  map (fun q => st (pt_b q)) (upd_nth k p' l) = map (fun q => st (pt_b q)) l.
Proof.
  revert k. induction l as [|a r IH]; intros k E S; [destruct k; discriminate|].
  destruct k; cbn in *; [inversion E; subst; rewrite S; reflexivity|]. rewrite (IH k E S). reflexivity.
Qed.

(* a rejected publish to a peer-to-peer topic, for any fault plan: exactly one error reply to the sender, every
   store is what it was; unless the plan is a crash nothing in memory changes either *)
Lemma p2p_reject_no_effect x k p f sid content noecho : nth_error (x_p2p x) k = Some p -> pt_inv p ->
  p2p_addressable p sid = true -> p2p_accepts p sid = false ->
  exists code, 400 <= code /\
    snd (p2p_step x k f (PPub sid content noecho)) = [(sid, Ctrl code [])] /\
    p2p_stores (fst (p2p_step x k f (PPub sid content noecho))) = p2p_stores x /\
    st (xb (fst (p2p_step x k f (PPub sid content noecho)))) = st (xb x) /\
    x_sys_msgs (fst (p2p_step x k f (PPub sid content noecho))) = x_sys_msgs x /\
    (is_crash f = false ->
     fst (p2p_step x k f (PPub sid content noecho)) =
       set_p2p (upd_nth k (mkPT (mkState (st (pt_b p)) (ca (pt_b p)) 0) (pt_ro p)) (x_p2p x)) x).
Proof.
  intros E [I R] AD A. unfold p2p_accepts in A. rewrite AD in A. cbn [andb] in A.
  unfold TopicLife.p2p_step. rewrite E. cbn [p2p_op op_sid is_ppub]. unfold p2p_addressable in AD. rewrite AD. cbn [negb].
  rewrite andb_true_r.
  destruct (pt_ro p && pt_attached p sid) eqn:BL.
  - exists 403. split; [lia|]. cbn [fst snd]. split; [reflexivity|].
    split; [rewrite p2p_stores_after_crash; unfold p2p_stores; cbn [x_p2p set_p2p]; apply (upd_nth_same_store k p); [exact E|reflexivity]|].
    split; [destruct f; reflexivity|]. split; [destruct f; reflexivity|].
    intros NC. destruct f; [reflexivity|reflexivity|discriminate].
  - assert (AC : accepts sm (pt_b p) sid = false).
    { destruct (pt_ro p) eqn:RO; cbn [andb negb] in *; [apply pt_attached_accepts; exact BL|exact A]. }
    destruct (reject_no_effect dr nr sm f (pt_b p) sid content noecho AC) as [code [Hc EE]].
    exists code. split; [exact Hc|]. unfold step_f. cbn [fst snd]. rewrite EE.
    assert (RR : (match ca (pt_b p) with None => false | Some _ => pt_ro p end) = pt_ro p)
      by (destruct (ca (pt_b p)) eqn:CA; [reflexivity|symmetry; apply R; reflexivity]).
    destruct f; cbn [fst snd st ca ncalls]; (split; [reflexivity|]);
      (split; [rewrite p2p_stores_after_crash; unfold p2p_stores; cbn [x_p2p set_p2p]; apply (upd_nth_same_store k p); [exact E|reflexivity]|]);
      (split; [reflexivity|]); (split; [reflexivity|]); intros NC; try discriminate;
      cbn [after_crash]; rewrite RR; reflexivity.
Qed.

(* ---------- the cached grant is the stored grant, along every history of the wrapper model ---------- *)
Definition xaccepts_stored (x : xstate) (sid : N) : bool :=
  match x_del x with
  | Some _ => false
  | None => negb (x_ro x) && accepts_stored sm (xb x) sid
  end.

Lemma xaccepts_stored_eq x sid : cohx (xb x) -> xaccepts x sid = xaccepts_stored x sid.
Proof.
  intros C. unfold xaccepts, xaccepts_stored. destruct (x_del x); [reflexivity|].
  f_equal. unfold accepts. apply (accepts_stored_eq sm (xb x) sid C).
Qed.

(* the same two triggers as for the group-topic model, looked at in the state in which the request is served *)
Definition xsafe_step (x : xstate) (e : xev) : bool :=
  match e with
  | EBase f o =>
    match x_del x, o with
    | Some _, OPub _ _ _ => true
    | _, _ => safe_step sm (xb (fst (del_finish x))) (f, o)
    end
  | _ => true
  end.

Lemma cohx_drop b n : cohx b -> cohx (mkState (st b) None n).
Proof. unfold cohx. cbn. destruct (ca b); [intros [W _]; exact W|auto]. Qed.
Lemma cohx_ncalls s c n n' : cohx (mkState s c n) -> cohx (mkState s c n').
Proof. auto. Qed.
Lemma cohx_wipe s n : cohx (mkState (wipe s) None n).
Proof. unfold cohx, wf_store. cbn. constructor. Qed.
Lemma cohx_after_crash f x : cohx (xb x) -> cohx (xb (after_crash f x)).
Proof. destruct f; cbn [after_crash]; auto. intros C. unfold mem_reset. cbn [xb]. now apply cohx_drop. Qed.

Lemma cohx_del_finish x : cohx (xb x) -> cohx (xb (fst (del_finish x))).
Proof.
  intros C. unfold del_finish. destruct (x_del x) as [[sid f]|]; [|exact C].
  destruct (fails f 1); cbn [fst]; apply cohx_after_crash; cbn [xb set_del set_ro set_b].
  - destruct (xb x) as [s c n]. exact C.
  - apply cohx_wipe.
Qed.

Lemma xb_suspend x f u b : xb (suspend x f u b) = xb x.
Proof. destruct (suspend_cases x f u b) as [->|[_ [_ ->]]]; [reflexivity|rewrite mark_topics_xb; reflexivity]. Qed.

Lemma xb_p2p_step x k f po : xb (fst (p2p_step x k f po)) = xb (after_crash f x) \/ xb (fst (p2p_step x k f po)) = xb x.
Proof.
  unfold TopicLife.p2p_step. destruct (nth_error (x_p2p x) k); [|right; reflexivity].
  destruct (negb _); [right; reflexivity|].
  destruct (_ && _ && _); cbn [fst]; [left; destruct f; reflexivity|].
  destruct (step_f dr nr sm (pt_b p) (f, p2p_op po)). cbn [fst]. left. destruct f; reflexivity.
Qed.

Lemma cohx_publish_sys x f sid c : cohx (xb x) -> cohx (xb (fst (publish_sys sm x f sid c))).
Proof.
  intros C. unfold publish_sys. repeat break_match; cbn [fst]; try exact C; apply cohx_after_crash; exact C.
Qed.

Lemma cohx_base_step x f o : safe_step sm (xb x) (f, o) = true -> cohx (xb x) -> cohx (xb (fst (base_step x f o))).
Proof.
  intros SF C. unfold TopicLife.base_step.
  destruct (if x_ro x && x_attached x (op_sid o) then _ else None) as [code|]; cbn [fst].
  - apply cohx_after_crash. cbn [xb set_b]. destruct f; [destruct (xb x); exact C|destruct (xb x); exact C|].
    apply (cohx_drop (xb x) 0 C).
  - pose proof (step_f_cohx dr nr sm (xb x) (f, o) SF C) as C1.
    destruct (step_f dr nr sm (xb x) (f, o)) as [b1 o1]. cbn [fst] in *.
    assert (C2 : cohx (xb (match ca b1 with None => set_ro false (set_b b1 x) | Some _ => set_b b1 x end)))
      by (destruct (ca b1); exact C1).
    destruct o; try (apply cohx_after_crash; exact C2).
    unfold mem_reset. cbn [xb]. apply cohx_drop. exact C2.
Qed.

Lemma cohx_xcore x e : (match e with EBase f o => safe_step sm (xb x) (f, o) | _ => true end) = true ->
  cohx (xb x) -> cohx (xb (fst (xcore x e))).
Proof.
  intros SF C. destruct e; cbn [TopicLife.xcore].
  - now apply cohx_base_step.
  - repeat break_match; exact C.
  - exact C.
  - cbn [fst]. apply cohx_after_crash. rewrite xb_suspend. exact C.
  - repeat break_match; exact C.
  - repeat break_match; exact C.
  - exact C.
  - exact C.
  - now apply cohx_publish_sys.
  - destruct (xb_p2p_step x k f o) as [->| ->]; [apply cohx_after_crash|]; exact C.
Qed.

Lemma cohx_xstep x e : xsafe_step x e = true -> cohx (xb x) -> cohx (xb (fst (xstep x e))).
Proof.
  intros SF C. unfold TopicLife.xstep.
  assert (G : (match e with EBase f o => safe_step sm (xb (fst (del_finish x))) (f, o) | _ => true end) = true ->
              cohx (xb (fst (let '(x1, o1) := del_finish x in let '(x2, o2) := xcore x1 e in (x2, o1 ++ o2))))).
  { intros SF'. pose proof (cohx_del_finish x C) as C1. destruct (del_finish x) as [x1 o1]. cbn [fst] in *.
    pose proof (cohx_xcore x1 e SF' C1) as C2. destruct (xcore x1 e) as [x2 o2]. exact C2. }
  destruct (x_del x) as [d|] eqn:D.
  - destruct e; try (apply G; exact SF).
    destruct o; try (apply G; unfold xsafe_step in SF; rewrite D in SF; exact SF).
    cbn [fst xb set_b]. destruct (xb x); exact C.
  - apply cohx_xcore; [|exact C]. destruct e; auto.
    unfold xsafe_step in SF. rewrite D in SF. unfold del_finish in SF. rewrite D in SF. cbn [fst] in SF.
    destruct o; exact SF.
Qed.

Fixpoint xsafe_run (x : xstate) (h : list xev) : Prop :=
  match h with
  | [] => True
  | e :: r => xsafe_step x e = true /\ xsafe_run (fst (xstep x e)) r
  end.

Lemma cohx_xrun h : forall x, xsafe_run x h -> cohx (xb x) -> cohx (xb (fst (xrun x h))).
Proof.
  induction h as [|e h IH]; intros x SR C; cbn [TopicLife.xrun fst]; [exact C|].
  destruct SR as [SF SR]. pose proof (cohx_xstep x e SF C) as C1.
  destruct (xstep x e) as [x1 o1]. cbn [fst] in *.
  specialize (IH x1 SR C1). destruct (xrun x1 h) as [x2 os]. exact IH.
Qed.
End LifeProofs.
