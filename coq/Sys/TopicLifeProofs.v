(* C03: proofs about the wrapper model Sys/TopicLife.v (deletion window, suspension, me/fnd/sys). *)
From Coq Require Import ZArith NArith List Bool Lia.
From Tinode Require Import Base.Util Pure.Acs Sys.Topic Sys.TopicTac Sys.TopicFrame Sys.TopicNum Sys.TopicOut
  Sys.TopicNumThm Sys.TopicPub Sys.TopicMarks Sys.TopicMeta Sys.TopicCoh Sys.TopicLife.
Import ListNotations.
Open Scope Z_scope.

Section LifeProofs.
Variable dr : Z -> list (Z * Z) -> option (list (Z * Z)).
Variable nr : list (Z * Z) -> list (Z * Z).
Variable sm : sessmap.

Notation xstep := (TopicLife.xstep dr nr sm).
Notation xcore := (TopicLife.xcore dr nr sm).
Notation xrun := (TopicLife.xrun dr nr sm).
Notation base_step := (TopicLife.base_step dr nr sm).

(* the conjunction the property lists, for the group topic *)
Definition xaccepts (x : xstate) (sid : N) : bool :=
  match x_del x with
  | Some _ => false                               (* being deleted *)
  | None => negb (x_ro x) && accepts sm (xb x) sid  (* not suspended; attached; W in want and given *)
  end.

(* invariants of reachable states *)
Definition xwf (x : xstate) : Prop :=
  (ca (xb x) = None -> x_ro x = false) /\ (x_del x <> None -> ca (xb x) <> None).
Definition sys_inv (x : xstate) : Prop :=
  (forall m, In m (x_sys_msgs x) -> m_seq m <= x_sys_lastid x) /\ x_sys_lastid x <= x_sys_seqid x.
Definition xinv (x : xstate) : Prop := inv_num (xb x) /\ xwf x /\ sys_inv x.

Lemma accepts_attached b sid : accepts sm b sid = true -> match ca b with Some c => attached c sid = true | None => False end.
Proof. unfold accepts. destruct (ca b); [|discriminate]. intros H. apply andb_true_iff in H. tauto. Qed.

Lemma x_attached_accepts x sid : x_attached x sid = false -> accepts sm (xb x) sid = false.
Proof.
  unfold x_attached, accepts. destruct (ca (xb x)); [|reflexivity]. intros ->. reflexivity.
Qed.

Lemma step_f_nofault b o : step_f dr nr sm b (NoFault, o) = step dr nr sm NoFault b o.
Proof. unfold step_f. cbn [fst snd]. destruct (step dr nr sm NoFault b o). reflexivity. Qed.

(* ---------- acceptance ---------- *)
Lemma xaccept_iff x sid content noecho : inv_num (xb x) ->
  ((exists n, first_reply (snd (xstep x (EBase NoFault (OPub sid content noecho)))) sid = Some (Ctrl 202 [(P_seq, n)]))
   <-> xaccepts x sid = true).
Proof.
  intros I. unfold TopicLife.xstep, xaccepts. destruct (x_del x) as [d|].
  - unfold first_reply. cbn [snd]. split; [intros [n H]|intros H]; [|discriminate].
    rewrite N.eqb_refl in H. destruct (x_attached x sid); discriminate.
  - unfold TopicLife.xcore, TopicLife.base_step. cbn [op_sid].
    destruct (x_ro x) eqn:RO; cbn [andb negb].
    + destruct (x_attached x sid) eqn:AT.
      * unfold first_reply. cbn [snd]. change (403 =? 0) with false. cbv iota.
        split; [intros [n H]; rewrite N.eqb_refl in H; discriminate|discriminate].
      * rewrite step_f_nofault.
        pose proof (accept_iff dr nr sm (xb x) sid content noecho I) as A.
        rewrite (x_attached_accepts _ _ AT) in A.
        destruct (step dr nr sm NoFault (xb x) (OPub sid content noecho)) as [b1 o1]. cbn [snd] in *.
        split; [intros H; apply A in H; discriminate|discriminate].
    + rewrite step_f_nofault.
      pose proof (accept_iff dr nr sm (xb x) sid content noecho I) as A.
      destruct (step dr nr sm NoFault (xb x) (OPub sid content noecho)) as [b1 o1]. cbn [snd] in *. exact A.
Qed.

(* ---------- a rejected publish ---------- *)
(* exactly one error reply, to the sender; nothing stored anywhere; and unless the fault plan is a crash
   (the process dies after replying) nothing in memory changes either *)
Definition stores_same (x x' : xstate) : Prop :=
  st (xb x') = st (xb x) /\ x_susp x' = x_susp x /\ x_sys_seqid x' = x_sys_seqid x /\ x_sys_msgs x' = x_sys_msgs x.
Definition is_crash (f : fault) : bool := match f with CrashAt _ => true | _ => false end.

Lemma xreject_no_effect x f sid content noecho : xwf x -> xaccepts x sid = false ->
  exists code, 400 <= code /\
    snd (xstep x (EBase f (OPub sid content noecho))) = [(sid, Ctrl code [])] /\
    stores_same x (fst (xstep x (EBase f (OPub sid content noecho)))) /\
    (is_crash f = false -> fst (xstep x (EBase f (OPub sid content noecho))) = set_b (mkState (st (xb x)) (ca (xb x)) 0) x).
Proof.
  intros [WF1 WF2] A. unfold TopicLife.xstep, xaccepts in *. destruct (x_del x) as [d|] eqn:D.
  - exists (if x_attached x sid then 503 else 409). split; [destruct (x_attached x sid); lia|].
    cbn [fst snd]. split; [reflexivity|]. split; [repeat split|reflexivity].
  - unfold TopicLife.xcore, TopicLife.base_step. cbn [op_sid].
    destruct (x_ro x && x_attached x sid) eqn:BL.
    + exists 403. split; [lia|]. cbn [fst snd]. split; [reflexivity|]. split.
      * destruct f; cbn [after_crash mem_reset]; repeat split.
      * intros NC. destruct f; [reflexivity|reflexivity|discriminate].
    + assert (AC : accepts sm (xb x) sid = false).
      { destruct (x_ro x) eqn:RO; cbn [andb negb] in *; [apply x_attached_accepts; exact BL|exact A]. }
      destruct (reject_no_effect dr nr sm f (xb x) sid content noecho AC) as [code [Hc E]].
      exists code. split; [exact Hc|]. unfold step_f. cbn [fst snd]. rewrite E.
      destruct f; cbn [fst snd st ca after_crash mem_reset set_b set_ro xb x_susp x_sys_seqid x_sys_msgs];
        (split; [reflexivity|]); (split; [destruct (ca (xb x)); repeat split|]); intros NC; try discriminate.
      * destruct (ca (xb x)) eqn:CA; [reflexivity|]. unfold set_ro, set_b. cbn. rewrite (WF1 eq_refl).
        destruct x; cbn in *. subst. reflexivity.
      * destruct (ca (xb x)) eqn:CA; [reflexivity|]. unfold set_ro, set_b. cbn. rewrite (WF1 eq_refl).
        destruct x; cbn in *. subst. reflexivity.
Qed.

(* ---------- me / fnd: always refused, nothing changes ---------- *)
Lemma xcore_pub_me x sid c : exists code, 400 <= code /\ xcore x (EPubMe sid c) = (x, [(sid, Ctrl code [])]).
Proof. exists (if memN sid (x_me x) then 403 else 409). split; [destruct (memN sid (x_me x)); lia|reflexivity]. Qed.
Lemma xcore_pub_fnd x sid c : exists code, 400 <= code /\ xcore x (EPubFnd sid c) = (x, [(sid, Ctrl code [])]).
Proof. exists (if memN sid (x_fnd x) then 403 else 409). split; [destruct (memN sid (x_fnd x)); lia|reflexivity]. Qed.

(* in general: the only thing that can happen on the way is that a held delete finishes *)
Lemma xstep_pub_me x sid c : exists code, 400 <= code /\
  xstep x (EPubMe sid c) = (fst (del_finish x), snd (del_finish x) ++ [(sid, Ctrl code [])]).
Proof.
  unfold TopicLife.xstep. destruct (x_del x) eqn:D.
  - destruct (del_finish x) as [x1 o1] eqn:DF. destruct (xcore_pub_me x1 sid c) as [code [H E]].
    exists code. split; [exact H|]. rewrite E. reflexivity.
  - destruct (xcore_pub_me x sid c) as [code [H E]]. exists code. split; [exact H|].
    rewrite E. unfold del_finish. rewrite D. reflexivity.
Qed.
Lemma xstep_pub_fnd x sid c : exists code, 400 <= code /\
  xstep x (EPubFnd sid c) = (fst (del_finish x), snd (del_finish x) ++ [(sid, Ctrl code [])]).
Proof.
  unfold TopicLife.xstep. destruct (x_del x) eqn:D.
  - destruct (del_finish x) as [x1 o1] eqn:DF. destruct (xcore_pub_fnd x1 sid c) as [code [H E]].
    exists code. split; [exact H|]. rewrite E. reflexivity.
  - destruct (xcore_pub_fnd x sid c) as [code [H E]]. exists code. split; [exact H|].
    rewrite E. unfold del_finish. rewrite D. reflexivity.
Qed.

(* ---------- sys: any logged-in author, no attachment ---------- *)
Lemma publish_sys_accepts x sid c : sess_uid sm sid <> 0%N -> sys_inv x ->
  publish_sys sm x NoFault sid c =
    (set_sys (x_sys_lastid x + 1) (x_sys_lastid x + 1)
             (x_sys_msgs x ++ [mkMsg (x_sys_lastid x + 1) (sess_uid sm sid) c 0]) x,
     [(sid, Ctrl 202 [(P_seq, x_sys_lastid x + 1)])]).
Proof.
  intros U [S1 S2]. unfold publish_sys. destruct (N.eqb_spec (sess_uid sm sid) 0); [contradiction|].
  cbn [call fails negb after_crash].
  destruct (existsb (fun m => m_seq m =? x_sys_lastid x + 1) (x_sys_msgs x)) eqn:E; [|reflexivity].
  apply existsb_exists in E. destruct E as [m [Hm E]]. apply Z.eqb_eq in E. specialize (S1 m Hm). lia.
Qed.

(* a publish to sys that is not acknowledged stored no message; unless the process died its lastID is unchanged *)
Lemma publish_sys_cases x f sid c :
  (exists n, snd (publish_sys sm x f sid c) = [(sid, Ctrl 202 [(P_seq, n)])]) \/
  ((snd (publish_sys sm x f sid c) = [(sid, Ctrl 500 [])] \/ snd (publish_sys sm x f sid c) = []) /\
   x_sys_msgs (fst (publish_sys sm x f sid c)) = x_sys_msgs x /\
   st (xb (fst (publish_sys sm x f sid c))) = st (xb x) /\
   (is_crash f = false -> x_sys_lastid (fst (publish_sys sm x f sid c)) = x_sys_lastid x /\
                          xb (fst (publish_sys sm x f sid c)) = xb x)).
Proof.
  unfold publish_sys. destruct (sess_uid sm sid =? 0)%N.
  - right. cbn [fst snd]. repeat split; auto.
  - repeat break_match; cbn [fst snd]; try (left; eexists; reflexivity); right;
      (split; [left; reflexivity|]);
      destruct f; cbn [after_crash mem_reset set_sys x_sys_msgs xb x_sys_lastid is_crash st]; repeat split; auto; try discriminate.
Qed.

(* ---------- invariants ---------- *)
Lemma inv_num_drop b n : inv_num b -> inv_num (mkState (st b) None n).
Proof. destruct b as [s [c|] n0]; intros I; [apply (inv_num_unload s c n0 n); exact I|exact I]. Qed.

Lemma xinv_mem_reset x : inv_num (xb x) -> sys_inv x -> xinv (mem_reset x).
Proof.
  intros I [S1 S2]. unfold xinv, xwf, sys_inv, mem_reset. cbn.
  split; [apply inv_num_drop; exact I|]. split; [split; [reflexivity|congruence]|].
  split; [intros m Hm; specialize (S1 m Hm); lia|lia].
Qed.
Lemma xinv_after_crash f x : xinv x -> xinv (after_crash f x).
Proof. intros X. destruct f; cbn; auto. destruct X as [I [_ S]]. now apply xinv_mem_reset. Qed.

Lemma inv_num_wipe s n : inv_num (mkState (wipe s) None n).
Proof. unfold inv_num. cbn. split; [intros n0 []|]. split; [constructor|lia]. Qed.

Lemma del_after_crash f x : x_del x = None -> x_del (after_crash f x) = None.
Proof. destruct f; cbn; auto. Qed.

Lemma xinv_del_finish x : xinv x -> xinv (fst (del_finish x)) /\ x_del (fst (del_finish x)) = None.
Proof.
  intros X. unfold del_finish. destruct (x_del x) as [[sid f]|] eqn:D; [|split; [exact X|exact D]].
  destruct X as [I [[W1 W2] S]].
  destruct (fails f 1); cbn [fst].
  - split; [|apply del_after_crash; reflexivity]. apply xinv_after_crash. split; [|split].
    + cbn. exact I.
    + split; cbn; [exact W1|congruence].
    + exact S.
  - split; [|apply del_after_crash; reflexivity]. apply xinv_after_crash. split; [|split].
    + cbn. apply inv_num_wipe.
    + split; cbn; [reflexivity|congruence].
    + exact S.
Qed.

Lemma xinv_base_step x f o : x_del x = None -> xinv x -> xinv (fst (base_step x f o)) /\ x_del (fst (base_step x f o)) = None.
Proof.
  intros D [I [[W1 W2] S]]. unfold TopicLife.base_step.
  destruct (if x_ro x && x_attached x (op_sid o) then _ else None) as [code|]; cbn [fst].
  - split; [|apply del_after_crash; exact D].
    destruct f; cbn [after_crash].
    + split; [exact I|split]; [split; cbn; [exact W1|rewrite D; congruence]|exact S].
    + split; [exact I|split]; [split; cbn; [exact W1|rewrite D; congruence]|exact S].
    + apply xinv_mem_reset; [cbn; apply inv_num_drop; exact I|exact S].
  - pose proof (step_f_inv_num dr nr sm (xb x) (f, o) I) as I1.
    destruct (step_f dr nr sm (xb x) (f, o)) as [b1 o1]. cbn [fst] in *.
    assert (X2 : xinv (match ca b1 with None => set_ro false (set_b b1 x) | Some _ => set_b b1 x end)).
    { split; [destruct (ca b1); exact I1|]. split; [|destruct (ca b1); exact S].
      destruct (ca b1) eqn:CB; split; cbn; try rewrite CB; try rewrite D; congruence. }
    assert (D2 : x_del (match ca b1 with None => set_ro false (set_b b1 x) | Some _ => set_b b1 x end) = None)
      by (destruct (ca b1); exact D).
    split.
    + destruct o; try (apply xinv_after_crash; exact X2).
      destruct X2 as [A [_ B]]. now apply xinv_mem_reset.
    + destruct o; try (apply del_after_crash; exact D2). reflexivity.
Qed.

Lemma xinv_publish_sys x f sid c : xinv x -> xinv (fst (publish_sys sm x f sid c)).
Proof.
  intros X. unfold publish_sys. destruct (sess_uid sm sid =? 0)%N; [exact X|].
  destruct X as [I [W [S1 S2]]].
  repeat break_match; cbn [fst]; apply xinv_after_crash; (split; [exact I|split; [exact W|]]);
    unfold sys_inv, set_sys; cbn; try (split; [exact S1|lia]).
  split; [|lia]. intros m Hm. apply in_app_or in Hm. destruct Hm as [Hm|[Hm|[]]]; [specialize (S1 m Hm); lia|subst m; cbn; lia].
Qed.

Lemma xinv_suspend x f u b : xinv x -> xinv (suspend x f u b).
Proof.
  intros [I [[W1 W2] S]]. unfold suspend.
  repeat break_match; (split; [exact I|split; [|exact S]]); split;
    cbn [xb x_ro x_del set_ro set_susp ca]; intros; try congruence; auto;
    try (exfalso; match goal with H : x_del _ <> None, W : x_del _ <> None -> None <> None |- _ => apply (W H); reflexivity end).
Qed.

Lemma xinv_xcore x e : x_del x = None -> xinv x -> xinv (fst (xcore x e)).
Proof.
  intros D X. destruct e; cbn [TopicLife.xcore].
  - apply xinv_base_step; assumption.
  - destruct (ca (xb x)) eqn:CA; [|exact X].
    destruct (negb (sess_uid sm sid =? 0)%N && (c_owner c =? sess_uid sm sid)%N); cbn [fst]; [|exact X].
    destruct X as [I [[W1 W2] S]]. split; [exact I|split; [|exact S]]. split; cbn; [exact W1|intros _; congruence].
  - exact X.
  - cbn [fst]. apply xinv_after_crash. apply xinv_suspend. exact X.
  - destruct (_ || _); cbn [fst]; [exact X|]. destruct X as [I [W S]]. split; [exact I|split; [exact W|exact S]].
  - destruct (_ || _); cbn [fst]; [exact X|]. destruct X as [I [W S]]. split; [exact I|split; [exact W|exact S]].
  - exact X.
  - exact X.
  - apply xinv_publish_sys. exact X.
Qed.

Lemma xinv_xstep x e : xinv x -> xinv (fst (xstep x e)).
Proof.
  intros X. unfold TopicLife.xstep. destruct (x_del x) as [d|] eqn:D; [|apply xinv_xcore; assumption].
  assert (G : forall e', xinv (fst (let '(x1, o1) := del_finish x in let '(x2, o2) := xcore x1 e' in (x2, o1 ++ o2)))).
  { intros e'. destruct (xinv_del_finish x X) as [X1 D1]. destruct (del_finish x) as [x1 o1]. cbn [fst] in *.
    pose proof (xinv_xcore x1 e' D1 X1) as X2. destruct (xcore x1 e') as [x2 o2]. exact X2. }
  destruct e; try apply G.
  destruct o; try apply G. cbn [fst].
  destruct X as [I [[W1 W2] S]]. split; [exact I|split; [|exact S]]. split; cbn; assumption.
Qed.

Lemma xinv_xrun h : forall x, xinv x -> xinv (fst (xrun x h)).
Proof.
  induction h as [|e h IH]; intros x X; cbn [TopicLife.xrun fst]; [exact X|].
  pose proof (xinv_xstep x e X) as X1. destruct (xstep x e) as [x1 o1]. cbn [fst] in X1.
  specialize (IH x1 X1). destruct (xrun x1 h) as [x2 os]. exact IH.
Qed.

Lemma xinv_init s : fresh s -> xinv (xinit s).
Proof.
  intros F. split; [apply fresh_inv; exact F|]. split; [split; cbn; congruence|].
  split; cbn; [intros m []|lia].
Qed.

(* ---------- suspension ---------- *)
(* the read-only bit is set on the loaded topic of the user who is being suspended ... *)
Lemma suspend_marks x u b c a : ca (xb x) = Some c -> c_owner c = u -> alookup u (users (st (xb x))) = Some a ->
  memN u (x_susp x) = negb b -> x_ro (suspend x NoFault u b) = b.
Proof.
  intros CA OW US MS. unfold suspend. cbn [call fails negb]. rewrite US, MS.
  destruct b; cbn [Bool.eqb negb]; rewrite CA, OW, N.eqb_refl; reflexivity.
Qed.

(* ---------- the cached grant is the stored grant, along every history of the wrapper model ---------- *)
Definition xaccepts_stored (x : xstate) (sid : N) : bool :=
  match x_del x with
  | Some _ => false
  | None => negb (x_ro x) && accepts_stored sm (xb x) sid
  end.

Lemma xaccepts_stored_eq x sid : cohx (xb x) -> xaccepts x sid = xaccepts_stored x sid.
Proof.
  intros C. unfold xaccepts, xaccepts_stored. destruct (x_del x); [reflexivity|].
  f_equal. unfold accepts. apply (accepts_stored_eq sm (xb x) sid C).
Qed.

(* the same two triggers as for the group-topic model, looked at in the state in which the request is served *)
Definition xsafe_step (x : xstate) (e : xev) : bool :=
  match e with
  | EBase f o =>
    match x_del x, o with
    | Some _, OPub _ _ _ => true
    | _, _ => safe_step sm (xb (fst (del_finish x))) (f, o)
    end
  | _ => true
  end.

Lemma cohx_drop b n : cohx b -> cohx (mkState (st b) None n).
Proof. unfold cohx. cbn. destruct (ca b); [intros [W _]; exact W|auto]. Qed.
Lemma cohx_ncalls s c n n' : cohx (mkState s c n) -> cohx (mkState s c n').
Proof. auto. Qed.
Lemma cohx_wipe s n : cohx (mkState (wipe s) None n).
Proof. unfold cohx, wf_store. cbn. constructor. Qed.
Lemma cohx_after_crash f x : cohx (xb x) -> cohx (xb (after_crash f x)).
Proof. destruct f; cbn [after_crash]; auto. intros C. unfold mem_reset. cbn [xb]. now apply cohx_drop. Qed.

Lemma cohx_del_finish x : cohx (xb x) -> cohx (xb (fst (del_finish x))).
Proof.
  intros C. unfold del_finish. destruct (x_del x) as [[sid f]|]; [|exact C].
  destruct (fails f 1); cbn [fst]; apply cohx_after_crash; cbn [xb set_del set_ro set_b].
  - destruct (xb x) as [s c n]. exact C.
  - apply cohx_wipe.
Qed.

Lemma xb_suspend x f u b : xb (suspend x f u b) = xb x.
Proof. unfold suspend. repeat break_match; reflexivity. Qed.

Lemma cohx_publish_sys x f sid c : cohx (xb x) -> cohx (xb (fst (publish_sys sm x f sid c))).
Proof.
  intros C. unfold publish_sys. repeat break_match; cbn [fst]; try exact C; apply cohx_after_crash; exact C.
Qed.

Lemma cohx_base_step x f o : safe_step sm (xb x) (f, o) = true -> cohx (xb x) -> cohx (xb (fst (base_step x f o))).
Proof.
  intros SF C. unfold TopicLife.base_step.
  destruct (if x_ro x && x_attached x (op_sid o) then _ else None) as [code|]; cbn [fst].
  - apply cohx_after_crash. cbn [xb set_b]. destruct f; [destruct (xb x); exact C|destruct (xb x); exact C|].
    apply (cohx_drop (xb x) 0 C).
  - pose proof (step_f_cohx dr nr sm (xb x) (f, o) SF C) as C1.
    destruct (step_f dr nr sm (xb x) (f, o)) as [b1 o1]. cbn [fst] in *.
    assert (C2 : cohx (xb (match ca b1 with None => set_ro false (set_b b1 x) | Some _ => set_b b1 x end)))
      by (destruct (ca b1); exact C1).
    destruct o; try (apply cohx_after_crash; exact C2).
    unfold mem_reset. cbn [xb]. apply cohx_drop. exact C2.
Qed.

Lemma cohx_xcore x e : (match e with EBase f o => safe_step sm (xb x) (f, o) | _ => true end) = true ->
  cohx (xb x) -> cohx (xb (fst (xcore x e))).
Proof.
  intros SF C. destruct e; cbn [TopicLife.xcore].
  - now apply cohx_base_step.
  - repeat break_match; exact C.
  - exact C.
  - cbn [fst]. apply cohx_after_crash. rewrite xb_suspend. exact C.
  - repeat break_match; exact C.
  - repeat break_match; exact C.
  - exact C.
  - exact C.
  - now apply cohx_publish_sys.
Qed.

Lemma cohx_xstep x e : xsafe_step x e = true -> cohx (xb x) -> cohx (xb (fst (xstep x e))).
Proof.
  intros SF C. unfold TopicLife.xstep.
  assert (G : (match e with EBase f o => safe_step sm (xb (fst (del_finish x))) (f, o) | _ => true end) = true ->
              cohx (xb (fst (let '(x1, o1) := del_finish x in let '(x2, o2) := xcore x1 e in (x2, o1 ++ o2))))).
  { intros SF'. pose proof (cohx_del_finish x C) as C1. destruct (del_finish x) as [x1 o1]. cbn [fst] in *.
    pose proof (cohx_xcore x1 e SF' C1) as C2. destruct (xcore x1 e) as [x2 o2]. exact C2. }
  destruct (x_del x) as [d|] eqn:D.
  - destruct e; try (apply G; exact SF).
    destruct o; try (apply G; unfold xsafe_step in SF; rewrite D in SF; exact SF).
    cbn [fst xb set_b]. destruct (xb x); exact C.
  - apply cohx_xcore; [|exact C]. destruct e; auto.
    unfold xsafe_step in SF. rewrite D in SF. unfold del_finish in SF. rewrite D in SF. cbn [fst] in SF.
    destruct o; exact SF.
Qed.

Fixpoint xsafe_run (x : xstate) (h : list xev) : Prop :=
  match h with
  | [] => True
  | e :: r => xsafe_step x e = true /\ xsafe_run (fst (xstep x e)) r
  end.

Lemma cohx_xrun h : forall x, xsafe_run x h -> cohx (xb x) -> cohx (xb (fst (xrun x h))).
Proof.
  induction h as [|e h IH]; intros x SR C; cbn [TopicLife.xrun fst]; [exact C|].
  destruct SR as [SF SR]. pose proof (cohx_xstep x e SF C) as C1.
  destruct (xstep x e) as [x1 o1]. cbn [fst] in *.
  specialize (IH x1 SR C1). destruct (xrun x1 h) as [x2 os]. exact IH.
Qed.
End LifeProofs.
