(* C06: the owner-only gates accept a topic-wide change from the owner only. *)
From Coq Require Import ZArith NArith List Bool.
From Tinode Require Import Sys.OwnerGate.
Import ListNotations.
Open Scope Z_scope.

Lemma gate_all_owner k r code : (g_attached r = true -> g_loaded r = true) ->
  gate k r = GAll code -> g_is_owner r = true /\ code = 200.
Proof.
  intros AL. unfold g_is_owner. destruct r as [l a oc os sb rt]. cbn [g_attached g_loaded] in AL.
  destruct k as [| | |o|]; cbn; unfold gate_del, gate_desc, gate_tags; cbn;
    destruct l, a, oc, os, sb, rt; try destruct o; cbn; intros H; try discriminate; inversion H; auto;
    try (specialize (AL eq_refl); discriminate).
Qed.

(* the set-requests are accepted from attached sessions only; trusted needs root as well *)
Lemma gate_set_attached k r code : k <> GDelTopic -> gate k r = GAll code -> g_attached r = true.
Proof.
  destruct r as [l a oc os sb rt]. destruct k as [| | |o|]; cbn; unfold gate_desc, gate_tags; cbn; intros NK;
    try congruence; destruct a; cbn; auto; discriminate.
Qed.
Lemma gate_trusted_root r code : gate GSetTrusted r = GAll code -> g_root r = true.
Proof. destruct r as [l a oc os sb rt]. cbn. unfold gate_desc. cbn. destruct a, rt, oc; cbn; auto; discriminate. Qed.

(* and the owner is served: the gate does not lock the owner out *)
Lemma gate_owner_served k r : g_attached r = true -> g_loaded r = true -> g_owner_c r = true -> g_root r = true ->
  k <> GSetDefacs true -> gate k r = GAll 200.
Proof.
  destruct r as [l a oc os sb rt]. cbn. intros -> -> -> -> NK.
  destruct k as [| | |[|]|]; cbn; try reflexivity. congruence.
Qed.
