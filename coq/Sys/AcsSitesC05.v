(* C05 layer 3: the request handlers that INTERPRET a client-supplied default-access mode string
   (every place of server/*.go where the text of a {... desc.defacs} reaches ParseAcs/UnmarshalText),
   each as a function from (current modes, the strings of the request) to (new modes | error), on top
   of Pure/Acs.v.  Statement-by-statement translations of

     utils.go     parseTopicAccess                       -> parse_topic_access
     topic.go     replySetDesc / closure assignAccess    -> assign_access, set_desc_defacs
                  ({set desc.defacs} on 'me' and on a group topic, attached session)
     hub.go       replyOfflineTopicSetSub                -> offline_set_desc_defacs
                  (the same request from a session that is not attached: defacs is not looked at)
     init_topic.go initTopicNewGrp "set default access"  -> new_grp_defacs
                  ({sub topic=new|nch set.desc.defacs})
     user.go      replyCreateUser "Assign actual access values" -> acc_defacs
                  ({acc user=new desc.defacs})
     init_topic.go initTopicP2P "Assign user2's ModeGiven" -> p2p_new_given
                  ({sub topic=usrX set.desc.defacs.auth} creating a p2p topic)

   A Go string that is "" and a JSON key that is absent are the same value, so a mode text is a
   [list N] with [] for both; the defacs object itself may be absent ([None]).
   {set sub.mode} / {sub set.sub.mode} (want/given) are the business of the C06/C07 models.

   Definitions only; the proofs are in Sys/AcsSitesC05Proofs.v. *)
From Coq Require Import NArith List Bool.
From Tinode Require Import Pure.Acs.
Import ListNotations.
Open Scope N_scope.

Definition ModeApprove : N := 16.
Definition ModeOwner : N := 128.
Definition ModeCP2P : N := 31.         (* JRWPA *)
Definition ModeCPublic : N := 47.      (* JRWPS *)
Definition ModeCAuth : N := 63.        (* ModeCP2P | ModeCPublic *)
Definition ModeCChnWriter : N := 46.   (* RWPS *)

(* MsgDefaultAcsMode *)
Record defacs := mkDefacs { da_auth : list N; da_anon : list N }.

(* m.IsOwner() *)
Definition is_owner (m : N) : bool := negb (N.land m ModeOwner =? 0).

(* err := m.UnmarshalText(b): (new value of the receiver, err != nil) *)
Definition unmarshal_err (cur : N) (b : list N) : N * bool :=
  let '(m, ok) := unmarshal_text cur b in (m, negb ok).

(* utils.go parseTopicAccess(acs, defAuth, defAnon): (authMode, anonMode, err != nil).
   The error of acs.Auth is OVERWRITTEN by the result for acs.Anon when acs.Anon != "". *)
Definition parse_topic_access (acs : defacs) (defAuth defAnon : N) : N * N * bool :=
  let authMode := defAuth in
  let anonMode := defAnon in
  let err := false in
  let '(authMode, err) :=
    match da_auth acs with [] => (authMode, err) | _ :: _ => unmarshal_err authMode (da_auth acs) end in
  let '(anonMode, err) :=
    match da_anon acs with [] => (anonMode, err) | _ :: _ => unmarshal_err anonMode (da_anon acs) end in
  (authMode, anonMode, err).

(* `m &= mask; if m != ModeNone { m |= ModeApprove }` : the sanitising of a default access that is
   used for P2P topics ("must be either an N or must include an A permission") *)
Definition sanitize_p2p (mask m : N) : N :=
  let m1 := N.land m mask in
  if negb (m1 =? ModeNone) then N.lor m1 ModeApprove else m1.

(* the topic categories on which replySetDesc reaches assignAccess *)
Inductive tcat := CatMe | CatGrp.

(* outcome of assignAccess: error | upd untouched | upd["Access"] = {auth, anon} *)
Inductive sd_res := SdErr | SdNone | SdUpd (auth anon : N).

(* topic.go replySetDesc, closure assignAccess(upd, mode) on a topic holding accessAuth = tAuth,
   accessAnon = tAnon *)
Definition assign_access (cat : tcat) (tAuth tAnon : N) (mode : option defacs) : sd_res :=
  match mode with
  | None => SdNone
  | Some acs =>
    let '(auth, anon, err) := parse_topic_access acs ModeUnset ModeUnset in
    if err then SdErr
    else if is_owner auth || is_owner anon then SdErr
    else
      let accAuth :=
        if negb (auth =? ModeUnset) then
          match cat with CatMe => sanitize_p2p ModeCAuth auth | CatGrp => auth end
        else tAuth in
      let accAnon :=
        if negb (anon =? ModeUnset) then
          match cat with CatMe => sanitize_p2p ModeCP2P anon | CatGrp => anon end
        else tAnon in
      if negb (accAuth =? tAuth) || negb (accAnon =? tAnon) then SdUpd accAuth accAnon else SdNone
  end.

(* replySetDesc for a {set} whose desc carries nothing but (possibly) defacs, sent by the user of
   the 'me' topic / by the owner of the group topic over an attached session, no store failure:
   (code of the {ctrl}, (accessAuth, accessAnon) held by the topic AND stored in the row afterwards) *)
Definition set_desc_defacs (cat : tcat) (tAuth tAnon : N) (mode : option defacs) : N * (N * N) :=
  match assign_access cat tAuth tAnon mode with
  | SdErr => (400, (tAuth, tAnon))            (* ErrMalformedReply *)
  | SdNone => (304, (tAuth, tAnon))           (* len(core)+len(sub) == 0: InfoNotModifiedReply *)
  | SdUpd a n => (200, (a, n))                (* Users.Update / Topics.Update, then the cache *)
  end.

(* hub.go replyOfflineTopicSetSub for the same request from a session that is NOT attached:
   `(Desc == nil || Desc.Private == nil) && (Sub == nil || Sub.Mode == "")` -> 304, nothing read *)
Definition offline_set_desc_defacs (tAuth tAnon : N) (mode : option defacs) : N * (N * N) :=
  (304, (tAuth, tAnon)).

(* getDefaultAccess(TopicCatGrp, authUser, isChan) and (TopicCatP2P, authUser, false) *)
Definition default_access_grp (authUser isChan : bool) : N :=
  if negb authUser then ModeNone else if isChan then ModeCChnWriter else ModeCPublic.
Definition default_access_p2p (authUser : bool) : N :=
  if negb authUser then ModeNone else ModeCP2P.

(* init_topic.go initTopicNewGrp: (t.accessAuth, t.accessAnon) of the topic being created;
   [None] = no set / no set.desc / no set.desc.defacs in the {sub} *)
Definition new_grp_defacs (isChan : bool) (mode : option defacs) : N * N :=
  let tAuth := default_access_grp true isChan in
  let tAnon := default_access_grp false isChan in
  match mode with
  | None => (tAuth, tAnon)
  | Some acs =>
    let '(authMode, anonMode, err) := parse_topic_access acs tAuth tAnon in
    if err then
      (* "Invalid access for one or both. Make it explicitly None" *)
      (if authMode =? ModeInvalid then ModeNone else authMode,
       if anonMode =? ModeInvalid then ModeNone else anonMode)
    else if is_owner authMode || is_owner anonMode then
      (N.ldiff authMode ModeOwner, N.ldiff anonMode ModeOwner)       (* & ^types.ModeOwner *)
    else (authMode, anonMode)
  end.

(* user.go replyCreateUser: (user.Access.Auth, user.Access.Anon) of the account being created;
   [None] = no desc / no desc.defacs in the {acc}.  The error of UnmarshalText is not looked at. *)
Definition acc_field (dflt : N) (s : list N) : N :=
  match s with
  | [] => dflt
  | _ :: _ => sanitize_p2p ModeCP2P (fst (unmarshal_text dflt s))
  end.
Definition acc_default_auth : N := N.lor (default_access_p2p true) (default_access_grp true false).
Definition acc_default_anon : N := N.lor (default_access_p2p false) (default_access_grp false false).
Definition acc_defacs (mode : option defacs) : N * N :=
  match mode with
  | None => (acc_default_auth, acc_default_anon)
  | Some acs => (acc_field acc_default_auth (da_auth acs), acc_field acc_default_anon (da_anon acs))
  end.

(* init_topic.go initTopicP2P, responder's subscription missing: sub2.ModeGiven, where u1Auth is
   users[u1].Access.Auth of the requester.  The error of UnmarshalText is only logged. *)
Definition p2p_new_given (u1Auth : N) (mode : option defacs) : N :=
  let g := match mode with
           | Some acs => fst (unmarshal_text u1Auth (da_auth acs))
           | None => u1Auth
           end in
  N.lor (N.land g ModeCP2P) ModeApprove.

(* ---- what the property demands of a site, as executable specifications ---- *)

(* the value a field must hold after a request that is not rejected: untouched when the text is
   empty/absent or not a mode text, the parsed set (passed through [f]) when one is supplied *)
Definition field_spec (f : N -> N) (cur : N) (s : list N) : N :=
  match s with
  | [] => cur
  | _ :: _ => match parse_acs s with
              | Some m => f (N.land m ModeBitmask)
              | None => cur
              end
  end.

Definition cat_sanitize (cat : tcat) (mask : N) (m : N) : N :=
  match cat with CatMe => sanitize_p2p mask m | CatGrp => m end.
