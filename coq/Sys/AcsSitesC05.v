(* C05 layer 3: the request handlers that INTERPRET a client-supplied default-access mode string
   (every place of server/*.go where the text of a {... desc.defacs} reaches ParseAcs/UnmarshalText),
   each as a function from (current modes, the strings of the request) to (new modes | error), on top
   of Pure/Acs.v.  Statement-by-statement translations of

     utils.go     parseTopicAccess                       -> parse_topic_access
     topic.go     replySetDesc / closure assignAccess    -> assign_access, set_desc_defacs
                  ({set desc.defacs} on 'me' and on a group topic, attached session)
     hub.go       replyOfflineTopicSetSub                -> offline_set_desc_defacs
                  (the same request from a session that is not attached: defacs is not looked at)
     init_topic.go initTopicNewGrp "set default access"  -> new_grp_defacs
                  ({sub topic=new|nch set.desc.defacs})
     user.go      replyCreateUser "Assign actual access values" -> acc_defacs
                  ({acc user=new desc.defacs})
     init_topic.go initTopicP2P "Assign user2's ModeGiven" -> p2p_new_given
                  ({sub topic=usrX set.desc.defacs.auth} creating a p2p topic)

   A Go string that is "" and a JSON key that is absent are the same value, so a mode text is a
   [list N] with [] for both; the defacs object itself may be absent ([None]).
   {set sub.mode} / {sub set.sub.mode} (want/given) are the business of the C06/C07 models.

   Definitions only; the proofs are in Sys/AcsSitesC05Proofs.v. *)
From Coq Require Import NArith List Bool.
From Tinode Require Import Pure.Acs.
Import ListNotations.
Open Scope N_scope.

Definition ModeApprove : N := 16.
Definition ModeOwner : N := 128.
Definition ModeCP2P : N := 31.         (* JRWPA *)
Definition ModeCPublic : N := 47.      (* JRWPS *)
Definition ModeCAuth : N := 63.        (* ModeCP2P | ModeCPublic *)
Definition ModeCChnWriter : N := 46.   (* RWPS *)

(* MsgDefaultAcsMode *)
Record defacs := mkDefacs { da_auth : list N; da_anon : list N }.

(* m.IsOwner() *)
Definition is_owner (m : N) : bool := negb (N.land m ModeOwner =? 0).

(* err := m.UnmarshalText(b): (new value of the receiver, err != nil) *)
Definition unmarshal_err (cur : N) (b : list N) : N * bool :=
  let '(m, ok) := unmarshal_text cur b in (m, negb ok).

(* utils.go parseTopicAccess(acs, defAuth, defAnon): (authMode, anonMode, err != nil).
   The error of acs.Auth is OVERWRITTEN by the result for acs.Anon when acs.Anon != "". *)
Definition parse_topic_access (acs : defacs) (defAuth defAnon : N) : N * N * bool :=
  let authMode := defAuth in
  let anonMode := defAnon in
  let err := false in
  let '(authMode, err) :=
    match da_auth acs with [] => (authMode, err) | _ :: _ => unmarshal_err authMode (da_auth acs) end in
  let '(anonMode, err) :=
    match da_anon acs with [] => (anonMode, err) | _ :: _ => unmarshal_err anonMode (da_anon acs) end in
  (authMode, anonMode, err).

(* `m &= mask; if m != ModeNone { m |= ModeApprove }` : the sanitising of a default access that is
   used for P2P topics ("must be either an N or must include an A permission") *)
Definition sanitize_p2p (mask m : N) : N :=
  let m1 := N.land m mask in
  if negb (m1 =? ModeNone) then N.lor m1 ModeApprove else m1.

(* the topic categories on which replySetDesc reaches assignAccess *)
Inductive tcat := CatMe | CatGrp.

(* outcome of assignAccess: error | upd untouched | upd["Access"] = {auth, anon} *)
Inductive sd_res := SdErr | SdNone | SdUpd (auth anon : N).

(* topic.go replySetDesc, closure assignAccess(upd, mode) on a topic holding accessAuth = tAuth,
   accessAnon = tAnon *)
Definition assign_access (cat : tcat) (tAuth tAnon : N) (mode : option defacs) : sd_res :=
  match mode with
  | None => SdNone
  | Some acs =>
    let '(auth, anon, err) := parse_topic_access acs ModeUnset ModeUnset in
    if err then SdErr
    else if is_owner auth || is_owner anon then SdErr
    else
      let accAuth :=
        if negb (auth =? ModeUnset) then
          match cat with CatMe => sanitize_p2p ModeCAuth auth | CatGrp => auth end
        else tAuth in
      let accAnon :=
        if negb (anon =? ModeUnset) then
          match cat with CatMe => sanitize_p2p ModeCP2P anon | CatGrp => anon end
        else tAnon in
      if negb (accAuth =? tAuth) || negb (accAnon =? tAnon) then SdUpd accAuth accAnon else SdNone
  end.

(* replySetDesc for a {set} whose desc carries nothing but (possibly) defacs, sent by the user of
   the 'me' topic / by the owner of the group topic over an attached session, no store failure:
   (code of the {ctrl}, (accessAuth, accessAnon) held by the topic AND stored in the row afterwards) *)
Definition set_desc_defacs (cat : tcat) (tAuth tAnon : N) (mode : option defacs) : N * (N * N) :=
  match assign_access cat tAuth tAnon mode with
  | SdErr => (400, (tAuth, tAnon))            (* ErrMalformedReply *)
  | SdNone => (304, (tAuth, tAnon))           (* len(core)+len(sub) == 0: InfoNotModifiedReply *)
  | SdUpd a n => (200, (a, n))                (* Users.Update / Topics.Update, then the cache *)
  end.

(* hub.go replyOfflineTopicSetSub for the same request from a session that is NOT attached:
   `(Desc == nil || Desc.Private == nil) && (Sub == nil || Sub.Mode == "")` -> 304, nothing read *)
Definition offline_set_desc_defacs (tAuth tAnon : N) (mode : option defacs) : N * (N * N) :=
  (304, (tAuth, tAnon)).

(* getDefaultAccess(TopicCatGrp, authUser, isChan) and (TopicCatP2P, authUser, false) *)
Definition default_access_grp (authUser isChan : bool) : N :=
  if negb authUser then ModeNone else if isChan then ModeCChnWriter else ModeCPublic.
Definition default_access_p2p (authUser : bool) : N :=
  if negb authUser then ModeNone else ModeCP2P.

(* init_topic.go initTopicNewGrp: (t.accessAuth, t.accessAnon) of the topic being created;
   [None] = no set / no set.desc / no set.desc.defacs in the {sub} *)
Definition new_grp_defacs (isChan : bool) (mode : option defacs) : N * N :=
  let tAuth := default_access_grp true isChan in
  let tAnon := default_access_grp false isChan in
  match mode with
  | None => (tAuth, tAnon)
  | Some acs =>
    let '(authMode, anonMode, err) := parse_topic_access acs tAuth tAnon in
    if err then
      (* "Invalid access for one or both. Make it explicitly None" *)
      (if authMode =? ModeInvalid then ModeNone else authMode,
       if anonMode =? ModeInvalid then ModeNone else anonMode)
    else if is_owner authMode || is_owner anonMode then
      (N.ldiff authMode ModeOwner, N.ldiff anonMode ModeOwner)       (* & ^types.ModeOwner *)
    else (authMode, anonMode)
  end.

(* user.go replyCreateUser: (user.Access.Auth, user.Access.Anon) of the account being created;
   [None] = no desc / no desc.defacs in the {acc}.  The error of UnmarshalText is not looked at. *)
Definition acc_field (dflt : N) (s : list N) : N :=
  match s with
  | [] => dflt
  | _ :: _ => sanitize_p2p ModeCP2P (fst (unmarshal_text dflt s))
  end.
Definition acc_default_auth : N := N.lor (default_access_p2p true) (default_access_grp true false).
Definition acc_default_anon : N := N.lor (default_access_p2p false) (default_access_grp false false).
Definition acc_defacs (mode : option defacs) : N * N :=
  match mode with
  | None => (acc_default_auth, acc_default_anon)
  | Some acs => (acc_field acc_default_auth (da_auth acs), acc_field acc_default_anon (da_anon acs))
  end.

(* init_topic.go initTopicP2P, responder's subscription missing: sub2.ModeGiven, where u1Auth is
   users[u1].Access.Auth of the requester.  The error of UnmarshalText is only logged. *)
Definition p2p_new_given (u1Auth : N) (mode : option defacs) : N :=
  let g := match mode with
           | Some acs => fst (unmarshal_text u1Auth (da_auth acs))
           | None => u1Auth
           end in
  N.lor (N.land g ModeCP2P) ModeApprove.

(* ---- what the property demands of a site, as executable specifications ---- *)

(* the value a field must hold after a request that is not rejected: untouched when the text is
   empty/absent or not a mode text, the parsed set (passed through [f]) when one is supplied *)
Definition field_spec (f : N -> N) (cur : N) (s : list N) : N :=
  match s with
  | [] => cur
  | _ :: _ => match parse_acs s with
              | Some m => f (N.land m ModeBitmask)
              | None => cur
              end
  end.

Definition cat_sanitize (cat : tcat) (mask : N) (m : N) : N :=
  match cat with CatMe => sanitize_p2p mask m | CatGrp => m end.

(* ====================================================================================== *)
(* The mode text of a SUBSCRIPTION ({set sub.mode}, {sub set.sub.mode}) on an EXISTING
   subscription of a group or p2p topic: the text is read by thisUserSub (topic.go:1466, own
   subscription: the user's want), anotherUserSub (topic.go:1844, somebody else's subscription:
   the given) and, for a session that is not attached, by hub.go replyOfflineTopicSetSub.
   Only what these functions do to (want, given) of the subscription and the code of the reply
   is modelled; notifications are layer 2, ownership is C06, who may change what is C07.
   New subscriptions / invitations take defaults when the text is empty (there is no value to
   keep) and are left to C06/C07. *)

Definition ModeJoin : N := 1.
Definition ModeDelete : N := 64.

Inductive scat := SGrp | SP2P.

Definition is_joiner (m : N) : bool := negb (N.land m ModeJoin =? 0).
Definition is_approver (m : N) : bool := negb (N.land m ModeApprove =? 0).
Definition is_admin (m : N) : bool := is_owner m || is_approver m.
Definition is_sharer (m : N) : bool := is_admin m || negb (N.land m 32 =? 0).

(* outcome: error reply, nothing written | the ownership-transfer path (C06) | reply code and
   the (want, given) of the subscription afterwards, in the cache and in the store *)
Inductive ss_res := SsErr (code : N) | SsOwnerChange | SsDone (code want given : N).

(* `modeWant := types.ModeUnset; if want != "" { if err := modeWant.UnmarshalText(want); err != nil {400} }` *)
Definition sub_mode_text (s : list N) : option N :=
  match s with
  | [] => Some ModeUnset
  | _ :: _ => let '(m, bad) := unmarshal_err ModeUnset s in if bad then None else Some m
  end.

(* thisUserSub, branch "Process update to existing subscription", group or p2p topic, not a
   channel reader.  topicOwner: t.owner == asUid; af: t.accessFor(asLvl). *)
Definition this_user_sub_existing (cat : scat) (topicOwner : bool) (af oldWant oldGiven : N)
           (s : list N) : ss_res :=
  match sub_mode_text s with
  | None => SsErr 400
  | Some modeWant0 =>
    (* "Explicit modeWant is provided": inl (modeWant, modeGiven, ownerChange) | inr code *)
    let explicit : (N * N * bool) + N :=
      if negb (modeWant0 =? ModeUnset) then
        if topicOwner && (negb (is_owner modeWant0) || negb (is_joiner modeWant0)) then inr 403
        else
          let sane : (N * bool) + N :=
            if is_owner oldGiven then
              inl (if is_owner modeWant0 && negb (better_equal oldGiven modeWant0)
                   then N.lor oldGiven modeWant0 else oldGiven,
                   is_owner modeWant0 && negb (is_owner oldWant))
            else if is_owner modeWant0 then inr 403
            else if (match cat with SGrp => true | SP2P => false end) && is_admin oldGiven && is_admin modeWant0 then
              let mw := N.ldiff modeWant0 ModeDelete in
              inl (if negb (better_equal oldGiven mw) then N.lor oldGiven mw else oldGiven, false)
            else inl (oldGiven, false) in
          match sane with
          | inr c => inr c
          | inl (g, oc) =>
            inl (match cat with
                 | SP2P => N.lor (N.land modeWant0 ModeCP2P) ModeApprove
                 | SGrp => modeWant0
                 end, g, oc)
          end
      else inl (modeWant0, oldGiven, false) in
    match explicit with
    | inr c => SsErr c
    | inl (modeWant, given', ownerChange) =>
      let want' :=
        if modeWant =? ModeUnset then
          (* "If the user has self-banned before, un-self-ban. Otherwise do not make a change." *)
          if negb (is_joiner oldWant) then
            let w := N.lor given' af in
            if negb topicOwner then N.ldiff w ModeOwner else w
          else oldWant
        else if negb (oldWant =? modeWant) then modeWant else oldWant in
      if ownerChange then SsOwnerChange
      else
        let changed := negb (oldWant =? want') || negb (oldGiven =? given') in
        let code := if changed then 200 else 304 in
        if negb (is_joiner want') then SsDone code want' given'        (* self-ban: evicted, reply as usual *)
        else if negb (is_joiner given') then SsDone 403 want' given'   (* "user is banned": after the write *)
        else SsDone code want' given'
    end
  end.

(* anotherUserSub, branch "Action on an existing subscription".  hostMode: given & want of the
   requester; hostIsOwner: t.owner == asUid; targetIsOwner: t.owner == target. *)
Definition another_user_sub_existing (cat : scat) (hostMode : N) (hostIsOwner targetIsOwner : bool)
           (oldWant oldGiven : N) (s : list N) : ss_res :=
  if negb (is_sharer hostMode) then SsErr 403
  else
    let parsed : option N :=
      match s with
      | [] => Some ModeUnset
      | _ :: _ =>
        let '(m, bad) := unmarshal_err ModeUnset s in
        if bad then None
        else Some (match cat with SP2P => N.lor (N.land m ModeCP2P) ModeApprove | SGrp => m end)
      end in
    match parsed with
    | None => SsErr 400
    | Some modeGiven =>
      if negb (modeGiven =? ModeUnset) && negb (is_admin hostMode) then SsErr 403
      else if is_owner modeGiven && negb hostIsOwner then SsErr 403
      else if modeGiven =? ModeUnset then SsDone 304 oldWant oldGiven     (* re-send the invite *)
      else if negb (modeGiven =? oldGiven) then
        if targetIsOwner && (negb (is_owner modeGiven) || negb (is_joiner modeGiven)) then SsErr 403
        else SsDone 200 oldWant modeGiven
      else SsDone 304 oldWant oldGiven
    end.

(* hub.go replyOfflineTopicSetSub for {set sub:{mode}} (no desc, no sub.user) of a subscribed user
   whose session is not attached; `var modeWant types.AccessMode` starts as 0.  A text that does not
   parse is answered through decodeStoreError: not a StoreError -> ErrUnknown (500). *)
Definition offline_set_sub (cat : scat) (oldWant oldGiven : N) (s : list N) : ss_res :=
  match s with
  | [] => SsDone 304 oldWant oldGiven
  | _ :: _ =>
    let '(m, bad) := unmarshal_err ModeNone s in
    if bad then SsErr 500
    else if negb (Bool.eqb (is_owner m) (is_owner oldWant)) then SsErr 403
    else
      let modeWant := match cat with SP2P => N.lor (N.land m ModeCP2P) ModeApprove | SGrp => m end in
      if negb (modeWant =? oldWant) then SsDone 200 modeWant oldGiven else SsDone 304 oldWant oldGiven
  end.

(* the (want, given) a subscription holds after the request *)
Definition ss_modes (oldWant oldGiven : N) (r : ss_res) : option (N * N) :=
  match r with
  | SsErr _ => Some (oldWant, oldGiven)
  | SsOwnerChange => None
  | SsDone _ w g => Some (w, g)
  end.
