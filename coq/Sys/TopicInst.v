(* The topic model instantiated with the range algebra of Pure/Ranges.v
   (replyDelMsg's validation + sort + Normalize; GetDeleted's sort + Normalize). *)
From Coq Require Import ZArith NArith List Bool.
From Tinode Require Import Base.Util Pure.Acs Pure.Ranges Sys.Topic.
Import ListNotations.

Definition of_range (r : range) : Z * Z := (low r, hi r).
Definition to_range (p : Z * Z) : range := mkRange (fst p) (snd p).

Definition del_ranges_i (last : Z) (req : list (Z * Z)) : option (list (Z * Z)) :=
  option_map (map of_range) (Ranges.del_ranges last req).
Definition norm_ranges_i (rs : list (Z * Z)) : list (Z * Z) :=
  map of_range (Ranges.normalize (Ranges.sort (map to_range rs))).

Definition step_i := Topic.step del_ranges_i norm_ranges_i.
Definition step_fi := Topic.step_f del_ranges_i norm_ranges_i.
Definition run_i := Topic.run del_ranges_i norm_ranges_i.
