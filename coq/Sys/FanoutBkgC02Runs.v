(* Sys/FanoutBkgC02.v, part 3 of the lemmas: histories (arbitrary request lists, arbitrary fault plans),
   the unattended topic, and what the invariants say about the recipients of a publish. *)
From Coq Require Import ZArith NArith List Bool Lia Permutation.
From Coq Require Import ZifyBool ZifyNat ZifyN.
From Tinode Require Import Sys.Fanout Sys.FanoutProofs Sys.FanoutBkgC02 Sys.FanoutBkgC02Proofs Sys.FanoutBkgC02Steps.
Import ListNotations.
Open Scope N_scope.

Lemma xnext_inv x o : xinv x -> xinv (xnext x (xstep x o)).
Proof.
  intros H. pose proof (xstep_ok x o) as Hok. unfold step_ok, xnext in *. cbn [fst snd] in Hok.
  destruct (xr_state (xstep x o)); [now apply Hok|exact H].
Qed.

Lemma xnext_joined x o : xinv x -> joined (x_st x) -> ban_bypass x o = false -> joined (x_st (xnext x (xstep x o))).
Proof.
  intros H Hj Hb. pose proof (xstep_ok x o) as Hok. unfold step_ok, xnext in *. cbn [fst snd] in Hok.
  destruct (xr_state (xstep x o)); [now apply Hok|exact Hj].
Qed.

(* a request one of whose store calls failed changes nothing: cache, sessions, stored rows, flags *)
Lemma xstep_failed_nothing x o : existsb snd (xr_calls (xstep x o)) = true -> xnext x (xstep x o) = x.
Proof.
  intros Hf. pose proof (xstep_ok x o) as Hok. unfold step_ok, xnext in *. cbn [fst snd] in Hok.
  destruct (xr_state (xstep x o)); [now apply Hok|reflexivity].
Qed.

Lemma xrun_inv ops : forall x, xinv x -> xinv (fst (xrun x ops)).
Proof.
  induction ops as [|o r IH]; intros x H; cbn [xrun]; [exact H|].
  specialize (IH _ (xnext_inv x o H)). destruct (xrun (xnext x (xstep x o)) r). exact IH.
Qed.

Lemma xrun_joined ops : forall x, xinv x -> joined (x_st x) -> no_bypass x ops = true -> joined (x_st (fst (xrun x ops))).
Proof.
  induction ops as [|o r IH]; intros x H Hj Hb; cbn [xrun]; [exact Hj|]. cbn [no_bypass] in Hb.
  apply andb_true_iff in Hb. destruct Hb as [Hb1 Hb2]. apply negb_true_iff in Hb1.
  specialize (IH _ (xnext_inv x o H) (xnext_joined x o H Hj Hb1) Hb2). destruct (xrun (xnext x (xstep x o)) r). exact IH.
Qed.

(* ---- the unattended topic ---- *)
Lemma lookup_map_rows (users : list (uid * pud)) u :
  lookup u (map (fun up => (fst up, (pu_want (snd up), pu_given (snd up)))) users) =
  option_map (fun p => (pu_want p, pu_given p)) (lookup u users).
Proof. induction users as [|[k v] r IH]; cbn; [reflexivity|]. destruct (u =? k); [reflexivity|exact IH]. Qed.

Lemma xinit_inv k owner defacs users crows bkg :
  (forall u p, In (u, p) users -> pu_deleted p = false /\ pu_ischan p = false) ->
  xinv (xinit k owner defacs users crows bkg) /\ joined (x_st (xinit k owner defacs users crows bkg)).
Proof.
  intros H. split; [|intros s d p []]. split; [constructor|]. split; [intros s d []|]. split.
  - intros u p Hp Hc. cbn in *. apply lookup_in in Hp. destruct (H u p Hp). congruence.
  - split; [intros s d []|]. intros u. cbn [x_rows x_st xinit]. rewrite lookup_map_rows. unfold live_modes. cbn [st_users init].
    destruct (lookup u users) as [p|] eqn:E; [|reflexivity]. apply lookup_in in E. destruct (H u p E) as [-> ->]. reflexivity.
Qed.

(* ---- the recipients ---- *)
(* whoever receives a copy is an attached session - background or not - of a cached, not deleted user:
   a channel subscription, or an ordinary subscriber with R and with J in want and in given *)
Lemma recipients_joined x px s f :
  xinv x -> joined (x_st x) -> In (s, f) (fanout (x_st x) px) ->
  exists d p, In (s, d) (st_sess (x_st x)) /\ lookup (ss_uid d) (st_users (x_st x)) = Some p /\ pu_deleted p = false /\
    pu_ischan p = ss_chan d /\
    (ss_chan d = true \/ (has (eff p) bR = true /\ has (pu_want p) bJ = true /\ has (pu_given p) bJ = true)).
Proof.
  intros [_ [Ha _]] Hj H. apply delivered_set in H. destruct H as [d [H1 [He _]]].
  destruct (Ha s d H1) as [p [Hp [Hd Hc]]]. exists d, p. repeat split; try assumption.
  destruct (ss_chan d) eqn:Ec; [now left|right].
  unfold eligible in He. cbn [fst snd] in He. apply andb_true_iff in He. destruct He as [He _]. rewrite Ec, orb_false_r in He.
  unfold user_is_reader, get_pud in He. rewrite Hp in He. split; [exact He|]. exact (Hj s d p H1 Hp Hc).
Qed.

(* the grant of an attached ordinary subscriber is his STORED grant *)
Lemma attached_grant_is_stored x s d :
  xinv x -> In (s, d) (st_sess (x_st x)) -> ss_chan d = false ->
  exists p, lookup (ss_uid d) (st_users (x_st x)) = Some p /\ stored_modes x (ss_uid d) = (pu_want p, pu_given p).
Proof.
  intros [_ [Ha [_ [_ Hc]]]] Hin Hch. destruct (Ha s d Hin) as [p [Hp [Hd Hi]]]. exists p. split; [exact Hp|].
  unfold stored_modes. rewrite (Hc (ss_uid d)). unfold live_modes. rewrite Hp, Hd, Hi, Hch. reflexivity.
Qed.

Definition elig_stored (x : xstate) (px : pubctx) (sd : sid * psd) : bool :=
  (has (seff x (ss_uid (snd sd))) bR || ss_chan (snd sd)) && negb (px_noecho px && (fst sd =? px_sid px)).

Lemma elig_stored_eq x px s d : xinv x -> In (s, d) (st_sess (x_st x)) -> elig_stored x px (s, d) = eligible (x_st x) px (s, d).
Proof.
  intros Hinv Hin. unfold elig_stored, eligible. cbn [fst snd]. f_equal. destruct (ss_chan d) eqn:Ec; [now rewrite !orb_true_r|].
  rewrite !orb_false_r. destruct (attached_grant_is_stored x s d Hinv Hin Ec) as [p [Hp Hs]].
  unfold seff, user_is_reader, get_pud, eff. now rewrite Hs, Hp.
Qed.

Lemma exact_set_stored x px : xinv x ->
  (forall s, In s (map fst (fanout_all (x_st x) px)) <-> exists d, In (s, d) (st_sess (x_st x)) /\ elig_stored x px (s, d) = true) /\
  NoDup (map fst (fanout_all (x_st x) px)).
Proof.
  intros Hinv. destruct (exact_set (x_st x) px) as [_ [Hnd Hiff]]. split; [|apply Hnd; apply Hinv].
  intros s. rewrite Hiff. split; intros [d [Hin He]]; exists d; (split; [exact Hin|]).
  - now rewrite elig_stored_eq.
  - now rewrite <- (elig_stored_eq x px s d Hinv Hin).
Qed.
