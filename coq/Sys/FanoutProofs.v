(* Lemmas about the fan-out model Sys/Fanout.v.  Part 1: one publish, from EVERY state.
   Part 2: histories (arbitrary lists of requests). *)
From Coq Require Import ZArith NArith List Bool Lia Permutation Sorted.
From Coq Require Import ZifyBool ZifyNat ZifyN.
From Tinode Require Import Sys.Fanout.
Import ListNotations.
Open Scope N_scope.

Ltac break_match :=
  match goal with
  | |- context [match ?x with _ => _ end] => destruct x eqn:?
  end.
Ltac break_match_hyp :=
  match goal with
  | H : context [match ?x with _ => _ end] |- _ => destruct x eqn:?
  end.
Ltac inv H := inversion H; subst; clear H.

(* ------------------------------------------------------------------ *)
(* association lists *)
Section AssocLemmas.
  Context {A : Type}.
  Implicit Types (l : list (N * A)) (k : N).

  Lemma lookup_in k l v : lookup k l = Some v -> In (k, v) l.
  Proof.
    induction l as [|[k' v'] r IH]; cbn; [discriminate|].
    destruct (k =? k') eqn:E; intros H.
    - apply N.eqb_eq in E. inv H. now left.
    - right. auto.
  Qed.

  Lemma lookup_none k l : lookup k l = None <-> ~ In k (map fst l).
  Proof.
    induction l as [|[k' v'] r IH]; cbn; [tauto|].
    destruct (k =? k') eqn:E.
    - apply N.eqb_eq in E. subst. split; [discriminate|]. intros H. exfalso. apply H. now left.
    - apply N.eqb_neq in E. rewrite IH. split; intros H; [intros [H1|H1]; [congruence|contradiction]|tauto].
  Qed.

  Lemma in_lookup k v l : NoDup (map fst l) -> In (k, v) l -> lookup k l = Some v.
  Proof.
    induction l as [|[k' v'] r IH]; cbn; [tauto|]. intros Hnd [H|H].
    - inv H. now rewrite N.eqb_refl.
    - inv Hnd. destruct (k =? k') eqn:E.
      + apply N.eqb_eq in E. subst. exfalso. apply H2. change k' with (fst (k', v)). now apply in_map.
      + auto.
  Qed.

  Lemma has_key_in k l : has_key k l = true <-> In k (map fst l).
  Proof.
    unfold has_key. destruct (lookup k l) eqn:E.
    - split; [|reflexivity]. intros _. apply lookup_in in E. change k with (fst (k, a)). now apply in_map.
    - apply lookup_none in E. split; [discriminate|contradiction].
  Qed.

  Lemma has_key_false k l : has_key k l = false <-> ~ In k (map fst l).
  Proof. rewrite <- has_key_in. destruct (has_key k l); split; congruence. Qed.

  Lemma keys_update k f l : map fst (update k f l) = map fst l.
  Proof.
    induction l as [|[k' v'] r IH]; cbn; [reflexivity|].
    destruct (k =? k'); cbn; [reflexivity|now rewrite IH].
  Qed.

  Lemma lookup_update_same k f l v : lookup k l = Some v -> lookup k (update k f l) = Some (f v).
  Proof.
    induction l as [|[k' v'] r IH]; cbn; [discriminate|].
    destruct (k =? k') eqn:E; cbn; rewrite E; [intros H; now inv H|auto].
  Qed.

  Lemma lookup_update_other k k2 f l : k2 <> k -> lookup k2 (update k f l) = lookup k2 l.
  Proof.
    intros Hne. induction l as [|[k' v'] r IH]; cbn; [reflexivity|].
    destruct (k =? k') eqn:E; cbn.
    - apply N.eqb_eq in E. subst. destruct (k2 =? k') eqn:E2; [apply N.eqb_eq in E2; congruence|reflexivity].
    - destruct (k2 =? k'); [reflexivity|exact IH].
  Qed.

  Lemma in_remove_key k kv l : In kv (remove_key k l) <-> In kv l /\ fst kv <> k.
  Proof.
    unfold remove_key. rewrite filter_In. split; intros [H1 H2]; split; try assumption.
    - apply negb_true_iff in H2. now apply N.eqb_neq in H2.
    - apply negb_true_iff. now apply N.eqb_neq.
  Qed.

  Lemma keys_remove_key k l x : In x (map fst (remove_key k l)) <-> In x (map fst l) /\ x <> k.
  Proof.
    rewrite !in_map_iff. split.
    - intros [kv [H1 H2]]. apply in_remove_key in H2. destruct H2 as [H2 H3]. subst. split; [now exists kv|assumption].
    - intros [[kv [H1 H2]] H3]. exists kv. split; [assumption|]. apply in_remove_key. subst. now split.
  Qed.

  Lemma NoDup_keys_filter (p : N * A -> bool) l : NoDup (map fst l) -> NoDup (map fst (filter p l)).
  Proof.
    induction l as [|kv r IH]; cbn; [intros; constructor|]. intros H. inv H.
    destruct (p kv); cbn; [constructor|]; auto.
    intros Hin. apply H2. apply in_map_iff in Hin. destruct Hin as [x [Hx1 Hx2]].
    apply filter_In in Hx2. destruct Hx2 as [Hx2 _]. rewrite <- Hx1. now apply in_map.
  Qed.

  Lemma lookup_remove_key_same k l : lookup k (remove_key k l) = None.
  Proof. apply lookup_none. intros H. apply keys_remove_key in H. now destruct H. Qed.

  Lemma lookup_remove_key_other k k2 l : k2 <> k -> lookup k2 (remove_key k l) = lookup k2 l.
  Proof.
    intros Hne. induction l as [|[k' v'] r IH]; cbn; [reflexivity|].
    destruct (k' =? k) eqn:E; cbn.
    - apply N.eqb_eq in E. subst. destruct (k2 =? k) eqn:E2; [apply N.eqb_eq in E2; congruence|exact IH].
    - destruct (k2 =? k'); [reflexivity|exact IH].
  Qed.

  Lemma lookup_app k l l2 : lookup k (l ++ l2) = match lookup k l with Some v => Some v | None => lookup k l2 end.
  Proof.
    induction l as [|[k' v'] r IH]; cbn; [reflexivity|]. destruct (k =? k'); [reflexivity|exact IH].
  Qed.

  Lemma NoDup_keys_app_new k v l : NoDup (map fst l) -> ~ In k (map fst l) -> NoDup (map fst (l ++ [(k, v)])).
  Proof.
    intros H1 H2. rewrite map_app. cbn. induction (map fst l) as [|y m IH]; cbn.
    - constructor; [intros []|constructor].
    - inv H1. constructor.
      + intros Hin. apply in_app_or in Hin. destruct Hin as [Hin|[Hin|[]]]; [contradiction|]. subst. apply H2. now left.
      + apply IH; [assumption|]. intros Hin. apply H2. now right.
  Qed.
End AssocLemmas.

(* ------------------------------------------------------------------ *)
(* Part 1.  One publish. *)

(* the specification of "who must get a copy" *)
Definition eligible (st : state) (px : pubctx) (sd : sid * psd) : bool :=
  (user_is_reader st (ss_uid (snd sd)) || ss_chan (snd sd)) &&
  negb (px_noecho px && (fst sd =? px_sid px)).

Definition skip_of (px : pubctx) : option sid := if px_noecho px then Some (px_sid px) else None.
Definition elig_skip (st : state) (skip : option sid) (sd : sid * psd) : bool :=
  negb (match skip with Some k => fst sd =? k | None => false end) &&
  (user_is_reader st (ss_uid (snd sd)) || ss_chan (snd sd)).

Lemma elig_skip_eligible st px sd : elig_skip st (skip_of px) sd = eligible st px sd.
Proof.
  unfold elig_skip, eligible, skip_of. destruct (px_noecho px); cbn.
  - now rewrite andb_comm.
  - now rewrite andb_true_r.
Qed.

Definition copy_of (st : state) (msg : frame) (sd : sid * psd) : sid * delivery :=
  (fst sd, if is_full st (fst sd) then Overflow else Sent (prepare st (snd sd) msg)).

Lemma bcast_loop_spec st skip msg l :
  bcast_loop st skip msg l = map (copy_of st msg) (filter (elig_skip st skip) l).
Proof.
  induction l as [|[s d] r IH]; cbn [bcast_loop filter map]; [reflexivity|].
  unfold elig_skip at 1. cbn [fst snd].
  destruct (match skip with Some k => s =? k | None => false end); cbn [negb andb]; [exact IH|].
  destruct (user_is_reader st (ss_uid d)); destruct (ss_chan d); cbn [negb andb orb map]; rewrite IH; reflexivity.
Qed.

Lemma fanout_all_spec st px :
  fanout_all st px = map (copy_of st (data_msg st px)) (filter (eligible st px) (st_sess st)).
Proof.
  unfold fanout_all. fold (skip_of px). rewrite bcast_loop_spec. f_equal.
  apply filter_ext. intros sd. apply elig_skip_eligible.
Qed.

Lemma fanout_all_keys st px :
  map fst (fanout_all st px) = map fst (filter (eligible st px) (st_sess st)).
Proof. rewrite fanout_all_spec, map_map. reflexivity. Qed.

Definition wf_sess (st : state) : Prop := NoDup (map fst (st_sess st)).
Definition wf_users (st : state) : Prop := NoDup (map fst (st_users st)).

Lemma exact_set st px :
  Permutation (map fst (fanout_all st px)) (map fst (filter (eligible st px) (st_sess st))) /\
  (wf_sess st -> NoDup (map fst (fanout_all st px))) /\
  (forall s, In s (map fst (fanout_all st px)) <->
             exists d, In (s, d) (st_sess st) /\ eligible st px (s, d) = true).
Proof.
  rewrite fanout_all_keys. split; [apply Permutation_refl|]. split.
  - intros H. now apply NoDup_keys_filter.
  - intros s. rewrite in_map_iff. split.
    + intros [[s' d] [H1 H2]]. cbn in H1. subst. apply filter_In in H2. now exists d.
    + intros [d [H1 H2]]. exists (s, d). split; [reflexivity|]. now apply filter_In.
Qed.

(* exactly one copy each: the number of entries for a session is 1 if it is attached and eligible, else 0 *)
Lemma count_keys_NoDup (l : list N) s : NoDup l -> count_occ N.eq_dec l s = if in_dec N.eq_dec s l then 1%nat else 0%nat.
Proof.
  intros H. destruct (in_dec N.eq_dec s l) as [Hin|Hin].
  - now apply NoDup_count_occ'.
  - now apply count_occ_not_In.
Qed.

Lemma one_copy_each st px (s : sid) :
  wf_sess st ->
  count_occ N.eq_dec (map fst (fanout_all st px)) s =
  match lookup s (st_sess st) with
  | Some d => if eligible st px (s, d) then 1%nat else 0%nat
  | None => 0%nat
  end.
Proof.
  intros Hwf. destruct (exact_set st px) as [_ [Hnd Hin]]. specialize (Hnd Hwf).
  rewrite count_keys_NoDup by assumption.
  destruct (in_dec N.eq_dec s (map fst (fanout_all st px))) as [H|H].
  - apply Hin in H. destruct H as [d [H1 H2]]. rewrite (in_lookup _ _ _ Hwf H1). cbv beta iota. now rewrite H2.
  - destruct (lookup s (st_sess st)) as [d|] eqn:E; [|reflexivity].
    destruct (eligible st px (s, d)) eqn:E2; [|reflexivity].
    exfalso. apply H. apply Hin. exists d. split; [now apply lookup_in|assumption].
Qed.

(* delivered copies and overflows *)
Lemma sent_map st msg l :
  sent (map (copy_of st msg) l) =
  map (fun sd => (fst sd, prepare st (snd sd) msg)) (filter (fun sd => negb (is_full st (fst sd))) l).
Proof.
  induction l as [|[s d] r IH]; [reflexivity|].
  cbn [map filter fst snd]. unfold copy_of at 1. cbn [fst snd].
  destruct (is_full st s); cbn [sent negb map fst snd]; rewrite IH; reflexivity.
Qed.

Lemma overflowed_map st msg l :
  overflowed (map (copy_of st msg) l) = map fst (filter (fun sd => is_full st (fst sd)) l).
Proof.
  induction l as [|[s d] r IH]; [reflexivity|].
  cbn [map filter fst snd]. unfold copy_of at 1. cbn [fst snd].
  destruct (is_full st s); cbn [overflowed map fst snd]; rewrite IH; reflexivity.
Qed.

Lemma delivered_set st px s f :
  In (s, f) (fanout st px) <->
  exists d, In (s, d) (st_sess st) /\ eligible st px (s, d) = true /\ is_full st s = false /\
            f = prepare st d (data_msg st px).
Proof.
  unfold fanout. rewrite fanout_all_spec, sent_map, in_map_iff. split.
  - intros [[s' d] [H1 H2]]. cbn in H1. inv H1. apply filter_In in H2. destruct H2 as [H2 H3].
    apply filter_In in H2. destruct H2 as [H2 H4]. cbn in H3. apply negb_true_iff in H3. now exists d.
  - intros [d [H1 [H2 [H3 H4]]]]. exists (s, d). subst. split; [reflexivity|].
    apply filter_In. split; [now apply filter_In|]. cbn. now rewrite H3.
Qed.

Lemma delivered_keys st px :
  map fst (fanout st px) =
  map fst (filter (fun sd => negb (is_full st (fst sd))) (filter (eligible st px) (st_sess st))).
Proof. unfold fanout. rewrite fanout_all_spec, sent_map, map_map. reflexivity. Qed.

Lemma delivered_NoDup st px : wf_sess st -> NoDup (map fst (fanout st px)).
Proof. intros H. rewrite delivered_keys. now do 2 apply NoDup_keys_filter. Qed.

Lemma overflow_set st px s :
  In s (overflowed (fanout_all st px)) <->
  exists d, In (s, d) (st_sess st) /\ eligible st px (s, d) = true /\ is_full st s = true.
Proof.
  rewrite fanout_all_spec, overflowed_map, in_map_iff. split.
  - intros [[s' d] [H1 H2]]. cbn in H1. subst. apply filter_In in H2. destruct H2 as [H2 H3].
    apply filter_In in H2. destruct H2 as [H2 H4]. now exists d.
  - intros [d [H1 [H2 H3]]]. exists (s, d). split; [reflexivity|]. apply filter_In. split; [now apply filter_In|exact H3].
Qed.

Lemma filter_all_true {A} (p : A -> bool) (l : list A) : (forall x, In x l -> p x = true) -> filter p l = l.
Proof.
  induction l as [|x r IH]; cbn; [reflexivity|]. intros H. rewrite (H x) by now left. f_equal. apply IH. intros y Hy. apply H. now right.
Qed.

(* no connection stuck: the delivered copies are exactly the eligible attached sessions *)
Lemma exact_set_no_overflow st px :
  (forall s, is_full st s = false) ->
  map fst (fanout st px) = map fst (filter (eligible st px) (st_sess st)) /\ overflowed (fanout_all st px) = [].
Proof.
  intros H. split.
  - rewrite delivered_keys. f_equal. apply filter_all_true. intros x _. now rewrite H.
  - rewrite fanout_all_spec, overflowed_map.
    assert (E : filter (fun sd => is_full st (fst sd)) (filter (eligible st px) (st_sess st)) = []).
    { induction (filter (eligible st px) (st_sess st)) as [|x r IH]; cbn; [reflexivity|]. now rewrite H. }
    now rewrite E.
Qed.

(* ---- acceptance ---- *)
Lemma publish_accepted st px :
  accepts st px = true ->
  publish st px = (PAccepted (st_lastid st + 1)%Z
                     (if px_hasid px then (if is_full st (px_sid px) then AckLost else AckSent (original st (px_author px))) else AckNone)
                     (fanout_all st px) (push_rcpt st),
                   fold_left drop_session (overflowed (fanout_all st px)) (set_lastid (st_lastid st + 1)%Z st)).
Proof.
  unfold accepts, publish. intros H. apply andb_true_iff in H. destruct H as [H H3]. apply andb_true_iff in H. destruct H as [H1 H2].
  rewrite H1. cbn [negb]. apply negb_true_iff in H2. rewrite H2, H3. reflexivity.
Qed.

Lemma publish_refused st px :
  accepts st px = false ->
  snd (publish st px) = st /\
  (fst (publish st px) = PNotAttached \/ fst (publish st px) = PCallPath \/ fst (publish st px) = PDenied).
Proof.
  unfold accepts, publish. intros H.
  destruct (has_key (px_sid px) (st_sess st)); cbn [negb]; [|split; auto].
  destruct (has_key K_WEBRTC (scrub px (px_head px))); [split; auto|].
  cbn in H. rewrite H. cbn. split; auto.
Qed.

Lemma accepted_iff st px :
  (exists q a c p, fst (publish st px) = PAccepted q a c p) <-> accepts st px = true.
Proof.
  split.
  - intros [q [a [c [p H]]]]. destruct (accepts st px) eqn:E; [reflexivity|].
    destruct (publish_refused st px E) as [_ [H1|[H1|H1]]]; rewrite H1 in H; discriminate.
  - intros H. rewrite (publish_accepted st px H). cbn. eauto.
Qed.

(* ---- content, id and headers ---- *)
Lemma prepare_payload st d msg :
  f_seq (prepare st d msg) = f_seq msg /\ f_content (prepare st d msg) = f_content msg /\
  f_head (prepare st d msg) = f_head msg.
Proof.
  unfold prepare. destruct (st_kind st); destruct (ss_chan d); try destruct (ss_uid d =? 0); cbn; auto.
Qed.

Lemma hdel_idem k (h : head) : hdel k (hdel k h) = hdel k h.
Proof.
  unfold hdel, remove_key. induction h as [|kv r IH]; cbn; [reflexivity|].
  destruct (negb (fst kv =? k)) eqn:E; cbn; [rewrite E; now f_equal|exact IH].
Qed.

Lemma hdel_hset k v (h : head) : hdel k (hset k v h) = hdel k h.
Proof. unfold hset, hdel at 1, remove_key. cbn. rewrite N.eqb_refl. cbn. apply hdel_idem. Qed.

Lemma hget_hdel_same k (h : head) : hget k (hdel k h) = None.
Proof. apply lookup_remove_key_same. Qed.

Lemma hget_hdel_other k k2 (h : head) : k2 <> k -> hget k2 (hdel k h) = hget k2 h.
Proof. apply lookup_remove_key_other. Qed.

Lemma hget_hset_same k v (h : head) : hget k (hset k v h) = Some v.
Proof. unfold hget, hset. cbn [lookup]. now rewrite N.eqb_refl. Qed.

Lemma hget_hset_other k k2 v (h : head) : k2 <> k -> hget k2 (hset k v h) = hget k2 h.
Proof.
  intros Hne. unfold hget, hset. cbn [lookup]. destruct (k2 =? k) eqn:E; [apply N.eqb_eq in E; congruence|].
  now apply lookup_remove_key_other.
Qed.

Definition obo (px : pubctx) : bool := negb (px_author px =? px_real px).

Lemma scrub_twice px h :
  hdel K_SENDER (scrub px (scrub px h)) = hdel K_SENDER h /\
  hget K_SENDER (scrub px (scrub px h)) = (if obo px then Some (px_real px) else None) /\
  (forall k, k <> K_SENDER -> hget k (scrub px (scrub px h)) = hget k h).
Proof.
  unfold scrub, obo. destruct (negb (px_author px =? px_real px)).
  - split; [now rewrite !hdel_hset|]. split.
    + apply hget_hset_same.
    + intros k Hk. now rewrite !hget_hset_other by assumption.
  - split; [now rewrite !hdel_idem|]. split.
    + apply hget_hdel_same.
    + intros k Hk. now rewrite !hget_hdel_other by assumption.
Qed.

Lemma copy_payload st px s f :
  In (s, f) (fanout st px) ->
  f_seq f = (st_lastid st + 1)%Z /\ f_content f = px_content px /\
  hdel K_SENDER (f_head f) = hdel K_SENDER (px_head px) /\
  hget K_SENDER (f_head f) = (if obo px then Some (px_real px) else None) /\
  (forall k, k <> K_SENDER -> hget k (f_head f) = hget k (px_head px)).
Proof.
  intros H. apply delivered_set in H. destruct H as [d [_ [_ [_ H]]]]. subst f.
  destruct (prepare_payload st d (data_msg st px)) as [H1 [H2 H3]]. rewrite H1, H2, H3. cbn.
  destruct (scrub_twice px (px_head px)) as [H4 [H5 H6]]. auto.
Qed.

(* every copy of one publish carries the same payload (the Head map is shared, nothing writes to it) *)
Lemma copies_agree st px s1 f1 s2 f2 :
  In (s1, f1) (fanout st px) -> In (s2, f2) (fanout st px) ->
  f_seq f1 = f_seq f2 /\ f_content f1 = f_content f2 /\ f_head f1 = f_head f2.
Proof.
  intros H1 H2. apply delivered_set in H1. apply delivered_set in H2.
  destruct H1 as [d1 [_ [_ [_ H1]]]]. destruct H2 as [d2 [_ [_ [_ H2]]]]. subst.
  destruct (prepare_payload st d1 (data_msg st px)) as [A1 [A2 A3]].
  destruct (prepare_payload st d2 (data_msg st px)) as [B1 [B2 B3]]. rewrite A1, A2, A3, B1, B2, B3. auto.
Qed.

(* ---- author ---- *)
Lemma prepare_from st d msg : f_from (prepare st d msg) = if ss_chan d then 0 else f_from msg.
Proof.
  unfold prepare. destruct (st_kind st); destruct (ss_chan d); try destruct (ss_uid d =? 0); cbn; auto.
Qed.

(* a channel reader: the session is a channel subscription, or the user it acts for is cached as one *)
Definition chan_reader (st : state) (d : psd) : bool := ss_chan d || user_is_chan st (ss_uid d).
(* the two notions agree *)
Definition chan_consistent (st : state) : Prop :=
  forall s d, In (s, d) (st_sess st) -> ss_chan d = user_is_chan st (ss_uid d).

Lemma author_by_session st px s f :
  In (s, f) (fanout st px) ->
  exists d, In (s, d) (st_sess st) /\ f_from f = if ss_chan d then 0 else px_author px.
Proof.
  intros H. apply delivered_set in H. destruct H as [d [H1 [_ [_ H]]]]. subst f. exists d. split; [assumption|].
  rewrite prepare_from. reflexivity.
Qed.

Definition author_statement : Prop :=
  forall st px s f, wf_sess st -> In (s, f) (fanout st px) ->
    exists d, In (s, d) (st_sess st) /\ f_from f = if chan_reader st d then 0 else px_author px.

Lemma author_partial st px s f :
  chan_consistent st -> In (s, f) (fanout st px) ->
  exists d, In (s, d) (st_sess st) /\ f_from f = if chan_reader st d then 0 else px_author px.
Proof.
  intros Hc H. destruct (author_by_session st px s f H) as [d [H1 H2]]. exists d. split; [assumption|].
  unfold chan_reader. rewrite <- (Hc s d H1). now rewrite orb_diag.
Qed.

(* ---- topic name as seen ---- *)
Lemma prepare_topic st d msg :
  f_topic (prepare st d msg) =
  match st_kind st with
  | KP2P => if ss_uid d =? 0 then f_topic msg else original st (ss_uid d)
  | KChn => if ss_chan d then TChn else original st (ss_uid d)
  | KGrp => f_topic msg
  end.
Proof.
  unfold prepare. destruct (st_kind st); destruct (ss_chan d); try destruct (ss_uid d =? 0); cbn; auto.
Qed.

Lemma name_chn st px s f :
  st_kind st = KChn -> In (s, f) (fanout st px) ->
  exists d, In (s, d) (st_sess st) /\ f_topic f = if chan_reader st d then TChn else TGrp.
Proof.
  intros Hk H. apply delivered_set in H. destruct H as [d [H1 [_ [_ H]]]]. subst f. exists d. split; [assumption|].
  rewrite prepare_topic, Hk. unfold chan_reader, original. rewrite Hk.
  destruct (ss_chan d); cbn; [reflexivity|]. destruct (user_is_chan st (ss_uid d)); reflexivity.
Qed.

Lemma name_p2p st px s f :
  st_kind st = KP2P -> In (s, f) (fanout st px) ->
  exists d, In (s, d) (st_sess st) /\
    (forall p, ss_uid d <> 0 -> lookup (ss_uid d) (st_users st) = Some p -> f_topic f = TUsr (pu_peer p)).
Proof.
  intros Hk H. apply delivered_set in H. destruct H as [d [H1 [_ [_ H]]]]. subst f. exists d. split; [assumption|].
  intros p Hz Hp. rewrite prepare_topic, Hk. apply N.eqb_neq in Hz. rewrite Hz. unfold original. now rewrite Hk, Hp.
Qed.

Lemma name_grp st px s f :
  st_kind st = KGrp -> In (s, f) (fanout st px) -> f_topic f = px_orig px.
Proof.
  intros Hk H. apply delivered_set in H. destruct H as [d [_ [_ [_ H]]]]. subst f.
  rewrite prepare_topic, Hk. reflexivity.
Qed.

(* ---- push ---- *)
Lemma push_to_spec st u :
  In u (push_to st) <-> exists p, In (u, p) (st_users st) /\ push_wanted p = true.
Proof.
  unfold push_to. rewrite in_map_iff. split.
  - intros [[u' p] [H1 H2]]. cbn in H1. subst. apply filter_In in H2. now exists p.
  - intros [p [H1 H2]]. exists (u, p). split; [reflexivity|]. now apply filter_In.
Qed.

Lemma push_to_NoDup st : wf_users st -> NoDup (push_to st).
Proof. intros H. unfold push_to. now apply NoDup_keys_filter. Qed.

Lemma push_rcpt_spec st :
  let ch := match st_kind st with KChn => true | _ => false end in
  match push_rcpt st with
  | Some (to, c) => to = push_to st /\ c = ch /\ (to <> [] \/ ch = true)
  | None => push_to st = [] /\ ch = false
  end.
Proof.
  unfold push_rcpt. destruct (push_to st) as [|u r] eqn:E.
  - destruct (st_kind st); cbn; auto.
  - cbn. split; [reflexivity|]. split; [reflexivity|]. left. discriminate.
Qed.

Lemma push_wanted_spec p :
  push_wanted p = true <->
  has (eff p) bR = true /\ has (eff p) bP = true /\ pu_deleted p = false /\ pu_ischan p = false.
Proof.
  unfold push_wanted. rewrite !andb_true_iff, !negb_true_iff. tauto.
Qed.

(* ------------------------------------------------------------------ *)
(* Part 2.  Histories. *)

(* ---- the attached-session map stays a map; the id counter never goes back ---- *)
Lemma drop_session_sess st s :
  st_sess (drop_session st s) = remove_key s (st_sess st) /\ st_lastid (drop_session st s) = st_lastid st /\
  st_kind (drop_session st s) = st_kind st.
Proof.
  unfold drop_session. destruct (lookup s (st_sess st)) as [d|] eqn:E.
  - destruct (ss_chan d); cbn; auto.
  - split; [|auto]. symmetry. unfold remove_key. apply filter_all_true. intros [k v] Hin. cbn.
    apply negb_true_iff, N.eqb_neq. intros ->. apply lookup_none in E. apply E. change s with (fst (s, v)). now apply in_map.
Qed.

Lemma wf_remove_key st s : wf_sess st -> NoDup (map fst (remove_key s (st_sess st))).
Proof. intros H. unfold remove_key. now apply NoDup_keys_filter. Qed.

Lemma wf_drop_session st s : wf_sess st -> wf_sess (drop_session st s).
Proof. intros H. unfold wf_sess. destruct (drop_session_sess st s) as [-> _]. now apply wf_remove_key. Qed.

Lemma fold_drop_sessions l : forall st,
  (wf_sess st -> wf_sess (fold_left drop_session l st)) /\
  st_lastid (fold_left drop_session l st) = st_lastid st /\
  st_kind (fold_left drop_session l st) = st_kind st /\
  (forall k, In k (map fst (st_sess (fold_left drop_session l st))) <-> In k (map fst (st_sess st)) /\ ~ In k l).
Proof.
  induction l as [|s r IH]; intros st; cbn [fold_left].
  - repeat split; auto; tauto.
  - destruct (IH (drop_session st s)) as [H1 [H2 [H3 H4]]]. destruct (drop_session_sess st s) as [E1 [E2 E3]].
    split; [intros H; apply H1; now apply wf_drop_session|]. split; [congruence|]. split; [congruence|].
    intros k. rewrite H4, E1, keys_remove_key. cbn [In]. split.
    + intros [[Ha Hb] Hc]. split; [assumption|]. intros [Hd|Hd]; [congruence|contradiction].
    + intros [Ha Hb]. split; [split; [assumption|]|]; intros Hc; apply Hb; [left; congruence|now right].
Qed.

Lemma evict_user_sess st u b :
  st_sess (evict_user st u b) = filter (fun sd => negb (ss_uid (snd sd) =? u)) (st_sess st) /\
  st_lastid (evict_user st u b) = st_lastid st /\ st_kind (evict_user st u b) = st_kind st.
Proof. unfold evict_user. cbn. auto. Qed.

Lemma wf_evict_user st u b : wf_sess st -> wf_sess (evict_user st u b).
Proof. intros H. unfold wf_sess. destruct (evict_user_sess st u b) as [-> _]. now apply NoDup_keys_filter. Qed.

Lemma add_session_sess st s u c :
  st_sess (add_session st s u c) = (if has_key s (st_sess st) then st_sess st else st_sess st ++ [(s, mkPsd u c)]) /\
  st_lastid (add_session st s u c) = st_lastid st /\ st_kind (add_session st s u c) = st_kind st.
Proof. unfold add_session. destruct (has_key s (st_sess st)); cbn; auto. Qed.

Lemma wf_add_session st s u c : wf_sess st -> wf_sess (add_session st s u c).
Proof.
  intros H. unfold wf_sess. destruct (add_session_sess st s u c) as [-> _].
  destruct (has_key s (st_sess st)) eqn:E; [assumption|]. apply NoDup_keys_app_new; [assumption|]. now apply has_key_false.
Qed.

Lemma wf_set_users v st : wf_sess (set_users v st) <-> wf_sess st. Proof. reflexivity. Qed.
Lemma wf_set_chanrows v st : wf_sess (set_chanrows v st) <-> wf_sess st. Proof. reflexivity. Qed.
Lemma wf_set_gone v st : wf_sess (set_gone v st) <-> wf_sess st. Proof. reflexivity. Qed.
Lemma wf_set_full v st : wf_sess (set_full v st) <-> wf_sess st. Proof. reflexivity. Qed.
Lemma wf_set_lastid v st : wf_sess (set_lastid v st) <-> wf_sess st. Proof. reflexivity. Qed.

(* what every request other than a publish leaves alone *)
Definition frame_ok (st st' : state) : Prop :=
  (wf_sess st -> wf_sess st') /\ st_lastid st' = st_lastid st /\ st_kind st' = st_kind st.

Lemma frame_refl st : frame_ok st st. Proof. unfold frame_ok. auto. Qed.
Lemma frame_trans a b c : frame_ok a b -> frame_ok b c -> frame_ok a c.
Proof. unfold frame_ok. intros [A1 [A2 A3]] [B1 [B2 B3]]. repeat split; [auto|congruence|congruence]. Qed.
Lemma frame_set_users v st : frame_ok st (set_users v st). Proof. unfold frame_ok. auto. Qed.
Lemma frame_set_chanrows v st : frame_ok st (set_chanrows v st). Proof. unfold frame_ok. auto. Qed.
Lemma frame_set_gone v st : frame_ok st (set_gone v st). Proof. unfold frame_ok. auto. Qed.
Lemma frame_set_full v st : frame_ok st (set_full v st). Proof. unfold frame_ok. auto. Qed.
Lemma frame_evict st u b : frame_ok st (evict_user st u b).
Proof. destruct (evict_user_sess st u b) as [_ [H2 H3]]. split; [apply wf_evict_user|auto]. Qed.
Lemma frame_add st s u c : frame_ok st (add_session st s u c).
Proof. destruct (add_session_sess st s u c) as [_ [H2 H3]]. split; [apply wf_add_session|auto]. Qed.
Lemma frame_drop st s : frame_ok st (drop_session st s).
Proof. destruct (drop_session_sess st s) as [_ [H2 H3]]. split; [apply wf_drop_session|auto]. Qed.
Lemma frame_remove_sess st s : frame_ok st (set_sess (remove_key s (st_sess st)) st).
Proof. split; [intros H; now apply wf_remove_key|auto]. Qed.

Ltac frame_step :=
  first [ apply frame_refl
        | eapply frame_trans; [|apply frame_set_users]
        | eapply frame_trans; [|apply frame_set_chanrows]
        | eapply frame_trans; [|apply frame_set_gone]
        | eapply frame_trans; [|apply frame_set_full]
        | eapply frame_trans; [|apply frame_evict]
        | eapply frame_trans; [|apply frame_add]
        | eapply frame_trans; [|apply frame_drop]
        | eapply frame_trans; [|apply frame_remove_sess] ].
Ltac frame_solve := repeat frame_step.

Lemma frame_attach st s u c st' : attach st s u c = Some st' -> frame_ok st st'.
Proof. unfold attach. intros H. repeat break_match_hyp; inv H; frame_solve. Qed.
Lemma frame_detach st s u c st' : detach st s u c = Some st' -> frame_ok st st'.
Proof. unfold detach. intros H. repeat break_match_hyp; inv H; frame_solve. Qed.
Lemma frame_unsub st s u c st' : unsub st s u c = Some st' -> frame_ok st st'.
Proof. unfold unsub. intros H. repeat break_match_hyp; inv H; frame_solve. Qed.
Lemma frame_set_want st u m st' : set_want st u m = Some st' -> frame_ok st st'.
Proof. unfold set_want. intros H. repeat break_match_hyp; inv H; frame_solve. Qed.
Lemma frame_set_given st h u m st' : set_given st h u m = Some st' -> frame_ok st st'.
Proof. unfold set_given. intros H. repeat break_match_hyp; inv H; frame_solve. Qed.
Lemma frame_evict_op st h u st' : evict st h u = Some st' -> frame_ok st st'.
Proof. unfold evict. intros H. repeat break_match_hyp; inv H; frame_solve. Qed.

(* one request: the session map stays a map, the id counter moves forward by at most one, and every
   {data} frame it emits carries the new id, at most one per session *)
Definition next_state (st : state) (ost : option state) : state := match ost with Some s1 => s1 | None => st end.

Lemma step_effect st o ost res :
  step st o = (ost, res) ->
  let st1 := next_state st ost in
  (wf_sess st -> wf_sess st1) /\ st_kind st1 = st_kind st /\
  (st_lastid st <= st_lastid st1)%Z /\
  (forall s f, In (s, f) (emitted res) -> f_seq f = (st_lastid st + 1)%Z /\ st_lastid st1 = (st_lastid st + 1)%Z) /\
  (wf_sess st -> NoDup (map fst (emitted res))).
Proof.
  intros H.
  assert (Hframe : forall st', frame_ok st st' -> res = None -> ost = Some st' \/ (ost = None /\ st' = st) ->
          let st1 := next_state st ost in
          (wf_sess st -> wf_sess st1) /\ st_kind st1 = st_kind st /\ (st_lastid st <= st_lastid st1)%Z /\
          (forall s f, In (s, f) (emitted res) -> f_seq f = (st_lastid st + 1)%Z /\ st_lastid st1 = (st_lastid st + 1)%Z) /\
          (wf_sess st -> NoDup (map fst (emitted res)))).
  { intros st' [F1 [F2 F3]] -> Hst. assert (E : next_state st ost = st') by (destruct Hst as [->|[-> ->]]; reflexivity).
    cbn zeta. rewrite E. cbn [emitted]. split; [assumption|]. split; [assumption|]. split; [lia|].
    split; [intros ? ? []|]. intros _. constructor. }
  assert (Hopt : forall (r : option state), (forall st', r = Some st' -> frame_ok st st') ->
          exists st', frame_ok st st' /\ (r = Some st' \/ (r = None /\ st' = st))).
  { intros [x|] Hx; [exists x; split; auto|exists st; split; [apply frame_refl|auto]]. }
  destruct o; cbn [step] in H.
  - inv H. destruct (Hopt (attach st s u chan) (frame_attach st s u chan)) as [st' [Hf Hs]]. now apply (Hframe st').
  - inv H. destruct (Hopt (detach st s u chan) (frame_detach st s u chan)) as [st' [Hf Hs]]. now apply (Hframe st').
  - inv H. apply (Hframe (set_full (rm s (st_full st)) (drop_session st s))); auto. frame_solve.
  - inv H. destruct (Hopt (unsub st s u chan) (frame_unsub st s u chan)) as [st' [Hf Hs]]. now apply (Hframe st').
  - inv H. destruct (Hopt (set_want st u m) (frame_set_want st u m)) as [st' [Hf Hs]]. now apply (Hframe st').
  - inv H. destruct (Hopt (set_given st h u m) (frame_set_given st h u m)) as [st' [Hf Hs]]. now apply (Hframe st').
  - inv H. destruct (Hopt (evict st h u) (frame_evict_op st h u)) as [st' [Hf Hs]]. now apply (Hframe st').
  - inv H. apply (Hframe (if is_full st s then st else set_full (s :: st_full st) st)); auto.
    destruct (is_full st s); frame_solve.
  - inv H. apply (Hframe (set_full (rm s (st_full st)) st)); auto. frame_solve.
  - destruct (publish st px) as [r st'] eqn:E. inv H. cbn [next_state].
    destruct (accepts st px) eqn:Ea.
    + rewrite (publish_accepted st px Ea) in E. inv E. cbn [emitted].
      destruct (fold_drop_sessions (overflowed (fanout_all st px)) (set_lastid (st_lastid st + 1)%Z st)) as [F1 [F2 [F3 _]]].
      rewrite F2, F3. cbn [st_lastid st_kind set_lastid]. split; [auto|]. split; [reflexivity|]. split; [lia|]. split.
      * intros s f Hin. fold (fanout st px) in Hin. destruct (copy_payload st px s f Hin) as [-> _]. split; reflexivity.
      * intros Hwf. fold (fanout st px). now apply delivered_NoDup.
    + destruct (publish_refused st px Ea) as [R1 R2]. rewrite E in R1, R2. cbn in R1, R2. subst st'.
      assert (Hem : emitted (Some r) = []) by (destruct R2 as [ -> | [ -> | -> ] ]; reflexivity).
      rewrite Hem. split; [auto|]. split; [reflexivity|]. split; [lia|]. split; [intros ? ? []|]. intros _. constructor.
Qed.

Definition frames_to (s : sid) (tr : list (sid * frame)) : list frame :=
  map snd (filter (fun x => fst x =? s) tr).

Lemma frames_to_app s a b : frames_to s (a ++ b) = frames_to s a ++ frames_to s b.
Proof. unfold frames_to. now rewrite filter_app, map_app. Qed.

Lemma frames_to_in s f tr : In f (frames_to s tr) -> In (s, f) tr.
Proof.
  unfold frames_to. rewrite in_map_iff. intros [[s' f'] [H1 H2]]. cbn in H1. subst. apply filter_In in H2.
  destruct H2 as [H2 H3]. cbn in H3. apply N.eqb_eq in H3. now subst.
Qed.

Lemma frames_to_single s (tr : list (sid * frame)) :
  NoDup (map fst tr) -> frames_to s tr = [] \/ exists f, frames_to s tr = [f].
Proof.
  induction tr as [|[k f] r IH]; cbn; [auto|]. intros H. inv H. unfold frames_to. cbn [filter fst].
  destruct (k =? s) eqn:E.
  - apply N.eqb_eq in E. subst. right. exists f. cbn [map snd]. f_equal.
    fold (frames_to s r). destruct (frames_to s r) as [|g t] eqn:Eg; [reflexivity|].
    exfalso. apply H2. assert (Hin : In g (frames_to s r)) by (rewrite Eg; now left).
    apply frames_to_in in Hin. change s with (fst (s, g)). now apply in_map.
  - apply IH. assumption.
Qed.

Lemma run_order ops : forall st,
  wf_sess st ->
  let st' := fst (run st ops) in
  let tr := snd (run st ops) in
  wf_sess st' /\ (st_lastid st <= st_lastid st')%Z /\
  (forall s f, In (s, f) tr -> (st_lastid st < f_seq f <= st_lastid st')%Z) /\
  (forall s, StronglySorted Z.lt (map f_seq (frames_to s tr))).
Proof.
  induction ops as [|o r IH]; intros st Hwf; cbn [run].
  - cbn. split; [assumption|]. split; [lia|]. split; [intros ? ? []|]. intros s. constructor.
  - destruct (step st o) as [ost res] eqn:E. pose proof (step_effect st o ost res E) as Hs. cbn zeta in Hs.
    fold (next_state st ost). set (st1 := next_state st ost) in *.
    destruct Hs as [S1 [S2 [S3 [S4 S5]]]]. specialize (IH st1 (S1 Hwf)). cbn zeta in IH.
    destruct (run st1 r) as [st2 tr] eqn:Er. cbn [fst snd] in *. destruct IH as [I1 [I2 [I3 I4]]].
    split; [assumption|]. split; [lia|]. split.
    + intros s f Hin. apply in_app_or in Hin. destruct Hin as [Hin|Hin].
      * destruct (S4 s f Hin) as [-> Hl]. lia.
      * specialize (I3 s f Hin). lia.
    + intros s. rewrite frames_to_app, map_app.
      destruct (frames_to_single s (emitted res) (S5 Hwf)) as [->|[f Hf]]; [cbn; apply I4|].
      rewrite Hf. cbn [map app]. constructor; [apply I4|].
      apply Forall_forall. intros q Hq. apply in_map_iff in Hq. destruct Hq as [g [<- Hg]].
      apply frames_to_in in Hg. specialize (I3 s g Hg).
      assert (Hin : In f (frames_to s (emitted res))) by (rewrite Hf; now left).
      apply frames_to_in in Hin. destruct (S4 s f Hin) as [-> Hl]. lia.
Qed.

(* ------------------------------------------------------------------ *)
(* every attached session acts for a current (not deleted) subscriber *)

Lemma lookup_upsert_same u f l :
  lookup u (upsert u f l) = Some (f (match lookup u l with Some p => p | None => zero_pud end)).
Proof.
  unfold upsert, has_key. destruct (lookup u l) as [p|] eqn:E.
  - now apply lookup_update_same.
  - rewrite lookup_app, E. cbn. now rewrite N.eqb_refl.
Qed.

Lemma lookup_upsert_other u u2 f l : u2 <> u -> lookup u2 (upsert u f l) = lookup u2 l.
Proof.
  intros Hne. unfold upsert. destruct (has_key u l).
  - now apply lookup_update_other.
  - rewrite lookup_app. destruct (lookup u2 l); [reflexivity|]. cbn.
    destruct (u2 =? u) eqn:E; [apply N.eqb_eq in E; congruence|reflexivity].
Qed.

Definition cnt (u : uid) (l : list (sid * psd)) : nat := length (filter (fun sd => ss_uid (snd sd) =? u) l).

Lemma cnt_filter_le u (q : sid * psd -> bool) l : (cnt u (filter q l) <= cnt u l)%nat.
Proof.
  unfold cnt. induction l as [|x r IH]; cbn; [lia|].
  destruct (q x); cbn; destruct (ss_uid (snd x) =? u); cbn; lia.
Qed.

Lemma cnt_filter_lt u (q : sid * psd -> bool) l x :
  In x l -> ss_uid (snd x) = u -> q x = false -> (cnt u (filter q l) + 1 <= cnt u l)%nat.
Proof.
  unfold cnt. induction l as [|y r IH]; cbn; [tauto|]. intros [->|Hin] Hu Hq.
  - rewrite Hq. rewrite Hu, N.eqb_refl. cbn. pose proof (cnt_filter_le u q r). unfold cnt in H. lia.
  - specialize (IH Hin Hu Hq). destruct (q y); cbn; destruct (ss_uid (snd y) =? u); cbn; lia.
Qed.

Lemma cnt_filter_uid u l : cnt u (filter (fun sd => negb (ss_uid (snd sd) =? u)) l) = 0%nat.
Proof.
  unfold cnt. induction l as [|y r IH]; cbn; [reflexivity|].
  destruct (ss_uid (snd y) =? u) eqn:E; cbn; [exact IH|]. now rewrite E.
Qed.

Lemma cnt_app u l s u2 c : cnt u (l ++ [(s, mkPsd u2 c)]) = (cnt u l + (if (u2 =? u)%N then 1 else 0))%nat.
Proof. unfold cnt. rewrite filter_app, app_length. cbn. destruct (u2 =? u); reflexivity. Qed.

Lemma cnt_zero u l : (forall s d, In (s, d) l -> ss_uid d <> u) -> cnt u l = 0%nat.
Proof.
  unfold cnt. induction l as [|[s d] r IH]; cbn; [reflexivity|]. intros H.
  destruct (ss_uid d =? u) eqn:E; [apply N.eqb_eq in E; exfalso; apply (H s d); auto|].
  apply IH. intros s' d' Hin. apply (H s' d'). now right.
Qed.

Definition att_ok (st : state) : Prop :=
  forall s d, In (s, d) (st_sess st) -> exists p, lookup (ss_uid d) (st_users st) = Some p /\ pu_deleted p = false.
Definition online_ok (st : state) : Prop :=
  forall u, (Z.of_nat (cnt u (st_sess st)) <= pu_online (get_pud st u))%Z.
Definition inv (st : state) : Prop := wf_sess st /\ att_ok st /\ online_ok st.

Lemma inv_same_core st st' :
  st_sess st' = st_sess st -> st_users st' = st_users st -> inv st -> inv st'.
Proof.
  unfold inv, wf_sess, att_ok, online_ok, get_pud. intros -> ->. tauto.
Qed.

Lemma inv_set_full v st : inv st -> inv (set_full v st). Proof. now apply inv_same_core. Qed.
Lemma inv_set_chanrows v st : inv st -> inv (set_chanrows v st). Proof. now apply inv_same_core. Qed.
Lemma inv_set_gone v st : inv st -> inv (set_gone v st). Proof. now apply inv_same_core. Qed.
Lemma inv_set_lastid v st : inv st -> inv (set_lastid v st). Proof. now apply inv_same_core. Qed.

(* changing the permission bits of one user *)
Lemma inv_update_modes st u w g :
  inv st -> inv (set_users (update u (set_pud_modes w g) (st_users st)) st).
Proof.
  intros [H1 [H2 H3]]. split; [exact H1|]. split.
  - intros s d Hin. destruct (H2 s d Hin) as [p [Hp Hd]]. cbn [st_users set_users].
    destruct (N.eq_dec (ss_uid d) u) as [E|E].
    + rewrite E in *. rewrite (lookup_update_same _ _ _ _ Hp). eexists. split; [reflexivity|]. exact Hd.
    + rewrite lookup_update_other by assumption. eauto.
  - intros u2. specialize (H3 u2). unfold get_pud in *. cbn [st_users st_sess set_users].
    destruct (N.eq_dec u2 u) as [E|E].
    + subst. destruct (lookup u (st_users st)) as [p|] eqn:Ep.
      * rewrite (lookup_update_same _ _ _ _ Ep). exact H3.
      * assert (En : lookup u (update u (set_pud_modes w g) (st_users st)) = None).
        { apply lookup_none. rewrite keys_update. now apply lookup_none. }
        now rewrite En.
    + now rewrite lookup_update_other by assumption.
Qed.

Lemma inv_evict_user st u b : inv st -> inv (evict_user st u b).
Proof.
  intros [H1 [H2 H3]]. split; [now apply wf_evict_user|].
  assert (Hsess : st_sess (evict_user st u b) = filter (fun sd => negb (ss_uid (snd sd) =? u)) (st_sess st)) by reflexivity.
  assert (Hother : forall u2, u2 <> u -> lookup u2 (st_users (evict_user st u b)) = lookup u2 (st_users st)).
  { intros u2 Hne. unfold evict_user. cbn [st_users set_sess set_users]. destruct b.
    - destruct (st_kind st); [now apply lookup_remove_key_other|now apply lookup_remove_key_other|now apply lookup_upsert_other].
    - destruct (lookup u (st_users st)) as [p|]; [|reflexivity].
      destruct (pu_ischan p); [now apply lookup_remove_key_other|now apply lookup_update_other]. }
  split.
  - intros s d Hin. rewrite Hsess in Hin. apply filter_In in Hin. destruct Hin as [Hin Hne]. cbn in Hne.
    apply negb_true_iff, N.eqb_neq in Hne. rewrite Hother by assumption. exact (H2 s d Hin).
  - intros u2. rewrite Hsess. destruct (N.eq_dec u2 u) as [E|E].
    + subst. rewrite cnt_filter_uid. unfold get_pud, evict_user. cbn [st_users set_sess set_users]. destruct b.
      * destruct (st_kind st); try (rewrite lookup_remove_key_same; cbn; lia). rewrite lookup_upsert_same. cbn. lia.
      * destruct (lookup u (st_users st)) as [p|] eqn:Ep; [|rewrite Ep; cbn; lia].
        destruct (pu_ischan p); [rewrite lookup_remove_key_same; cbn; lia|].
        rewrite (lookup_update_same _ _ _ _ Ep). cbn. lia.
    + unfold get_pud. rewrite Hother by assumption. specialize (H3 u2). unfold get_pud in H3.
      pose proof (cnt_filter_le u2 (fun sd => negb (ss_uid (snd sd) =? u)) (st_sess st)). lia.
Qed.

Lemma inv_add_session st s u c :
  inv st -> (forall p, lookup u (st_users st) = Some p -> pu_deleted p = false) -> inv (add_session st s u c).
Proof.
  intros [H1 [H2 H3]] Hu. split; [now apply wf_add_session|].
  assert (Husers : st_users (add_session st s u c) =
                   upsert u (fun p => set_pud_online (pu_online p + 1)%Z p) (st_users st)).
  { unfold add_session. destruct (has_key s (st_sess st)); reflexivity. }
  destruct (add_session_sess st s u c) as [Hsess _]. split.
  - intros s' d Hin. rewrite Husers. rewrite Hsess in Hin.
    assert (Hcase : In (s', d) (st_sess st) \/ d = mkPsd u c).
    { destruct (has_key s (st_sess st)); [now left|]. apply in_app_or in Hin. destruct Hin as [Hin|[Hin|[]]]; [now left|].
      right. now inv Hin. }
    destruct (N.eq_dec (ss_uid d) u) as [E|E].
    + rewrite E, lookup_upsert_same. eexists. split; [reflexivity|]. cbn.
      destruct (lookup u (st_users st)) as [p|] eqn:Ep; [now apply Hu|reflexivity].
    + rewrite lookup_upsert_other by assumption. destruct Hcase as [Hc|Hc]; [exact (H2 _ _ Hc)|]. subst d. cbn in E. congruence.
  - intros u2. unfold get_pud. rewrite Husers, Hsess. specialize (H3 u2). unfold get_pud in H3.
    destruct (N.eq_dec u2 u) as [E|E].
    + subst. rewrite lookup_upsert_same. cbn [pu_online set_pud_online].
      destruct (has_key s (st_sess st)); [|rewrite cnt_app, N.eqb_refl]; destruct (lookup u (st_users st)); cbn in *; lia.
    + rewrite lookup_upsert_other by assumption.
      destruct (has_key s (st_sess st)); [exact H3|]. rewrite cnt_app.
      destruct (u =? u2) eqn:E2; [apply N.eqb_eq in E2; congruence|]. lia.
Qed.

Lemma remove_key_as_filter {A} (k : N) (l : list (N * A)) :
  remove_key k l = filter (fun kv => negb (fst kv =? k)) l.
Proof. reflexivity. Qed.

Lemma cnt_remove_le u s (l : list (sid * psd)) : (cnt u (remove_key s l) <= cnt u l)%nat.
Proof. exact (cnt_filter_le u (fun kv => negb (fst kv =? s)) l). Qed.

Lemma cnt_remove_lt u s d (l : list (sid * psd)) :
  In (s, d) l -> ss_uid d = u -> (cnt u (remove_key s l) + 1 <= cnt u l)%nat.
Proof.
  intros Hin Hu. apply (cnt_filter_lt u (fun kv => negb (fst kv =? s)) l (s, d) Hin Hu). cbn. now rewrite N.eqb_refl.
Qed.

Lemma inv_drop_session st s : inv st -> inv (drop_session st s).
Proof.
  intros Hinv. pose proof Hinv as [H1 [H2 H3]]. unfold drop_session.
  destruct (lookup s (st_sess st)) as [d|] eqn:E; [|exact Hinv].
  pose proof (lookup_in _ _ _ E) as Hin.
  assert (Hatt : forall us, (forall u2, u2 <> ss_uid d -> lookup u2 us = lookup u2 (st_users st)) ->
                 (exists p, lookup (ss_uid d) us = Some p /\ pu_deleted p = false) ->
                 att_ok (set_users us (set_sess (remove_key s (st_sess st)) st))).
  { intros us Ho Hs s' d' Hin'. cbn [st_sess st_users set_users set_sess] in *. apply in_remove_key in Hin'.
    destruct Hin' as [Hin' _]. destruct (N.eq_dec (ss_uid d') (ss_uid d)) as [Eu|Eu]; [now rewrite Eu|].
    rewrite Ho by assumption. exact (H2 _ _ Hin'). }
  destruct (ss_chan d).
  - split; [now apply wf_remove_key|]. split.
    + apply (Hatt (st_users st)); [reflexivity|]. exact (H2 s d Hin).
    + intros u. cbn [st_sess set_sess]. unfold get_pud. cbn [st_users set_sess]. specialize (H3 u). unfold get_pud in H3.
      pose proof (cnt_remove_le u s (st_sess st)). lia.
  - split; [now apply wf_remove_key|]. destruct (H2 s d Hin) as [p [Hp Hd]]. split.
    + apply Hatt.
      * intros u2 Hne. cbn [st_users set_sess]. now apply lookup_upsert_other.
      * cbn [st_users set_sess]. rewrite lookup_upsert_same, Hp. eexists. split; [reflexivity|]. exact Hd.
    + intros u. unfold get_pud. cbn [st_sess st_users set_users set_sess]. specialize (H3 u). unfold get_pud in H3.
      destruct (N.eq_dec u (ss_uid d)) as [Eu|Eu].
      * subst u. rewrite lookup_upsert_same, Hp. rewrite Hp in H3. cbn [pu_online].
        pose proof (cnt_remove_lt (ss_uid d) s d (st_sess st) Hin eq_refl) as Hlt. lia.
      * rewrite lookup_upsert_other by assumption.
        pose proof (cnt_remove_le u s (st_sess st)). lia.
Qed.

Lemma inv_fold_drop l : forall st, inv st -> inv (fold_left drop_session l st).
Proof. induction l as [|s r IH]; intros st H; cbn; [exact H|]. apply IH. now apply inv_drop_session. Qed.

(* a user who is not in perUser has no attached session *)
Lemma att_ok_absent st u : att_ok st -> lookup u (st_users st) = None -> cnt u (st_sess st) = 0%nat.
Proof.
  intros H Hn. apply cnt_zero. intros s d Hin Hu. destruct (H s d Hin) as [p [Hp _]]. rewrite Hu in Hp. congruence.
Qed.

Lemma inv_new_user st u p :
  inv st -> lookup u (st_users st) = None -> pu_deleted p = false -> (0 <= pu_online p)%Z ->
  inv (set_users (st_users st ++ [(u, p)]) st).
Proof.
  intros [H1 [H2 H3]] Hn Hd Ho. split; [exact H1|]. split.
  - intros s d Hin. cbn [st_users st_sess set_users] in *. destruct (H2 s d Hin) as [q [Hq Hdq]].
    rewrite lookup_app, Hq. eauto.
  - intros u2. unfold get_pud. cbn [st_users st_sess set_users]. rewrite lookup_app. specialize (H3 u2). unfold get_pud in H3.
    destruct (lookup u2 (st_users st)) as [q|] eqn:Eq; [exact H3|]. cbn.
    rewrite (att_ok_absent st u2 H2 Eq). destruct (u2 =? u); cbn; lia.
Qed.

Lemma inv_remove_sess st s : inv st -> inv (set_sess (remove_key s (st_sess st)) st).
Proof.
  intros [H1 [H2 H3]]. split; [now apply wf_remove_key|]. split.
  - intros s' d Hin. cbn [st_sess st_users set_sess] in *. apply in_remove_key in Hin. exact (H2 s' d (proj1 Hin)).
  - intros u. unfold get_pud. cbn [st_sess st_users set_sess]. specialize (H3 u). unfold get_pud in H3.
    pose proof (cnt_remove_le u s (st_sess st)). lia.
Qed.

Lemma cnt_zero_inv u (l : list (sid * psd)) s d : cnt u l = 0%nat -> In (s, d) l -> ss_uid d <> u.
Proof.
  unfold cnt. induction l as [|[s' d'] r IH]; cbn; [tauto|]. intros Hc [Hin|Hin] Hu.
  - inv Hin. rewrite N.eqb_refl in Hc. discriminate.
  - destruct (ss_uid d' =? u); [discriminate|]. now apply (IH Hc Hin).
Qed.

Lemma inv_remove_user st u :
  inv st -> cnt u (st_sess st) = 0%nat -> inv (set_users (remove_key u (st_users st)) st).
Proof.
  intros [H1 [H2 H3]] Hc. split; [exact H1|]. split.
  - intros s d Hin. cbn [st_sess st_users set_users] in *. pose proof (cnt_zero_inv u _ s d Hc Hin) as Hne.
    rewrite lookup_remove_key_other by assumption. exact (H2 s d Hin).
  - intros u2. unfold get_pud. cbn [st_sess st_users set_users]. specialize (H3 u2). unfold get_pud in H3.
    destruct (N.eq_dec u2 u) as [E|E].
    + subst. rewrite lookup_remove_key_same, Hc. cbn. lia.
    + now rewrite lookup_remove_key_other by assumption.
Qed.

Lemma evict_false_deleted st u p' :
  (forall q, lookup u (st_users st) = Some q -> pu_deleted q = false) ->
  lookup u (st_users (evict_user st u false)) = Some p' -> pu_deleted p' = false.
Proof.
  intros Hq. unfold evict_user. cbn [st_users set_sess set_users].
  destruct (lookup u (st_users st)) as [q|] eqn:Eq.
  - destruct (pu_ischan q).
    + rewrite lookup_remove_key_same. discriminate.
    + rewrite (lookup_update_same _ _ _ _ Eq). intros H. inv H. cbn. now apply Hq.
  - rewrite Eq. discriminate.
Qed.

Lemma inv_attach st s u c st' : attach st s u c = Some st' -> inv st -> inv st'.
Proof.
  unfold attach. intros H Hinv.
  destruct (has_key s (st_sess st)); [now inv H|].
  destruct (negb (chan_ok st c)); [now inv H|].
  destruct (lookup u (st_users st)) as [p|] eqn:Ep.
  - destruct (pu_deleted p) eqn:Ed; [discriminate|].
    destruct (negb (pu_ischan p) && c); [now inv H|].
    set (want := if has (pu_want p) bJ then pu_want p
                 else (if st_owner st =? u then N.lor (pu_given p) (st_defacs st)
                       else N.ldiff (N.lor (pu_given p) (st_defacs st)) bO)) in *.
    set (st1 := set_users (update u (set_pud_modes want (pu_given p)) (st_users st)) st) in *.
    assert (Hinv1 : inv st1) by (apply inv_update_modes; exact Hinv).
    assert (Hu1 : forall q, lookup u (st_users st1) = Some q -> pu_deleted q = false).
    { intros q Hq. unfold st1 in Hq. cbn [st_users set_users] in Hq. rewrite (lookup_update_same _ _ _ _ Ep) in Hq. inv Hq. exact Ed. }
    destruct (negb (has want bJ)).
    + destruct (want =? pu_want p); inv H.
      * apply inv_add_session; [now apply inv_evict_user|]. intros q Hq. now apply (evict_false_deleted st1 u q Hu1).
      * now apply inv_evict_user.
    + destruct (negb (has (pu_given p) bJ)); inv H; [exact Hinv1|]. now apply inv_add_session.
  - destruct (st_kind st); try (now inv H).
    + (* KGrp *)
      destruct c.
      * inv H. apply inv_add_session.
        -- apply inv_set_chanrows. apply inv_new_user; auto; cbn; lia.
        -- intros q Hq. cbn [st_users set_chanrows set_users] in Hq. rewrite lookup_app, Ep in Hq. cbn in Hq.
           rewrite N.eqb_refl in Hq. now inv Hq.
      * destruct (mem u (st_gone st)); [discriminate|]. destruct (negb (has (st_defacs st) bJ)); inv H; [exact Hinv|].
        apply inv_add_session; [apply inv_new_user; auto; cbn; lia|].
        intros q Hq. cbn [st_users set_users] in Hq. rewrite lookup_app, Ep in Hq. cbn in Hq. rewrite N.eqb_refl in Hq. now inv Hq.
    + (* KChn *)
      destruct c.
      * inv H. apply inv_add_session.
        -- apply inv_set_chanrows. apply inv_new_user; auto; cbn; lia.
        -- intros q Hq. cbn [st_users set_chanrows set_users] in Hq. rewrite lookup_app, Ep in Hq. cbn in Hq.
           rewrite N.eqb_refl in Hq. now inv Hq.
      * destruct (mem u (st_gone st)); [discriminate|]. destruct (negb (has (st_defacs st) bJ)); inv H; [exact Hinv|].
        apply inv_add_session; [apply inv_new_user; auto; cbn; lia|].
        intros q Hq. cbn [st_users set_users] in Hq. rewrite lookup_app, Ep in Hq. cbn in Hq. rewrite N.eqb_refl in Hq. now inv Hq.
Qed.

Lemma inv_detach st s u c st' : detach st s u c = Some st' -> inv st -> inv st'.
Proof.
  unfold detach. intros H Hinv. destruct (lookup s (st_sess st)) as [d|] eqn:Es; [|now inv H].
  destruct (negb (ss_uid d =? u)) eqn:Eu; [now inv H|]. apply negb_false_iff, N.eqb_eq in Eu.
  pose proof (lookup_in _ _ _ Es) as Hin.
  set (st1 := set_sess (remove_key s (st_sess st)) st) in *.
  assert (Hinv1 : inv st1) by (now apply inv_remove_sess).
  destruct (negb (eqb (ss_chan d) (c && chan_ok st c))); [now inv H|].
  set (n := (pu_online (get_pud st1 u) - 1)%Z) in *.
  set (st2 := set_users (upsert u (set_pud_online n) (st_users st1)) st1) in *.
  destruct Hinv as [H1 [H2 H3]]. destruct (H2 s d Hin) as [p [Hp Hd]]. rewrite Eu in Hp.
  assert (Hcnt : (Z.of_nat (cnt u (st_sess st2)) <= n)%Z).
  { unfold st2, n, st1, get_pud. cbn [st_sess st_users set_users set_sess]. rewrite Hp.
    pose proof (cnt_remove_lt u s d (st_sess st) Hin Eu). specialize (H3 u). unfold get_pud in H3. rewrite Hp in H3. lia. }
  assert (Hinv2 : inv st2).
  { destruct Hinv1 as [A1 [A2 A3]]. split; [exact A1|]. split.
    - intros s' d' Hin'. unfold st2 in *. cbn [st_sess st_users set_users] in *. destruct (N.eq_dec (ss_uid d') u) as [E|E].
      + rewrite E, lookup_upsert_same. unfold st1. cbn [st_users set_sess]. rewrite Hp. eexists. split; [reflexivity|]. exact Hd.
      + rewrite lookup_upsert_other by assumption. exact (A2 s' d' Hin').
    - intros u2. destruct (N.eq_dec u2 u) as [E|E].
      + subst u2. unfold get_pud at 1. unfold st2 at 2. cbn [st_users set_users]. rewrite lookup_upsert_same. cbn [pu_online set_pud_online]. exact Hcnt.
      + unfold get_pud, st2. cbn [st_users st_sess set_users]. rewrite lookup_upsert_other by assumption. exact (A3 u2). }
  destruct (st_kind st); try (destruct ((n =? 0)%Z && (c && chan_ok st c)) eqn:En); inv H; try exact Hinv2;
    apply inv_remove_user; try exact Hinv2; apply andb_true_iff in En; destruct En as [En _]; apply Z.eqb_eq in En; lia.
Qed.

Lemma inv_unsub st s u c st' : unsub st s u c = Some st' -> inv st -> inv st'.
Proof.
  unfold unsub. intros H Hinv. repeat break_match_hyp; inv H; try exact Hinv;
    try apply inv_set_gone; try apply inv_set_chanrows; now apply inv_evict_user.
Qed.

Lemma inv_set_want st u m st' : set_want st u m = Some st' -> inv st -> inv st'.
Proof.
  unfold set_want. intros H Hinv. repeat break_match_hyp; inv H; try exact Hinv;
    try apply inv_evict_user; now apply inv_update_modes.
Qed.

Lemma inv_set_given st h u m st' : set_given st h u m = Some st' -> inv st -> inv st'.
Proof.
  unfold set_given. intros H Hinv. repeat break_match_hyp; inv H; try exact Hinv;
    try apply inv_evict_user; now apply inv_update_modes.
Qed.

Lemma inv_evict_op st h u st' : evict st h u = Some st' -> inv st -> inv st'.
Proof.
  unfold evict. intros H Hinv. repeat break_match_hyp; inv H; try exact Hinv; apply inv_set_gone; now apply inv_evict_user.
Qed.

Lemma step_inv st o ost res : step st o = (ost, res) -> inv st -> inv (next_state st ost).
Proof.
  intros H Hinv. destruct o; cbn [step] in H.
  - inv H. destruct (attach st s u chan) eqn:E; cbn; [now apply (inv_attach st s u chan)|exact Hinv].
  - inv H. destruct (detach st s u chan) eqn:E; cbn; [now apply (inv_detach st s u chan)|exact Hinv].
  - inv H. cbn. apply inv_set_full. now apply inv_drop_session.
  - inv H. destruct (unsub st s u chan) eqn:E; cbn; [now apply (inv_unsub st s u chan)|exact Hinv].
  - inv H. destruct (set_want st u m) eqn:E; cbn; [now apply (inv_set_want st u m)|exact Hinv].
  - inv H. destruct (set_given st h u m) eqn:E; cbn; [now apply (inv_set_given st h u m)|exact Hinv].
  - inv H. destruct (evict st h u) eqn:E; cbn; [now apply (inv_evict_op st h u)|exact Hinv].
  - inv H. cbn. destruct (is_full st s); [exact Hinv|now apply inv_set_full].
  - inv H. cbn. now apply inv_set_full.
  - destruct (publish st px) as [r st'] eqn:E. inv H. cbn [next_state]. destruct (accepts st px) eqn:Ea.
    + rewrite (publish_accepted st px Ea) in E. inv E. apply inv_fold_drop. now apply inv_set_lastid.
    + destruct (publish_refused st px Ea) as [R1 _]. rewrite E in R1. cbn in R1. now subst.
Qed.

Lemma run_inv ops : forall st, inv st -> inv (fst (run st ops)).
Proof.
  induction ops as [|o r IH]; intros st H; cbn [run]; [exact H|].
  destruct (step st o) as [ost res] eqn:E. pose proof (step_inv st o ost res E H) as H1.
  fold (next_state st ost). specialize (IH _ H1). destruct (run (next_state st ost) r). exact IH.
Qed.

Lemma init_inv k owner defacs users rows :
  (forall u p, In (u, p) users -> (0 <= pu_online p)%Z) -> inv (init k owner defacs users rows).
Proof.
  intros H. split; [constructor|]. split; [intros ? ? []|]. intros u. unfold get_pud. cbn.
  destruct (lookup u users) as [p|] eqn:E; [|cbn; lia]. apply lookup_in in E. now apply (H u p).
Qed.

(* whoever receives a copy is, at that moment, an attached session of a current subscriber who may
   read (or a channel subscription) *)
Lemma recipients_are_subscribers st px s f :
  inv st -> In (s, f) (fanout st px) ->
  exists d p, In (s, d) (st_sess st) /\ lookup (ss_uid d) (st_users st) = Some p /\ pu_deleted p = false /\
              (has (eff p) bR = true \/ ss_chan d = true).
Proof.
  intros [_ [H2 _]] H. apply delivered_set in H. destruct H as [d [H1 [He _]]].
  destruct (H2 s d H1) as [p [Hp Hd]]. exists d, p. repeat split; try assumption.
  unfold eligible in He. cbn [fst snd] in He. apply andb_true_iff in He. destruct He as [He _].
  apply orb_true_iff in He. destruct He as [He|He]; [left|now right].
  unfold user_is_reader, get_pud in He. now rewrite Hp in He.
Qed.

(* the sessions whose copy was dropped are detached by the same publish, nobody else is *)
Lemma overflow_detached st px q a c p st' :
  publish st px = (PAccepted q a c p, st') ->
  q = (st_lastid st + 1)%Z /\ c = fanout_all st px /\ p = push_rcpt st /\ st_lastid st' = q /\
  forall k, In k (map fst (st_sess st')) <-> In k (map fst (st_sess st)) /\ ~ In k (overflowed (fanout_all st px)).
Proof.
  intros H. destruct (accepts st px) eqn:Ea.
  - rewrite (publish_accepted st px Ea) in H. inv H.
    destruct (fold_drop_sessions (overflowed (fanout_all st px)) (set_lastid (st_lastid st + 1)%Z st)) as [_ [F2 [_ F4]]].
    repeat split; auto; apply F4; assumption.
  - destruct (publish_refused st px Ea) as [_ R]. rewrite H in R. cbn in R. destruct R as [R|[R|R]]; discriminate.
Qed.

(* what Session.expandTopicName routes to this topic: the names a publisher can have written *)
Definition routes (st : state) (px : pubctx) : Prop :=
  match st_kind st with
  | KP2P => px_orig px = TP2P \/ exists p, lookup (px_author px) (st_users st) = Some p /\ px_orig px = TUsr (pu_peer p)
  | _ => px_orig px = TGrp \/ px_orig px = TChn
  end.

(* ------------------------------------------------------------------ *)
(* the {info} branch *)
Definition info_eligible (st : state) (ix : infoctx) (sd : sid * psd) : bool :=
  negb (match ix_skip ix with Some k => fst sd =? k | None => false end) &&
  (ix_src ix || (negb (ss_chan (snd sd)) && user_is_reader st (ss_uid (snd sd)))) &&
  negb (mem (fst sd) (ix_skipsubs ix)) &&
  negb ((ix_what ix =? W_KP) && (ix_from ix =? ss_uid (snd sd))).

Definition icopy_of (st : state) (ix : infoctx) (sd : sid * psd) : sid * idelivery :=
  (fst sd, if is_full st (fst sd) then IOverflow
           else ISent (prepare_info st (snd sd) (mkIFrame (ix_topic ix) (ix_from ix) (ix_what ix) (ix_seq ix)))).

Lemma info_loop_spec st ix l :
  info_loop st ix l = map (icopy_of st ix) (filter (info_eligible st ix) l).
Proof.
  induction l as [|[s d] r IH]; cbn [info_loop filter map]; [reflexivity|].
  unfold info_eligible at 1. cbn [fst snd].
  destruct (match ix_skip ix with Some k => s =? k | None => false end); cbn [negb andb]; [exact IH|].
  destruct (ix_src ix); cbn [negb andb orb].
  - destruct (mem s (ix_skipsubs ix)); cbn [negb andb]; [exact IH|].
    destruct ((ix_what ix =? W_KP) && (ix_from ix =? ss_uid d)); cbn [negb map]; [exact IH|]. now rewrite IH.
  - destruct (ss_chan d); cbn [negb andb orb]; [exact IH|].
    destruct (user_is_reader st (ss_uid d)); cbn [negb andb orb]; [|exact IH].
    destruct (mem s (ix_skipsubs ix)); cbn [negb andb]; [exact IH|].
    destruct ((ix_what ix =? W_KP) && (ix_from ix =? ss_uid d)); cbn [negb map]; [exact IH|]. now rewrite IH.
Qed.

Lemma info_exact_set st ix :
  Permutation (map fst (info_fanout st ix)) (map fst (filter (info_eligible st ix) (st_sess st))) /\
  (wf_sess st -> NoDup (map fst (info_fanout st ix))) /\
  (forall s, In s (map fst (info_fanout st ix)) <->
             exists d, In (s, d) (st_sess st) /\ info_eligible st ix (s, d) = true).
Proof.
  unfold info_fanout. rewrite info_loop_spec, map_map. cbn [icopy_of fst].
  split; [apply Permutation_refl|]. split.
  - intros H. now apply NoDup_keys_filter.
  - intros s. rewrite in_map_iff. split.
    + intros [[s' d] [H1 H2]]. cbn in H1. subst. apply filter_In in H2. now exists d.
    + intros [d [H1 H2]]. exists (s, d). split; [reflexivity|]. now apply filter_In.
Qed.

Lemma isent_spec st ix l s f :
  In (s, f) (isent (map (icopy_of st ix) l)) <->
  exists d, In (s, d) l /\ is_full st s = false /\
            f = prepare_info st d (mkIFrame (ix_topic ix) (ix_from ix) (ix_what ix) (ix_seq ix)).
Proof.
  induction l as [|[s' d'] r IH]; cbn [map isent].
  - split; [intros []|intros [d [[] _]]].
  - unfold icopy_of at 1. cbn [fst snd]. destruct (is_full st s') eqn:Ef.
    + rewrite IH. split; intros [d [H1 H2]]; exists d.
      * split; [now right|exact H2].
      * destruct H1 as [H1|H1]; [inv H1; destruct H2 as [H2 _]; congruence|now split].
    + cbn [In]. rewrite IH. split.
      * intros [H|[d [H1 H2]]]; [inv H; exists d'; split; [now left|now split]|exists d; split; [now right|exact H2]].
      * intros [d [[H1|H1] [H2 H3]]]; [inv H1; now left|right; now exists d].
Qed.

(* a note relay (Src = "", SkipSid = the originating session): who gets the {info} frame *)
Lemma note_relay_recipients st nx s f :
  In (s, f) (isent (note_relay st nx)) ->
  note_permitted st nx = true /\
  exists d, In (s, d) (st_sess st) /\
    s <> nx_sid nx /\ ss_chan d = false /\ user_is_reader st (ss_uid d) = true /\
    (nx_what nx = W_KP -> ss_uid d <> nx_from nx) /\ is_full st s = false /\
    i_from f = nx_from nx /\ i_what f = nx_what nx /\ i_seq f = nx_seq nx.
Proof.
  unfold note_relay. destruct (note_permitted st nx); [|intros []]. intros H. split; [reflexivity|].
  unfold info_fanout in H. rewrite info_loop_spec in H. apply isent_spec in H. destruct H as [d [H1 [H2 H3]]].
  apply filter_In in H1. destruct H1 as [H1 He]. exists d. split; [exact H1|].
  unfold info_eligible, info_of_note in He. cbn [ix_skip ix_src ix_skipsubs ix_what ix_from fst snd mem] in He.
  apply andb_true_iff in He. destruct He as [He H].
  apply andb_true_iff in He. destruct He as [He _].
  apply andb_true_iff in He. destruct He as [He H0].
  apply negb_true_iff, N.eqb_neq in He. split; [exact He|].
  cbn [orb] in H0. apply andb_true_iff in H0. destruct H0 as [Hc Hr]. apply negb_true_iff in Hc.
  split; [exact Hc|]. split; [exact Hr|]. split.
  - intros Hk Hu. apply negb_true_iff in H. rewrite Hk, Hu in H. cbn in H. rewrite N.eqb_refl in H. discriminate.
  - split; [exact H2|]. subst f. unfold prepare_info. cbn.
    destruct (st_kind st); try destruct (ss_uid d =? 0); cbn; auto.
Qed.

Lemma note_relay_complete st nx s d :
  note_permitted st nx = true -> In (s, d) (st_sess st) ->
  s <> nx_sid nx -> ss_chan d = false -> user_is_reader st (ss_uid d) = true ->
  (nx_what nx = W_KP -> ss_uid d <> nx_from nx) ->
  In s (map fst (note_relay st nx)).
Proof.
  intros Hp Hin Hs Hc Hr Hk. unfold note_relay. rewrite Hp.
  apply (proj2 (proj2 (info_exact_set st (info_of_note nx))) s). exists d. split; [exact Hin|].
  unfold info_eligible, info_of_note. cbn [ix_skip ix_src ix_skipsubs ix_what ix_from fst snd mem].
  apply N.eqb_neq in Hs. rewrite Hs, Hc, Hr. cbn.
  destruct (nx_what nx =? W_KP) eqn:Ek; [|reflexivity]. apply N.eqb_eq in Ek. specialize (Hk Ek).
  cbn. destruct (nx_from nx =? ss_uid d) eqn:E; [apply N.eqb_eq in E; congruence|reflexivity].
Qed.
