(* C08: concrete witnesses (vm_compute) showing that each excluded trigger really breaks
   coherence / the reject and ack laws in the faithful model.  Every witness history was
   replayed on the real server (findings/C08.md). *)
From Coq Require Import ZArith NArith List Bool Lia.
From Tinode Require Import Base.Util Pure.Acs Sys.Topic Sys.TopicTac Sys.TopicFrame Sys.TopicNum Sys.TopicNumThm Sys.TopicInst
  Sys.TopicCohC08 Sys.TopicCohC08Proofs Sys.TopicCohC08Step Sys.TopicCohC08Run.
Import ListNotations.
Open Scope Z_scope.

(* owner 1 (full access), user 2 with the given want/given, default access JRWPS *)
Definition wit_store (w2 g2 : N) : store :=
  ad_sub_create (ad_sub_create (mkStore true 0 0 0 47 0 [] [] [] [(1%N, 47%N); (2%N, 47%N); (3%N, 47%N)]) 1%N 255%N 255%N) 2%N w2 g2.
Definition wit_sm : sessmap := [(1%N, 1%N); (2%N, 2%N); (3%N, 2%N)].
Definition wit_run (w2 g2 : N) (h : list (fault * op)) : state * list out :=
  run_i wit_sm (mkState (wit_store w2 g2) None 0) h.

Ltac wit_wf_tac :=
  unfold wf_store; split; [|split; [|split; [|split]]];
  [ vm_compute; apply NoDup_cons; [intros [H|[]]; discriminate|apply NoDup_cons; [intros []|apply NoDup_nil]]
  | vm_compute; intros r [<-|[<-|[]]]; discriminate
  | reflexivity
  | vm_compute users; intros u a; cbn [alookup]; repeat (destruct (N.eqb u _); [intros H; inv H; reflexivity|]); discriminate
  | exists 1%N; split; [discriminate|]; split;
    [ eexists; split; reflexivity
    | intros v r F O; vm_compute subs in F; cbn [find_sub find s_user] in F;
      destruct (N.eqb_spec 1 v) as [<-|N1]; [inv F; repeat split; reflexivity|];
      destruct (N.eqb_spec 2 v) as [<-|N2]; [inv F; vm_compute in O; congruence|discriminate] ] ].

Lemma wit_wf_47_47 : wf_store (wit_store 47 47). Proof. wit_wf_tac. Qed.
Lemma wit_wf_5_47 : wf_store (wit_store 5 47). Proof. wit_wf_tac. Qed.
Lemma wit_wf_47_255 : wf_store (wit_store 47 255). Proof. wit_wf_tac. Qed.
Lemma wit_wf_46_46 : wf_store (wit_store 46 46). Proof. wit_wf_tac. Qed.

Lemma wit_inv0 w2 g2 : wf_store (wit_store w2 g2) -> inv (mkState (wit_store w2 g2) None 0) /\ inv_num (mkState (wit_store w2 g2) None 0).
Proof.
  intros W. split; [split; [exact W|exact I]|]. apply fresh_inv. unfold wit_store, ad_sub_create. repeat break_match; split; reflexivity.
Qed.

Ltac not_agree u := intros NA; destruct NA as [_ [_ [_ [_ [_ NA]]]]]; specialize (NA u); vm_compute in NA; discriminate.

(* #1 a read note above the received mark: recv advances in the cache only *)
Lemma wit_note_read :
  ~ coherent (fst (wit_run 47 47 [(NoFault, OSub 1 [] false); (NoFault, OSub 2 [] false); (NoFault, OPub 1 7 false); (NoFault, ONote 2 K_read 1)])).
Proof. unfold coherent. vm_compute ca. vm_compute st. not_agree 2%N. Qed.

(* #2 a publisher without R: marks advance in the cache only *)
Lemma wit_readless_pub :
  ~ coherent (fst (wit_run 5 47 [(NoFault, OSub 2 [] false); (NoFault, OPub 2 7 false)])).
Proof. unfold coherent. vm_compute ca. vm_compute st. not_agree 2%N. Qed.

(* #3 {set sub} from a session that is not attached while the topic is loaded *)
Lemma wit_offline_setsub :
  ~ coherent (fst (wit_run 47 47 [(NoFault, OSub 1 [] false); (NoFault, OSetSub 2 0 [74; 82; 87]%N)])).
Proof. unfold coherent. vm_compute ca. vm_compute st. not_agree 2%N. Qed.

Lemma wit_pre w2 g2 h :
  wf_store (wit_store w2 g2) ->
  safe_run del_ranges_i norm_ranges_i wit_sm (mkState (wit_store w2 g2) None 0) h ->
  inv (fst (wit_run w2 g2 h)) /\ inv_num (fst (wit_run w2 g2 h)).
Proof.
  intros W SR. destruct (wit_inv0 w2 g2 W) as [IV IN]. unfold wit_run, run_i. split.
  - apply run_inv; assumption.
  - apply run_inv_num. exact IN.
Qed.

(* discharge one conjunct of safe_step on closed terms *)
Ltac safe_conj :=
  first [ exact I
        | left; reflexivity
        | solve [left; repeat split; reflexivity]
        | solve [vm_compute; discriminate]
        | solve [intros H; vm_compute in H; first [contradiction | destruct H as [? ?]; discriminate | destruct H as [? [? ?]]; discriminate | destruct H as [? [? H']]; vm_compute in H'; discriminate]] ].
Ltac safe_leaf :=
  first [ exact I | left; reflexivity | (left; repeat split; reflexivity) | discriminate
        | intros H; first [contradiction | discriminate H
                          | destruct H as [H1 H2]; first [discriminate H1|discriminate H2]
                          | destruct H as [H1 [H2 H3]]; first [discriminate H1|discriminate H2|discriminate H3]] ].
(* the whole formula is closed: normalise it once in the VM, then decide the leaves *)
Ltac safe_tac := vm_compute; repeat split; safe_leaf.

Definition step_last (w2 g2 : N) (pre : list (fault * op)) (f : fault) (o : op) : state :=
  fst (step_i wit_sm f (fst (wit_run w2 g2 pre)) o).

(* every hypothesis of the step theorem holds except hypothesis number [k]
   (1 read note above recv, 2 publisher without R, 3 offline set-sub, 4 fault plan), and coherence fails *)
Record refutes (k : nat) (x : state) (f : fault) (o : op) : Prop := mkRef {
  r_inv : inv x; r_num : inv_num x; r_known : known wit_sm o;
  r_t1 : k <> 1%nat -> ~ trig_note_read wit_sm x o;
  r_t2 : k <> 2%nat -> ~ trig_readless_pub wit_sm x o;
  r_t3 : k <> 3%nat -> ~ trig_offline_setsub x o;
  r_fo : k <> 4%nat -> fault_ok wit_sm f x o;
  r_bad : ~ coherent (fst (step del_ranges_i norm_ranges_i wit_sm f x o)) }.

Ltac hyp_tac := first [ intros NE; exfalso; apply NE; reflexivity | intros _; safe_conj ].

Ltac refute_tac W u :=
  match goal with |- refutes _ (fst (wit_run ?w2 ?g2 ?pre)) ?f ?o =>
    let P := fresh "P" in
    assert (inv (fst (wit_run w2 g2 pre)) /\ inv_num (fst (wit_run w2 g2 pre))) as P by (apply (wit_pre w2 g2 pre W); safe_tac);
    destruct P as [P1 P2]; split; [exact P1|exact P2|vm_compute; discriminate|hyp_tac|hyp_tac|hyp_tac|hyp_tac|];
    unfold coherent; vm_compute ca; vm_compute st; not_agree u
  end.

Lemma ref_note_read :
  refutes 1 (fst (wit_run 47 47 [(NoFault, OSub 1 [] false); (NoFault, OSub 2 [] false); (NoFault, OPub 1 7 false)])) NoFault (ONote 2 K_read 1).
Proof. refute_tac wit_wf_47_47 2%N. Qed.

Lemma ref_readless_pub :
  refutes 2 (fst (wit_run 5 47 [(NoFault, OSub 2 [] false)])) NoFault (OPub 2 7 false).
Proof. refute_tac wit_wf_5_47 2%N. Qed.

Lemma ref_offline_setsub :
  refutes 3 (fst (wit_run 47 47 [(NoFault, OSub 1 [] false)])) NoFault (OSetSub 2 0 [74; 82; 87]%N).
Proof. refute_tac wit_wf_47_47 2%N. Qed.

(* faults: the 2nd store call of a publish fails (stored seqid advanced), the 3rd (publisher's marks;
   error ignored, publish acknowledged) *)
Ltac not_scalar := intros NA; destruct NA as [NA1 [NA2 _]]; vm_compute in NA1, NA2; discriminate.
Ltac refute_scalar W :=
  match goal with |- refutes _ (fst (wit_run ?w2 ?g2 ?pre)) ?f ?o =>
    let P := fresh "P" in
    assert (inv (fst (wit_run w2 g2 pre)) /\ inv_num (fst (wit_run w2 g2 pre))) as P by (apply (wit_pre w2 g2 pre W); safe_tac);
    destruct P as [P1 P2]; split; [exact P1|exact P2|vm_compute; discriminate|hyp_tac|hyp_tac|hyp_tac|hyp_tac|];
    unfold coherent; vm_compute ca; vm_compute st; not_scalar
  end.

Lemma ref_pub_fail2 :
  refutes 4 (fst (wit_run 47 47 [(NoFault, OSub 1 [] false)])) (FailAt 2) (OPub 1 7 false).
Proof. refute_scalar wit_wf_47_47. Qed.
Lemma ref_pub_fail3 :
  refutes 4 (fst (wit_run 47 47 [(NoFault, OSub 1 [] false)])) (FailAt 3) (OPub 1 7 false).
Proof. refute_tac wit_wf_47_47 1%N. Qed.
(* the 3rd store call of a delete fails: deletion log and topic delid stored, cache not moved *)
Lemma ref_del_fail3 :
  refutes 4 (fst (wit_run 47 47 [(NoFault, OSub 1 [] false); (NoFault, OPub 1 7 false)])) (FailAt 3) (ODelMsg 1 [(1, 0)] true).
Proof. refute_scalar wit_wf_47_47. Qed.
(* the 2nd store call of an ownership acceptance fails: the new owner's want is stored, nothing is cached, no reply *)
Lemma ref_transfer_fail2 :
  refutes 4 (fst (wit_run 47 255 [(NoFault, OSub 1 [] false); (NoFault, OSub 2 [] false)])) (FailAt 2) (OSetSub 2 0 [74; 82; 87; 80; 65; 83; 68; 79]%N).
Proof. refute_tac wit_wf_47_255 2%N. Qed.
