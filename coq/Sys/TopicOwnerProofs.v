(* C06: what the permission handlers of the topic model do to the modes, the
   ownership invariant over every history, and the step-level laws. *)
From Coq Require Import ZArith NArith List Bool Lia.
From Tinode Require Import Base.Util Pure.Acs Sys.Topic Sys.TopicTac Sys.TopicFrame Sys.TopicNum Sys.TopicMarks Sys.TopicOwner.
Import ListNotations.
Local Open Scope N_scope.

(* the cache after the optional eviction of a user who lost J *)
Definition evicted (c : cache) (u : N) (c' : cache) : Prop := c' = c \/ c' = fst (evict_user c u false 0).

(* ------------------------------------------------------------------ *)
(* thisUserSub: the shapes of its result                                *)
Inductive tus_shape (f : fault) (s : store) (c : cache) (u : N) (want : list N) (hr : hres * sub_res) : Prop :=
| TusSame : h_st (fst hr) = s -> h_ca (fst hr) = c -> (exists code, snd hr = SubErr code) -> tus_shape f s c u want hr
| TusNew (wantm given : N) :
    alookup u (c_users c) = None ->
    is_owner wantm = false ->
    (given = c_auth c \/ exists r, find_sub u (subs s) = Some r /\ s_given r = given) ->
    (h_st (fst hr) = ad_sub_create s u wantm given /\ (forall r, find_sub u (subs s) = Some r -> s_deleted r = true)
     \/ h_st (fst hr) = s /\ exists r, find_sub u (subs s) = Some r /\ s_deleted r = false) ->
    evicted (c_set_users (aset u (mkPud wantm given 0 0 0 0)) c) u (h_ca (fst hr)) ->
    tus_shape f s c u want hr
| TusUpd (p0 : pud) (w1 g1 : N) (ow og : option N) :
    alookup u (c_users c) = Some p0 ->
    (ow = Some w1 \/ ow = None /\ w1 = p_want p0) ->
    (og = Some g1 \/ og = None /\ g1 = p_given p0) ->
    (h_st (fst hr) = s /\ ow = None /\ og = None \/ h_st (fst hr) = ad_subs_update s u (mkUpd ow og None None None)) ->
    evicted (c_set_users (aset u (p_set_modes w1 g1 p0)) c) u (h_ca (fst hr)) ->
    is_owner g1 = is_owner (p_given p0) ->
    (is_owner w1 = true -> is_owner (p_want p0) = true \/ c_owner c = u /\ is_owner (p_given p0) = true) ->
    (c_owner c = u -> is_owner (p_want p0) = true -> is_owner (p_given p0) = true -> is_owner w1 = true) ->
    tus_shape f s c u want hr
| TusTransfer (p0 : pud) (w1 g1 : N) (og : option N) :
    alookup u (c_users c) = Some p0 ->
    is_owner (p_want p0) = false -> is_owner (p_given p0) = true ->
    is_owner w1 = true -> is_owner g1 = true -> w1 = req_mode want ->
    (og = Some g1 \/ og = None /\ g1 = p_given p0) ->
    let prev := c_owner c in let pp := get_pud c prev in
    let pw := N.ldiff (p_want pp) mO in let pg := N.ldiff (p_given pp) mO in
    let cT := c_set_owner u (c_set_users (aset prev (p_set_modes pw pg pp)) c) in
    h_st (fst hr) = st_owner u (ad_subs_update (ad_subs_update s u (mkUpd (Some w1) og None None None)) prev
                                               (mkUpd (Some pw) (Some pg) None None None)) ->
    evicted (c_set_users (aset u (p_set_modes w1 g1 (get_pud cT u))) cT) u (h_ca (fst hr)) ->
    tus_shape f s c u want hr
| TusPartial : f <> NoFault -> is_owner (req_mode want) = true -> h_ca (fst hr) = c -> snd hr = SubErr 0 -> tus_shape f s c u want hr.

Lemma call_fail f n ok n1 : call f n = (ok, n1) -> ok = false -> f <> NoFault.
Proof. unfold call. intros H E. inv H. intros ->. discriminate. Qed.

Ltac solve_evicted :=
  first [ now left | right; match goal with H : evict_user _ _ _ _ = _ |- _ => rewrite H; reflexivity end ].
Ltac tus_same := apply TusSame; cbn [fst snd h_st h_ca]; [reflexivity|reflexivity|eexists; reflexivity].

(* the tail of thisUserSub for an existing subscription, once the new modes are decided *)
Definition tus_rest (f : fault) (s : store) (c : cache) (n : nat) (u : N) (p0 : pud) (w1 g1 : N)
           (owner_change newsub_pkt : bool) : hres * sub_res :=
  let mk s c n o r := (mkH s c n o, r) in
  let oldw := p_want p0 in let oldg := p_given p0 in
  let upd := mkUpd (if (w1 =? oldw)%N then None else Some w1) (if (g1 =? oldg)%N then None else Some g1) None None None in
  let need_upd := negb ((w1 =? oldw)%N && (g1 =? oldg)%N) in
  let '(ok1, n1) := if need_upd then call f n else (true, n) in
  if negb ok1 then mk s c n1 [] (SubErr 500) else
  let s1 := if need_upd then ad_subs_update s u upd else s in
  let finish (s3 : store) (c3 : cache) (n3 : nat) :=
    let p1 := p_set_modes w1 g1 (get_pud c3 u) in
    let c4 := c_set_users (aset u p1) c3 in
    let changed := newsub_pkt || negb ((w1 =? oldw)%N && (g1 =? oldg)%N) in
    let ch := if changed then Some (w1, g1) else None in
    if negb (is_joiner w1) then
      let '(c5, o5) := evict_user c4 u false 0%N in mk s3 c5 n3 o5 (SubOk ch)
    else if negb (is_joiner g1) then mk s3 c4 n3 [] (SubErr 403)
    else mk s3 c4 n3 [] (SubOk ch) in
  if owner_change then
    let prev := c_owner c in
    let pp := get_pud c prev in
    let pw := N.ldiff (p_want pp) mO in let pg := N.ldiff (p_given pp) mO in
    let '(ok2, n2) := call f n1 in
    if negb ok2 then mk s1 c n2 [] (SubErr 0) else
    let s2 := ad_subs_update s1 prev (mkUpd (Some pw) (Some pg) None None None) in
    let '(ok3, n3) := call f n2 in
    if negb ok3 then mk s2 c n3 [] (SubErr 0) else
    let s3 := st_owner u s2 in
    finish s3 (c_set_owner u (c_set_users (aset prev (p_set_modes pw pg pp)) c)) n3
  else finish s1 c n1.

Lemma tus_rest_cases f s c n u p0 w1 g1 oc nb want :
  alookup u (c_users c) = Some p0 ->
  is_owner g1 = is_owner (p_given p0) ->
  (oc = false ->
     (is_owner w1 = true -> is_owner (p_want p0) = true \/ c_owner c = u /\ is_owner (p_given p0) = true) /\
     (c_owner c = u -> is_owner (p_want p0) = true -> is_owner (p_given p0) = true -> is_owner w1 = true)) ->
  (oc = true -> is_owner (p_want p0) = false /\ is_owner (p_given p0) = true /\ is_owner w1 = true /\ w1 = req_mode want) ->
  tus_shape f s c u want (tus_rest f s c n u p0 w1 g1 oc nb).
Proof.
  intros EU HG HF HT. unfold tus_rest. cbv zeta.
  set (ow := if w1 =? p_want p0 then None else Some w1).
  set (og := if g1 =? p_given p0 then None else Some g1).
  assert (ow = Some w1 \/ ow = None /\ w1 = p_want p0) as HOW.
  { unfold ow. destruct (N.eqb_spec w1 (p_want p0)); [right; auto|now left]. }
  assert (og = Some g1 \/ og = None /\ g1 = p_given p0) as HOG.
  { unfold og. destruct (N.eqb_spec g1 (p_given p0)); [right; auto|now left]. }
  assert (get_pud c u = p0) as GP by (unfold get_pud; now rewrite EU).
  destruct oc.
  - (* ownership transfer *)
    destruct (HT eq_refl) as [T1 [T2 [T3 T4]]]. clear HF HT.
    assert (ow = Some w1) as EOW.
    { unfold ow. destruct (N.eqb_spec w1 (p_want p0)) as [E|]; [|reflexivity]. rewrite E in T3. congruence. }
    assert ((w1 =? p_want p0) = false) as EWF.
    { destruct (N.eqb_spec w1 (p_want p0)) as [E|]; [|reflexivity]. rewrite E in T3. congruence. }
    rewrite EWF. cbn [andb negb].
    destruct (call f n) as [ok1 n1] eqn:C1. destruct ok1; cbn [negb]; [|tus_same].
    destruct (call f n1) as [ok2 n2] eqn:C2. destruct ok2; cbn [negb].
    2:{ apply TusPartial; cbn [fst snd h_ca]; auto. eapply call_fail; eauto. congruence. }
    destruct (call f n2) as [ok3 n3] eqn:C3. destruct ok3; cbn [negb].
    2:{ apply TusPartial; cbn [fst snd h_ca]; auto. eapply call_fail; eauto. congruence. }
    apply (TusTransfer _ _ _ _ _ _ p0 w1 g1 og); auto; try congruence.
    + cbv zeta. fold ow. rewrite EOW. repeat break_match; reflexivity.
    + cbv zeta. repeat break_match; cbn [fst h_ca]; solve_evicted.
  - destruct (HF eq_refl) as [F1 F2]. clear HF HT.
    destruct (negb ((w1 =? p_want p0) && (g1 =? p_given p0))) eqn:NU.
    + destruct (call f n) as [ok1 n1]. destruct ok1; cbn [negb]; [|tus_same].
      apply (TusUpd _ _ _ _ _ _ p0 w1 g1 ow og); auto.
      * right. repeat break_match; reflexivity.
      * rewrite GP. repeat break_match; cbn [fst h_ca]; solve_evicted.
    + cbn [negb]. apply negb_false_iff in NU. apply andb_true_iff in NU. destruct NU as [NU1 NU2].
      apply (TusUpd _ _ _ _ _ _ p0 w1 g1 ow og); auto.
      * left. unfold ow, og. rewrite NU1, NU2. repeat break_match; auto.
      * rewrite GP. repeat break_match; cbn [fst h_ca]; solve_evicted.
Qed.

Definition w1_of (c : cache) (u : N) (p0 : pud) (mw g1 : N) : N :=
  if mw =? ModeUnset then
    (if negb (is_joiner (p_want p0)) then
       (if N.eqb (c_owner c) u then N.lor g1 (c_auth c) else N.ldiff (N.lor g1 (c_auth c)) mO)
     else p_want p0)
  else mw.

Lemma tus_cases f s c n sid u want nb : is_owner (c_auth c) = false ->
  tus_shape f s c u want (this_user_sub f s c n sid u want nb).
Proof.
  intros AU. unfold this_user_sub. cbv zeta.
  assert (req_mode want = fst (match want with [] => (ModeUnset, true) | _ :: _ => unmarshal_text ModeUnset want end)) as RM by reflexivity.
  destruct (match want with [] => (ModeUnset, true) | _ :: _ => unmarshal_text ModeUnset want end) as [mw okw].
  cbn [fst] in RM.
  destruct okw; cbn [negb]; [|tus_same].
  destruct (alookup u (c_users c)) as [p0|] eqn:EU.
  2:{ (* new subscription *)
    destruct (max_subs <=? Z.of_nat (length (c_users c)))%Z; [tus_same|].
    destruct (call f n) as [ok1 n1]. destruct ok1; cbn [negb]; [|tus_same].
    set (given := if (match ad_sub_get s u true with Some r => s_given r | None => ModeUnset end =? ModeUnset) then c_auth c
                  else match ad_sub_get s u true with Some r => s_given r | None => ModeUnset end).
    set (wantm := if mw =? ModeUnset then c_auth c else N.ldiff mw mO).
    assert (is_owner wantm = false) as WO by (unfold wantm; destruct (mw =? ModeUnset); [exact AU|apply is_owner_ldiff_mO]).
    assert (given = c_auth c \/ exists r, find_sub u (subs s) = Some r /\ s_given r = given) as GP.
    { unfold given, ad_sub_get. destruct (find_sub u (subs s)) as [r|]; [|now left]. cbn [andb negb].
      rewrite andb_false_r. destruct (s_given r =? ModeUnset); [now left|right; eauto]. }
    destruct (negb (is_joiner given)); [tus_same|].
    assert (ad_sub_get s u true = find_sub u (subs s)) as EG.
    { unfold ad_sub_get. destruct (find_sub u (subs s)); [|reflexivity]. cbn [negb]. now rewrite andb_false_r. }
    rewrite EG. destruct (find_sub u (subs s)) as [r|] eqn:FS; rewrite <- FS in GP.
    - destruct (s_deleted r) eqn:DR.
      + destruct (call f n1) as [ok2 n2]. destruct ok2; cbn [negb]; [|tus_same].
        apply (TusNew _ _ _ _ _ _ wantm given); auto.
        * left. repeat break_match; cbn [fst h_st]; (split; [reflexivity|]); intros r0 E0; rewrite FS in E0; inv E0; exact DR.
        * repeat break_match; cbn [fst h_ca]; solve_evicted.
      + cbn [negb]. apply (TusNew _ _ _ _ _ _ wantm given); auto.
        * right. repeat break_match; cbn [fst h_st]; (split; [reflexivity|]); eauto.
        * repeat break_match; cbn [fst h_ca]; solve_evicted.
    - destruct (call f n1) as [ok2 n2]. destruct ok2; cbn [negb]; [|tus_same].
      apply (TusNew _ _ _ _ _ _ wantm given); auto.
      * left. repeat break_match; cbn [fst h_st]; (split; [reflexivity|]); intros r0 E0; rewrite FS in E0; discriminate.
      * repeat break_match; cbn [fst h_ca]; solve_evicted. }
  (* existing subscription *)
  destruct (mw =? ModeUnset) eqn:EM.
  - (* no explicit mode: un-self-ban or no change *)
    match goal with |- tus_shape _ _ _ _ _ ?X =>
      change X with (tus_rest f s c n u p0 (w1_of c u p0 mw (p_given p0)) (p_given p0) false nb) end.
    unfold w1_of. rewrite EM.
    apply tus_rest_cases; auto; [|discriminate]. intros _. split.
    + destruct (negb (is_joiner (p_want p0))); [|now left]. destruct (N.eqb_spec (c_owner c) u) as [E|NE].
      * rewrite is_owner_lor, AU, orb_false_r. intros H. right. auto.
      * rewrite is_owner_ldiff_mO. discriminate.
    + intros E W G. destruct (negb (is_joiner (p_want p0))); [|exact W]. rewrite E, N.eqb_refl, is_owner_lor, G. reflexivity.
  - destruct (N.eqb (c_owner c) u && (negb (is_owner mw) || negb (is_joiner mw))) eqn:EO; [tus_same|].
    destruct (is_owner (p_given p0)) eqn:OG.
    + (* the grant has O: the owner's own settings, or acceptance of a transfer *)
      match goal with |- tus_shape _ _ _ _ _ ?X =>
        change X with (tus_rest f s c n u p0
          (w1_of c u p0 mw (if is_owner mw && negb (better_equal (p_given p0) mw) then N.lor (p_given p0) mw else p_given p0))
          (if is_owner mw && negb (better_equal (p_given p0) mw) then N.lor (p_given p0) mw else p_given p0)
          (is_owner mw && negb (is_owner (p_want p0))) nb) end.
      unfold w1_of. rewrite EM.
      apply tus_rest_cases; auto.
      * rewrite OG. destruct (is_owner mw && negb (better_equal (p_given p0) mw)); [|exact OG]. now rewrite is_owner_lor, OG.
      * intros OC. split.
        -- intros W. rewrite W in OC. cbn [andb] in OC. apply negb_false_iff in OC. now left.
        -- intros E _ _. rewrite E, N.eqb_refl in EO. cbn [andb] in EO. apply orb_false_iff in EO. destruct EO as [EO _].
           now apply negb_false_iff in EO.
      * intros OC. apply andb_true_iff in OC. destruct OC as [W NW]. apply negb_true_iff in NW. auto.
    + destruct (is_owner mw) eqn:OM; [tus_same|].
      destruct (is_admin (p_given p0) && is_admin mw).
      * match goal with |- tus_shape _ _ _ _ _ ?X =>
          change X with (tus_rest f s c n u p0
            (w1_of c u p0 mw (if negb (better_equal (p_given p0) (N.ldiff mw mD)) then N.lor (p_given p0) (N.ldiff mw mD) else p_given p0))
            (if negb (better_equal (p_given p0) (N.ldiff mw mD)) then N.lor (p_given p0) (N.ldiff mw mD) else p_given p0) false nb) end.
        unfold w1_of. rewrite EM.
        apply tus_rest_cases; auto; [| |discriminate].
        -- rewrite OG. destruct (negb (better_equal (p_given p0) (N.ldiff mw mD))); [|exact OG].
           now rewrite is_owner_lor, OG, is_owner_ldiff_mD, OM.
        -- intros _. split; [congruence|]. intros E _ _. rewrite E, N.eqb_refl in EO. cbn [negb orb andb] in EO. discriminate.
      * match goal with |- tus_shape _ _ _ _ _ ?X => change X with (tus_rest f s c n u p0 (w1_of c u p0 mw (p_given p0)) (p_given p0) false nb) end.
        unfold w1_of. rewrite EM.
        apply tus_rest_cases; auto; [|discriminate].
        intros _. split; [congruence|]. intros E _ _. rewrite E, N.eqb_refl in EO. cbn [negb orb andb] in EO. discriminate.
Qed.

(* ------------------------------------------------------------------ *)
(* anotherUserSub                                                       *)
Inductive aus_shape (s : store) (c : cache) (u target : N) (hr : hres * sub_res) : Prop :=
| AusSame : h_st (fst hr) = s -> evicted c target (h_ca (fst hr)) -> aus_shape s c u target hr
| AusNew (wantm given : N) :
    alookup target (c_users c) = None ->
    (is_owner given = true -> c_owner c = u) ->
    ((exists r, find_sub target (subs s) = Some r /\ wantm = s_want r) \/
     (exists acc, alookup target (users s) = Some acc /\ wantm = N.land acc given)) ->
    h_st (fst hr) = ad_sub_create s target wantm given ->
    evicted (c_set_users (aset target (mkPud wantm given 0 0 0 0)) c) target (h_ca (fst hr)) ->
    aus_shape s c u target hr
| AusUpd (pt : pud) (mg : N) :
    alookup target (c_users c) = Some pt ->
    (is_owner mg = true -> c_owner c = u) ->
    (c_owner c = target -> is_owner mg = true) ->
    h_st (fst hr) = ad_subs_update s target (mkUpd None (Some mg) None None None) ->
    evicted (c_set_users (aset target (p_set_modes (p_want pt) mg pt)) c) target (h_ca (fst hr)) ->
    aus_shape s c u target hr.

Ltac aus_same := apply AusSame; cbn [fst snd h_st h_ca]; [reflexivity|solve_evicted].

Lemma aus_cases f s c n sid u target mode : is_owner (c_auth c) = false ->
  aus_shape s c u target (another_user_sub f s c n sid u target mode).
Proof.
  intros AU. unfold another_user_sub. cbv zeta.
  destruct (alookup u (c_users c)) as [ph|] eqn:EH; [|aus_same].
  destruct (negb (is_sharer (pud_mode ph))); [aus_same|].
  destruct (match mode with [] => (ModeUnset, true) | _ :: _ => unmarshal_text ModeUnset mode end) as [mg okg].
  destruct okg; cbn [negb]; [|aus_same].
  destruct (negb (mg =? ModeUnset) && negb (is_admin (pud_mode ph))); [aus_same|].
  destruct (is_owner mg && negb (N.eqb (c_owner c) u)) eqn:EO; [aus_same|].
  assert (is_owner mg = true -> c_owner c = u) as HO.
  { intros H. rewrite H in EO. cbn [andb] in EO. apply negb_false_iff in EO. now apply N.eqb_eq in EO. }
  destruct (alookup target (c_users c)) as [pt|] eqn:ET.
  - (* existing subscriber *)
    destruct ((mg =? ModeUnset) || (mg =? p_given pt)).
    + repeat break_match; aus_same.
    + destruct (N.eqb (c_owner c) target && (negb (is_owner mg) || negb (is_joiner mg))) eqn:EOT; [aus_same|].
      destruct (call f n) as [ok1 n1]. destruct ok1; cbn [negb]; [|aus_same].
      apply (AusUpd _ _ _ _ _ pt mg); auto.
      * intros E. rewrite E, N.eqb_refl in EOT. cbn [andb] in EOT. apply orb_false_iff in EOT. destruct EOT as [EOT _].
        now apply negb_false_iff in EOT.
      * repeat break_match; reflexivity.
      * repeat break_match; cbn [fst h_ca]; solve_evicted.
  - (* invitation *)
    destruct (max_subs <=? Z.of_nat (length (c_users c)))%Z; [aus_same|].
    set (given := if mg =? ModeUnset then N.lor (c_auth c) mJ else mg).
    assert (is_owner given = true -> c_owner c = u) as HG.
    { unfold given. destruct (mg =? ModeUnset); [|exact HO]. rewrite is_owner_lor, AU. cbn. discriminate. }
    destruct (call f n) as [ok1 n1]. destruct ok1; cbn [negb]; [|aus_same].
    assert (ad_sub_get s target true = find_sub target (subs s)) as EG.
    { unfold ad_sub_get. destruct (find_sub target (subs s)); [|reflexivity]. cbn [negb]. now rewrite andb_false_r. }
    rewrite EG. destruct (find_sub target (subs s)) as [r|] eqn:FS.
    + destruct (negb (is_joiner (s_want r))); [aus_same|].
      destruct (call f n1) as [ok3 n3]. destruct ok3; cbn [negb]; [|aus_same].
      apply (AusNew _ _ _ _ _ (s_want r) given); auto.
      * left. eauto.
      * repeat break_match; reflexivity.
      * repeat break_match; cbn [fst h_ca]; solve_evicted.
    + destruct (call f n1) as [ok2 n2]. destruct ok2; cbn [negb]; [|aus_same].
      destruct (alookup target (users s)) as [acc|] eqn:EA; [|aus_same].
      destruct (negb (is_joiner (N.land acc given))); [aus_same|].
      destruct (call f n2) as [ok3 n3]. destruct ok3; cbn [negb]; [|aus_same].
      apply (AusNew _ _ _ _ _ (N.land acc given) given); auto.
      * right. eauto.
      * repeat break_match; reflexivity.
      * repeat break_match; cbn [fst h_ca]; solve_evicted.
Qed.

(* ------------------------------------------------------------------ *)
(* the other handlers                                                   *)
Lemma del_sub_cases f s c n sid u target :
  let h := del_sub f s c n sid u target in
  (h_st h = s /\ h_ca h = c) \/
  (exists pt, target <> u /\ alookup target (c_users c) = Some pt /\ is_owner (pud_mode pt) = false /\
     (ad_subs_delete s target = Some (h_st h) \/ ad_subs_delete s target = None /\ h_st h = s) /\
     h_ca h = fst (evict_user c target true 0)).
Proof.
  cbn zeta. unfold del_sub.
  destruct (negb (is_admin (user_mode c u))); [now left|].
  destruct ((target =? 0) || N.eqb target u) eqn:ET; [now left|].
  apply orb_false_iff in ET. destruct ET as [_ ET]. apply N.eqb_neq in ET.
  destruct (alookup target (c_users c)) as [pt|] eqn:EP; [|now left].
  destruct (is_owner (pud_mode pt)) eqn:EO; [now left|].
  destruct (negb (is_joiner (p_want pt))); [now left|].
  destruct (call f n) as [ok1 n1]. destruct ok1; cbn [negb]; [|now left].
  right. exists pt. repeat split; auto.
  - destruct (ad_subs_delete s target) as [s'|]; destruct (evict_user c target true 0); cbn [h_st]; auto.
  - destruct (ad_subs_delete s target) as [s'|]; destruct (evict_user c target true 0); reflexivity.
Qed.

Lemma leave_unsub_cases f s c n sid u :
  let h := leave_unsub f s c n sid u in
  (h_st h = s /\ h_ca h = c) \/
  (c_owner c <> u /\ ad_subs_delete s u = Some (h_st h) /\ h_ca h = fst (evict_user c u true sid)).
Proof.
  cbn zeta. unfold leave_unsub.
  destruct (N.eqb_spec (c_owner c) u) as [E|NE]; [now left|].
  destruct (call f n) as [ok1 n1]. destruct ok1; cbn [negb]; [|now left].
  destruct (ad_subs_delete s u) as [s1|]; [|now left].
  right. destruct (evict_user c u true sid). auto.
Qed.
Lemma leave_unsub_owner f s c n sid : leave_unsub f s c n sid (c_owner c) = mkH s c n [(sid, Ctrl 403 [])].
Proof. unfold leave_unsub. now rewrite N.eqb_refl. Qed.

Lemma offline_set_sub_cases f s sid u target mode :
  let r := offline_set_sub f s sid u target mode in
  o_st r = s \/
  (exists w g mw, smode s u = Some (w, g, false) /\ is_owner mw = is_owner w /\ mode <> [] /\
     o_st r = ad_subs_update s u (mkUpd (Some mw) None None None None)).
Proof.
  cbn zeta. unfold offline_set_sub. destruct mode as [|b mode]; [now left|].
  destruct (negb (target =? 0) && negb (N.eqb target u)); [now left|].
  destruct (call f 0) as [ok1 n1]. destruct ok1; cbn [negb]; [|now left].
  unfold ad_sub_get, smode. destruct (find_sub u (subs s)) as [r|]; [|now left].
  destruct (s_deleted r) eqn:D; cbn [andb negb]; [now left|].
  destruct (unmarshal_text 0 (b :: mode)) as [mw okw]. destruct okw; cbn [negb]; [|now left].
  destruct (Bool.eqb (is_owner mw) (is_owner (s_want r))) eqn:EO; cbn [negb]; [|now left].
  apply eqb_prop in EO.
  destruct (mw =? s_want r); [now left|].
  destruct (call f n1) as [ok2 n2]. destruct ok2; cbn [negb]; [|now left].
  right. exists (s_want r), (s_given r), mw. repeat split; auto. discriminate.
Qed.

Lemma leave_cases c sid u :
  let c' := fst (leave c sid u) in
  c' = c \/
  (exists su bkg, alookup sid (c_sess c) = Some (su, bkg) /\
     (c' = c_set_sess (aremove sid) c \/
      exists p, c' = c_set_users (aset su p) (c_set_sess (aremove sid) c) /\
        (match alookup su (c_users c) with Some p0 => p_want p = p_want p0 /\ p_given p = p_given p0 | None => False end \/
         alookup su (c_users c) = None))).
Proof.
  cbn zeta. unfold leave. destruct (alookup sid (c_sess c)) as [[su bkg]|] eqn:ES; [|now left].
  right. exists su, bkg. split; [reflexivity|]. cbn [c_users c_set_sess].
  destruct (alookup su (c_users c)) as [p0|] eqn:EP; destruct bkg; cbn [fst]; auto.
  - right. eexists. split; [reflexivity|]. left. cbn. auto.
  - right. eexists. split; [reflexivity|]. now right.
Qed.

(* ------------------------------------------------------------------ *)
(* handlers that do not touch modes                                     *)
Definition sneutral (s s' : store) : Prop :=
  (forall v, smode s' v = smode s v) /\ t_owner s' = t_owner s /\ sub_users s' = sub_users s /\
  t_auth s' = t_auth s /\ users s' = users s.
Definition cneutral (c c' : cache) : Prop :=
  (forall v, cmode c' v = cmode c v) /\ c_owner c' = c_owner c /\
  (NoDup (map fst (c_users c)) -> NoDup (map fst (c_users c'))) /\ c_sess c' = c_sess c /\ c_auth c' = c_auth c.

Lemma sneutral_refl s : sneutral s s. Proof. repeat split. Qed.
Lemma cneutral_refl c : cneutral c c. Proof. repeat split; auto. Qed.
Lemma sneutral_trans a b c : sneutral a b -> sneutral b c -> sneutral a c.
Proof. intros [A1 [A2 [A3 [A4 A5]]]] [B1 [B2 [B3 [B4 B5]]]]. repeat split; intros; congruence. Qed.
Lemma cneutral_trans a b c : cneutral a b -> cneutral b c -> cneutral a c.
Proof. intros [A1 [A2 [A3 [A4 A5]]]] [B1 [B2 [B3 [B4 B5]]]]. repeat split; intros; try congruence. auto. Qed.
Lemma sneutral_subs s s' : subs s' = subs s -> t_owner s' = t_owner s -> t_auth s' = t_auth s -> users s' = users s -> sneutral s s'.
Proof. intros E1 E2 E3 E4. unfold sneutral, smode, sub_users. rewrite E1. auto. Qed.
Lemma sneutral_marks s u up : u_want up = None -> u_given up = None -> sneutral s (ad_subs_update s u up).
Proof.
  intros E1 E2. destruct (sframe_subs_update s u up) as [_ [_ [_ [F1 [_ [_ F2]]]]]].
  split; [intros v; now apply smode_subs_update_marks|].
  split; [apply owner_subs_update|]. split; [apply users_subs_update|]. auto.
Qed.
Lemma cneutral_aset c u p p0 : alookup u (c_users c) = Some p0 -> p_want p = p_want p0 -> p_given p = p_given p0 ->
  cneutral c (c_set_users (aset u p) c).
Proof.
  intros E W G. split; [|split; [reflexivity|split; [apply keys_aset|split; reflexivity]]].
  intros v. rewrite cmode_aset. destruct (N.eqb_spec v u) as [-> | ]; [|reflexivity].
  unfold cmode. rewrite E, W, G. reflexivity.
Qed.
Lemma cneutral_map_delid c d : cneutral c (c_set_users (map (fun e => (fst e, p_set_delid d (snd e)))) c).
Proof.
  split; [intros v; apply cmode_map_delid|]. split; [reflexivity|]. split; [|split; reflexivity].
  cbn [c_users c_set_users]. rewrite map_map. cbn [fst]. rewrite <- (map_map (fun e => e) fst) at 1. now rewrite map_id.
Qed.

Lemma sneutral_seqid v s : sneutral s (st_seqid v s). Proof. now apply sneutral_subs. Qed.
Lemma sneutral_delid v s : sneutral s (st_delid v s). Proof. now apply sneutral_subs. Qed.
Lemma sneutral_msg_save s seq u ct s' : ad_msg_save s seq u ct = Some s' -> sneutral s s'.
Proof. unfold ad_msg_save. destruct (existsb _ _); intros H; inv H. now apply sneutral_subs. Qed.
Lemma sneutral_delete_list s d fu rs : sneutral s (ad_msg_delete_list s d fu rs).
Proof. unfold ad_msg_delete_list. destruct (fu =? 0); now apply sneutral_subs. Qed.
Lemma cneutral_lastid v c : cneutral c (c_set_lastid v c). Proof. repeat split; auto. Qed.
Lemma cneutral_delid v c : cneutral c (c_set_delid v c). Proof. repeat split; auto. Qed.

Lemma publish_neutral f s c n sid u content noecho :
  let h := publish f s c n sid u content noecho in sneutral s (h_st h) /\ cneutral c (h_ca h).
Proof.
  cbn zeta. unfold publish.
  destruct (negb (is_writer (pud_mode (get_pud c u)))); [split; [apply sneutral_refl|apply cneutral_refl]|].
  destruct (call f n) as [ok1 n1]. destruct ok1; cbn [negb]; [|split; [apply sneutral_refl|apply cneutral_refl]].
  destruct (call f n1) as [ok2 n2]. destruct ok2; cbn [negb];
    [|split; [apply sneutral_seqid|apply cneutral_refl]].
  destruct (ad_msg_save (st_seqid (c_lastid c + 1)%Z s) (c_lastid c + 1)%Z u content) as [s2|] eqn:SV;
    [|split; [apply sneutral_seqid|apply cneutral_refl]].
  apply sneutral_msg_save in SV.
  assert (sneutral s s2) as N2 by (eapply sneutral_trans; [apply sneutral_seqid|exact SV]).
  assert (cneutral c (if match alookup u (c_users c) with Some _ => true | None => false end
             then c_set_users (aset u (p_set_marks (c_lastid c + 1)%Z (c_lastid c + 1)%Z (get_pud c u))) (c_set_lastid (c_lastid c + 1)%Z c)
             else c_set_lastid (c_lastid c + 1)%Z c)) as NC.
  { unfold get_pud. destruct (alookup u (c_users c)) as [p0|] eqn:EP; [|apply cneutral_lastid].
    apply (cneutral_trans _ (c_set_lastid (c_lastid c + 1)%Z c)); [apply cneutral_lastid|].
    apply (cneutral_aset _ _ _ p0); auto. }
  destruct (is_reader (pud_mode (get_pud c u))); [destruct (call f n2) as [ok3 n3]; destruct ok3|]; cbn [andb h_st h_ca];
    (split; [|exact NC]); try exact N2.
  eapply sneutral_trans; [exact N2|]. now apply sneutral_marks.
Qed.

Lemma note_neutral f s c n sid u what seq :
  let h := note f s c n sid u what seq in sneutral s (h_st h) /\ cneutral c (h_ca h).
Proof.
  cbn zeta.
  destruct (note_cases f s c n sid u what seq) as [[E1 [E2 _]]|[_ [RD [_ [rd [rc [E1 [_ [_ [_ [_ [_ [E2 _]]]]]]]]]]]]].
  - rewrite E1, E2. split; [apply sneutral_refl|apply cneutral_refl].
  - rewrite E1. split.
    + destruct E2 as [[_ [_ [_ ->]]]|[_ [_ ->]]]; now apply sneutral_marks.
    + unfold get_pud in *. destruct (alookup u (c_users c)) as [p0|] eqn:EP; [|discriminate RD].
      apply (cneutral_aset _ _ _ p0); auto.
Qed.

Lemma del_msg_neutral dr f s c n sid u req hard :
  let h := del_msg dr f s c n sid u req hard in sneutral s (h_st h) /\ cneutral c (h_ca h).
Proof.
  cbn zeta. unfold del_msg.
  destruct (negb (is_deleter (user_mode c u)) && negb (is_reader (user_mode c u))) eqn:EM;
    [split; [apply sneutral_refl|apply cneutral_refl]|].
  destruct (dr (c_lastid c) req) as [ranges|]; [|split; [apply sneutral_refl|apply cneutral_refl]].
  destruct (call f n) as [ok1 n1]. destruct ok1; cbn [negb]; [|split; [apply sneutral_refl|apply cneutral_refl]].
  set (s1 := ad_msg_delete_list s (c_delid c + 1)%Z _ ranges).
  assert (sneutral s s1) as N1 by apply sneutral_delete_list.
  destruct (call f n1) as [ok2 n2]. destruct ok2; cbn [negb]; [|split; [exact N1|apply cneutral_refl]].
  destruct (call f n2) as [ok3 n3]. destruct ok3; cbn [negb h_st h_ca].
  2:{ split; [|apply cneutral_refl]. eapply sneutral_trans; [exact N1|]. apply sneutral_delid. }
  split.
  - eapply sneutral_trans; [exact N1|]. eapply sneutral_trans; [apply sneutral_delid|now apply sneutral_marks].
  - destruct (hard && is_deleter (user_mode c u)).
    + apply (cneutral_trans _ (c_set_delid (c_delid c + 1)%Z c)); [apply cneutral_delid|]. apply cneutral_map_delid.
    + apply (cneutral_trans _ (c_set_delid (c_delid c + 1)%Z c)); [apply cneutral_delid|].
      unfold user_mode, get_pud in *. cbn [c_users c_set_delid].
      destruct (alookup u (c_users c)) as [p0|] eqn:EP; [|discriminate EM].
      apply (cneutral_aset _ _ _ p0); auto.
Qed.

(* ------------------------------------------------------------------ *)
(* what one accepted request may do to the stored modes                 *)
Definition had_given_O (m : option (N * N * bool)) : Prop := exists w g d, m = Some (w, g, d) /\ is_owner g = true.

(* [u]: the acting user; [is_set t]: the request is {set sub} by [u] naming user [t];
   [asks]: the request is [u]'s own {sub}/{set sub} with an explicit mode containing O *)
Inductive ssum (u : N) (is_set : N -> Prop) (asks : Prop) (s s' : store) : Prop :=
| SumSame : (forall v, smode s' v = smode s v) -> t_owner s' = t_owner s -> ssum u is_set asks s s'
| SumSelf : (forall v, v <> u -> smode s' v = smode s v) -> t_owner s' = t_owner s ->
    (forall w' g' d', smode s' u = Some (w', g', d') -> is_owner g' = true -> had_given_O (smode s u)) ->
    ssum u is_set asks s s'
| SumOther (t : N) : t <> u -> t <> t_owner s -> (forall v, v <> t -> smode s' v = smode s v) -> t_owner s' = t_owner s ->
    (forall w' g' d', smode s' t = Some (w', g', d') -> is_owner g' = true ->
       had_given_O (smode s t) \/ (u = t_owner s /\ is_set t)) ->
    ssum u is_set asks s s'
| SumTransfer : u <> t_owner s -> t_owner s' = u -> asks ->
    (exists w g, smode s u = Some (w, g, false) /\ is_owner g = true /\ is_owner w = false) ->
    (exists w' g', smode s' (t_owner s) = Some (w', g', false) /\ is_owner w' = false /\ is_owner g' = false) ->
    (forall v, v <> u -> v <> t_owner s -> smode s' v = smode s v) ->
    ssum u is_set asks s s'.

Lemma sneutral_sum u is_set asks s s' : sneutral s s' -> ssum u is_set asks s s'.
Proof. intros [A [B _]]. now apply SumSame. Qed.

Section Inv.
Variable sm : sessmap.

Lemma oinv_owner_cached s c : oinv sm s c ->
  exists w' w g, smode s (t_owner s) = Some (w', g, false) /\ cmode c (t_owner s) = Some (w, g) /\
                 is_owner w' = true /\ is_owner w = true /\ is_owner g = true.
Proof.
  intros [[_ _ _ _ P] [_ _ _ CP _]]. specialize (P (t_owner s)). specialize (CP (t_owner s)).
  destruct (smode s (t_owner s)) as [[[w' g] d]|]; cbn in P; [|congruence]. rewrite N.eqb_refl in P.
  destruct P as [-> [W G]]. destruct (cmode c (t_owner s)) as [[w g0]|]; cbn in CP; [|destruct CP].
  destruct CP as [w2 [E EW]]. inv E. exists w2, w, g0. rewrite <- EW. auto.
Qed.
Lemma oinv_uncached s c u : oinv sm s c -> cmode c u = None -> u <> t_owner s.
Proof.
  intros I E ->. destruct (oinv_owner_cached s c I) as [w' [w [g [_ [C _]]]]]. congruence.
Qed.
Lemma oinv_cached s c u w g : oinv sm s c -> cmode c u = Some (w, g) ->
  exists w', smode s u = Some (w', g, false) /\ is_owner w' = is_owner w /\
             (if N.eqb u (t_owner s) then is_owner w = true /\ is_owner g = true else is_owner w = false).
Proof.
  intros [[_ _ _ _ P] [_ _ _ CP _]] E. specialize (P u). specialize (CP u). rewrite E in CP.
  destruct CP as [w' [M EW]]. rewrite M in P. cbn in P. exists w'. split; [exact M|]. split; [exact EW|].
  rewrite <- EW. destruct (N.eqb u (t_owner s)); tauto.
Qed.

(* assembling the invariant for a new state *)
Lemma oinv_build' s c s' c' : oinv sm s c -> t_auth s' = t_auth s -> users s' = users s -> c_auth c' = c_auth c ->
  t_owner s' <> 0 -> NoDup (sub_users s') -> c_owner c' = t_owner s' -> NoDup (map fst (c_users c')) ->
  (forall v, spoint (t_owner s') v (smode s' v) /\ cpoint (smode s' v) (cmode c' v)) ->
  (forall sid su b, In (sid, (su, b)) (c_sess c') -> su = sess_uid sm sid /\ cmode c' su <> None) ->
  oinv sm s' c'.
Proof.
  intros [[_ AU US _ _] [_ CA _ _ _]] E1 E2 E3 O0 ND CO NK PT SE.
  split; constructor; auto; try (intros v; apply PT).
  - now rewrite E1.
  - now rewrite E2.
  - now rewrite E3, E1.
Qed.
Lemma oinv_build s c s' c' : oinv sm s c -> sframe s s' -> cframe c c' ->
  t_owner s' <> 0 -> NoDup (sub_users s') -> c_owner c' = t_owner s' -> NoDup (map fst (c_users c')) ->
  (forall v, spoint (t_owner s') v (smode s' v) /\ cpoint (smode s' v) (cmode c' v)) ->
  (forall sid su b, In (sid, (su, b)) (c_sess c') -> su = sess_uid sm sid /\ cmode c' su <> None) ->
  oinv sm s' c'.
Proof.
  intros I [_ [_ [_ [E1 [_ [_ E2]]]]]] [_ [_ [E3 _]]]. now apply (oinv_build' s c).
Qed.

Lemma oinv_neutral s c s' c' : oinv sm s c -> sneutral s s' -> cneutral c c' -> oinv sm s' c'.
Proof.
  intros I [A1 [A2 [A3 [A4 A5]]]] [B1 [B2 [B3 [B4 B5]]]]. pose proof I as [[O0 _ _ ND P] [CO _ NK CP SE]].
  apply (oinv_build' s c); [exact I|exact A4|exact A5|exact B5|congruence|now rewrite A3|congruence|now apply B3| |].
  - intros v. rewrite A1, A2, B1. auto.
  - intros sid su b. rewrite B4, B1. apply (SE sid su b).
Qed.

(* eviction of a user who stays subscribed changes no mode *)
Lemma oinv_evicted s c c1 u : oinv sm s c -> evicted c u c1 -> oinv sm s c1.
Proof.
  intros I [-> | ->]; [exact I|]. destruct (evict_user c u false 0) as [c' o] eqn:EV. cbn [fst].
  assert (forall v, cmode c' v = cmode c v) as CM by (intros v; now rewrite (evict_cmode _ _ _ _ _ _ v EV)).
  destruct (evict_misc _ _ _ _ _ _ EV) as [EO [EK ES]]. pose proof (evict_frame _ _ _ _ _ _ EV) as CF.
  pose proof I as [[O0 _ _ ND P] [CO _ NK CP SE]].
  apply (oinv_build s c); [exact I|apply sframe_refl|exact CF|exact O0|exact ND|congruence|now apply EK| |].
  - intros v. rewrite CM. auto.
  - intros sid su b Hin. rewrite CM. apply (SE sid su b). apply ES in Hin. tauto.
Qed.
End Inv.

Section Shapes.
Variable sm : sessmap.
Variable is_set : N -> Prop.
Variable asks : Prop.

Lemma eqb_neq_false a b : a <> b -> N.eqb a b = false. Proof. apply N.eqb_neq. Qed.

Lemma oinv_tus_new s c u wantm given s' :
  oinv sm s c -> u <> 0 -> alookup u (c_users c) = None -> is_owner wantm = false ->
  (given = c_auth c \/ exists r, find_sub u (subs s) = Some r /\ s_given r = given) ->
  (s' = ad_sub_create s u wantm given /\ (forall r, find_sub u (subs s) = Some r -> s_deleted r = true)
   \/ s' = s /\ exists r, find_sub u (subs s) = Some r /\ s_deleted r = false) ->
  oinv sm s' (c_set_users (aset u (mkPud wantm given 0 0 0 0)) c) /\ ssum u is_set asks s s'.
Proof.
  intros I U0 EU WO GP ST.
  assert (cmode c u = None) as CU by (unfold cmode; now rewrite EU).
  pose proof (oinv_uncached sm s c u I CU) as NO.
  pose proof I as [[O0 AU US ND P] [CO CA NK CP SE]].
  destruct ST as [[-> DEL]|[-> [r [F D]]]].
  2:{ exfalso. specialize (CP u). rewrite CU in CP. unfold smode in CP. rewrite F, D in CP. exact CP. }
  assert (t_owner (ad_sub_create s u wantm given) = t_owner s) as EO.
  { rewrite owner_sub_create, is_owner_land, WO. reflexivity. }
  split.
  - apply (oinv_build sm s c); [exact I|apply sframe_sub_create|apply cframe_users|congruence|now apply users_sub_create|
                                 cbn [c_owner c_set_users]; congruence|now apply keys_aset| |].
    + intros v. rewrite smode_sub_create, cmode_aset, EO. destruct (N.eqb_spec v u) as [-> | NE]; [|auto].
      split; cbn. * rewrite (eqb_neq_false _ _ NO). exact WO. * eauto.
    + intros sid su b Hin. cbn [c_sess c_set_users] in Hin. destruct (SE sid su b Hin) as [E1 E2]. split; [exact E1|].
      rewrite cmode_aset. destruct (N.eqb su u); [discriminate|exact E2].
  - apply SumSelf; [|exact EO|].
    + intros v NE. rewrite smode_sub_create, (eqb_neq_false _ _ NE). reflexivity.
    + intros w' g' d'. rewrite smode_sub_create, N.eqb_refl. intros E OG. inv E.
      destruct GP as [-> | [r [F G]]]; [congruence|]. exists (s_want r), (s_given r), (s_deleted r).
      unfold smode. rewrite F. split; congruence.
Qed.

Lemma oinv_tus_upd s c u p0 w1 g1 ow og s' :
  oinv sm s c -> u <> 0 -> alookup u (c_users c) = Some p0 ->
  (ow = Some w1 \/ ow = None /\ w1 = p_want p0) ->
  (og = Some g1 \/ og = None /\ g1 = p_given p0) ->
  (s' = s /\ ow = None /\ og = None \/ s' = ad_subs_update s u (mkUpd ow og None None None)) ->
  is_owner g1 = is_owner (p_given p0) ->
  (is_owner w1 = true -> is_owner (p_want p0) = true \/ c_owner c = u /\ is_owner (p_given p0) = true) ->
  (c_owner c = u -> is_owner (p_want p0) = true -> is_owner (p_given p0) = true -> is_owner w1 = true) ->
  oinv sm s' (c_set_users (aset u (p_set_modes w1 g1 p0)) c) /\ ssum u is_set asks s s'.
Proof.
  intros I U0 EU HW HG ST OG F1 F2.
  assert (cmode c u = Some (p_want p0, p_given p0)) as CU by (unfold cmode; now rewrite EU).
  destruct (oinv_cached sm s c u _ _ I CU) as [w' [SU [EW OC]]].
  pose proof I as [[O0 AU US ND P] [CO CA NK CP SE]].
  set (w2 := match ow with Some x => x | None => w' end).
  assert (is_owner w2 = is_owner w1) as EW2.
  { unfold w2. destruct HW as [-> | [-> ->]]; [reflexivity|exact EW]. }
  assert ((forall v, smode s' v = if N.eqb v u then Some (w2, g1, false) else smode s v) /\
          t_owner s' = t_owner s /\ sub_users s' = sub_users s /\ sframe s s') as [SM [EO [EU' SF]]].
  { destruct ST as [[-> [-> ->]]| ->].
    - split; [|split; [reflexivity|split; [reflexivity|apply sframe_refl]]].
      intros v. destruct (N.eqb_spec v u) as [-> | ]; [|reflexivity]. rewrite SU. unfold w2.
      destruct HG as [HG|[_ ->]]; [discriminate|reflexivity].
    - split; [|split; [apply owner_subs_update|split; [apply users_subs_update|apply sframe_subs_update]]].
      intros v. rewrite smode_subs_update by exact U0. destruct (N.eqb_spec v u) as [-> | ]; [|reflexivity].
      rewrite SU. cbn. unfold upd_modes, w2. cbn. destruct HG as [-> | [-> ->]]; reflexivity. }
  assert (spoint (t_owner s) u (Some (w2, g1, false))) as PU.
  { cbn. rewrite EW2, OG. destruct (N.eqb_spec u (t_owner s)) as [E|NE].
    - destruct OC as [OW OGv]. split; [reflexivity|]. split; [|exact OGv]. apply F2; auto. congruence.
    - destruct (is_owner w1) eqn:W1; [|reflexivity]. destruct (F1 eq_refl) as [H|[H _]]; congruence. }
  split.
  - apply (oinv_build sm s c); [exact I|exact SF|apply cframe_users|congruence|now rewrite EU'|
                                 cbn [c_owner c_set_users]; congruence|now apply keys_aset| |].
    + intros v. rewrite SM, cmode_aset, EO. destruct (N.eqb_spec v u) as [-> | NE]; [|auto].
      split; [exact PU|]. cbn. exists w2. auto.
    + intros sid su b Hin. cbn [c_sess c_set_users] in Hin. destruct (SE sid su b Hin) as [E1 E2]. split; [exact E1|].
      rewrite cmode_aset. destruct (N.eqb su u); [discriminate|exact E2].
  - apply SumSelf; [|exact EO|].
    + intros v NE. rewrite SM, (eqb_neq_false _ _ NE). reflexivity.
    + intros w3 g3 d3. rewrite SM, N.eqb_refl. intros E OG3. inv E.
      exists w', (p_given p0), false. split; [exact SU|congruence].
Qed.

Lemma oinv_tus_transfer s c u p0 w1 g1 og s' c' :
  oinv sm s c -> u <> 0 -> alookup u (c_users c) = Some p0 ->
  is_owner (p_want p0) = false -> is_owner (p_given p0) = true -> is_owner w1 = true -> is_owner g1 = true ->
  (og = Some g1 \/ og = None /\ g1 = p_given p0) -> asks ->
  let prev := c_owner c in let pp := get_pud c prev in
  let pw := N.ldiff (p_want pp) mO in let pg := N.ldiff (p_given pp) mO in
  let cT := c_set_owner u (c_set_users (aset prev (p_set_modes pw pg pp)) c) in
  s' = st_owner u (ad_subs_update (ad_subs_update s u (mkUpd (Some w1) og None None None)) prev
                                  (mkUpd (Some pw) (Some pg) None None None)) ->
  c' = c_set_users (aset u (p_set_modes w1 g1 (get_pud cT u))) cT ->
  oinv sm s' c' /\ ssum u is_set asks s s'.
Proof.
  intros I U0 EU OW OG W1 G1 HG AS prev pp pw pg cT -> ->.
  assert (cmode c u = Some (p_want p0, p_given p0)) as CU by (unfold cmode; now rewrite EU).
  destruct (oinv_cached sm s c u _ _ I CU) as [w' [SU [EW OC]]].
  assert (u <> t_owner s) as NO.
  { intros E. rewrite E, N.eqb_refl in OC. destruct OC. congruence. }
  destruct (oinv_owner_cached sm s c I) as [ow' [owc [og0 [SO [CO' [_ [_ _]]]]]]].
  pose proof I as [[O0 AU US ND P] [CO CA NK CP SE]].
  assert (prev = t_owner s) as EP by exact CO.
  assert (is_owner pw = false /\ is_owner pg = false) as [PW PG] by (split; apply is_owner_ldiff_mO).
  set (s1 := ad_subs_update (ad_subs_update s u (mkUpd (Some w1) og None None None)) prev (mkUpd (Some pw) (Some pg) None None None)).
  assert (forall v, smode (st_owner u s1) v =
            if N.eqb v (t_owner s) then Some (pw, pg, false) else if N.eqb v u then Some (w1, g1, false) else smode s v) as SM.
  { intros v. change (smode (st_owner u s1) v) with (smode s1 v). unfold s1.
    rewrite smode_subs_update by congruence. rewrite smode_subs_update by exact U0. rewrite EP.
    destruct (N.eqb_spec v (t_owner s)) as [->|NE1].
    - rewrite (eqb_neq_false _ _ (not_eq_sym NO)), SO. reflexivity.
    - destruct (N.eqb_spec v u) as [->|NE2]; [|reflexivity]. rewrite SU. cbn. unfold upd_modes. cbn.
      destruct HG as [->|[-> ->]]; reflexivity. }
  assert (forall v, cmode (c_set_users (aset u (p_set_modes w1 g1 (get_pud cT u))) cT) v =
            if N.eqb v u then Some (w1, g1) else if N.eqb v (t_owner s) then Some (pw, pg) else cmode c v) as CM.
  { intros v. rewrite cmode_aset. cbn [p_want p_given p_set_modes]. destruct (N.eqb v u); [reflexivity|].
    unfold cT. change (cmode (c_set_owner u (c_set_users (aset prev (p_set_modes pw pg pp)) c)) v)
      with (cmode (c_set_users (aset prev (p_set_modes pw pg pp)) c) v).
    rewrite cmode_aset, EP. reflexivity. }
  split.
  - apply (oinv_build sm s c); [exact I| | |exact U0| |reflexivity| | |].
    + eapply sframe_trans; [|apply sframe_owner]. eapply sframe_trans; [|apply sframe_subs_update]. apply sframe_subs_update.
    + eapply cframe_trans; [|apply cframe_users]. eapply cframe_trans; [|apply cframe_owner]. apply cframe_users.
    + change (sub_users (st_owner u s1)) with (sub_users s1). unfold s1. now rewrite !users_subs_update.
    + cbn [c_users c_set_users]. apply keys_aset. unfold cT. cbn [c_users c_set_users c_set_owner]. now apply keys_aset.
    + intros v. rewrite SM, CM. cbn [t_owner st_owner]. specialize (P v). specialize (CP v).
      destruct (N.eqb_spec v (t_owner s)) as [->|NE1].
      * rewrite (eqb_neq_false _ _ (not_eq_sym NO)). split; cbn.
        -- rewrite (eqb_neq_false _ _ (not_eq_sym NO)). exact PW.
        -- eauto.
      * destruct (N.eqb_spec v u) as [->|NE2].
        -- split; cbn; [rewrite N.eqb_refl; auto|eauto].
        -- split; [|exact CP]. unfold spoint in *. rewrite (eqb_neq_false _ _ NE1) in P. rewrite (eqb_neq_false _ _ NE2).
           destruct (smode s v) as [[[? ?] ?]|]; auto.
    + intros sid su b Hin. destruct (SE sid su b Hin) as [E1 E2]. split; [exact E1|]. rewrite CM.
      destruct (N.eqb su u); [discriminate|]. destruct (N.eqb su (t_owner s)); [discriminate|exact E2].
  - apply SumTransfer; auto.
    + exists w', (p_given p0). rewrite <- EW in OW. auto.
    + exists pw, pg. rewrite SM, N.eqb_refl. auto.
    + intros v N1 N2. rewrite SM, (eqb_neq_false _ _ N1), (eqb_neq_false _ _ N2). reflexivity.
Qed.

Lemma oinv_aus_new s c u t wantm given :
  oinv sm s c -> t <> u -> alookup t (c_users c) = None ->
  (is_owner given = true -> c_owner c = u) -> (is_owner given = true -> is_set t) ->
  ((exists r, find_sub t (subs s) = Some r /\ wantm = s_want r) \/
   (exists acc, alookup t (users s) = Some acc /\ wantm = N.land acc given)) ->
  oinv sm (ad_sub_create s t wantm given) (c_set_users (aset t (mkPud wantm given 0 0 0 0)) c) /\
  ssum u is_set asks s (ad_sub_create s t wantm given).
Proof.
  intros I TU ET HO HS WP.
  assert (cmode c t = None) as CT by (unfold cmode; now rewrite ET).
  pose proof (oinv_uncached sm s c t I CT) as NO.
  pose proof I as [[O0 AU US ND P] [CO CA NK CP SE]].
  assert (is_owner wantm = false) as WO.
  { destruct WP as [[r [F ->]]|[acc [F ->]]].
    - specialize (P t). unfold smode in P. rewrite F in P. cbn in P. now rewrite (eqb_neq_false _ _ NO) in P.
    - rewrite is_owner_land, (US _ _ F). reflexivity. }
  assert (t_owner (ad_sub_create s t wantm given) = t_owner s) as EO.
  { rewrite owner_sub_create, is_owner_land, WO. reflexivity. }
  split.
  - apply (oinv_build sm s c); [exact I|apply sframe_sub_create|apply cframe_users|congruence|now apply users_sub_create|
                                 cbn [c_owner c_set_users]; congruence|now apply keys_aset| |].
    + intros v. rewrite smode_sub_create, cmode_aset, EO. destruct (N.eqb_spec v t) as [->|NE]; [|auto].
      split; cbn. * rewrite (eqb_neq_false _ _ NO). exact WO. * eauto.
    + intros sid su b Hin. cbn [c_sess c_set_users] in Hin. destruct (SE sid su b Hin) as [E1 E2]. split; [exact E1|].
      rewrite cmode_aset. destruct (N.eqb su t); [discriminate|exact E2].
  - apply (SumOther _ _ _ _ _ t); [exact TU|exact NO| |exact EO|].
    + intros v NE. rewrite smode_sub_create, (eqb_neq_false _ _ NE). reflexivity.
    + intros w' g' d'. rewrite smode_sub_create, N.eqb_refl. intros E OG. inv E. right. split; [|auto].
      rewrite <- CO. symmetry. auto.
Qed.

Lemma oinv_aus_upd s c u t pt mg :
  oinv sm s c -> t <> u -> t <> 0 -> alookup t (c_users c) = Some pt ->
  (is_owner mg = true -> c_owner c = u) -> (c_owner c = t -> is_owner mg = true) -> is_set t ->
  oinv sm (ad_subs_update s t (mkUpd None (Some mg) None None None)) (c_set_users (aset t (p_set_modes (p_want pt) mg pt)) c) /\
  ssum u is_set asks s (ad_subs_update s t (mkUpd None (Some mg) None None None)).
Proof.
  intros I TU T0 ET HO HT HS.
  assert (cmode c t = Some (p_want pt, p_given pt)) as CT by (unfold cmode; now rewrite ET).
  destruct (oinv_cached sm s c t _ _ I CT) as [w' [ST [EW OC]]].
  pose proof I as [[O0 AU US ND P] [CO CA NK CP SE]].
  assert (t <> t_owner s) as NO.
  { intros E. apply TU. rewrite <- (HO (HT (eq_trans CO (eq_sym E)))). congruence. }
  rewrite (eqb_neq_false _ _ NO) in OC.
  assert (forall v, smode (ad_subs_update s t (mkUpd None (Some mg) None None None)) v =
            if N.eqb v t then Some (w', mg, false) else smode s v) as SM.
  { intros v. rewrite smode_subs_update by exact T0. destruct (N.eqb_spec v t) as [->|]; [|reflexivity]. now rewrite ST. }
  split.
  - apply (oinv_build sm s c); [exact I|apply sframe_subs_update|apply cframe_users|now rewrite owner_subs_update|
                                 now rewrite users_subs_update|cbn [c_owner c_set_users]; now rewrite owner_subs_update|now apply keys_aset| |].
    + intros v. rewrite SM, cmode_aset, owner_subs_update. destruct (N.eqb_spec v t) as [->|NE]; [|auto].
      split; cbn. * rewrite (eqb_neq_false _ _ NO). congruence. * eauto.
    + intros sid su b Hin. cbn [c_sess c_set_users] in Hin. destruct (SE sid su b Hin) as [E1 E2]. split; [exact E1|].
      rewrite cmode_aset. destruct (N.eqb su t); [discriminate|exact E2].
  - apply (SumOther _ _ _ _ _ t); [exact TU|exact NO| |apply owner_subs_update|].
    + intros v NE. rewrite SM, (eqb_neq_false _ _ NE). reflexivity.
    + intros w2 g2 d2. rewrite SM, N.eqb_refl. intros E OG. inv E. right. split; [|exact HS].
      rewrite <- CO. symmetry. auto.
Qed.

(* unsubscribing a user who is not the owner: by himself or by a manager *)
Lemma oinv_unsub s c t k s' :
  oinv sm s c -> t <> t_owner s -> (ad_subs_delete s t = Some s' \/ ad_subs_delete s t = None /\ s' = s /\ cmode c t <> None) ->
  oinv sm s' (fst (evict_user c t true k)) /\
  (forall v, v <> t -> smode s' v = smode s v) /\ t_owner s' = t_owner s /\
  (forall w' g' d', smode s' t = Some (w', g', d') -> is_owner g' = true -> had_given_O (smode s t)).
Proof.
  intros I NO ST. pose proof I as [[O0 AU US ND P] [CO CA NK CP SE]].
  destruct ST as [ST|[ST [-> CT]]].
  2:{ exfalso. apply subs_delete_none in ST. specialize (CP t). destruct (cmode c t) as [[w g]|]; [|congruence].
      destruct CP as [w' [E _]]. rewrite E in ST. exact ST. }
  destruct (subs_delete_some _ _ _ ST) as [[w [g SU]] [SM [EO EU]]].
  destruct (evict_user c t true k) as [c' o] eqn:EV. cbn [fst].
  assert (forall v, cmode c' v = if N.eqb v t then None else cmode c v) as CM by (intros v; now rewrite (evict_cmode _ _ _ _ _ _ v EV)).
  destruct (evict_misc _ _ _ _ _ _ EV) as [EOc [EK ES]]. pose proof (evict_frame _ _ _ _ _ _ EV) as CF.
  split; [|split; [|split]].
  - apply (oinv_build sm s c); [exact I|now apply sframe_subs_delete in ST|exact CF|congruence|congruence|congruence|now apply EK| |].
    + intros v. rewrite SM, CM, EO. destruct (N.eqb_spec v t) as [->|NE]; [|auto].
      specialize (P t). rewrite SU in *. cbn in *. rewrite (eqb_neq_false _ _ NO) in *. auto.
    + intros sid su b Hin. destruct (ES _ Hin) as [H1 H2]. cbn [fst snd] in H2. destruct (SE sid su b H1) as [E1 E2].
      split; [exact E1|]. rewrite CM, (eqb_neq_false _ _ H2). exact E2.
  - intros v NE. rewrite SM, (eqb_neq_false _ _ NE). reflexivity.
  - exact EO.
  - intros w' g' d'. rewrite SM, N.eqb_refl, SU. cbn. intros E OG. inv E. eexists _, _, _. split; [first [exact SU|reflexivity]|exact OG].
Qed.

(* the offline {set sub}: only the requester's own want, never its O bit; any cache stays coherent *)
Lemma sinv_offline s u w g mw :
  sinv s -> u <> 0 -> smode s u = Some (w, g, false) -> is_owner mw = is_owner w ->
  let s' := ad_subs_update s u (mkUpd (Some mw) None None None None) in
  sinv s' /\ (forall c, cinv sm s c -> cinv sm s' c) /\ ssum u is_set asks s s'.
Proof.
  intros SI U0 SU EW s'. pose proof SI as [O0 AU US ND P].
  assert (forall v, smode s' v = if N.eqb v u then Some (mw, g, false) else smode s v) as SM.
  { intros v. unfold s'. rewrite smode_subs_update by exact U0. destruct (N.eqb_spec v u) as [->|]; [|reflexivity]. now rewrite SU. }
  assert (t_owner s' = t_owner s) as EO by apply owner_subs_update.
  split; [|split].
  - destruct (sframe_subs_update s u (mkUpd (Some mw) None None None None)) as [_ [_ [_ [F1 [_ [_ F2]]]]]]. fold s' in F1, F2.
    constructor.
    + congruence.
    + now rewrite F1.
    + now rewrite F2.
    + unfold s'. now rewrite users_subs_update.
    + intros v. rewrite SM, EO. destruct (N.eqb_spec v u) as [->|NE]; [|auto].
      specialize (P u). rewrite SU in P. cbn in *. rewrite EW. exact P.
  - intros c [CO CA NK CP SE].
    destruct (sframe_subs_update s u (mkUpd (Some mw) None None None None)) as [_ [_ [_ [F1 _]]]]. fold s' in F1.
    constructor; [congruence|congruence|exact NK| |exact SE].
    intros v. rewrite SM. destruct (N.eqb_spec v u) as [->|NE]; [|auto].
    specialize (CP u). rewrite SU in CP. destruct (cmode c u) as [[cw cg]|]; cbn in *; [|exact CP].
    destruct CP as [w' [E E2]]. inv E. exists mw. split; [reflexivity|congruence].
  - apply SumSelf; [|exact EO|].
    + intros v NE. rewrite SM, (eqb_neq_false _ _ NE). reflexivity.
    + intros w' g' d'. rewrite SM, N.eqb_refl. intros E OG. inv E. eexists _, _, _. split; [first [exact SU|reflexivity]|exact OG].
Qed.

Lemma evicted_cmode c u c' : evicted c u c' -> forall v, cmode c' v = cmode c v.
Proof.
  intros [-> | ->] v; [reflexivity|]. destruct (evict_user c u false 0) as [c1 o] eqn:EV. cbn [fst].
  now rewrite (evict_cmode _ _ _ _ _ _ v EV).
Qed.

Lemma oinv_add_sess s c sid u bkg : oinv sm s c -> cmode c u <> None -> u = sess_uid sm sid ->
  oinv sm s (c_set_sess (aset sid (u, bkg)) c).
Proof.
  intros I CU EU. pose proof I as [SI [CO CA NK CP SE]]. split; [exact SI|]. constructor; auto.
  intros sid' su b Hin. cbn [c_sess c_set_sess] in Hin. apply in_aset in Hin. destruct Hin as [E|Hin].
  - inv E. auto.
  - apply (SE sid' su b Hin).
Qed.
Lemma oinv_online s c u v : oinv sm s c -> oinv sm s (c_set_users (aset u (p_set_online v (get_pud c u))) c) \/ cmode c u = None.
Proof.
  intros I. unfold get_pud, cmode. destruct (alookup u (c_users c)) as [p|] eqn:E; [left|now right].
  apply (oinv_neutral sm s c); auto; [apply sneutral_refl|].
  now apply (cneutral_aset _ _ _ p).
Qed.

(* thisUserSub and anotherUserSub under the invariant *)
Lemma tus_inv f s c n sid u want nb : oinv sm s c -> u <> 0 ->
  (f = NoFault \/ is_owner (req_mode want) = false) -> (is_owner (req_mode want) = true -> asks) ->
  let hr := this_user_sub f s c n sid u want nb in
  oinv sm (h_st (fst hr)) (h_ca (fst hr)) /\ ssum u is_set asks s (h_st (fst hr)) /\
  (forall ch, snd hr = SubOk ch -> cmode (h_ca (fst hr)) u <> None).
Proof.
  intros I U0 FS AS. cbn zeta. pose proof I as [[_ AU _ _ _] [_ CA _ _ _]].
  assert (is_owner (c_auth c) = false) as AC by congruence.
  pose proof (tus_cases f s c n sid u want nb AC) as TC.
  remember (this_user_sub f s c n sid u want nb) as hr eqn:Ehr. clear Ehr.
  destruct TC as [E1 E2 [code E3]|wantm given EU WO GP ST EV|p0 w1 g1 ow og EU HW HG ST EV OG F1 F2
                                                   |p0 w1 g1 og EU OW OG W1 G1 EW HG prev pp pw pg cT ST EV|NF OR _ _].
  - rewrite E1, E2. split; [exact I|]. split; [apply SumSame; reflexivity|]. intros ch. rewrite E3. discriminate.
  - destruct (oinv_tus_new s c u wantm given (h_st (fst hr)) I U0 EU WO GP) as [I2 SS].
    { exact ST. }
    split; [eapply oinv_evicted; eauto|]. split; [exact SS|]. intros _ _.
    rewrite (evicted_cmode _ _ _ EV), cmode_aset, N.eqb_refl. discriminate.
  - destruct (oinv_tus_upd s c u p0 w1 g1 ow og (h_st (fst hr)) I U0 EU HW HG) as [I2 SS]; auto.
    split; [eapply oinv_evicted; eauto|]. split; [exact SS|]. intros _ _.
    rewrite (evicted_cmode _ _ _ EV), cmode_aset, N.eqb_refl. discriminate.
  - assert asks as A by (apply AS; congruence).
    destruct (oinv_tus_transfer s c u p0 w1 g1 og (h_st (fst hr)) _ I U0 EU OW OG W1 G1 HG A ST eq_refl) as [I2 SS].
    split; [eapply oinv_evicted; eauto|]. split; [exact SS|]. intros _ _.
    rewrite (evicted_cmode _ _ _ EV), cmode_aset, N.eqb_refl. discriminate.
  - exfalso. destruct FS; congruence.
Qed.

Lemma aus_inv f s c n sid u t mode : oinv sm s c -> t <> u -> t <> 0 -> is_set t ->
  let hr := another_user_sub f s c n sid u t mode in
  oinv sm (h_st (fst hr)) (h_ca (fst hr)) /\ ssum u is_set asks s (h_st (fst hr)).
Proof.
  intros I TU T0 HS. cbn zeta. pose proof I as [[_ AU _ _ _] [_ CA _ _ _]].
  assert (is_owner (c_auth c) = false) as AC by congruence.
  pose proof (aus_cases f s c n sid u t mode AC) as TC.
  remember (another_user_sub f s c n sid u t mode) as hr eqn:Ehr. clear Ehr.
  destruct TC as [E1 EV|wantm given ET HO WP ST EV|pt mg ET HO HT ST EV].
  - rewrite E1. split; [eapply oinv_evicted; eauto|apply SumSame; reflexivity].
  - destruct (oinv_aus_new s c u t wantm given I TU ET HO (fun _ => HS) WP) as [I2 SS]. rewrite ST.
    split; [eapply oinv_evicted; eauto|exact SS].
  - destruct (oinv_aus_upd s c u t pt mg I TU T0 ET HO HT HS) as [I2 SS]. rewrite ST.
    split; [eapply oinv_evicted; eauto|exact SS].
Qed.

Lemma sub_reply_inv f s c n sid u want bkg : oinv sm s c -> u <> 0 -> u = sess_uid sm sid ->
  (f = NoFault \/ is_owner (req_mode want) = false) -> (is_owner (req_mode want) = true -> asks) ->
  let h := sub_reply f s c n sid u want bkg in
  oinv sm (h_st h) (h_ca h) /\ ssum u is_set asks s (h_st h).
Proof.
  intros I U0 EU FS AS. cbn zeta. unfold sub_reply.
  pose proof (tus_inv f s c n sid u want (match alookup u (c_users c) with Some _ => false | None => true end) I U0 FS AS) as TI.
  cbn zeta in TI. destruct (this_user_sub f s c n sid u want _) as [h r]. cbn [fst snd] in TI. destruct TI as [I2 [SS CU]].
  destruct r as [code|ch]; cbn [h_st h_ca]; [auto|]. split; [|exact SS].
  specialize (CU ch eq_refl).
  destruct (match ch with Some (w, g) => is_joiner (N.land g w) | None => true end); [|exact I2].
  assert (oinv sm (h_st h) (c_set_sess (aset sid (u, bkg)) (h_ca h))) as I3 by (apply oinv_add_sess; auto).
  destruct bkg; [exact I3|].
  destruct (oinv_online (h_st h) (c_set_sess (aset sid (u, false)) (h_ca h)) u
              (p_online (get_pud (c_set_sess (aset sid (u, false)) (h_ca h)) u) + 1)%Z I3) as [I4|E]; [exact I4|].
  exfalso. apply CU. exact E.
Qed.

Lemma set_sub_inv f s c n sid u target mode : oinv sm s c -> u <> 0 ->
  (f = NoFault \/ is_owner (req_mode mode) = false) ->
  (target = 0 \/ target = u -> is_owner (req_mode mode) = true -> asks) ->
  (target <> 0 -> target <> u -> is_set target) ->
  let h := set_sub f s c n sid u target mode in
  oinv sm (h_st h) (h_ca h) /\ ssum u is_set asks s (h_st h).
Proof.
  intros I U0 FS AS HS. cbn zeta. unfold set_sub.
  destruct ((target =? 0) || N.eqb target u) eqn:SELF.
  - assert (target = 0 \/ target = u) as ST.
    { apply orb_true_iff in SELF. destruct SELF as [E|E]; apply N.eqb_eq in E; auto. }
    pose proof (tus_inv f s c n sid u mode false I U0 FS (AS ST)) as TI. cbn zeta in TI.
    destruct (this_user_sub f s c n sid u mode false) as [h r]. cbn [fst snd] in TI. destruct TI as [I2 [SS _]].
    destruct r; cbn [h_st h_ca]; auto.
  - apply orb_false_iff in SELF. destruct SELF as [E1 E2]. apply N.eqb_neq in E1, E2.
    pose proof (aus_inv f s c n sid u target mode I E2 E1 (HS E1 E2)) as TI. cbn zeta in TI.
    destruct (another_user_sub f s c n sid u target mode) as [h r]. cbn [fst snd] in TI. destruct TI as [I2 SS].
    destruct r; cbn [h_st h_ca]; auto.
Qed.

Lemma del_sub_inv f s c n sid u target : oinv sm s c ->
  let h := del_sub f s c n sid u target in
  oinv sm (h_st h) (h_ca h) /\ ssum u is_set asks s (h_st h).
Proof.
  intros I. cbn zeta.
  destruct (del_sub_cases f s c n sid u target) as [[E1 E2]|[pt [TU [ET [OP [ST EC]]]]]].
  - rewrite E1, E2. split; [exact I|apply SumSame; reflexivity].
  - assert (cmode c target = Some (p_want pt, p_given pt)) as CT by (unfold cmode; now rewrite ET).
    destruct (oinv_cached sm s c target _ _ I CT) as [w' [SU [EW OC]]].
    assert (target <> t_owner s) as NO.
    { intros E. rewrite E, N.eqb_refl in OC. destruct OC as [A B]. rewrite pud_mode_owner, A, B in OP. discriminate. }
    destruct (oinv_unsub s c target 0 (h_st (del_sub f s c n sid u target)) I NO) as [I2 [SM [EO HG]]].
    { destruct ST as [ST|[ST1 ST2]]; [now left|right]. split; [exact ST1|]. split; [exact ST2|]. congruence. }
    rewrite EC. split; [exact I2|]. apply (SumOther _ _ _ _ _ target); auto.
    intros w2 g2 d2 E OG. left. eapply HG; eauto.
Qed.

Lemma leave_unsub_inv f s c n sid u : oinv sm s c ->
  let h := leave_unsub f s c n sid u in
  oinv sm (h_st h) (h_ca h) /\ ssum u is_set asks s (h_st h).
Proof.
  intros I. cbn zeta.
  destruct (leave_unsub_cases f s c n sid u) as [[E1 E2]|[NO [ST EC]]].
  - rewrite E1, E2. split; [exact I|apply SumSame; reflexivity].
  - pose proof I as [_ [CO _ _ _ _]]. assert (u <> t_owner s) as NO2 by congruence.
    destruct (oinv_unsub s c u sid (h_st (leave_unsub f s c n sid u)) I NO2 (or_introl ST)) as [I2 [SM [EO HG]]].
    rewrite EC. split; [exact I2|]. apply SumSelf; auto.
Qed.

Lemma leave_inv s c sid u : oinv sm s c -> oinv sm s (fst (leave c sid u)).
Proof.
  intros I. destruct (leave_cases c sid u) as [->|[su [bkg [ES [->|[p [-> HP]]]]]]]; [exact I| |].
  - pose proof I as [SI [CO CA NK CP SE]]. split; [exact SI|]. constructor; auto.
    intros sid' su' b Hin. cbn [c_sess c_set_sess] in Hin. apply in_aremove in Hin. apply (SE sid' su' b Hin).
  - pose proof I as [SI [CO CA NK CP SE]].
    destruct (SE sid su bkg (alookup_in _ _ _ ES)) as [_ CS]. apply cmode_cached in CS.
    destruct (alookup su (c_users c)) as [p0|] eqn:EP; [|congruence]. destruct HP as [[W G]|HP]; [|discriminate].
    assert (oinv sm s (c_set_sess (aremove sid) c)) as I1.
    { split; [exact SI|]. constructor; auto.
      intros sid' su' b Hin. cbn [c_sess c_set_sess] in Hin. apply in_aremove in Hin. apply (SE sid' su' b Hin). }
    apply (oinv_neutral sm s (c_set_sess (aremove sid) c)); auto; [apply sneutral_refl|].
    apply (cneutral_aset _ _ _ p0); auto.
Qed.
End Shapes.

(* ------------------------------------------------------------------ *)
(* one request                                                          *)
Section StepOwner.
Variable dr : Z -> list (Z * Z) -> option (list (Z * Z)).
Variable nr : list (Z * Z) -> list (Z * Z).
Variable sm : sessmap.

Definition op_sid (o : op) : option N :=
  match o with
  | OSub a _ _ | OLeave a _ | OPub a _ _ | ONote a _ _ | OGetData a _ _ _ | OGetDesc a | OGetSub a
  | OGetDel a _ _ _ | ODelMsg a _ _ | OSetSub a _ _ | ODelSub a _ => Some a
  | OUnload | ORestart => None
  end.
(* the acting user of a request (0 for the two administrative events) *)
Definition op_user (o : op) : N := match op_sid o with Some sid => sess_uid sm sid | None => 0 end.
(* every request comes from a logged-in session *)
Definition actor_ok (o : op) : Prop := match op_sid o with Some sid => sess_uid sm sid <> 0 | None => True end.
(* the request names a mode containing O *)
Definition asks_owner (o : op) : bool :=
  match o with OSub _ w _ => is_owner (req_mode w) | OSetSub _ _ m => is_owner (req_mode m) | _ => false end.
(* {set sub} naming another user [t] *)
Definition is_set_op (o : op) (t : N) : Prop :=
  exists sid mode, o = OSetSub sid t mode /\ t <> 0 /\ t <> sess_uid sm sid.
(* the actor's own {sub} / {set sub} with an explicit mode containing O *)
Definition asks_op (o : op) : Prop :=
  (exists sid want bkg, o = OSub sid want bkg /\ is_owner (req_mode want) = true) \/
  (exists sid t mode, o = OSetSub sid t mode /\ (t = 0 \/ t = sess_uid sm sid) /\ is_owner (req_mode mode) = true).

Definition step_sum (o : op) (s s' : store) : Prop := ssum (op_user o) (is_set_op o) (asks_op o) s s'.

Lemma oinv_sinv s c : oinv sm s c -> sinv s. Proof. now intros [H _]. Qed.

Lemma step_owner f x o : oinv_state sm x -> actor_ok o -> (f = NoFault \/ asks_owner o = false) ->
  oinv_state sm (fst (step dr nr sm f x o)) /\ step_sum o (st x) (st (fst (step dr nr sm f x o))).
Proof.
  intros I AO FS. destruct x as [s cx n0]. unfold oinv_state in *. cbn [st ca] in *.
  assert (step_sum o s s) as SAME by (apply SumSame; reflexivity).
  assert (forall c (h : hres), cx = Some c -> sneutral s (h_st h) /\ cneutral c (h_ca h) ->
            oinv sm (h_st h) (h_ca h) /\ step_sum o s (h_st h)) as NEU.
  { intros c h -> [SN CN]. split; [apply (oinv_neutral sm s c); auto|now apply sneutral_sum]. }
  destruct o; unfold step, oinv_state; cbn [st ca negb].
  - (* OSub *)
    cbn in AO. cbn [asks_owner] in FS.
    assert (is_owner (req_mode want) = true -> asks_op (OSub sid want bkg)) as AS by (intros H; left; eauto).
    destruct cx as [c|].
    + destruct (attached c sid); cbn [fst st ca]; [split; assumption|].
      apply (sub_reply_inv sm (is_set_op (OSub sid want bkg)) (asks_op (OSub sid want bkg))); auto.
    + destruct (try_load f s 0) as [n1 [c|code]] eqn:TL; cbn [fst st ca]; [|split; assumption].
      apply try_load_cases in TL. subst c.
      apply (sub_reply_inv sm (is_set_op (OSub sid want bkg)) (asks_op (OSub sid want bkg))); auto. now apply sinv_load.
  - (* OLeave *)
    destruct cx as [c|]; [destruct (attached c sid) eqn:AT|]; cbn [negb fst st ca]; try (split; assumption).
    assert (match alookup sid (c_sess c) with Some (a, _) => a | None => sess_uid sm sid end = sess_uid sm sid) as EA.
    { destruct (alookup sid (c_sess c)) as [[a b]|] eqn:ES; [|reflexivity].
      destruct I as [_ [_ _ _ _ SE]]. now destruct (SE sid a b (alookup_in _ _ _ ES)). }
    rewrite EA.
    destruct unsub; cbn [fst st ca].
    + apply leave_unsub_inv; auto.
    + destruct (leave c sid _) as [c1 o1] eqn:EL. cbn [fst st ca h_st h_ca]. split; [|exact SAME].
      change c1 with (fst (c1, o1)). rewrite <- EL. now apply leave_inv.
  - (* OPub *)
    destruct cx as [c|]; [destruct (attached c sid)|]; cbn [negb fst st ca]; try (split; assumption).
    apply (NEU c); auto. apply publish_neutral.
  - (* ONote *)
    destruct cx as [c|]; [destruct (attached c sid)|]; cbn [negb fst st ca];
      repeat match goal with |- context [if ?b then _ else _] => destruct b end; cbn [fst st ca]; try (split; assumption).
    all: apply (NEU c); auto; apply note_neutral.
  - (* OGetData *)
    destruct cx as [c|]; [destruct (attached c sid)|]; cbn [negb fst st ca]; try (split; assumption).
    destruct (get_data_same f s c 0 sid (sess_uid sm sid) since before limit) as [-> ->]. split; assumption.
  - (* OGetDesc *)
    destruct cx as [c|]; [destruct (attached c sid)|]; cbn [negb fst st ca]; try rewrite offline_get_desc_frame; try (split; assumption).
    destruct (get_desc_same s c 0 sid (sess_uid sm sid)) as [-> ->]. split; assumption.
  - (* OGetSub *)
    destruct cx as [c|]; [destruct (attached c sid)|]; cbn [negb fst st ca]; try rewrite offline_get_sub_frame; try (split; assumption).
    destruct (get_sub_same f s c 0 sid (sess_uid sm sid)) as [-> ->]. split; assumption.
  - (* OGetDel *)
    destruct cx as [c|]; [destruct (attached c sid)|]; cbn [negb fst st ca]; try (split; assumption).
    destruct (get_del_same nr f s c 0 sid (sess_uid sm sid) since before limit) as [-> ->]. split; assumption.
  - (* ODelMsg *)
    destruct cx as [c|]; [destruct (attached c sid)|]; cbn [negb fst st ca]; try (split; assumption).
    apply (NEU c); auto. apply del_msg_neutral.
  - (* OSetSub *)
    cbn in AO. cbn [asks_owner] in FS.
    assert (target = 0 \/ target = sess_uid sm sid -> is_owner (req_mode mode) = true -> asks_op (OSetSub sid target mode)) as AS
      by (intros H1 H2; right; eauto 6).
    assert (target <> 0 -> target <> sess_uid sm sid -> is_set_op (OSetSub sid target mode) target) as HS
      by (intros H1 H2; eexists _, _; eauto).
    assert (forall (P : store -> Prop), P s -> (forall w g mw, smode s (sess_uid sm sid) = Some (w, g, false) -> is_owner mw = is_owner w ->
               P (ad_subs_update s (sess_uid sm sid) (mkUpd (Some mw) None None None None))) ->
              P (o_st (offline_set_sub f s sid (sess_uid sm sid) target mode))) as OFF.
    { intros P P0 P1. destruct (offline_set_sub_cases f s sid (sess_uid sm sid) target mode) as [->|[w [g [mw [SU [EW [_ ->]]]]]]]; eauto. }
    destruct cx as [c|]; [destruct (attached c sid)|]; cbn [negb fst st ca].
    + apply (set_sub_inv sm (is_set_op (OSetSub sid target mode)) (asks_op (OSetSub sid target mode))); auto.
    + apply (OFF (fun s' => oinv sm s' c /\ step_sum (OSetSub sid target mode) s s')); [split; assumption|].
      intros w g mw SU EW. destruct I as [SI CI].
      destruct (sinv_offline sm (is_set_op (OSetSub sid target mode)) (asks_op (OSetSub sid target mode)) s _ w g mw SI AO SU EW) as [S1 [S2 S3]].
      split; [split; auto|exact S3].
    + apply (OFF (fun s' => sinv s' /\ step_sum (OSetSub sid target mode) s s')); [split; assumption|].
      intros w g mw SU EW.
      destruct (sinv_offline sm (is_set_op (OSetSub sid target mode)) (asks_op (OSetSub sid target mode)) s _ w g mw I AO SU EW) as [S1 [S2 S3]].
      split; assumption.
  - (* ODelSub *)
    destruct cx as [c|]; [destruct (attached c sid)|]; cbn [negb fst st ca]; try (split; assumption).
    apply del_sub_inv; auto.
  - (* OUnload *)
    destruct cx as [c|]; [destruct (c_sess c)|]; cbn [fst st ca]; split; auto. now apply oinv_sinv in I.
  - (* ORestart *)
    cbn [fst st ca]. split; auto. destruct cx; [now apply oinv_sinv in I|exact I].
Qed.

(* a crash discards the cache; the stored part of the invariant stays *)
Definition fault_safe (fo : fault * op) : Prop := fst fo = NoFault \/ asks_owner (snd fo) = false.
Definition hist_ok (h : list (fault * op)) : Prop := Forall (fun fo => actor_ok (snd fo) /\ fault_safe fo) h.

Lemma oinv_state_sinv x : oinv_state sm x -> sinv (st x).
Proof. unfold oinv_state. destruct (ca x); [apply oinv_sinv|auto]. Qed.

Lemma step_f_owner x fo : oinv_state sm x -> actor_ok (snd fo) -> fault_safe fo ->
  oinv_state sm (fst (step_f dr nr sm x fo)) /\ step_sum (snd fo) (st x) (st (fst (step_f dr nr sm x fo))).
Proof.
  intros I AO FS. unfold step_f. destruct (step_owner (fst fo) x (snd fo) I AO FS) as [I1 S1].
  destruct (step dr nr sm (fst fo) x (snd fo)) as [x1 o1]. cbn [fst] in *.
  destruct (fst fo); cbn [fst st]; auto. split; [|exact S1]. now apply oinv_state_sinv in I1.
Qed.

Lemma run_owner h : forall x, oinv_state sm x -> hist_ok h -> oinv_state sm (fst (run dr nr sm x h)).
Proof.
  induction h as [|fo h IH]; intros x I H; cbn [run fst]; [exact I|].
  inversion H as [|? ? [AO FS] H']; subst.
  destruct (step_f_owner x fo I AO FS) as [I1 _].
  destruct (step_f dr nr sm x fo) as [x1 o1]. cbn [fst] in I1.
  specialize (IH x1 I1 H'). destruct (run dr nr sm x1 h) as [x2 os]. exact IH.
Qed.

Lemma hist_ok_nofault h : Forall (fun fo => actor_ok (snd fo)) h -> Forall (fun fo => fst fo = NoFault) h -> hist_ok h.
Proof.
  intros A B. unfold hist_ok. rewrite Forall_forall in *. intros fo Hin. split; [now apply A|left; now apply B].
Qed.

(* exactly one effective owner, equal to the owner fields, in the store and in the cache *)
Definition one_owner (x : state) : Prop :=
  store_owners (st x) = [t_owner (st x)] /\
  match ca x with Some c => cache_owners c = [c_owner c] /\ c_owner c = t_owner (st x) | None => True end.

Lemma oinv_state_one_owner x : oinv_state sm x -> one_owner x.
Proof.
  unfold oinv_state, one_owner. destruct (ca x) as [c|].
  - intros I. split; [apply sinv_store_owners; now apply oinv_sinv in I|].
    split; [now apply (oinv_cache_owners sm (st x))|]. now destruct I as [_ [CO _ _ _ _]].
  - intros I. split; [now apply sinv_store_owners|exact Logic.I].
Qed.

Lemma run_one_owner s h : sinv s -> hist_ok h -> one_owner (fst (run dr nr sm (mkState s None 0) h)).
Proof. intros SI H. apply oinv_state_one_owner. apply run_owner; [exact SI|exact H]. Qed.

(* ---------- the step laws, read off the summary ---------- *)
(* a request by another user leaves the owner's stored row alone, unless it is that user's
   acceptance of a transfer *)
Lemma step_owner_kept x fo : oinv_state sm x -> actor_ok (snd fo) -> fault_safe fo ->
  op_user (snd fo) <> t_owner (st x) ->
  let x' := fst (step_f dr nr sm x fo) in
  (smode (st x') (t_owner (st x)) = smode (st x) (t_owner (st x)) /\ t_owner (st x') = t_owner (st x)) \/
  (asks_op (snd fo) /\ t_owner (st x') = op_user (snd fo) /\
   exists w g, smode (st x) (op_user (snd fo)) = Some (w, g, false) /\ is_owner g = true /\ is_owner w = false).
Proof.
  intros I AO FS NA. cbn zeta. destruct (step_f_owner x fo I AO FS) as [_ SS].
  destruct SS as [A B|A B C|t T1 T2 A B C|T1 T2 T3 T4 T5 T6].
  - left. auto.
  - left. split; [|exact B]. apply A. congruence.
  - left. split; [|exact B]. apply A. congruence.
  - right. auto.
Qed.

(* ownership (the owner field, hence by the invariant the one effective owner) moves only by
   acceptance: the actor asked for O, held O in the previous grant, becomes the owner, and the
   previous owner keeps O neither in want nor in given *)
Lemma step_transfer x fo : oinv_state sm x -> actor_ok (snd fo) -> fault_safe fo ->
  let x' := fst (step_f dr nr sm x fo) in
  t_owner (st x') <> t_owner (st x) ->
  asks_op (snd fo) /\ t_owner (st x') = op_user (snd fo) /\
  (exists w g, smode (st x) (op_user (snd fo)) = Some (w, g, false) /\ is_owner g = true /\ is_owner w = false) /\
  (exists w' g', smode (st x') (t_owner (st x)) = Some (w', g', false) /\ is_owner w' = false /\ is_owner g' = false).
Proof.
  intros I AO FS. cbn zeta. intros NE. destruct (step_f_owner x fo I AO FS) as [_ SS].
  destruct SS as [A B|A B C|t T1 T2 A B C|T1 T2 T3 T4 T5 T6]; try congruence. auto.
Qed.

(* O enters a stored grant only by {set sub} of the current owner naming that user; a
   re-subscription restores a previous grant *)
Lemma step_grant x fo v w' g' d' : oinv_state sm x -> actor_ok (snd fo) -> fault_safe fo ->
  let x' := fst (step_f dr nr sm x fo) in
  smode (st x') v = Some (w', g', d') -> is_owner g' = true -> ~ had_given_O (smode (st x) v) ->
  op_user (snd fo) = t_owner (st x) /\ is_set_op (snd fo) v.
Proof.
  intros I AO FS. cbn zeta. intros E OG NH. destruct (step_f_owner x fo I AO FS) as [_ SS].
  destruct SS as [A B|A B C|t T1 T2 A B C|T1 T2 T3 [w [g [T4 [T4' _]]]] [w2 [g2 [T5 [_ T5']]]] T6].
  - exfalso. apply NH. rewrite <- A. eexists _, _, _. eauto.
  - exfalso. apply NH. destruct (N.eq_dec v (op_user (snd fo))) as [->|NE].
    + eapply C; eauto.
    + rewrite <- (A v NE). eexists _, _, _. eauto.
  - destruct (N.eq_dec v t) as [->|NE].
    + destruct (C _ _ _ E OG) as [H|H]; [contradiction|exact H].
    + exfalso. apply NH. rewrite <- (A v NE). eexists _, _, _. eauto.
  - exfalso. destruct (N.eq_dec v (op_user (snd fo))) as [->|N1].
    + apply NH. eexists _, _, _. eauto.
    + destruct (N.eq_dec v (t_owner (st x))) as [->|N2].
      * rewrite T5 in E. inv E. congruence.
      * apply NH. rewrite <- (T6 v N1 N2). eexists _, _, _. eauto.
Qed.

(* the owner's own requests never move ownership: the owner cannot give it up *)
Lemma step_owner_self x fo : oinv_state sm x -> actor_ok (snd fo) -> fault_safe fo ->
  op_user (snd fo) = t_owner (st x) ->
  let x' := fst (step_f dr nr sm x fo) in
  t_owner (st x') = t_owner (st x) /\
  exists w g, smode (st x') (t_owner (st x)) = Some (w, g, false) /\ is_owner w = true /\ is_owner g = true.
Proof.
  intros I AO FS EA. cbn zeta. destruct (step_f_owner x fo I AO FS) as [I1 SS].
  assert (t_owner (st (fst (step_f dr nr sm x fo))) = t_owner (st x)) as EO.
  { destruct SS as [A B|A B C|t T1 T2 A B C|T1 T2 T3 T4 T5 T6]; auto. congruence. }
  split; [exact EO|]. apply oinv_state_sinv in I1. destruct I1 as [_ _ _ _ P].
  specialize (P (t_owner (st x))). rewrite EO in P.
  destruct (smode _ (t_owner (st x))) as [[[w g] d]|]; cbn in P; [|congruence].
  rewrite N.eqb_refl in P. destruct P as [-> [W G]]. eauto.
Qed.

(* the owner's unsubscribe is refused and changes nothing *)
Lemma owner_leave_refused f x sid : oinv_state sm x -> sess_uid sm sid = t_owner (st x) ->
  exists code, (400 <= code)%Z /\
    step dr nr sm f x (OLeave sid true) = (mkState (st x) (ca x) 0, [(sid, Ctrl code [])]).
Proof.
  intros I EA. destruct x as [s cx n0]. unfold oinv_state in I. cbn [st ca] in *. unfold step. cbn [st ca].
  destruct cx as [c|]; [destruct (attached c sid) eqn:AT|]; cbn [negb].
  - assert (match alookup sid (c_sess c) with Some (a, _) => a | None => sess_uid sm sid end = c_owner c) as EA2.
    { destruct I as [_ [CO _ _ _ SE]]. destruct (alookup sid (c_sess c)) as [[a b]|] eqn:ES; [|congruence].
      destruct (SE sid a b (alookup_in _ _ _ ES)). congruence. }
    rewrite EA2, leave_unsub_owner. cbn [h_st h_ca h_n h_out]. exists 403%Z. split; [lia|reflexivity].
  - exists 409%Z. split; [lia|reflexivity].
  - exists 409%Z. split; [lia|reflexivity].
Qed.
End StepOwner.

(* ------------------------------------------------------------------ *)
(* the two readings of "is the owner" used by the owner-only gates agree with the one owner *)
Lemma sinv_eff_owner_iff s u : sinv s ->
  ((exists w g, smode s u = Some (w, g, false) /\ is_owner (N.land w g) = true) <-> u = t_owner s).
Proof.
  intros [_ _ _ _ P]. specialize (P u). split.
  - intros [w [g [E O]]]. rewrite E in P. cbn in P. rewrite is_owner_land in O. apply andb_true_iff in O.
    destruct (N.eqb_spec u (t_owner s)); [assumption|]. destruct O. congruence.
  - intros ->. destruct (smode s (t_owner s)) as [[[w g] d]|]; cbn in P; [|congruence].
    rewrite N.eqb_refl in P. destruct P as [-> [W G]]. exists w, g. rewrite is_owner_land, W, G. auto.
Qed.
Lemma oinv_cached_owner_iff sm s c u : oinv sm s c -> (c_owner c = u <-> u = t_owner s).
Proof. intros [_ [CO _ _ _ _]]. rewrite CO. split; congruence. Qed.

(* stores left behind by the topic-creation code satisfy the stored part of the invariant *)
Lemma sinv_new_topic auth anon usrs o w g : o <> 0 -> is_owner auth = false ->
  (forall u acc, alookup u usrs = Some acc -> is_owner acc = false) -> is_owner w = true -> is_owner g = true ->
  sinv (ad_sub_create (mkStore true 0 0 0 auth anon [] [] [] usrs) o w g).
Proof.
  intros O0 AU US W G. set (s0 := mkStore true 0 0 0 auth anon [] [] [] usrs).
  assert (t_owner (ad_sub_create s0 o w g) = o) as EO by (rewrite owner_sub_create, is_owner_land, W, G; reflexivity).
  destruct (sframe_sub_create s0 o w g) as [_ [_ [_ [F1 [_ [_ F2]]]]]].
  constructor.
  - congruence.
  - now rewrite F1.
  - now rewrite F2.
  - apply users_sub_create. constructor.
  - intros v. rewrite smode_sub_create, EO. destruct (N.eqb_spec v o) as [->|NE]; cbn.
    + rewrite N.eqb_refl. auto.
    + exact NE.
Qed.
Lemma sinv_add_row s u w g : sinv s -> u <> t_owner s -> is_owner w = false -> sinv (ad_sub_create s u w g).
Proof.
  intros [O0 AU US ND P] NO W.
  assert (t_owner (ad_sub_create s u w g) = t_owner s) as EO by (rewrite owner_sub_create, is_owner_land, W; reflexivity).
  destruct (sframe_sub_create s u w g) as [_ [_ [_ [F1 [_ [_ F2]]]]]].
  constructor.
  - congruence.
  - now rewrite F1.
  - now rewrite F2.
  - now apply users_sub_create.
  - intros v. rewrite smode_sub_create, EO. destruct (N.eqb_spec v u) as [->|NE]; [|apply P].
    cbn. now rewrite (proj2 (N.eqb_neq _ _) NO).
Qed.
