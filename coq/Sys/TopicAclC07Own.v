(* C07 proofs, part 4: ownership bookkeeping.  The writer laws need the request to see a
   sane owner field (Topic.owner names a cached subscriber holding O; a zero owner would
   make the transfer's Subs.Update address EVERY row).  This file proves that invariant for
   every request under every fault plan EXCEPT a failing (not crashing) topics.owner write
   in the middle of an ownership transfer, which splits cache and store. *)
From Coq Require Import ZArith NArith List Bool Lia.
From Tinode Require Import Base.Util Pure.Acs Sys.Topic Sys.TopicTac Sys.TopicFrame Sys.TopicMarks Sys.TopicAclC07
  Sys.TopicAclC07Proofs Sys.TopicAclC07Inv Sys.TopicAclC07Join.
Import ListNotations.
Open Scope Z_scope.

(* ---------- the permission part of a row ---------- *)
Definition arow (s : store) (u : N) : option (N * N * bool) :=
  option_map (fun r => (s_want r, s_given r, s_deleted r)) (find_sub u (subs s)).
Definition a_eff_owner (a : option (N * N * bool)) : bool :=
  match a with Some (w, g, d) => negb d && is_owner (N.land g w) | None => false end.
Definition a_grant_owner (a : option (N * N * bool)) : bool :=
  match a with Some (w, g, d) => negb d && is_owner g | None => false end.
Definition a_live (a : option (N * N * bool)) : bool :=
  match a with Some (w, g, d) => negb d | None => false end.

Lemma arow_create s u w g v : arow (ad_sub_create s u w g) v = if N.eqb v u then Some (w, g, false) else arow s v.
Proof. unfold arow. rewrite find_sub_create. destruct (N.eqb v u); reflexivity. Qed.
Definition aupd (up : subupd) (a : N * N * bool) : N * N * bool :=
  let '(w, g, d) := a in (oset (u_want up) w, oset (u_given up) g, d).
Lemma arow_update s u up v :
  arow (ad_subs_update s u up) v = if (u =? 0)%N || N.eqb v u then option_map (aupd up) (arow s v) else arow s v.
Proof.
  unfold arow. rewrite find_sub_update. destruct ((u =? 0)%N || N.eqb v u); [|reflexivity].
  destruct (find_sub v (subs s)); reflexivity.
Qed.
Lemma arow_update_marks s u a b d v : arow (ad_subs_update s u (mkUpd None None a b d)) v = arow s v.
Proof. rewrite arow_update. destruct (_ || _); [|reflexivity]. destruct (arow s v) as [[[w g] dd]|]; reflexivity. Qed.
Lemma arow_delete s u s' v : ad_subs_delete s u = Some s' ->
  arow s' v = if N.eqb v u then option_map (fun a => (fst (fst a), snd (fst a), true)) (arow s v) else arow s v.
Proof.
  intros H. unfold arow. rewrite (find_sub_delete _ _ _ v H). destruct (N.eqb v u); [|reflexivity].
  destruct (find_sub v (subs s)); reflexivity.
Qed.
Lemma arow_owner s u v : arow (st_owner u s) v = arow s v. Proof. reflexivity. Qed.

(* ---------- the invariant ---------- *)
Definition own_s (s : store) : Prop := arow s 0%N = None /\ exists u, a_eff_owner (arow s u) = true.
Definition own_c (s : store) (c : cache) : Prop :=
  c_owner c <> 0%N /\
  (exists w g, cwant c (c_owner c) = Some w /\ cgiven c (c_owner c) = Some g /\ is_owner (N.land g w) = true) /\
  a_eff_owner (arow s (c_owner c)) = true /\
  (forall u g, cgiven c u = Some g -> is_owner g = true -> a_grant_owner (arow s u) = true) /\
  (forall u g, cgiven c u = Some g -> a_live (arow s u) = true).
Definition inv_own (x : state) : Prop :=
  own_s (st x) /\ match ca x with Some c => own_c (st x) c | None => True end.

Lemma own_s_of_c s c : arow s 0%N = None -> own_c s c -> own_s s.
Proof. intros Z [_ [_ [E _]]]. split; [exact Z|eauto]. Qed.

Lemma own_c_sane s c : own_c s c -> owner_sane c.
Proof.
  intros [OZ [[w [g [W [G O]]]] _]]. split; [exact OZ|]. unfold cwant, cgiven in *.
  destruct (alookup (c_owner c) (c_users c)) as [p|]; [|discriminate]. exists p. split; [reflexivity|].
  cbn in *. inv W. inv G. exact O.
Qed.

(* bits *)
Lemma is_owner_lor a b : is_owner a = true -> is_owner (N.lor a b) = true.
Proof. rewrite !is_owner_bit, N.lor_spec. intros ->. reflexivity. Qed.
Lemma is_owner_lor_r a b : is_owner b = true -> is_owner (N.lor a b) = true.
Proof. rewrite !is_owner_bit, N.lor_spec. intros ->. apply orb_true_r. Qed.
Lemma is_owner_and a b : is_owner a = true -> is_owner b = true -> is_owner (N.land a b) = true.
Proof. rewrite !is_owner_bit, N.land_spec. intros -> ->. reflexivity. Qed.
Lemma is_owner_strip a : is_owner (N.ldiff a mO) = false.
Proof. rewrite is_owner_bit, N.ldiff_spec. change mO with (2 ^ 7)%N. rewrite N.pow2_bits_true. apply andb_false_r. Qed.

(* ---------- generic preservation: rows and entries that keep their permission part ---------- *)
Lemma own_c_same s c s' c' :
  (forall v, arow s' v = arow s v) ->
  (forall v, cgiven c' v = cgiven c v /\ cwant c' v = cwant c v) -> c_owner c' = c_owner c ->
  own_c s c -> own_c s' c'.
Proof.
  intros HA HC HO [OZ [[w [g [W [G O]]]] [C2 [C3 C5]]]]. unfold own_c. rewrite HO.
  split; [exact OZ|]. split; [|split; [|split]].
  - exists w, g. destruct (HC (c_owner c)) as [-> ->]. auto.
  - rewrite HA. exact C2.
  - intros u g' E. rewrite HA. destruct (HC u) as [E' _]. rewrite E' in E. eauto.
  - intros u g' E. rewrite HA. destruct (HC u) as [E' _]. rewrite E' in E. eauto.
Qed.

Lemma own_s_same s s' : (forall v, arow s' v = arow s v) -> own_s s -> own_s s'.
Proof. intros HA [Z [u E]]. split; [rewrite HA; exact Z|exists u; rewrite HA; exact E]. Qed.

(* removal of a non-owner together with (possibly) the deletion of its row *)
Lemma own_c_remove s c t s' c' :
  c_owner c <> t ->
  (forall v, v <> t -> arow s' v = arow s v) ->
  (forall v, v <> t -> cgiven c' v = cgiven c v /\ cwant c' v = cwant c v) -> cgiven c' t = None ->
  c_owner c' = c_owner c ->
  own_c s c -> own_c s' c'.
Proof.
  intros NE HA HC HT HO [OZ [[w [g [W [G O]]]] [C2 [C3 C5]]]]. unfold own_c. rewrite HO.
  split; [exact OZ|]. split; [|split; [|split]].
  - exists w, g. destruct (HC _ NE) as [-> ->]. auto.
  - rewrite (HA _ NE). exact C2.
  - intros u g' E. assert (u <> t) as N by (intros ->; congruence). rewrite (HA _ N).
    destruct (HC u N) as [E' _]. rewrite E' in E. eauto.
  - intros u g' E. assert (u <> t) as N by (intros ->; congruence). rewrite (HA _ N).
    destruct (HC u N) as [E' _]. rewrite E' in E. eauto.
Qed.

Lemma own_s_other s s' t u :
  u <> t -> a_eff_owner (arow s u) = true -> arow s 0%N = None -> t <> 0%N ->
  (forall v, v <> t -> arow s' v = arow s v) -> own_s s'.
Proof.
  intros NE E Z TZ HA. split; [rewrite HA; [exact Z|intros H; apply TZ; symmetry; exact H]|].
  exists u. rewrite (HA _ NE). exact E.
Qed.

Lemma cg_aset c u p v : cgiven (c_set_users (aset u p) c) v = if N.eqb v u then Some (p_given p) else cgiven c v.
Proof. unfold cgiven. cbn [c_users c_set_users]. rewrite alookup_aset. destruct (N.eqb v u); reflexivity. Qed.
Lemma cw_aset c u p v : cwant (c_set_users (aset u p) c) v = if N.eqb v u then Some (p_want p) else cwant c v.
Proof. unfold cwant. cbn [c_users c_set_users]. rewrite alookup_aset. destruct (N.eqb v u); reflexivity. Qed.

Lemma cg_owner c u v : cgiven (c_set_owner u c) v = cgiven c v. Proof. reflexivity. Qed.
Lemma cw_owner c u v : cwant (c_set_owner u c) v = cwant c v. Proof. reflexivity. Qed.
Lemma cg_member c u : member c u = match cgiven c u with Some _ => true | None => false end.
Proof. unfold member, cgiven. destruct (alookup u (c_users c)); reflexivity. Qed.

(* ---------- thisUserSub: new subscription ---------- *)
Lemma tus_new_own f s c n u mw nb :
  alookup u (c_users c) = None -> u <> 0%N -> live_cached s c -> own_s s -> own_c s c ->
  own_s (h_st (fst (tus_new f s c n u mw nb))) /\ own_c (h_st (fst (tus_new f s c n u mw nb))) (h_ca (fst (tus_new f s c n u mw nb))).
Proof.
  intros Hnone Hnz LC OS OC. unfold tus_new.
  destruct (max_subs <=? _); [auto|].
  destruct (call f n) as [ok1 n1]. destruct (negb ok1); [auto|].
  set (given := if ((match ad_sub_get s u true with Some r => s_given r | None => ModeUnset end) =? ModeUnset)%N then c_auth c
                else match ad_sub_get s u true with Some r => s_given r | None => ModeUnset end).
  set (wantm := if (mw =? ModeUnset)%N then c_auth c else N.ldiff mw mO).
  destruct (negb (is_joiner given)); [auto|].
  destruct (match ad_sub_get s u true with Some r => s_deleted r | None => true end) eqn:NC.
  2:{ (* a live row of a user who is not cached: excluded by live_cached *)
      exfalso. unfold ad_sub_get in NC. destruct (find_sub u (subs s)) as [r|] eqn:EF; [|discriminate].
      cbn [negb] in NC. rewrite andb_false_r in NC.
      pose proof (LC r (find_sub_in _ _ _ EF) NC) as M. rewrite (find_sub_user _ _ _ EF) in M.
      unfold member in M. rewrite Hnone in M. discriminate. }
  destruct (call f n1) as [ok2 n2]. destruct (negb ok2); [auto|].
  set (s2 := ad_sub_create s u wantm given).
  set (c2 := c_set_users (aset u (mkPud wantm given 0 0 0 0)) c).
  assert (cgiven c u = None) as CGN by (unfold cgiven; rewrite Hnone; reflexivity).
  destruct OC as [OZ [[w [g [W [G O]]]] [C2 [C3 C5]]]].
  assert (c_owner c <> u) as NE by (intros E; rewrite E in G; congruence).
  assert (own_s s2 /\ own_c s2 c2) as R.
  { split.
    - apply (own_s_other s s2 u (c_owner c)); auto; [apply OS|].
      intros v N. subst s2. rewrite arow_create. apply N.eqb_neq in N. rewrite N. reflexivity.
    - unfold own_c. subst s2 c2. cbn [c_owner c_set_users].
      split; [exact OZ|]. split; [|split; [|split]].
      + exists w, g. rewrite cw_aset, cg_aset. apply N.eqb_neq in NE. rewrite NE. auto.
      + rewrite arow_create. apply N.eqb_neq in NE. rewrite NE. exact C2.
      + intros v g'. rewrite cg_aset, arow_create. eqb_cases v u; [cbn; intros H; inv H; auto|eauto].
      + intros v g'. rewrite cg_aset, arow_create. eqb_cases v u; [reflexivity|eauto]. }
  destruct (negb (is_joiner wantm)); [|exact R].
  destruct (evict_user c2 u false 0) as [c3 o3] eqn:EV. cbn [fst h_st h_ca].
  destruct R as [R1 R2]. split; [exact R1|].
  apply (own_c_same s2 c2); [reflexivity| |apply (evict_owner _ _ _ _ _ _ EV)|exact R2].
  intros v. rewrite (evict_cgiven _ _ _ _ _ _ v EV), (evict_cwant _ _ _ _ _ _ v EV), andb_false_r. auto.
Qed.

(* ---------- thisUserSub: existing subscription ---------- *)
Ltac eqbc v u E :=
  destruct (N.eqb v u) eqn:E; [apply N.eqb_eq in E|apply N.eqb_neq in E].
Lemma is_owner_unset : is_owner ModeUnset = false. Proof. reflexivity. Qed.

Lemma given_step_owner oldg mw g1 : given_step oldg mw g1 -> is_owner oldg = true -> is_owner g1 = true.
Proof. intros [->|[[_ [_ ->]]|[_ [_ [_ ->]]]]] H; auto; apply is_owner_lor; exact H. Qed.

Lemma tus_exist_own f s c n u mw p0 nb :
  alookup u (c_users c) = Some p0 -> u <> 0%N -> own_s s -> own_c s c ->
  let h := fst (tus_exist f s c n u mw p0 nb) in
  own_s (h_st h) /\
  ((fails f (S (S (S n))) = false \/ ~ pending_transferee c u) -> own_c (h_st h) (h_ca h)).
Proof.
  intros Hu Hnz OS OC. cbv zeta. unfold tus_exist.
  destruct (tus_chk c u mw (p_want p0) (p_given p0)) as [[[mw1 g1] oc]|] eqn:EC; [|auto].
  apply tus_chk_spec in EC. destruct EC as [-> [HGS [HOC HOWN]]].
  set (oldw := p_want p0) in *. set (oldg := p_given p0) in *.
  set (w1 := tus_w1 c u mw g1 oldw).
  set (upd := mkUpd (if (w1 =? oldw)%N then None else Some w1) (if (g1 =? oldg)%N then None else Some g1) None None None).
  set (need := negb ((w1 =? oldw)%N && (g1 =? oldg)%N)).
  pose proof OC as [OZ [[wo [go [WO [GO OO]]]] [C2 [C3 C5]]]].
  assert (cgiven c u = Some oldg) as CGu by (unfold cgiven; rewrite Hu; reflexivity).
  assert (cwant c u = Some oldw) as CWu by (unfold cwant; rewrite Hu; reflexivity).
  destruct (if need then call f n else (true, n)) as [ok1 n1] eqn:ECALL. destruct (negb ok1); [auto|].
  set (s1 := if need then ad_subs_update s u upd else s).
  assert (forall v, arow s1 v = if N.eqb v u then option_map (aupd upd) (arow s v) else arow s v) as S1.
  { intros v. subst s1. destruct need eqn:EN.
    - rewrite arow_update. replace (u =? 0)%N with false by (symmetry; apply N.eqb_neq; exact Hnz). reflexivity.
    - subst need. apply negb_false_iff in EN. apply andb_prop in EN. destruct EN as [E1 E2].
      subst upd. rewrite E1, E2. destruct (N.eqb v u); [|reflexivity].
      destruct (arow s v) as [[[w g] d]|]; reflexivity. }
  (* the stored row of [u] after the update *)
  destruct (arow s u) as [[[ws gs] ds]|] eqn:EAu; [|exfalso; pose proof (C5 u oldg CGu) as L; rewrite EAu in L; discriminate].
  assert (ds = false) as -> by (pose proof (C5 u oldg CGu) as L; rewrite EAu in L; cbn in L; destruct ds; [discriminate|reflexivity]).
  set (ws' := oset (u_want upd) ws). set (gs' := oset (u_given upd) gs).
  assert (arow s1 u = Some (ws', gs', false)) as S1u by (rewrite S1, N.eqb_refl, EAu; reflexivity).
  assert (is_owner g1 = true -> is_owner gs' = true) as GS'.
  { intros H. subst gs' upd. cbn [u_given]. destruct (g1 =? oldg)%N eqn:E; cbn; [|exact H].
    apply N.eqb_eq in E. rewrite E in H. pose proof (C3 u oldg CGu H) as L. rewrite EAu in L. exact L. }
  assert (c_owner c = u -> is_owner w1 = true /\ is_owner g1 = true /\ is_owner ws' = true /\ is_owner gs' = true) as OWN.
  { intros E. rewrite E in *. rewrite CGu in GO. rewrite CWu in WO. inv GO. inv WO.
    apply is_owner_land in OO. destruct OO as [Og Ow].
    rewrite EAu in C2. cbn in C2. apply is_owner_land in C2. destruct C2 as [Ogs Ows].
    assert (is_owner g1 = true) as Og1 by (eapply given_step_owner; eauto).
    assert (is_owner w1 = true) as Ow1.
    { subst w1. unfold tus_w1. destruct (mw =? ModeUnset)%N eqn:EU.
      - destruct (negb (is_joiner _)); [|exact Ow]. rewrite N.eqb_refl. apply is_owner_lor. exact Og1.
      - apply (HOWN eq_refl eq_refl). }
    repeat split; auto. subst ws' upd. cbn [u_want]. destruct (w1 =? _)%N; cbn; auto. }
  (* the result without a transfer: (s1, c + entry of u) *)
  assert (forall c3, c_owner c3 = c_owner c ->
            (forall v, v <> u -> cgiven c3 v = cgiven c v /\ cwant c3 v = cwant c v) ->
            forall c', (forall v, cgiven c' v = if N.eqb v u then Some g1 else cgiven c3 v) ->
                       (forall v, cwant c' v = if N.eqb v u then Some w1 else cwant c3 v) ->
                       c_owner c' = c_owner c3 -> own_c s1 c') as PLAIN.
  { intros c3 HO3 H3 c' RG RW RO. unfold own_c. rewrite RO, HO3. split; [exact OZ|]. split; [|split; [|split]].
    - rewrite RG, RW. eqbc (c_owner c) u NE.
      + destruct (OWN NE) as [A [B _]]. exists w1, g1. repeat split; auto. apply is_owner_and; auto.
      + destruct (H3 _ NE) as [-> ->]. exists wo, go. auto.
    - rewrite S1. eqbc (c_owner c) u NE.
      + destruct (OWN NE) as [_ [_ [A B]]]. rewrite NE, EAu. cbn. apply is_owner_and; auto.
      + exact C2.
    - intros v g'. rewrite RG, S1. eqbc v u NE.
      + intros H O. injection H as <-. rewrite NE, EAu. cbn. apply GS'. exact O.
      + destruct (H3 _ NE) as [-> _]. apply C3.
    - intros v g'. rewrite RG, S1. eqbc v u NE; [rewrite NE, EAu; reflexivity|]. destruct (H3 _ NE) as [-> _]. apply C5. }
  assert (own_s s1) as OS1.
  { split; [rewrite S1; apply N.eqb_neq in Hnz; rewrite N.eqb_sym, Hnz; apply OS|].
    exists (c_owner c). rewrite S1. eqbc (c_owner c) u NE; [|exact C2].
    destruct (OWN NE) as [_ [_ [A B]]]. rewrite NE, EAu. cbn. apply is_owner_and; auto. }
  destruct oc.
  - (* ownership transfer *)
    destruct (HOC eq_refl) as [OG [OW OM]].
    assert (pending_transferee c u) as PT by (exists p0; auto).
    assert (c_owner c <> u) as Hne.
    { intros E. rewrite E, CWu in WO. injection WO as <-.
      apply is_owner_land in OO. destruct OO as [_ B]. congruence. }
    assert ((mw =? ModeUnset)%N = false) as EU by (destruct (mw =? ModeUnset)%N eqn:E; [apply N.eqb_eq in E; rewrite E in OM; discriminate|reflexivity]).
    assert (w1 = mw) as Ew1 by (subst w1; unfold tus_w1; rewrite EU; reflexivity).
    assert (need = true) as EN.
    { subst need. apply negb_true_iff. apply andb_false_iff. left. apply N.eqb_neq. intros E. rewrite Ew1 in E. congruence. }
    rewrite EN in ECALL. unfold call in ECALL. injection ECALL as _ <-.
    assert (is_owner g1 = true) as Og1 by (eapply given_step_owner; eauto).
    assert (a_eff_owner (Some (ws', gs', false)) = true) as EFFu.
    { cbn. apply is_owner_and; [apply GS'; exact Og1|]. subst ws' upd. cbn [u_want].
      destruct (w1 =? oldw)%N eqn:E; [apply N.eqb_eq in E; congruence|]. cbn. rewrite Ew1. exact OM. }
    set (prev := c_owner c) in *. set (pp := get_pud c prev).
    set (pw := N.ldiff (p_want pp) mO). set (pg := N.ldiff (p_given pp) mO).
    assert (prev <> u) as Hne' by exact Hne.
    assert (forall v, v <> u -> arow s1 v = arow s v) as S1o.
    { intros v N. rewrite S1. apply N.eqb_neq in N. rewrite N. reflexivity. }
    destruct (call f (S n)) as [ok2 n2] eqn:EC2. unfold call in EC2. injection EC2 as Eok2 <-.
    destruct (negb ok2).
    { cbn [fst h_st h_ca]. split; [exact OS1|]. intros _.
      unfold own_c. split; [exact OZ|]. split; [eauto|]. split; [|split].
      - rewrite (S1o (c_owner c) Hne'). exact C2.
      - intros v g'. rewrite S1. eqbc v u NE; [|apply C3].
        rewrite NE, CGu, EAu. intros H _. cbn. apply GS'. exact Og1.
      - intros v g'. rewrite S1. eqbc v u NE; [|apply C5]. rewrite NE, EAu. reflexivity. }
    set (s2 := ad_subs_update s1 prev (mkUpd (Some pw) (Some pg) None None None)).
    assert (forall v, arow s2 v = if N.eqb v prev then option_map (aupd (mkUpd (Some pw) (Some pg) None None None)) (arow s1 v) else arow s1 v) as S2.
    { intros v. subst s2. rewrite arow_update.
      replace (prev =? 0)%N with false by (symmetry; apply N.eqb_neq; exact OZ). reflexivity. }
    assert (arow s2 u = Some (ws', gs', false)) as S2u.
    { rewrite S2. apply N.eqb_neq in Hne. rewrite N.eqb_sym, Hne. exact S1u. }
    assert (own_s s2) as OS2.
    { split; [|exists u; rewrite S2u; exact EFFu].
      rewrite S2. replace (N.eqb 0 prev) with false by (symmetry; apply N.eqb_neq; intros E; apply OZ; symmetry; exact E).
      apply OS1. }
    destruct (call f (S (S n))) as [ok3 n3] eqn:EC3. unfold call in EC3. injection EC3 as Eok3 <-.
    destruct (negb ok3) eqn:EF3.
    { cbn [fst h_st h_ca]. split; [exact OS2|]. intros [H|H]; [|contradiction].
      rewrite <- Eok3, H in EF3. discriminate. }
    set (c3 := c_set_owner u (c_set_users (aset prev (p_set_modes pw pg pp)) c)).
    destruct (tus_finish_res u w1 g1 oldw oldg nb (st_owner u s2) c3 (S (S (S n)))) as [R1 [R2 [R3 R4]]].
    rewrite R1. split; [exact OS2|]. intros _.
    unfold own_c. rewrite R4. subst c3. cbn [c_owner c_set_owner]. split; [exact Hnz|].
    split; [|split; [|split]].
    + exists w1, g1. rewrite R3, R2, N.eqb_refl. repeat split. apply is_owner_and; [exact Og1|rewrite Ew1; exact OM].
    + rewrite arow_owner, S2u. exact EFFu.
    + intros v g'. rewrite R2, arow_owner. eqbc v u NE.
      * intros H O. rewrite NE, S2u. cbn. apply GS'. exact Og1.
      * rewrite cg_owner, cg_aset. eqbc v prev NP.
        -- cbn. intros H O. injection H as <-. subst pg. rewrite is_owner_strip in O. discriminate.
        -- rewrite S2, (proj2 (N.eqb_neq _ _) NP), (S1o _ NE). apply C3.
    + intros v g'. rewrite R2, arow_owner. eqbc v u NE; [rewrite NE, S2u; reflexivity|].
      rewrite cg_owner, cg_aset. eqbc v prev NP.
      * intros _. rewrite NP, S2, N.eqb_refl, (S1o _ Hne').
        pose proof (C5 prev go GO) as L. destruct (arow s prev) as [[[a b] d]|]; [exact L|discriminate].
      * rewrite S2, (proj2 (N.eqb_neq _ _) NP), (S1o _ NE). apply C5.
  - destruct (tus_finish_res u w1 g1 oldw oldg nb s1 c n1) as [R1 [R2 [R3 R4]]].
    rewrite R1. split; [exact OS1|]. intros _.
    apply (PLAIN c eq_refl (fun v _ => conj eq_refl eq_refl)); auto.
Qed.

Lemma tus_own f s c n u want nb :
  u <> 0%N -> live_cached s c -> own_s s -> own_c s c ->
  let h := fst (tus f s c n u want nb) in
  own_s (h_st h) /\ ((fails f (S (S (S n))) = false \/ ~ pending_transferee c u) -> own_c (h_st h) (h_ca h)).
Proof.
  intros Hnz LC OS OC. cbv zeta. unfold tus. destruct (tus_mw want) as [mw okw]. destruct (negb okw); [auto|].
  destruct (alookup u (c_users c)) as [p0|] eqn:E.
  - apply tus_exist_own; auto.
  - destruct (tus_new_own f s c n u mw nb E Hnz LC OS OC) as [A B]. auto.
Qed.

(* ---------- anotherUserSub ---------- *)
Lemma aus_own f s c n u t mode :
  t <> 0%N -> live_cached s c -> own_s s -> own_c s c ->
  own_s (h_st (fst (aus f s c n u t mode))) /\ own_c (h_st (fst (aus f s c n u t mode))) (h_ca (fst (aus f s c n u t mode))).
Proof.
  intros Htz LC OS OC. unfold aus.
  destruct (alookup u (c_users c)) as [hp|]; [|auto].
  destruct (negb (is_sharer _)); [auto|]. destruct (tus_mw mode) as [mg okg]. destruct (negb okg); [auto|].
  destruct (_ && _); [auto|]. destruct (_ && _); [auto|].
  pose proof OC as [OZ [[wo [go [WO [GO OO]]]] [C2 [C3 C5]]]].
  assert (forall s' c1 c4 o4, own_s s' /\ own_c s' c1 -> evict_user c1 t false 0 = (c4, o4) -> own_s s' /\ own_c s' c4) as EVK.
  { intros s' c1 c4 o4 [A B] EV. split; [exact A|].
    apply (own_c_same s' c1); [reflexivity| |apply (evict_owner _ _ _ _ _ _ EV)|exact B].
    intros v. rewrite (evict_cgiven _ _ _ _ _ _ v EV), (evict_cwant _ _ _ _ _ _ v EV), andb_false_r. auto. }
  destruct (alookup t (c_users c)) as [pt|] eqn:Et.
  - unfold aus_exist.
    assert (cgiven c t = Some (p_given pt)) as CGt by (unfold cgiven; rewrite Et; reflexivity).
    assert (cwant c t = Some (p_want pt)) as CWt by (unfold cwant; rewrite Et; reflexivity).
    destruct (_ || _).
    + destruct (negb _); [|auto]. destruct (evict_user c t false 0) as [c4 o4] eqn:EV. cbn [fst h_st h_ca].
      eapply EVK; [split; eassumption|exact EV].
    + destruct (N.eqb (c_owner c) t && (negb (is_owner mg) || negb (is_joiner mg))) eqn:EO; [auto|].
      destruct (call f n) as [ok1 n1]. destruct (negb ok1); [auto|].
      set (s1 := ad_subs_update s t (mkUpd None (Some mg) None None None)).
      set (c1 := c_set_users (aset t (p_set_modes (p_want pt) mg pt)) c).
      assert (forall v, arow s1 v = if N.eqb v t then option_map (aupd (mkUpd None (Some mg) None None None)) (arow s v) else arow s v) as S1.
      { intros v. subst s1. rewrite arow_update.
        replace (t =? 0)%N with false by (symmetry; apply N.eqb_neq; exact Htz). reflexivity. }
      destruct (arow s t) as [[[ws gs] ds]|] eqn:EAt; [|exfalso; pose proof (C5 t _ CGt) as L; rewrite EAt in L; discriminate].
      assert (ds = false) as -> by (pose proof (C5 t _ CGt) as L; rewrite EAt in L; cbn in L; destruct ds; [discriminate|reflexivity]).
      assert (c_owner c = t -> is_owner mg = true) as OM.
      { intros E. rewrite E, N.eqb_refl in EO. cbn in EO. destruct (is_owner mg); [reflexivity|discriminate]. }
      assert (own_s s1 /\ own_c s1 c1) as R.
      { assert (a_eff_owner (arow s1 (c_owner c)) = true) as C2'.
        { rewrite S1. eqbc (c_owner c) t NE; [|exact C2].
          rewrite NE, EAt. cbn. rewrite NE, EAt in C2. cbn in C2. apply is_owner_land in C2. destruct C2 as [_ B].
          apply is_owner_and; auto. }
        split.
        - split; [|eauto]. rewrite S1. apply N.eqb_neq in Htz. rewrite N.eqb_sym, Htz. apply OS.
        - unfold own_c. subst c1. cbn [c_owner c_set_users]. split; [exact OZ|]. split; [|split; [|split]].
          + rewrite cw_aset, cg_aset. eqbc (c_owner c) t NE; [|eauto].
            cbn. exists (p_want pt), mg. repeat split. rewrite NE, CWt, CGt in *. inv WO. inv GO.
            apply is_owner_land in OO. destruct OO as [_ B]. apply is_owner_and; auto.
          + exact C2'.
          + intros v g'. rewrite cg_aset, S1. eqbc v t NE; [|apply C3].
            cbn. intros H O. inv H. rewrite EAt. cbn. exact O.
          + intros v g'. rewrite cg_aset, S1. eqbc v t NE; [|apply C5]. rewrite NE, EAt. reflexivity. }
      destruct (negb (is_joiner mg)); [|exact R].
      destruct (evict_user c1 t false 0) as [c4 o4] eqn:EV. cbn [fst h_st h_ca]. eapply EVK; [exact R|exact EV].
  - unfold aus_new.
    assert (cgiven c t = None) as CGN by (unfold cgiven; rewrite Et; reflexivity).
    assert (c_owner c <> t) as NE by (intros E; rewrite E in GO; congruence).
    destruct (max_subs <=? _); [auto|].
    destruct (call f n) as [ok1 n1]. destruct (negb ok1); [auto|].
    match goal with |- context [match ?w with (_, _) => _ end] => destruct w as [n2 [[code|wantm]|]] end; auto.
    destruct (negb (is_joiner wantm)); [auto|].
    destruct (call f n2) as [ok3 n3]. destruct (negb ok3); [auto|].
    match goal with |- context [ad_sub_create s t wantm ?g] => set (given := g) end.
    set (s3 := ad_sub_create s t wantm given).
    set (c3 := c_set_users (aset t (mkPud wantm given 0 0 0 0)) c).
    assert (own_s s3 /\ own_c s3 c3) as R.
    { split.
      - apply (own_s_other s s3 t (c_owner c)); auto; [apply OS|].
        intros v N. subst s3. rewrite arow_create. apply N.eqb_neq in N. rewrite N. reflexivity.
      - unfold own_c. subst s3 c3. cbn [c_owner c_set_users]. split; [exact OZ|]. split; [|split; [|split]].
        + exists wo, go. rewrite cw_aset, cg_aset. apply N.eqb_neq in NE. rewrite NE. auto.
        + rewrite arow_create. apply N.eqb_neq in NE. rewrite NE. exact C2.
        + intros v g'. rewrite cg_aset, arow_create. eqb_cases v t; [cbn; intros H; inv H; auto|eauto].
        + intros v g'. rewrite cg_aset, arow_create. eqb_cases v t; [reflexivity|eauto]. }
    destruct (negb (is_joiner given)); [|exact R].
    destruct (evict_user c3 t false 0) as [c4 o4] eqn:EV. cbn [fst h_st h_ca]. eapply EVK; [exact R|exact EV].
Qed.

(* ---------- requests that do not touch permissions ---------- *)
Lemma sdeleted_skel s v : sdeleted s v = option_map snd (find (fun e => N.eqb (fst e) v) (skel s)).
Proof.
  unfold sdeleted, find_sub, skel. induction (subs s) as [|r l IH]; cbn; [reflexivity|].
  destruct (N.eqb (s_user r) v); [reflexivity|exact IH].
Qed.
Lemma arow_parts s v :
  arow s v = match swant s v, sgiven s v, sdeleted s v with
             | Some w, Some g, Some d => Some (w, g, d)
             | _, _, _ => None
             end.
Proof. unfold arow, swant, sgiven, sdeleted. destruct (find_sub v (subs s)); reflexivity. Qed.
Lemma arow_same_of s s' : acl_same s s' -> skel s' = skel s -> forall v, arow s' v = arow s v.
Proof.
  intros A K v. rewrite !arow_parts. destruct (A v) as [-> ->]. rewrite !sdeleted_skel, K. reflexivity.
Qed.
Lemma cmodes_same_of c c' : cacl_shrink c c' -> cmono c c' ->
  forall v, cgiven c' v = cgiven c v /\ cwant c' v = cwant c v.
Proof.
  intros [_ S] M v. destruct (S v) as [H|[G [W _]]]; [exact H|].
  destruct (cgiven c v) eqn:E.
  - assert (member c v = true) as Mv by (rewrite cg_member, E; reflexivity).
    apply M in Mv. rewrite cg_member, G in Mv. discriminate.
  - rewrite G, W. split; [reflexivity|]. unfold cgiven, cwant in *. destruct (alookup v (c_users c)); [discriminate|reflexivity].
Qed.

Lemma neutral_own s c h :
  hsame s c h -> hneutral s c h -> c_owner (h_ca h) = c_owner c ->
  own_s s -> own_c s c -> own_s (h_st h) /\ own_c (h_st h) (h_ca h).
Proof.
  intros [A S] [K M] O OS OC. pose proof (arow_same_of _ _ A K) as AR. split.
  - apply (own_s_same s); auto.
  - apply (own_c_same s c); auto. apply cmodes_same_of; auto.
Qed.

Lemma publish_owner f s c n sid u ct ne : c_owner (h_ca (publish f s c n sid u ct ne)) = c_owner c.
Proof. unfold publish. repeat break_match; reflexivity. Qed.
Lemma note_owner f s c n sid u what seq : c_owner (h_ca (note f s c n sid u what seq)) = c_owner c.
Proof. unfold note. repeat break_match; reflexivity. Qed.
Lemma get_data_owner f s c n sid u a b l : c_owner (h_ca (get_data f s c n sid u a b l)) = c_owner c.
Proof. unfold get_data. repeat break_match; reflexivity. Qed.
Lemma get_desc_owner s c n sid u : c_owner (h_ca (get_desc s c n sid u)) = c_owner c.
Proof. unfold get_desc. repeat break_match; reflexivity. Qed.
Lemma get_sub_owner f s c n sid u : c_owner (h_ca (get_sub f s c n sid u)) = c_owner c.
Proof. unfold get_sub. repeat break_match; reflexivity. Qed.
Lemma get_del_owner nr f s c n sid u a b l : c_owner (h_ca (get_del nr f s c n sid u a b l)) = c_owner c.
Proof. unfold get_del. repeat break_match; reflexivity. Qed.
Lemma del_msg_owner dr f s c n sid u req hard : c_owner (h_ca (del_msg dr f s c n sid u req hard)) = c_owner c.
Proof. unfold del_msg. repeat break_match; reflexivity. Qed.
Lemma leave_owner c sid u : c_owner (fst (leave c sid u)) = c_owner c.
Proof. unfold leave. repeat break_match; reflexivity. Qed.

(* unsubscription of somebody who is not the owner *)
Lemma del_sub_own f s c n sid u t :
  own_s s -> own_c s c ->
  own_s (h_st (del_sub f s c n sid u t)) /\ own_c (h_st (del_sub f s c n sid u t)) (h_ca (del_sub f s c n sid u t)).
Proof.
  intros OS OC. unfold del_sub. destruct (negb _); [auto|]. destruct (_ || _) eqn:ET; [auto|].
  destruct (alookup t (c_users c)) as [pt|] eqn:Et; [|auto].
  destruct (is_owner (pud_mode pt)) eqn:EOW; [auto|]. destruct (negb _); [auto|].
  destruct (call f n) as [ok1 n1]. destruct (negb ok1); [auto|].
  pose proof OC as [OZ [[wo [go [WO [GO OO]]]] [C2 _]]].
  assert (c_owner c <> t) as NE.
  { intros E. rewrite E in *. unfold cwant, cgiven in *. rewrite Et in *. cbn in *. inv WO. inv GO.
    unfold pud_mode in EOW. congruence. }
  assert (t <> 0%N) as TZ by (apply orb_false_iff in ET; destruct ET as [E _]; apply N.eqb_neq in E; exact E).
  destruct (evict_user c t true 0) as [c1 o1] eqn:EV.
  assert (forall s', (forall v, v <> t -> arow s' v = arow s v) -> own_s s' /\ own_c s' c1) as FIN.
  { intros s' HA. split; [apply (own_s_other s s' t (c_owner c)); auto; apply OS|].
    apply (own_c_remove s c t); auto.
    - intros v N. rewrite (evict_cgiven _ _ _ _ _ _ v EV), (evict_cwant _ _ _ _ _ _ v EV).
      apply N.eqb_neq in N. rewrite N. auto.
    - rewrite (evict_cgiven _ _ _ _ _ _ t EV), N.eqb_refl. reflexivity.
    - apply (evict_owner _ _ _ _ _ _ EV). }
  destruct (ad_subs_delete s t) as [s'|] eqn:ED; cbn [h_st h_ca]; apply FIN.
  - intros v N. rewrite (arow_delete _ _ _ v ED). apply N.eqb_neq in N. rewrite N. reflexivity.
  - reflexivity.
Qed.

Lemma leave_unsub_own f s c n sid u :
  u <> 0%N -> own_s s -> own_c s c ->
  own_s (h_st (leave_unsub f s c n sid u)) /\ own_c (h_st (leave_unsub f s c n sid u)) (h_ca (leave_unsub f s c n sid u)).
Proof.
  intros UZ OS OC. unfold leave_unsub. destruct (N.eqb (c_owner c) u) eqn:EO; [auto|]. apply N.eqb_neq in EO.
  destruct (call f n) as [ok1 n1]. destruct (negb ok1); [auto|].
  destruct (ad_subs_delete s u) as [s'|] eqn:ED; [|auto].
  destruct (evict_user c u true sid) as [c1 o1] eqn:EV. cbn [h_st h_ca].
  pose proof OC as [OZ [_ [C2 _]]].
  assert (forall v, v <> u -> arow s' v = arow s v) as HA.
  { intros v N. rewrite (arow_delete _ _ _ v ED). apply N.eqb_neq in N. rewrite N. reflexivity. }
  split; [apply (own_s_other s s' u (c_owner c)); auto; apply OS|].
  apply (own_c_remove s c u); auto.
  - intros v N. rewrite (evict_cgiven _ _ _ _ _ _ v EV), (evict_cwant _ _ _ _ _ _ v EV).
    apply N.eqb_neq in N. rewrite N. auto.
  - rewrite (evict_cgiven _ _ _ _ _ _ u EV), N.eqb_refl. reflexivity.
  - apply (evict_owner _ _ _ _ _ _ EV).
Qed.

(* {set sub} from a session that is not attached: only the O-less part of the own want moves *)
Lemma offline_set_sub_arow f s sid u t mode :
  u <> 0%N ->
  let s' := o_st (offline_set_sub f s sid u t mode) in
  forall v, arow s' v = arow s v \/
            (v = u /\ exists w g w', arow s v = Some (w, g, false) /\ arow s' v = Some (w', g, false) /\ is_owner w' = is_owner w).
Proof.
  intros Hnz. cbv zeta. unfold offline_set_sub. destruct mode as [|b mode']; [auto|].
  destruct (_ && _); [auto|]. destruct (call f 0) as [ok1 n1]. destruct (negb ok1); [auto|].
  destruct (ad_sub_get s u false) as [r|] eqn:EG; [|auto].
  destruct (unmarshal_text 0%N (b :: mode')) as [mw okw]. destruct (negb okw); [auto|].
  destruct (negb (Bool.eqb (is_owner mw) (is_owner (s_want r)))) eqn:EB; [auto|].
  destruct (mw =? s_want r)%N; [auto|]. destruct (call f n1) as [ok2 n2]. destruct (negb ok2); [auto|].
  cbn [o_st]. intros v. rewrite arow_update.
  replace (u =? 0)%N with false by (symmetry; apply N.eqb_neq; exact Hnz). cbn [orb].
  eqb_cases v u; [|auto]. right. split; [reflexivity|].
  unfold ad_sub_get in EG. unfold arow. destruct (find_sub u (subs s)) as [r'|]; [|discriminate].
  destruct (s_deleted r') eqn:ED; cbn in EG; [discriminate|]. inv EG.
  exists (s_want r), (s_given r), mw. cbn. rewrite ED. repeat split.
  apply negb_false_iff in EB. apply Bool.eqb_prop in EB. exact EB.
Qed.

(* ---------- loadSubscribers ---------- *)
Definition row_pud (r : subrow) : pud := mkPud (s_want r) (s_given r) (s_read r) (s_recv r) (s_delid r) 0.
Definition load_step (acc : list (N * pud)) (r : subrow) : list (N * pud) :=
  if s_deleted r then acc else aset (s_user r) (row_pud r) acc.

Lemma find_sub_cons r l u : find_sub u (r :: l) = if N.eqb (s_user r) u then Some r else find_sub u l.
Proof. reflexivity. Qed.
Lemma find_sub_none_notin u l : ~ In u (map s_user l) -> find_sub u l = None.
Proof.
  induction l as [|r l IH]; [reflexivity|]. cbn [map]. intros H. rewrite find_sub_cons.
  destruct (N.eqb (s_user r) u) eqn:E; [apply N.eqb_eq in E; exfalso; apply H; left; exact E|].
  apply IH. intros HI. apply H. right. exact HI.
Qed.

Lemma load_users_lookup rows : NoDup (map s_user rows) -> forall acc u,
  alookup u (fold_left load_step rows acc) =
  match find_sub u rows with
  | Some r => if s_deleted r then alookup u acc else Some (row_pud r)
  | None => alookup u acc
  end.
Proof.
  induction rows as [|r rows IH]; intros ND acc u; [reflexivity|].
  cbn [map] in ND. inversion ND as [|? ? NI ND']; subst. cbn [fold_left]. rewrite (IH ND'), find_sub_cons.
  destruct (N.eqb (s_user r) u) eqn:E.
  - apply N.eqb_eq in E. subst u. rewrite (find_sub_none_notin _ _ NI). unfold load_step.
    destruct (s_deleted r); [reflexivity|]. rewrite alookup_aset, N.eqb_refl. reflexivity.
  - assert (alookup u (load_step acc r) = alookup u acc) as EA.
    { unfold load_step. destruct (s_deleted r); [reflexivity|]. rewrite alookup_aset, N.eqb_sym, E. reflexivity. }
    destruct (find_sub u rows) as [r'|]; [destruct (s_deleted r')|]; auto.
Qed.

Definition row_eff (r : subrow) : bool := negb (s_deleted r) && is_owner (N.land (s_given r) (s_want r)).
Lemma load_owner_spec rows : forall init,
  let o := fold_left (fun o r => if row_eff r then s_user r else o) rows init in
  (o = init /\ forall r, In r rows -> row_eff r = false) \/ (exists r, In r rows /\ row_eff r = true /\ o = s_user r).
Proof.
  induction rows as [|r rows IH]; intros init; cbn.
  - left. split; [reflexivity|intros r []].
  - destruct (IH (if row_eff r then s_user r else init)) as [[E H]|[r' [HI [HE E]]]].
    + destruct (row_eff r) eqn:ER.
      * right. exists r. auto.
      * left. split; [exact E|]. intros r' [<-|HI]; auto.
    + right. exists r'. auto.
Qed.

Lemma find_sub_nodup l r : NoDup (map s_user l) -> In r l -> find_sub (s_user r) l = Some r.
Proof.
  induction l as [|x l IH]; intros ND HI; [destruct HI|]. cbn [map] in ND. inversion ND as [|? ? NI ND']; subst.
  rewrite find_sub_cons. destruct HI as [->|HI]; [rewrite N.eqb_refl; reflexivity|].
  destruct (N.eqb (s_user x) (s_user r)) eqn:E; [|auto].
  apply N.eqb_eq in E. exfalso. apply NI. rewrite E. apply in_map. exact HI.
Qed.

Lemma load_own s : rows_nodup s -> own_s s -> own_c s (load s).
Proof.
  intros ND [Z [u0 E0]]. unfold rows_nodup in ND.
  assert (forall u, alookup u (c_users (load s)) =
            match find_sub u (subs s) with Some r => if s_deleted r then None else Some (row_pud r) | None => None end) as LU.
  { intros u. unfold load, load_users. cbn [c_users].
    change (fun acc r => if s_deleted r then acc else aset (s_user r) (mkPud (s_want r) (s_given r) (s_read r) (s_recv r) (s_delid r) 0) acc)
      with load_step. rewrite (load_users_lookup _ ND). destruct (find_sub u (subs s)) as [r|]; [destruct (s_deleted r)|]; reflexivity. }
  pose proof (load_owner_spec (subs s) 0%N) as LO. cbv zeta in LO.
  assert (c_owner (load s) = fold_left (fun o r => if row_eff r then s_user r else o) (subs s) 0%N) as CO by reflexivity.
  destruct LO as [[_ H]|[r [HI [HE EO]]]].
  { exfalso. unfold arow in E0. destruct (find_sub u0 (subs s)) as [r|] eqn:EF; [|discriminate].
    pose proof (H r (find_sub_in _ _ _ EF)) as HF. cbn in E0. unfold row_eff in HF. congruence. }
  rewrite <- CO in EO.
  pose proof (find_sub_nodup _ _ ND HI) as FR.
  unfold row_eff in HE. apply andb_prop in HE. destruct HE as [HD HO]. apply negb_true_iff in HD.
  unfold own_c. rewrite EO. split; [|split; [|split; [|split]]].
  - intros E. unfold arow in Z. rewrite <- E, FR in Z. discriminate.
  - exists (s_want r), (s_given r). unfold cwant, cgiven. rewrite LU, FR, HD. cbn. auto.
  - unfold arow. rewrite FR. cbn. rewrite HD. exact HO.
  - intros u g. unfold cgiven, arow. rewrite LU. destruct (find_sub u (subs s)) as [r'|]; [|discriminate].
    destruct (s_deleted r') eqn:ED; [discriminate|]. cbn. intros H O. inv H. rewrite ED. exact O.
  - intros u g. unfold cgiven, arow. rewrite LU. destruct (find_sub u (subs s)) as [r'|]; [|discriminate].
    destruct (s_deleted r') eqn:ED; [discriminate|]. cbn. rewrite ED. reflexivity.
Qed.

(* ---------- one request ---------- *)
Lemma sub_reply_own f s c n sid u want bkg :
  u <> 0%N -> live_cached s c -> own_s s -> own_c s c ->
  let h := sub_reply f s c n sid u want bkg in
  own_s (h_st h) /\ ((fails f (S (S (S n))) = false \/ ~ pending_transferee c u) -> own_c (h_st h) (h_ca h)).
Proof.
  intros Hnz LC OS OC. cbv zeta. unfold sub_reply. rewrite tus_eq.
  set (nb := match alookup u (c_users c) with Some _ => false | None => true end).
  pose proof (tus_own f s c n u want nb Hnz LC OS OC) as T. cbv zeta in T.
  pose proof (tus_ok_member f s c n u want nb) as M.
  destruct (tus f s c n u want nb) as [h r]. cbn [fst snd] in *.
  destruct r as [code|ch]; cbn [h_st h_ca]; [exact T|].
  destruct T as [T1 T2]. split; [exact T1|]. intros HF. specialize (T2 HF). specialize (M ch eq_refl).
  apply (own_c_same (h_st h) (h_ca h)); [reflexivity| | |exact T2].
  - intros v. destruct (match ch with Some (w, g) => is_joiner (N.land g w) | None => true end); [|auto].
    destruct bkg; [auto|]. rewrite cg_aset, cw_aset. unfold get_pud. cbn [c_users c_set_sess].
    unfold member in M. destruct (alookup u (c_users (h_ca h))) as [p|] eqn:E; [|discriminate].
    eqb_cases v u; [|auto]. unfold cgiven, cwant. cbn [c_users c_set_sess]. rewrite E. auto.
  - repeat break_match; reflexivity.
Qed.

Section OwnInv.
Variable dr : Z -> list (Z * Z) -> option (list (Z * Z)).
Variable nr : list (Z * Z) -> list (Z * Z).
Variable sm : sessmap.

Definition nosplit (f : fault) (x : state) (o : op) : Prop :=
  match f with NoFault => True | FailAt _ => ~ transfer_split sm f x o | CrashAt _ => False end.
Definition own_goal (f : fault) (x : state) (o : op) (x' : state) : Prop :=
  own_s (st x') /\ (nosplit f x o -> match ca x' with Some c' => own_c (st x') c' | None => True end).

Lemma own_goal_pair f x o s' c' n : own_s s' /\ own_c s' c' -> own_goal f x o (mkState s' (Some c') n).
Proof. intros [A B]. split; [exact A|intros _; exact B]. Qed.
Lemma own_goal_keep f x o n : inv_own x -> own_goal f x o (mkState (st x) (ca x) n).
Proof. intros [A B]. split; [exact A|intros _; exact B]. Qed.
Lemma own_goal_unloaded f x o s' n : own_s s' -> own_goal f x o (mkState s' None n).
Proof. intros A. split; [exact A|intros _; exact I]. Qed.

Lemma step_own f x o :
  inv_lim x -> inv_sm x -> inv_own x -> logged_in sm o -> own_goal f x o (fst (step dr nr sm f x o)).
Proof.
  intros [[ND _] LC] SM [OS OC] LI. unfold step.
  assert (forall n, own_goal f x o (mkState (st x) (ca x) n)) as KEEP by (intros; apply own_goal_keep; split; assumption).
  assert (forall c h, ca x = Some c -> hsame (st x) c h -> hneutral (st x) c h -> c_owner (h_ca h) = c_owner c ->
            own_goal f x o (mkState (h_st h) (Some (h_ca h)) (h_n h))) as NEU.
  { intros c h E H1 H2 H3. apply own_goal_pair. rewrite E in OC. apply (neutral_own (st x) c); auto. }
  (* the third store call of the handler does not fail, or the request is not a transfer *)
  assert (forall n c u, o = o -> own_request u o -> u = actor sm o -> c = view x ->
            n = (match ca x with Some _ => 0 | None => 2 end)%nat -> nosplit f x o ->
            fails f (S (S (S n))) = false \/ ~ pending_transferee c u) as FOK.
  { intros n c u _ OR EU EV EN NS. unfold nosplit in NS. destruct f as [|k|k]; [left; reflexivity| |destruct NS].
    destruct (Nat.eqb (S (S (S n))) k) eqn:EK; [|left; exact EK].
    right. intros PT. apply NS. apply Nat.eqb_eq in EK. subst. unfold transfer_split. repeat split; auto.
    destruct (ca x); reflexivity. }
  destruct o; cbn [fst].
  - (* sub *)
    unfold logged_in in LI. cbn [op_sid] in LI.
    assert (own_request (sess_uid sm sid) (OSub sid want bkg)) as OR by (left; eauto).
    destruct (ca x) as [c|] eqn:EC.
    + destruct (attached c sid); cbn [fst]; [apply KEEP|].
      pose proof (sub_reply_own f (st x) c 0 sid (sess_uid sm sid) want bkg LI LC OS OC) as [A B].
      split; [exact A|]. cbn [ca st]. intros NS. apply B.
      apply (FOK 0%nat c (sess_uid sm sid) eq_refl OR eq_refl); auto. unfold view. rewrite EC. reflexivity.
    + destruct (try_load f (st x) 0) as [n1 [c|code]] eqn:ET; cbn [fst]; [|apply own_goal_unloaded; exact OS].
      unfold try_load in ET. repeat break_match_hyp; inv ET.
      unfold call in *. repeat match goal with H : (_, _) = (_, _) |- _ => inv H end.
      pose proof (sub_reply_own f (st x) (load (st x)) 2 sid (sess_uid sm sid) want bkg LI
                    (load_live_cached (st x)) OS (load_own _ ND OS)) as [A B].
      split; [exact A|]. cbn [ca st]. intros NS. apply B.
      apply (FOK 2%nat (load (st x)) (sess_uid sm sid) eq_refl OR eq_refl); auto. unfold view. rewrite EC. reflexivity.
  - (* leave *)
    destruct (ca x) as [c|] eqn:EC; [|cbn [negb]; apply KEEP].
    destruct (attached c sid) eqn:EA; cbn [negb]; [|apply KEEP].
    destruct unsub; cbn [fst].
    + apply own_goal_pair. apply leave_unsub_own; auto.
      (* the acting user of an attached session is a cached subscriber, hence not user 0 *)
      unfold attached in EA. destruct (alookup sid (c_sess c)) as [[a b]|] eqn:ES; [|discriminate].
      intros E. subst a. apply alookup_in in ES. unfold inv_sm in SM. rewrite EC in SM. apply SM in ES.
      rewrite cg_member in ES. destruct (cgiven c 0%N) eqn:EG; [|discriminate].
      destruct OC as [_ [_ [_ [_ C5]]]]. pose proof (C5 _ _ EG) as L. destruct OS as [Z _]. rewrite Z in L. discriminate.
    + destruct (leave c sid _) as [c1 o1] eqn:EL. cbn [fst h_st h_ca h_n]. apply own_goal_pair. split; [exact OS|].
      unfold inv_sm in SM. rewrite EC in SM.
      match goal with H : leave c sid ?a = _ |- _ =>
        pose proof (leave_same c sid a SM) as L1; pose proof (leave_mono c sid a) as L2; pose proof (leave_owner c sid a) as L3;
        rewrite H in L1, L2, L3 end. cbn [fst] in *.
      apply (own_c_same (st x) c); auto. apply cmodes_same_of; auto.
  - destruct (ca x) as [c|] eqn:EC; [|cbn [negb]; apply KEEP].
    destruct (attached c sid); cbn [negb fst]; [|apply KEEP].
    apply (NEU c); [reflexivity|apply publish_same|apply publish_neutral|apply publish_owner].
  - destruct (ca x) as [c|] eqn:EC.
    + destruct (attached c sid); cbn [negb]; repeat break_match; cbn [fst]; try apply KEEP;
        apply (NEU c); try reflexivity; first [apply note_same|apply note_neutral|apply note_owner].
    + cbn [negb]. repeat break_match; cbn [fst]; apply KEEP.
  - destruct (ca x) as [c|] eqn:EC; [|cbn [negb]; apply KEEP].
    destruct (attached c sid); cbn [negb fst]; [|apply KEEP].
    apply (NEU c); [reflexivity|apply get_data_same|apply get_data_neutral|apply get_data_owner].
  - assert (forall n, own_goal f x (OGetDesc sid) (mkState (o_st (offline_get_desc f (st x) sid (sess_uid sm sid))) (ca x) n)) as OFF
      by (intros; rewrite offline_get_desc_frame; apply KEEP).
    destruct (ca x) as [c|] eqn:EC; [|cbn [negb fst]; apply OFF].
    destruct (attached c sid); cbn [negb fst]; [|apply OFF].
    apply (NEU c); [reflexivity|apply get_desc_same|apply get_desc_neutral|apply get_desc_owner].
  - assert (forall n, own_goal f x (OGetSub sid) (mkState (o_st (offline_get_sub f (st x) sid (sess_uid sm sid))) (ca x) n)) as OFF
      by (intros; rewrite offline_get_sub_frame; apply KEEP).
    destruct (ca x) as [c|] eqn:EC; [|cbn [negb fst]; apply OFF].
    destruct (attached c sid); cbn [negb fst]; [|apply OFF].
    apply (NEU c); [reflexivity|apply get_sub_same|apply get_sub_neutral|apply get_sub_owner].
  - destruct (ca x) as [c|] eqn:EC; [|cbn [negb]; apply KEEP].
    destruct (attached c sid); cbn [negb fst]; [|apply KEEP].
    apply (NEU c); [reflexivity|apply get_del_same|apply get_del_neutral|apply get_del_owner].
  - destruct (ca x) as [c|] eqn:EC; [|cbn [negb]; apply KEEP].
    destruct (attached c sid); cbn [negb fst]; [|apply KEEP].
    apply (NEU c); [reflexivity|apply del_msg_same|apply del_msg_neutral|apply del_msg_owner].
  - (* set sub *)
    unfold logged_in in LI. cbn [op_sid] in LI. set (u := sess_uid sm sid) in *.
    assert (forall n, own_goal f x (OSetSub sid target mode) (mkState (o_st (offline_set_sub f (st x) sid u target mode)) (ca x) n)) as OFF.
    { intros n. pose proof (offline_set_sub_arow f (st x) sid u target mode LI) as HA. cbv zeta in HA.
      set (s' := o_st (offline_set_sub f (st x) sid u target mode)) in *.
      (* effective owners stay effective owners, live rows stay live, grants stay *)
      assert (forall v, a_eff_owner (arow (st x) v) = true -> a_eff_owner (arow s' v) = true) as H1.
      { intros v H. destruct (HA v) as [->|[-> [w [g [w' [E1 [E2 E3]]]]]]]; [exact H|].
        rewrite E1 in H. rewrite E2. cbn in *. apply is_owner_land in H. destruct H as [A B].
        apply is_owner_and; [exact A|rewrite E3; exact B]. }
      assert (forall v, a_grant_owner (arow (st x) v) = true -> a_grant_owner (arow s' v) = true) as H2.
      { intros v H. destruct (HA v) as [->|[-> [w [g [w' [E1 [E2 E3]]]]]]]; [exact H|]. rewrite E1 in H. rewrite E2. exact H. }
      assert (forall v, a_live (arow (st x) v) = true -> a_live (arow s' v) = true) as H3.
      { intros v H. destruct (HA v) as [->|[-> [w [g [w' [E1 [E2 E3]]]]]]]; [exact H|]. rewrite E2. reflexivity. }
      destruct OS as [Z [u0 E0]]. split; cbn [st ca].
      - split; [|eauto]. destruct (HA 0%N) as [->|[E _]]; [exact Z|]. exfalso. apply LI. symmetry. exact E.
      - intros _. destruct (ca x) as [c|]; [|exact I].
        destruct OC as [OZ [C1 [C2 [C3 C5]]]]. unfold own_c. repeat split; eauto. }
    destruct (ca x) as [c|] eqn:EC; [|cbn [negb fst]; apply OFF].
    destruct (attached c sid); cbn [negb fst]; [|apply OFF].
    pose proof (set_sub_res f (st x) c 0 sid u target mode) as R. cbv zeta in R.
    destruct ((target =? 0)%N || N.eqb target u) eqn:ESelf; destruct R as [R1 R2]; rewrite R1, R2.
    + pose proof (tus_own f (st x) c 0 u mode false LI LC OS OC) as [A B].
      split; [exact A|]. cbn [ca st]. intros NS. apply B.
      apply (FOK 0%nat c u eq_refl); auto.
      * right. exists sid, target, mode. split; [reflexivity|].
        apply orb_true_iff in ESelf. destruct ESelf as [E|E]; apply N.eqb_eq in E; auto.
      * unfold view. rewrite EC. reflexivity.
    + apply own_goal_pair. apply aus_own; auto.
      apply orb_false_iff in ESelf. destruct ESelf as [E _]. apply N.eqb_neq in E. exact E.
  - destruct (ca x) as [c|] eqn:EC; [|cbn [negb]; apply KEEP].
    destruct (attached c sid); cbn [negb fst]; [|apply KEEP].
    apply own_goal_pair. apply del_sub_own; auto.
  - destruct (ca x) as [c|] eqn:EC.
    + destruct (c_sess c); cbn [fst]; [apply own_goal_unloaded; exact OS|apply KEEP].
    + cbn [fst]. apply KEEP.
  - apply own_goal_unloaded. exact OS.
Qed.
End OwnInv.
