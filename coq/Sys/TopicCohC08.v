(* C08: coherence of the cached topic state with the stored rows.  Definitions only
   (the proofs are in Sys/TopicCohC08Proofs.v, TopicCohC08Step.v, TopicCohC08Query.v).

   The model of the load path is Topic.load (initTopicGrp + loadSubscribers): the
   cache a (re)load builds from the store.  [coherent x] says that while the topic
   is loaded the cache equals [load (st x)] on every field a query answer or a
   permission check reads: lastID, delID, owner, default access, and for every user
   presence in the cache, want, given, read, recv, delID.  The per-user online
   counter and the list of attached sessions are NOT stored and are not part of it. *)
From Coq Require Import ZArith NArith List Bool.
From Tinode Require Import Base.Util Pure.Acs Sys.Topic.
Import ListNotations.
Open Scope Z_scope.

(* the stored part of a cached per-user record *)
Definition core (p : pud) : N * N * (Z * Z * Z) := (p_want p, p_given p, (p_read p, p_recv p, p_delid p)).

(* two caches agree on what is stored *)
Definition cache_agree (c d : cache) : Prop :=
  c_lastid c = c_lastid d /\ c_delid c = c_delid d /\ c_owner c = c_owner d /\
  c_auth c = c_auth d /\ c_anon c = c_anon d /\
  forall u, option_map core (alookup u (c_users c)) = option_map core (alookup u (c_users d)).

Definition coherent (x : state) : Prop :=
  match ca x with
  | None => True
  | Some c => cache_agree c (load (st x))
  end.

(* the topic as a reload would see it: same store, cache rebuilt by the load path,
   the same sessions attached again (idle unload, then every session re-attaches) *)
Definition reload_cache (s : store) (c : cache) : cache :=
  mkCache (t_seqid s) (t_delid s) (load_owner (subs s)) (t_auth s) (t_anon s) (load_users (subs s)) (c_sess c).
Definition reload (x : state) : state :=
  match ca x with
  | None => x
  | Some c => mkState (st x) (Some (reload_cache (st x) c)) (ncalls x)
  end.

(* ------------------------------------------------------------------ *)
(* well-formed store: one row per user, no row of the null user, exactly one owner
   (the user whose want has O: he is subscribed and his grant has O), default access
   modes without O *)
Definition owner_row (s : store) (o : N) : Prop :=
  o <> 0%N /\
  (exists r, find_sub o (subs s) = Some r /\ is_owner (s_want r) = true) /\
  forall v r, find_sub v (subs s) = Some r -> is_owner (s_want r) = true ->
              s_deleted r = false /\ is_owner (s_given r) = true /\ v = o.

Definition wf_store (s : store) : Prop :=
  NoDup (map s_user (subs s)) /\
  (forall r, In r (subs s) -> s_user r <> 0%N) /\
  is_owner (t_auth s) = false /\
  (forall u a, alookup u (users s) = Some a -> is_owner a = false) /\
  exists o, owner_row s o.

(* what the load path makes of the row of user v *)
Definition row_core (s : store) (v : N) : option (N * N * (Z * Z * Z)) :=
  match find_sub v (subs s) with
  | Some r => if s_deleted r then None else Some (s_want r, s_given r, (s_read r, s_recv r, s_delid r))
  | None => None
  end.

(* the invariant that is preserved: the pointwise form of [coherent] + the owner *)
Definition coh (s : store) (c : cache) : Prop :=
  c_lastid c = t_seqid s /\ c_delid c = t_delid s /\ c_auth c = t_auth s /\ c_anon c = t_anon s /\
  (forall v, option_map core (alookup v (c_users c)) = row_core s v) /\
  owner_row s (c_owner c).

(* every attached session acts for a cached subscriber *)
Definition sess_ok (c : cache) : Prop :=
  forall sid su bkg, In (sid, (su, bkg)) (c_sess c) -> alookup su (c_users c) <> None.

Definition inv (x : state) : Prop :=
  wf_store (st x) /\ match ca x with Some c => coh (st x) c /\ sess_ok c | None => True end.

(* ------------------------------------------------------------------ *)
(* requests *)
Definition op_sid (o : op) : N :=
  match o with
  | OSub a _ _ | OLeave a _ | OPub a _ _ | ONote a _ _ | OGetData a _ _ _ | OGetDesc a | OGetSub a
  | OGetDel a _ _ _ | ODelMsg a _ _ | OSetSub a _ _ | ODelSub a _ => a
  | OUnload | ORestart => 0%N
  end.

(* the request comes from a logged-in session (the session map knows its user) *)
Definition known (sm : sessmap) (o : op) : Prop :=
  match o with
  | OUnload | ORestart => True
  | _ => sess_uid sm (op_sid o) <> 0%N
  end.

Definition is_query (o : op) : bool :=
  match o with OGetData _ _ _ _ | OGetDesc _ | OGetSub _ | OGetDel _ _ _ _ => true | _ => false end.

(* replies *)
Definition err_reply (o : out) (sid : N) : Prop := exists code ps, In (sid, Ctrl code ps) o /\ 400 <= code.
Definition ok_reply (o : out) (sid : N) : Prop :=
  (exists code ps, In (sid, Ctrl code ps) o /\ 200 <= code < 300) \/ (exists u w g, In (sid, CtrlAcs 200 u w g) o).

(* ------------------------------------------------------------------ *)
(* the triggers of the reproduced defects (findings/C08.md); each is excluded from the
   _partial theorems and has a _refuted witness *)

Definition attached_in (x : state) (sid : N) : bool :=
  match ca x with Some c => attached c sid | None => false end.

(* #1 note-read-recv-cached-only: a read note above the cached received mark *)
Definition trig_note_read (sm : sessmap) (x : state) (o : op) : Prop :=
  match o, ca x with
  | ONote sid what seq, Some c =>
    attached c sid = true /\ what = K_read /\ p_recv (get_pud c (sess_uid sm sid)) < seq
  | _, _ => False
  end.

(* #2 readless-publisher-marks-cached-only: an attached subscriber without R publishes *)
Definition trig_readless_pub (sm : sessmap) (x : state) (o : op) : Prop :=
  match o, ca x with
  | OPub sid _ _, Some c => attached c sid = true /\ is_reader (user_mode c (sess_uid sm sid)) = false
  | _, _ => False
  end.

(* #3 offline-setsub-stale-cache: {set sub} from a session that is not attached while the topic is loaded *)
Definition trig_offline_setsub (x : state) (o : op) : Prop :=
  match o, ca x with
  | OSetSub sid _ _, Some c => attached c sid = false
  | _, _ => False
  end.

Definition cur_cache (x : state) : cache := match ca x with Some c => c | None => load (st x) end.

(* #4 banned-user-request-rejected-but-want-changed: own {sub}/{set sub} of a cached user whose grant has no J *)
Definition trig_banned (sm : sessmap) (x : state) (o : op) : Prop :=
  match o with
  | OSub sid _ _ | OSetSub sid _ _ =>
    match alookup (sess_uid sm sid) (c_users (cur_cache x)) with
    | Some p => is_joiner (p_given p) = false
    | None => False
    end
  | _ => False
  end.

(* a subscriber with O in the grant but not in want: his next own {sub}/{set sub} with O accepts the ownership *)
Definition pending (p0 : pud) : Prop := is_owner (p_given p0) = true /\ is_owner (p_want p0) = false.

(* requests whose handler makes more than one store write, or ignores a store error: under a fault
   plan these can leave a partial write (#6-#9).  Excluded: a fault in the 2nd or 3rd store call of a publish or a delete (a fault in the 1st is harmless); any fault in the own {sub}/{set sub} of a pending transferee. *)
Definition fault_ok (sm : sessmap) (f : fault) (x : state) (o : op) : Prop :=
  match o with
  | OPub _ _ _ | ODelMsg _ _ _ => (fails f 1 = false /\ fails f 2 = false /\ fails f 3 = false) \/ fails f 1 = true
  | OSub sid _ _ | OSetSub sid _ _ =>
    f = NoFault \/ match alookup (sess_uid sm sid) (c_users (cur_cache x)) with Some p => ~ pending p | None => True end
  | _ => True
  end.

(* a step that is free of every known trigger *)
Definition safe_step (sm : sessmap) (f : fault) (x : state) (o : op) : Prop :=
  known sm o /\
  ~ trig_note_read sm x o /\ ~ trig_readless_pub sm x o /\ ~ trig_offline_setsub x o /\ fault_ok sm f x o.

(* a history all of whose steps are free of the known triggers (judged in the state each step starts from) *)
Section SafeRun.
Variable dr : Z -> list (Z * Z) -> option (list (Z * Z)).
Variable nr : list (Z * Z) -> list (Z * Z).
Variable sm : sessmap.
Fixpoint safe_run (x : state) (h : list (fault * op)) : Prop :=
  match h with
  | [] => True
  | fo :: r => safe_step sm (fst fo) x (snd fo) /\ safe_run (fst (step_f dr nr sm x fo)) r
  end.
(* the answer to a request in a state *)
Definition answer (f : fault) (x : state) (q : op) : out := snd (step dr nr sm f x q).
End SafeRun.
