(* Executable model of the DESCRIPTION part of one group topic (non-channel) of
   tinode/chat: default access, public / trusted / private content, tags.
   Companion of Sys/Topic.v (which has no requests for these fields); same
   conventions: one [dstep] = one client request handled to quiescence, every
   store-mapper call is one adapter call, a fault plan makes the k-th adapter
   call of the request fail (FailAt) or that call and all later ones (CrashAt).

   Go code modelled (server/topic.go unless noted), statement by statement:
     replySetDesc (group branch), replySetTags, replyGetTags, replyGetDesc,
     thisUserSub (no explicit mode; optional set.desc.private), subscriptionReply,
     replyLeaveUnsub, handleLeaveRequest, evictUser,
     hub.go: replyOfflineTopicGetDesc, replyOfflineTopicSetSub (desc.private only),
     init_topic.go: initTopicGrp + loadSubscribers,
     session.go: get / set / leave / subscribe routing of attached vs non-attached sessions,
     utils.go: mergeInterfaces on scalars, normalizeTags, restrictedTagsEqual, stringSliceDelta,
     store contract: db/mysql/adapter.go TopicUpdate, SubsUpdate, SubscriptionGet, SubsDelete,
     TopicShare -> createSubscription(undelete=true) (which KEEPS the private column of an existing row).

   Content values are opaque tokens (N): 0 = null / absent, 1 = the string "␡"
   (DEL marker, nullValue), n >= 2 = the JSON number n.  Tags are tokens too, see
   [tag_norm].  Sessions are logged in (non-zero uid); sessmap gives uid and whether
   the session has root level.

   Definitions only.  Proofs are in Sys/TopicDescProofs.v. *)
From Coq Require Import ZArith NArith List Bool.
From Tinode Require Import Base.Util Pure.Acs Sys.Topic.
Import ListNotations.
Open Scope Z_scope.

(* ------------------------------------------------------------------ *)
(* content tokens: mergeInterfaces(dst, src) for scalar src             *)
Definition merge_val (dst src : N) : N * bool :=
  if (src =? 0)%N then (dst, false)                      (* src == nil *)
  else if (src =? 1)%N then (0%N, negb (dst =? 0)%N)     (* nullValue: changed = dst != nil; dst = nil *)
  else (src, true).                                      (* default: changed = true; dst = src *)

(* ------------------------------------------------------------------ *)
(* store rows                                                           *)
Record drow := mkDRow { r_user : N; r_want : N; r_given : N; r_priv : N; r_deleted : bool }.
Record dstore := mkDStore {
  d_auth : N; d_anon : N; d_pub : N; d_tru : N; d_tags : list N;
  d_owner : N;                 (* topics.owner column *)
  d_subs : list drow }.

Definition ds_subs (f : list drow -> list drow) (s : dstore) : dstore :=
  mkDStore (d_auth s) (d_anon s) (d_pub s) (d_tru s) (d_tags s) (d_owner s) (f (d_subs s)).
Definition ds_owner (v : N) (s : dstore) : dstore :=
  mkDStore (d_auth s) (d_anon s) (d_pub s) (d_tru s) (d_tags s) v (d_subs s).
Definition ds_tags (v : list N) (s : dstore) : dstore :=
  mkDStore (d_auth s) (d_anon s) (d_pub s) (d_tru s) v (d_owner s) (d_subs s).

Definition dfind (u : N) (l : list drow) : option drow := find (fun r => N.eqb (r_user r) u) l.
Definition dupd (u : N) (f : drow -> drow) (l : list drow) : list drow :=
  map (fun r => if N.eqb (r_user r) u then f r else r) l.

(* SubscriptionGet(topic, user, keepDeleted) *)
Definition dad_sub_get (s : dstore) (u : N) (keep_deleted : bool) : option drow :=
  match dfind u (d_subs s) with
  | Some r => if r_deleted r && negb keep_deleted then None else Some r
  | None => None
  end.

(* TopicShare -> createSubscription(undelete=true): insert; on duplicate key the row
   is resurrected with the new modes, its private column is NOT written. *)
Definition dad_sub_create (s : dstore) (u want given priv : N) : dstore :=
  let s1 := match dfind u (d_subs s) with
            | Some _ => ds_subs (dupd u (fun r => mkDRow (r_user r) want given (r_priv r) false)) s
            | None => ds_subs (fun l => l ++ [mkDRow u want given priv false]) s
            end in
  if is_owner (N.land given want) then ds_owner u s1 else s1.

(* SubsUpdate(topic, user, {ModeWant?, Private?}): soft-deleted rows are not excluded *)
Definition dad_subs_update (s : dstore) (u : N) (want priv : option N) : dstore :=
  ds_subs (dupd u (fun r => mkDRow (r_user r) (match want with Some w => w | None => r_want r end) (r_given r)
                                   (match priv with Some p => p | None => r_priv r end) (r_deleted r))) s.

(* SubsDelete: soft delete; ErrNotFound (None) when missing or already deleted *)
Definition dad_subs_delete (s : dstore) (u : N) : option dstore :=
  match dad_sub_get s u false with
  | None => None
  | Some _ => Some (ds_subs (dupd u (fun r => mkDRow (r_user r) (r_want r) (r_given r) (r_priv r) true)) s)
  end.

(* TopicUpdate(topic, {Access?, Public?, Trusted?}) *)
Definition dad_topic_update (s : dstore) (acc : option (N * N)) (pub tru : option N) : dstore :=
  mkDStore (match acc with Some (a, _) => a | None => d_auth s end)
           (match acc with Some (_, n) => n | None => d_anon s end)
           (match pub with Some v => v | None => d_pub s end)
           (match tru with Some v => v | None => d_tru s end)
           (d_tags s) (d_owner s) (d_subs s).

(* ------------------------------------------------------------------ *)
(* cache (Topic struct)                                                 *)
Record dpud := mkDPud { q_want : N; q_given : N; q_priv : N }.
Record dcache := mkDCache {
  k_auth : N; k_anon : N; k_pub : N; k_tru : N; k_tags : list N; k_owner : N;
  k_users : list (N * dpud);       (* perUser *)
  k_sess : list (N * N)            (* attached sessions: sid -> acting uid *) }.

Definition kc_users (f : list (N * dpud) -> list (N * dpud)) (c : dcache) : dcache :=
  mkDCache (k_auth c) (k_anon c) (k_pub c) (k_tru c) (k_tags c) (k_owner c) (f (k_users c)) (k_sess c).
Definition kc_sess (f : list (N * N) -> list (N * N)) (c : dcache) : dcache :=
  mkDCache (k_auth c) (k_anon c) (k_pub c) (k_tru c) (k_tags c) (k_owner c) (k_users c) (f (k_sess c)).
Definition kc_tags (v : list N) (c : dcache) : dcache :=
  mkDCache (k_auth c) (k_anon c) (k_pub c) (k_tru c) v (k_owner c) (k_users c) (k_sess c).
Definition kc_core (acc : option (N * N)) (pub tru : option N) (c : dcache) : dcache :=
  mkDCache (match acc with Some (a, _) => a | None => k_auth c end)
           (match acc with Some (_, n) => n | None => k_anon c end)
           (match pub with Some v => v | None => k_pub c end)
           (match tru with Some v => v | None => k_tru c end)
           (k_tags c) (k_owner c) (k_users c) (k_sess c).

Definition blank_dpud := mkDPud 0 0 0.
Definition dget_pud (c : dcache) (u : N) : dpud :=
  match alookup u (k_users c) with Some p => p | None => blank_dpud end.

(* initTopicGrp + loadSubscribers (Topics.GetSubs returns the live rows in row order;
   (topic, user) is the primary key of the subscriptions table) *)
Definition pud_of_row (r : drow) : dpud := mkDPud (r_want r) (r_given r) (r_priv r).
Definition dload_users (rows : list drow) : list (N * dpud) :=
  flat_map (fun r => if r_deleted r then [] else [(r_user r, pud_of_row r)]) rows.
Definition live_owner (r : drow) : bool := negb (r_deleted r) && is_owner (N.land (r_given r) (r_want r)).
Definition downers (rows : list drow) : list N := map r_user (filter live_owner rows).
Definition dload_owner (rows : list drow) : N := last (downers rows) 0%N.
Definition dload (s : dstore) : dcache :=
  mkDCache (d_auth s) (d_anon s) (d_pub s) (d_tru s) (d_tags s) (dload_owner (d_subs s)) (dload_users (d_subs s)) [].

(* ------------------------------------------------------------------ *)
(* frames                                                               *)
Inductive dframe :=
| DCtrl (code : Z)
| DCtrlAcs (code : Z) (want given : N)                   (* 200 with params.acs *)
| DDesc (acs : option (N * N)) (mode : N) (defacs : option (N * N)) (pub tru priv : N)
| DTags (tags : list N)
| DEvicted (unsub : bool).
Definition dout := list (N * dframe).

Definition d_max_tags : nat := 4.       (* globals.maxTagCount as set by the driver *)
Definition ModeCPublic : N := 47.       (* JRWPS: getDefaultAccess(grp) = accessFor(root) *)

(* ------------------------------------------------------------------ *)
(* tags.  Token t is spelled by the driver as: 0 -> "␡"; 1 -> "x" (one rune,
   shorter than minTagLength); 2..9 -> "rst:0t" (namespace rst is in
   globals.immutableTagNS); 10..99 -> "ttt" two digits; 100+t -> the same
   spelling as t in upper case with surrounding blanks.  With this spelling
   sort.Strings on the normalised valid tokens is the numeric order. *)
Definition tag_norm (t : N) : N := if (100 <=? t)%N then (t - 100)%N else t.
Definition tag_valid (t : N) : bool := (2 <=? t)%N.
Definition tag_restricted (t : N) : bool := (2 <=? t)%N && (t <? 10)%N.

Fixpoint ninsert (x : N) (l : list N) : list N :=
  match l with
  | [] => [x]
  | y :: r => if (x <=? y)%N then x :: l else y :: ninsert x r
  end.
Definition nsort (l : list N) : list N := fold_right ninsert [] l.

(* the de-duplicating loop of normalizeTags; true = a null value was met (return make([]string, 0, 1)) *)
Fixpoint norm_loop (l : list N) (prev : N) (dst : list N) : list N * bool :=
  match l with
  | [] => (dst, false)
  | c :: r =>
    if (c =? 0)%N then ([], true)
    else if negb (tag_valid c) || (c =? prev)%N then norm_loop r prev dst
    else norm_loop r c (dst ++ [c])
  end.
(* None = nil slice *)
Definition normalize_tags (src : list N) : option (list N) :=
  let l := nsort (map tag_norm (firstn d_max_tags src)) in
  match norm_loop l 0%N [] with
  | (_, true) => Some []
  | ([], false) => None
  | (d, false) => Some d
  end.
Definition restricted_eq (old new : list N) : bool :=
  list_eqb (nsort (filter tag_restricted old)) (nsort (filter tag_restricted new)).
(* stringSliceDelta(old, new) has a non-empty added or removed part *)
Definition tags_differ (old new : list N) : bool := negb (list_eqb (nsort old) (nsort new)).

(* ------------------------------------------------------------------ *)
(* state and requests                                                   *)
Record dstate := mkDState { dst : dstore; dca : option dcache; dncalls : nat }.

(* a mode argument: None = "" (absent); Some m with m < 256 = the mode's string; Some m, m >= 256 = a
   string that does not parse *)
Inductive dop :=
| DSub (sid : N) (priv : N)                                (* {sub} without mode, optional set.desc.private *)
| DLeave (sid : N) (unsub : bool)
| DSetDesc (sid : N) (defacs : option (option N * option N)) (pub tru priv : N)
| DSetTags (sid : N) (tags : list N)                       (* tags is a non-nil JSON array *)
| DGetDesc (sid : N)
| DGetTags (sid : N)
| DUnload
| DRestart.

Definition dsessmap := list (N * (N * bool)).              (* sid -> (uid, root level) *)
Definition dsess_uid (sm : dsessmap) (sid : N) : N := match alookup sid sm with Some (u, _) => u | None => 0%N end.
Definition dsess_root (sm : dsessmap) (sid : N) : bool := match alookup sid sm with Some (_, r) => r | None => false end.

Record dhres := mkDH { dh_st : dstore; dh_ca : dcache; dh_n : nat; dh_out : dout }.

(* evictUser (group) *)
Definition d_evict (c : dcache) (u : N) (unsub : bool) (skip : N) : dcache * dout :=
  let mine := filter (fun e => N.eqb (snd e) u) (k_sess c) in
  let c1 := kc_sess (filter (fun e => negb (N.eqb (snd e) u))) c in
  let c2 := if unsub then kc_users (aremove u) c1 else c1 in
  (c2, flat_map (fun e => if N.eqb (fst e) skip then [] else [(fst e, DEvicted unsub)]) mine).

Inductive dsub_res :=
| DSubErr (code : Z)
| DSubOk (changed : option (N * N)).

Definition access_for (c : dcache) (root : bool) : N := if root then ModeCPublic else k_auth c.

(* thisUserSub, want == "" *)
Definition d_this_user_sub (f : fault) (s : dstore) (c : dcache) (n : nat) (u : N) (root : bool) (priv : N)
  : dhres * dsub_res :=
  let mk s c n o r := (mkDH s c n o, r) in
  match alookup u (k_users c) with
  | None =>
    if max_subs <=? Z.of_nat (length (k_users c)) then mk s c n [] (DSubErr 422) else
    let '(ok1, n1) := call f n in                        (* store.Subs.Get(topic, uid, true) *)
    if negb ok1 then mk s c n1 [] (DSubErr 500) else
    let prev := dad_sub_get s u true in
    let given0 := match prev with Some r => r_given r | None => ModeUnset end in
    let given := if (given0 =? ModeUnset)%N then access_for c root else given0 in
    let want := access_for c root in
    if negb (is_joiner given) then mk s c n1 [] (DSubErr 403) else
    let pv := if (priv =? 1)%N then 0%N else priv in    (* isNullValue(private) -> nil *)
    let need_create := match prev with Some r => r_deleted r | None => true end in
    let '(ok2, n2) := if need_create then call f n1 else (true, n1) in      (* store.Subs.Create *)
    if negb ok2 then mk s c n2 [] (DSubErr 500) else
    let s2 := if need_create then dad_sub_create s u want given pv else s in
    let c2 := kc_users (aset u (mkDPud want given pv)) c in
    if negb (is_joiner want) then
      let '(c3, o3) := d_evict c2 u false 0%N in mk s2 c3 n2 o3 (DSubOk (Some (want, given)))
    else mk s2 c2 n2 [] (DSubOk (Some (want, given)))
  | Some p0 =>
    let oldw := q_want p0 in let oldg := q_given p0 in
    let w1 := if negb (is_joiner oldw) then
                (let w := N.lor oldg (access_for c root) in if N.eqb (k_owner c) u then w else N.ldiff w mO)
              else oldw in
    let upd_priv : option N := if (priv =? 1)%N then Some 0%N else if (priv =? 0)%N then None else Some priv in
    let upd_want : option N := if (w1 =? oldw)%N then None else Some w1 in
    let need := match upd_priv, upd_want with None, None => false | _, _ => true end in
    let '(ok1, n1) := if need then call f n else (true, n) in               (* store.Subs.Update *)
    if negb ok1 then mk s c n1 [] (DSubErr 500) else
    let s1 := if need then dad_subs_update s u upd_want upd_priv else s in
    let p1 := mkDPud w1 oldg (match upd_priv with Some v => v | None => q_priv p0 end) in
    let c1 := kc_users (aset u p1) c in
    let ch := if (w1 =? oldw)%N then None else Some (w1, oldg) in
    if negb (is_joiner w1) then
      let '(c2, o2) := d_evict c1 u false 0%N in mk s1 c2 n1 o2 (DSubOk ch)
    else if negb (is_joiner oldg) then mk s1 c1 n1 [] (DSubErr 403)       (* "user is banned", after the writes *)
    else mk s1 c1 n1 [] (DSubOk ch)
  end.

Definition d_sub_reply (f : fault) (s : dstore) (c : dcache) (n : nat) (sid u : N) (root : bool) (priv : N) : dhres :=
  let '(h, r) := d_this_user_sub f s c n u root priv in
  match r with
  | DSubErr code => mkDH (dh_st h) (dh_ca h) (dh_n h) (dh_out h ++ [(sid, DCtrl code)])
  | DSubOk ch =>
    let joined := match ch with Some (w, g) => is_joiner (N.land g w) | None => true end in
    let c1 := dh_ca h in
    let c2 := if joined then kc_sess (aset sid u) c1 else c1 in
    let reply := match ch with Some (w, g) => DCtrlAcs 200 w g | None => DCtrl 200 end in
    mkDH (dh_st h) c2 (dh_n h) (dh_out h ++ [(sid, reply)])
  end.

(* replyLeaveUnsub *)
Definition d_leave_unsub (f : fault) (s : dstore) (c : dcache) (n : nat) (sid u : N) : dhres :=
  if N.eqb (k_owner c) u then mkDH s c n [(sid, DCtrl 403)] else
  let '(ok1, n1) := call f n in                          (* store.Subs.Delete *)
  if negb ok1 then mkDH s c n1 [(sid, DCtrl 500)] else
  match dad_subs_delete s u with
  | None => mkDH s c n1 [(sid, DCtrl 304)]
  | Some s1 =>
    let '(c1, o1) := d_evict c u true sid in
    mkDH s1 c1 n1 ((sid, DCtrl 200) :: o1)
  end.

(* replyGetDesc *)
Definition d_get_desc (c : dcache) (sid u : N) : dout :=
  match alookup u (k_users c) with
  | None => [(sid, DDesc None 0%N None (k_pub c) (k_tru c) 0%N)]
  | Some p =>
    let m := N.land (q_given p) (q_want p) in
    [(sid, DDesc (Some (q_want p, q_given p)) m
                 (if is_sharer m then Some (k_auth c, k_anon c) else None) (k_pub c) (k_tru c) (q_priv p))]
  end.

(* replyGetTags *)
Definition d_get_tags (c : dcache) (sid u : N) : dout :=
  if negb (N.eqb (k_owner c) u) then [(sid, DCtrl 403)]
  else match k_tags c with [] => [(sid, DCtrl 204)] | t => [(sid, DTags t)] end.

(* assignAccess of replySetDesc: None = error (400); Some None = nothing to write *)
Definition acs_arg_invalid (a : option N) : bool := match a with Some m => (256 <=? m)%N | None => false end.
Definition acs_arg_val (a : option N) : N :=
  match a with Some m => if (256 <=? m)%N then ModeUnset else m | None => ModeUnset end.
Definition assign_access (c : dcache) (mode : option (option N * option N)) : option (option (N * N)) :=
  match mode with
  | None => Some None
  | Some (a, an) =>
    (* parseTopicAccess: the error of acs.Auth is overwritten by the result for acs.Anon *)
    let err := match an with Some _ => acs_arg_invalid an | None => acs_arg_invalid a end in
    if err then None else
    let av := acs_arg_val a in let nv := acs_arg_val an in
    if is_owner av || is_owner nv then None else
    let a1 := if (av =? ModeUnset)%N then k_auth c else av in
    let n1 := if (nv =? ModeUnset)%N then k_anon c else nv in
    if negb (a1 =? k_auth c)%N || negb (n1 =? k_anon c)%N then Some (Some (a1, n1)) else Some None
  end.

(* replySetDesc, group topic, request from an attached session.
   First part: the checks and the two update maps (core: Access/Public/Trusted of the topic row,
   sub: Private of the requester's subscription).  inl code = reply and return. *)
Record sdplan := mkPlan { pl_acc : option (N * N); pl_pub : option N; pl_tru : option N; pl_prch : bool; pl_prv : N }.
Definition pl_ncore (p : sdplan) : bool :=
  match pl_acc p, pl_pub p, pl_tru p with None, None, None => false | _, _, _ => true end.

Definition d_set_desc_plan (c : dcache) (u : N) (root : bool)
           (defacs : option (option N * option N)) (pub tru priv : N) : Z + sdplan :=
  if negb (tru =? 0)%N && negb root then inl 403 else
  let core : option (option (N * N) * option N * option N) :=      (* None = assignAccess failed *)
    if N.eqb (k_owner c) u then
      match assign_access c defacs with
      | None => None
      | Some acc =>
        let '(pv, pch) := merge_val (k_pub c) pub in
        let '(tv, tch) := merge_val (k_tru c) tru in
        Some (acc, if pch then Some pv else None, if tch then Some tv else None)
      end
    else Some (None, None, None) in
  let nonowner_denied := negb (N.eqb (k_owner c) u) &&
     (match defacs with Some _ => true | None => false end || negb (pub =? 0)%N || negb (tru =? 0)%N) in
  if nonowner_denied then inl 403 else
  match core with
  | None => inl 400
  | Some (acc, upub, utru) =>
    let '(prv, prch) := merge_val (q_priv (dget_pud c u)) priv in
    let p := mkPlan acc upub utru prch prv in
    if negb (pl_ncore p) && negb prch then inl 304 else inr p
  end.

(* Second part: the writes, then the cache *)
Definition d_set_desc_exec (f : fault) (s : dstore) (c : dcache) (n : nat) (sid u : N) (p : sdplan) : dhres :=
  let ncore := pl_ncore p in
  let '(ok1, n1) := if ncore then call f n else (true, n) in             (* store.Topics.Update *)
  if negb ok1 then mkDH s c n1 [(sid, DCtrl 500)] else
  let s1 := if ncore then dad_topic_update s (pl_acc p) (pl_pub p) (pl_tru p) else s in
  let '(ok2, n2) := if pl_prch p then call f n1 else (true, n1) in       (* store.Subs.Update *)
  if negb ok2 then mkDH s1 c n2 [(sid, DCtrl 500)] else
  let s2 := if pl_prch p then dad_subs_update s1 u None (Some (pl_prv p)) else s1 in
  let c1 := kc_core (pl_acc p) (pl_pub p) (pl_tru p) c in
  let c2 := if pl_prch p then
              let q := dget_pud c1 u in kc_users (aset u (mkDPud (q_want q) (q_given q) (pl_prv p))) c1
            else c1 in
  mkDH s2 c2 n2 [(sid, DCtrl 200)].

Definition d_set_desc (f : fault) (s : dstore) (c : dcache) (n : nat) (sid u : N) (root : bool)
           (defacs : option (option N * option N)) (pub tru priv : N) : dhres :=
  match d_set_desc_plan c u root defacs pub tru priv with
  | inl code => mkDH s c n [(sid, DCtrl code)]
  | inr p => d_set_desc_exec f s c n sid u p
  end.

(* replySetTags *)
Definition d_set_tags (f : fault) (s : dstore) (c : dcache) (n : nat) (sid u : N) (tags : list N) : dhres :=
  if negb (N.eqb (k_owner c) u) then mkDH s c n [(sid, DCtrl 403)] else
  match normalize_tags tags with
  | None => mkDH s c n [(sid, DCtrl 304)]
  | Some t =>
    if negb (restricted_eq (k_tags c) t) then mkDH s c n [(sid, DCtrl 403)] else
    (* stringSliceDelta sorts its first argument, the cached slice, in place when both are non-empty *)
    let c0 := match k_tags c, t with [], _ | _, [] => c | _, _ => kc_tags (nsort (k_tags c)) c end in
    if tags_differ (k_tags c) t then
      let '(ok1, n1) := call f n in                      (* store.Topics.Update {Tags} *)
      if negb ok1 then mkDH s c0 n1 [(sid, DCtrl 500)] else
      mkDH (ds_tags t s) (kc_tags t c0) n1 [(sid, DCtrl 200)]
    else mkDH s c0 n [(sid, DCtrl 304)]
  end.

(* ------------------------------------------------------------------ *)
(* requests from a session that is not attached (hub.go) *)
Record dores := mkDO { do_st : dstore; do_n : nat; do_out : dout }.

Definition d_offline_get_desc (f : fault) (s : dstore) (sid u : N) : dores :=
  let '(ok1, n1) := call f 0 in                          (* store.Topics.Get *)
  if negb ok1 then mkDO s n1 [(sid, DCtrl 500)] else
  (* `stopic.Owner == msg.AsUser` compares Uid.String() ("AAAA...") with the user id ("usrAAAA..."):
     never equal, the default access is never reported on this path *)
  let defacs : option (N * N) := None in
  let '(ok2, n2) := call f n1 in                         (* store.Subs.Get(topic, uid, false) *)
  if negb ok2 then mkDO s n2 [(sid, DCtrl 500)] else
  match dad_sub_get s u false with
  | Some r => mkDO s n2 [(sid, DDesc (Some (r_want r, r_given r)) (N.land (r_given r) (r_want r)) defacs (d_pub s) (d_tru s) (r_priv r))]
  | None => mkDO s n2 [(sid, DDesc None (d_auth s) defacs (d_pub s) (d_tru s) 0%N)]
  end.

(* replyOfflineTopicSetSub for {set desc}: only desc.private is looked at; a scalar is stored as is *)
Definition d_offline_set_desc (f : fault) (s : dstore) (sid u : N) (priv : N) : dores :=
  if (priv =? 0)%N then mkDO s 0 [(sid, DCtrl 304)] else
  let '(ok1, n1) := call f 0 in                          (* store.Subs.Get(topic, uid, false) *)
  if negb ok1 then mkDO s n1 [(sid, DCtrl 500)] else
  match dad_sub_get s u false with
  | None => mkDO s n1 [(sid, DCtrl 404)]
  | Some _ =>
    let '(ok2, n2) := call f n1 in                       (* store.Subs.Update {Private} *)
    if negb ok2 then mkDO s n2 [(sid, DCtrl 500)] else
    mkDO (dad_subs_update s u None (Some priv)) n2 [(sid, DCtrl 200)]
  end.

(* ------------------------------------------------------------------ *)
Section DStep.
Variable sm : dsessmap.

Definition dattached (c : dcache) (sid : N) : bool :=
  match alookup sid (k_sess c) with Some _ => true | None => false end.

(* hub.join on a topic that is not loaded: initTopicGrp *)
Definition d_try_load (f : fault) (s : dstore) (n : nat) : nat * option dcache :=
  let '(ok1, n1) := call f n in                          (* store.Topics.Get *)
  if negb ok1 then (n1, None) else
  let '(ok2, n2) := call f n1 in                         (* store.Topics.GetSubs *)
  if negb ok2 then (n2, None) else (n2, Some (dload s)).

Definition dop_sid (o : dop) : N :=
  match o with
  | DSub a _ | DLeave a _ | DSetDesc a _ _ _ _ | DSetTags a _ | DGetDesc a | DGetTags a => a
  | _ => 0%N
  end.

Definition dstep (f : fault) (x : dstate) (o : dop) : dstate * dout :=
  let s := dst x in
  let keep o' := (mkDState s (dca x) 0, o') in
  let fin (h : dhres) := (mkDState (dh_st h) (Some (dh_ca h)) (dh_n h), dh_out h) in
  let off (r : dores) := (mkDState (do_st r) (dca x) (do_n r), do_out r) in
  let sid := dop_sid o in
  let u := dsess_uid sm sid in
  let root := dsess_root sm sid in
  match o with
  | DUnload =>
    match dca x with
    | Some c => match k_sess c with [] => (mkDState s None 0, []) | _ => keep [] end
    | None => keep []
    end
  | DRestart => (mkDState s None 0, [])
  | _ =>
  (* requests of a session that is not logged in (unknown sid, zero uid) are not modelled *)
  if (u =? 0)%N then keep [] else
  match o with
  | DSub _ priv =>
    match dca x with
    | Some c => if dattached c sid then keep [(sid, DCtrl 304)] else fin (d_sub_reply f s c 0 sid u root priv)
    | None =>
      match d_try_load f s 0 with
      | (n1, None) => (mkDState s None n1, [(sid, DCtrl 500)])
      | (n1, Some c) => fin (d_sub_reply f s c n1 sid u root priv)
      end
    end
  | _ =>
    match (match dca x with Some c => if dattached c sid then Some c else None | None => None end) with
    | None =>
      (* session.go: the session is not attached to the topic *)
      match o with
      | DLeave _ unsub => keep [(sid, DCtrl (if unsub then 409 else 304))]
      | DGetTags _ | DSetTags _ _ => keep [(sid, DCtrl 403)]
      | DGetDesc _ => off (d_offline_get_desc f s sid u)
      | DSetDesc _ _ _ _ priv => off (d_offline_set_desc f s sid u priv)
      | _ => keep []
      end
    | Some c =>
      match o with
      | DLeave _ unsub =>
        if unsub then fin (d_leave_unsub f s c 0 sid u)
        else fin (mkDH s (kc_sess (aremove sid) c) 0 [(sid, DCtrl 200)])
      | DGetDesc _ => fin (mkDH s c 0 (d_get_desc c sid u))
      | DGetTags _ => fin (mkDH s c 0 (d_get_tags c sid u))
      | DSetDesc _ defacs pub tru priv => fin (d_set_desc f s c 0 sid u root defacs pub tru priv)
      | DSetTags _ tags => fin (d_set_tags f s c 0 sid u tags)
      | _ => keep []
      end
    end
  end
  end.

(* a crash discards the in-memory state after the faulty request *)
Definition dstep_f (x : dstate) (fo : fault * dop) : dstate * dout :=
  let '(x1, o1) := dstep (fst fo) x (snd fo) in
  match fst fo with
  | CrashAt _ => (mkDState (dst x1) None (dncalls x1), o1)
  | _ => (x1, o1)
  end.

Fixpoint drun (x : dstate) (h : list (fault * dop)) : dstate * list dout :=
  match h with
  | [] => (x, [])
  | fo :: r => let '(x1, o1) := dstep_f x fo in
               let '(x2, os) := drun x1 r in (x2, o1 :: os)
  end.
End DStep.
