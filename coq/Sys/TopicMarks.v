(* C09: read/received marks.  Bounds invariant for cache and store over every
   history; characterisation of the note handler; audience of relayed notes. *)
From Coq Require Import ZArith NArith List Bool Lia.
From Tinode Require Import Base.Util Pure.Acs Sys.Topic Sys.TopicTac Sys.TopicFrame Sys.TopicNum.
Import ListNotations.
Open Scope Z_scope.

(* ---------- association-list facts ---------- *)
Lemma alookup_aset {A} (k k' : N) (v : A) l :
  alookup k' (aset k v l) = if N.eqb k' k then Some v else alookup k' l.
Proof.
  induction l as [|[k0 v0] l IH]; cbn.
  - destruct (N.eqb k' k); reflexivity.
  - destruct (N.eqb k k0) eqn:E; cbn.
    + apply N.eqb_eq in E. subst. destruct (N.eqb k' k0); reflexivity.
    + destruct (N.eqb k' k0) eqn:E2.
      * apply N.eqb_eq in E2. subst. rewrite N.eqb_sym, E. reflexivity.
      * exact IH.
Qed.
Lemma alookup_aremove {A} (k k' : N) (l : list (N * A)) v :
  alookup k' (aremove k l) = Some v -> alookup k' l = Some v.
Proof.
  induction l as [|[k0 v0] l IH]; cbn; [auto|].
  destruct (N.eqb k k0) eqn:E; cbn.
  - intros H. specialize (IH H). destruct (N.eqb k' k0) eqn:E2; [|exact IH].
    apply N.eqb_eq in E, E2. subst.
    (* k' = k0 = k: the removed key cannot be found in the remainder *)
    exfalso. clear IH. revert H. induction l as [|[k1 v1] l IH2]; cbn; [discriminate|].
    destruct (N.eqb k0 k1) eqn:E3; [exact IH2|]. cbn. rewrite E3. exact IH2.
  - destruct (N.eqb k' k0); [auto|exact IH].
Qed.
Lemma alookup_map {A B} (f : A -> B) k (l : list (N * A)) :
  alookup k (map (fun e => (fst e, f (snd e))) l) = option_map f (alookup k l).
Proof. induction l as [|[k0 v0] l IH]; cbn; [reflexivity|]. destruct (N.eqb k k0); [reflexivity|exact IH]. Qed.

(* ---------- bounds ---------- *)
Definition row_ok (B : Z) (r : subrow) : Prop := 0 <= s_read r <= B /\ 0 <= s_recv r <= B.
Definition smarks_ok (B : Z) (s : store) : Prop := Forall (row_ok B) (subs s).
Definition pud_ok (B : Z) (p : pud) : Prop := 0 <= p_read p <= B /\ 0 <= p_recv p <= B.
Definition cmarks_ok (B : Z) (c : cache) : Prop := forall u p, alookup u (c_users c) = Some p -> pud_ok B p.

Lemma row_ok_mono B B' r : B <= B' -> row_ok B r -> row_ok B' r.
Proof. unfold row_ok. lia. Qed.
Lemma smarks_mono B B' s : B <= B' -> smarks_ok B s -> smarks_ok B' s.
Proof. intros H. unfold smarks_ok. apply Forall_impl. intros r. now apply row_ok_mono. Qed.
Lemma pud_ok_mono B B' p : B <= B' -> pud_ok B p -> pud_ok B' p.
Proof. unfold pud_ok. lia. Qed.
Lemma cmarks_mono B B' c : B <= B' -> cmarks_ok B c -> cmarks_ok B' c.
Proof. intros H M u p L. eapply pud_ok_mono; eauto. Qed.

Lemma upd_sub_ok B u f l : (forall r, row_ok B r -> row_ok B (f r)) -> Forall (row_ok B) l -> Forall (row_ok B) (upd_sub u f l).
Proof. intros H F. unfold upd_sub. apply Forall_map. eapply Forall_impl; [|exact F]. intros r Hr. cbn. destruct (N.eqb (s_user r) u); auto. Qed.

Lemma sub_create_ok B s u w g : 0 <= B -> smarks_ok B s -> smarks_ok B (ad_sub_create s u w g).
Proof.
  intros HB M. unfold ad_sub_create, smarks_ok in *.
  assert (row_ok B (mkSub u w g 0 0 0 false)) as R0 by (unfold row_ok; cbn; lia).
  repeat break_match; cbn [subs st_owner st_subs]; try (apply upd_sub_ok; auto); try (apply Forall_app; split; auto).
Qed.

(* an update whose marks, when present, are within bounds *)
Definition upd_ok (B : Z) (up : subupd) : Prop :=
  match u_read up with Some v => 0 <= v <= B | None => True end /\
  match u_recv up with Some v => 0 <= v <= B | None => True end.
Lemma apply_upd_ok B up r : upd_ok B up -> row_ok B r -> row_ok B (apply_upd up r).
Proof. unfold upd_ok, row_ok, apply_upd. cbn. destruct (u_read up), (u_recv up); intuition. Qed.
Lemma subs_update_ok B s u up : upd_ok B up -> smarks_ok B s -> smarks_ok B (ad_subs_update s u up).
Proof.
  intros HU M. unfold ad_subs_update, smarks_ok in *. break_match; cbn [subs st_subs].
  - apply Forall_map. eapply Forall_impl; [|exact M]. intros r. now apply apply_upd_ok.
  - apply upd_sub_ok; auto. intros r. now apply apply_upd_ok.
Qed.
Lemma upd_ok_modes B w g : upd_ok B (mkUpd w g None None None).
Proof. split; exact I. Qed.
Lemma upd_ok_delid B d : upd_ok B (mkUpd None None None None d).
Proof. split; exact I. Qed.
Lemma subs_delete_ok B s u s' : ad_subs_delete s u = Some s' -> smarks_ok B s -> smarks_ok B s'.
Proof.
  unfold ad_subs_delete. break_match; intros H; inv H. intros M. unfold smarks_ok in *.
  cbn [subs st_subs st_dellog]. apply upd_sub_ok; auto.
Qed.
Lemma delete_list_ok B s d fu rs : smarks_ok B s -> smarks_ok B (ad_msg_delete_list s d fu rs).
Proof. unfold ad_msg_delete_list, smarks_ok. break_match; auto. Qed.

Lemma get_pud_ok B c u : 0 <= B -> cmarks_ok B c -> pud_ok B (get_pud c u).
Proof. intros HB M. unfold get_pud. destruct (alookup u (c_users c)) eqn:E; [eauto|]. unfold pud_ok, blank_pud. cbn. lia. Qed.
Lemma cmarks_aset B c u p : pud_ok B p -> cmarks_ok B c -> cmarks_ok B (c_set_users (aset u p) c).
Proof. intros HP M u' p'. cbn [c_users c_set_users]. rewrite alookup_aset. destruct (N.eqb u' u); [intros H; now inv H|apply M]. Qed.
Lemma cmarks_aremove B c u : cmarks_ok B c -> cmarks_ok B (c_set_users (aremove u) c).
Proof. intros M u' p'. cbn [c_users c_set_users]. intros H. apply alookup_aremove in H. eauto. Qed.
Lemma cmarks_sess B c f : cmarks_ok B c -> cmarks_ok B (c_set_sess f c).
Proof. auto. Qed.
Lemma cmarks_owner B c v : cmarks_ok B c -> cmarks_ok B (c_set_owner v c).
Proof. auto. Qed.
Lemma cmarks_delid B c v : cmarks_ok B c -> cmarks_ok B (c_set_delid v c).
Proof. auto. Qed.
Lemma cmarks_lastid B c v : cmarks_ok B c -> cmarks_ok B (c_set_lastid v c).
Proof. auto. Qed.
Lemma cmarks_map_delid B c d : cmarks_ok B c ->
  cmarks_ok B (c_set_users (map (fun e => (fst e, p_set_delid d (snd e)))) c).
Proof.
  intros M u p. cbn [c_users c_set_users]. rewrite alookup_map. destruct (alookup u (c_users c)) eqn:E; [|discriminate].
  intros H. inv H. apply M in E. exact E.
Qed.
Lemma pud_ok_modes B w g p : pud_ok B p -> pud_ok B (p_set_modes w g p). Proof. auto. Qed.
Lemma pud_ok_online B v p : pud_ok B p -> pud_ok B (p_set_online v p). Proof. auto. Qed.
Lemma pud_ok_delid B v p : pud_ok B p -> pud_ok B (p_set_delid v p). Proof. auto. Qed.
Lemma pud_ok_new B w g : 0 <= B -> pud_ok B (mkPud w g 0 0 0 0). Proof. unfold pud_ok. cbn. lia. Qed.

Lemma evict_marks B c u b k c' o : evict_user c u b k = (c', o) -> cmarks_ok B c -> cmarks_ok B c'.
Proof.
  unfold evict_user. intros H M. inv H. repeat break_match.
  - apply cmarks_aremove. apply cmarks_sess. exact M.
  - apply cmarks_aset; [|apply cmarks_sess; exact M]. apply pud_ok_online. eapply M. exact Heqo.
  - apply cmarks_sess. exact M.
Qed.

(* load: the cache marks are the store's *)
Lemma load_users_ok B rows : Forall (row_ok B) rows ->
  forall acc, (forall u p, alookup u acc = Some p -> pud_ok B p) ->
  forall u p, alookup u (fold_left (fun acc r =>
    if s_deleted r then acc
    else aset (s_user r) (mkPud (s_want r) (s_given r) (s_read r) (s_recv r) (s_delid r) 0) acc) rows acc) = Some p -> pud_ok B p.
Proof.
  induction rows as [|r rows IH]; intros F acc HA u p; cbn [fold_left]; [apply HA|].
  inversion F as [|? ? Hr Hrs]; subst. apply IH; [assumption|].
  destruct (s_deleted r); [exact HA|]. intros u' p'. rewrite alookup_aset.
  destruct (N.eqb u' (s_user r)); [intros H; inv H; exact Hr|apply HA].
Qed.
Lemma load_marks B s : smarks_ok B s -> cmarks_ok B (load s).
Proof. intros M u p. unfold load, load_users. cbn [c_users]. apply load_users_ok; [exact M|]. intros u' p' H. discriminate. Qed.

#[export] Hint Resolve sub_create_ok subs_update_ok upd_ok_modes upd_ok_delid delete_list_ok get_pud_ok cmarks_aset
  cmarks_aremove cmarks_sess cmarks_owner cmarks_delid cmarks_lastid cmarks_map_delid pud_ok_modes pud_ok_online
  pud_ok_delid pud_ok_new : marks.

Definition marks_pres (s : store) (c : cache) (h : hres) : Prop :=
  forall B L, 0 <= B -> 0 <= L -> smarks_ok B s -> cmarks_ok L c -> smarks_ok B (h_st h) /\ cmarks_ok L (h_ca h).

Ltac marks_post B L :=
  repeat match goal with
         | H : evict_user _ _ _ _ = (_, _) |- _ => apply (evict_marks L) in H; [|solve [eauto 10 with marks]]
         | H : ad_subs_delete _ _ = Some _ |- _ => apply (subs_delete_ok B) in H; [|solve [eauto 10 with marks]]
         end.
Ltac marks_solve :=
  let B := fresh "B" in let L := fresh "L" in
  intros B L ? ? ? ?; cbn [fst snd h_st h_ca]; marks_post B L; split; eauto 10 with marks.

Lemma smarks_st_owner B v s : smarks_ok B s -> smarks_ok B (st_owner v s). Proof. auto. Qed.
Lemma smarks_st_delid B v s : smarks_ok B s -> smarks_ok B (st_delid v s). Proof. auto. Qed.
Lemma smarks_st_dellog B f s : smarks_ok B s -> smarks_ok B (st_dellog f s). Proof. auto. Qed.
Lemma smarks_st_msgs B f s : smarks_ok B s -> smarks_ok B (st_msgs f s). Proof. auto. Qed.
#[export] Hint Resolve smarks_st_owner smarks_st_delid smarks_st_dellog smarks_st_msgs : marks.

Ltac marks_post B L ::=
  repeat match goal with
         | H : evict_user _ _ _ _ = (_, _) |- _ => apply (evict_marks L) in H; [|solve [eauto 20 with marks]]
         | H : ad_subs_delete _ _ = Some _ |- _ => apply (subs_delete_ok B) in H; [|solve [eauto 20 with marks]]
         end.
Ltac marks_solve ::=
  let B := fresh "B" in let L := fresh "L" in
  intros B L ? ? ? ?; cbn [fst snd h_st h_ca]; marks_post B L; split; eauto 20 with marks.

Lemma tus_marks f s c n sid u want nb : marks_pres s c (fst (this_user_sub f s c n sid u want nb)).
Proof. unfold this_user_sub, marks_pres. repeat break_match; marks_solve. Qed.
Lemma aus_marks f s c n sid u t m : marks_pres s c (fst (another_user_sub f s c n sid u t m)).
Proof. unfold another_user_sub, marks_pres. repeat break_match; marks_solve. Qed.

Lemma sub_reply_marks f s c n sid u want bkg : marks_pres s c (sub_reply f s c n sid u want bkg).
Proof.
  unfold sub_reply.
  pose proof (tus_marks f s c n sid u want (match alookup u (c_users c) with Some _ => false | None => true end)) as T.
  destruct (this_user_sub f s c n sid u want _) as [h r]. cbn [fst] in T.
  unfold marks_pres in *. intros B L HB HL MS MC. destruct (T B L HB HL MS MC) as [T1 T2].
  repeat break_match; cbn [h_st h_ca]; split; eauto 20 with marks.
Qed.
Lemma set_sub_marks f s c n sid u t m : marks_pres s c (set_sub f s c n sid u t m).
Proof.
  unfold set_sub.
  pose proof (tus_marks f s c n sid u m false) as T1. pose proof (aus_marks f s c n sid u t m) as T2.
  unfold marks_pres in *. intros B L HB HL MS MC.
  specialize (T1 B L HB HL MS MC). specialize (T2 B L HB HL MS MC).
  destruct ((t =? 0)%N || (t =? u)%N);
    [destruct (this_user_sub f s c n sid u m false) as [h r]
    |destruct (another_user_sub f s c n sid u t m) as [h r]]; cbn [fst] in *;
    repeat break_match; cbn [h_st h_ca]; tauto.
Qed.
Lemma del_sub_marks f s c n sid u t : marks_pres s c (del_sub f s c n sid u t).
Proof. unfold del_sub, marks_pres. repeat break_match; repeat break_match_hyp;
  repeat match goal with H : (_, _) = (_, _) |- _ => inv H end; marks_solve. Qed.
Lemma leave_unsub_marks f s c n sid u : marks_pres s c (leave_unsub f s c n sid u).
Proof. unfold leave_unsub, marks_pres. repeat break_match; marks_solve. Qed.
Lemma leave_marks L c sid u : 0 <= L -> cmarks_ok L c -> cmarks_ok L (fst (leave c sid u)).
Proof.
  intros HL M. unfold leave. repeat break_match; cbn [fst]; try solve [eauto 20 with marks].
  all: apply cmarks_aset; [|apply cmarks_sess; exact M].
  all: first [ apply pud_ok_online; eapply M; eassumption | unfold pud_ok, blank_pud; cbn; lia ].
Qed.
Lemma del_msg_marks dr f s c n sid u req hard : marks_pres s c (del_msg dr f s c n sid u req hard).
Proof. unfold del_msg, marks_pres. repeat break_match; marks_solve. Qed.
Lemma offline_set_sub_marks B f s sid u t m : 0 <= B -> smarks_ok B s -> smarks_ok B (o_st (offline_set_sub f s sid u t m)).
Proof. intros HB M. unfold offline_set_sub. repeat break_match; cbn [o_st]; eauto 10 with marks. Qed.

(* note: either silent (nothing changes, nothing is sent) or the named mark moves forward *)
Lemma note_cases f s c n sid u what seq :
  let h := note f s c n sid u what seq in
  let p := get_pud c u in
  (h_st h = s /\ h_ca h = c /\ (h_out h = [] \/ (what = K_kp /\ is_writer (pud_mode p) = true /\ h_out h = fanout_info c sid what u seq)))
  \/
  (seq <= c_lastid c /\ is_reader (pud_mode p) = true /\ (what = K_read \/ what = K_recv) /\
   exists rd rc, h_ca h = c_set_users (aset u (p_set_marks rd rc p)) c /\
     p_read p <= rd /\ p_recv p <= rc /\ (rd = seq \/ rd = p_read p) /\ (rc = seq \/ rc = p_recv p \/ rc = p_read p) /\
     (p_read p <= p_recv p -> rd <= rc) /\
     ((what = K_read /\ p_read p < seq /\ rd = seq /\ h_st h = ad_subs_update s u (mkUpd None None (Some rd) None None)) \/
      (what = K_recv /\ p_recv p < seq /\ h_st h = ad_subs_update s u (mkUpd None None None (Some rc) None))) /\
     h_out h = fanout_info (h_ca h) sid what u seq).
Proof.
  cbn zeta. unfold note.
  destruct (c_lastid c <? seq) eqn:E0; [left; auto|]. apply Z.ltb_ge in E0.
  destruct (N.eqb what K_kp) eqn:EK.
  { apply N.eqb_eq in EK. destruct (negb (is_writer (pud_mode (get_pud c u)))) eqn:EW; [left; auto|].
    apply negb_false_iff in EW. left. cbn. repeat split; auto. }
  destruct (N.eqb what K_read || N.eqb what K_recv) eqn:ER; [|left; auto].
  destruct (negb (is_reader (pud_mode (get_pud c u)))) eqn:ERd; [left; auto|]. apply negb_false_iff in ERd.
  destruct (N.eqb what K_read) eqn:E1.
  - apply N.eqb_eq in E1. cbn [andb negb].
    destruct (seq <=? p_read (get_pud c u)) eqn:E2; [left; auto|]. apply Z.leb_gt in E2.
    destruct (call f n) as [ok1 n1]. destruct (negb ok1); [left; auto|].
    right. repeat split; auto. exists seq, (if p_recv (get_pud c u) <? seq then seq else p_recv (get_pud c u)).
    cbn [h_ca h_st h_out]. repeat split; auto; try lia; destruct (p_recv (get_pud c u) <? seq) eqn:E3;
      try apply Z.ltb_lt in E3; try apply Z.ltb_ge in E3; try lia; auto.
  - cbn [orb] in ER. apply N.eqb_eq in ER. cbn [andb negb].
    destruct (seq <=? p_recv (get_pud c u)) eqn:E2; [left; auto|]. apply Z.leb_gt in E2.
    destruct (call f n) as [ok1 n1]. destruct (negb ok1); [left; auto|].
    right. repeat split; auto. exists (p_read (get_pud c u)), (if seq <? p_read (get_pud c u) then p_read (get_pud c u) else seq).
    cbn [h_ca h_st h_out]. repeat split; auto; try lia; destruct (seq <? p_read (get_pud c u)) eqn:E3;
      try apply Z.ltb_lt in E3; try apply Z.ltb_ge in E3; try lia; auto.
Qed.

(* the query handlers change nothing *)
Lemma get_data_same f s c n sid u a b l : h_st (get_data f s c n sid u a b l) = s /\ h_ca (get_data f s c n sid u a b l) = c.
Proof. unfold get_data. repeat break_match; split; reflexivity. Qed.
Lemma get_desc_same s c n sid u : h_st (get_desc s c n sid u) = s /\ h_ca (get_desc s c n sid u) = c.
Proof. unfold get_desc. repeat break_match; split; reflexivity. Qed.
Lemma get_sub_same f s c n sid u : h_st (get_sub f s c n sid u) = s /\ h_ca (get_sub f s c n sid u) = c.
Proof. unfold get_sub. repeat break_match; split; reflexivity. Qed.
Lemma get_del_same nr f s c n sid u a b l : h_st (get_del nr f s c n sid u a b l) = s /\ h_ca (get_del nr f s c n sid u a b l) = c.
Proof. unfold get_del. repeat break_match; split; reflexivity. Qed.

Definition inv_marks (x : state) : Prop :=
  inv_num x /\ smarks_ok (t_seqid (st x)) (st x) /\
  match ca x with Some c => cmarks_ok (c_lastid c) c | None => True end.

Lemma publish_marks f s c n sid u content noecho n0 :
  inv_marks (mkState s (Some c) n0) ->
  let h := publish f s c n sid u content noecho in
  smarks_ok (t_seqid (h_st h)) (h_st h) /\ cmarks_ok (c_lastid (h_ca h)) (h_ca h).
Proof.
  intros [[A [B0 [C0 [C1 C2]]]] [MS MC]]. cbn [st ca] in *. cbn zeta. unfold publish.
  assert (0 <= t_seqid s) as HB by lia.
  pose proof (smarks_mono (t_seqid s) (c_lastid c + 1) s ltac:(lia) MS) as MS1.
  destruct (negb (is_writer (pud_mode (get_pud c u)))); [split; assumption|].
  destruct (call f n) as [ok1 n1]. destruct (negb ok1); [split; assumption|].
  destruct (call f n1) as [ok2 n2]. destruct (negb ok2); [cbn [h_st h_ca t_seqid st_seqid]; split; assumption|].
  destruct (ad_msg_save (st_seqid (c_lastid c + 1) s) (c_lastid c + 1) u content) as [s2|] eqn:SV;
    [|cbn [h_st h_ca t_seqid st_seqid]; split; assumption].
  unfold ad_msg_save in SV. break_match_hyp; [discriminate|]. inv SV.
  assert (smarks_ok (c_lastid c + 1) (st_msgs (fun l => l ++ [mkMsg (c_lastid c + 1) u content 0]) (st_seqid (c_lastid c + 1) s))) as MS2 by exact MS1.
  assert (cmarks_ok (c_lastid c + 1) (c_set_lastid (c_lastid c + 1) c)) as MC1.
  { apply cmarks_lastid. apply (cmarks_mono (c_lastid c)); [lia|exact MC]. }
  assert (pud_ok (c_lastid c + 1) (p_set_marks (c_lastid c + 1) (c_lastid c + 1) (get_pud c u))) as PO.
  { unfold pud_ok. cbn. lia. }
  destruct (is_reader (pud_mode (get_pud c u))); try destruct (call f n2) as [ok3 n3];
    cbn [h_st h_ca andb]; repeat break_match; cbn [c_lastid c_set_lastid c_set_users];
    try rewrite seqid_subs_update; cbn [t_seqid st_msgs st_seqid]; split;
    try exact MS2; try exact MC1; try (apply cmarks_aset; [exact PO|exact MC1]);
    (apply subs_update_ok; [split; cbn; lia|exact MS2]).
Qed.

Lemma note_marks f s c n sid u what seq n0 :
  inv_marks (mkState s (Some c) n0) ->
  let h := note f s c n sid u what seq in
  smarks_ok (t_seqid s) (h_st h) /\ cmarks_ok (c_lastid c) (h_ca h).
Proof.
  intros [[A [B0 [C0 [C1 C2]]]] [MS MC]]. cbn [st ca] in *. cbn zeta.
  pose proof (get_pud_ok (c_lastid c) c u C0 MC) as [P1 P2].
  destruct (note_cases f s c n sid u what seq) as [[E1 [E2 _]]|[S1 [_ [_ [rd [rc [E1 [R1 [R2 [R3 [R4 [_ [E2 _]]]]]]]]]]]]].
  - rewrite E1, E2. split; assumption.
  - rewrite E1. split.
    + destruct E2 as [[_ [_ [-> ->]]]|[_ [_ ->]]]; apply subs_update_ok; auto; split; cbn; try exact I; lia.
    + apply cmarks_aset; [|exact MC]. unfold pud_ok. cbn. lia.
Qed.

Section StepMarks.
Variable dr : Z -> list (Z * Z) -> option (list (Z * Z)).
Variable nr : list (Z * Z) -> list (Z * Z).
Variable sm : sessmap.

Lemma step_inv_marks f x o : inv_marks x -> inv_marks (fst (step dr nr sm f x o)).
Proof.
  intros IM. pose proof IM as [IN [MS MC]].
  pose proof (step_inv_num dr nr sm f x o IN) as IN'.
  split; [exact IN'|]. clear IN'.
  destruct x as [s cx n0]. cbn [st ca] in *.
  assert (0 <= t_seqid s) as HB.
  { destruct IN as [A [B C]]. destruct cx; cbn [st ca] in *; lia. }
  assert (forall c h, cx = Some c -> hframe s c h -> marks_pres s c h ->
            smarks_ok (t_seqid (h_st h)) (h_st h) /\ cmarks_ok (c_lastid (h_ca h)) (h_ca h)) as PERM.
  { intros c h -> [[_ [E1 _]] [E2 _]] MP. rewrite E1, E2.
    destruct IN as [_ [_ [C0 _]]]. cbn [ca] in *. apply MP; auto. }
  destruct o; unfold step; cbn [st ca negb].
  - (* OSub *)
    destruct cx as [c|].
    + destruct (attached c sid); cbn [fst st ca]; [split; assumption|].
      apply (PERM c); auto; [apply sub_reply_frame|apply sub_reply_marks].
    + destruct (try_load f s 0) as [n1 [c|code]] eqn:TL; cbn [fst st ca]; [|split; assumption].
      apply try_load_cases in TL. subst c.
      pose proof (sub_reply_frame f s (load s) n1 sid (sess_uid sm sid) want bkg) as [[_ [E1 _]] [E2 _]].
      rewrite E1, E2. assert (c_lastid (load s) = t_seqid s) as EL by reflexivity. rewrite EL.
      apply sub_reply_marks; [exact HB | exact HB | exact MS | apply load_marks; exact MS].
  - (* OLeave *)
    destruct cx as [c|]; [destruct (attached c sid) eqn:AT|]; cbn [negb fst st ca]; try (split; assumption).
    destruct unsub; cbn [fst st ca].
    + apply (PERM c); auto; [apply leave_unsub_frame|apply leave_unsub_marks].
    + pose proof (leave_frame c sid (match alookup sid (c_sess c) with Some (a, _) => a | None => sess_uid sm sid end)) as [E _].
      pose proof (leave_marks (c_lastid c) c sid (match alookup sid (c_sess c) with Some (a, _) => a | None => sess_uid sm sid end)) as LM.
      destruct (leave c sid _) as [c1 o1]. cbn [fst st ca h_st h_ca] in *. rewrite E.
      split; [exact MS|]. apply LM; [|exact MC]. destruct IN as [_ [_ [C0 _]]]. exact C0.
  - (* OPub *)
    destruct cx as [c|]; [destruct (attached c sid)|]; cbn [negb fst st ca]; try (split; assumption).
    eapply publish_marks. exact IM.
  - (* ONote *)
    destruct cx as [c|]; [destruct (attached c sid)|]; cbn [negb fst st ca];
      repeat match goal with |- context [if ?b then _ else _] => destruct b end; cbn [fst st ca]; try (split; assumption).
    all: pose proof (note_frame f s c 0 sid (sess_uid sm sid) what seq) as [[_ [E1 _]] [E2 _]]; rewrite E1, E2;
      eapply note_marks; exact IM.
  - (* OGetData *)
    destruct cx as [c|]; [destruct (attached c sid)|]; cbn [negb fst st ca]; try (split; assumption).
    destruct (get_data_same f s c 0 sid (sess_uid sm sid) since before limit) as [-> ->]. split; assumption.
  - (* OGetDesc *)
    destruct cx as [c|]; [destruct (attached c sid)|]; cbn [negb fst st ca]; try rewrite offline_get_desc_frame; try (split; assumption).
    destruct (get_desc_same s c 0 sid (sess_uid sm sid)) as [-> ->]. split; assumption.
  - (* OGetSub *)
    destruct cx as [c|]; [destruct (attached c sid)|]; cbn [negb fst st ca]; try rewrite offline_get_sub_frame; try (split; assumption).
    destruct (get_sub_same f s c 0 sid (sess_uid sm sid)) as [-> ->]. split; assumption.
  - (* OGetDel *)
    destruct cx as [c|]; [destruct (attached c sid)|]; cbn [negb fst st ca]; try (split; assumption).
    destruct (get_del_same nr f s c 0 sid (sess_uid sm sid) since before limit) as [-> ->]. split; assumption.
  - (* ODelMsg *)
    destruct cx as [c|]; [destruct (attached c sid)|]; cbn [negb fst st ca]; try (split; assumption).
    destruct (del_msg_num dr f s c 0 sid (sess_uid sm sid) ranges hard) as [E1 [_ E2]]. rewrite E1, E2.
    apply del_msg_marks; auto. destruct IN as [_ [_ [C0 _]]]. exact C0.
  - (* OSetSub *)
    destruct cx as [c|]; [destruct (attached c sid)|]; cbn [negb fst st ca].
    + apply (PERM c); auto; [apply set_sub_frame|apply set_sub_marks].
    + destruct (sframe_seqs _ _ (offline_set_sub_frame f s sid (sess_uid sm sid) target mode)) as [E1 _]. rewrite E1.
      split; [apply offline_set_sub_marks; assumption|exact MC].
    + destruct (sframe_seqs _ _ (offline_set_sub_frame f s sid (sess_uid sm sid) target mode)) as [E1 _]. rewrite E1.
      split; [apply offline_set_sub_marks; assumption|exact I].
  - (* ODelSub *)
    destruct cx as [c|]; [destruct (attached c sid)|]; cbn [negb fst st ca]; try (split; assumption).
    apply (PERM c); auto; [apply del_sub_frame|apply del_sub_marks].
  - (* OUnload *)
    destruct cx as [c|]; [destruct (c_sess c)|]; cbn [fst st ca]; split; auto.
  - (* ORestart *)
    cbn [fst st ca]. split; auto.
Qed.
End StepMarks.

(* ------------------------------------------------------------------ *)
(* who may move a mark: every handler other than publish and note leaves each
   cached user's marks as they were, or the entry is a fresh (0,0) subscription *)
Definition marks_kept (c c' : cache) : Prop :=
  forall u p', alookup u (c_users c') = Some p' ->
    (exists p, alookup u (c_users c) = Some p /\ p_read p' = p_read p /\ p_recv p' = p_recv p) \/
    (p_read p' = 0 /\ p_recv p' = 0).

Lemma mk_refl c : marks_kept c c.
Proof. intros u p' H. left. exists p'. auto. Qed.
Lemma mk_trans a b c : marks_kept a b -> marks_kept b c -> marks_kept a c.
Proof.
  intros H1 H2 u p' L. destruct (H2 u p' L) as [[p [L1 [E1 E2]]]|F]; [|now right].
  destruct (H1 u p L1) as [[p0 [L0 [E3 E4]]]|[F1 F2]]; [left; exists p0; repeat split; congruence|right; split; congruence].
Qed.
Lemma mk_sess c f : marks_kept c (c_set_sess f c). Proof. exact (mk_refl c). Qed.
Lemma mk_owner c v : marks_kept c (c_set_owner v c). Proof. exact (mk_refl c). Qed.
Lemma mk_delid c v : marks_kept c (c_set_delid v c). Proof. exact (mk_refl c). Qed.
Lemma mk_aremove c u : marks_kept c (c_set_users (aremove u) c).
Proof. intros u' p' H. cbn in H. apply alookup_aremove in H. left. exists p'. auto. Qed.
Lemma mk_aset_same c u p : p_read p = p_read (get_pud c u) -> p_recv p = p_recv (get_pud c u) ->
  marks_kept c (c_set_users (aset u p) c).
Proof.
  intros E1 E2 u' p' H. cbn [c_users c_set_users] in H. rewrite alookup_aset in H.
  destruct (N.eqb u' u) eqn:E; [|left; exists p'; auto]. apply N.eqb_eq in E. subst u'. inv H.
  unfold get_pud in *. destruct (alookup u (c_users c)) eqn:L; [left; exists p; auto|right; cbn in *; auto].
Qed.
Lemma mk_aset_new c u w g d o : marks_kept c (c_set_users (aset u (mkPud w g 0 0 d o)) c).
Proof.
  intros u' p' H. cbn [c_users c_set_users] in H. rewrite alookup_aset in H.
  destruct (N.eqb u' u); [inv H; right; auto|left; exists p'; auto].
Qed.
Lemma mk_map_delid c d : marks_kept c (c_set_users (map (fun e => (fst e, p_set_delid d (snd e)))) c).
Proof.
  intros u p'. cbn [c_users c_set_users]. rewrite alookup_map. destruct (alookup u (c_users c)) eqn:E; [|discriminate].
  intros H. inv H. left. exists p. auto.
Qed.
Lemma evict_kept c u b k c' o : evict_user c u b k = (c', o) -> marks_kept c c'.
Proof.
  unfold evict_user. intros H. inv H. repeat break_match.
  - eapply mk_trans; [apply mk_sess|apply mk_aremove].
  - eapply mk_trans; [apply mk_sess|]. apply mk_aset_same; unfold get_pud; cbn [c_users c_set_sess]; rewrite Heqo; reflexivity.
  - apply mk_sess.
Qed.

Ltac mk_step :=
  first [ apply mk_sess | apply mk_owner | apply mk_delid | apply mk_aremove | apply mk_aset_new | apply mk_map_delid
        | apply mk_aset_same; reflexivity
        | apply mk_aset_same; unfold get_pud;
          match goal with H : alookup _ (c_users _) = Some _ |- _ => rewrite H end; reflexivity ].
Ltac mk_solve :=
  cbn [fst snd h_ca];
  repeat match goal with H : evict_user _ _ _ _ = (_, _) |- _ => apply evict_kept in H end;
  repeat first [ apply mk_refl | assumption | mk_step | eapply mk_trans; [|first [mk_step|eassumption]] ].

Lemma tus_kept f s c n sid u want nb : marks_kept c (h_ca (fst (this_user_sub f s c n sid u want nb))).
Proof. unfold this_user_sub. repeat break_match; mk_solve. Qed.
Lemma aus_kept f s c n sid u t m : marks_kept c (h_ca (fst (another_user_sub f s c n sid u t m))).
Proof. unfold another_user_sub. repeat break_match; mk_solve. Qed.
Lemma sub_reply_kept f s c n sid u want bkg : marks_kept c (h_ca (sub_reply f s c n sid u want bkg)).
Proof.
  unfold sub_reply.
  pose proof (tus_kept f s c n sid u want (match alookup u (c_users c) with Some _ => false | None => true end)) as T.
  destruct (this_user_sub f s c n sid u want _) as [h r]. cbn [fst] in T.
  repeat break_match; cbn [h_ca]; mk_solve.
Qed.
Lemma set_sub_kept f s c n sid u t m : marks_kept c (h_ca (set_sub f s c n sid u t m)).
Proof.
  unfold set_sub. pose proof (tus_kept f s c n sid u m false) as T1. pose proof (aus_kept f s c n sid u t m) as T2.
  destruct ((t =? 0)%N || (t =? u)%N);
    [destruct (this_user_sub f s c n sid u m false) as [h r]
    |destruct (another_user_sub f s c n sid u t m) as [h r]]; cbn [fst] in *;
    repeat break_match; cbn [h_ca]; assumption.
Qed.
Lemma del_sub_kept f s c n sid u t : marks_kept c (h_ca (del_sub f s c n sid u t)).
Proof. unfold del_sub. repeat break_match; repeat break_match_hyp;
  repeat match goal with H : (_, _) = (_, _) |- _ => inv H end; mk_solve. Qed.
Lemma leave_unsub_kept f s c n sid u : marks_kept c (h_ca (leave_unsub f s c n sid u)).
Proof. unfold leave_unsub. repeat break_match; mk_solve. Qed.
Lemma leave_kept c sid u : marks_kept c (fst (leave c sid u)).
Proof.
  unfold leave. repeat break_match; cbn [fst]; try apply mk_refl.
  all: eapply mk_trans; [apply mk_sess|].
  all: first [ apply mk_refl
             | apply mk_aset_same; unfold get_pud; cbn [c_users c_set_sess];
               match goal with H : alookup _ (c_users _) = _ |- _ => cbn [c_users c_set_sess] in H; rewrite H end; reflexivity ].
Qed.
Lemma del_msg_kept dr f s c n sid u req hard : marks_kept c (h_ca (del_msg dr f s c n sid u req hard)).
Proof.
  unfold del_msg. repeat break_match; cbn [h_ca]; try apply mk_refl.
  - eapply mk_trans; [apply mk_delid|apply mk_map_delid].
  - eapply mk_trans; [apply mk_delid|]. apply mk_aset_same; reflexivity.
Qed.

(* publish touches only the publisher's marks *)
Lemma publish_ca f s c n sid u content noecho :
  let h := publish f s c n sid u content noecho in
  h_ca h = c \/ h_ca h = c_set_lastid (c_lastid c + 1) c \/
  h_ca h = c_set_users (aset u (p_set_marks (c_lastid c + 1) (c_lastid c + 1) (get_pud c u))) (c_set_lastid (c_lastid c + 1) c).
Proof. cbn zeta. unfold publish. repeat break_match; cbn [h_ca]; auto. Qed.

Section StepKept.
Variable dr : Z -> list (Z * Z) -> option (list (Z * Z)).
Variable nr : list (Z * Z) -> list (Z * Z).
Variable sm : sessmap.

(* Any request that is not a publish or a note: if the topic was and stays loaded, every
   cached user's marks are as they were (or the entry is a fresh subscription). *)
Lemma step_marks_kept f x o c c' :
  ca x = Some c -> ca (fst (step dr nr sm f x o)) = Some c' ->
  (forall sid a b, o <> OPub sid a b) -> (forall sid a b, o <> ONote sid a b) ->
  marks_kept c c'.
Proof.
  intros Hc Hc' NP NN. destruct x as [s cx n0]. cbn [ca] in Hc. subst cx.
  destruct o; unfold step in Hc'; cbn [st ca negb] in Hc'.
  - destruct (attached c sid); cbn [fst ca] in Hc'; inv Hc'; [apply mk_refl|apply sub_reply_kept].
  - destruct (attached c sid); cbn [negb fst ca] in Hc'; [|inv Hc'; apply mk_refl].
    destruct unsub; cbn [fst ca] in Hc'.
    + inv Hc'. apply leave_unsub_kept.
    + pose proof (leave_kept c sid (match alookup sid (c_sess c) with Some (a, _) => a | None => sess_uid sm sid end)) as LK.
      destruct (leave c sid _) as [c1 o1]. cbn [fst ca h_ca] in *. inv Hc'. exact LK.
  - exfalso. eapply NP. reflexivity.
  - exfalso. eapply NN. reflexivity.
  - destruct (attached c sid); cbn [negb fst ca] in Hc'; inv Hc'; [|apply mk_refl].
    destruct (get_data_same f s c 0 sid (sess_uid sm sid) since before limit) as [_ ->]. apply mk_refl.
  - destruct (attached c sid); cbn [negb fst ca] in Hc'; inv Hc'; [|apply mk_refl].
    destruct (get_desc_same s c 0 sid (sess_uid sm sid)) as [_ ->]. apply mk_refl.
  - destruct (attached c sid); cbn [negb fst ca] in Hc'; inv Hc'; [|apply mk_refl].
    destruct (get_sub_same f s c 0 sid (sess_uid sm sid)) as [_ ->]. apply mk_refl.
  - destruct (attached c sid); cbn [negb fst ca] in Hc'; inv Hc'; [|apply mk_refl].
    destruct (get_del_same nr f s c 0 sid (sess_uid sm sid) since before limit) as [_ ->]. apply mk_refl.
  - destruct (attached c sid); cbn [negb fst ca] in Hc'; inv Hc'; [apply del_msg_kept|apply mk_refl].
  - destruct (attached c sid); cbn [negb fst ca] in Hc'; inv Hc'; [apply set_sub_kept|apply mk_refl].
  - destruct (attached c sid); cbn [negb fst ca] in Hc'; inv Hc'; [apply del_sub_kept|apply mk_refl].
  - destruct (c_sess c); cbn [fst ca] in Hc'; [discriminate|inv Hc'; apply mk_refl].
  - cbn [fst ca] in Hc'. discriminate.
Qed.

Lemma step_f_inv_marks x fo : inv_marks x -> inv_marks (fst (step_f dr nr sm x fo)).
Proof.
  intros I. unfold step_f. pose proof (step_inv_marks dr nr sm (fst fo) x (snd fo) I) as I1.
  destruct (step dr nr sm (fst fo) x (snd fo)) as [x1 o1]. cbn [fst] in *.
  destruct (fst fo); cbn [fst]; auto.
  destruct I1 as [IN [MS MC]]. split; [|split; [exact MS|exact Logic.I]].
  destruct x1 as [s1 [c1|] n1]; [apply (inv_num_unload s1 c1 n1 n1); exact IN|exact IN].
Qed.

Lemma run_inv_marks h : forall x, inv_marks x -> inv_marks (fst (run dr nr sm x h)).
Proof.
  induction h as [|fo h IH]; intros x I; cbn [run fst]; [exact I|].
  pose proof (step_f_inv_marks x fo I) as I1.
  destruct (step_f dr nr sm x fo) as [x1 o1]. cbn [fst] in I1.
  specialize (IH x1 I1). destruct (run dr nr sm x1 h) as [x2 os]. exact IH.
Qed.
End StepKept.

(* audience of a relayed note: exactly the attached sessions of readers, minus the
   origin session, and for typing notes minus every session of the typist *)
Lemma fanout_info_spec c skip what from seq sid fr :
  In (sid, fr) (fanout_info c skip what from seq) <->
  fr = Info what from seq /\
  exists u bkg, In (sid, (u, bkg)) (c_sess c) /\ N.eqb sid skip = false /\ is_reader (user_mode c u) = true /\
                (N.eqb what K_kp && N.eqb u from) = false.
Proof.
  unfold fanout_info. rewrite in_flat_map. split.
  - intros [[s0 [u0 b0]] [Hin H]].
    destruct (N.eqb s0 skip) eqn:E1; [destruct H|].
    destruct (negb (is_reader (user_mode c u0))) eqn:E2; [destruct H|]. apply negb_false_iff in E2.
    destruct (N.eqb what K_kp && N.eqb u0 from) eqn:E3; [destruct H|].
    destruct H as [H|[]]. inv H. split; [reflexivity|]. exists u0, b0. auto.
  - intros [-> [u [bkg [Hin [E1 [E2 E3]]]]]]. exists (sid, (u, bkg)). split; [exact Hin|].
    rewrite E1, E2, E3. cbn. now left.
Qed.
