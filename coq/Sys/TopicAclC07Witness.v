(* C07 proofs, part 6: the two refutation witnesses (vm_compute on concrete histories). *)
From Coq Require Import ZArith NArith List Bool Lia.
From Tinode Require Import Base.Util Pure.Acs Sys.Topic Sys.TopicTac Sys.TopicFrame Sys.TopicMarks Sys.TopicAclC07
  Sys.TopicAclC07Proofs Sys.TopicAclC07Inv Sys.TopicAclC07Join Sys.TopicAclC07Own Sys.TopicAclC07Thm.
Import ListNotations.
Open Scope Z_scope.

(* ---------- refutation witnesses ---------- *)
Definition dr0 : Z -> list (Z * Z) -> option (list (Z * Z)) := fun _ _ => None.
Definition nr0 : list (Z * Z) -> list (Z * Z) := fun x => x.

(* 1. banned-user-attached *)
Definition w1_sm : sessmap := [(1%N, 1%N); (2%N, 2%N)].
Definition w1_s : store :=
  ad_sub_create (ad_sub_create (mkStore true 0 0 0 47 0 [] [] [] [(1%N, 47%N); (2%N, 47%N)]) 1%N 255%N 255%N) 2%N 0%N 0%N.
Definition w1_x : state := mkState w1_s None 0.
Definition w1_h : list (fault * op) := [(NoFault, OSub 2 [78%N] false)].   (* {sub set.sub.mode="N"} *)

Lemma w1_inv : inv_all w1_x /\ inv_aj w1_x.
Proof.
  split; [|exact I]. split; [|split; [exact I|]].
  - split; [split|exact I].
    + unfold rows_nodup. vm_compute. repeat constructor; cbn; intuition discriminate.
    + vm_compute. discriminate.
  - split; [|exact I]. split; [reflexivity|exists 1%N; reflexivity].
Qed.

Lemma w1_attached : ~ inv_aj (fst (run dr0 nr0 w1_sm w1_x w1_h)).
Proof.
  intros H.
  assert (exists c, ca (fst (run dr0 nr0 w1_sm w1_x w1_h)) = Some c /\ In (2%N, (2%N, false)) (c_sess c) /\
                    cgiven c 2%N = Some 0%N) as [c [E [HI G]]].
  { vm_compute. eexists. split; [reflexivity|]. split; [left; reflexivity|reflexivity]. }
  unfold inv_aj in H. rewrite E in H. destruct (H _ _ _ HI) as [p [EP J]].
  unfold cgiven in G. rewrite EP in G. cbn in G. inv G. rewrite H1 in J. discriminate.
Qed.

(* 2. a failing topics.owner write inside a transfer, then ordinary requests:
   the owner field becomes zero and the next transfer rewrites EVERY row *)
Definition w2_sm : sessmap := [(1%N, 1%N); (2%N, 2%N); (3%N, 3%N)].
Definition w2_s : store :=
  ad_sub_create (ad_sub_create (ad_sub_create
    (mkStore true 0 0 0 47 0 [] [] [] [(1%N, 47%N); (2%N, 47%N); (3%N, 47%N)]) 1%N 255%N 255%N) 2%N 47%N 255%N) 3%N 47%N 47%N.
Definition w2_x : state := mkState w2_s None 0.
Definition m_full : list N := [74; 82; 87; 80; 65; 83; 68; 79]%N.   (* "JRWPASDO" *)
Definition m_jrwpas : list N := [74; 82; 87; 80; 65; 83]%N.
Definition w2_h5 : list (fault * op) :=
  [(NoFault, OSub 2 [] false); (FailAt 3, OSetSub 2 0 m_full); (NoFault, OSetSub 2 0 m_jrwpas);
   (NoFault, ORestart); (NoFault, OSub 2 [] false)].
Definition w2_last : fault * op := (NoFault, OSetSub 2 0 m_full).

Lemma w2_inv : inv_all w2_x.
Proof.
  split; [|split; [exact I|]].
  - split; [split|exact I].
    + unfold rows_nodup. vm_compute. repeat constructor; cbn; intuition discriminate.
    + vm_compute. discriminate.
  - split; [|exact I]. split; [reflexivity|exists 1%N; reflexivity].
Qed.
Lemma w2_logged : hist_logged_in dr0 nr0 w2_sm w2_x (w2_h5 ++ [w2_last]).
Proof. cbn. repeat split; try exact I; cbn; discriminate. Qed.

Lemma w2_rewrites_all : ~ all_steps dr0 nr0 w2_sm (given_law w2_sm) w2_x (w2_h5 ++ [w2_last]).
Proof.
  intros H. apply all_steps_app in H. set (x5 := fst (run dr0 nr0 w2_sm w2_x w2_h5)) in *.
  destruct H as [[L _] _]. specialize (L 3%N).
  assert (sgiven (st x5) 3%N = Some 47%N) as G0 by (vm_compute; reflexivity).
  assert (sgiven (st (fst (step_f dr0 nr0 w2_sm x5 w2_last))) 3%N = Some 0%N) as G1 by (vm_compute; reflexivity).
  assert (c_owner (view x5) = 0%N) as CO by (vm_compute; reflexivity).
  assert (actor w2_sm (snd w2_last) = 2%N) as AC by reflexivity.
  clearbody x5.
  destruct L as [E|[g' [E J]]]; [congruence|].
  destruct J as [[[sid [m [EO _]]] _]|[_ J]]; [discriminate EO|].
  unfold own_given_just in J. cbv zeta in J. rewrite AC in J.
  destruct J as [[E1 _]|[[E1 _]|[[E1 _]|[_ [E1 _]]]]].
  - discriminate E1.
  - discriminate E1.
  - discriminate E1.
  - rewrite CO in E1. discriminate E1.
Qed.
