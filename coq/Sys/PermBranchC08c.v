(* C08 (strengthening s08c): the branch of Topic.thisUserSub / Topic.anotherUserSub /
   replyOfflineTopicSetSub that a permission request takes in a given state of the
   model Sys/Topic.v.  Definitions only (proofs: Sys/PermBranchC08cProofs.v).

   The classifier follows the tests of Topic.this_user_sub / another_user_sub /
   offline_set_sub in their order, without the store calls (it labels the fault-free
   path).  It is extracted and run next to the model: the generator of tools/props/c08.py
   reads it to AIM requests at every branch, and the evidence records how many requests
   of a run took each branch (every branch must be non-empty in the quick tier). *)
From Coq Require Import ZArith NArith List Bool.
From Tinode Require Import Base.Util Pure.Acs Sys.Topic.
Import ListNotations.
Open Scope Z_scope.

Inductive pbr_c08c :=
| PB_other                      (* not a {sub} / {set sub} request *)
| PB_sub_attached               (* {sub} from a session that is already attached: 304 *)
| PB_sub_load_fail              (* the topic does not exist *)
(* thisUserSub: no cached subscription *)
| PB_t_junk                     (* mode does not parse: 400 *)
| PB_t_new_limit                (* subscriber limit: 422 *)
| PB_t_new_banned               (* default access / grant of the deleted row has no J: 403 *)
| PB_t_new_default              (* first subscription, no mode *)
| PB_t_new_explicit             (* first subscription, explicit mode with J *)
| PB_t_new_selfban              (* first subscription, explicit mode without J *)
| PB_t_resub_default            (* soft-deleted row exists: previous grant kept; no mode *)
| PB_t_resub_explicit           (* soft-deleted row exists; explicit mode *)
(* thisUserSub: existing subscription *)
| PB_t_owner_keeps              (* owner asks for a mode without O or J: 403 *)
| PB_t_ask_owner                (* O asked without O in the grant: 403 *)
| PB_t_default_nochange         (* no mode, want has J: nothing changes *)
| PB_t_unselfban                (* no mode, want has no J: want := given | default *)
| PB_t_unselfban_banned         (* same, but the grant has no J (403 after the write) or the new want has no J *)
| PB_t_raise_admin              (* approver (A in grant and in want) asks beyond the grant: given |= want &^ D *)
| PB_t_raise_owner              (* O in grant and in want, already accepted, asks beyond the grant: given |= want *)
| PB_t_accept                   (* ownership accepted: O in grant, O asked, want had no O *)
| PB_t_accept_raise             (* acceptance that also raises the grant *)
| PB_t_same                     (* explicit mode equal to the current want *)
| PB_t_selfban                  (* explicit mode without J *)
| PB_t_banned                   (* the grant has no J: 403 (after the write of the new want) *)
| PB_t_reject_offer             (* O in grant, explicit mode without O, not the owner: offer declined *)
| PB_t_within                   (* explicit new want within the grant *)
| PB_t_beyond                   (* explicit new want beyond the grant, no self-raise: want recorded, grant kept *)
(* anotherUserSub *)
| PB_a_not_sharer               (* requester has no S/A/O (or is not subscribed): 403 *)
| PB_a_junk                     (* 400 *)
| PB_a_sharer_explicit          (* sharer without A/O gives an explicit mode: 403 *)
| PB_a_give_owner_nonowner      (* O given by a non-owner: 403 *)
| PB_a_new_limit                (* 422 *)
| PB_a_invite_unknown           (* target user does not exist: 404 *)
| PB_a_invite_nojoin            (* invitee's want would have no J: 403 *)
| PB_a_invite_default           (* first invitation, default grant (default access | J) *)
| PB_a_invite_explicit          (* first invitation, explicit grant *)
| PB_a_invite_ban               (* soft-deleted row re-created with a grant without J *)
| PB_a_reinvite_default         (* soft-deleted row exists: previous want kept; default grant *)
| PB_a_reinvite_explicit
| PB_a_nochange                 (* existing subscriber, no mode or the same grant *)
| PB_a_strip_owner              (* owner's grant without O or J: 403 *)
| PB_a_offer_owner              (* owner gives O to another subscriber *)
| PB_a_withdraw_offer           (* grant had O (pending offer), new grant has none *)
| PB_a_ban                      (* new grant without J *)
| PB_a_unban                    (* old grant without J, new with *)
| PB_a_up                       (* new grant contains the old *)
| PB_a_down                     (* old grant contains the new *)
| PB_a_other                    (* incomparable *)
(* replyOfflineTopicSetSub: {set sub} of a session that is not attached *)
| PB_o_empty | PB_o_other_user | PB_o_nosub | PB_o_junk | PB_o_owner_bit | PB_o_same | PB_o_changed.

Definition parse_mode_c08c (m : list N) : N * bool :=
  match m with [] => (ModeUnset, true) | _ => unmarshal_text ModeUnset m end.

Definition tus_branch_c08c (s : store) (c : cache) (u : N) (want : list N) : pbr_c08c :=
  let '(mw, okw) := parse_mode_c08c want in
  if negb okw then PB_t_junk else
  match alookup u (c_users c) with
  | None =>
    if max_subs <=? Z.of_nat (length (c_users c)) then PB_t_new_limit else
    let prev := ad_sub_get s u true in
    let given0 := match prev with Some r => s_given r | None => ModeUnset end in
    let given := if (given0 =? ModeUnset)%N then c_auth c else given0 in
    let wantm := if (mw =? ModeUnset)%N then c_auth c else N.ldiff mw mO in
    if negb (is_joiner given) then PB_t_new_banned else
    match prev with
    | Some _ => if (mw =? ModeUnset)%N then PB_t_resub_default else PB_t_resub_explicit
    | None => if (mw =? ModeUnset)%N then PB_t_new_default
              else if is_joiner wantm then PB_t_new_explicit else PB_t_new_selfban
    end
  | Some p0 =>
    let oldw := p_want p0 in let oldg := p_given p0 in
    let tail :=
      if negb (is_joiner mw) then (if (mw =? oldw)%N then PB_t_same else PB_t_selfban)
      else if negb (is_joiner oldg) then PB_t_banned
      else if (mw =? oldw)%N then PB_t_same
      else if is_owner oldg && negb (is_owner mw) then PB_t_reject_offer
      else if better_equal oldg mw then PB_t_within else PB_t_beyond in
    if (mw =? ModeUnset)%N then
      if is_joiner oldw then (if is_joiner oldg then PB_t_default_nochange else PB_t_banned)
      else
        let w1 := if N.eqb (c_owner c) u then N.lor oldg (c_auth c) else N.ldiff (N.lor oldg (c_auth c)) mO in
        if is_joiner w1 && is_joiner oldg then PB_t_unselfban else PB_t_unselfban_banned
    else
    if N.eqb (c_owner c) u && (negb (is_owner mw) || negb (is_joiner mw)) then PB_t_owner_keeps else
    if is_owner oldg then
      let oc := is_owner mw && negb (is_owner oldw) in
      let rs := is_owner mw && negb (better_equal oldg mw) in
      if oc then (if rs then PB_t_accept_raise else PB_t_accept)
      else if rs then PB_t_raise_owner else tail
    else if is_owner mw then PB_t_ask_owner
    else if is_admin oldg && is_admin mw && negb (better_equal oldg (N.ldiff mw mD)) then PB_t_raise_admin
    else tail
  end.

Definition aus_branch_c08c (s : store) (c : cache) (u target : N) (mode : list N) : pbr_c08c :=
  match alookup u (c_users c) with
  | None => PB_a_not_sharer
  | Some ph =>
    let hmode := pud_mode ph in
    if negb (is_sharer hmode) then PB_a_not_sharer else
    let '(mg, okg) := parse_mode_c08c mode in
    if negb okg then PB_a_junk else
    if negb (mg =? ModeUnset)%N && negb (is_admin hmode) then PB_a_sharer_explicit else
    if is_owner mg && negb (N.eqb (c_owner c) u) then PB_a_give_owner_nonowner else
    match alookup target (c_users c) with
    | None =>
      if max_subs <=? Z.of_nat (length (c_users c)) then PB_a_new_limit else
      let given := if (mg =? ModeUnset)%N then N.lor (c_auth c) mJ else mg in
      match ad_sub_get s target true with
      | Some r =>
        if negb (is_joiner (s_want r)) then PB_a_invite_nojoin else
        if negb (is_joiner given) then PB_a_invite_ban else
        if (mg =? ModeUnset)%N then PB_a_reinvite_default else PB_a_reinvite_explicit
      | None =>
        match alookup target (users s) with
        | None => PB_a_invite_unknown
        | Some acc =>
          if negb (is_joiner (N.land acc given)) then PB_a_invite_nojoin else
          if (mg =? ModeUnset)%N then PB_a_invite_default else PB_a_invite_explicit
        end
      end
    | Some pt =>
      let oldg := p_given pt in
      if (mg =? ModeUnset)%N || (mg =? oldg)%N then PB_a_nochange else
      if N.eqb (c_owner c) target && (negb (is_owner mg) || negb (is_joiner mg)) then PB_a_strip_owner else
      if is_owner mg && negb (is_owner oldg) then PB_a_offer_owner else
      if negb (is_joiner mg) then PB_a_ban else
      if negb (is_joiner oldg) then PB_a_unban else
      if is_owner oldg && negb (is_owner mg) then PB_a_withdraw_offer else
      if better_equal mg oldg then PB_a_up else
      if better_equal oldg mg then PB_a_down else PB_a_other
    end
  end.

Definition off_branch_c08c (s : store) (u target : N) (mode : list N) : pbr_c08c :=
  match mode with
  | [] => PB_o_empty
  | _ =>
    if negb (target =? 0)%N && negb (N.eqb target u) then PB_o_other_user else
    match ad_sub_get s u false with
    | None => PB_o_nosub
    | Some r =>
      let '(mw, okw) := unmarshal_text 0%N mode in
      if negb okw then PB_o_junk else
      if negb (Bool.eqb (is_owner mw) (is_owner (s_want r))) then PB_o_owner_bit else
      if (mw =? s_want r)%N then PB_o_same else PB_o_changed
    end
  end.

(* the branch a request takes in state [x] (fault-free path) *)
Definition perm_branch_c08c (sm : sessmap) (x : state) (o : op) : pbr_c08c :=
  match o with
  | OSub sid want _ =>
    let u := sess_uid sm sid in
    match ca x with
    | Some c => if attached c sid then PB_sub_attached else tus_branch_c08c (st x) c u want
    | None => if t_exists (st x) then tus_branch_c08c (st x) (load (st x)) u want else PB_sub_load_fail
    end
  | OSetSub sid target mode =>
    let u := sess_uid sm sid in
    match ca x with
    | Some c =>
      if attached c sid then
        (if (target =? 0)%N || N.eqb target u then tus_branch_c08c (st x) c u mode
         else aus_branch_c08c (st x) c u target mode)
      else off_branch_c08c (st x) u target mode
    | None => off_branch_c08c (st x) u target mode
    end
  | _ => PB_other
  end.

(* the self-raise branches: the requester's own grant grows *)
Definition is_raise_c08c (b : pbr_c08c) : bool :=
  match b with PB_t_raise_admin | PB_t_raise_owner | PB_t_accept_raise => true | _ => false end.
