(* C14 (round s14d): the status word of a Topic (server/topic.go:3488-3556) and the status operations of
   Hub.topicUnreg when a {del what=topic} is handled for a registered topic (server/hub.go:404-432, case 1.1.1).
   Definitions only.  Topic.status is an int32 holding four flags; the model keeps it as an N. *)
From Coq Require Import NArith Bool.
Local Open Scope N_scope.

Definition topicStatusLoaded : N := 1.          (* 0x1 *)
Definition topicStatusPaused : N := 2.          (* 0x2 *)
Definition topicStatusMarkedDeleted : N := 16.  (* 0x10 *)
Definition topicStatusReadOnly : N := 32.       (* 0x20 *)

(* statusChangeBits (l.3502-3518): newStatus |= bits / newStatus &= ^bits (the CAS loop ends with that value stored) *)
Definition status_change_bits (st bits : N) (set : bool) : N :=
  if set then N.lor st bits else N.ldiff st bits.

Definition mark_paused (st : N) (pause : bool) : N := status_change_bits st topicStatusPaused pause.
Definition mark_deleted (st : N) : N := status_change_bits st topicStatusMarkedDeleted true.

(* isInactive (l.3542-3544) *)
Definition is_inactive (st : N) : bool :=
  negb (N.land st (N.lor topicStatusPaused topicStatusMarkedDeleted) =? 0).
Definition is_paused (st : N) : bool := negb (N.land st topicStatusPaused =? 0).
Definition is_deleted (st : N) : bool := negb (N.land st topicStatusMarkedDeleted =? 0).

(* Hub.topicUnreg case 1.1.1, the operations on t.status in program order:
     t.markPaused(true)                                       l.407
     if err := store.Topics.Delete(..); err != nil {          l.413
         t.markPaused(false); ... return err }                l.414-418
     ...  h.topicDel(topic); t.markDeleted()                  l.429-430
   [fail] = store.Topics.Delete returned an error. *)
Definition unreg_del_status (fail : bool) (st : N) : N :=
  let st := mark_paused st true in
  if fail then mark_paused st false
  else mark_deleted st.

(* (paused, deleted) as the driver prints them *)
Definition status_flags (st : N) : bool * bool := (is_paused st, is_deleted st).
