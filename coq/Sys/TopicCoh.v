(* C03: the cached access modes (perUserData.modeWant / modeGiven, on which the publish
   decision is taken) are the STORED ones (the authoritative grant) in every reachable
   state, for every fault plan - except after the two triggers named below, which the
   faithful model reproduces.  Lemmas; the theorems are in Props/PropC03.v. *)
From Coq Require Import ZArith NArith List Bool Lia.
From Tinode Require Import Base.Util Pure.Acs Sys.Topic Sys.TopicTac Sys.TopicFrame Sys.TopicNum Sys.TopicMarks Sys.TopicMeta.
Import ListNotations.
Open Scope Z_scope.

(* ---------- the two views of a user's grant ---------- *)
Definition smodes (s : store) (u : N) : option (N * N) :=
  match find_sub u (subs s) with
  | Some r => if s_deleted r then None else Some (s_want r, s_given r)
  | None => None
  end.
Definition cmodes (c : cache) (u : N) : option (N * N) :=
  match alookup u (c_users c) with Some p => Some (p_want p, p_given p) | None => None end.

Definition coh (s : store) (c : cache) : Prop := forall u, cmodes c u = smodes s u.
Definition sess_users (c : cache) : Prop :=
  forall sid u b, In (sid, (u, b)) (c_sess c) -> alookup u (c_users c) <> None.
Definition wf_store (s : store) : Prop := NoDup (map s_user (subs s)).

Definition cohP (s : store) (c : cache) : Prop := wf_store s /\ coh s c /\ sess_users c.

(* writer according to the store / according to the cache *)
Definition stored_writer (s : store) (u : N) : bool :=
  match smodes s u with Some (w, g) => is_writer (N.land g w) | None => false end.

Lemma cmodes_writer c u : is_writer (pud_mode (get_pud c u)) =
  match cmodes c u with Some (w, g) => is_writer (N.land g w) | None => false end.
Proof. unfold cmodes, get_pud, pud_mode. destruct (alookup u (c_users c)); reflexivity. Qed.

Lemma coh_writer s c u : coh s c -> is_writer (pud_mode (get_pud c u)) = stored_writer s u.
Proof. intros H. rewrite cmodes_writer. unfold stored_writer. now rewrite H. Qed.

(* ---------- association lists ---------- *)
Lemma alookup_aremove_eq {A} (k k' : N) (l : list (N * A)) :
  alookup k' (aremove k l) = if N.eqb k' k then None else alookup k' l.
Proof.
  induction l as [|[k0 v0] l IH]; cbn; [now destruct (N.eqb k' k)|].
  destruct (N.eqb k k0) eqn:E; cbn.
  - rewrite IH. apply N.eqb_eq in E. subst k0. destruct (N.eqb k' k); reflexivity.
  - destruct (N.eqb k' k0) eqn:E2.
    + apply N.eqb_eq in E2. subst k0. rewrite N.eqb_sym, E. reflexivity.
    + exact IH.
Qed.
Lemma in_aset {A} (k : N) (v : A) l e : In e (aset k v l) -> e = (k, v) \/ In e l.
Proof.
  induction l as [|[k0 v0] l IH]; cbn; [intros [H|[]]; auto|].
  destruct (N.eqb k k0); cbn; intros [H|H]; auto. destruct (IH H); auto.
Qed.
Lemma in_aremove {A} (k : N) (l : list (N * A)) e : In e (aremove k l) -> In e l.
Proof.
  induction l as [|[k0 v0] l IH]; cbn; [auto|].
  destruct (N.eqb k k0); cbn; [auto|]. intros [H|H]; auto.
Qed.
Lemma alookup_in {A} (k : N) (l : list (N * A)) v : alookup k l = Some v -> In (k, v) l.
Proof.
  induction l as [|[k0 v0] l IH]; cbn; [discriminate|].
  destruct (N.eqb k k0) eqn:E; [apply N.eqb_eq in E; intros H; inv H; now left|auto].
Qed.

(* ---------- store primitives seen through smodes ---------- *)
Lemma smodes_ext s s' u : subs s' = subs s -> smodes s' u = smodes s u.
Proof. unfold smodes. now intros ->. Qed.

Lemma find_sub_upd u f l u' : (forall r, s_user r = u -> s_user (f r) = u) ->
  find_sub u' (upd_sub u f l) = if N.eqb u' u then option_map f (find_sub u' l) else find_sub u' l.
Proof.
  intros Hf. unfold find_sub, upd_sub. induction l as [|r l IH]; cbn; [now destruct (N.eqb u' u)|].
  destruct (N.eqb (s_user r) u) eqn:E1.
  - apply N.eqb_eq in E1. rewrite (Hf r E1). rewrite <- E1 at 1. destruct (N.eqb (s_user r) u') eqn:E2.
    + apply N.eqb_eq in E2. subst. rewrite N.eqb_refl. reflexivity.
    + rewrite IH. reflexivity.
  - destruct (N.eqb (s_user r) u') eqn:E2.
    + apply N.eqb_eq in E2. subst u'. rewrite E1. reflexivity.
    + exact IH.
Qed.

Lemma find_sub_app_none u l r u' : find_sub u l = None -> s_user r = u ->
  find_sub u' (l ++ [r]) = if N.eqb u' u then Some r else find_sub u' l.
Proof.
  unfold find_sub. intros HN Hr. induction l as [|r0 l IH]; cbn in *.
  - rewrite Hr, N.eqb_sym. reflexivity.
  - destruct (N.eqb (s_user r0) u) eqn:E1; [discriminate|].
    destruct (N.eqb (s_user r0) u') eqn:E2.
    + apply N.eqb_eq in E2. subst u'. rewrite E1. reflexivity.
    + apply IH. exact HN.
Qed.

Lemma find_sub_user u l r : find_sub u l = Some r -> s_user r = u.
Proof. unfold find_sub. intros H. apply find_some in H. destruct H as [_ H]. now apply N.eqb_eq in H. Qed.

Lemma smodes_sub_create s u w g u' :
  smodes (ad_sub_create s u w g) u' = if N.eqb u' u then Some (w, g) else smodes s u'.
Proof.
  unfold ad_sub_create.
  assert (E : forall s1, smodes (if is_owner (N.land w g) then st_owner u s1 else s1) u' = smodes s1 u')
    by (intros s1; destruct (is_owner (N.land w g)); reflexivity).
  rewrite E. clear E. unfold smodes. destruct (find_sub u (subs s)) as [r|] eqn:F; cbn [subs st_subs].
  - rewrite find_sub_upd by (intros; cbn; auto). destruct (N.eqb u' u) eqn:E; [|reflexivity].
    apply N.eqb_eq in E. subst u'. rewrite F. reflexivity.
  - rewrite (find_sub_app_none u) by (auto). destruct (N.eqb u' u); reflexivity.
Qed.

Definition upd_modes (up : subupd) (m : N * N) : N * N :=
  (match u_want up with Some v => v | None => fst m end, match u_given up with Some v => v | None => snd m end).

Lemma smodes_subs_update s u up u' : u <> 0%N ->
  smodes (ad_subs_update s u up) u' = if N.eqb u' u then option_map (upd_modes up) (smodes s u') else smodes s u'.
Proof.
  intros Hu. unfold ad_subs_update. destruct (N.eqb_spec u 0); [contradiction|].
  unfold smodes. cbn [subs st_subs]. rewrite find_sub_upd by (intros; cbn; auto).
  destruct (N.eqb u' u); [|reflexivity].
  destruct (find_sub u' (subs s)) as [r|]; cbn; [|reflexivity].
  destruct (s_deleted r); reflexivity.
Qed.

Lemma find_sub_map f l u' : (forall r, s_user (f r) = s_user r) ->
  find_sub u' (map f l) = option_map f (find_sub u' l).
Proof.
  intros Hf. unfold find_sub. induction l as [|r l IH]; cbn; [reflexivity|].
  rewrite Hf. destruct (N.eqb (s_user r) u'); [reflexivity|exact IH].
Qed.

Lemma smodes_subs_update_marks s u up u' : u_want up = None -> u_given up = None ->
  smodes (ad_subs_update s u up) u' = smodes s u'.
Proof.
  intros Hw Hg. unfold ad_subs_update, smodes.
  assert (A : forall r, s_want (apply_upd up r) = s_want r /\ s_given (apply_upd up r) = s_given r /\
                        s_deleted (apply_upd up r) = s_deleted r)
    by (intros r; unfold apply_upd; rewrite Hw, Hg; cbn; auto).
  destruct (u =? 0)%N; cbn [subs st_subs].
  - rewrite find_sub_map by reflexivity. destruct (find_sub u' (subs s)) as [r|]; cbn [option_map]; [|reflexivity].
    destruct (A r) as [-> [-> ->]]. reflexivity.
  - rewrite find_sub_upd by (intros; cbn; auto). destruct (N.eqb u' u); [|reflexivity].
    destruct (find_sub u' (subs s)) as [r|]; cbn [option_map]; [|reflexivity].
    destruct (A r) as [-> [-> ->]]. reflexivity.
Qed.

Lemma sub_get_live s u : ad_sub_get s u false = None <-> smodes s u = None.
Proof.
  unfold ad_sub_get, smodes. destruct (find_sub u (subs s)) as [r|]; [|tauto].
  destruct (s_deleted r); cbn; split; intros H; try reflexivity; discriminate.
Qed.

Lemma smodes_subs_delete s u s' u' : ad_subs_delete s u = Some s' ->
  smodes s' u' = if N.eqb u' u then None else smodes s u'.
Proof.
  unfold ad_subs_delete. destruct (ad_sub_get s u false) eqn:G; [|discriminate]. intros H. inv H.
  unfold smodes. cbn [subs st_subs st_dellog]. rewrite find_sub_upd by (intros; cbn; auto).
  destruct (N.eqb u' u); [|reflexivity].
  destruct (find_sub u' (subs s)); cbn; reflexivity.
Qed.
Lemma subs_delete_none s u : ad_subs_delete s u = None -> smodes s u = None.
Proof.
  unfold ad_subs_delete. destruct (ad_sub_get s u false) eqn:G; [discriminate|]. intros _. now apply sub_get_live.
Qed.
Lemma subs_delete_some s u : smodes s u <> None -> ad_subs_delete s u <> None.
Proof. intros H E. apply H. now apply subs_delete_none. Qed.

Lemma need_create_absent s u : smodes s u = None ->
  match ad_sub_get s u true with Some r => s_deleted r | None => true end = true.
Proof.
  unfold smodes, ad_sub_get. destruct (find_sub u (subs s)) as [r|]; [|reflexivity].
  destruct (s_deleted r) eqn:D; cbn; [intros _; exact D|discriminate].
Qed.

Lemma msg_save_subs s q u ct s' : ad_msg_save s q u ct = Some s' -> subs s' = subs s.
Proof. unfold ad_msg_save. destruct (existsb _ _); [discriminate|]. intros H. inv H. reflexivity. Qed.
Lemma delete_list_subs s d fu rs : subs (ad_msg_delete_list s d fu rs) = subs s.
Proof. unfold ad_msg_delete_list. destruct (fu =? 0)%N; reflexivity. Qed.

(* ---------- wf_store ---------- *)
Lemma users_upd u f l : (forall r, s_user (f r) = s_user r) -> map s_user (upd_sub u f l) = map s_user l.
Proof.
  intros Hf. unfold upd_sub. rewrite map_map. apply map_ext. intros r. destruct (N.eqb (s_user r) u); auto.
Qed.
Lemma find_sub_none_notin u l : find_sub u l = None -> ~ In u (map s_user l).
Proof.
  unfold find_sub. intros H Hin. apply in_map_iff in Hin. destruct Hin as [r [E Hr]].
  pose proof (find_none _ _ H r Hr) as F. cbn in F. rewrite E, N.eqb_refl in F. discriminate.
Qed.
Lemma wf_sub_create s u w g : wf_store s -> wf_store (ad_sub_create s u w g).
Proof.
  unfold wf_store, ad_sub_create. intros W.
  assert (E : forall s1, subs (if is_owner (N.land w g) then st_owner u s1 else s1) = subs s1)
    by (intros s1; destruct (is_owner (N.land w g)); reflexivity).
  rewrite E. destruct (find_sub u (subs s)) as [r|] eqn:F; cbn [subs st_subs].
  - unfold upd_sub. rewrite map_map.
    erewrite map_ext_in; [exact W|]. intros r0 _. cbn. destruct (N.eqb (s_user r0) u) eqn:E1; [|reflexivity].
    cbn. apply N.eqb_eq in E1. now rewrite E1.
  - rewrite map_app. cbn. apply NoDup_app_single; [exact W|]. now apply find_sub_none_notin.
Qed.
Lemma wf_subs_update s u up : wf_store s -> wf_store (ad_subs_update s u up).
Proof.
  unfold wf_store, ad_subs_update. intros W. destruct (u =? 0)%N; cbn [subs st_subs].
  - rewrite map_map. cbn. rewrite <- map_map with (g := fun x => x). now rewrite map_id.
  - now rewrite users_upd by reflexivity.
Qed.
Lemma wf_subs_delete s u s' : ad_subs_delete s u = Some s' -> wf_store s -> wf_store s'.
Proof.
  unfold ad_subs_delete, wf_store. destruct (ad_sub_get s u false); [|discriminate]. intros H W. inv H.
  cbn [subs st_subs st_dellog]. now rewrite users_upd by reflexivity.
Qed.
Lemma wf_ext s s' : subs s' = subs s -> wf_store s -> wf_store s'.
Proof. unfold wf_store. now intros ->. Qed.

(* ---------- cache primitives seen through cmodes ---------- *)
Lemma cmodes_aset c u p u' :
  cmodes (c_set_users (aset u p) c) u' = if N.eqb u' u then Some (p_want p, p_given p) else cmodes c u'.
Proof. unfold cmodes. cbn [c_users c_set_users]. rewrite alookup_aset. destruct (N.eqb u' u); reflexivity. Qed.
Lemma cmodes_aremove c u u' :
  cmodes (c_set_users (aremove u) c) u' = if N.eqb u' u then None else cmodes c u'.
Proof. unfold cmodes. cbn [c_users c_set_users]. rewrite alookup_aremove_eq. destruct (N.eqb u' u); reflexivity. Qed.
Lemma cmodes_map_delid c d u' :
  cmodes (c_set_users (map (fun e => (fst e, p_set_delid d (snd e)))) c) u' = cmodes c u'.
Proof.
  unfold cmodes. cbn [c_users c_set_users]. rewrite (alookup_map (p_set_delid d)).
  destruct (alookup u' (c_users c)); reflexivity.
Qed.
Lemma cmodes_get_pud c u : alookup u (c_users c) <> None ->
  Some (p_want (get_pud c u), p_given (get_pud c u)) = cmodes c u.
Proof. unfold get_pud, cmodes. destruct (alookup u (c_users c)); [reflexivity|congruence]. Qed.

Lemma cmodes_evict c u b k c' o u' : evict_user c u b k = (c', o) ->
  cmodes c' u' = if b && N.eqb u' u then None else cmodes c u'.
Proof.
  unfold evict_user. intros H. inv H. destruct b; cbn [andb].
  - rewrite cmodes_aremove. reflexivity.
  - cbn [c_users c_set_sess]. destruct (alookup u (c_users c)) as [p|] eqn:E; [|reflexivity].
    rewrite cmodes_aset. destruct (N.eqb_spec u' u); [|reflexivity].
    subst u'. unfold cmodes. rewrite E. reflexivity.
Qed.
Lemma sess_evict c u b k c' o e : evict_user c u b k = (c', o) ->
  In e (c_sess c') -> In e (c_sess c) /\ fst (snd e) <> u.
Proof.
  unfold evict_user. intros H. inv H. intros Hin.
  assert (Hin' : In e (filter (fun e => negb (N.eqb (fst (snd e)) u)) (c_sess c))).
  { destruct b; [exact Hin|]. cbn [c_users c_set_sess] in Hin.
    destruct (alookup u (c_users c)); exact Hin. }
  apply filter_In in Hin'. destruct Hin' as [H1 Hf]. split; [exact H1|].
  intros E. rewrite E, N.eqb_refl in Hf. discriminate.
Qed.

(* ---------- bookkeeping rewrites ---------- *)
Lemma cmodes_sess f c u : cmodes (c_set_sess f c) u = cmodes c u. Proof. reflexivity. Qed.
Lemma cmodes_owner v c u : cmodes (c_set_owner v c) u = cmodes c u. Proof. reflexivity. Qed.
Lemma cmodes_lastid v c u : cmodes (c_set_lastid v c) u = cmodes c u. Proof. reflexivity. Qed.
Lemma cmodes_delid v c u : cmodes (c_set_delid v c) u = cmodes c u. Proof. reflexivity. Qed.
Lemma smodes_owner v s u : smodes (st_owner v s) u = smodes s u. Proof. reflexivity. Qed.
Lemma smodes_seqid v s u : smodes (st_seqid v s) u = smodes s u. Proof. reflexivity. Qed.
Lemma smodes_delid v s u : smodes (st_delid v s) u = smodes s u. Proof. reflexivity. Qed.
Lemma smodes_dellog f s u : smodes (st_dellog f s) u = smodes s u. Proof. reflexivity. Qed.
Lemma smodes_msgs f s u : smodes (st_msgs f s) u = smodes s u. Proof. reflexivity. Qed.
Lemma smodes_delete_list s d fu rs u : smodes (ad_msg_delete_list s d fu rs) u = smodes s u.
Proof. apply smodes_ext. apply delete_list_subs. Qed.

Lemma wf_owner v s : wf_store s -> wf_store (st_owner v s). Proof. auto. Qed.
Lemma wf_seqid v s : wf_store s -> wf_store (st_seqid v s). Proof. auto. Qed.
Lemma wf_delid v s : wf_store s -> wf_store (st_delid v s). Proof. auto. Qed.
Lemma wf_dellog f s : wf_store s -> wf_store (st_dellog f s). Proof. auto. Qed.
Lemma wf_msgs f s : wf_store s -> wf_store (st_msgs f s). Proof. auto. Qed.
Lemma wf_delete_list s d fu rs : wf_store s -> wf_store (ad_msg_delete_list s d fu rs).
Proof. apply wf_ext. apply delete_list_subs. Qed.
#[export] Hint Resolve wf_sub_create wf_subs_update wf_owner wf_seqid wf_delid wf_dellog wf_msgs wf_delete_list : cohdb.

Lemma cmodes_some c u p : alookup u (c_users c) = Some p -> cmodes c u = Some (p_want p, p_given p).
Proof. unfold cmodes. now intros ->. Qed.
Lemma cmodes_none c u : alookup u (c_users c) = None -> cmodes c u = None.
Proof. unfold cmodes. now intros ->. Qed.

(* sess_users through the cache primitives *)
Lemma su_aset c u p : sess_users c -> sess_users (c_set_users (aset u p) c).
Proof.
  intros S sid u' b Hin. cbn [c_users c_set_users c_sess] in *. rewrite alookup_aset.
  destruct (N.eqb u' u); [discriminate|]. eapply S. exact Hin.
Qed.
Lemma su_sess_filter c P : sess_users c -> sess_users (c_set_sess (filter P) c).
Proof. intros S sid u b Hin. cbn in *. apply filter_In in Hin. destruct Hin as [Hin _]. eapply S. exact Hin. Qed.
Lemma su_sess_aremove c sid0 : sess_users c -> sess_users (c_set_sess (aremove sid0) c).
Proof. intros S sid u b Hin. cbn in *. apply in_aremove in Hin. eapply S. exact Hin. Qed.
Lemma su_sess_aset c sid0 u0 b0 : alookup u0 (c_users c) <> None -> sess_users c ->
  sess_users (c_set_sess (aset sid0 (u0, b0)) c).
Proof.
  intros HU S sid u b Hin. cbn in *. apply in_aset in Hin. destruct Hin as [E|Hin]; [inv E; exact HU|].
  eapply S. exact Hin.
Qed.
Lemma su_owner c v : sess_users c -> sess_users (c_set_owner v c). Proof. auto. Qed.
Lemma su_lastid c v : sess_users c -> sess_users (c_set_lastid v c). Proof. auto. Qed.
Lemma su_delid c v : sess_users c -> sess_users (c_set_delid v c). Proof. auto. Qed.
Lemma su_map_delid c d : sess_users c -> sess_users (c_set_users (map (fun e => (fst e, p_set_delid d (snd e)))) c).
Proof.
  intros S sid u b Hin. cbn [c_users c_set_users c_sess] in *. rewrite (alookup_map (p_set_delid d)).
  specialize (S sid u b Hin). destruct (alookup u (c_users c)); [discriminate|congruence].
Qed.
Lemma su_evict c u b k c' o : evict_user c u b k = (c', o) -> sess_users c -> sess_users c'.
Proof.
  intros E S sid u' b' Hin. destruct (sess_evict _ _ _ _ _ _ _ E Hin) as [Hin0 Hne]. cbn in Hne.
  specialize (S sid u' b' Hin0).
  assert (M := cmodes_evict c u b k c' o u' E). unfold cmodes in M.
  destruct (N.eqb_spec u' u); [contradiction|]. rewrite andb_false_r in M.
  destruct (alookup u' (c_users c')); [discriminate|]. destruct (alookup u' (c_users c)); [discriminate|congruence].
Qed.
#[export] Hint Resolve su_aset su_sess_filter su_sess_aremove su_owner su_lastid su_delid su_map_delid : cohdb.

Ltac eqb_hyps :=
  repeat match goal with
  | H : N.eqb _ _ = true |- _ => apply N.eqb_eq in H
  | H : N.eqb _ _ = false |- _ => apply N.eqb_neq in H
  | H : negb _ = true |- _ => apply negb_true_iff in H
  | H : negb _ = false |- _ => apply negb_false_iff in H
  | H : andb _ _ = true |- _ => apply andb_true_iff in H; destruct H
  | H : orb _ _ = false |- _ => apply orb_false_iff in H; destruct H
  end.

Ltac coh_rw :=
  repeat first
  [ rewrite cmodes_aset | rewrite cmodes_aremove | rewrite cmodes_map_delid
  | rewrite cmodes_sess | rewrite cmodes_owner | rewrite cmodes_lastid | rewrite cmodes_delid
  | rewrite smodes_owner | rewrite smodes_seqid | rewrite smodes_delid | rewrite smodes_dellog | rewrite smodes_msgs
  | rewrite smodes_delete_list
  | rewrite smodes_sub_create
  | rewrite smodes_subs_update by assumption
  | rewrite smodes_subs_update_marks by reflexivity
  | erewrite cmodes_evict by eassumption
  | erewrite smodes_subs_delete by eassumption ].

Ltac wf_solve :=
  repeat match goal with
         | H : ad_subs_delete ?s _ = Some ?s' |- wf_store ?s' => apply (wf_subs_delete _ _ _ H)
         | |- _ => progress eauto 12 with cohdb
         end.

Ltac su_solve :=
  repeat match goal with
         | H : evict_user ?c _ _ _ = (?c', _) |- sess_users ?c' => apply (su_evict _ _ _ _ _ _ H)
         | |- _ => progress eauto 12 with cohdb
         end.

(* ---------- the permission handlers keep the three invariants ---------- *)
Ltac cm_facts :=
  repeat match goal with
  | H : alookup ?u (c_users ?c) = Some ?p |- _ => apply cmodes_some in H
  | H : alookup ?u (c_users ?c) = None |- _ => apply cmodes_none in H
  end.
Ltac use_facts :=
  repeat match goal with
  | H : cmodes ?c ?u = _ |- context [cmodes ?c ?u] => rewrite H
  end.
Ltac coh_solve C :=
  let u' := fresh "u'" in
  intros u'; coh_rw; cm_facts;
  repeat match goal with |- context [N.eqb ?a ?b] =>
    destruct (N.eqb_spec a b); [first [subst a | subst b | (exfalso; congruence) | idtac]|] end;
  cbn [andb]; rewrite <- ?C; use_facts;
  unfold upd_modes;
  cbn [option_map fst snd u_want u_given p_want p_given p_set_modes p_set_online];
  try reflexivity; try congruence.

(* [oc_path c u want]: the own {sub}/{set sub} of [u] asks for O while the cached given has O and the
   cached want has not, i.e. thisUserSub takes (or refuses on the way to) the ownership-transfer branch,
   the only handler that writes the store in several steps and applies the cache afterwards. *)
Definition oc_path (c : cache) (u : N) (want : list N) : bool :=
  match alookup u (c_users c) with
  | None => false
  | Some p0 =>
    let '(mw, okw) := match want with [] => (ModeUnset, true) | _ => unmarshal_text ModeUnset want end in
    okw && negb (mw =? ModeUnset)%N && is_owner (p_given p0) && is_owner mw && negb (is_owner (p_want p0))
  end.
(* the transfer is covered when no store fault is planned for the request and the topic has a cached
   owner other than the requester *)
Definition oc_safe (f : fault) (c : cache) (u : N) : bool :=
  match f with NoFault => true | _ => false end && negb (c_owner c =? 0)%N && negb (c_owner c =? u)%N &&
  match alookup (c_owner c) (c_users c) with Some _ => true | None => false end.

Ltac prem_solve :=
  repeat (apply andb_true_iff; split);
  try assumption; try reflexivity;
  try (apply negb_true_iff; first [assumption | apply N.eqb_neq; assumption]).

Lemma tus_coh f s c n sid u want nb : u <> 0%N -> (oc_path c u want = true -> oc_safe f c u = true) -> cohP s c ->
  cohP (h_st (fst (this_user_sub f s c n sid u want nb))) (h_ca (fst (this_user_sub f s c n sid u want nb))).
Proof.
  intros HU HOC [W [C S]]. revert HOC. unfold this_user_sub, oc_path.
  repeat break_match; intros HOC; cbn [fst snd h_st h_ca]; try (split; [|split]; assumption).
  all: repeat match goal with H : (if ?b then _ else _) = _ |- _ => destruct b eqn:?; try discriminate end.
  all: repeat match goal with H : Some _ = Some _ |- _ => inv H | H : (_, _) = (_, _) |- _ => inv H end.
  all: eqb_hyps; subst.
  all: try (assert (OS : oc_safe f c u = true) by (apply HOC; prem_solve)).
  all: try match goal with OS : oc_safe ?f _ _ = true |- _ => unfold oc_safe in OS; destruct f; cbn [andb] in OS; try discriminate OS end.
  all: clear HOC.
  all: unfold call in *; cbn [fails negb] in *.
  all: repeat match goal with H : (_, _) = (_, _) |- _ => inv H end; try discriminate.
  all: eqb_hyps.
  all: try (split; [|split]; assumption).
  all: try (exfalso; congruence).
  all: repeat match goal with H : match alookup ?a ?b with Some _ => true | None => false end = true |- _ =>
         destruct (alookup a b) eqn:?; [clear H|discriminate H] end.
  all: try match goal with
       | H1 : alookup ?u (c_users ?c) = None, H2 : ad_sub_get ?s ?u true = Some ?r, H3 : s_deleted ?r = false |- _ =>
         exfalso; pose proof (need_create_absent s u) as X; rewrite <- (C u) in X;
         rewrite (cmodes_none _ _ H1), H2 in X; specialize (X eq_refl); congruence
       | H1 : alookup ?u (c_users ?c) = None,
         H2 : match ad_sub_get ?s ?u true with Some r => s_deleted r | None => true end = false |- _ =>
         exfalso; pose proof (need_create_absent s u) as X; rewrite <- (C u) in X;
         rewrite (cmodes_none _ _ H1) in X; specialize (X eq_refl); congruence
       end.
  all: split; [wf_solve|split]; [coh_solve C|su_solve].
Qed.

Lemma aus_coh f s c n sid u target mode : target <> 0%N -> cohP s c ->
  cohP (h_st (fst (another_user_sub f s c n sid u target mode))) (h_ca (fst (another_user_sub f s c n sid u target mode))).
Proof.
  intros HT [W [C S]]. unfold another_user_sub.
  repeat break_match; cbn [fst snd h_st h_ca]; try (split; [|split]; assumption).
  all: eqb_hyps.
  all: split; [wf_solve|split]; [coh_solve C|su_solve].
Qed.

Definition member (c : cache) (u : N) : Prop := alookup u (c_users c) <> None.
Lemma member_cmodes c u : member c u <-> cmodes c u <> None.
Proof. unfold member, cmodes. destruct (alookup u (c_users c)); split; congruence. Qed.
Lemma member_aset c u p : member (c_set_users (aset u p) c) u.
Proof. unfold member. cbn. rewrite alookup_aset, N.eqb_refl. discriminate. Qed.
Lemma member_evict c u k c' o u' : evict_user c u false k = (c', o) -> member c u' -> member c' u'.
Proof. intros E M. apply member_cmodes. rewrite (cmodes_evict _ _ _ _ _ _ u' E). cbn. now apply member_cmodes. Qed.

Lemma tus_member f s c n sid u want nb ch :
  snd (this_user_sub f s c n sid u want nb) = SubOk ch -> member (h_ca (fst (this_user_sub f s c n sid u want nb))) u.
Proof.
  unfold this_user_sub. repeat break_match; cbn [fst snd h_ca]; intros H; try discriminate H.
  all: repeat match goal with
       | H : evict_user _ _ false _ = (?c', _) |- member ?c' _ => apply (member_evict _ _ _ _ _ _ H)
       end; try apply member_aset.
Qed.

Lemma sub_reply_coh f s c n sid u want bkg : u <> 0%N -> (oc_path c u want = true -> oc_safe f c u = true) -> cohP s c ->
  cohP (h_st (sub_reply f s c n sid u want bkg)) (h_ca (sub_reply f s c n sid u want bkg)).
Proof.
  intros HU HOC HP. unfold sub_reply.
  pose proof (tus_coh f s c n sid u want (match alookup u (c_users c) with Some _ => false | None => true end) HU HOC HP) as [W [C S]].
  pose proof (tus_member f s c n sid u want (match alookup u (c_users c) with Some _ => false | None => true end)) as M.
  destruct (this_user_sub f s c n sid u want _) as [h r]. cbn [fst snd] in *.
  destruct r as [code|ch]; cbn [h_st h_ca]; [split; [|split]; assumption|].
  specialize (M ch eq_refl).
  destruct (match ch with Some (w, g) => is_joiner (N.land g w) | None => true end); [|split; [|split]; assumption].
  destruct bkg.
  - split; [exact W|split]; [exact C|]. apply su_sess_aset; assumption.
  - split; [exact W|split].
    + intros u'. rewrite cmodes_aset. destruct (N.eqb_spec u' u); [subst u'|]; [|rewrite cmodes_sess; apply C].
      rewrite <- C. cbn [p_want p_given p_set_online]. symmetry.
      change (cmodes (h_ca h) u) with (cmodes (c_set_sess (aset sid (u, false)) (h_ca h)) u).
      symmetry. apply cmodes_get_pud. exact M.
    + apply su_aset. apply su_sess_aset; assumption.
Qed.

Lemma set_sub_coh f s c n sid u target mode : u <> 0%N ->
  ((target =? 0)%N || N.eqb target u = true -> oc_path c u mode = true -> oc_safe f c u = true) -> cohP s c ->
  cohP (h_st (set_sub f s c n sid u target mode)) (h_ca (set_sub f s c n sid u target mode)).
Proof.
  intros HU HOC HP. unfold set_sub.
  destruct ((target =? 0)%N || N.eqb target u) eqn:SELF.
  - pose proof (tus_coh f s c n sid u mode false HU (HOC eq_refl) HP) as H.
    destruct (this_user_sub f s c n sid u mode false) as [h r]. cbn [fst] in H.
    destruct r as [code|ch]; cbn [h_st h_ca]; exact H.
  - apply orb_false_iff in SELF. destruct SELF as [T0 _]. apply N.eqb_neq in T0.
    pose proof (aus_coh f s c n sid u target mode T0 HP) as H.
    destruct (another_user_sub f s c n sid u target mode) as [h r]. cbn [fst] in H.
    destruct r as [code|ch]; cbn [h_st h_ca]; exact H.
Qed.

Lemma del_sub_coh f s c n sid u t : cohP s c -> cohP (h_st (del_sub f s c n sid u t)) (h_ca (del_sub f s c n sid u t)).
Proof.
  intros [W [C S]]. unfold del_sub.
  repeat break_match; cbn [h_st h_ca]; try (split; [|split]; assumption).
  match goal with H : match ad_subs_delete ?s ?t with _ => _ end = _ |- _ => destruct (ad_subs_delete s t) eqn:D; inv H end.
  - split; [wf_solve|split]; [coh_solve C|su_solve].
  - (* the row of a cached user is live: Subs.Delete cannot miss it *)
    exfalso. apply subs_delete_none in D. rewrite <- C, (cmodes_some _ _ _ Heqo) in D. discriminate.
Qed.

Lemma leave_unsub_coh f s c n sid u : cohP s c -> cohP (h_st (leave_unsub f s c n sid u)) (h_ca (leave_unsub f s c n sid u)).
Proof.
  intros [W [C S]]. unfold leave_unsub.
  repeat break_match; cbn [h_st h_ca]; try (split; [|split]; assumption).
  split; [wf_solve|split]; [coh_solve C|su_solve].
Qed.

Lemma leave_coh s c sid u : cohP s c -> cohP s (fst (leave c sid u)).
Proof.
  intros [W [C S]]. unfold leave.
  repeat break_match; cbn [fst]; try (split; [|split]; assumption).
  all: cbn [c_users c_set_sess] in *.
  all: try (split; [exact W|split]; [coh_solve C|su_solve]; fail).
  all: exfalso; apply alookup_in in Heqo; apply (S _ _ _ Heqo); exact Heqo0.
Qed.

Definition same_modes (s : store) (c : cache) (h : hres) : Prop :=
  (wf_store s -> wf_store (h_st h)) /\ (forall u, smodes (h_st h) u = smodes s u) /\
  (forall u, cmodes (h_ca h) u = cmodes c u) /\ c_sess (h_ca h) = c_sess c.
Lemma same_modes_refl s c n o : same_modes s c (mkH s c n o).
Proof. repeat split; auto. Qed.
Lemma same_modes_coh s c h : same_modes s c h -> cohP s c -> cohP (h_st h) (h_ca h).
Proof.
  intros [A [B [D E]]] [W [C S]]. split; [auto|split].
  - intros u. rewrite D, B. apply C.
  - intros sid u b Hin. rewrite E in Hin. specialize (S sid u b Hin).
    specialize (D u). unfold cmodes in D. destruct (alookup u (c_users (h_ca h))); [discriminate|].
    destruct (alookup u (c_users c)); [discriminate|congruence].
Qed.

Lemma cmodes_marks c c' u rd rc u' : c_users c' = c_users c -> (alookup u (c_users c) <> None) ->
  cmodes (c_set_users (aset u (p_set_marks rd rc (get_pud c u))) c') u' = cmodes c u'.
Proof.
  intros E M. rewrite cmodes_aset. unfold cmodes at 1. rewrite E. fold (cmodes c u').
  destruct (N.eqb_spec u' u); [subst u'|reflexivity].
  cbn [p_want p_given p_set_marks]. now apply cmodes_get_pud.
Qed.

Lemma publish_same f s c n sid u ct ne : same_modes s c (publish f s c n sid u ct ne).
Proof.
  unfold publish.
  repeat break_match; try apply same_modes_refl.
  all: try (apply msg_save_subs in Heqo; cbn [subs st_seqid] in Heqo).
  all: unfold same_modes; cbn [h_st h_ca]; repeat split.
  all: try (intros W; try apply wf_subs_update; first [apply wf_seqid; assumption | apply (wf_ext s); assumption]).
  all: try (intros u'; rewrite ?smodes_subs_update_marks by reflexivity; rewrite ?smodes_seqid; try reflexivity; apply smodes_ext; assumption).
  all: try (intros u'; rewrite ?cmodes_lastid; reflexivity).
  all: intros u'; rewrite cmodes_marks; [reflexivity|reflexivity|].
  all: destruct (alookup u (c_users c)); [discriminate|discriminate].
Qed.

Lemma reader_member c u : is_reader (pud_mode (get_pud c u)) = true -> alookup u (c_users c) <> None.
Proof. unfold get_pud. destruct (alookup u (c_users c)); [discriminate|]. cbn. discriminate. Qed.

Lemma note_same f s c n sid u what seq : same_modes s c (note f s c n sid u what seq).
Proof.
  unfold note.
  repeat break_match; try apply same_modes_refl.
  all: unfold same_modes; cbn [h_st h_ca]; repeat split.
  all: try (intros W; apply wf_subs_update; assumption).
  all: try (intros u'; rewrite smodes_subs_update_marks by reflexivity; reflexivity).
  all: intros u'; rewrite cmodes_marks; [reflexivity|reflexivity|].
  all: apply reader_member; apply negb_false_iff; assumption.
Qed.

Lemma flag_member c u bit : has (user_mode c u) bit = true -> alookup u (c_users c) <> None.
Proof. unfold user_mode, get_pud. destruct (alookup u (c_users c)); [discriminate|]. cbn. discriminate. Qed.
Lemma cmodes_pdelid c c' u d u' : c_users c' = c_users c -> (alookup u (c_users c) <> None) ->
  cmodes (c_set_users (aset u (p_set_delid d (get_pud c' u))) c') u' = cmodes c u'.
Proof.
  intros E M. rewrite cmodes_aset. unfold cmodes at 1. rewrite E. fold (cmodes c u').
  destruct (N.eqb_spec u' u); [subst u'|reflexivity].
  cbn [p_want p_given p_set_delid]. unfold get_pud. rewrite E. fold (get_pud c u). now apply cmodes_get_pud.
Qed.

Lemma del_msg_same dr f s c n sid u req hard : same_modes s c (del_msg dr f s c n sid u req hard).
Proof.
  unfold del_msg.
  repeat break_match; try apply same_modes_refl.
  all: unfold same_modes; cbn [h_st h_ca]; repeat split.
  all: try solve [intros W; eauto 10 with cohdb].
  all: try solve [intros u'; coh_rw; reflexivity].
  all: intros u'; rewrite (cmodes_pdelid c); [reflexivity|reflexivity|].
  all: apply andb_false_iff in Heqb; destruct Heqb as [Heqb|Heqb]; apply negb_false_iff in Heqb;
       eapply flag_member; exact Heqb.
Qed.

Lemma offline_set_sub_wf f s sid u t m : wf_store s -> wf_store (o_st (offline_set_sub f s sid u t m)).
Proof. intros W. unfold offline_set_sub. repeat break_match; cbn [o_st]; eauto with cohdb. Qed.

Lemma load_users_modes rows : NoDup (map s_user rows) -> forall acc u,
  alookup u (fold_left (fun acc r =>
    if s_deleted r then acc
    else aset (s_user r) (mkPud (s_want r) (s_given r) (s_read r) (s_recv r) (s_delid r) 0) acc) rows acc) =
  match find_sub u rows with
  | Some r => if s_deleted r then alookup u acc else Some (mkPud (s_want r) (s_given r) (s_read r) (s_recv r) (s_delid r) 0)
  | None => alookup u acc
  end.
Proof.
  induction rows as [|r rows IH]; intros ND acc u; cbn [fold_left]; [reflexivity|].
  inversion ND as [|? ? Hn Hr]; subst. rewrite (IH Hr). unfold find_sub. cbn [find].
  destruct (N.eqb (s_user r) u) eqn:E.
  - apply N.eqb_eq in E. subst u.
    assert (F : find (fun r0 => N.eqb (s_user r0) (s_user r)) rows = None).
    { destruct (find _ rows) as [r1|] eqn:F; [|reflexivity]. exfalso. apply Hn.
      apply find_some in F. destruct F as [F1 F2]. apply N.eqb_eq in F2. rewrite <- F2. now apply in_map. }
    fold (find_sub (s_user r) rows). unfold find_sub. rewrite F.
    destruct (s_deleted r); [reflexivity|]. rewrite alookup_aset, N.eqb_refl. reflexivity.
  - fold (find_sub u rows). destruct (find_sub u rows) as [r1|].
    + destruct (s_deleted r1); [|reflexivity]. destruct (s_deleted r); [reflexivity|].
      rewrite alookup_aset, N.eqb_sym, E. reflexivity.
    + destruct (s_deleted r); [reflexivity|]. rewrite alookup_aset, N.eqb_sym, E. reflexivity.
Qed.

Lemma load_coh s : wf_store s -> cohP s (load s).
Proof.
  intros W. split; [exact W|split].
  - intros u. unfold cmodes, load, load_users. cbn [c_users]. rewrite (load_users_modes _ W). unfold smodes.
    destruct (find_sub u (subs s)) as [r|]; [|reflexivity]. destruct (s_deleted r); reflexivity.
  - intros sid u b []. 
Qed.


(* ---------- every request keeps the invariants, unless it is one of the two triggers ---------- *)
Section CohStep.
Variable dr : Z -> list (Z * Z) -> option (list (Z * Z)).
Variable nr : list (Z * Z) -> list (Z * Z).
Variable sm : sessmap.

Definition cohx (x : state) : Prop :=
  match ca x with Some c => cohP (st x) c | None => wf_store (st x) end.

Definition sub_safe (f : fault) (c : cache) (u : N) (want : list N) : bool :=
  negb (oc_path c u want) || oc_safe f c u.

Definition safe_step (x : state) (fo : fault * op) : bool :=
  let f := fst fo in
  match snd fo with
  | OSub sid want _ =>
    let u := sess_uid sm sid in
    negb (u =? 0)%N &&
    match ca x with
    | Some c => attached c sid || sub_safe f c u want
    | None => sub_safe f (load (st x)) u want
    end
  | OSetSub sid target mode =>
    let u := sess_uid sm sid in
    negb (u =? 0)%N &&
    match ca x with
    | Some c => if attached c sid
                then negb ((target =? 0)%N || N.eqb target u) || sub_safe f c u mode
                else match mode with [] => true | _ => false end
    | None => true
    end
  | _ => true
  end.

Lemma sub_safe_imp f c u w : sub_safe f c u w = true -> oc_path c u w = true -> oc_safe f c u = true.
Proof. unfold sub_safe. intros H E. rewrite E in H. exact H. Qed.

Lemma step_cohx f x o : safe_step x (f, o) = true -> cohx x -> cohx (fst (step dr nr sm f x o)).
Proof.
  intros SF I. destruct x as [s cx n0]. unfold cohx, safe_step in *. cbn [st ca fst snd] in *.
  destruct o; unfold step; cbn [st ca negb].
  - (* OSub *)
    apply andb_true_iff in SF. destruct SF as [HU SF]. apply negb_true_iff, N.eqb_neq in HU.
    destruct cx as [c|].
    + destruct (attached c sid); cbn [fst st ca orb] in *; [exact I|].
      apply (sub_reply_coh f s c 0 sid (sess_uid sm sid) want bkg HU (sub_safe_imp _ _ _ _ SF) I).
    + destruct (try_load f s 0) as [n1 [c|code]] eqn:TL; cbn [fst st ca]; [|exact I].
      apply try_load_cases in TL. subst c. apply (sub_reply_coh f s (load s) n1 sid (sess_uid sm sid) want bkg HU (sub_safe_imp _ _ _ _ SF) (load_coh s I)).
  - (* OLeave *)
    destruct cx as [c|]; [destruct (attached c sid)|]; cbn [negb fst st ca]; auto.
    destruct unsub; cbn [fst st ca].
    + now apply leave_unsub_coh.
    + pose proof (leave_coh s c sid (match alookup sid (c_sess c) with Some (a, _) => a | None => sess_uid sm sid end) I) as L.
      destruct (leave c sid _) as [c1 o1]. cbn [fst st ca h_st h_ca] in *. exact L.
  - (* OPub *)
    destruct cx as [c|]; [destruct (attached c sid)|]; cbn [negb fst st ca]; auto.
    apply (same_modes_coh s c); [apply publish_same|exact I].
  - (* ONote *)
    destruct cx as [c|]; [destruct (attached c sid)|]; cbn [negb fst st ca];
      repeat match goal with |- context [if ?b then _ else _] => destruct b end; cbn [fst st ca]; auto;
      apply (same_modes_coh s c); auto; apply note_same.
  - destruct cx as [c|]; [destruct (attached c sid)|]; cbn [negb fst st ca]; auto.
    destruct (get_data_same0 f s c 0 sid (sess_uid sm sid) since before limit) as [-> ->]. exact I.
  - destruct cx as [c|]; [destruct (attached c sid)|]; cbn [negb fst st ca]; try rewrite offline_get_desc_frame; auto.
    destruct (get_desc_same0 s c 0 sid (sess_uid sm sid)) as [-> ->]. exact I.
  - destruct cx as [c|]; [destruct (attached c sid)|]; cbn [negb fst st ca]; try rewrite offline_get_sub_frame; auto.
    destruct (get_sub_same0 f s c 0 sid (sess_uid sm sid)) as [-> ->]. exact I.
  - destruct cx as [c|]; [destruct (attached c sid)|]; cbn [negb fst st ca]; auto.
    destruct (get_del_same0 nr f s c 0 sid (sess_uid sm sid) since before limit) as [-> ->]. exact I.
  - (* ODelMsg *)
    destruct cx as [c|]; [destruct (attached c sid)|]; cbn [negb fst st ca]; auto.
    apply (same_modes_coh s c); [apply del_msg_same|exact I].
  - (* OSetSub *)
    apply andb_true_iff in SF. destruct SF as [HU SF]. apply negb_true_iff, N.eqb_neq in HU.
    destruct cx as [c|]; [destruct (attached c sid)|]; cbn [negb fst st ca].
    + apply set_sub_coh; auto. intros SELF OC. rewrite SELF in SF. cbn [negb orb] in SF. now apply (sub_safe_imp f c _ mode).
    + destruct mode; [|discriminate]. cbn. exact I.
    + now apply offline_set_sub_wf.
  - (* ODelSub *)
    destruct cx as [c|]; [destruct (attached c sid)|]; cbn [negb fst st ca]; auto.
    now apply del_sub_coh.
  - destruct cx as [c|]; [destruct (c_sess c)|]; cbn [fst st ca]; auto; destruct I; auto.
  - cbn [fst st ca]. destruct cx as [c|]; auto. destruct I; auto.
Qed.

Lemma step_f_cohx x fo : safe_step x fo = true -> cohx x -> cohx (fst (step_f dr nr sm x fo)).
Proof.
  intros SF I. unfold step_f. destruct fo as [f o].
  pose proof (step_cohx f x o SF I) as I1. cbn [fst snd].
  destruct (step dr nr sm f x o) as [x1 o1]. cbn [fst] in *.
  destruct f; cbn [fst]; auto.
  unfold cohx in *. cbn [st ca]. destruct (ca x1); [destruct I1|]; auto.
Qed.

Fixpoint safe_run (x : state) (h : list (fault * op)) : Prop :=
  match h with
  | [] => True
  | fo :: r => safe_step x fo = true /\ safe_run (fst (step_f dr nr sm x fo)) r
  end.

Lemma run_cohx h : forall x, safe_run x h -> cohx x -> cohx (fst (run dr nr sm x h)).
Proof.
  induction h as [|fo h IH]; intros x SR I; cbn [run fst]; [exact I|].
  destruct SR as [SF SR]. pose proof (step_f_cohx x fo SF I) as I1.
  destruct (step_f dr nr sm x fo) as [x1 o1]. cbn [fst] in *.
  specialize (IH x1 SR I1). destruct (run dr nr sm x1 h) as [x2 os]. exact IH.
Qed.

(* ---------- consequences for the publish decision ---------- *)
Definition accepts_stored (x : state) (sid : N) : bool :=
  match ca x with
  | Some c => attached c sid && stored_writer (st x) (sess_uid sm sid)
  | None => false
  end.

Lemma accepts_stored_eq x sid : cohx x ->
  match ca x with
  | Some c => attached c sid && is_writer (pud_mode (get_pud c (sess_uid sm sid)))
  | None => false
  end = accepts_stored x sid.
Proof.
  unfold cohx, accepts_stored. destruct (ca x) as [c|]; [|reflexivity].
  intros [_ [C _]]. now rewrite (coh_writer _ _ _ C).
Qed.

(* a request that leaves every stored grant as it was leaves every cached write bit as it was *)
Lemma grant_kept_decision_kept x fo : cohx x -> safe_step x fo = true ->
  (forall u, smodes (st (fst (step_f dr nr sm x fo))) u = smodes (st x) u) ->
  match ca x, ca (fst (step_f dr nr sm x fo)) with
  | Some c, Some c' => forall u, is_writer (pud_mode (get_pud c' u)) = is_writer (pud_mode (get_pud c u))
  | _, _ => True
  end.
Proof.
  intros I SF E. pose proof (step_f_cohx x fo SF I) as I'. unfold cohx in *.
  destruct (ca x) as [c|]; [|exact Logic.I]. destruct (ca (fst (step_f dr nr sm x fo))) as [c'|]; [|exact Logic.I].
  destruct I as [_ [C _]]. destruct I' as [_ [C' _]]. intros u.
  rewrite (coh_writer _ _ _ C), (coh_writer _ _ _ C'). unfold stored_writer. now rewrite E.
Qed.
End CohStep.

