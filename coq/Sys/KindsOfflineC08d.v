(* C08 (part d): {set sub mode} for the requester's own subscription on the topic kinds of
   Sys/TopicKindsC07.v (p2p, me, fnd, sys), through the LIVE topic (thisUserSub) and through the hub
   (replyOfflineTopicSetSub, session not attached / topic not loaded).

   - off_set_c08d is the hub path of kstep, stated on its own (kstep_offline_c08d: it IS what kstep does
     for a session that is not attached);
   - offline_ack_stored_c08d: an offline {ctrl 200 acs=want/given} names the stored row;
   - name_form_c08d: the result depends on the topic the name denotes, not on the form of the name
     (usrXXX / p2pXXXYYY);
   - p2p_offline_same_rows_c08d: on a p2p topic whose cached record of the requester equals his stored row
     the two paths leave the SAME stored rows: the request is clipped to JRWPA and keeps A whether the
     topic is in memory or not. *)
From Coq Require Import ZArith NArith List Bool Lia.
From Tinode Require Import Base.Util Pure.Acs Sys.Topic Sys.TopicKindsC07 Sys.TopicKindsC07Proofs.
Import ListNotations.
Open Scope N_scope.

(* replyOfflineTopicSetSub, mode part: (new rows | None = unchanged, reply) *)
Definition off_set_c08d (cat : kcat) (rows : list (N * krow)) (sid uid target : N) (mode : list N)
  : option (list (N * krow)) * kout :=
  match mode with
  | [] => (None, [(sid, KCtrl 304)])
  | _ =>
    if negb (target =? 0) && negb (target =? uid) then (None, [(sid, KCtrl 403)]) else
    match alookup uid rows with
    | None => (None, [(sid, KCtrl 404)])
    | Some r =>
      if kr_del r then (None, [(sid, KCtrl 404)]) else
      let '(mw, okw) := unmarshal_text 0 mode in
      if negb okw then (None, [(sid, KCtrl 500)]) else
      if negb (Bool.eqb (is_owner mw) (is_owner (kr_want r))) then (None, [(sid, KCtrl 403)]) else
      let mw1 := match cat with CP2P => p2p_mask mw | _ => mw end in
      if mw1 =? kr_want r then (None, [(sid, KCtrl 304)]) else
      (Some (row_modes rows uid (Some mw1) None), [(sid, KAcs 200 0 mw1 (kr_given r))])
    end
  end.

Lemma kstep_offline_c08d w sid uid root orig target mode k :
  expand uid orig = inl k -> k_attached (tget k (w_topics w)) sid = false ->
  kstep w (KSetSub sid uid root orig target mode) =
  let t := tget k (w_topics w) in
  match off_set_c08d (key_cat k) (kt_rows t) sid uid target mode with
  | (None, o) => (w, o)
  | (Some rows', o) => (mkWorld (w_acc w) (tset k (mkKt (kt_exists t) rows' (kt_cache t)) (w_topics w)), o)
  end.
Proof.
  intros E A. unfold kstep. rewrite E. rewrite A. cbn zeta. unfold off_set_c08d.
  destruct mode as [|m0 mr]; [reflexivity|].
  destruct (negb (target =? 0) && negb (target =? uid)); [reflexivity|].
  destruct (alookup uid (kt_rows (tget k (w_topics w)))) as [r|]; [|reflexivity].
  destruct (kr_del r); [reflexivity|].
  destruct (unmarshal_text 0 (m0 :: mr)) as [mw okw].
  destruct (negb okw); [reflexivity|].
  destruct (negb (Bool.eqb (is_owner mw) (is_owner (kr_want r)))); [reflexivity|].
  destruct ((match key_cat k with CP2P => p2p_mask mw | _ => mw end) =? kr_want r); reflexivity.
Qed.

(* ACK => STORED on the hub path *)
Lemma alookup_aset_same_c08d {A} (k : N) (v : A) l : alookup k (aset k v l) = Some v.
Proof.
  induction l as [|[k' v'] l IH]; cbn.
  - rewrite N.eqb_refl. reflexivity.
  - destruct (N.eqb_spec k k') as [E|NE].
    + cbn. rewrite N.eqb_refl. reflexivity.
    + cbn. destruct (N.eqb_spec k k'); [contradiction|]. exact IH.
Qed.

Lemma offline_ack_stored_c08d cat rows sid uid target mode rows' o s' named wt g :
  off_set_c08d cat rows sid uid target mode = (rows', o) -> In (s', KAcs 200 named wt g) o ->
  s' = sid /\ named = 0 /\
  exists rows1 r, rows' = Some rows1 /\ alookup uid rows1 = Some r /\ kr_want r = wt /\ kr_given r = g /\ kr_del r = false.
Proof.
  unfold off_set_c08d. intros H I.
  destruct mode as [|m0 mr]; [inversion H; subst; destruct I as [I|[]]; discriminate I|].
  destruct (negb (target =? 0) && negb (target =? uid)); [inversion H; subst; destruct I as [I|[]]; discriminate I|].
  destruct (alookup uid rows) as [r|] eqn:LK; [|inversion H; subst; destruct I as [I|[]]; discriminate I].
  destruct (kr_del r) eqn:DL; [inversion H; subst; destruct I as [I|[]]; discriminate I|].
  destruct (unmarshal_text 0 (m0 :: mr)) as [mw okw].
  destruct (negb okw); [inversion H; subst; destruct I as [I|[]]; discriminate I|].
  destruct (negb (Bool.eqb (is_owner mw) (is_owner (kr_want r)))); [inversion H; subst; destruct I as [I|[]]; discriminate I|].
  destruct (_ =? kr_want r); [inversion H; subst; destruct I as [I|[]]; discriminate I|].
  inversion H; subst. destruct I as [I|[]]. inversion I; subst.
  split; [reflexivity|]. split; [reflexivity|].
  eexists _, _. split; [reflexivity|]. unfold row_modes. rewrite LK. rewrite alookup_aset_same_c08d.
  split; [reflexivity|]. cbn. repeat split. exact DL.
Qed.

(* the outcome does not depend on the FORM of the name *)
Lemma name_form_c08d w sid uid root o1 o2 target mode :
  expand uid o1 = expand uid o2 -> (match o1, o2 with OUsr _, _ | ORawP2P _ _, _ => True | _, _ => o1 = o2 end) ->
  kstep w (KSetSub sid uid root o1 target mode) = kstep w (KSetSub sid uid root o2 target mode).
Proof. intros E _. unfold kstep. rewrite E. reflexivity. Qed.

(* LIVE = OFFLINE on the stored rows of a p2p topic *)
Lemma p2p_mask_not_unset_c08d m : (p2p_mask m =? ModeUnset) = false.
Proof.
  apply N.eqb_neq. pose proof (okmode_lt _ (okmode_mask m)) as H. intros E. rewrite E in H.
  revert H. vm_compute. discriminate.
Qed.

Lemma p2p_offline_same_rows_c08d rows c sid uid root mode r :
  mode <> [] ->
  (forall m0, parse_acs mode = Some m0 -> (m0 =? ModeUnset) = false) ->
  alookup uid rows = Some r -> kr_del r = false ->
  alookup uid (kc_users c) = Some r ->                 (* the cached record is the stored row *)
  is_owner (kr_want r) = false -> is_owner (kr_given r) = false ->
  let '(live_rows, _, _, _) := k_this_user_sub CP2P rows c uid root mode false in
  live_rows = match fst (off_set_c08d CP2P rows sid uid 0 mode) with Some r' => r' | None => rows end.
Proof.
  intros NE PA LR DL LC OW OG.
  unfold k_this_user_sub, off_set_c08d. rewrite LR, LC, DL.
  destruct mode as [|m0 mr]; [congruence|]. cbn [negb andb N.eqb].
  assert (unmarshal_text 0 (m0 :: mr) = unmarshal_text ModeUnset (m0 :: mr) \/
          (snd (unmarshal_text 0 (m0 :: mr)) = false /\ snd (unmarshal_text ModeUnset (m0 :: mr)) = false)) as U.
  { unfold unmarshal_text. destruct (parse_acs (m0 :: mr)) as [p|] eqn:P; [|right; split; reflexivity].
    rewrite (PA _ eq_refl). left. reflexivity. }
  destruct U as [U|[U1 U2]].
  - rewrite U. destruct (unmarshal_text ModeUnset (m0 :: mr)) as [mw okw]. cbn [negb].
    destruct okw; cbn [negb]; [|reflexivity].
    assert ((mw =? ModeUnset) = false) as MU.
    { revert U. unfold unmarshal_text. destruct (parse_acs (m0 :: mr)) as [p|] eqn:P; [|discriminate].
      rewrite (PA _ eq_refl). intros U. inversion U; subst. apply N.eqb_neq. intros E.
      assert (N.land p ModeBitmask < 256) as LT.
      { change ModeBitmask with (N.ones 8). rewrite N.land_ones. apply N.mod_lt. discriminate. }
      rewrite E in LT. revert LT. vm_compute. discriminate. }
    rewrite MU. rewrite OG, OW.
    destruct (is_owner mw); cbn [Bool.eqb negb]; [reflexivity|].
    rewrite p2p_mask_not_unset_c08d.
    destruct (p2p_mask mw =? kr_want r) eqn:EQ; cbn [fst].
    + destruct (negb (is_joiner (p2p_mask mw))); [destruct (k_evict _ _ _ _ _); reflexivity|].
      destruct (negb (is_joiner (kr_given r))); reflexivity.
    + destruct (negb (is_joiner (p2p_mask mw))); [destruct (k_evict _ _ _ _ _); reflexivity|].
      destruct (negb (is_joiner (kr_given r))); reflexivity.
  - destruct (unmarshal_text 0 (m0 :: mr)) as [a b], (unmarshal_text ModeUnset (m0 :: mr)) as [a' b']. cbn in U1, U2. subst.
    cbn [negb fst]. reflexivity.
Qed.

(* the hypothesis on the mode string holds for the strings clients send: e.g. "JRWSD", "N", "JRWPA" *)
Lemma mode_abs_JRWSD_c08d :
  match parse_acs [74; 82; 87; 83; 68] with Some m0 => (m0 =? ModeUnset) = false | None => True end.
Proof. vm_compute. reflexivity. Qed.
