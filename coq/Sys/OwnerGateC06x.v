(* C06, "only the owner can delete the topic for everybody", with the POPULATION of the topic:
   hub.go topicUnreg, reason == StopDeleted, translated statement by statement for group AND p2p
   topics with the subscriber counts it reads (t.subsCount() when the topic is loaded, len(subs)
   of store.Topics.GetSubs when it is not).  The shortcut "last subscriber deletes the topic"
   is guarded by the topic category: (p2p AND count < 2); OwnerGateC06xProofs.v proves that a
   group topic is deleted for everybody by its owner only, whatever the counts.
   Definitions only; fault-free store.  Outcome classes of OwnerGate.v (GAll / GOwn / GNone). *)
From Coq Require Import ZArith NArith List Bool.
From Tinode Require Import Sys.OwnerGate.
Import ListNotations.
Open Scope Z_scope.

Record dreq_c06x := mkDreqC06x {
  dx_p2p : bool;         (* t.cat == types.TopicCatP2P / topicCat(topic) == TopicCatP2P *)
  dx_loaded : bool;      (* hub.topicGet(topic) != nil *)
  dx_owner_c : bool;     (* !asUid.IsZero() && t.owner == asUid (a p2p topic has no owner: false) *)
  dx_count_c : N;        (* t.subsCount(): group len(perUser); p2p entries not marked deleted *)
  dx_subscribed : bool;  (* the requester has a live subscription (cached when loaded, stored otherwise) *)
  dx_owner_s : bool;     (* the requester's stored subscription has O in want & given *)
  dx_count_s : N }.      (* len(subs) returned by store.Topics.GetSubs(topic) *)

Definition gate_del_c06x (r : dreq_c06x) : gout :=
  if dx_loaded r then
    (* Case 1.1: topic is online *)
    if dx_owner_c r || (dx_p2p r && (dx_count_c r <? 2)%N) then
      GAll 200                                          (* 1.1.1 store.Topics.Delete, NoErrReply *)
    else
      (* 1.1.2 t.meta <- msg: replyDelTopic -> replyLeaveUnsub: store.Subs.Delete(t.name, asUid) *)
      if dx_subscribed r then GOwn 200 else GNone 304   (* ErrNotFound -> InfoNoActionReply *)
  else
    (* Case 1.2: topic is offline *)
    if (dx_count_s r =? 0)%N then
      (* len(subs) == 0: a p2p topic without subscribers is removed; InfoNoActionReply *)
      if dx_p2p r then GAll 304 else GNone 304
    else if negb (dx_subscribed r) then GNone 304        (* sub == nil: "tell him all is fine" *)
    else if negb (dx_owner_s r) then
      (* 1.2.2.1 not the owner, but possibly the last subscription of a p2p topic *)
      if dx_p2p r && (dx_count_s r <? 2)%N then GAll 200 (* store.Topics.Delete *)
      else GOwn 200                                      (* store.Subs.Delete(topic, asUid) *)
    else GAll 200.                                       (* 1.2.1.1 owner: store.Topics.Delete *)

(* who the code takes for the owner on the path the request travels *)
Definition dx_is_owner (r : dreq_c06x) : bool := if dx_loaded r then dx_owner_c r else dx_owner_s r.

(* the request of OwnerGate.v that forgets category and counts *)
Definition dx_greq (r : dreq_c06x) : greq :=
  mkGreq (dx_loaded r) false (dx_owner_c r) (dx_owner_s r) (dx_subscribed r) false.
