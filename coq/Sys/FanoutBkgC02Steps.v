(* Sys/FanoutBkgC02.v, part 2 of the lemmas: every request keeps the invariants for every fault plan;
   a request whose store call failed changes nothing. *)
From Coq Require Import ZArith NArith List Bool Lia Permutation.
From Coq Require Import ZifyBool ZifyNat ZifyN.
From Tinode Require Import Sys.Fanout Sys.FanoutProofs Sys.FanoutBkgC02 Sys.FanoutBkgC02Proofs.
Import ListNotations.
Open Scope N_scope.

Definition sinv (bkg : list sid) (st : state) : Prop := wf_sess st /\ att_x st /\ online_chan st /\ bkg_ok bkg st.

Lemma xinv_split x : xinv x <-> sinv (x_bkg x) (x_st x) /\ coh x.
Proof. unfold xinv, sinv. tauto. Qed.

Lemma sinv_same bkg st st' : st_sess st' = st_sess st -> st_users st' = st_users st -> sinv bkg st -> sinv bkg st'.
Proof.
  intros Hs Hu [A [B [C D]]]. split; [unfold wf_sess; now rewrite Hs|]. split; [now apply (att_x_same st)|].
  split; [now apply (online_chan_same st)|now apply (bkg_ok_same bkg st)].
Qed.

Lemma sinv_evict bkg st u b : sinv bkg st -> sinv bkg (evict_user st u b).
Proof.
  intros [A [B [C D]]]. split; [now apply wf_evict_user|]. split; [now apply att_x_evict|].
  split; [now apply online_chan_evict|now apply bkg_ok_evict].
Qed.

Lemma sinv_modes bkg st u p w g : lookup u (st_users st) = Some p ->
  sinv bkg st -> sinv bkg (set_users (update u (set_pud_modes w g) (st_users st)) st).
Proof.
  intros Hp [A [B [C D]]]. split; [exact A|]. split; [now apply (att_x_modes st u p)|].
  split; [now apply (online_chan_modes st u p)|exact D].
Qed.

Lemma sinv_new bkg st u p : lookup u (st_users st) = None -> (0 <= pu_online p)%Z ->
  sinv bkg st -> sinv bkg (set_users (st_users st ++ [(u, p)]) st).
Proof.
  intros Hn Ho [A [B [C D]]]. split; [exact A|]. split; [exact (att_x_new st u p Hn B)|].
  split; [exact (online_chan_new st u p Hn B C Ho)|exact D].
Qed.

Lemma sinv_xadd bkg st b s u c p :
  has_key s (st_sess st) = false -> lookup u (st_users st) = Some p -> pu_deleted p = false -> pu_ischan p = c ->
  (c = true -> b = false) -> (mem s bkg = true -> c = false) ->
  sinv bkg st -> sinv bkg (xadd_session st b s u c).
Proof.
  intros Hk Hp Hd Hc Hb Hm [A [B [C D]]]. split; [now apply wf_xadd|]. split; [now apply (att_x_xadd st b s u c p)|].
  split; [now apply (online_chan_xadd st b s u c p)|exact (bkg_ok_xadd st b s u c p Hk Hc bkg D Hm)].
Qed.

Lemma has_lor_l a c b : has a b = true -> has (N.lor a c) b = true.
Proof.
  unfold has. rewrite !negb_true_iff, !N.eqb_neq. intros H E. apply H.
  rewrite N.land_lor_distr_l in E. apply N.lor_eq_0_iff in E. tauto.
Qed.

Lemma pud_modes_id p : set_pud_modes (pu_want p) (pu_given p) p = p.
Proof. destruct p; reflexivity. Qed.

(* the grant computed by thisUserSub never loses J *)
Lemma own_modes_given st u p mw want given :
  own_modes st u p mw = OwnModes want given -> has (pu_given p) bJ = true -> has given bJ = true.
Proof.
  unfold own_modes. destruct mw as [m|].
  - repeat break_match; intros H; inv H; auto using has_lor_l.
  - intros H. inv H. auto.
Qed.

Lemma own_modes_chan st u p want given :
  own_modes st u p None = OwnModes want given -> has (pu_want p) bJ = true -> want = pu_want p /\ given = pu_given p.
Proof. unfold own_modes. intros H Hj. rewrite Hj in H. inv H. auto. Qed.

(* ---- thisUserSub: store.Subs.Update, then the cache ---- *)
Lemma rows_update_lookup (rows : list (uid * (mode * mode))) u wg u2 old : lookup u rows = Some old ->
  lookup u2 (row_upd u wg rows) = if u2 =? u then Some wg else lookup u2 rows.
Proof.
  intros Ho. unfold row_upd. destruct (N.eqb_spec u2 u) as [->|E].
  - now rewrite (lookup_update_same _ _ _ _ Ho).
  - now apply lookup_update_other.
Qed.

Lemma own_apply_spec x f u p want given :
  lookup u (st_users (x_st x)) = Some p -> pu_deleted p = false ->
  (pu_ischan p = true -> want = pu_want p /\ given = pu_given p) -> xinv x ->
  match own_apply x f u p want given with
  | (None, cl) => existsb snd cl = true
  | (Some x1, cl) =>
    existsb snd cl = false /\ x_bkg x1 = x_bkg x /\ sinv (x_bkg x) (x_st x1) /\ coh x1 /\
    x_st x1 = set_users (update u (set_pud_modes want given) (st_users (x_st x))) (x_st x)
  end.
Proof.
  intros Hp Hd Hch Hinv. apply xinv_split in Hinv. destruct Hinv as [Hs Hc]. unfold own_apply.
  destruct ((want =? pu_want p) && (given =? pu_given p)) eqn:E.
  - apply andb_true_iff in E. destruct E as [E1 E2]. apply N.eqb_eq in E1, E2. subst want given.
    assert (Hid : set_users (update u (set_pud_modes (pu_want p) (pu_given p)) (st_users (x_st x))) (x_st x) = x_st x).
    { assert (Hu : update u (set_pud_modes (pu_want p) (pu_given p)) (st_users (x_st x)) = st_users (x_st x)).
      { clear -Hp. induction (st_users (x_st x)) as [|[k v] r IH]; cbn in *; [reflexivity|].
        destruct (u =? k) eqn:Ek; [inv Hp; now rewrite pud_modes_id|]. now rewrite IH. }
      rewrite Hu. destruct (x_st x); reflexivity. }
    split; [reflexivity|]. split; [reflexivity|]. split; [exact Hs|]. split; [exact Hc|]. now rewrite Hid.
  - destruct (fails f 0); [reflexivity|]. cbn [existsb snd orb].
    assert (Hnc : pu_ischan p = false).
    { destruct (pu_ischan p) eqn:Ec; [|reflexivity]. destruct (Hch eq_refl) as [-> ->]. rewrite !N.eqb_refl in E. discriminate. }
    split; [reflexivity|]. split; [reflexivity|]. cbn [x_st set_xst set_xrows x_bkg x_rows].
    split; [now apply (sinv_modes _ _ u p)|]. split; [|reflexivity].
    intros u2. cbn [x_st set_xst set_xrows x_rows]. rewrite (live_modes_modes (x_st x) u p want given Hp u2 Hd Hnc).
    assert (Hold : lookup u (x_rows x) = Some (pu_want p, pu_given p)).
    { rewrite (Hc u). unfold live_modes. now rewrite Hp, Hd, Hnc. }
    rewrite (rows_update_lookup _ _ _ _ _ Hold). destruct (u2 =? u); [reflexivity|apply Hc].
Qed.

(* ------------------------------------------------------------------ *)
(* what every request has to satisfy: it keeps [xinv]; it keeps [joined] unless it is the recorded
   ban bypass; if one of its store calls failed nothing changed *)
Definition step_ok (x : xstate) (rc : option xstate * calls) (byp : bool) : Prop :=
  match fst rc with
  | None => True
  | Some x' => (xinv x -> xinv x') /\ (xinv x -> joined (x_st x) -> byp = false -> joined (x_st x')) /\
               (existsb snd (snd rc) = true -> x' = x)
  end.

Lemma step_ok_same x cl b : step_ok x (Some x, cl) b.
Proof. cbn. auto. Qed.
Lemma step_ok_none x cl b : step_ok x (None, cl) b.
Proof. exact I. Qed.

Lemma own_apply_calls x f u p w g :
  match own_apply x f u p w g with (None, _) => True | (Some _, cl) => existsb snd cl = false end.
Proof. unfold own_apply. destruct ((w =? pu_want p) && (g =? pu_given p)); [reflexivity|]. destruct (fails f 0); reflexivity. Qed.

Lemma coh_set_xst x st' : (forall u, live_modes st' u = live_modes (x_st x) u) -> coh x -> coh (set_xst st' x).
Proof. intros H Hc u. cbn [x_rows x_st set_xst]. rewrite H. apply Hc. Qed.

Lemma xinv_intro x : sinv (x_bkg x) (x_st x) -> coh x -> xinv x.
Proof. intros. apply xinv_split. now split. Qed.

Lemma xattach_existing_ok x f s u c mw p :
  has_key s (st_sess (x_st x)) = false -> is_bkg x s && c = false ->
  lookup u (st_users (x_st x)) = Some p -> pu_deleted p = false -> pu_ischan p = c ->
  (pu_ischan p = true -> mw = None /\ has (pu_want p) bJ = true) ->
  step_ok x (xattach_existing x f s u c mw p)
    (match own_modes (x_st x) u p mw with
     | OwnModes want given => negb (has want bJ) && (want =? pu_want p) && (given =? pu_given p)
     | _ => false end).
Proof.
  intros Hk Hbc Hp Hd Hc Hch. unfold xattach_existing.
  destruct (own_modes (x_st x) u p mw) as [| |want given] eqn:Eo; [apply step_ok_same|apply step_ok_none|].
  pose proof (own_apply_calls x f u p want given) as Hcalls.
  assert (Hch' : pu_ischan p = true -> want = pu_want p /\ given = pu_given p).
  { intros E. destruct (Hch E) as [-> Hj]. exact (own_modes_chan _ _ _ _ _ Eo Hj). }
  pose proof (own_apply_spec x f u p want given Hp Hd Hch') as Hspec.
  destruct (own_apply x f u p want given) as [[x1|] cl] eqn:Ea; [|apply step_ok_same].
  set (st1 := set_users (update u (set_pud_modes want given) (st_users (x_st x))) (x_st x)) in *.
  assert (Hl1 : lookup u (st_users st1) = Some (set_pud_modes want given p)) by (apply modes_lookup_same; exact Hp).
  assert (Hmem : mem s (x_bkg x) = true -> c = false).
  { intros Hm. unfold is_bkg in Hbc. rewrite Hm in Hbc. destruct c; [discriminate|reflexivity]. }
  assert (Hcb : c = true -> is_bkg x s = false).
  { intros ->. destruct (is_bkg x s); [discriminate|reflexivity]. }
  (* [joined] of the state with the new modes, whenever the user keeps J in both or has no session *)
  assert (Hj1 : joined (x_st x) -> (pu_ischan p = false -> has want bJ = true) -> joined st1).
  { intros Hj Hw. apply (joined_modes (x_st x) u p want given Hp Hj). intros Hnc Hcnt. split; [auto|].
    destruct (cnt_pos_in _ _ Hcnt) as [s' [d' [Hin Hu]]]. rewrite <- Hu in Hp.
    destruct (Hj s' d' p Hin Hp Hnc) as [_ Hg]. exact (own_modes_given _ _ _ _ _ _ Eo Hg). }
  destruct (negb (has want bJ)) eqn:Ew.
  - apply negb_true_iff in Ew.
    assert (Hnc : pu_ischan p = false).
    { destruct (pu_ischan p) eqn:E; [|reflexivity]. destruct (Hch eq_refl) as [_ Hj]. destruct (Hch' eq_refl) as [-> _]. congruence. }
    destruct ((want =? pu_want p) && (given =? pu_given p)) eqn:Eu; unfold step_ok; cbn [fst snd].
    + (* the ban bypass *)
      apply andb_true_iff in Eu. destruct Eu as [Eu1 Eu2].
      split; [|split; [intros _ _ H; rewrite Eu1, Eu2 in H; discriminate|intros H; rewrite Hcalls in H; discriminate]].
      intros Hinv. destruct (Hspec Hinv) as [_ [Hb [Hs1 [Hc1 Hst1]]]]. rewrite Hst1. fold st1.
      rewrite Hst1 in Hs1. fold st1 in Hs1.
      assert (Hle : lookup u (st_users (evict_user st1 u false)) = Some (set_pud_online 0%Z (set_pud_modes want given p))).
      { unfold evict_user. cbn [st_users set_sess set_users]. rewrite Hl1. cbn [pu_ischan set_pud_modes]. rewrite Hnc.
        now rewrite (lookup_update_same _ _ _ _ Hl1). }
      apply xinv_intro; cbn [x_st x_bkg set_xst]; try rewrite Hb.
      * apply (sinv_xadd _ _ _ _ _ _ _ (has_key_evict st1 u false s Hk) Hle); cbn; auto; try congruence. now apply sinv_evict.
      * apply coh_set_xst; [|exact Hc1]. intros u2. rewrite Hst1. fold st1.
        rewrite (live_modes_xadd _ _ _ _ _ _ Hle). apply live_modes_evict_false.
    + split; [|split; [|intros H; rewrite Hcalls in H; discriminate]].
      * intros Hinv. destruct (Hspec Hinv) as [_ [Hb [Hs1 [Hc1 Hst1]]]].
        apply xinv_intro; cbn [x_st x_bkg set_xst]; try rewrite Hb; [now apply sinv_evict|].
        apply coh_set_xst; [|exact Hc1]. intros u2. apply live_modes_evict_false.
      * intros Hinv Hj _. destruct (Hspec Hinv) as [_ [_ [_ [_ Hst1]]]]. cbn [x_st set_xst]. rewrite Hst1.
        now apply joined_modes_evict.
  - apply negb_false_iff in Ew. destruct (negb (has given bJ)) eqn:Eg; unfold step_ok; cbn [fst snd].
    + split; [|split; [|intros H; rewrite Hcalls in H; discriminate]].
      * intros Hinv. destruct (Hspec Hinv) as [_ [Hb [Hs1 [Hc1 Hst1]]]]. apply xinv_intro; [now rewrite Hb|exact Hc1].
      * intros Hinv Hj _. destruct (Hspec Hinv) as [_ [_ [_ [_ Hst1]]]]. rewrite Hst1. apply Hj1; auto.
    + apply negb_false_iff in Eg.
      assert (Hl1d : pu_deleted (set_pud_modes want given p) = false) by exact Hd.
      assert (Hl1c : pu_ischan (set_pud_modes want given p) = c) by exact Hc.
      split; [|split; [|intros H; rewrite Hcalls in H; discriminate]].
      * intros Hinv. destruct (Hspec Hinv) as [_ [Hb [Hs1 [Hc1 Hst1]]]].
        apply xinv_intro; cbn [x_st x_bkg set_xst]; try rewrite Hb; rewrite ?Hst1; fold st1.
        -- apply (sinv_xadd (x_bkg x) st1 (is_bkg x s) s u c _ Hk Hl1 Hl1d Hl1c); [exact Hcb|exact Hmem|now rewrite <- Hst1].
        -- apply coh_set_xst; [|exact Hc1]. intros u2. rewrite Hst1. fold st1. apply (live_modes_xadd _ _ _ _ _ _ Hl1).
      * intros Hinv Hj _. destruct (Hspec Hinv) as [_ [_ [_ [_ Hst1]]]]. cbn [x_st set_xst]. rewrite Hst1. fold st1.
        apply (joined_xadd st1 (is_bkg x s) s u c _ Hk Hl1 Hl1d Hl1c); [apply Hj1; auto|]. intros _. cbn. auto.
Qed.

(* ---- new subscriber ---- *)
Lemma rows_set_lookup (rows : list (uid * (mode * mode))) u wg u2 : lookup u rows = None ->
  lookup u2 (row_set u wg rows) = if u2 =? u then Some wg else lookup u2 rows.
Proof.
  intros Hn. unfold row_set, has_key. rewrite Hn, lookup_app. destruct (N.eqb_spec u2 u) as [->|E].
  - rewrite Hn. cbn. now rewrite N.eqb_refl.
  - destruct (lookup u2 rows); [reflexivity|]. cbn. destruct (u2 =? u) eqn:E2; [apply N.eqb_eq in E2; congruence|reflexivity].
Qed.

Lemma xattach_new_sub_ok x f s u mw :
  has_key s (st_sess (x_st x)) = false -> lookup u (st_users (x_st x)) = None ->
  step_ok x (xattach_new_sub x f s u mw) false.
Proof.
  intros Hk Hn. unfold xattach_new_sub. destruct (fails f 0); [apply step_ok_same|].
  destruct (negb (has (st_defacs (x_st x)) bJ)) eqn:Eg; [apply step_ok_same|]. apply negb_false_iff in Eg.
  destruct (fails f 1); [apply step_ok_same|].
  set (want := match mw with Some m => N.ldiff m bO | None => st_defacs (x_st x) end).
  set (given := st_defacs (x_st x)) in *.
  set (np := mkPud want given false false 0 0%Z).
  set (st1 := set_users (st_users (x_st x) ++ [(u, np)]) (x_st x)).
  assert (Hl1 : lookup u (st_users st1) = Some np) by (apply new_lookup_same; exact Hn).
  assert (Hs1 : sinv (x_bkg x) (x_st x) -> sinv (x_bkg x) st1) by (apply sinv_new; [exact Hn|cbn; lia]).
  assert (Hlive : forall u2, live_modes st1 u2 = if u2 =? u then Some (want, given) else live_modes (x_st x) u2).
  { intros u2. unfold st1. rewrite (live_modes_new (x_st x) u np Hn). reflexivity. }
  assert (Hrows : coh x -> forall u2, lookup u2 (row_set u (want, given) (x_rows x)) = live_modes st1 u2).
  { intros Hc u2. rewrite Hlive. assert (Hnr : lookup u (x_rows x) = None) by (rewrite (Hc u); unfold live_modes; now rewrite Hn).
    rewrite (rows_set_lookup _ _ _ _ Hnr). destruct (u2 =? u); [reflexivity|apply Hc]. }
  destruct (negb (has want bJ)) eqn:Ew; unfold step_ok; cbn [fst snd existsb orb].
  - split; [|split; [|discriminate]].
    + intros Hinv. apply xinv_split in Hinv. destruct Hinv as [Hs Hc]. apply xinv_intro; cbn [x_st x_bkg x_rows set_xst set_xrows].
      * apply sinv_evict. auto.
      * intros u2. cbn [x_st x_rows set_xst set_xrows]. rewrite live_modes_evict_false. now apply Hrows.
    + intros Hinv Hj _. apply xinv_split in Hinv. destruct Hinv as [[_ [Ha _]] _]. cbn [x_st set_xst set_xrows].
      apply joined_evict. exact (joined_new (x_st x) u np Hn Ha Hj).
  - apply negb_false_iff in Ew. split; [|split; [|discriminate]].
    + intros Hinv. apply xinv_split in Hinv. destruct Hinv as [Hs Hc]. apply xinv_intro; cbn [x_st x_bkg x_rows set_xst set_xrows].
      * apply (sinv_xadd (x_bkg x) st1 (is_bkg x s) s u false np Hk Hl1); cbn; auto. discriminate.
      * intros u2. cbn [x_st x_rows set_xst set_xrows]. rewrite (live_modes_xadd st1 _ _ _ _ np Hl1). now apply Hrows.
    + intros Hinv Hj _. apply xinv_split in Hinv. destruct Hinv as [[_ [Ha _]] _]. cbn [x_st set_xst set_xrows].
      apply (joined_xadd st1 (is_bkg x s) s u false np Hk Hl1); cbn; auto. exact (joined_new (x_st x) u np Hn Ha Hj).
Qed.

(* ---- first connection of a channel reader ---- *)
Lemma chan_join_ok x s u want (st0 : state) :
  let cp := mkPud want mode_chnreader false true 0 0%Z in
  has_key s (st_sess (x_st x)) = false -> lookup u (st_users (x_st x)) = None -> is_bkg x s = false ->
  st_sess st0 = st_sess (x_st x) -> st_users st0 = st_users (x_st x) ++ [(u, cp)] ->
  let st' := if has want bJ then xadd_session st0 false s u true else evict_user st0 u false in
  (xinv x -> xinv (set_xst st' x)) /\ (xinv x -> joined (x_st x) -> joined st').
Proof.
  intros cp Hk Hn Hb Hs0 Hu0 st'.
  set (stn := set_users (st_users (x_st x) ++ [(u, cp)]) (x_st x)).
  assert (Hl0 : lookup u (st_users st0) = Some cp) by (rewrite Hu0; exact (new_lookup_same (x_st x) u cp Hn)).
  assert (Hk0 : has_key s (st_sess st0) = false) by now rewrite Hs0.
  assert (Hsn : sinv (x_bkg x) (x_st x) -> sinv (x_bkg x) st0).
  { intros H. apply (sinv_same _ stn); [exact Hs0|exact Hu0|]. apply sinv_new; [exact Hn|cbn; lia|exact H]. }
  assert (Hjn : att_x (x_st x) -> joined (x_st x) -> joined st0).
  { intros Ha H. apply (joined_same stn); [exact Hs0|exact Hu0|]. exact (joined_new (x_st x) u cp Hn Ha H). }
  assert (Hlive : forall u2, live_modes st0 u2 = live_modes (x_st x) u2).
  { intros u2. rewrite (live_modes_same stn st0 Hu0). unfold stn. rewrite (live_modes_new (x_st x) u cp Hn). cbn.
    destruct (N.eqb_spec u2 u) as [->|E]; [|reflexivity]. unfold live_modes. now rewrite Hn. }
  split.
  - intros Hinv. apply xinv_split in Hinv. destruct Hinv as [Hs Hc]. apply xinv_intro; cbn [x_st x_bkg set_xst].
    + unfold st'. destruct (has want bJ).
      * apply (sinv_xadd (x_bkg x) st0 false s u true cp Hk0 Hl0); cbn; auto. unfold is_bkg in Hb. congruence.
      * apply sinv_evict. auto.
    + apply coh_set_xst; [|exact Hc]. intros u2. unfold st'. destruct (has want bJ).
      * rewrite (live_modes_xadd st0 _ _ _ _ cp Hl0). apply Hlive.
      * rewrite live_modes_evict_false. apply Hlive.
  - intros Hinv Hj. apply xinv_split in Hinv. destruct Hinv as [[_ [Ha _]] _]. unfold st'. destruct (has want bJ).
    + apply (joined_xadd st0 false s u true cp Hk0 Hl0); cbn; auto. discriminate.
    + apply joined_evict. auto.
Qed.

Lemma xattach_new_chan_ok x f s u mw :
  has_key s (st_sess (x_st x)) = false -> lookup u (st_users (x_st x)) = None -> is_bkg x s = false ->
  step_ok x (xattach_new_chan x f s u mw) false.
Proof.
  intros Hk Hn Hb. unfold xattach_new_chan. destruct (fails f 0); [apply step_ok_same|].
  set (oldwant := match lookup u (st_chanrows (x_st x)) with Some w => w | None => mode_chnreader end).
  set (want := match mw with Some m => N.lor (N.lor (N.land m mode_chnreader) bR) bJ | None => oldwant end).
  destruct (if has_key u (st_chanrows (x_st x)) then if want =? oldwant then [] else [CUpd] else [CShare]) as [|c0 r].
  - unfold step_ok. cbn [fst snd existsb orb].
    destruct (chan_join_ok x s u want
                (set_users (st_users (x_st x) ++ [(u, mkPud want mode_chnreader false true 0 0%Z)]) (x_st x))
                Hk Hn Hb eq_refl eq_refl) as [A B].
    split; [exact A|]. split; [|discriminate]. intros Hinv Hj _. cbn [x_st set_xst]. now apply B.
  - destruct (fails f 1); [apply step_ok_same|]. unfold step_ok. cbn [fst snd existsb orb app].
    destruct (chan_join_ok x s u want
                (set_chanrows (if has_key u (st_chanrows (x_st x)) then update u (fun _ => want) (st_chanrows (x_st x))
                               else st_chanrows (x_st x) ++ [(u, want)])
                   (set_users (st_users (x_st x) ++ [(u, mkPud want mode_chnreader false true 0 0%Z)]) (x_st x)))
                Hk Hn Hb eq_refl eq_refl) as [A B].
    split; [exact A|]. split; [|discriminate]. intros Hinv Hj _. cbn [x_st set_xst]. now apply B.
Qed.

(* ---- {sub} ---- *)
Lemma xattach_ok x f s u c mw :
  step_ok x (xattach x f s u c mw) (ban_bypass x (XAttach f s u c mw)).
Proof.
  unfold xattach. destruct (has_key s (st_sess (x_st x))) eqn:Hk; [apply step_ok_same|].
  destruct (negb (chan_ok (x_st x) c)); [apply step_ok_same|].
  destruct (is_bkg x s && c) eqn:Hbc; [apply step_ok_none|].
  cbn [ban_bypass]. destruct (lookup u (st_users (x_st x))) as [p|] eqn:Hp.
  - destruct (pu_deleted p) eqn:Hd; [apply step_ok_none|].
    destruct (negb (pu_ischan p) && c) eqn:G1; [apply step_ok_same|].
    destruct (pu_ischan p && negb c) eqn:G2; [apply step_ok_none|].
    destruct (pu_ischan p && match mw with Some _ => true | None => negb (has (pu_want p) bJ) end) eqn:G3; [apply step_ok_none|].
    apply xattach_existing_ok; auto.
    + destruct (pu_ischan p), c; cbn in *; congruence.
    + intros E. rewrite E in G3. cbn in G3. destruct mw; [discriminate|]. apply negb_false_iff in G3. auto.
  - destruct (st_kind (x_st x)) eqn:Ek; try apply step_ok_same.
    + destruct c.
      * apply xattach_new_chan_ok; auto. now rewrite andb_true_r in Hbc.
      * destruct (mem u (st_gone (x_st x))); [apply step_ok_none|]. now apply xattach_new_sub_ok.
    + destruct c.
      * apply xattach_new_chan_ok; auto. now rewrite andb_true_r in Hbc.
      * destruct (mem u (st_gone (x_st x))); [apply step_ok_none|]. now apply xattach_new_sub_ok.
Qed.

(* ---- {leave} ---- *)
Lemma xdetach_ok x s u c : step_ok x (xdetach x s u c, []) false.
Proof.
  unfold xdetach. destruct (lookup s (st_sess (x_st x))) as [d|] eqn:Es; [|apply step_ok_same].
  destruct (negb (ss_uid d =? u)) eqn:Eu; [apply step_ok_same|]. apply negb_false_iff, N.eqb_eq in Eu.
  pose proof (lookup_in _ _ _ Es) as Hin.
  set (asChan := c && chan_ok (x_st x) c).
  set (st1 := set_sess (remove_key s (st_sess (x_st x))) (x_st x)).
  assert (H1 : sinv (x_bkg x) (x_st x) -> sinv (x_bkg x) st1).
  { intros [A [B [C D]]]. split; [now apply wf_remove_key|]. split; [now apply att_x_remove_sess|].
    split; [now apply online_chan_remove_sess|now apply bkg_ok_remove_sess]. }
  assert (J1 : joined (x_st x) -> joined st1) by apply joined_remove_sess.
  destruct (negb (eqb (ss_chan d) asChan)) eqn:Ec.
  { unfold step_ok. cbn [fst snd existsb]. split; [|split; [|discriminate]].
    - intros Hinv. apply xinv_split in Hinv. destruct Hinv as [Hs Hc]. apply xinv_intro; cbn [x_st x_bkg set_xst]; [auto|].
      apply coh_set_xst; [|exact Hc]. reflexivity.
    - intros _ Hj _. cbn [x_st set_xst]. auto. }
  apply negb_false_iff, eqb_prop in Ec.
  set (p := get_pud st1 u).
  set (n := if is_bkg x s then pu_online p else (pu_online p - 1)%Z).
  set (st2 := if is_bkg x s then st1 else set_users (upsert u (set_pud_online n) (st_users st1)) st1).
  (* what the invariant tells about the leaving session *)
  assert (Hfacts : sinv (x_bkg x) (x_st x) ->
            exists q, lookup u (st_users (x_st x)) = Some q /\ pu_deleted q = false /\ pu_ischan q = ss_chan d /\ p = q /\
                      (ss_chan d = true -> is_bkg x s = false /\ (Z.of_nat (cnt u (st_sess st1)) + 1 <= pu_online q)%Z)).
  { intros [A [B [C D]]]. destruct (B s d Hin) as [q [Hq [Hd Hc]]]. rewrite Eu in Hq. exists q. repeat split; auto.
    - unfold p, get_pud, st1. cbn [st_users set_sess]. now rewrite Hq.
    - destruct (is_bkg x s) eqn:Eb; [|reflexivity]. unfold is_bkg in Eb. rewrite (D s d Hin Eb) in H. discriminate.
    - rewrite <- Hc in H. specialize (C u q Hq H). pose proof (cnt_remove_lt u s d (st_sess (x_st x)) Hin Eu). unfold st1. cbn [st_sess set_sess]. lia. }
  assert (H2 : sinv (x_bkg x) (x_st x) -> sinv (x_bkg x) st2 /\ (forall u2, live_modes st2 u2 = live_modes (x_st x) u2) /\
               (joined (x_st x) -> joined st2) /\
               (ss_chan d = true -> exists q2, lookup u (st_users st2) = Some q2 /\ pu_ischan q2 = true /\ pu_online q2 = n)).
  { intros Hs. destruct (Hfacts Hs) as [q [Hq [Hd [Hc [Hpq Hch]]]]]. specialize (H1 Hs). unfold st2. destruct (is_bkg x s) eqn:Eb.
    - split; [exact H1|]. split; [reflexivity|]. split; [exact J1|]. intros E. destruct (Hch E) as [E2 _]. discriminate.
    - assert (Hq1 : lookup u (st_users st1) = Some q) by exact Hq. destruct H1 as [A [B [C D]]].
      split; [|split; [|split]].
      + split; [exact A|]. split; [apply (att_x_online st1 u q); auto|]. split; [|apply (bkg_ok_same _ st1); auto].
        apply (online_chan_online st1 u q); auto. intros E. cbn [pu_online set_pud_online]. rewrite Hc in E. destruct (Hch E) as [_ Hle].
        unfold n. rewrite Hpq. lia.
      + intros u2. now rewrite (live_modes_online st1 u q).
      + intros Hj. apply (joined_online st1 u q); auto.
      + intros E. exists (set_pud_online n q). cbn [st_users set_users]. rewrite lookup_upsert_same, Hq1. cbn. rewrite Hc. auto. }
  assert (Hfin : forall st', (st' = st2 \/ (st' = set_users (remove_key u (st_users st2)) st2 /\ (n =? 0)%Z && asChan = true)) ->
                 step_ok x (Some (set_xst st' x), []) false).
  { intros st' Hst'. unfold step_ok. cbn [fst snd existsb]. split; [|split; [|discriminate]].
    - intros Hinv. apply xinv_split in Hinv. destruct Hinv as [Hs Hc]. destruct (H2 Hs) as [S2 [L2 [_ C2]]].
      destruct Hst' as [->|[-> Hz]].
      + apply xinv_intro; cbn [x_st x_bkg set_xst]; [exact S2|]. apply coh_set_xst; [exact L2|exact Hc].
      + apply andb_true_iff in Hz. destruct Hz as [Hz Ha]. apply Z.eqb_eq in Hz. rewrite <- Ec in Ha.
        destruct (C2 Ha) as [q2 [Hq2 [Hc2 Ho2]]]. destruct S2 as [A [B [C D]]].
        assert (Hcnt : cnt u (st_sess st2) = 0%nat) by (specialize (C u q2 Hq2 Hc2); lia).
        apply xinv_intro; cbn [x_st x_bkg set_xst].
        * split; [exact A|]. split; [now apply att_x_remove_user|]. split; [now apply online_chan_remove_user|exact D].
        * apply coh_set_xst; [|exact Hc]. intros u2. rewrite live_modes_remove_user; auto.
          unfold live_modes. rewrite Hq2, Hc2. now rewrite orb_true_r.
    - intros Hinv Hj _. apply xinv_split in Hinv. destruct Hinv as [Hs Hc]. destruct (H2 Hs) as [S2 [L2 [J2 C2]]]. cbn [x_st set_xst].
      destruct Hst' as [->|[-> Hz]]; [auto|].
      apply andb_true_iff in Hz. destruct Hz as [Hz Ha]. apply Z.eqb_eq in Hz. rewrite <- Ec in Ha.
      destruct (C2 Ha) as [q2 [Hq2 [Hc2 Ho2]]]. destruct S2 as [A [B [C D]]].
      assert (Hcnt : cnt u (st_sess st2) = 0%nat) by (specialize (C u q2 Hq2 Hc2); lia).
      apply joined_remove_user; auto. }
  destruct (st_kind (x_st x)); try (apply Hfin; now left);
    (destruct ((n =? 0)%Z && asChan) eqn:Ez; apply Hfin; [right; split; reflexivity|now left]).
Qed.

(* ---- connection closed; background timer; publish ---- *)
Lemma bkg_ok_rm l k st : bkg_ok l st -> bkg_ok (rm k l) st.
Proof. intros H s d Hin Hm. apply (H s d Hin). now apply (mem_rm s k l). Qed.

Lemma xdisc_ok x s : step_ok x (Some (xdisc x s), []) false.
Proof.
  unfold step_ok, xdisc. cbn [fst snd existsb]. split; [|split; [|discriminate]].
  - intros Hinv. apply xinv_split in Hinv. destruct Hinv as [[A [B [C D]]] Hc].
    destruct (xdrop_keeps (rm s (x_bkg x)) (x_st x) s A B C) as [A1 [A2 [A3 [A4 [_ A6]]]]].
    apply xinv_intro; cbn [x_st x_bkg].
    + apply (sinv_same _ (xdrop_session (rm s (x_bkg x)) (x_st x) s)); [reflexivity|reflexivity|].
      split; [exact A1|]. split; [exact A2|]. split; [exact A3|]. apply A4. now apply bkg_ok_rm.
    + intros u. cbn [x_rows x_st]. rewrite (Hc u). rewrite <- A6. reflexivity.
  - intros Hinv Hj _. apply xinv_split in Hinv. destruct Hinv as [[A [B [C D]]] Hc]. cbn [x_st].
    destruct (xdrop_keeps (rm s (x_bkg x)) (x_st x) s A B C) as [_ [_ [_ [_ [A5 _]]]]].
    apply (joined_same (xdrop_session (rm s (x_bkg x)) (x_st x) s)); [reflexivity|reflexivity|auto].
Qed.

Lemma xforeground_ok x s : step_ok x (Some (xforeground x s), []) false.
Proof.
  unfold xforeground. destruct (negb (is_bkg x s)); [apply step_ok_same|].
  assert (Hx1 : step_ok x (Some (set_xbkg (rm s (x_bkg x)) x), []) false).
  { unfold step_ok. cbn [fst snd existsb]. split; [|split; [|discriminate]]; [|auto].
    intros Hinv. apply xinv_split in Hinv. destruct Hinv as [[A [B [C D]]] Hc]. apply xinv_intro; cbn [x_st x_bkg set_xbkg].
    - split; [exact A|]. split; [exact B|]. split; [exact C|now apply bkg_ok_rm].
    - exact Hc. }
  destruct (st_kind (x_st x)); try exact Hx1; (destruct (lookup s (st_sess (x_st x))) as [d|] eqn:Es; [|exact Hx1];
    destruct (ss_chan d) eqn:Ec; [exact Hx1|]; pose proof (lookup_in _ _ _ Es) as Hin;
    unfold step_ok; cbn [fst snd existsb]; (split; [|split; [|discriminate]]);
    [ intros Hinv; apply xinv_split in Hinv; destruct Hinv as [[A [B [C D]]] Hc]; destruct (B s d Hin) as [p [Hp [Hd Hch]]];
      apply xinv_intro; cbn [x_st x_bkg set_xst set_xbkg];
      [ split; [exact A|]; split; [apply (att_x_online (x_st x) (ss_uid d) p); auto|]; split;
        [apply (online_chan_online (x_st x) (ss_uid d) p); auto; intros; congruence|];
        apply (bkg_ok_same _ (x_st x)); [reflexivity|now apply bkg_ok_rm]
      | intros u2; cbn [x_rows x_st set_xst set_xbkg]; rewrite (live_modes_online (x_st x) (ss_uid d) p); auto ]
    | intros Hinv Hj _; apply xinv_split in Hinv; destruct Hinv as [[A [B [C D]]] Hc]; destruct (B s d Hin) as [p [Hp [Hd Hch]]];
      cbn [x_st set_xst set_xbkg]; apply (joined_online (x_st x) (ss_uid d) p); auto ]).
Qed.

Lemma xpublish_fst x px : fst (xpublish x px) = fst (publish (x_st x) px).
Proof. unfold xpublish. destruct (fst (publish (x_st x) px)); reflexivity. Qed.

Lemma xpublish_ok x px : step_ok x (Some (snd (xpublish x px)), []) false.
Proof.
  unfold xpublish. destruct (fst (publish (x_st x) px)) as [| | |seq ack copies push]; try apply step_ok_same.
  cbn [snd]. unfold step_ok. cbn [fst snd existsb]. split; [|split; [|discriminate]].
  - intros Hinv. apply xinv_split in Hinv. destruct Hinv as [[A [B [C D]]] Hc].
    assert (S0 : sinv (x_bkg x) (set_lastid seq (x_st x))) by (apply (sinv_same _ (x_st x)); [reflexivity|reflexivity|repeat split; auto]).
    destruct S0 as [A0 [B0 [C0 D0]]].
    destruct (xdrop_fold (x_bkg x) (overflowed copies) _ A0 B0 C0) as [F1 [F2 [F3 [F4 [_ [F6 _]]]]]].
    apply xinv_intro; cbn [x_st x_bkg set_xst]; [repeat split; auto|].
    apply coh_set_xst; [|exact Hc]. intros u. rewrite F6. reflexivity.
  - intros Hinv Hj _. apply xinv_split in Hinv. destruct Hinv as [[A [B [C D]]] Hc]. cbn [x_st set_xst].
    assert (S0 : sinv (x_bkg x) (set_lastid seq (x_st x))) by (apply (sinv_same _ (x_st x)); [reflexivity|reflexivity|repeat split; auto]).
    destruct S0 as [A0 [B0 [C0 D0]]].
    destruct (xdrop_fold (x_bkg x) (overflowed copies) _ A0 B0 C0) as [_ [_ [_ [_ [F5 _]]]]]. apply F5.
    apply (joined_same (x_st x)); [reflexivity|reflexivity|exact Hj].
Qed.

(* ---- {set sub mode} on the own subscription ---- *)
Lemma xset_want_ok x f u m : step_ok x (xset_want x f u m) false.
Proof.
  unfold xset_want. destruct (lookup u (st_users (x_st x))) as [p|] eqn:Hp; [|apply step_ok_none].
  destruct (pu_deleted p || pu_ischan p) eqn:Edc; [apply step_ok_none|]. apply orb_false_iff in Edc. destruct Edc as [Hd Hnc].
  destruct (own_modes (x_st x) u p (Some m)) as [| |want given] eqn:Eo; [apply step_ok_same|apply step_ok_none|].
  pose proof (own_apply_calls x f u p want given) as Hcalls.
  assert (Hch' : pu_ischan p = true -> want = pu_want p /\ given = pu_given p) by congruence.
  pose proof (own_apply_spec x f u p want given Hp Hd Hch') as Hspec.
  destruct (own_apply x f u p want given) as [[x1|] cl] eqn:Ea; [|apply step_ok_same].
  destruct (negb (has want bJ)) eqn:Ew; unfold step_ok; cbn [fst snd]; (split; [|split; [|intros H; rewrite Hcalls in H; discriminate]]).
  - intros Hinv. destruct (Hspec Hinv) as [_ [Hb [Hs1 [Hc1 Hst1]]]].
    apply xinv_intro; cbn [x_st x_bkg set_xst]; try rewrite Hb; [now apply sinv_evict|].
    apply coh_set_xst; [|exact Hc1]. intros u2. apply live_modes_evict_false.
  - intros Hinv Hj _. destruct (Hspec Hinv) as [_ [_ [_ [_ Hst1]]]]. cbn [x_st set_xst]. rewrite Hst1. now apply joined_modes_evict.
  - intros Hinv. destruct (Hspec Hinv) as [_ [Hb [Hs1 [Hc1 Hst1]]]]. apply xinv_intro; [now rewrite Hb|exact Hc1].
  - intros Hinv Hj _. destruct (Hspec Hinv) as [_ [_ [_ [_ Hst1]]]]. rewrite Hst1. apply negb_false_iff in Ew.
    apply (joined_modes (x_st x) u p want given Hp Hj). intros _ Hcnt. split; [exact Ew|].
    destruct (cnt_pos_in _ _ Hcnt) as [s' [d' [Hin Hu]]]. rewrite <- Hu in Hp.
    destruct (Hj s' d' p Hin Hp Hnc) as [_ Hg]. exact (own_modes_given _ _ _ _ _ _ Eo Hg).
Qed.

(* ---- {set sub user mode}: another user's grant ---- *)
Lemma xset_given_ok x f h u m : step_ok x (xset_given x f h u m) false.
Proof.
  unfold xset_given. destruct (h =? u); [apply step_ok_none|].
  destruct (lookup h (st_users (x_st x))) as [hp|]; [|apply step_ok_same].
  destruct (negb (has (eff hp) bO || has (eff hp) bA)); [apply step_ok_same|].
  set (m' := match st_kind (x_st x) with KP2P => N.lor (N.land m mode_cp2p) bA | _ => m end).
  destruct (has m' bO). { destruct (st_owner (x_st x) =? h); [apply step_ok_none|apply step_ok_same]. }
  destruct (lookup u (st_users (x_st x))) as [p|] eqn:Hp; [|apply step_ok_none].
  destruct (pu_deleted p || pu_ischan p) eqn:Edc; [apply step_ok_none|]. apply orb_false_iff in Edc. destruct Edc as [Hd Hnc].
  destruct (m' =? pu_given p) eqn:Em.
  - destruct (negb (has m' bJ)); [|apply step_ok_same]. unfold step_ok. cbn [fst snd existsb]. split; [|split; [|discriminate]].
    + intros Hinv. apply xinv_split in Hinv. destruct Hinv as [Hs Hc]. apply xinv_intro; cbn [x_st x_bkg set_xst]; [now apply sinv_evict|].
      apply coh_set_xst; [|exact Hc]. intros u2. apply live_modes_evict_false.
    + intros _ Hj _. cbn [x_st set_xst]. now apply joined_evict.
  - destruct (st_owner (x_st x) =? u); [apply step_ok_same|]. destruct (fails f 0); [apply step_ok_same|].
    set (st1 := set_users (update u (set_pud_modes (pu_want p) m') (st_users (x_st x))) (x_st x)).
    assert (Hcoh : coh x -> forall u2, lookup u2 (row_upd u (pu_want p, m') (x_rows x)) = live_modes st1 u2).
    { intros Hc u2. unfold st1. rewrite (live_modes_modes (x_st x) u p (pu_want p) m' Hp u2 Hd Hnc).
      assert (Hold : lookup u (x_rows x) = Some (pu_want p, pu_given p)) by (rewrite (Hc u); unfold live_modes; now rewrite Hp, Hd, Hnc).
      rewrite (rows_update_lookup _ _ _ _ _ Hold). destruct (u2 =? u); [reflexivity|apply Hc]. }
    destruct (negb (has m' bJ)) eqn:Ej; unfold step_ok; cbn [fst snd existsb orb]; (split; [|split; [|discriminate]]).
    + intros Hinv. apply xinv_split in Hinv. destruct Hinv as [Hs Hc]. apply xinv_intro; cbn [x_st x_bkg x_rows set_xst set_xrows].
      * apply sinv_evict. now apply (sinv_modes _ _ u p).
      * intros u2. cbn [x_st x_rows set_xst set_xrows]. rewrite live_modes_evict_false. now apply Hcoh.
    + intros _ Hj _. cbn [x_st set_xst set_xrows]. now apply joined_modes_evict.
    + intros Hinv. apply xinv_split in Hinv. destruct Hinv as [Hs Hc]. apply xinv_intro; cbn [x_st x_bkg x_rows set_xst set_xrows].
      * now apply (sinv_modes _ _ u p).
      * intros u2. cbn [x_st x_rows set_xst set_xrows]. now apply Hcoh.
    + intros _ Hj _. cbn [x_st set_xst set_xrows]. apply negb_false_iff in Ej.
      apply (joined_modes (x_st x) u p (pu_want p) m' Hp Hj). intros _ Hcnt. split; [|exact Ej].
      destruct (cnt_pos_in _ _ Hcnt) as [s' [d' [Hin Hu]]]. rewrite <- Hu in Hp. now destruct (Hj s' d' p Hin Hp Hnc).
Qed.

(* ---- {leave unsub}, {del sub} ---- *)
Lemma remove_user_ok x u (cached_chan : bool) :
  let st' := set_gone (u :: st_gone (x_st x)) (evict_user (x_st x) u true) in
  (xinv x -> xinv (set_xrows (remove_key u (x_rows x)) (set_xst st' x))) /\ (joined (x_st x) -> joined st').
Proof.
  intros st'. split.
  - intros Hinv. apply xinv_split in Hinv. destruct Hinv as [Hs Hc]. apply xinv_intro; cbn [x_st x_bkg x_rows set_xst set_xrows].
    + apply (sinv_same _ (evict_user (x_st x) u true)); [reflexivity|reflexivity|now apply sinv_evict].
    + intros u2. cbn [x_st x_rows set_xst set_xrows]. unfold st'. rewrite (live_modes_same (evict_user (x_st x) u true)) by reflexivity.
      rewrite live_modes_evict_true. destruct (N.eqb_spec u2 u) as [->|E].
      * apply lookup_remove_key_same.
      * rewrite lookup_remove_key_other by assumption. apply Hc.
  - intros Hj. apply (joined_same (evict_user (x_st x) u true)); [reflexivity|reflexivity|now apply joined_evict].
Qed.

Lemma xunsub_ok x f s u c : step_ok x (xunsub x f s u c) false.
Proof.
  unfold xunsub. destruct (negb (has_key s (st_sess (x_st x)))); [apply step_ok_same|].
  destruct (st_owner (x_st x) =? u); [apply step_ok_same|]. destruct (negb (chan_ok (x_st x) c)); [apply step_ok_same|].
  destruct (lookup u (st_users (x_st x))) as [p|] eqn:Hp; [|apply step_ok_none].
  destruct (pu_deleted p) eqn:Hd; [apply step_ok_none|].
  assert (Hplain : step_ok x (Some (set_xrows (remove_key u (x_rows x))
                     (set_xst (set_gone (u :: st_gone (x_st x)) (evict_user (x_st x) u true)) x)), [(CDel, false)]) false).
  { destruct (remove_user_ok x u false) as [A B]. unfold step_ok. cbn [fst snd existsb orb]. split; [exact A|]. split; [|discriminate].
    intros _ Hj _. cbn [x_st set_xst set_xrows]. now apply B. }
  destruct (st_kind (x_st x)).
  - destruct (fails f 0); [apply step_ok_same|]. destruct (pu_ischan p) eqn:Hc; [|exact Hplain].
    unfold step_ok. cbn [fst snd existsb orb]. split; [|split; [|discriminate]].
    + intros Hinv. apply xinv_split in Hinv. destruct Hinv as [Hs Hco]. apply xinv_intro; cbn [x_st x_bkg set_xst].
      * apply (sinv_same _ (evict_user (x_st x) u true)); [reflexivity|reflexivity|now apply sinv_evict].
      * apply coh_set_xst; [|exact Hco]. intros u2. rewrite (live_modes_same (evict_user (x_st x) u true)) by reflexivity.
        rewrite live_modes_evict_true. destruct (N.eqb_spec u2 u) as [->|E]; [|reflexivity].
        unfold live_modes. rewrite Hp, Hc. now rewrite orb_true_r.
    + intros _ Hj _. cbn [x_st set_xst]. apply (joined_same (evict_user (x_st x) u true)); [reflexivity|reflexivity|now apply joined_evict].
  - destruct (fails f 0); [apply step_ok_same|]. destruct (pu_ischan p) eqn:Hc; [|exact Hplain].
    unfold step_ok. cbn [fst snd existsb orb]. split; [|split; [|discriminate]].
    + intros Hinv. apply xinv_split in Hinv. destruct Hinv as [Hs Hco]. apply xinv_intro; cbn [x_st x_bkg set_xst].
      * apply (sinv_same _ (evict_user (x_st x) u true)); [reflexivity|reflexivity|now apply sinv_evict].
      * apply coh_set_xst; [|exact Hco]. intros u2. rewrite (live_modes_same (evict_user (x_st x) u true)) by reflexivity.
        rewrite live_modes_evict_true. destruct (N.eqb_spec u2 u) as [->|E]; [|reflexivity].
        unfold live_modes. rewrite Hp, Hc. now rewrite orb_true_r.
    + intros _ Hj _. cbn [x_st set_xst]. apply (joined_same (evict_user (x_st x) u true)); [reflexivity|reflexivity|now apply joined_evict].
  - destruct (existsb _ _); [apply step_ok_none|]. destruct (fails f 0); [apply step_ok_same|exact Hplain].
Qed.

Lemma xevict_ok x f h u : step_ok x (xevict x f h u) false.
Proof.
  unfold xevict. destruct (negb _); [apply step_ok_same|]. destruct ((u =? 0) || (u =? h)); [apply step_ok_same|].
  destruct (st_kind (x_st x)); try apply step_ok_same;
    (destruct (lookup u (st_users (x_st x))) as [p|]; [|apply step_ok_same]; destruct (pu_ischan p); [apply step_ok_none|];
     destruct (has (eff p) bO); [apply step_ok_same|]; destruct (negb (has (pu_want p) bJ)); [apply step_ok_same|];
     destruct (fails f 0); [apply step_ok_same|];
     destruct (remove_user_ok x u false) as [A B]; unfold step_ok; cbn [fst snd existsb orb]; (split; [exact A|]); (split; [|discriminate]);
     intros _ Hj _; cbn [x_st set_xst set_xrows]; now apply B).
Qed.

(* ---- every request ---- *)
Lemma xstep_ok x o : step_ok x (xr_state (xstep x o), xr_calls (xstep x o)) (ban_bypass x o).
Proof.
  destruct o; cbn [xstep].
  - pose proof (xattach_ok x f s u chan mw) as H. destruct (xattach x f s u chan mw) as [r cl]. exact H.
  - exact (xdetach_ok x s u chan).
  - exact (xdisc_ok x s).
  - exact (xforeground_ok x s).
  - pose proof (xunsub_ok x f s u chan) as H. destruct (xunsub x f s u chan) as [r cl]. exact H.
  - pose proof (xset_want_ok x f u m) as H. destruct (xset_want x f u m) as [r cl]. exact H.
  - pose proof (xset_given_ok x f h u m) as H. destruct (xset_given x f h u m) as [r cl]. exact H.
  - pose proof (xevict_ok x f h u) as H. destruct (xevict x f h u) as [r cl]. exact H.
  - cbn [xr_state xr_calls ban_bypass]. destruct (is_full (x_st x) s); [apply step_ok_same|].
    unfold step_ok. cbn [fst snd existsb]. split; [|split; [|discriminate]].
    + intros Hinv. apply xinv_split in Hinv. destruct Hinv as [Hs Hc]. apply xinv_intro; cbn [x_st x_bkg set_xst].
      * apply (sinv_same _ (x_st x)); auto.
      * apply coh_set_xst; [reflexivity|exact Hc].
    + intros _ Hj _. exact Hj.
  - cbn [xr_state xr_calls ban_bypass]. unfold step_ok. cbn [fst snd existsb]. split; [|split; [|discriminate]].
    + intros Hinv. apply xinv_split in Hinv. destruct Hinv as [Hs Hc]. apply xinv_intro; cbn [x_st x_bkg set_xst].
      * apply (sinv_same _ (x_st x)); auto.
      * apply coh_set_xst; [reflexivity|exact Hc].
    + intros _ Hj _. exact Hj.
  - pose proof (xpublish_ok x px) as H. destruct (xpublish x px) as [r x'] eqn:E. exact H.
Qed.
