(* Sys/FanoutBkgC02.v, part 2 of the lemmas: every request keeps the invariants for every fault plan;
   a request whose store call failed changes nothing. *)
From Coq Require Import ZArith NArith List Bool Lia Permutation.
From Coq Require Import ZifyBool ZifyNat ZifyN.
From Tinode Require Import Sys.Fanout Sys.FanoutProofs Sys.FanoutBkgC02 Sys.FanoutBkgC02Proofs.
Import ListNotations.
Open Scope N_scope.

Definition sinv (bkg : list sid) (st : state) : Prop := wf_sess st /\ att_x st /\ online_chan st /\ bkg_ok bkg st.

Lemma xinv_split x : xinv x <-> sinv (x_bkg x) (x_st x) /\ coh x.
Proof. unfold xinv, sinv. tauto. Qed.

Lemma sinv_same bkg st st' : st_sess st' = st_sess st -> st_users st' = st_users st -> sinv bkg st -> sinv bkg st'.
Proof.
  intros Hs Hu [A [B [C D]]]. split; [unfold wf_sess; now rewrite Hs|]. split; [now apply (att_x_same st)|].
  split; [now apply (online_chan_same st)|now apply (bkg_ok_same bkg st)].
Qed.

Lemma sinv_evict bkg st u b : sinv bkg st -> sinv bkg (evict_user st u b).
Proof.
  intros [A [B [C D]]]. split; [now apply wf_evict_user|]. split; [now apply att_x_evict|].
  split; [now apply online_chan_evict|now apply bkg_ok_evict].
Qed.

Lemma sinv_modes bkg st u p w g : lookup u (st_users st) = Some p ->
  sinv bkg st -> sinv bkg (set_users (update u (set_pud_modes w g) (st_users st)) st).
Proof.
  intros Hp [A [B [C D]]]. split; [exact A|]. split; [now apply (att_x_modes st u p)|].
  split; [now apply (online_chan_modes st u p)|exact D].
Qed.

Lemma sinv_new bkg st u p : lookup u (st_users st) = None -> (0 <= pu_online p)%Z ->
  sinv bkg st -> sinv bkg (set_users (st_users st ++ [(u, p)]) st).
Proof.
  intros Hn Ho [A [B [C D]]]. split; [exact A|]. split; [exact (att_x_new st u p Hn B)|].
  split; [exact (online_chan_new st u p Hn B C Ho)|exact D].
Qed.

Lemma sinv_xadd bkg st b s u c p :
  has_key s (st_sess st) = false -> lookup u (st_users st) = Some p -> pu_deleted p = false -> pu_ischan p = c ->
  (c = true -> b = false) -> (mem s bkg = true -> c = false) ->
  sinv bkg st -> sinv bkg (xadd_session st b s u c).
Proof.
  intros Hk Hp Hd Hc Hb Hm [A [B [C D]]]. split; [now apply wf_xadd|]. split; [now apply (att_x_xadd st b s u c p)|].
  split; [now apply (online_chan_xadd st b s u c p)|exact (bkg_ok_xadd st b s u c p Hk Hc bkg D Hm)].
Qed.

Lemma has_lor_l a c b : has a b = true -> has (N.lor a c) b = true.
Proof.
  unfold has. rewrite !negb_true_iff, !N.eqb_neq. intros H E. apply H.
  rewrite N.land_lor_distr_l in E. apply N.lor_eq_0_iff in E. tauto.
Qed.

Lemma pud_modes_id p : set_pud_modes (pu_want p) (pu_given p) p = p.
Proof. destruct p; reflexivity. Qed.

(* the grant computed by thisUserSub never loses J *)
Lemma own_modes_given st u p mw want given :
  own_modes st u p mw = OwnModes want given -> has (pu_given p) bJ = true -> has given bJ = true.
Proof.
  unfold own_modes. destruct mw as [m|].
  - repeat break_match; intros H; inv H; auto using has_lor_l.
  - intros H. inv H. auto.
Qed.

Lemma own_modes_chan st u p want given :
  own_modes st u p None = OwnModes want given -> has (pu_want p) bJ = true -> want = pu_want p /\ given = pu_given p.
Proof. unfold own_modes. intros H Hj. rewrite Hj in H. inv H. auto. Qed.

(* ---- thisUserSub: store.Subs.Update, then the cache ---- *)
Lemma rows_update_lookup (rows : list (uid * (mode * mode))) u wg u2 old : lookup u rows = Some old ->
  lookup u2 (row_upd u wg rows) = if u2 =? u then Some wg else lookup u2 rows.
Proof.
  intros Ho. unfold row_upd. destruct (N.eqb_spec u2 u) as [->|E].
  - now rewrite (lookup_update_same _ _ _ _ Ho).
  - now apply lookup_update_other.
Qed.

Lemma own_apply_spec x f u p want given :
  lookup u (st_users (x_st x)) = Some p -> pu_deleted p = false ->
  (pu_ischan p = true -> want = pu_want p /\ given = pu_given p) -> xinv x ->
  match own_apply x f u p want given with
  | (None, cl) => existsb snd cl = true
  | (Some x1, cl) =>
    existsb snd cl = false /\ x_bkg x1 = x_bkg x /\ sinv (x_bkg x) (x_st x1) /\ coh x1 /\
    x_st x1 = set_users (update u (set_pud_modes want given) (st_users (x_st x))) (x_st x)
  end.
Proof.
  intros Hp Hd Hch Hinv. apply xinv_split in Hinv. destruct Hinv as [Hs Hc]. unfold own_apply.
  destruct ((want =? pu_want p) && (given =? pu_given p)) eqn:E.
  - apply andb_true_iff in E. destruct E as [E1 E2]. apply N.eqb_eq in E1, E2. subst want given.
    assert (Hid : set_users (update u (set_pud_modes (pu_want p) (pu_given p)) (st_users (x_st x))) (x_st x) = x_st x).
    { assert (Hu : update u (set_pud_modes (pu_want p) (pu_given p)) (st_users (x_st x)) = st_users (x_st x)).
      { clear -Hp. induction (st_users (x_st x)) as [|[k v] r IH]; cbn in *; [reflexivity|].
        destruct (u =? k) eqn:Ek; [inv Hp; now rewrite pud_modes_id|]. now rewrite IH. }
      rewrite Hu. destruct (x_st x); reflexivity. }
    split; [reflexivity|]. split; [reflexivity|]. split; [exact Hs|]. split; [exact Hc|]. now rewrite Hid.
  - destruct (fails f 0); [reflexivity|]. cbn [existsb snd orb].
    assert (Hnc : pu_ischan p = false).
    { destruct (pu_ischan p) eqn:Ec; [|reflexivity]. destruct (Hch eq_refl) as [-> ->]. rewrite !N.eqb_refl in E. discriminate. }
    split; [reflexivity|]. split; [reflexivity|]. cbn [x_st set_xst set_xrows x_bkg x_rows].
    split; [now apply (sinv_modes _ _ u p)|]. split; [|reflexivity].
    intros u2. cbn [x_st set_xst set_xrows x_rows]. rewrite (live_modes_modes (x_st x) u p want given Hp u2 Hd Hnc).
    assert (Hold : lookup u (x_rows x) = Some (pu_want p, pu_given p)).
    { rewrite (Hc u). unfold live_modes. now rewrite Hp, Hd, Hnc. }
    rewrite (rows_update_lookup _ _ _ _ _ Hold). destruct (u2 =? u); [reflexivity|apply Hc].
Qed.

(* ------------------------------------------------------------------ *)
(* what every request has to satisfy: it keeps [xinv]; it keeps [joined] unless it is the recorded
   ban bypass; if one of its store calls failed nothing changed *)
Definition step_ok (x : xstate) (rc : option xstate * calls) (byp : bool) : Prop :=
  match fst rc with
  | None => True
  | Some x' => (xinv x -> xinv x') /\ (xinv x -> joined (x_st x) -> byp = false -> joined (x_st x')) /\
               (existsb snd (snd rc) = true -> x' = x)
  end.

Lemma step_ok_same x cl b : step_ok x (Some x, cl) b.
Proof. cbn. auto. Qed.
Lemma step_ok_none x cl b : step_ok x (None, cl) b.
Proof. exact I. Qed.

Lemma own_apply_calls x f u p w g :
  match own_apply x f u p w g with (None, _) => True | (Some _, cl) => existsb snd cl = false end.
Proof. unfold own_apply. destruct ((w =? pu_want p) && (g =? pu_given p)); [reflexivity|]. destruct (fails f 0); reflexivity. Qed.

Lemma coh_set_xst x st' : (forall u, live_modes st' u = live_modes (x_st x) u) -> coh x -> coh (set_xst st' x).
Proof. intros H Hc u. cbn [x_rows x_st set_xst]. rewrite H. apply Hc. Qed.

Lemma xinv_intro x : sinv (x_bkg x) (x_st x) -> coh x -> xinv x.
Proof. intros. apply xinv_split. now split. Qed.

Lemma xattach_existing_ok x f s u c mw p :
  has_key s (st_sess (x_st x)) = false -> is_bkg x s && c = false ->
  lookup u (st_users (x_st x)) = Some p -> pu_deleted p = false -> pu_ischan p = c ->
  (pu_ischan p = true -> mw = None /\ has (pu_want p) bJ = true) ->
  step_ok x (xattach_existing x f s u c mw p)
    (match own_modes (x_st x) u p mw with
     | OwnModes want given => negb (has want bJ) && (want =? pu_want p) && (given =? pu_given p)
     | _ => false end).
Proof.
  intros Hk Hbc Hp Hd Hc Hch. unfold xattach_existing.
  destruct (own_modes (x_st x) u p mw) as [| |want given] eqn:Eo; [apply step_ok_same|apply step_ok_none|].
  pose proof (own_apply_calls x f u p want given) as Hcalls.
  assert (Hch' : pu_ischan p = true -> want = pu_want p /\ given = pu_given p).
  { intros E. destruct (Hch E) as [-> Hj]. exact (own_modes_chan _ _ _ _ _ Eo Hj). }
  pose proof (own_apply_spec x f u p want given Hp Hd Hch') as Hspec.
  destruct (own_apply x f u p want given) as [[x1|] cl] eqn:Ea; [|apply step_ok_same].
  set (st1 := set_users (update u (set_pud_modes want given) (st_users (x_st x))) (x_st x)) in *.
  assert (Hl1 : lookup u (st_users st1) = Some (set_pud_modes want given p)) by (apply modes_lookup_same; exact Hp).
  assert (Hmem : mem s (x_bkg x) = true -> c = false).
  { intros Hm. unfold is_bkg in Hbc. rewrite Hm in Hbc. destruct c; [discriminate|reflexivity]. }
  assert (Hcb : c = true -> is_bkg x s = false).
  { intros ->. destruct (is_bkg x s); [discriminate|reflexivity]. }
  (* [joined] of the state with the new modes, whenever the user keeps J in both or has no session *)
  assert (Hj1 : joined (x_st x) -> (pu_ischan p = false -> has want bJ = true) -> joined st1).
  { intros Hj Hw. apply (joined_modes (x_st x) u p want given Hp Hj). intros Hnc Hcnt. split; [auto|].
    destruct (cnt_pos_in _ _ Hcnt) as [s' [d' [Hin Hu]]]. rewrite <- Hu in Hp.
    destruct (Hj s' d' p Hin Hp Hnc) as [_ Hg]. exact (own_modes_given _ _ _ _ _ _ Eo Hg). }
  destruct (negb (has want bJ)) eqn:Ew.
  - apply negb_true_iff in Ew.
    assert (Hnc : pu_ischan p = false).
    { destruct (pu_ischan p) eqn:E; [|reflexivity]. destruct (Hch eq_refl) as [_ Hj]. destruct (Hch' eq_refl) as [-> _]. congruence. }
    destruct ((want =? pu_want p) && (given =? pu_given p)) eqn:Eu; unfold step_ok; cbn [fst snd].
    + (* the ban bypass *)
      apply andb_true_iff in Eu. destruct Eu as [Eu1 Eu2].
      split; [|split; [intros _ _ H; rewrite Eu1, Eu2 in H; discriminate|intros H; rewrite Hcalls in H; discriminate]].
      intros Hinv. destruct (Hspec Hinv) as [_ [Hb [Hs1 [Hc1 Hst1]]]]. rewrite Hst1. fold st1.
      rewrite Hst1 in Hs1. fold st1 in Hs1.
      assert (Hle : lookup u (st_users (evict_user st1 u false)) = Some (set_pud_online 0%Z (set_pud_modes want given p))).
      { unfold evict_user. cbn [st_users set_sess set_users]. rewrite Hl1. cbn [pu_ischan set_pud_modes]. rewrite Hnc.
        now rewrite (lookup_update_same _ _ _ _ Hl1). }
      apply xinv_intro; cbn [x_st x_bkg set_xst]; try rewrite Hb.
      * apply (sinv_xadd _ _ _ _ _ _ _ (has_key_evict st1 u false s Hk) Hle); cbn; auto; try congruence. now apply sinv_evict.
      * apply coh_set_xst; [|exact Hc1]. intros u2. rewrite Hst1. fold st1.
        rewrite (live_modes_xadd _ _ _ _ _ _ Hle). apply live_modes_evict_false.
    + split; [|split; [|intros H; rewrite Hcalls in H; discriminate]].
      * intros Hinv. destruct (Hspec Hinv) as [_ [Hb [Hs1 [Hc1 Hst1]]]].
        apply xinv_intro; cbn [x_st x_bkg set_xst]; try rewrite Hb; [now apply sinv_evict|].
        apply coh_set_xst; [|exact Hc1]. intros u2. apply live_modes_evict_false.
      * intros Hinv Hj _. destruct (Hspec Hinv) as [_ [_ [_ [_ Hst1]]]]. cbn [x_st set_xst]. rewrite Hst1.
        now apply joined_modes_evict.
  - apply negb_false_iff in Ew. destruct (negb (has given bJ)) eqn:Eg; unfold step_ok; cbn [fst snd].
    + split; [|split; [|intros H; rewrite Hcalls in H; discriminate]].
      * intros Hinv. destruct (Hspec Hinv) as [_ [Hb [Hs1 [Hc1 Hst1]]]]. apply xinv_intro; [now rewrite Hb|exact Hc1].
      * intros Hinv Hj _. destruct (Hspec Hinv) as [_ [_ [_ [_ Hst1]]]]. rewrite Hst1. apply Hj1; auto.
    + apply negb_false_iff in Eg.
      assert (Hl1d : pu_deleted (set_pud_modes want given p) = false) by exact Hd.
      assert (Hl1c : pu_ischan (set_pud_modes want given p) = c) by exact Hc.
      split; [|split; [|intros H; rewrite Hcalls in H; discriminate]].
      * intros Hinv. destruct (Hspec Hinv) as [_ [Hb [Hs1 [Hc1 Hst1]]]].
        apply xinv_intro; cbn [x_st x_bkg set_xst]; try rewrite Hb; rewrite ?Hst1; fold st1.
        -- apply (sinv_xadd (x_bkg x) st1 (is_bkg x s) s u c _ Hk Hl1 Hl1d Hl1c); [exact Hcb|exact Hmem|now rewrite <- Hst1].
        -- apply coh_set_xst; [|exact Hc1]. intros u2. rewrite Hst1. fold st1. apply (live_modes_xadd _ _ _ _ _ _ Hl1).
      * intros Hinv Hj _. destruct (Hspec Hinv) as [_ [_ [_ [_ Hst1]]]]. cbn [x_st set_xst]. rewrite Hst1. fold st1.
        apply (joined_xadd st1 (is_bkg x s) s u c _ Hk Hl1 Hl1d Hl1c); [apply Hj1; auto|]. intros _. cbn. auto.
Qed.

(* ---- new subscriber ---- *)
Lemma rows_set_lookup (rows : list (uid * (mode * mode))) u wg u2 : lookup u rows = None ->
  lookup u2 (row_set u wg rows) = if u2 =? u then Some wg else lookup u2 rows.
Proof.
  intros Hn. unfold row_set, has_key. rewrite Hn, lookup_app. destruct (N.eqb_spec u2 u) as [->|E].
  - rewrite Hn. cbn. now rewrite N.eqb_refl.
  - destruct (lookup u2 rows); [reflexivity|]. cbn. destruct (u2 =? u) eqn:E2; [apply N.eqb_eq in E2; congruence|reflexivity].
Qed.

Lemma xattach_new_sub_ok x f s u mw :
  has_key s (st_sess (x_st x)) = false -> lookup u (st_users (x_st x)) = None ->
  step_ok x (xattach_new_sub x f s u mw) false.
Proof.
  intros Hk Hn. unfold xattach_new_sub. destruct (fails f 0); [apply step_ok_same|].
  destruct (negb (has (st_defacs (x_st x)) bJ)) eqn:Eg; [apply step_ok_same|]. apply negb_false_iff in Eg.
  destruct (fails f 1); [apply step_ok_same|].
  set (want := match mw with Some m => N.ldiff m bO | None => st_defacs (x_st x) end).
  set (given := st_defacs (x_st x)) in *.
  set (np := mkPud want given false false 0 0%Z).
  set (st1 := set_users (st_users (x_st x) ++ [(u, np)]) (x_st x)).
  assert (Hl1 : lookup u (st_users st1) = Some np) by (apply new_lookup_same; exact Hn).
  assert (Hs1 : sinv (x_bkg x) (x_st x) -> sinv (x_bkg x) st1) by (apply sinv_new; [exact Hn|cbn; lia]).
  assert (Hlive : forall u2, live_modes st1 u2 = if u2 =? u then Some (want, given) else live_modes (x_st x) u2).
  { intros u2. unfold st1. rewrite (live_modes_new (x_st x) u np Hn). reflexivity. }
  assert (Hrows : coh x -> forall u2, lookup u2 (row_set u (want, given) (x_rows x)) = live_modes st1 u2).
  { intros Hc u2. rewrite Hlive. assert (Hnr : lookup u (x_rows x) = None) by (rewrite (Hc u); unfold live_modes; now rewrite Hn).
    rewrite (rows_set_lookup _ _ _ _ Hnr). destruct (u2 =? u); [reflexivity|apply Hc]. }
  destruct (negb (has want bJ)) eqn:Ew; unfold step_ok; cbn [fst snd existsb orb].
  - split; [|split; [|discriminate]].
    + intros Hinv. apply xinv_split in Hinv. destruct Hinv as [Hs Hc]. apply xinv_intro; cbn [x_st x_bkg x_rows set_xst set_xrows].
      * apply sinv_evict. auto.
      * intros u2. cbn [x_st x_rows set_xst set_xrows]. rewrite live_modes_evict_false. now apply Hrows.
    + intros Hinv Hj _. apply xinv_split in Hinv. destruct Hinv as [[_ [Ha _]] _]. cbn [x_st set_xst set_xrows].
      apply joined_evict. exact (joined_new (x_st x) u np Hn Ha Hj).
  - apply negb_false_iff in Ew. split; [|split; [|discriminate]].
    + intros Hinv. apply xinv_split in Hinv. destruct Hinv as [Hs Hc]. apply xinv_intro; cbn [x_st x_bkg x_rows set_xst set_xrows].
      * apply (sinv_xadd (x_bkg x) st1 (is_bkg x s) s u false np Hk Hl1); cbn; auto. discriminate.
      * intros u2. cbn [x_st x_rows set_xst set_xrows]. rewrite (live_modes_xadd st1 _ _ _ _ np Hl1). now apply Hrows.
    + intros Hinv Hj _. apply xinv_split in Hinv. destruct Hinv as [[_ [Ha _]] _]. cbn [x_st set_xst set_xrows].
      apply (joined_xadd st1 (is_bkg x s) s u false np Hk Hl1); cbn; auto. exact (joined_new (x_st x) u np Hn Ha Hj).
Qed.

(* ---- first connection of a channel reader ---- *)
Lemma chan_join_ok x s u want (st0 : state) :
  let cp := mkPud want mode_chnreader false true 0 0%Z in
  has_key s (st_sess (x_st x)) = false -> lookup u (st_users (x_st x)) = None -> is_bkg x s = false ->
  st_sess st0 = st_sess (x_st x) -> st_users st0 = st_users (x_st x) ++ [(u, cp)] ->
  let st' := if has want bJ then xadd_session st0 false s u true else evict_user st0 u false in
  (xinv x -> xinv (set_xst st' x)) /\ (xinv x -> joined (x_st x) -> joined st').
Proof.
  intros cp Hk Hn Hb Hs0 Hu0 st'.
  set (stn := set_users (st_users (x_st x) ++ [(u, cp)]) (x_st x)).
  assert (Hl0 : lookup u (st_users st0) = Some cp) by (rewrite Hu0; exact (new_lookup_same (x_st x) u cp Hn)).
  assert (Hk0 : has_key s (st_sess st0) = false) by now rewrite Hs0.
  assert (Hsn : sinv (x_bkg x) (x_st x) -> sinv (x_bkg x) st0).
  { intros H. apply (sinv_same _ stn); [exact Hs0|exact Hu0|]. apply sinv_new; [exact Hn|cbn; lia|exact H]. }
  assert (Hjn : att_x (x_st x) -> joined (x_st x) -> joined st0).
  { intros Ha H. apply (joined_same stn); [exact Hs0|exact Hu0|]. exact (joined_new (x_st x) u cp Hn Ha H). }
  assert (Hlive : forall u2, live_modes st0 u2 = live_modes (x_st x) u2).
  { intros u2. rewrite (live_modes_same stn st0 Hu0). unfold stn. rewrite (live_modes_new (x_st x) u cp Hn). cbn.
    destruct (N.eqb_spec u2 u) as [->|E]; [|reflexivity]. unfold live_modes. now rewrite Hn. }
  split.
  - intros Hinv. apply xinv_split in Hinv. destruct Hinv as [Hs Hc]. apply xinv_intro; cbn [x_st x_bkg set_xst].
    + unfold st'. destruct (has want bJ).
      * apply (sinv_xadd (x_bkg x) st0 false s u true cp Hk0 Hl0); cbn; auto. unfold is_bkg in Hb. congruence.
      * apply sinv_evict. auto.
    + apply coh_set_xst; [|exact Hc]. intros u2. unfold st'. destruct (has want bJ).
      * rewrite (live_modes_xadd st0 _ _ _ _ cp Hl0). apply Hlive.
      * rewrite live_modes_evict_false. apply Hlive.
  - intros Hinv Hj. apply xinv_split in Hinv. destruct Hinv as [[_ [Ha _]] _]. unfold st'. destruct (has want bJ).
    + apply (joined_xadd st0 false s u true cp Hk0 Hl0); cbn; auto. discriminate.
    + apply joined_evict. auto.
Qed.

Lemma xattach_new_chan_ok x f s u mw :
  has_key s (st_sess (x_st x)) = false -> lookup u (st_users (x_st x)) = None -> is_bkg x s = false ->
  step_ok x (xattach_new_chan x f s u mw) false.
Proof.
  intros Hk Hn Hb. unfold xattach_new_chan. destruct (fails f 0); [apply step_ok_same|].
  set (oldwant := match lookup u (st_chanrows (x_st x)) with Some w => w | None => mode_chnreader end).
  set (want := match mw with Some m => N.lor (N.lor (N.land m mode_chnreader) bR) bJ | None => oldwant end).
  destruct (if has_key u (st_chanrows (x_st x)) then if want =? oldwant then [] else [CUpd] else [CShare]) as [|c0 r].
  - unfold step_ok. cbn [fst snd existsb orb].
    destruct (chan_join_ok x s u want
                (set_users (st_users (x_st x) ++ [(u, mkPud want mode_chnreader false true 0 0%Z)]) (x_st x))
                Hk Hn Hb eq_refl eq_refl) as [A B].
    split; [exact A|]. split; [|discriminate]. intros Hinv Hj _. cbn [x_st set_xst]. now apply B.
  - destruct (fails f 1); [apply step_ok_same|]. unfold step_ok. cbn [fst snd existsb orb app].
    destruct (chan_join_ok x s u want
                (set_chanrows (if has_key u (st_chanrows (x_st x)) then update u (fun _ => want) (st_chanrows (x_st x))
                               else st_chanrows (x_st x) ++ [(u, want)])
                   (set_users (st_users (x_st x) ++ [(u, mkPud want mode_chnreader false true 0 0%Z)]) (x_st x)))
                Hk Hn Hb eq_refl eq_refl) as [A B].
    split; [exact A|]. split; [|discriminate]. intros Hinv Hj _. cbn [x_st set_xst]. now apply B.
Qed.

(* ---- {sub} ---- *)
Lemma xattach_ok x f s u c mw :
  step_ok x (xattach x f s u c mw) (ban_bypass x (XAttach f s u c mw)).
Proof.
  unfold xattach. destruct (has_key s (st_sess (x_st x))) eqn:Hk; [apply step_ok_same|].
  destruct (negb (chan_ok (x_st x) c)); [apply step_ok_same|].
  destruct (is_bkg x s && c) eqn:Hbc; [apply step_ok_none|].
  cbn [ban_bypass]. destruct (lookup u (st_users (x_st x))) as [p|] eqn:Hp.
  - destruct (pu_deleted p) eqn:Hd; [apply step_ok_none|].
    destruct (negb (pu_ischan p) && c) eqn:G1; [apply step_ok_same|].
    destruct (pu_ischan p && negb c) eqn:G2; [apply step_ok_none|].
    destruct (pu_ischan p && match mw with Some _ => true | None => negb (has (pu_want p) bJ) end) eqn:G3; [apply step_ok_none|].
    apply xattach_existing_ok; auto.
    + destruct (pu_ischan p), c; cbn in *; congruence.
    + intros E. rewrite E in G3. cbn in G3. destruct mw; [discriminate|]. apply negb_false_iff in G3. auto.
  - destruct (st_kind (x_st x)) eqn:Ek; try apply step_ok_same.
    + destruct c.
      * apply xattach_new_chan_ok; auto. now rewrite andb_true_r in Hbc.
      * destruct (mem u (st_gone (x_st x))); [apply step_ok_none|]. now apply xattach_new_sub_ok.
    + destruct c.
      * apply xattach_new_chan_ok; auto. now rewrite andb_true_r in Hbc.
      * destruct (mem u (st_gone (x_st x))); [apply step_ok_none|]. now apply xattach_new_sub_ok.
Qed.
