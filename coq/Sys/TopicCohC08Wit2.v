(* C08: witnesses for the reject law (a rejected request changed the store). *)
From Coq Require Import ZArith NArith List Bool Lia.
From Tinode Require Import Base.Util Pure.Acs Sys.Topic Sys.TopicTac Sys.TopicFrame Sys.TopicNum Sys.TopicNumThm Sys.TopicInst
  Sys.TopicCohC08 Sys.TopicCohC08Proofs Sys.TopicCohC08Step Sys.TopicCohC08Run Sys.TopicCohC08Wit Sys.TopicCohC08Reject.
Import ListNotations.
Open Scope Z_scope.

(* a reachable state and a request that is answered with an error although the store changed *)
Record rejected_but_changed (x : state) (f : fault) (o : op) : Prop := mkRbc {
  rb_inv : inv x; rb_num : inv_num x; rb_known : known wit_sm o;
  rb_err : err_reply (snd (step del_ranges_i norm_ranges_i wit_sm f x o)) (op_sid o);
  rb_bad : st (fst (step del_ranges_i norm_ranges_i wit_sm f x o)) <> st x }.

Ltac rbc_tac W code :=
  match goal with |- rejected_but_changed (fst (wit_run ?w2 ?g2 ?pre)) ?f ?o =>
    let P := fresh "P" in
    assert (inv (fst (wit_run w2 g2 pre)) /\ inv_num (fst (wit_run w2 g2 pre))) as P by (apply (wit_pre w2 g2 pre W); safe_tac);
    destruct P as [P1 P2]; split; [exact P1|exact P2|vm_compute; discriminate| |];
    [ exists code, []; split; [vm_compute; auto|lia]
    | intros E; vm_compute in E; discriminate ]
  end.

(* #4 a banned subscriber (given without J) re-subscribes: 403, but want = given|default is stored *)
Lemma rbc_banned :
  rejected_but_changed (fst (wit_run 46 46 [(NoFault, OSub 1 [] false)])) NoFault (OSub 2 [] false).
Proof. rbc_tac wit_wf_46_46 403. Qed.
Lemma rbc_banned_is_trigger :
  trig_banned wit_sm (fst (wit_run 46 46 [(NoFault, OSub 1 [] false)])) (OSub 2 [] false).
Proof. vm_compute. reflexivity. Qed.

(* #7 the 2nd store call of a publish fails: 500, stored seqid advanced *)
Lemma rbc_pub_fail2 :
  rejected_but_changed (fst (wit_run 47 47 [(NoFault, OSub 1 [] false)])) (FailAt 2) (OPub 1 7 false).
Proof. rbc_tac wit_wf_47_47 500. Qed.

(* #8 the 2nd store call of a delete fails: 500, deletion log rows stored, message hard-deleted *)
Lemma rbc_del_fail2 :
  rejected_but_changed (fst (wit_run 47 47 [(NoFault, OSub 1 [] false); (NoFault, OPub 1 7 false)])) (FailAt 2) (ODelMsg 1 [(1, 0)] true).
Proof. rbc_tac wit_wf_47_47 500. Qed.
