(* C08 (strengthening s08c): the hypotheses of the self-raise theorems are satisfiable -
   concrete states (vm_compute) in which an approver / a pending owner asks beyond his grant. *)
From Coq Require Import ZArith NArith List Bool Lia.
From Tinode Require Import Base.Util Pure.Acs Sys.Topic Sys.TopicTac Sys.TopicFrame Sys.TopicNum Sys.TopicNumThm Sys.TopicInst
  Sys.TopicCohC08 Sys.TopicCohC08Proofs Sys.TopicCohC08Step Sys.TopicCohC08Run Sys.TopicCohC08Wit
  Sys.PermBranchC08c Sys.PermBranchC08cProofs.
Import ListNotations.
Open Scope Z_scope.

Lemma wit_wf_31_31_c08c : wf_store (wit_store 31 31). Proof. wit_wf_tac. Qed.
Lemma wit_wf_47_191_c08c : wf_store (wit_store 47 191). Proof. wit_wf_tac. Qed.

Definition m_JRWPAS_c08c : list N := [74; 82; 87; 80; 65; 83]%N.
Definition m_FULL_c08c : list N := [74; 82; 87; 80; 65; 83; 68; 79]%N.

(* user 2 (JRWPA/JRWPA) attaches through session 2 and asks JRWPAS for himself: approver self-raise *)
Definition wit_admin_state_c08c : state := fst (wit_run 31 31 [(NoFault, OSub 2 [] false)]).
Lemma wit_admin_branch_c08c :
  perm_branch_c08c wit_sm wit_admin_state_c08c (OSetSub 2 0 m_JRWPAS_c08c) = PB_t_raise_admin.
Proof. vm_compute. reflexivity. Qed.
Lemma wit_admin_result_c08c :
  snd (step_i wit_sm NoFault wit_admin_state_c08c (OSetSub 2 0 m_JRWPAS_c08c)) = [(2%N, CtrlAcs 200 0 63 63)] /\
  option_map (fun r => (s_want r, s_given r))
    (find_sub 2 (subs (st (fst (step_i wit_sm NoFault wit_admin_state_c08c (OSetSub 2 0 m_JRWPAS_c08c)))))) = Some (63%N, 63%N).
Proof. vm_compute. split; reflexivity. Qed.

(* user 2 (JRWPS / JRWPAS+O, no D: a pending ownership offer) accepts with the full mode: acceptance that
   also raises his grant by D *)
Definition wit_owner_state_c08c : state := fst (wit_run 47 191 [(NoFault, OSub 2 [] false)]).
Lemma wit_owner_branch_c08c :
  perm_branch_c08c wit_sm wit_owner_state_c08c (OSetSub 2 0 m_FULL_c08c) = PB_t_accept_raise.
Proof. vm_compute. reflexivity. Qed.
