(* C18  Transaction skeleton IR of the SQL adapters' transactional functions.

   The translator harness/translators/txir renders every function of
   server/db/{mysql,postgres}/adapter.go that opens a transaction into a [prog]
   (coq/Gen/GenTx.v, regenerated on every run).  This file holds DEFINITIONS
   only:

   - the IR (error variables, conditions on them, statements, programs);
   - [exec]: a deterministic executable semantics against a decision oracle
     [nat -> nat] (the n-th consultation decides: outcome of a tx statement
     (ok / SQL fault / code-level error such as duplicate key or no rows),
     failure of Begin / Commit, value of a data-dependent condition, number of
     iterations of a loop, whether the tx context has a cancel function); it
     yields the driver-level event list and the returned error;
   - [wf_tx]: a decidable check = exhaustive exploration of the finite quotient
     of the semantics (error variables x monitor phase x fault/code flags x
     pending defers), all oracle decisions at once, loops closed by a checked
     fixpoint.  Its soundness w.r.t. [exec] is TxIRProofs.aexec_sound;
   - [explore]: enumeration of concrete decision sequences (loop counts <= 2)
     through [exec], used by the per-run obligations to produce replays.

   Go semantics rendered: named results ([return X] assigns the named result
   before the deferred calls run), [:=] shadowing (resolved by the translator:
   every declared error variable has its own index), [defer] (LIFO, closures
   read variables at the time they run), database/sql's "a finished Tx ignores
   Rollback" (no driver event), context cancel rolling an open database/sql
   transaction back (not pgx). *)
From Coq Require Import List Bool Arith String.
Import ListNotations.

Definition var := nat.

Inductive errval := VNil | VFault | VCode.

Inductive rexpr :=
| ENil                 (* nil *)
| EVar (v : var)
| ENew                 (* t.ErrXxx, errors.New(..): an error made by the code *)
| EOpaque.             (* an expression without tx objects: nil or a code error *)

Inductive cond :=
| CTrue
| CNonNil (v : var)            (* v != nil *)
| CIsCode (v : var)            (* v == sentinel, isDupe(v): never true of nil or of an SQL fault *)
| COpaque                      (* data-dependent condition *)
| CNot (c : cond)
| CAnd (c1 c2 : cond)
| COr (c1 c2 : cond).

Inductive stmt :=
| SSkip
| SSeq (s1 s2 : stmt)
| SBegin (v : var)                         (* tx, v = db.Begin..() *)
| SExec (b : option var)                   (* statement on tx / prepared stmt / row fetch; error bound to b or dropped *)
| SPure (b : option var)                   (* fallible call that does not touch the tx (rows.Scan, RowsAffected) *)
| SCommit (b : option var)                 (* tx.Commit() *)
| SRollback                                (* tx.Rollback() *)
| SCancel                                  (* cancel() of the transaction's context *)
| SSet (v : var) (e : rexpr)               (* v = e, var v error *)
| SCall (locals : list var) (nm : option var) (body : stmt) (b : option var)
                                           (* helper receiving tx, inlined; nm = its named error result *)
| SIf (c : cond) (s1 s2 : stmt)
| SLoop (body : stmt)                      (* 0..n iterations *)
| SBreak
| SContinue
| SReturn (e : rexpr)
| SDefer (d : nat)                         (* defer <d-th closure of the program> *)
| SUnknown (src : string).                 (* not recognised by the translator: rejected *)

Record prog := {
  p_name : string;
  p_named : option var;      (* named error result *)
  p_ctxrb : bool;            (* cancelling the tx context rolls an open tx back (database/sql BeginTx) *)
  p_sticky : bool;           (* PostgreSQL: after a failed statement the transaction is aborted: every later
                                statement fails and COMMIT is turned into ROLLBACK (pgx.ErrTxCommitRollback) *)
  p_defers : list stmt;
  p_body : stmt }.

(* ---------- driver-level events and the transaction monitor ---------- *)
Inductive event :=
| EvBegin | EvBeginFail
| EvExec (k : nat) | EvExecFail (k : nat) | EvExecCode (k : nat)
| EvCommit | EvCommitFail
| EvRollback
| EvCancel (rolled : bool)
| EvCodeErr        (* ghost: the code produced an error of its own *)
| EvMisuse.        (* ghost: statement/commit on a finished or nil tx, unknown construct *)

Inductive phase := P0 | POpen | PCommitted | PAborted | PBad.

Definition mon_step (ph : phase) (e : event) : phase :=
  match e, ph with
  | EvBegin, P0 => POpen
  | EvBeginFail, P0 => P0
  | EvExec _, POpen | EvExecFail _, POpen | EvExecCode _, POpen => POpen
  | EvCommit, POpen => PCommitted
  | EvCommitFail, POpen => PAborted
  | EvRollback, POpen => PAborted
  | EvCancel true, POpen => PAborted
  | EvCancel false, _ => ph
  | EvCodeErr, _ => ph
  | _, _ => PBad
  end.

(* traces are kept newest-first while running *)
Fixpoint mon (tr : list event) : phase :=
  match tr with [] => P0 | e :: l => mon_step (mon l) e end.

Definition is_fault (e : event) : bool :=
  match e with EvBeginFail | EvExecFail _ | EvCommitFail => true | _ => false end.
Definition is_code (e : event) : bool :=
  match e with EvExecCode _ | EvCodeErr => true | _ => false end.
Definition faulted (tr : list event) : bool := existsb is_fault tr.
Definition coded (tr : list event) : bool := existsb is_code tr.

(* ---------- environments ---------- *)
Fixpoint upd (v : nat) (x : errval) (env : list errval) : list errval :=
  match v, env with
  | 0, [] => [x]
  | 0, _ :: t => x :: t
  | S v', [] => VNil :: upd v' x []
  | S v', h :: t => h :: upd v' x t
  end.
Definition look (v : nat) (env : list errval) : errval := nth v env VNil.
Definition bind (b : option var) (x : errval) (env : list errval) :=
  match b with Some v => upd v x env | None => env end.
Definition clear (vs : list var) (env : list errval) := fold_left (fun e v => upd v VNil e) vs env.
Definition is_nil (x : errval) : bool := match x with VNil => true | _ => false end.
Definition is_codev (x : errval) : bool := match x with VCode => true | _ => false end.

Inductive sig := SgNormal | SgBreak | SgCont | SgRet (x : errval) | SgStuck.

(* ---------- concrete semantics ---------- *)
Record cstate := {
  c_env : list errval;
  c_tr : list event;             (* newest first *)
  c_k : nat;                     (* tx statements executed so far *)
  c_n : nat;                     (* oracle consultations so far *)
  c_log : list (nat * nat);      (* decisions taken (value, arity), newest first *)
  c_defers : list nat }.

Definition cinit : cstate := {| c_env := []; c_tr := []; c_k := 0; c_n := 0; c_log := []; c_defers := [] |}.

Definition emit (e : event) (st : cstate) : cstate :=
  {| c_env := c_env st; c_tr := e :: c_tr st; c_k := c_k st; c_n := c_n st; c_log := c_log st; c_defers := c_defers st |}.
Definition cset (f : list errval -> list errval) (st : cstate) : cstate :=
  {| c_env := f (c_env st); c_tr := c_tr st; c_k := c_k st; c_n := c_n st; c_log := c_log st; c_defers := c_defers st |}.
Definition cpush (d : nat) (st : cstate) : cstate :=
  {| c_env := c_env st; c_tr := c_tr st; c_k := c_k st; c_n := c_n st; c_log := c_log st; c_defers := d :: c_defers st |}.
Definition cnodefers (st : cstate) : cstate :=
  {| c_env := c_env st; c_tr := c_tr st; c_k := c_k st; c_n := c_n st; c_log := c_log st; c_defers := [] |}.
Definition ckinc (st : cstate) : cstate :=
  {| c_env := c_env st; c_tr := c_tr st; c_k := S (c_k st); c_n := c_n st; c_log := c_log st; c_defers := c_defers st |}.
(* consult the oracle: arity 0 = any natural number (loop count) *)
Definition ask (o : nat -> nat) (arity : nat) (st : cstate) : nat * cstate :=
  let d := o (c_n st) in
  (d, {| c_env := c_env st; c_tr := c_tr st; c_k := c_k st; c_n := S (c_n st);
         c_log := (d, arity) :: c_log st; c_defers := c_defers st |}).

Definition outcome_of (d : nat) : errval :=
  match d with 0 => VNil | 1 => VFault | _ => VCode end.
Definition bool_of (d : nat) : bool := match d with 0 => false | _ => true end.

Definition ev_exec (x : errval) (k : nat) : event :=
  match x with VNil => EvExec k | VFault => EvExecFail k | VCode => EvExecCode k end.

Definition code_ev (x : errval) (st : cstate) : cstate :=
  match x with VCode => emit EvCodeErr st | _ => st end.

Section Exec.
Variable ctxrb : bool.
Variable sticky : bool.
Variable o : nat -> nat.

Definition ceval (e : rexpr) (st : cstate) : errval * cstate :=
  match e with
  | ENil => (VNil, st)
  | EVar v => (look v (c_env st), st)
  | ENew => (VCode, emit EvCodeErr st)
  | EOpaque => let '(d, st1) := ask o 2 st in
               if bool_of d then (VCode, emit EvCodeErr st1) else (VNil, st1)
  end.

Fixpoint ccond (c : cond) (st : cstate) : bool * cstate :=
  match c with
  | CTrue => (true, st)
  | CNonNil v => (negb (is_nil (look v (c_env st))), st)
  | CIsCode v => if is_codev (look v (c_env st)) then let '(d, st1) := ask o 2 st in (bool_of d, st1)
                 else (false, st)
  | COpaque => let '(d, st1) := ask o 2 st in (bool_of d, st1)
  | CNot c1 => let '(b, st1) := ccond c1 st in (negb b, st1)
  | CAnd c1 c2 => let '(b, st1) := ccond c1 st in if b then ccond c2 st1 else (false, st1)
  | COr c1 c2 => let '(b, st1) := ccond c1 st in if b then (true, st1) else ccond c2 st1
  end.

Definition is_open (ph : phase) : bool := match ph with POpen => true | _ => false end.
Definition is_p0 (ph : phase) : bool := match ph with P0 => true | _ => false end.

Definition c_begin (v : var) (st : cstate) : cstate :=
  if is_p0 (mon (c_tr st)) then
    let '(d, st1) := ask o 2 st in
    if bool_of d then cset (upd v VFault) (emit EvBeginFail st1)
    else cset (upd v VNil) (emit EvBegin st1)
  else cset (upd v VCode) (emit EvMisuse st).

Definition c_exec (b : option var) (st : cstate) : cstate :=
  if is_open (mon (c_tr st)) then
    let '(d, st1) := ask o 3 st in
    let x := if sticky && faulted (c_tr st) then VFault else outcome_of d in
    ckinc (cset (bind b x) (emit (ev_exec x (c_k st1)) st1))
  else cset (bind b VCode) (emit EvMisuse st).

Definition c_pure (b : option var) (st : cstate) : cstate :=
  let '(d, st1) := ask o 2 st in
  if bool_of d then cset (bind b VCode) (emit EvCodeErr st1) else cset (bind b VNil) st1.

Definition c_commit (b : option var) (st : cstate) : cstate :=
  if is_open (mon (c_tr st)) then
    let '(d, st1) := ask o 2 st in
    if (sticky && faulted (c_tr st)) || bool_of d then cset (bind b VFault) (emit EvCommitFail st1)
    else cset (bind b VNil) (emit EvCommit st1)
  else cset (bind b VCode) (emit EvMisuse st).

Definition c_rollback (st : cstate) : cstate :=
  match mon (c_tr st) with
  | POpen => emit EvRollback st
  | P0 => emit EvMisuse st          (* tx is nil *)
  | _ => st                         (* sql.ErrTxDone, nothing reaches the driver *)
  end.

Definition c_cancel (st : cstate) : cstate :=
  let '(d, st1) := ask o 2 st in    (* is a timeout configured (cancel != nil) *)
  if bool_of d then emit (EvCancel (ctxrb && is_open (mon (c_tr st1)))) st1 else st1.

Fixpoint citer (f : cstate -> cstate * sig) (n : nat) (st : cstate) : cstate * sig :=
  match n with
  | 0 => (st, SgNormal)
  | S n' => match f st with
            | (st1, SgNormal) | (st1, SgCont) => citer f n' st1
            | (st1, SgBreak) => (st1, SgNormal)
            | r => r
            end
  end.

Fixpoint cexec (nm : option var) (s : stmt) (st : cstate) {struct s} : cstate * sig :=
  match s with
  | SSkip => (st, SgNormal)
  | SSeq s1 s2 => match cexec nm s1 st with
                  | (st1, SgNormal) => cexec nm s2 st1
                  | r => r
                  end
  | SBegin v => (c_begin v st, SgNormal)
  | SExec b => (c_exec b st, SgNormal)
  | SPure b => (c_pure b st, SgNormal)
  | SCommit b => (c_commit b st, SgNormal)
  | SRollback => (c_rollback st, SgNormal)
  | SCancel => (c_cancel st, SgNormal)
  | SSet v e => let '(x, st1) := ceval e st in (cset (upd v x) st1, SgNormal)
  | SCall locals nm' body b =>
      match cexec nm' body st with
      | (st1, SgRet x) => (cset (clear locals) (cset (bind b x) st1), SgNormal)
      | (st1, SgStuck) => (st1, SgStuck)
      | (st1, _) => (cset (clear locals) (cset (bind b VNil) st1), SgNormal)
      end
  | SIf c s1 s2 => let '(bv, st1) := ccond c st in if bv then cexec nm s1 st1 else cexec nm s2 st1
  | SLoop body => let '(n, st1) := ask o 0 st in citer (cexec nm body) n st1
  | SBreak => (st, SgBreak)
  | SContinue => (st, SgCont)
  | SReturn e => let '(x, st1) := ceval e st in (cset (bind nm x) st1, SgRet x)
  | SDefer d => (cpush d st, SgNormal)
  | SUnknown _ => (emit EvMisuse st, SgStuck)
  end.

Fixpoint crun_defers (defers : list stmt) (ds : list nat) (st : cstate) : cstate :=
  match ds with
  | [] => st
  | d :: ds' => crun_defers defers ds' (fst (cexec None (nth d defers SSkip) st))
  end.
End Exec.

Record outcome := { r_trace : list event; r_res : option errval; r_log : list (nat * nat); r_n : nat }.

(* result None = the body ended without a return statement (or got stuck) *)
Definition exec (p : prog) (o : nat -> nat) : outcome :=
  let '(st1, sg) := cexec (p_ctxrb p) (p_sticky p) o (p_named p) (p_body p) cinit in
  let st2 := crun_defers (p_ctxrb p) (p_sticky p) o (p_defers p) (c_defers st1) (cnodefers st1) in
  let res := match sg with
             | SgRet x => Some (match p_named p with Some v => look v (c_env st2) | None => x end)
             | _ => None
             end in
  {| r_trace := rev (c_tr st2); r_res := res; r_log := rev (c_log st2); r_n := c_n st2 |}.

(* ---------- the property on one run ---------- *)
Definition final_ok (ph : phase) (flt cod : bool) (res : errval) : bool :=
  match ph with
  | P0 => implb (is_nil res) (negb flt)                  (* no transaction was started; a failed Begin is reported *)
  | PCommitted => is_nil res && negb flt           (* committed: nothing failed, nil returned *)
  | PAborted => negb (is_nil res)                  (* rolled back: the error is reported *)
  | POpen | PBad => false                          (* left open / misuse *)
  end
  && (flt || cod || match ph with PCommitted | P0 => true | _ => false end).
                                                   (* nothing went wrong -> committed *)
Definition atomic_run (r : outcome) : bool :=
  match r_res r with
  | Some x => let tr := rev (r_trace r) in final_ok (mon tr) (faulted tr) (coded tr) x
  | None => false
  end.

(* ---------- abstract (collecting) semantics over the finite quotient ---------- *)
Record apoint := { a_env : list errval; a_ph : phase; a_flt : bool; a_cod : bool; a_defers : list nat }.

Definition abs (st : cstate) : apoint :=
  {| a_env := c_env st; a_ph := mon (c_tr st); a_flt := faulted (c_tr st); a_cod := coded (c_tr st);
     a_defers := c_defers st |}.

Definition aemit (e : event) (pt : apoint) : apoint :=
  {| a_env := a_env pt; a_ph := mon_step (a_ph pt) e; a_flt := is_fault e || a_flt pt;
     a_cod := is_code e || a_cod pt; a_defers := a_defers pt |}.
Definition aset (f : list errval -> list errval) (pt : apoint) : apoint :=
  {| a_env := f (a_env pt); a_ph := a_ph pt; a_flt := a_flt pt; a_cod := a_cod pt; a_defers := a_defers pt |}.
Definition apush (d : nat) (pt : apoint) : apoint :=
  {| a_env := a_env pt; a_ph := a_ph pt; a_flt := a_flt pt; a_cod := a_cod pt; a_defers := d :: a_defers pt |}.
Definition anodefers (pt : apoint) : apoint :=
  {| a_env := a_env pt; a_ph := a_ph pt; a_flt := a_flt pt; a_cod := a_cod pt; a_defers := [] |}.

Definition errval_eq_dec (x y : errval) : {x = y} + {x <> y}.
Proof. decide equality. Defined.
Definition phase_eq_dec (x y : phase) : {x = y} + {x <> y}.
Proof. decide equality. Defined.
Definition sig_eq_dec (x y : sig) : {x = y} + {x <> y}.
Proof. decide equality. apply errval_eq_dec. Defined.
Definition apoint_eq_dec (x y : apoint) : {x = y} + {x <> y}.
Proof.
  decide equality.
  - apply (list_eq_dec Nat.eq_dec).
  - apply bool_dec.
  - apply bool_dec.
  - apply phase_eq_dec.
  - apply (list_eq_dec errval_eq_dec).
Defined.
Definition res_eq_dec (x y : apoint * sig) : {x = y} + {x <> y}.
Proof. decide equality. apply sig_eq_dec. apply apoint_eq_dec. Defined.

Definition dedup (l : list (apoint * sig)) := nodup res_eq_dec l.
Definition memp (x : apoint) (l : list apoint) : bool := if in_dec apoint_eq_dec x l then true else false.

Section AExec.
Variable ctxrb : bool.
Variable sticky : bool.
Variable fuel : nat.

Definition aeval (e : rexpr) (pt : apoint) : list (errval * apoint) :=
  match e with
  | ENil => [(VNil, pt)]
  | EVar v => [(look v (a_env pt), pt)]
  | ENew => [(VCode, aemit EvCodeErr pt)]
  | EOpaque => [(VNil, pt); (VCode, aemit EvCodeErr pt)]
  end.

(* conditions do not change the abstract point *)
Fixpoint acond (c : cond) (pt : apoint) : list bool :=
  match c with
  | CTrue => [true]
  | CNonNil v => [negb (is_nil (look v (a_env pt)))]
  | CIsCode v => if is_codev (look v (a_env pt)) then [false; true] else [false]
  | COpaque => [false; true]
  | CNot c1 => map negb (acond c1 pt)
  | CAnd c1 c2 => flat_map (fun b : bool => if b then acond c2 pt else [false]) (acond c1 pt)
  | COr c1 c2 => flat_map (fun b : bool => if b then [true] else acond c2 pt) (acond c1 pt)
  end.

Definition a_begin (v : var) (pt : apoint) : list apoint :=
  if is_p0 (a_ph pt) then [aset (upd v VNil) (aemit EvBegin pt); aset (upd v VFault) (aemit EvBeginFail pt)]
  else [aset (upd v VCode) (aemit EvMisuse pt)].
(* the statement index carried by Exec events is irrelevant to the monitor *)
Definition a_exec (b : option var) (pt : apoint) : list apoint :=
  if is_open (a_ph pt) then
    map (fun x => aset (bind b x) (aemit (ev_exec x 0) pt))
        (if sticky && a_flt pt then [VFault] else [VNil; VFault; VCode])
  else [aset (bind b VCode) (aemit EvMisuse pt)].
Definition a_pure (b : option var) (pt : apoint) : list apoint :=
  [aset (bind b VNil) pt; aset (bind b VCode) (aemit EvCodeErr pt)].
Definition a_commit (b : option var) (pt : apoint) : list apoint :=
  if is_open (a_ph pt) then
    (if sticky && a_flt pt then [] else [aset (bind b VNil) (aemit EvCommit pt)])
    ++ [aset (bind b VFault) (aemit EvCommitFail pt)]
  else [aset (bind b VCode) (aemit EvMisuse pt)].
Definition a_rollback (pt : apoint) : apoint :=
  match a_ph pt with POpen => aemit EvRollback pt | P0 => aemit EvMisuse pt | _ => pt end.
Definition a_cancel (pt : apoint) : list apoint :=
  [pt; aemit (EvCancel (ctxrb && is_open (a_ph pt))) pt].

Definition normals (l : list (apoint * sig)) : list apoint :=
  flat_map (fun r => match snd r with SgNormal | SgCont => [fst r] | _ => [] end) l.
Definition exits (l : list (apoint * sig)) : list (apoint * sig) :=
  flat_map (fun r => match snd r with
                     | SgBreak => [(fst r, SgNormal)]
                     | SgRet x => [(fst r, SgRet x)]
                     | SgStuck => [(fst r, SgStuck)]
                     | _ => [] end) l.

(* heads: set of points at the loop head, closed under one iteration *)
Fixpoint agrow (f : apoint -> list (apoint * sig)) (n : nat) (heads frontier : list apoint) : list apoint :=
  match n with
  | 0 => heads
  | S n' =>
      let new := nodup apoint_eq_dec (filter (fun x => negb (memp x heads)) (flat_map (fun h => normals (f h)) frontier)) in
      match new with
      | [] => heads
      | _ => agrow f n' (heads ++ new) new
      end
  end.
Definition closedb (f : apoint -> list (apoint * sig)) (heads : list apoint) : bool :=
  forallb (fun h => forallb (fun x => memp x heads) (normals (f h))) heads.

Definition aloop (f : apoint -> list (apoint * sig)) (pt : apoint) : list (apoint * sig) :=
  let heads := agrow f fuel [pt] [pt] in
  if closedb f heads then
    map (fun h => (h, SgNormal)) heads ++ flat_map (fun h => exits (f h)) heads
  else [(pt, SgStuck)].

Fixpoint aexec (nm : option var) (s : stmt) (pt : apoint) {struct s} : list (apoint * sig) :=
  match s with
  | SSkip => [(pt, SgNormal)]
  | SSeq s1 s2 =>
      dedup (flat_map (fun r => match snd r with SgNormal => aexec nm s2 (fst r) | _ => [r] end) (aexec nm s1 pt))
  | SBegin v => map (fun q => (q, SgNormal)) (a_begin v pt)
  | SExec b => map (fun q => (q, SgNormal)) (a_exec b pt)
  | SPure b => map (fun q => (q, SgNormal)) (a_pure b pt)
  | SCommit b => map (fun q => (q, SgNormal)) (a_commit b pt)
  | SRollback => [(a_rollback pt, SgNormal)]
  | SCancel => map (fun q => (q, SgNormal)) (a_cancel pt)
  | SSet v e => map (fun r => (aset (upd v (fst r)) (snd r), SgNormal)) (aeval e pt)
  | SCall locals nm' body b =>
      dedup (map (fun r => match snd r with
                           | SgRet x => (aset (clear locals) (aset (bind b x) (fst r)), SgNormal)
                           | SgStuck => (fst r, SgStuck)
                           | _ => (aset (clear locals) (aset (bind b VNil) (fst r)), SgNormal)
                           end) (aexec nm' body pt))
  | SIf c s1 s2 =>
      dedup (flat_map (fun bv : bool => if bv then aexec nm s1 pt else aexec nm s2 pt) (acond c pt))
  | SLoop body => dedup (aloop (aexec nm body) pt)
  | SBreak => [(pt, SgBreak)]
  | SContinue => [(pt, SgCont)]
  | SReturn e => map (fun r => (aset (bind nm (fst r)) (snd r), SgRet (fst r))) (aeval e pt)
  | SDefer d => [(apush d pt, SgNormal)]
  | SUnknown _ => [(aemit EvMisuse pt, SgStuck)]
  end.

(* deferred closures, LIFO; None when a closure gets stuck *)
Definition is_stuck (r : apoint * sig) : bool := match snd r with SgStuck => true | _ => false end.
Definition astep_defer (s : stmt) (pts : list apoint) : option (list apoint) :=
  let rs := flat_map (aexec None s) pts in
  if existsb is_stuck rs then None else Some (nodup apoint_eq_dec (map fst rs)).
Fixpoint arun_defers (defers : list stmt) (ds : list nat) (pts : list apoint) : option (list apoint) :=
  match ds with
  | [] => Some pts
  | d :: ds' => match astep_defer (nth d defers SSkip) pts with
                | Some pts' => arun_defers defers ds' pts'
                | None => None
                end
  end.
End AExec.

Definition ainit : apoint := {| a_env := []; a_ph := P0; a_flt := false; a_cod := false; a_defers := [] |}.

Definition afinal_ok (named : option var) (x : errval) (pt : apoint) : bool :=
  final_ok (a_ph pt) (a_flt pt) (a_cod pt) (match named with Some v => look v (a_env pt) | None => x end).

Definition check_result (p : prog) (fuel : nat) (r : apoint * sig) : bool :=
  match snd r with
  | SgRet x => match arun_defers (p_ctxrb p) (p_sticky p) fuel (p_defers p) (a_defers (fst r)) [anodefers (fst r)] with
               | Some pts => forallb (afinal_ok (p_named p) x) pts
               | None => false
               end
  | SgNormal | SgBreak | SgCont | SgStuck => false
  end.

Definition loop_fuel : nat := 200.

(* THE decidable discipline: every reachable way of leaving the function,
   for every combination of oracle decisions, ends in a state that satisfies
   [final_ok] after the deferred calls have run. *)
Definition wf_tx (p : prog) : bool :=
  forallb (check_result p loop_fuel) (aexec (p_ctxrb p) (p_sticky p) loop_fuel (p_named p) (p_body p) ainit).

(* ---------- syntactic hygiene (fail closed even on unreachable code) ---------- *)
Fixpoint no_unknown (s : stmt) : bool :=
  match s with
  | SUnknown _ => false
  | SSeq a b | SIf _ a b => no_unknown a && no_unknown b
  | SCall _ _ a _ | SLoop a => no_unknown a
  | _ => true
  end.
Fixpoint unknowns (s : stmt) : list string :=
  match s with
  | SUnknown t => [t]
  | SSeq a b | SIf _ a b => unknowns a ++ unknowns b
  | SCall _ _ a _ | SLoop a => unknowns a
  | _ => []
  end.
Definition prog_known (p : prog) : bool := no_unknown (p_body p) && forallb no_unknown (p_defers p).
Definition wf_prog (p : prog) : bool := prog_known p && wf_tx p.

(* ---------- enumeration of concrete decision sequences ---------- *)
(* oracle from a finite decision list, 0 (ok / false / no iteration) beyond it *)
Definition oracle_of (ds : list nat) : nat -> nat := fun n => nth n ds 0.

Definition alts (arity : nat) : list nat :=
  match arity with
  | 0 => [1; 2]        (* loop counts 1, 2 (0 is the default) *)
  | 2 => [1]
  | 3 => [1; 2]
  | _ => []
  end.

(* Depth-first enumeration of decision lists through [exec]: run [ds] padded
   with defaults, then every list that first differs from that run at a
   position >= length ds.  Every decision sequence with loop counts <= 2 is
   visited exactly once unless the budget runs out ([x_complete] = false). *)
Record xstats := { x_runs : nat; x_faulted : nat; x_committed : nat; x_complete : bool;
                   x_bad : option (list nat * outcome) }.

Definition children (ds : list nat) (r : outcome) : list (list nat) :=
  let full := map fst (r_log r) in
  let ars := map snd (r_log r) in
  flat_map (fun i => map (fun d => firstn i full ++ [d]) (alts (nth i ars 1)))
           (seq (List.length ds) (List.length full - List.length ds)).

Definition committed (r : outcome) : bool :=
  match mon (rev (r_trace r)) with PCommitted => true | _ => false end.

Fixpoint explore (p : prog) (budget : nat) (work : list (list nat)) (n nf nc : nat) : xstats :=
  match work with
  | [] => {| x_runs := n; x_faulted := nf; x_committed := nc; x_complete := true; x_bad := None |}
  | ds :: rest =>
      match budget with
      | 0 => {| x_runs := n; x_faulted := nf; x_committed := nc; x_complete := false; x_bad := None |}
      | S budget' =>
          let r := exec p (oracle_of ds) in
          if atomic_run r then
            explore p budget' (children ds r ++ rest) (S n)
                    (if faulted (r_trace r) then S nf else nf) (if committed r then S nc else nc)
          else {| x_runs := S n; x_faulted := nf; x_committed := nc; x_complete := false; x_bad := Some (ds, r) |}
      end
  end.

Definition explore_budget : nat := 200 * 100.
Definition explore_n (budget : nat) (p : prog) : xstats := explore p budget [[]] 0 0 0.
Definition explore_all (p : prog) : xstats := explore_n explore_budget p.
Definition runs_ok (p : prog) : bool :=
  match x_bad (explore_all p) with None => true | Some _ => false end.
