(* C09 across topic loads.  The load paths of every topic kind (server/init_topic.go:
   initTopicP2P in each of its branches, initTopicGrp / initTopicSys / initTopicMe / initTopicFnd
   through loadSubscribers) WITH the per-user marks they copy into Topic.perUser
   (readID, recvID, delID), and the marks slice of a peer-to-peer topic and of 'sys' on top of
   them: subscriptionReply -> thisUserSub (undelete resets the marks), replyLeaveUnsub (a p2p
   party keeps its entry, marked deleted), saveAndBroadcastMessage (publisher's marks jump),
   handleNoteBroadcast (+ Session.note pre-validation and the hub route of a detached recv),
   replyGetDesc, replyGetSub, idle unload, restart.

   Sys/TopicLoad.v (C01) models the same paths for lastID / delID only; its store views
   (p2p_rows, live_rows, p2p_row, p2p_wipe, p2p_sane, access_for) are reused, the store
   contract, the fault plan and [call] are those of Sys/Topic.v, frames are Topic.frame.
   Sys/LoadMarksC09Proofs.v proves that forgetting the marks gives TopicLoad's loaders.

   Definitions only. *)
From Coq Require Import ZArith NArith List Bool.
From Tinode Require Import Base.Util Pure.Acs Sys.Topic Sys.TopicLoad.
Import ListNotations.
Open Scope Z_scope.

(* ------------------------------------------------------------------ *)
(* cache slice: perUserData with the marks                              *)
Record kpud := mkKP { kp_want : N; kp_given : N; kp_deleted : bool; kp_read : Z; kp_recv : Z; kp_delid : Z }.
Record kcache := mkKC {
  k_lastid : Z; k_delid : Z;
  k_users : list (N * kpud);        (* perUser *)
  k_sess : list (N * N)             (* attached sessions: sid -> uid *) }.
Definition kp_mode (p : kpud) : N := N.land (kp_given p) (kp_want p).
Definition kzero := mkKP 0 0 false 0 0 0.
Definition kget (c : kcache) (u : N) : kpud := match alookup u (k_users c) with Some p => p | None => kzero end.
Definition kmode (c : kcache) (u : N) : N := kp_mode (kget c u).
Definition k_set_users (f : list (N * kpud) -> list (N * kpud)) (c : kcache) : kcache :=
  mkKC (k_lastid c) (k_delid c) (f (k_users c)) (k_sess c).
Definition k_set_sess (f : list (N * N) -> list (N * N)) (c : kcache) : kcache :=
  mkKC (k_lastid c) (k_delid c) (k_users c) (f (k_sess c)).
Definition k_set_lastid (v : Z) (c : kcache) : kcache := mkKC v (k_delid c) (k_users c) (k_sess c).
Definition kattached (c : kcache) (sid : N) : bool := match alookup sid (k_sess c) with Some _ => true | None => false end.
Definition kp_set_modes (w g : N) (p : kpud) : kpud := mkKP w g (kp_deleted p) (kp_read p) (kp_recv p) (kp_delid p).
Definition kp_set_marks (rd rc : Z) (p : kpud) : kpud := mkKP (kp_want p) (kp_given p) (kp_deleted p) rd rc (kp_delid p).

(* ------------------------------------------------------------------ *)
(* loaders                                                              *)

(* perUserData{delID: sub.DelId, readID: sub.ReadSeqId, recvID: sub.RecvSeqId, modeWant: ..., modeGiven: ...}
   (loadSubscribers; initTopicP2P case 4) *)
Definition kp_of_row (r : subrow) : kpud := mkKP (s_want r) (s_given r) false (s_read r) (s_recv r) (s_delid r).
Definition kload_users (rows : list subrow) : list (N * kpud) :=
  fold_left (fun acc r => aset (s_user r) (kp_of_row r) acc) rows [].

(* initTopicP2P cases 1 and 2: [o] is the subscription record the entry is built from - a stored row
   (sub1 = &subs[0] / sub2 = &subs[0]) or a new types.Subscription{} whose DelId, ReadSeqId, RecvSeqId
   are zero; want/given are computed by the branch *)
Definition kp_of_sub (w g : N) (o : option subrow) : kpud :=
  mkKP w g false
       (match o with Some r => s_read r | None => 0 end)
       (match o with Some r => s_recv r | None => 0 end)
       (match o with Some r => s_delid r | None => 0 end).

Inductive kres :=
| KErr (code : Z) (n : nat)                                    (* topicInit failed: error reply, topic removed from the hub *)
| KOk (s : store) (c : kcache) (n : nat) (newsub : bool).      (* loaded; [newsub] = pktsub.Newsub set by the load *)

(* initTopicMe / initTopicFnd: Users.Get, loadSubscribers; lastID and delID are not set *)
Definition kinit_me_fnd (f : fault) (s : store) (n : nat) : kres :=
  let '(ok1, n1) := call f n in                            (* Users.Get *)
  if negb ok1 then KErr 500 n1 else
  let '(ok2, n2) := call f n1 in                           (* loadSubscribers: Topics.GetSubs *)
  if negb ok2 then KErr 500 n2 else
  KOk s (mkKC 0 0 (kload_users (live_rows s)) []) n2 false.

(* initTopicP2P; [u1] = requester, [u2] = the other user (from the usrXXX name), LevelAuth, no {sub.set} *)
Definition kinit_p2p (f : fault) (s : store) (n : nat) (u1 u2 : N) : kres :=
  let '(ok1, n1) := call f n in                            (* Topics.Get *)
  if negb ok1 then KErr 500 n1 else
  let ex := t_exists s in
  let '(ok2, n2) := if ex then call f n1 else (true, n1) in (* Topics.GetUsers *)
  if negb ok2 then KErr 500 n2 else
  let rows := if ex then p2p_rows s else [] in
  (* Case 3: topic exists, both subscriptions are missing: ErrInternal *)
  if ex && (length rows =? 0)%nat then KErr 500 n2 else
  let lastid := if ex then t_seqid s else 0 in
  let delid := if ex then t_delid s else 0 in
  if ex && (length rows =? 2)%nat then
    (* Case 4: for i := 0; i < 2; i++ { t.perUser[uid(subs[i])] = perUserData{..., delID: subs[i].DelId,
       recvID: subs[i].RecvSeqId, readID: subs[i].ReadSeqId} } *)
    KOk s (mkKC lastid delid (kload_users rows) []) n2 false
  else
    (* Cases 1 (new topic) and 2 (one of the two subscriptions is missing or was deleted) *)
    let '(ok3, n3) := call f n2 in                         (* Users.GetAll(u1, u2) *)
    if negb ok3 then KErr 500 n3 else
    if N.eqb u1 u2 then KErr 404 n3 else
    match alookup u1 (users s), alookup u2 (users s) with
    | Some acc1, Some acc2 =>
      let single := match rows with [r] => Some r | _ => None end in     (* len(subs) == 1 *)
      let sub1 := match single with Some r => if N.eqb (s_user r) u1 then Some r else None | None => None end in
      let sub2 := match single with Some r => if N.eqb (s_user r) u1 then None else Some r | None => None end in
      let user1only := match sub2 with Some _ => true | None => false end in
      let g2 := match sub2 with Some r => s_given r | None => p2p_sane acc1 end in
      let w1 := match sub1 with Some r => s_want r | None => g2 end in
      let g1 := match sub1 with Some r => s_given r | None => acc2 end in
      let newsub := match sub1 with Some _ => false | None => true end in
      let w2 := match sub2 with Some r => s_want r | None => p2p_sane acc2 end in
      let '(ok4, n4) := call f n3 in                       (* Topics.CreateP2P | Subs.Create *)
      if negb ok4 then KErr 500 n4 else
      let s' := if ex then (if user1only then ad_sub_create s u1 w1 g1 else ad_sub_create s u2 w2 g2)
                else ad_sub_create (ad_sub_create (p2p_row s) u1 w1 g1) u2 w2 g2 in
      (* userData.delID = sub1.DelId; userData.readID = sub1.ReadSeqId; userData.recvID = sub1.RecvSeqId;
         t.perUser[userID1] = userData
         t.perUser[userID2] = perUserData{..., delID: sub2.DelId, readID: sub2.ReadSeqId, recvID: sub2.RecvSeqId} *)
      KOk s' (mkKC lastid delid (aset u2 (kp_of_sub w2 g2 sub2) [(u1, kp_of_sub w1 g1 sub1)]) []) n4 newsub
    | _, _ => KErr 404 n3                                   (* len(users) != 2: ErrUserNotFound *)
    end.

(* initTopicGrp: Topics.Get, loadSubscribers, t.lastID = stopic.SeqId, t.delID = stopic.DelId *)
Definition kinit_grp (f : fault) (s : store) (n : nat) : kres :=
  let '(ok1, n1) := call f n in                            (* Topics.Get *)
  if negb ok1 then KErr 500 n1 else
  if negb (t_exists s) then KErr 404 n1 else
  let '(ok2, n2) := call f n1 in                           (* loadSubscribers: Topics.GetSubs *)
  if negb ok2 then KErr 500 n2 else
  KOk s (mkKC (t_seqid s) (t_delid s) (kload_users (live_rows s)) []) n2 false.

(* initTopicSys: the same shape *)
Definition kinit_sys (f : fault) (s : store) (n : nat) : kres := kinit_grp f s n.

Definition kinit_topic (k : tkind) (f : fault) (s : store) (n : nat) (u1 u2 : N) : kres :=
  match k with
  | KMe | KFnd => kinit_me_fnd f s n
  | KP2P => kinit_p2p f s n u1 u2
  | KGrp => kinit_grp f s n
  | KSys => kinit_sys f s n
  end.

(* ------------------------------------------------------------------ *)
(* handlers                                                             *)
Record kh := mkKH { kh_st : store; kh_ca : kcache; kh_n : nat; kh_out : out }.

(* evictUser: the user's sessions are detached *)
Definition k_evict (c : kcache) (u : N) : kcache := k_set_sess (filter (fun e => negb (N.eqb (snd e) u))) c.

(* subscriptionReply + thisUserSub with no requested mode *)
Definition ksub (k : lkind) (root : bool) (f : fault) (s : store) (c : kcache) (n : nat) (sid u : N) (newsub0 : bool) : kh :=
  let reply code := [(sid, Ctrl code [])] in
  let attach (changed : bool) (w g : N) (c' : kcache) :=
      if (if changed then is_joiner (N.land g w) else true) then k_set_sess (aset sid u) c' else c' in
  match alookup u (k_users c) with
  | Some p =>
    if kp_deleted p then
      (* P2P: the subscription was deleted while the topic stayed loaded *)
      let w := p2p_sane (kp_want p) in
      let g := kp_given p in
      if negb (is_joiner g) then mkKH s c n (reply 403) else
      let '(ok1, n1) := call f n in                        (* Subs.Create *)
      if negb ok1 then mkKH s c n1 (reply 500) else
      let s1 := ad_sub_create s u w g in
      (* Undelete: userData.deleted = false; userData.delID, userData.readID, userData.recvID = 0, 0, 0 *)
      let c1 := k_set_users (aset u (mkKP w g false 0 0 0)) c in
      if negb (is_joiner w) then mkKH s1 (attach true w g (k_evict c1 u)) n1 (reply 200)
      else mkKH s1 (attach true w g c1) n1 (reply 200)
    else
      let oldw := kp_want p in
      let g := kp_given p in
      let w := if negb (is_joiner oldw) then N.ldiff (N.lor g (access_for k root)) mO else oldw in
      let need := negb (w =? oldw)%N in
      let '(ok1, n1) := if need then call f n else (true, n) in   (* Subs.Update(ModeWant) *)
      if negb ok1 then mkKH s c n1 (reply 500) else
      let s1 := if need then ad_subs_update s u (mkUpd (Some w) None None None None) else s in
      let c1 := k_set_users (aset u (kp_set_modes w g p)) c in
      let changed := newsub0 || need in
      if negb (is_joiner w) then mkKH s1 (attach changed w g (k_evict c1 u)) n1 (reply 200) else
      if negb (is_joiner g) then mkKH s1 c1 n1 (reply 403) else
      mkKH s1 (attach changed w g c1) n1 (reply 200)
  | None =>
    match k with
    | LP2P => mkKH s c n (reply 403)                        (* not a party *)
    | LSys =>
      if negb root then mkKH s c n (reply 403) else
      let '(ok1, n1) := call f n in                        (* Subs.Create *)
      if negb ok1 then mkKH s c n1 (reply 500) else
      mkKH (ad_sub_create s u ModeCSys ModeCSys)
           (attach true ModeCSys ModeCSys (k_set_users (aset u (mkKP ModeCSys ModeCSys false 0 0 0)) c)) n1 (reply 200)
    end
  end.

Definition ksubs_count (c : kcache) : nat := length (filter (fun e => negb (kp_deleted (snd e))) (k_users c)).

(* replyLeaveUnsub (+ hub.topicUnreg when the last P2P subscription goes) *)
Definition kleave_unsub (k : lkind) (f : fault) (s : store) (c : kcache) (n : nat) (sid u : N)
  : store * option kcache * nat * out :=
  let '(ok1, n1) := call f n in                            (* Subs.Delete *)
  if negb ok1 then (s, Some c, n1, [(sid, Ctrl 500 [])]) else
  match ad_subs_delete s u with
  | None => (s, Some c, n1, [(sid, Ctrl 304 [])])
  | Some s1 =>
    let o := [(sid, Ctrl 200 [])] in
    match k with
    | LP2P =>
      (* evictUser(unsub): pud.deleted = true; the marks stay in the entry *)
      let p := kget c u in
      let c1 := k_evict (k_set_users (aset u (mkKP (kp_want p) (kp_given p) true (kp_read p) (kp_recv p) (kp_delid p))) c) u in
      if (ksubs_count c1 =? 0)%nat then
        let '(ok2, n2) := call f n1 in                     (* hub.topicUnreg: Topics.Delete(hard) *)
        if negb ok2 then (s1, Some c1, n2, o) else (p2p_wipe s1, None, n2, o)
      else (s1, Some c1, n1, o)
    | LSys => (s1, Some (k_evict (k_set_users (aremove u) c) u), n1, o)
    end
  end.

(* t.userIsReader(uid): modeGiven & modeWant has R (the deleted flag is not consulted) *)
Definition kfanout_data (c : kcache) (skip : N) (fr : frame) : out :=
  flat_map (fun e => if N.eqb (fst e) skip then [] else
                     if is_reader (kmode c (snd e)) then [(fst e, fr)] else []) (k_sess c).
Definition kfanout_info (c : kcache) (skip : N) (what from : N) (seq : Z) : out :=
  flat_map (fun e => if N.eqb (fst e) skip then [] else
                     if negb (is_reader (kmode c (snd e))) then [] else
                     if N.eqb what K_kp && N.eqb (snd e) from then [] else [(fst e, Info what from seq)]) (k_sess c).

(* saveAndBroadcastMessage + messagesMapper.Save (no attachments); anyone may post to 'sys' *)
Definition kpublish (k : lkind) (f : fault) (s : store) (c : kcache) (n : nat) (sid u content : N) (noecho : bool) : kh :=
  let p := kget c u in
  let found := match alookup u (k_users c) with Some _ => true | None => false end in
  let fail s n code := mkKH s c n [(sid, Ctrl code [])] in
  if (match k with LSys => false | LP2P => negb (is_writer (kp_mode p)) end) then fail s n 403 else
  let seq := k_lastid c + 1 in
  let '(ok1, n1) := call f n in                            (* TopicUpdateOnMessage *)
  if negb ok1 then fail s n1 500 else
  let s1 := if t_exists s then st_seqid seq s else s in
  let '(ok2, n2) := call f n1 in                           (* MessageSave *)
  if negb ok2 then fail s1 n2 500 else
  if negb (t_exists s) then fail s1 n2 500 else            (* foreign key messages.topic -> topics *)
  match ad_msg_save s1 seq u content with
  | None => fail s1 n2 500                                 (* duplicate (topic, seqid) *)
  | Some s2 =>
    let reader := is_reader (kp_mode p) in
    let '(ok3, n3) := if reader then call f n2 else (true, n2) in   (* SubsUpdate(from, recv, read): error ignored *)
    let s3 := if reader && ok3 then ad_subs_update s2 u (mkUpd None None (Some seq) (Some seq) None) else s2 in
    let c1 := k_set_lastid seq c in
    (* if userFound { pud.readID = t.lastID; pud.recvID = t.lastID } *)
    let c2 := if found then k_set_users (aset u (kp_set_marks seq seq p)) c1 else c1 in
    mkKH s3 c2 n3 ((sid, Ctrl 202 [(P_seq, seq)]) :: kfanout_data c2 (if noecho then sid else 0%N) (Data seq u content))
  end.

(* handleNoteBroadcast (read / recv / kp): mode = ModeInvalid for a deleted entry *)
Definition knote (f : fault) (s : store) (c : kcache) (n : nat) (sid u : N) (what : N) (seq : Z) : kh :=
  let quiet := mkKH s c n [] in
  if k_lastid c <? seq then quiet else
  let p := kget c u in
  let mode := if kp_deleted p then ModeInvalid else kp_mode p in
  if N.eqb what K_kp then
    if negb (is_writer mode) then quiet else mkKH s c n (kfanout_info c sid what u seq)
  else if N.eqb what K_read || N.eqb what K_recv then
    if negb (is_reader mode) then quiet else
    let is_read := N.eqb what K_read in
    if is_read && (seq <=? kp_read p) then quiet else
    if negb is_read && (seq <=? kp_recv p) then quiet else
    let rd := if is_read then seq else kp_read p in
    let rc := if is_read then (if kp_recv p <? seq then seq else kp_recv p)
              else (if seq <? kp_read p then kp_read p else seq) in
    (* the store update carries only the mark named by the note *)
    let upd := if is_read then mkUpd None None (Some rd) None None else mkUpd None None None (Some rc) None in
    let '(ok1, n1) := call f n in                          (* Subs.Update *)
    if negb ok1 then mkKH s c n1 [] else
    let s1 := ad_subs_update s u upd in
    let c1 := k_set_users (aset u (kp_set_marks rd rc p)) c in
    mkKH s1 c1 n1 (kfanout_info c1 sid what u seq)
  else quiet.

(* replyGetDesc: desc.ReadSeqId = pud.readID; desc.RecvSeqId = max(pud.recvID, pud.readID);
   desc.DelId = max(pud.delID, t.delID); desc.SeqId = t.lastID - for readers only *)
Definition kget_desc (s : store) (c : kcache) (n : nat) (sid u : N) : kh :=
  match alookup u (k_users c) with
  | None => mkKH s c n [(sid, MetaDesc ModeInvalid ModeInvalid 0 0 0 0 false)]
  | Some p =>
    if is_reader (kp_mode p) then
      mkKH s c n [(sid, MetaDesc (kp_want p) (kp_given p) (k_lastid c) (kp_read p) (Z.max (kp_recv p) (kp_read p))
                                 (Z.max (kp_delid p) (k_delid c)) true)]
    else mkKH s c n [(sid, MetaDesc (kp_want p) (kp_given p) 0 0 0 0 false)]
  end.

(* replyGetSub: a P2P topic reads the rows from the store (Topics.GetSubs: live rows); 'sys' has no branch
   in the switch: no rows, 204 *)
Definition kget_sub (k : lkind) (f : fault) (s : store) (c : kcache) (n : nat) (sid u : N) : kh :=
  match k with
  | LSys => mkKH s c n [(sid, Ctrl 204 [(P_what, 2)])]
  | LP2P =>
    let '(ok1, n1) := call f n in                          (* Topics.GetSubs *)
    if negb ok1 then mkKH s c n1 [(sid, Ctrl 500 [])] else
    let me := kmode c u in
    match live_rows s with
    | [] => mkKH s c n1 [(sid, Ctrl 204 [(P_what, 2)])]
    | rows =>
      mkKH s c n1 [(sid, MetaSub (map (fun r =>
        let sm := N.land (s_given r) (s_want r) in
        let vis := is_reader sm in
        let showacs := is_sharer me || N.eqb (s_user r) u || is_admin sm in
        (s_user r,
         (if showacs then (s_want r, s_given r) else (ModeInvalid, ModeInvalid)),
         ((if vis then s_read r else 0), (if vis then s_recv r else 0),
          (if vis && N.eqb (s_user r) u then s_delid r else 0)))) rows))]
    end
  end.

(* replyOfflineTopicGetDesc / replyOfflineTopicGetSub: no cached mark is involved; only the number of
   store calls is modelled (the frames of these two requests are outside the compared projection) *)
Definition koffline_desc (k : lkind) (f : fault) (s : store) (sid other : N) : nat * out :=
  let '(ok1, n1) := call f 0 in                            (* Users.Get(other) | Topics.Get("sys") *)
  if negb ok1 then (n1, [(sid, Ctrl 500 [])]) else
  if negb (match k with LP2P => known s other | LSys => t_exists s end) then (n1, [(sid, Ctrl 404 [])]) else
  let '(ok2, n2) := call f n1 in                           (* Subs.Get *)
  if negb ok2 then (n2, [(sid, Ctrl 500 [])]) else (n2, [(sid, MetaDesc ModeInvalid ModeInvalid 0 0 0 0 false)]).
Definition koffline_sub (f : fault) (sid : N) : nat * out :=
  let '(ok1, n1) := call f 0 in                            (* Subs.Get *)
  if negb ok1 then (n1, [(sid, Ctrl 500 [])]) else (n1, [(sid, Ctrl 204 [(P_what, 2)])]).

(* ------------------------------------------------------------------ *)
(* one request, handled to quiescence                                   *)
Inductive kop :=
| KSub (sid : N) (byname : bool)   (* byname: addressed by the p2pAAABBB name instead of usrBBB *)
| KLeave (sid : N) (unsub : bool)
| KPub (sid content : N) (noecho : bool)
| KNote (sid what : N) (seq : Z)
| KGetDesc (sid : N)
| KGetSub (sid : N)
| KUnload                       (* idle timeout of a topic with no sessions ('sys' is never unloaded) *)
| KRestart.                     (* process restart *)

Record kstate := mkKS { y_st : store; y_ca : option kcache; y_n : nat }.

Section KStep.
Variable k : lkind.
Variable sm : sessmap.          (* session -> user *)
Variable roots : list N.        (* users whose sessions are LevelRoot ('sys' scenarios) *)
Variable ua ub : N.             (* the two parties of the P2P topic *)

Definition kpeer (u : N) : N := if N.eqb u ua then ub else ua.
Definition k_is_root (u : N) : bool := existsb (N.eqb u) roots.

Definition kload (f : fault) (s : store) (n : nat) (u other : N) : kres :=
  match k with LP2P => kinit_p2p f s n u other | LSys => kinit_sys f s n end.

Definition kboot (s : store) : option kcache :=
  match k with
  | LP2P => None
  | LSys => match kinit_sys NoFault s 0 with KOk _ c _ _ => Some c | KErr _ _ => None end
  end.

Definition kstep (f : fault) (x : kstate) (o : kop) : kstate * out :=
  let s := y_st x in
  let keep o' := (mkKS s (y_ca x) 0, o') in
  let fin (h : kh) := (mkKS (kh_st h) (Some (kh_ca h)) (kh_n h), kh_out h) in
  match o with
  | KUnload =>
    match k, y_ca x with
    | LP2P, Some c => match k_sess c with [] => (mkKS s None 0, []) | _ => keep [] end
    | _, _ => keep []
    end
  | KRestart => (mkKS s (kboot s) 0, [])
  | KSub sid byname =>
    let u := sess_uid sm sid in
    let ns c := match alookup u (k_users c) with Some p => kp_deleted p | None => true end in
    match y_ca x with
    | Some c => if kattached c sid then keep [(sid, Ctrl 304 [])]
                else fin (ksub k (k_is_root u) f s c 0 sid u (ns c))
    | None =>
      match kload f s 0 u (if byname then 0%N else kpeer u) with
      | KErr code n1 => (mkKS s None n1, [(sid, Ctrl code [])])
      | KOk s1 c n1 newsub => fin (ksub k (k_is_root u) f s1 c n1 sid u (newsub || ns c))
      end
    end
  | KLeave sid unsub =>
    let u := sess_uid sm sid in
    match y_ca x with
    | Some c =>
      if kattached c sid then
        if unsub then let '(s1, c1, n1, o1) := kleave_unsub k f s c 0 sid u in (mkKS s1 c1 n1, o1)
        else fin (mkKH s (k_set_sess (aremove sid) c) 0 [(sid, Ctrl 200 [])])
      else keep [(sid, Ctrl (if unsub then 409 else 304) [])]
    | None => keep [(sid, Ctrl (if unsub then 409 else 304) [])]
    end
  | KPub sid content noecho =>
    let u := sess_uid sm sid in
    match y_ca x with
    | Some c =>
      if kattached c sid || (match k with LSys => true | LP2P => false end)
      then fin (kpublish k f s c 0 sid u content noecho)
      else keep [(sid, Ctrl 409 [])]
    | None =>
      match k with LSys => keep [(sid, Ctrl 202 [])] | LP2P => keep [(sid, Ctrl 409 [])] end
    end
  | KNote sid what seq =>
    let u := sess_uid sm sid in
    (* Session.note: kp with a seq, read/recv with seq <= 0 and unknown kinds are dropped at the session *)
    let pre := if N.eqb what K_kp then (seq =? 0) else
               if N.eqb what K_read || N.eqb what K_recv then negb (seq <=? 0) else false in
    if negb pre then keep [] else
    match y_ca x with
    | Some c =>
      if kattached c sid then fin (knote f s c 0 sid u what seq)
      else if N.eqb what K_recv then fin (knote f s c 0 sid u what seq)   (* routed through the hub *)
      else keep [(sid, Ctrl 409 [])]
    | None => if N.eqb what K_recv then keep [] else keep [(sid, Ctrl 409 [])]
    end
  | KGetDesc sid =>
    let u := sess_uid sm sid in
    let off := let '(n1, o1) := koffline_desc k f s sid (kpeer u) in (mkKS s (y_ca x) n1, o1) in
    match y_ca x with
    | Some c => if kattached c sid then fin (kget_desc s c 0 sid u) else off
    | None => off
    end
  | KGetSub sid =>
    let u := sess_uid sm sid in
    let off := let '(n1, o1) := koffline_sub f sid in (mkKS s (y_ca x) n1, o1) in
    match y_ca x with
    | Some c => if kattached c sid then fin (kget_sub k f s c 0 sid u) else off
    | None => off
    end
  end.

(* a crash discards the in-memory state after the faulty request; the process comes back *)
Definition kstep_f (x : kstate) (fo : fault * kop) : kstate * out :=
  let '(x1, o1) := kstep (fst fo) x (snd fo) in
  match fst fo with
  | CrashAt _ => (mkKS (y_st x1) (kboot (y_st x1)) (y_n x1), o1)
  | _ => (x1, o1)
  end.

Fixpoint krun (x : kstate) (h : list (fault * kop)) : kstate * list out :=
  match h with
  | [] => (x, [])
  | fo :: r => let '(x1, o1) := kstep_f x fo in
               let '(x2, os) := krun x1 r in (x2, o1 :: os)
  end.
End KStep.
