(* C07 proofs, part 7 (s07f): the attachment table under bans.  Sessions are attached as
   (session id -> (user, background flag)); evictUser detaches EVERY session of the user, whatever
   its kind (foreground, background), and tells each one (except the skipped requester) that it
   was evicted.  Every handler that can take J away from a user (anotherUserSub: ban by an
   approver; thisUserSub: self-ban; replyDelSub; replyLeaveUnsub) either leaves a session
   attached or detaches all sessions of that user and notifies them.  Nothing in Sys/Topic.v is
   changed. *)
From Coq Require Import ZArith NArith List Bool Lia.
From Tinode Require Import Base.Util Pure.Acs Sys.Topic Sys.TopicTac Sys.TopicFrame Sys.TopicMarks Sys.TopicAclC07
  Sys.TopicAclC07Proofs Sys.TopicAclC07Inv Sys.TopicAclC07Join.
Import ListNotations.
Open Scope Z_scope.

(* ---------- evictUser ---------- *)
Lemma evict_all_c07f c u unsub skip c' o : evict_user c u unsub skip = (c', o) ->
  no_sess c' u /\
  (forall sid b, In (sid, (u, b)) (c_sess c) -> sid <> skip -> In (sid, Evicted unsub) o) /\
  (forall sid v b, v <> u -> In (sid, (v, b)) (c_sess c) -> In (sid, (v, b)) (c_sess c')).
Proof.
  intros EV. pose proof (evict_sess _ _ _ _ _ _ EV) as ES. split; [|split].
  - intros sid b HI. rewrite ES in HI. apply filter_In in HI. destruct HI as [_ HI]. cbn in HI.
    rewrite N.eqb_refl in HI. discriminate.
  - intros sid b HI NE. unfold evict_user in EV. inv EV. apply in_flat_map. exists (sid, (u, b)). split.
    + apply filter_In. split; [exact HI|]. cbn. apply N.eqb_refl.
    + cbn. apply N.eqb_neq in NE. rewrite NE. left. reflexivity.
  - intros sid v b NE HI. rewrite ES. apply filter_In. split; [exact HI|]. cbn.
    apply N.eqb_neq in NE. rewrite NE. reflexivity.
Qed.

(* every session attached before the request is still attached, or belongs to [who], NO session
   of [who] is attached any more and the session was told {ctrl 205 evicted unsub} (unless it is
   the skipped one) *)
Definition detach_told_c07f (c : cache) (c' : cache) (o : out) (who : N) (unsub : bool) (skip : N) : Prop :=
  forall sid v b, In (sid, (v, b)) (c_sess c) ->
    In (sid, (v, b)) (c_sess c') \/
    (v = who /\ no_sess c' who /\ (sid <> skip -> In (sid, Evicted unsub) o)).

Lemma dt_evict_c07f c0 c who unsub skip c4 o4 :
  evict_user c0 who unsub skip = (c4, o4) -> c_sess c0 = c_sess c -> detach_told_c07f c c4 o4 who unsub skip.
Proof.
  intros EV ES sid v b HI. rewrite <- ES in HI. destruct (evict_all_c07f _ _ _ _ _ _ EV) as [NS [TOLD OTH]].
  destruct (N.eq_dec v who) as [->|NE].
  - right. split; [reflexivity|]. split; [exact NS|]. intros K. eapply TOLD; eauto.
  - left. apply OTH; assumption.
Qed.

Ltac dtk_c07f := let HI := fresh "HI" in intros ? ? ? HI; left; exact HI.
Ltac dte_c07f EV := let HI := fresh "HI" in intros ? ? ? HI; exact (dt_evict_c07f _ _ _ _ _ _ _ EV eq_refl _ _ _ HI).

(* anotherUserSub: ban by an approver *)
Lemma aus_detach_told_c07f f s c n u t mode :
  detach_told_c07f c (h_ca (fst (aus f s c n u t mode))) (h_out (fst (aus f s c n u t mode))) t false 0%N.
Proof.
  unfold detach_told_c07f.
  unfold aus. destruct (alookup u (c_users c)) as [hp|]; [|dtk_c07f].
  destruct (negb (is_sharer _)); [dtk_c07f|]. destruct (tus_mw mode) as [mg okg]. destruct (negb okg); [dtk_c07f|].
  destruct (_ && _); [dtk_c07f|]. destruct (_ && _); [dtk_c07f|].
  destruct (alookup t (c_users c)) as [pt|] eqn:Et.
  - unfold aus_exist. destruct (_ || _).
    + destruct (negb (is_joiner (p_given pt))) eqn:EJ; [|dtk_c07f].
      destruct (evict_user c t false 0) as [c4 o4] eqn:EV. dte_c07f EV.
    + destruct (_ && _); [dtk_c07f|]. destruct (call f n) as [ok1 n1]. destruct (negb ok1); [dtk_c07f|].
      destruct (negb (is_joiner mg)) eqn:EJ.
      * destruct (evict_user _ t false 0) as [c4 o4] eqn:EV. dte_c07f EV.
      * dtk_c07f.
  - unfold aus_new. destruct (max_subs <=? _); [dtk_c07f|].
    destruct (call f n) as [ok1 n1]. destruct (negb ok1); [dtk_c07f|].
    match goal with |- context [match ?w with (_, _) => _ end] => destruct w as [n2 [[code|wantm]|]] end; try dtk_c07f.
    destruct (negb (is_joiner wantm)); [dtk_c07f|].
    destruct (call f n2) as [ok3 n3]. destruct (negb ok3); [dtk_c07f|].
    destruct (negb (is_joiner _)) eqn:EJ.
    + destruct (evict_user _ t false 0) as [c4 o4] eqn:EV. dte_c07f EV.
    + dtk_c07f.
Qed.

(* replyDelSub *)
Lemma del_sub_detach_told_c07f f s c n sid u t :
  detach_told_c07f c (h_ca (del_sub f s c n sid u t)) (h_out (del_sub f s c n sid u t)) t true 0%N.
Proof.
  unfold detach_told_c07f, del_sub.
  destruct (negb (is_admin _)); [dtk_c07f|]. destruct (_ || _); [dtk_c07f|].
  destruct (alookup t (c_users c)) as [pt|]; [|dtk_c07f].
  destruct (is_owner _); [dtk_c07f|]. destruct (negb (is_joiner _)); [dtk_c07f|].
  destruct (call f n) as [ok1 n1]. destruct (negb ok1); [dtk_c07f|].
  destruct (match ad_subs_delete s t with Some s' => (s', Ctrl 200 []) | None => (s, Ctrl 304 []) end) as [s1 reply].
  destruct (evict_user c t true 0) as [c1 o1] eqn:EV.
  intros sid0 v b HI. destruct (dt_evict_c07f _ c _ _ _ _ _ EV eq_refl _ _ _ HI) as [L|[E [NS T]]]; [left; exact L|].
  right. split; [exact E|]. split; [exact NS|]. intros K. right. exact (T K).
Qed.

(* replyLeaveUnsub: the requester's own session is the skipped one *)
Lemma leave_unsub_detach_told_c07f f s c n sid u :
  detach_told_c07f c (h_ca (leave_unsub f s c n sid u)) (h_out (leave_unsub f s c n sid u)) u true sid.
Proof.
  unfold detach_told_c07f, leave_unsub.
  destruct (N.eqb (c_owner c) u); [dtk_c07f|].
  destruct (call f n) as [ok1 n1]. destruct (negb ok1); [dtk_c07f|].
  destruct (ad_subs_delete s u) as [s1|]; [|dtk_c07f].
  destruct (evict_user c u true sid) as [c1 o1] eqn:EV.
  intros sid0 v b HI. destruct (dt_evict_c07f _ c _ _ _ _ _ EV eq_refl _ _ _ HI) as [L|[E [NS T]]]; [left; exact L|].
  right. split; [exact E|]. split; [exact NS|]. intros K. right. exact (T K).
Qed.

(* thisUserSub: self-ban.  (1) sessions are detached only by the eviction, with notice;
   (2) an ACCEPTED request that leaves the user's want without J leaves no session of the user. *)
Lemma tus_finish_detach_c07f u w1 g1 ow og nb s3 c3 n3 c :
  c_sess c3 = c_sess c ->
  let r := tus_finish u w1 g1 ow og nb s3 c3 n3 in
  detach_told_c07f c (h_ca (fst r)) (h_out (fst r)) u false 0%N /\
  (forall ch, snd r = SubOk ch -> is_joiner w1 = false -> no_sess (h_ca (fst r)) u).
Proof.
  intros ES. unfold tus_finish. destruct (negb (is_joiner w1)) eqn:EW.
  - destruct (evict_user _ u false 0) as [c5 o5] eqn:EV. cbn [fst snd h_ca h_out]. split.
    + intros ? ? ? HI. exact (dt_evict_c07f _ c _ _ _ _ _ EV ES _ _ _ HI).
    + intros _ _ _. apply (evict_all_c07f _ _ _ _ _ _ EV).
  - apply negb_false_iff in EW. destruct (negb (is_joiner g1)); cbn [fst snd h_ca h_out]; split.
    + intros ? ? ? HI. left. cbn [c_sess c_set_users]. rewrite ES. exact HI.
    + intros ch H. discriminate.
    + intros ? ? ? HI. left. cbn [c_sess c_set_users]. rewrite ES. exact HI.
    + intros ch _ H. congruence.
Qed.

Lemma tus_detach_told_c07f f s c n u want nb :
  let r := tus f s c n u want nb in
  detach_told_c07f c (h_ca (fst r)) (h_out (fst r)) u false 0%N /\
  (forall ch w, snd r = SubOk ch -> cwant (h_ca (fst r)) u = Some w -> is_joiner w = false -> no_sess (h_ca (fst r)) u).
Proof.
  cbv zeta.
  assert (forall s' n' o' code, detach_told_c07f c (h_ca (fst (mkH s' c n' o', SubErr code))) (h_out (fst (mkH s' c n' o', SubErr code))) u false 0%N /\
          (forall ch w, snd (mkH s' c n' o', SubErr code) = SubOk ch ->
             cwant (h_ca (fst (mkH s' c n' o', SubErr code))) u = Some w -> is_joiner w = false -> no_sess (h_ca (fst (mkH s' c n' o', SubErr code))) u)) as ERR.
  { intros. split; [dtk_c07f|]. intros ch w H. discriminate. }
  unfold tus. destruct (tus_mw want) as [mw okw]. destruct (negb okw); [apply ERR|].
  destruct (alookup u (c_users c)) as [p0|] eqn:Eu.
  - unfold tus_exist. destruct (tus_chk _ _ _ _ _) as [[[mw1 g1] oc]|]; [|apply ERR].
    destruct (if negb _ then call f n else (true, n)) as [ok1 n1]. destruct (negb ok1); [apply ERR|].
    set (w1 := tus_w1 c u mw1 g1 (p_want p0)).
    assert (forall s3 c3 n3, c_sess c3 = c_sess c ->
      let r := tus_finish u w1 g1 (p_want p0) (p_given p0) nb s3 c3 n3 in
      detach_told_c07f c (h_ca (fst r)) (h_out (fst r)) u false 0%N /\
      (forall ch w, snd r = SubOk ch -> cwant (h_ca (fst r)) u = Some w -> is_joiner w = false -> no_sess (h_ca (fst r)) u)) as FIN.
    { intros s3 c3 n3 ES. cbv zeta. destruct (tus_finish_detach_c07f u w1 g1 (p_want p0) (p_given p0) nb s3 c3 n3 c ES) as [D B].
      split; [exact D|]. intros ch w HS HW HJ. apply (B ch HS).
      destruct (tus_finish_res u w1 g1 (p_want p0) (p_given p0) nb s3 c3 n3) as [_ [_ [W _]]].
      rewrite W, N.eqb_refl in HW. inv HW. exact HJ. }
    destruct oc; [|apply FIN; reflexivity].
    destruct (call f n1) as [ok2 n2]. destruct (negb ok2); [apply ERR|].
    destruct (call f n2) as [ok3 n3]. destruct (negb ok3); [apply ERR|].
    apply FIN. reflexivity.
  - unfold tus_new. destruct (max_subs <=? _); [apply ERR|].
    destruct (call f n) as [ok1 n1]. destruct (negb ok1); [apply ERR|].
    destruct (negb (is_joiner _)); [apply ERR|].
    destruct (if (_ : bool) then call f n1 else (true, n1)) as [ok2 n2]. destruct (negb ok2); [apply ERR|].
    destruct (negb (is_joiner _)) eqn:EW.
    + destruct (evict_user _ u false 0) as [c3 o3] eqn:EV. cbn [fst snd h_ca h_out]. split.
      * dte_c07f EV.
      * intros _ _ _ _ _. apply (evict_all_c07f _ _ _ _ _ _ EV).
    + cbn [fst snd h_ca h_out]. split; [dtk_c07f|].
      intros ch w _ HW HJ. unfold cwant in HW. cbn [c_users c_set_users] in HW. rewrite alookup_aset, N.eqb_refl in HW.
      cbn in HW. inv HW. apply negb_false_iff in EW. congruence.
Qed.

(* ---------- the requests ---------- *)
Lemma set_sub_detach_told_c07f f s c n sid u t mode :
  let h := set_sub f s c n sid u t mode in
  detach_told_c07f c (h_ca h) (h_out h) (if (t =? 0)%N || N.eqb t u then u else t) false 0%N.
Proof.
  cbv zeta. unfold set_sub. rewrite tus_eq, aus_eq. destruct ((t =? 0)%N || N.eqb t u).
  - destruct (tus_detach_told_c07f f s c n u mode false) as [D _]. cbv zeta in D.
    destruct (tus f s c n u mode false) as [h r]. cbn [fst] in D.
    intros sid0 v b HI. destruct (D sid0 v b HI) as [L|[E [N0 T]]].
    + left. destruct r as [code|ch]; exact L.
    + right. split; [exact E|]. split; [destruct r; exact N0|]. intros NZ. specialize (T NZ).
      destruct r; cbn [h_out]; apply in_or_app; left; exact T.
  - pose proof (aus_detach_told_c07f f s c n u t mode) as D.
    destruct (aus f s c n u t mode) as [h r]. cbn [fst] in D.
    intros sid0 v b HI. destruct (D sid0 v b HI) as [L|[E [N0 T]]].
    + left. destruct r as [code|ch]; exact L.
    + right. split; [exact E|]. split; [destruct r; exact N0|]. intros NZ. specialize (T NZ).
      destruct r; cbn [h_out]; apply in_or_app; left; exact T.
Qed.

(* an accepted {set sub} about oneself that leaves the own want without J: no session stays *)
Lemma set_sub_selfban_c07f f s c n sid u t mode ch w :
  (t =? 0)%N || N.eqb t u = true ->
  snd (this_user_sub f s c n sid u mode false) = SubOk ch ->
  let h := set_sub f s c n sid u t mode in
  cwant (h_ca h) u = Some w -> is_joiner w = false -> no_sess (h_ca h) u.
Proof.
  intros SELF. cbv zeta. unfold set_sub. rewrite tus_eq, SELF.
  destruct (tus_detach_told_c07f f s c n u mode false) as [_ B]. cbv zeta in B.
  destruct (tus f s c n u mode false) as [h r]. cbn [fst snd] in *. intros ->. cbn [h_ca]. apply (B ch w eq_refl).
Qed.

(* an accepted {sub} with a mode that leaves want & given without J (self-ban through {sub set.sub.mode}, possibly
   from a session that is not attached): the requester's session is not attached and no other session of the user stays *)
Lemma sub_reply_selfban_c07f f s c n sid u want bkg w g w' :
  snd (this_user_sub f s c n sid u want (match alookup u (c_users c) with Some _ => false | None => true end)) = SubOk (Some (w, g)) ->
  is_joiner (N.land g w) = false ->
  let h := sub_reply f s c n sid u want bkg in
  cwant (h_ca h) u = Some w' -> is_joiner w' = false -> no_sess (h_ca h) u.
Proof.
  cbv zeta. unfold sub_reply. rewrite tus_eq.
  set (nb := match alookup u (c_users c) with Some _ => false | None => true end).
  destruct (tus_detach_told_c07f f s c n u want nb) as [_ B]. cbv zeta in B.
  destruct (tus f s c n u want nb) as [h r]. cbn [fst snd] in *. intros -> EJ. rewrite EJ. cbn [h_ca].
  apply (B (Some (w, g)) w' eq_refl).
Qed.

(* ---------- one request of any history; every reachable state ---------- *)
Section BanF.
Variable dr : Z -> list (Z * Z) -> option (list (Z * Z)).
Variable nr : list (Z * Z) -> list (Z * Z).
Variable sm : sessmap.

(* the user a request can take J (or the whole subscription) away from, whether the eviction
   is an unsubscription, and the session that is not notified (the requester of {leave unsub}) *)
Definition ban_target_c07f (c : cache) (o : op) : option (N * bool * N) :=
  match o with
  | OSetSub sid t _ => let u := sess_uid sm sid in Some (if (t =? 0)%N || N.eqb t u then u else t, false, 0%N)
  | ODelSub sid t => Some (t, true, 0%N)
  | OLeave sid true => Some (match alookup sid (c_sess c) with Some (a, _) => a | None => sess_uid sm sid end, true, sid)
  | _ => None
  end.

Lemma ban_step_told_c07f f x c o who unsub skip :
  ca x = Some c -> ban_target_c07f c o = Some (who, unsub, skip) ->
  exists c', ca (fst (step dr nr sm f x o)) = Some c' /\ detach_told_c07f c c' (snd (step dr nr sm f x o)) who unsub skip.
Proof.
  intros EC BT.
  assert (forall o', detach_told_c07f c c o' who unsub skip) as KEEP by (intros o'; dtk_c07f).
  destruct o; try discriminate BT; unfold step; rewrite EC.
  - (* leave unsub *)
    destruct unsub0; [|discriminate BT]. cbn in BT. injection BT as E1 E2 E3. subst who unsub skip.
    destruct (attached c sid); cbn [negb fst snd].
    + eexists. split; [reflexivity|]. apply leave_unsub_detach_told_c07f.
    + eexists. split; [reflexivity|]. apply KEEP.
  - (* set sub *)
    cbn in BT. injection BT as E1 E2 E3. subst who unsub skip. destruct (attached c sid); cbn [negb fst snd].
    + eexists. split; [reflexivity|]. apply set_sub_detach_told_c07f.
    + eexists. split; [reflexivity|]. apply KEEP.
  - (* del sub *)
    cbn in BT. injection BT as E1 E2 E3. subst who unsub skip. destruct (attached c sid); cbn [negb fst snd].
    + eexists. split; [reflexivity|]. apply del_sub_detach_told_c07f.
    + eexists. split; [reflexivity|]. apply KEEP.
Qed.

(* every reachable state (any fault plan, any history without the request pattern of finding
   banned-user-attached): a user whose cached grant lacks J - or who has no entry - has NO
   attached session, of any kind *)
Lemma ban_detaches_run_c07f x h :
  inv_sm x -> inv_aj x -> no_stale dr nr sm x h ->
  forall c, ca (fst (run dr nr sm x h)) = Some c ->
  forall u, (forall p, alookup u (c_users c) = Some p -> is_joiner (p_given p) = false) -> no_sess c u.
Proof.
  intros SM AJ NS c E u L sid b HI. pose proof (run_inv_aj dr nr sm h x SM AJ NS) as A.
  unfold inv_aj in A. rewrite E in A. destruct (A _ _ _ HI) as [p [EP J]]. rewrite (L p EP) in J. discriminate.
Qed.
End BanF.

(* ---------- non-vacuity: a user attached ONLY through background sessions is banned ---------- *)
Definition bf_dr_c07f : Z -> list (Z * Z) -> option (list (Z * Z)) := fun _ _ => None.
Definition bf_nr_c07f : list (Z * Z) -> list (Z * Z) := fun x => x.
Definition bf_sm_c07f : sessmap := [(1%N, 1%N); (2%N, 2%N); (3%N, 2%N)].
Definition bf_s_c07f : store :=
  ad_sub_create (ad_sub_create (mkStore true 0 0 0 47 0 [] [] [] [(1%N, 47%N); (2%N, 47%N)]) 1%N 255%N 255%N) 2%N 47%N 47%N.
Definition bf_x_c07f : state := mkState bf_s_c07f None 0.
(* the owner attaches (foreground); user 2 attaches two sessions, both background ({hi bkg=true}) *)
Definition bf_h_c07f : list (fault * op) :=
  [(NoFault, OSub 1 [] false); (NoFault, OSub 2 [] true); (NoFault, OSub 3 [] true)].
Definition bf_ban_c07f : op := OSetSub 1 2 [82%N; 87%N; 80%N].   (* {set sub user=2 mode="RWP"} by the owner *)

Lemma bf_example_c07f :
  let x3 := fst (run bf_dr_c07f bf_nr_c07f bf_sm_c07f bf_x_c07f bf_h_c07f) in
  let r := step bf_dr_c07f bf_nr_c07f bf_sm_c07f NoFault x3 bf_ban_c07f in
  (exists c, ca x3 = Some c /\ In (2%N, (2%N, true)) (c_sess c) /\ In (3%N, (2%N, true)) (c_sess c) /\
             (forall sid b, In (sid, (2%N, b)) (c_sess c) -> b = true) /\
             option_map p_online (alookup 2%N (c_users c)) = Some 0 /\
             ban_target_c07f bf_sm_c07f c bf_ban_c07f = Some (2%N, false, 0%N)) /\
  (exists c', ca (fst r) = Some c' /\ cgiven c' 2%N = Some 14%N /\ no_sess c' 2%N /\
              In (2%N, Evicted false) (snd r) /\ In (3%N, Evicted false) (snd r)).
Proof.
  cbv zeta. split.
  - vm_compute. eexists. split; [reflexivity|]. split; [right; left; reflexivity|]. split; [right; right; left; reflexivity|].
    split; [|split; reflexivity].
    intros sid b [H|[H|[H|[]]]]; inv H; reflexivity.
  - vm_compute. eexists. split; [reflexivity|]. split; [reflexivity|]. split.
    + intros sid b [H|[]]. inv H.
    + split; [left; reflexivity|right; left; reflexivity].
Qed.
