(* C14  Life cycle of attachments: sessions, hub and topics as communicating processes.

   Small-step INTERLEAVING semantics.  One step = one handler body of the Go code at the
   granularity of one channel receive (hub.go:151-344 join/unreg, init_topic.go:21-132,
   topic.go:298-363 registerSession/unregisterSession, 505-539 termination, 1332-1337
   slow-consumer eviction, 3309-3357 evictUser, session.go:387-428 detach/cleanUp, 617-682
   subscribe/leave, hdl_websock.go:132-133 detach in the write loop).
   Definitions only.  Everything is computable: [exec l c = Some c'] is the step relation.

   What is abstracted (said in the manifest too):
   - queues are UNBOUNDED FIFOs (real buffers: hub.join 256, hub.unreg 256, topic.reg/unreg
     256, topic.exit 1, session.detach 64): deadlocks that need a full buffer are outside;
   - the queues topic.reg / topic.unreg / topic.exit of ALL topic instances are kept in one
     list each, tagged with the instance; an instance receives the FIRST item carrying its tag
     (per-instance FIFO order is exactly the channel's order);
   - loops over a Go map (all sessions of a topic, all subscriptions of a session) are written
     point-wise over the session/instance functions;
   - group topics, with or without channel functionality (Topic.isChan), addressed by the group
     name or by the channel name (grpXXX / chnXXX: both expand to the same hub name; the name
     form travels in msg.Original and decides asChan, topic.go:3756-3764); {del what=topic} is
     issued by the owner; the subscription rows of the store, access control, the per-user
     online counters, presence, p2p, 'me', account deletion are not in this model (the driver
     exercises them on the real code);
   - a store call can FAIL at one place: store.Topics.Delete inside Hub.topicUnreg (step [HubUnregFail], round
     s14d); the topic's status word (paused / marked deleted bits) is Sys/TopicStatusC14d.v, of which this file
     keeps `paused` as the phase PInit and `marked deleted` as [i_deleted];
   - Session.detach is one of the unbounded queues: [s_detach] always appends.  The real channel has 64 slots and
     the sender WAITS when it is full; that a notice is never dropped is checked on the code by the many-topics
     scenarios of the driver (tools/props/c14d.py), not proved;
   - a topic NAME can have several INSTANCES over time (unload + reload); Session.subs points
     to the instance whose channels it holds, exactly like the Go Subscription struct. *)
From Coq Require Import List Arith Bool.
Import ListNotations.

Definition sid := nat.
Definition tid := nat.
Definition inst := nat.
Definition rid := nat.
Definition uid := nat.

Inductive rkind := KSub | KLeave (unsub : bool) | KDel.

(* a ClientComMessage travelling through join / reg / unreg; r_init = msg.init;
   r_aschan = types.IsChannel(msg.Original): the client wrote chnXXX *)
Record req := mkReq { r_sid : sid; r_rid : rid; r_kind : rkind; r_topic : tid; r_init : bool; r_aschan : bool }.

Inductive code := COk | CAlready | CNotJoined | CAttachFirst | CLocked | CNotFound | CDenied | CNoAction | CEvicted | CUseOther | CInternal.

(* ghost outbox entry: ctrl with the request id (None: unsolicited notice), code, topic *)
Record reply := mkRep { p_rid : option rid; p_code : code; p_topic : tid }.

Record sess := mkSess {
  s_subs : list (tid * inst);   (* Session.subs: name -> channels of that instance *)
  s_inflight : nat;             (* len(inflightReqs.sem): 0 or 1 *)
  s_term : bool;                (* terminating flag *)
  s_done : bool;                (* cleanUp ran to its end *)
  s_out : list reply;           (* ghost: everything queued to the client *)
  s_detachq : list tid }.       (* Session.detach *)

Inductive phase := PInit | PRun | PDead.

Record tinst := mkInst {
  i_name : tid;
  i_sessions : list sid;        (* Topic.sessions *)
  i_phase : phase;              (* PInit: topicInit goroutine, paused; PRun: run loop; PDead: no goroutine *)
  i_deleted : bool;             (* topicStatusMarkedDeleted *)
  i_chansub : list sid }.       (* the sessions of Topic.sessions whose perSessionData.isChanSub is set *)

Inductive hmsg := HUnload (t : tid) | HDel (r : req).

Record config := mkCfg {
  c_sess : sid -> sess;
  c_inst : inst -> tinst;
  c_next : inst;                      (* instances created so far *)
  c_table : tid -> option inst;       (* Hub.topics *)
  c_hjoin : list req;                 (* Hub.join *)
  c_hunreg : list hmsg;               (* Hub.unreg *)
  c_inits : list (inst * req);        (* running topicInit goroutines with their join *)
  c_treg : list (inst * req);         (* Topic.reg of every instance *)
  c_tunreg : list (inst * req);       (* Topic.unreg of every instance *)
  c_texit : list (inst * bool);       (* Topic.exit of every instance; bool: reason = StopDeleted *)
  c_store : tid -> bool;              (* the topic row exists *)
  c_owner : tid -> uid;
  c_user : sid -> uid;
  c_nextrid : rid;
  c_ischan : tid -> bool }.           (* Topic.isChan, loaded from the topic row (UseBt): channel functionality enabled *)

Inductive label :=
| ClientSub (s : sid) (t : tid) (ch : bool)                  (* ch: the topic is written chnXXX *)
| ClientLeave (s : sid) (t : tid) (unsub : bool) (ch : bool)
| ClientDel (s : sid) (t : tid)
| HubJoin
| InitDone (i : inst) (ok : bool)
| TopicReg (i : inst) (ok : bool)
| TopicUnreg (i : inst)
| Evict (i : inst) (s : sid)
| IdleTimeout (i : inst)
| HubUnreg (ownerVisible : bool)
| TopicExit (i : inst)
| SessDetach (s : sid)
| DiscBegin (s : sid)
| DiscEnd (s : sid)
| HubUnregFail.                                              (* {del topic} at the head of Hub.unreg; store.Topics.Delete FAILS *)

(* ---------- small library ---------- *)

Fixpoint lookup (t : tid) (l : list (tid * inst)) : option inst :=
  match l with
  | [] => None
  | (t', j) :: r => if Nat.eqb t t' then Some j else lookup t r
  end.

Fixpoint remove_key (t : tid) (l : list (tid * inst)) : list (tid * inst) :=
  match l with
  | [] => []
  | (t', j) :: r => if Nat.eqb t t' then remove_key t r else (t', j) :: remove_key t r
  end.

Fixpoint mem (x : nat) (l : list nat) : bool :=
  match l with [] => false | y :: r => Nat.eqb x y || mem x r end.

Fixpoint remove_nat (x : nat) (l : list nat) : list nat :=
  match l with [] => [] | y :: r => if Nat.eqb x y then remove_nat x r else y :: remove_nat x r end.

(* first item tagged i, and the queue without it *)
Fixpoint take_first {A : Type} (i : inst) (l : list (inst * A)) : option (A * list (inst * A)) :=
  match l with
  | [] => None
  | (j, a) :: r =>
      if Nat.eqb i j then Some (a, r)
      else match take_first i r with
           | Some (b, r') => Some (b, (j, a) :: r')
           | None => None
           end
  end.

Definition has_tag {A : Type} (i : inst) (l : list (inst * A)) : bool :=
  existsb (fun x => Nat.eqb i (fst x)) l.

Definition upd {A : Type} (f : nat -> A) (k : nat) (v : A) : nat -> A :=
  fun x => if Nat.eqb x k then v else f x.

(* ---------- updaters ---------- *)

Definition set_sess (c : config) (f : sid -> sess) : config :=
  mkCfg f (c_inst c) (c_next c) (c_table c) (c_hjoin c) (c_hunreg c) (c_inits c) (c_treg c) (c_tunreg c)
        (c_texit c) (c_store c) (c_owner c) (c_user c) (c_nextrid c) (c_ischan c).
Definition set_inst (c : config) (f : inst -> tinst) : config :=
  mkCfg (c_sess c) f (c_next c) (c_table c) (c_hjoin c) (c_hunreg c) (c_inits c) (c_treg c) (c_tunreg c)
        (c_texit c) (c_store c) (c_owner c) (c_user c) (c_nextrid c) (c_ischan c).
Definition set_next (c : config) (n : inst) : config :=
  mkCfg (c_sess c) (c_inst c) n (c_table c) (c_hjoin c) (c_hunreg c) (c_inits c) (c_treg c) (c_tunreg c)
        (c_texit c) (c_store c) (c_owner c) (c_user c) (c_nextrid c) (c_ischan c).
Definition set_table (c : config) (f : tid -> option inst) : config :=
  mkCfg (c_sess c) (c_inst c) (c_next c) f (c_hjoin c) (c_hunreg c) (c_inits c) (c_treg c) (c_tunreg c)
        (c_texit c) (c_store c) (c_owner c) (c_user c) (c_nextrid c) (c_ischan c).
Definition set_hjoin (c : config) (l : list req) : config :=
  mkCfg (c_sess c) (c_inst c) (c_next c) (c_table c) l (c_hunreg c) (c_inits c) (c_treg c) (c_tunreg c)
        (c_texit c) (c_store c) (c_owner c) (c_user c) (c_nextrid c) (c_ischan c).
Definition set_hunreg (c : config) (l : list hmsg) : config :=
  mkCfg (c_sess c) (c_inst c) (c_next c) (c_table c) (c_hjoin c) l (c_inits c) (c_treg c) (c_tunreg c)
        (c_texit c) (c_store c) (c_owner c) (c_user c) (c_nextrid c) (c_ischan c).
Definition set_inits (c : config) (l : list (inst * req)) : config :=
  mkCfg (c_sess c) (c_inst c) (c_next c) (c_table c) (c_hjoin c) (c_hunreg c) l (c_treg c) (c_tunreg c)
        (c_texit c) (c_store c) (c_owner c) (c_user c) (c_nextrid c) (c_ischan c).
Definition set_treg (c : config) (l : list (inst * req)) : config :=
  mkCfg (c_sess c) (c_inst c) (c_next c) (c_table c) (c_hjoin c) (c_hunreg c) (c_inits c) l (c_tunreg c)
        (c_texit c) (c_store c) (c_owner c) (c_user c) (c_nextrid c) (c_ischan c).
Definition set_tunreg (c : config) (l : list (inst * req)) : config :=
  mkCfg (c_sess c) (c_inst c) (c_next c) (c_table c) (c_hjoin c) (c_hunreg c) (c_inits c) (c_treg c) l
        (c_texit c) (c_store c) (c_owner c) (c_user c) (c_nextrid c) (c_ischan c).
Definition set_texit (c : config) (l : list (inst * bool)) : config :=
  mkCfg (c_sess c) (c_inst c) (c_next c) (c_table c) (c_hjoin c) (c_hunreg c) (c_inits c) (c_treg c) (c_tunreg c)
        l (c_store c) (c_owner c) (c_user c) (c_nextrid c) (c_ischan c).
Definition set_store (c : config) (f : tid -> bool) : config :=
  mkCfg (c_sess c) (c_inst c) (c_next c) (c_table c) (c_hjoin c) (c_hunreg c) (c_inits c) (c_treg c) (c_tunreg c)
        (c_texit c) f (c_owner c) (c_user c) (c_nextrid c) (c_ischan c).
Definition set_nextrid (c : config) (n : rid) : config :=
  mkCfg (c_sess c) (c_inst c) (c_next c) (c_table c) (c_hjoin c) (c_hunreg c) (c_inits c) (c_treg c) (c_tunreg c)
        (c_texit c) (c_store c) (c_owner c) (c_user c) n (c_ischan c).

(* Session.queueOut: dropped once the session is terminating (session.go:318) *)
Definition s_reply (x : sess) (p : reply) : sess :=
  if s_term x then x
  else mkSess (s_subs x) (s_inflight x) (s_term x) (s_done x) (s_out x ++ [p]) (s_detachq x).
(* inflightReqs.Done() *)
Definition s_donereq (x : sess) : sess :=
  mkSess (s_subs x) (pred (s_inflight x)) (s_term x) (s_done x) (s_out x) (s_detachq x).
Definition s_addreq (x : sess) : sess :=
  mkSess (s_subs x) (S (s_inflight x)) (s_term x) (s_done x) (s_out x) (s_detachq x).
Definition s_setsubs (x : sess) (l : list (tid * inst)) : sess :=
  mkSess l (s_inflight x) (s_term x) (s_done x) (s_out x) (s_detachq x).
Definition s_setdetachq (x : sess) (l : list tid) : sess :=
  mkSess (s_subs x) (s_inflight x) (s_term x) (s_done x) (s_out x) l.
(* Session.detachSession: skipped once terminating (session.go:388) *)
Definition s_detach (x : sess) (t : tid) : sess :=
  if s_term x then x else s_setdetachq x (s_detachq x ++ [t]).

Definition on_sess (c : config) (s : sid) (f : sess -> sess) : config :=
  set_sess c (upd (c_sess c) s (f (c_sess c s))).
Definition on_inst (c : config) (i : inst) (f : tinst -> tinst) : config :=
  set_inst c (upd (c_inst c) i (f (c_inst c i))).

Definition i_setsessions (x : tinst) (l : list sid) : tinst := mkInst (i_name x) l (i_phase x) (i_deleted x) (i_chansub x).
Definition i_setphase (x : tinst) (p : phase) : tinst := mkInst (i_name x) (i_sessions x) p (i_deleted x) (i_chansub x).
Definition i_setdeleted (x : tinst) : tinst := mkInst (i_name x) (i_sessions x) (i_phase x) true (i_chansub x).
Definition i_setchansub (x : tinst) (l : list sid) : tinst := mkInst (i_name x) (i_sessions x) (i_phase x) (i_deleted x) l.

(* Topic.verifyChannelAccess(msg.Original) (topic.go:3756-3764) -> (asChan, err): a name that is not a channel
   name: (false, nil); a channel name on a channel-enabled topic: (true, nil); a channel name on a topic
   without channel functionality: (false, ErrNotFound) *)
Definition verify_chan (c : config) (t : tid) (r : req) : bool * bool :=
  if r_aschan r then (if c_ischan c t then (true, false) else (false, true)) else (false, false).

Definition rep (r : req) (cd : code) : reply := mkRep (Some (r_rid r)) cd (r_topic r).

(* Topic.isInactive: paused (being initialised) or marked deleted *)
Definition inactive (x : tinst) : bool :=
  match i_phase x with PInit => true | _ => i_deleted x end.

Definition is_init (p : phase) : bool := match p with PInit => true | _ => false end.
Definition is_run (p : phase) : bool := match p with PRun => true | _ => false end.
Definition is_dead (p : phase) : bool := match p with PDead => true | _ => false end.

(* init_topic.go:80-88: drain of the unreg queue of a topic whose load failed *)
Fixpoint drain_unreg (i : inst) (l : list (inst * req)) (f : sid -> sess) : list (inst * req) * (sid -> sess) :=
  match l with
  | [] => ([], f)
  | (j, r) :: rest =>
      if Nat.eqb i j then
        let x := f (r_sid r) in
        let x := if r_init r then s_reply (s_donereq x) (rep r CLocked) else x in
        drain_unreg i rest (upd f (r_sid r) x)
      else
        let '(l', f') := drain_unreg i rest f in ((j, r) :: l', f')
  end.

(* init_topic.go:68-71: pending joins go back to the hub *)
Definition requeue_reg (i : inst) (l : list (inst * req)) : list (inst * req) * list req :=
  (filter (fun x => negb (Nat.eqb i (fst x))) l, map snd (filter (fun x => Nat.eqb i (fst x)) l)).

(* ---------- Topic.unreg: unregisterSession / handleLeaveRequest ----------
   topic.go:298-329, 689-827 handleLeaveRequest, 3226-3306 replyLeaveUnsub, 3309-3357 evictUser.
   [unreg_step] is the function from l.705 on: the message is taken from Topic.unreg and processed;
   asChan / err are what verifyChannelAccess returned at l.692-703 (see the TopicUnreg step below). *)
Definition unreg_step (c : config) (i : inst) (asChan err : bool) : option config :=
  if negb (is_run (i_phase (c_inst c i))) then None else
  match take_first i (c_tunreg c) with
  | None => None
  | Some (r, unreg') =>
      let c := set_tunreg c unreg' in
      let s := r_sid r in
      let y := c_inst c i in
      let t := i_name y in
      let c :=
        if inactive y then
          (if r_init r then on_sess c s (fun x => s_reply x (rep r CLocked)) else c)
        else match r_init r, r_kind r with
             | true, KLeave true =>
                 if Nat.eqb (c_user c s) (c_owner c t) then on_sess c s (fun x => s_reply x (rep r CDenied))
                 else if err then
                   (* replyLeaveUnsub l.3243-3250 repeats verifyChannelAccess: a second 404 *)
                   on_sess c s (fun x => s_reply x (rep r CNotFound))
                 else
                   let u := c_user c s in
                   let gone := fun s' => mem s' (i_sessions y) && Nat.eqb (c_user c s') u in
                   let c := on_sess c s (fun x => s_reply x (rep r COk)) in
                   let c := set_sess c (fun s' =>
                              let x := c_sess c s' in
                              if gone s' then
                                let x := s_detach x t in
                                if Nat.eqb s' s then x else s_reply x (mkRep None CEvicted t)
                              else x) in
                   on_inst c i (fun y => i_setchansub (i_setsessions y (filter (fun s' => negb (gone s')) (i_sessions y)))
                                                      (filter (fun s' => negb (gone s')) (i_chansub y)))
             | _, _ =>
                 if mem s (i_sessions y) then
                   (* l.721-731: remSession; sess.delSub(t.name); THEN the name-form check: a subscription attached
                      under the channel name addressed by the group name or vice versa (and every channel
                      subscription dropped by the server, asChan = false) is answered 404 - after both sides
                      have been detached *)
                   let c := on_inst c i (fun y => i_setchansub (i_setsessions y (remove_nat s (i_sessions y)))
                                                               (remove_nat s (i_chansub y))) in
                   on_sess c s (fun x =>
                                  let x := s_setsubs x (remove_key t (s_subs x)) in
                                  if r_init r
                                  then s_reply x (rep r (if Bool.eqb (mem s (i_chansub y)) asChan then COk else CNotFound))
                                  else x)
                 else c    (* not attached any more (evicted meanwhile): no reply at all *)
             end in
      Some (if r_init r then on_sess c s s_donereq else c)
  end.

(* ---------- the steps ---------- *)

Definition exec (l : label) (c : config) : option config :=
  match l with
  | ClientSub s t ch =>
      (* session.go:617-647 *)
      let x := c_sess c s in
      if s_term x || negb (Nat.eqb (s_inflight x) 0) then None else
      let r := mkReq s (c_nextrid c) KSub t true ch in
      let c := set_nextrid c (S (c_nextrid c)) in
      match lookup t (s_subs x) with
      | Some _ => Some (on_sess c s (fun x => s_reply x (rep r CAlready)))
      | None => Some (set_hjoin (on_sess c s s_addreq) (c_hjoin c ++ [r]))
      end
  | ClientLeave s t u ch =>
      (* session.go:650-682 *)
      let x := c_sess c s in
      if s_term x || negb (Nat.eqb (s_inflight x) 0) then None else
      let r := mkReq s (c_nextrid c) (KLeave u) t true ch in
      let c := set_nextrid c (S (c_nextrid c)) in
      match lookup t (s_subs x) with
      | Some j => Some (set_tunreg (on_sess c s s_addreq) (c_tunreg c ++ [(j, r)]))
      | None => Some (on_sess c s (fun x => s_reply x (rep r (if u then CAttachFirst else CNotJoined))))
      end
  | ClientDel s t =>
      (* session.go:1214-1228; model scope: the owner deletes *)
      let x := c_sess c s in
      if s_term x || negb (Nat.eqb (c_user c s) (c_owner c t)) then None else
      let r := mkReq s (c_nextrid c) KDel t true false in
      Some (set_hunreg (set_nextrid c (S (c_nextrid c))) (c_hunreg c ++ [HDel r]))
  | HubJoin =>
      (* hub.go:154-220 *)
      match c_hjoin c with
      | [] => None
      | r :: rest =>
          let c := set_hjoin c rest in
          match c_table c (r_topic r) with
          | None =>
              let i := c_next c in
              let c := set_inst c (upd (c_inst c) i (mkInst (r_topic r) [] PInit false [])) in
              let c := set_table c (upd (c_table c) (r_topic r) (Some i)) in
              Some (set_inits (set_next c (S i)) (c_inits c ++ [(i, r)]))
          | Some i =>
              if inactive (c_inst c i)
              then Some (on_sess c (r_sid r) (fun x => s_reply (s_donereq x) (rep r CLocked)))
              else Some (set_treg c (c_treg c ++ [(i, r)]))
          end
      end
  | InitDone i ok =>
      (* init_topic.go:21-132 *)
      if negb (is_init (i_phase (c_inst c i))) then None else
      match take_first i (c_inits c) with
      | None => None
      | Some (r, inits') =>
          let t := i_name (c_inst c i) in
          let c := set_inits c inits' in
          if ok then
            if negb (c_store c t) then None else     (* a load can only succeed on a stored topic *)
            if i_deleted (c_inst c i) then
              (* l.111-114: "someone deleted the topic": return; the deferred Done runs, NO reply *)
              Some (on_sess (on_inst c i (fun x => i_setphase x PDead)) (r_sid r) s_donereq)
            else
              (* l.121-131: t.reg <- join; un-pause; go t.run *)
              Some (set_treg (on_inst c i (fun x => i_setphase x PRun)) (c_treg c ++ [(i, r)]))
          else
            (* l.61-100 *)
            let c := set_table c (upd (c_table c) t None) in          (* h.topicDel(name): by NAME *)
            let c := on_sess c (r_sid r) (fun x => s_reply x (rep r CNotFound)) in
            let '(reg', back) := requeue_reg i (c_treg c) in
            let c := set_hjoin (set_treg c reg') (c_hjoin c ++ back) in
            let '(unreg', f') := drain_unreg i (c_tunreg c) (c_sess c) in
            let c := set_sess (set_tunreg c unreg') f' in
            let c := on_inst c i (fun x => i_setphase x PDead) in
            match take_first i (c_texit c) with
            | Some (_, exit') =>
                (* l.95-98: msg.done <- true with done == nil for every exit sent by the hub:
                   the goroutine parks forever; the deferred Done never runs *)
                Some (set_texit c exit')
            | None => Some (on_sess c (r_sid r) s_donereq)
            end
      end
  | TopicReg i ok =>
      (* topic.go:333-363 registerSession, 623-685 handleSubscription, 1394-1400 addSub / addSession(sess, asUid, asChan) *)
      if negb (is_run (i_phase (c_inst c i))) then None else
      match take_first i (c_treg c) with
      | None => None
      | Some (r, reg') =>
          let c := set_treg c reg' in
          let s := r_sid r in
          let t := i_name (c_inst c i) in
          let c :=
            if inactive (c_inst c i) then on_sess c s (fun x => s_reply x (rep r CLocked))
            else match lookup t (s_subs (c_sess c s)) with
                 | Some _ => on_sess c s (fun x => s_reply x (rep r CAlready))
                 | None =>
                     let '(asChan, err) := verify_chan c t r in
                     if err then
                       (* l.626-631: a topic without channel functionality addressed as a channel *)
                       on_sess c s (fun x => s_reply x (rep r CNotFound))
                     else if ok then
                       let c := on_sess c s (fun x => s_reply (s_setsubs x ((t, i) :: s_subs x)) (rep r COk)) in
                       (* addSession: an existing entry is left as it is *)
                       on_inst c i (fun y => i_setchansub
                                               (i_setsessions y (if mem s (i_sessions y) then i_sessions y else s :: i_sessions y))
                                               (if mem s (i_sessions y) then i_chansub y
                                                else if asChan then s :: i_chansub y else i_chansub y))
                     else
                       (* thisUserSub refuses (the per-user records are not in this model: [ok] is any outcome):
                          a channel name used by a group subscriber: 303 "use the group name" (l.1646-1652);
                          a group name without the J permission: 403 (l.1590-1593) *)
                       on_sess c s (fun x => s_reply x (rep r (if asChan then CUseOther else CDenied)))
                 end in
          Some (on_sess c s s_donereq)
      end
  | TopicUnreg i =>
      (* the message at the head of Topic.unreg.  l.692-703: asChan is computed for client requests only; on an
         error (a topic without channel functionality addressed as a channel) the 404 is queued and the
         function GOES ON (no return): [unreg_step] *)
      match take_first i (c_tunreg c) with
      | None => None
      | Some (r, _) =>
          let '(asChan, err) := if r_init r then verify_chan c (i_name (c_inst c i)) r else (false, false) in
          unreg_step (if err then on_sess c (r_sid r) (fun x => s_reply x (rep r CNotFound)) else c) i asChan err
      end
  | Evict i s =>
      (* topic.go:1326-1337: queueOut failed -> unregisterSession(init:false) *)
      let y := c_inst c i in
      if negb (is_run (i_phase y)) || negb (mem s (i_sessions y)) then None else
      if inactive y then Some c else
      (* handleLeaveRequest with init = false: remSession, delSub; (asChan = false: a channel subscription then
         takes the early return of l.724-731, which only skips the per-user accounting) *)
      let c := on_inst c i (fun y => i_setchansub (i_setsessions y (remove_nat s (i_sessions y))) (remove_nat s (i_chansub y))) in
      Some (on_sess c s (fun x => s_setsubs x (remove_key (i_name y) (s_subs x))))
  | IdleTimeout i =>
      (* topic.go:493-503 (the kill timer is armed only while no session is attached) *)
      let y := c_inst c i in
      if negb (is_run (i_phase y)) then None else
      match i_sessions y with
      | [] => Some (set_hunreg c (c_hunreg c ++ [HUnload (i_name y)]))
      | _ => None
      end
  | HubUnreg vis =>
      (* hub.go:280-293, 392-561 *)
      match c_hunreg c with
      | [] => None
      | HUnload t :: rest =>
          let c := set_hunreg c rest in
          match c_table c t with
          | Some i =>
              let c := on_inst c i i_setdeleted in
              let c := set_table c (upd (c_table c) t None) in
              Some (set_texit c (c_texit c ++ [(i, false)]))
          | None => Some c
          end
      | HDel r :: rest =>
          let c := set_hunreg c rest in
          let t := r_topic r in
          match c_table c t with
          | Some i =>
              if is_init (i_phase (c_inst c i)) && negb vis then
                (* t.owner not loaded yet: forwarded to t.meta, where replyDelTopic finds the owner
                   and only logs "SHOULD NOT HAPPEN": the request disappears *)
                Some c
              else
                let c := on_inst c i i_setdeleted in
                let c := set_store c (upd (c_store c) t false) in
                let c := on_sess c (r_sid r) (fun x => s_reply x (rep r COk)) in
                let c := set_table c (upd (c_table c) t None) in
                Some (set_texit c (c_texit c ++ [(i, true)]))
          | None =>
              if c_store c t
              then Some (on_sess (set_store c (upd (c_store c) t false)) (r_sid r) (fun x => s_reply x (rep r COk)))
              else Some (on_sess c (r_sid r) (fun x => s_reply x (rep r CNoAction)))
          end
      end
  | TopicExit i =>
      (* topic.go:586-588, 505-539 *)
      let y := c_inst c i in
      if negb (is_run (i_phase y)) then None else
      match take_first i (c_texit c) with
      | None => None
      | Some (_, exit') =>
          let c := set_texit c exit' in
          let c := set_sess c (fun s => let x := c_sess c s in if mem s (i_sessions y) then s_detach x (i_name y) else x) in
          Some (on_inst c i (fun y => i_setphase y PDead))
      end
  | SessDetach s =>
      (* hdl_websock.go:132-133 *)
      match s_detachq (c_sess c s) with
      | [] => None
      | t :: rest => Some (on_sess c s (fun x => s_setdetachq (s_setsubs x (remove_key t (s_subs x))) rest))
      end
  | DiscBegin s =>
      (* session.go:413-414: terminating := 1; purgeChannels *)
      let x := c_sess c s in
      if s_term x then None else
      Some (on_sess c s (fun x => mkSess (s_subs x) (s_inflight x) true false (s_out x) []))
  | DiscEnd s =>
      (* session.go:415-427: inflightReqs.Wait() returned; unsubAll *)
      let x := c_sess c s in
      if negb (s_term x) || s_done x || negb (Nat.eqb (s_inflight x) 0) then None else
      let c := set_tunreg c (c_tunreg c ++ map (fun tj => (snd tj, mkReq s 0 (KLeave false) (fst tj) false false)) (s_subs x)) in
      Some (on_sess c s (fun x => mkSess (s_subs x) (s_inflight x) true true (s_out x) (s_detachq x)))
  | HubUnregFail =>
      (* hub.go:392-422 (case 1.1.1) and 526-532 (case 1.2.1.1) when store.Topics.Delete returns an error.
         Case 1.1.1: t.markPaused(true); err := store.Topics.Delete(..); t.markPaused(false);
         sess.queueOut(ErrUnknownReply) (500); return err - BEFORE h.topicDel, t.markDeleted() and the exit message.
         The status word: TopicStatusC14d.unreg_del_status (markPaused(true) then markPaused(false) gives the word
         back, theorem c14_failed_delete_restores_status), so the instance is left as it is.
         Enabled when the call is reached: the topic is registered and not being loaded (a loading topic does not
         show its owner yet: [HubUnreg false]), or it is not registered and its row exists (case 1.2: the owner's
         subscription is found).  The store row stays. *)
      match c_hunreg c with
      | HDel r :: rest =>
          let c := set_hunreg c rest in
          let t := r_topic r in
          match c_table c t with
          | Some i =>
              if is_init (i_phase (c_inst c i)) then None
              else Some (on_sess c (r_sid r) (fun x => s_reply x (rep r CInternal)))
          | None =>
              if c_store c t then Some (on_sess c (r_sid r) (fun x => s_reply x (rep r CInternal))) else None
          end
      | _ => None
      end
  end.

Definition step (c : config) (l : label) (c' : config) : Prop := exec l c = Some c'.

Definition sess0 : sess := mkSess [] 0 false false [] [].
Definition inst0 : tinst := mkInst 0 [] PDead false [].

(* every topic named in [stored] exists in the store; nothing is loaded; no session is attached *)
Definition init_config (stored : tid -> bool) (owner : tid -> uid) (user : sid -> uid) (ischan : tid -> bool) : config :=
  mkCfg (fun _ => sess0) (fun _ => inst0) 0 (fun _ => None) [] [] [] [] [] [] stored owner user 1 ischan.

Fixpoint run (ls : list label) (c : config) : option config :=
  match ls with
  | [] => Some c
  | l :: r => match exec l c with Some c' => run r c' | None => None end
  end.

(* The step at which the REAL code parks a goroutine for ever (init_topic.go:95-98: send on a
   nil `done` channel): load failure of an instance for which the hub already queued an exit. *)
Definition nil_done_block (c : config) (l : label) : bool :=
  match l with
  | InitDone i false => has_tag i (c_texit c)
  | _ => false
  end.

Inductive reach (stored : tid -> bool) (owner : tid -> uid) (user : sid -> uid) : config -> Prop :=
| reach_init : forall ischan, reach stored owner user (init_config stored owner user ischan)   (* any set of channel-enabled topics *)
| reach_step : forall c l c', reach stored owner user c -> step c l c' -> reach stored owner user c'.

(* executions in which that one step does not occur *)
Inductive reach_safe (stored : tid -> bool) (owner : tid -> uid) (user : sid -> uid) : config -> Prop :=
| rs_init : forall ischan, reach_safe stored owner user (init_config stored owner user ischan)
| rs_step : forall c l c', reach_safe stored owner user c -> nil_done_block c l = false -> step c l c' ->
                           reach_safe stored owner user c'.

(* ---------- scheduler used by the model runner for SEQUENTIAL schedules ----------
   after one client request, run internal steps in a fixed order until none is enabled *)
Definition internal_labels (c : config) (sids : list sid) : list label :=
  [HubJoin; HubUnreg true] ++
  flat_map (fun i => [InitDone i true; InitDone i false; TopicReg i true; TopicUnreg i; TopicExit i]) (seq 0 (c_next c)) ++
  map SessDetach sids.

Fixpoint first_enabled (ls : list label) (c : config) : option config :=
  match ls with
  | [] => None
  | l :: r => match exec l c with Some c' => Some c' | None => first_enabled r c end
  end.

Fixpoint settle (fuel : nat) (sids : list sid) (c : config) : config :=
  match fuel with
  | O => c
  | S f => match first_enabled (internal_labels c sids) c with
           | Some c' => settle f sids c'
           | None => c
           end
  end.
