(* C10, "never leaks" at the SOURCE and end to end, for every kind of notification a p2p/group topic
   addresses to the 'me' topics of its subscribers: presSubsOffline (msg, del, on, off, ...),
   presSingleUserOffline (read, recv, del, ?unkn, ?none, gone), infoSubsOffline ({info} read / recv / kp).

   A 'me' topic gates on/off by the contact's `enabled` flag (PresProofs.proc_me_gate) but hands every
   CONTENT notification (msg, del, read, recv, upd and every {info}) to all sessions of its owner without
   looking at anything ("permissions already checked there", topic.go:1289-1291).  So for content
   notifications the check at the sending topic is the only one, and this file proves, for every state and
   every operation, that whatever a step puts in flight satisfies it; then, by induction over histories,
   that every content frame a session receives on 'me' was addressed to a non-deleted subscriber with P
   (and R for {info}) of the sending topic, in a reachable state. *)
From Coq Require Import List NArith ZArith Bool Lia.
From Tinode Require Import Sys.Pres Sys.PresProofs.
Import ListNotations.
Open Scope N_scope.

(* ------------------------------------------------------------------ histories: reach is closed under step *)

Lemma run_gen_app rep h1 : forall s h2,
  fst (run_gen rep s (h1 ++ h2)) = fst (run_gen rep (fst (run_gen rep s h1)) h2).
Proof.
  induction h1 as [|o r IH]; intros s h2; simpl; [reflexivity|].
  destruct (step_gen rep s o) as [s1 o1]. specialize (IH s1 h2).
  destruct (run_gen rep s1 (r ++ h2)) as [s2 o2]. destruct (run_gen rep s1 r) as [s3 o3]. simpl in *. exact IH.
Qed.

Lemma reach_init : reach init.
Proof. exists []. reflexivity. Qed.

Lemma reach_step s o : reach s -> reach (fst (step s o)).
Proof.
  intros [h ->]. exists (h ++ [o]). unfold run. rewrite run_gen_app. simpl.
  unfold step. destruct (step_gen true (fst (run_gen true init h)) o). reflexivity.
Qed.

Lemma reach_ind (P : state -> Prop) :
  P init -> (forall s o, reach s -> P s -> P (fst (step s o))) -> forall s, reach s -> P s.
Proof.
  intros H0 HS s [h ->]. induction h as [|o r IH] using rev_ind; [exact H0|].
  unfold run. rewrite run_gen_app. simpl.
  assert (E : fst (let '(s1, o1) := step_gen true (fst (run_gen true init r)) o in (s1, o1 ++ [])) =
              fst (step (fst (run init r)) o)).
  { unfold step, run. destruct (step_gen true (fst (run_gen true init r)) o). reflexivity. }
  rewrite E. apply HS; [exists r; reflexivity | exact IH].
Qed.

(* ------------------------------------------------------------------ content notifications *)

(* on / off / ?unkn / ?none / gone / acs are the status handshake and the removal / permission-change notices;
   everything else carries content *)
Definition is_content (w : what) : bool :=
  match w with
  | WOn | WOff | WUnkn | WNone | WGone | WAcs => false
  | _ => true
  end.

Definition nc (g : msg) : Prop := is_content (m_what g) = false.

Lemma info_content w : is_info w = true -> is_content w = true.
Proof. destruct w; simpl; auto. Qed.

(* procPresReq does not touch a content notification: it returns it as it came, no table change, no reply *)
Lemma proc_content isme self subs from w c wr :
  is_content w = true -> proc_pres_req isme self subs from w c wr = mkPpr subs (Some w) None.
Proof. destruct w; simpl; try discriminate; reflexivity. Qed.

(* what a notification addressed to the 'me' topic of `uid` by topic t (cached state x) must satisfy *)
Definition addressed_ok (t : tname) (x : topic) (g : msg) : Prop :=
  forall uid, m_dst g = TMe uid ->
    exists p, In (uid, p) (t_users x) /\ p_deleted p = false /\
      (is_presencer (p_mode p) = true \/ (m_what g = WUpd /\ is_joiner (p_mode p) = true)) /\
      (is_info (m_what g) = true -> is_reader (p_mode p) = true) /\
      m_src g = original t uid /\ m_zombie g = false.

(* what every message put in flight by a step satisfies, s' = the state after the step *)
Definition fresh_ok (s' : state) (g : msg) : Prop :=
  is_content (m_what g) = true ->
  (is_info (m_what g) = true -> exists uid, m_dst g = TMe uid) /\
  (forall uid, m_dst g = TMe uid ->
     (match m_sender g with TMe _ => False | _ => True end) /\
     exists x, get_top s' (m_sender g) = Some x /\ addressed_ok (m_sender g) x g).

Lemma nc_fresh s' g : nc g -> fresh_ok s' g.
Proof. unfold nc, fresh_ok. intros -> [=]. Qed.

(* ---- the three emission functions, at the source *)

Lemma info_subs_offline_addressed t x from w sk g :
  In g (info_subs_offline t x from w sk) ->
  exists uid p, m_dst g = TMe uid /\ In (uid, p) (t_users x) /\ p_deleted p = false /\ m_what g = w /\
    is_presencer (p_mode p) = true /\ is_reader (p_mode p) = true /\
    m_src g = original t uid /\ m_sender g = t /\ m_zombie g = false.
Proof.
  unfold info_subs_offline. intros H. apply in_flat_map in H as [[uid p] [Hin H]].
  destruct (p_deleted p) eqn:D; simpl in H; [contradiction|].
  destruct (is_presencer (p_mode p)) eqn:P; simpl in H; [|contradiction].
  destruct (is_reader (p_mode p)) eqn:R; simpl in H; [|contradiction].
  destruct H as [<- | []]. exists uid, p. simpl. repeat split; auto.
Qed.

Lemma pres_subs_offline_shape z t x w c fsrc ftgt sk oo g :
  In g (pres_subs_offline z t x w c fsrc ftgt sk oo) ->
  exists uid p, m_dst g = TMe uid /\ In (uid, p) (t_users x) /\ p_deleted p = false /\ m_what g = w /\
    (exempt w = false -> is_presencer (p_mode p) = true \/ (w = WUpd /\ is_joiner (p_mode p) = true)) /\
    m_src g = original t uid /\ m_sender g = t /\ m_zombie g = z.
Proof.
  unfold pres_subs_offline. intros H. apply in_flat_map in H as [[uid p] [Hin H]].
  destruct (p_deleted p) eqn:D; simpl in H; [contradiction|].
  destruct (pres_offline_filter (p_mode p) w (Some fsrc)) eqn:F; simpl in H; [|contradiction].
  destruct H as [<- | []]. exists uid, p. simpl. repeat split; auto.
  intros E. eapply offline_filter_presencer; eauto.
Qed.

Lemma pres_single_offline_shape t uid mode w c sk oo g :
  In g (pres_single_offline t uid mode w c sk oo) ->
  exists m, mode = Some m /\ m_dst g = TMe uid /\ m_what g = w /\
    (exempt w = false -> is_presencer m = true \/ (w = WUpd /\ is_joiner m = true)) /\
    m_src g = original t uid /\ m_sender g = t /\ m_zombie g = false.
Proof.
  unfold pres_single_offline. destruct mode as [m|]; [|intros []].
  destruct (pres_offline_filter m w None) eqn:F; [|intros []].
  intros [<- | []]. exists m. simpl. repeat split; auto. intros E. eapply offline_filter_presencer; eauto.
Qed.

Lemma content_not_exempt w : is_content w = true -> exempt w = false.
Proof. destruct w; simpl; auto; discriminate. Qed.

(* ---- status-only emissions *)

Definition ncs (ms : list msg) : Prop := Forall nc ms.

Lemma ncs_app a b : ncs a -> ncs b -> ncs (a ++ b).
Proof. intros. apply Forall_app. split; auto. Qed.

Lemma ncs_pso z t x w c f1 f2 sk oo : is_content w = false -> ncs (pres_subs_offline z t x w c f1 f2 sk oo).
Proof.
  intros Hw. unfold ncs. rewrite Forall_forall. intros g Hg.
  apply pres_subs_offline_shape in Hg as (uid & p & _ & _ & _ & W & _). unfold nc. now rewrite W.
Qed.

Lemma ncs_pss t uid mode w c sk oo : is_content w = false -> ncs (pres_single_offline t uid mode w c sk oo).
Proof.
  intros Hw. unfold ncs. rewrite Forall_forall. intros g Hg.
  apply pres_single_offline_shape in Hg as (m & _ & _ & W & _). unfold nc. now rewrite W.
Qed.

Lemma ncs_puoi z u subs w : is_content w = false -> ncs (pres_users_of_interest z u subs w).
Proof.
  intros Hw. unfold ncs, pres_users_of_interest. rewrite Forall_forall. intros g Hg.
  apply in_map_iff in Hg as [e [<- _]]. exact Hw.
Qed.

Lemma nc_pson t w src f sk : is_content w = false -> nc (pres_subs_online t w src f sk).
Proof. intros Hw. exact Hw. Qed.

Lemma nc_psoo t uid orig w c sk : is_content w = false -> nc (pres_single_offline_offline t uid orig w c sk).
Proof. intros Hw. exact Hw. Qed.

Ltac ncsolve :=
  repeat first
    [ apply Forall_nil
    | apply ncs_app
    | apply Forall_cons
    | apply ncs_pso; reflexivity
    | apply ncs_pss; reflexivity
    | apply ncs_puoi; reflexivity
    | apply nc_pson; reflexivity
    | apply nc_psoo; reflexivity
    | match goal with |- ncs (if ?c then _ else _) => destruct c end
    | match goal with |- Forall nc (if ?c then _ else _) => destruct c end
    | match goal with |- ncs (match ?c with _ => _ end) => destruct c end
    | match goal with |- Forall nc (match ?c with _ => _ end) => destruct c end
    | progress unfold ncs ].

Lemma ncs_notify rep t uid old new sk : ncs (notify_sub_change_gen rep t uid old new sk).
Proof. unfold notify_sub_change_gen. ncsolve. Qed.

Lemma ncs_newsub t x u v : ncs (p2p_newsub_notifs t x u v).
Proof. unfold p2p_newsub_notifs. ncsolve. Qed.

Lemma ncs_sub_notif_me s u m : ncs (snd (sub_notif_me s u m)).
Proof. unfold sub_notif_me. destruct (me_marked m); simpl; ncsolve. Qed.

Lemma ncs_sub_notif_grp t x uid sid : ncs (snd (sub_notif_grp t x uid sid)).
Proof.
  unfold sub_notif_grp. destruct (negb (t_marked x)); simpl; [ncsolve|].
  destruct (p_online (get_pud x uid) =? 1)%Z; simpl; ncsolve.
Qed.

Lemma ncs_timeout z s t : ncs (timeout_offs z s t).
Proof. unfold timeout_offs. ncsolve. Qed.

Lemma proc_reply_what isme self subs from w c wr w' c' rr :
  r_reply (proc_pres_req isme self subs from w c wr) = Some (w', c', rr) -> is_content w' = false.
Proof.
  unfold proc_pres_req. intros H.
  destruct w; simpl in H; try discriminate;
    (destruct isme; [destruct (aget tname_eqb from subs) as [p|]; destruct c|]); simpl in H;
    repeat match type of H with
           | context[if ?x then _ else _] => destruct x; simpl in H
           end; try discriminate; inversion H; reflexivity.
Qed.

(* ------------------------------------------------------------------ what a step adds to the network *)

(* every message in flight after is either in flight before or satisfies Q *)
Definition adds (s s' : state) (Q : msg -> Prop) : Prop :=
  forall g, In g (s_net s') -> In g (s_net s) \/ Q g.

Lemma adds_refl s Q : adds s s Q.
Proof. intros g H. now left. Qed.

Lemma adds_trans s1 s2 s3 Q : adds s1 s2 Q -> adds s2 s3 Q -> adds s1 s3 Q.
Proof. intros A B g H. destruct (B g H) as [H2 | H2]; [apply (A g H2) | now right]. Qed.

Lemma adds_weaken s s' (Q Q' : msg -> Prop) : (forall g, Q g -> Q' g) -> adds s s' Q -> adds s s' Q'.
Proof. intros W A g H. destruct (A g H); auto. Qed.

Lemma adds_send s0 s1 ms (Q : msg -> Prop) : s_net s1 = s_net s0 -> Forall Q ms -> adds s0 (send ms s1) Q.
Proof.
  intros E F g H. unfold send in H. simpl in H. rewrite E in H. apply in_app_or in H as [H | H]; [now left|].
  right. rewrite Forall_forall in F. auto.
Qed.

Lemma adds_same s0 s1 Q : s_net s1 = s_net s0 -> adds s0 s1 Q.
Proof. intros E g H. rewrite E in H. now left. Qed.

(* break the handler's case analysis, then each leaf is `send ms s1` or an unchanged network *)
Ltac brka :=
  repeat match goal with
         | |- adds _ (fst (match ?x with _ => _ end)) _ => destruct x eqn:?
         | |- adds _ (fst (if ?x then _ else _)) _ => destruct x eqn:?
         | |- adds _ (fst (let '(_, _) := ?x in _)) _ => destruct x eqn:?
         end; cbn [fst snd].

Ltac leaf := first [ apply adds_refl | apply adds_same; reflexivity | apply adds_send; [reflexivity|] ].

Lemma snd_eq {A B} (p : A * B) a b : p = (a, b) -> b = snd p.
Proof. intros ->. reflexivity. Qed.

Lemma adds_att_me s0 s sid u b : s_net s = s_net s0 -> adds s0 (fst (att_me s sid u b)) nc.
Proof.
  intros E. unfold att_me.
  destruct (existsb _ _); [apply adds_same; exact E|].
  destruct (if b then _ else _) as [m2 ms] eqn:P. cbn [fst].
  apply adds_send; [exact E|].
  destruct b; [inversion P; constructor | rewrite (snd_eq _ _ _ P); apply ncs_sub_notif_me].
Qed.

Lemma adds_att_p2p s0 s sid u v b : s_net s = s_net s0 -> adds s0 (fst (att_p2p s sid u v b)) nc.
Proof.
  intros E. unfold att_p2p. brka; try (apply adds_same; exact E); try (apply adds_send; try exact E).
  - apply ncs_app; [apply ncs_notify | apply ncs_newsub].
  - apply ncs_newsub.
Qed.

Lemma ncs_pair (b : bool) t x1 u sid x2 (ms : list msg) :
  (if b then (x1, []) else sub_notif_grp t x1 u sid) = (x2, ms) -> ncs ms.
Proof.
  destruct b; intros H.
  - inversion H. constructor.
  - rewrite (snd_eq _ _ _ H). apply ncs_sub_notif_grp.
Qed.

Lemma adds_att_grp s0 s sid u g b : s_net s = s_net s0 -> adds s0 (fst (att_grp s sid u g b)) nc.
Proof.
  intros E. unfold att_grp. brka; try (apply adds_same; exact E); apply adds_send; try exact E.
  - eapply ncs_pair; eassumption.
  - apply ncs_app; [apply ncs_notify | eapply ncs_pair; eassumption].
Qed.

Lemma adds_want rep s sid u t m : adds s (fst (want_op_gen rep s sid u t m)) nc.
Proof. unfold want_op_gen. brka; leaf. apply ncs_notify. Qed.

Lemma adds_given rep s sid u t v m : adds s (fst (given_op_gen rep s sid u t v m)) nc.
Proof. unfold given_op_gen. brka; leaf; apply ncs_notify. Qed.

Lemma adds_evict s sid u t v : adds s (fst (evict_op s sid u t v)) nc.
Proof. unfold evict_op. brka; leaf. apply ncs_notify. Qed.

Lemma adds_unsub s sid u t : adds s (fst (unsub_op s sid u t)) nc.
Proof. unfold unsub_op. brka; leaf; apply ncs_notify. Qed.

Lemma adds_leave s sid u t b : adds s (leave s sid u t b) nc.
Proof.
  unfold leave, leave_me, leave_top. destruct t.
  - destruct (get_me s u); [|apply adds_refl]. destruct (negb _); leaf.
  - destruct (get_top s (TP2P a b0)); [|apply adds_refl]. destruct (aget N.eqb sid (t_sess t)); [|apply adds_refl].
    leaf. ncsolve.
  - destruct (get_top s (TGrp g)); [|apply adds_refl]. destruct (aget N.eqb sid (t_sess t)); [|apply adds_refl].
    leaf. ncsolve.
Qed.

Lemma adds_fold_leave l : forall s sid u, adds s (fold_left (fun acc t => leave acc sid u t false) l s) nc.
Proof.
  induction l as [|t r IH]; intros s sid u; simpl; [apply adds_refl|].
  eapply adds_trans; [apply adds_leave | apply IH].
Qed.

Lemma adds_to_fg s sid u t : adds s (to_fg s sid u t) nc.
Proof.
  unfold to_fg. destruct t.
  - destruct (get_me s u); [|apply adds_refl]. destruct (sub_notif_me _ _ _) as [m2 ms] eqn:E.
    leaf. rewrite (snd_eq _ _ _ E). apply ncs_sub_notif_me.
  - apply adds_refl.
  - destruct (get_top s (TGrp g)); [|apply adds_refl]. destruct (negb (t_supd t)); [apply adds_refl|].
    destruct (sub_notif_grp _ _ _ _) as [x2 ms] eqn:E. leaf. rewrite (snd_eq _ _ _ E). apply ncs_sub_notif_grp.
Qed.

Lemma adds_fold_fg l : forall s sid u, adds s (fold_left (fun acc t => to_fg acc sid u t) l s) nc.
Proof.
  induction l as [|t r IH]; intros s sid u; simpl; [apply adds_refl|].
  eapply adds_trans; [apply adds_to_fg | apply IH].
Qed.

Lemma s_net_drop s t : s_net (drop_topic s t) = s_net s.
Proof. unfold drop_topic. destruct t; try reflexivity; destruct (get_top s _); reflexivity. Qed.

Lemma s_net_open s sid u b s1 b1 : open_sess s sid u b = Some (s1, b1) -> s_net s1 = s_net s.
Proof.
  unfold open_sess. destruct (get_sess s sid).
  - destruct (negb _); [discriminate|]. destruct (sess_count_me s sid); intros [= <- <-]; reflexivity.
  - intros [= <- <-]. reflexivity.
Qed.

(* ---- the three handlers that emit content *)

Lemma get_top_put t x s : get_top (put_top t x s) t = Some x.
Proof. unfold get_top, put_top. simpl. apply (aget_aset_same tname_eqb tname_eqb_eq). Qed.

Lemma fresh_pso s' t x w c f1 f2 sk oo :
  (match t with TMe _ => False | _ => True end) -> is_info w = false ->
  get_top s' t = Some x -> Forall (fresh_ok s') (pres_subs_offline false t x w c f1 f2 sk oo).
Proof.
  intros Ht Hi G. rewrite Forall_forall. intros g Hg C.
  apply pres_subs_offline_shape in Hg as (uid & p & D & Hin & Del & W & F & Src & Snd & Z).
  rewrite W in *. split; [intros E; rewrite Hi in E; discriminate|].
  intros uid' D'. rewrite D in D'. injection D' as <-. rewrite Snd. split; [exact Ht|].
  exists x. split; [exact G|]. intros uid' D'. rewrite D in D'. injection D' as <-.
  exists p. rewrite W. repeat split; auto.
  - apply F. now apply content_not_exempt.
  - intros E. rewrite Hi in E. discriminate.
Qed.

Lemma fresh_pss s' t x uid p w c sk oo :
  (match t with TMe _ => False | _ => True end) -> is_info w = false ->
  get_top s' t = Some x -> In (uid, p) (t_users x) -> p_deleted p = false ->
  Forall (fresh_ok s') (pres_single_offline t uid (Some (p_mode p)) w c sk oo).
Proof.
  intros Ht Hi G Hin Del. rewrite Forall_forall. intros g Hg C.
  apply pres_single_offline_shape in Hg as (m & M & D & W & F & Src & Snd & Z). injection M as <-.
  rewrite W in *. split; [intros E; rewrite Hi in E; discriminate|].
  intros uid' D'. rewrite D in D'. injection D' as <-. rewrite Snd. split; [exact Ht|].
  exists x. split; [exact G|]. intros uid' D'. rewrite D in D'. injection D' as <-.
  exists p. rewrite W. repeat split; auto.
  - apply F. now apply content_not_exempt.
  - intros E. rewrite Hi in E. discriminate.
Qed.

Lemma fresh_iso s' t x from w sk :
  (match t with TMe _ => False | _ => True end) ->
  get_top s' t = Some x -> Forall (fresh_ok s') (info_subs_offline t x from w sk).
Proof.
  intros Ht G. rewrite Forall_forall. intros g Hg C.
  apply info_subs_offline_addressed in Hg as (uid & p & D & Hin & Del & W & P & R & Src & Snd & Z).
  split; [intros _; now exists uid|].
  intros uid' D'. rewrite D in D'. injection D' as <-. rewrite Snd. split; [exact Ht|].
  exists x. split; [exact G|]. intros uid' D'. rewrite D in D'. injection D' as <-.
  exists p. repeat split; auto.
Qed.

(* a content notification to the topic itself (presSubsOnline) is not addressed to a 'me' topic *)
Lemma fresh_pson s' t w src f sk :
  (match t with TMe _ => False | _ => True end) -> is_info w = false -> fresh_ok s' (pres_subs_online t w src f sk).
Proof.
  intros Ht Hi C. simpl. split; [intros E; rewrite Hi in E; discriminate|].
  intros uid D. destruct t; try contradiction; discriminate.
Qed.

Lemma adds_pub s sid u t :
  (match t with TMe _ => False | _ => True end) ->
  adds s (fst (pub_op s sid u t)) (fresh_ok (fst (pub_op s sid u t))).
Proof.
  intros Ht. unfold pub_op. destruct (get_top s t) as [x|] eqn:G; [|apply adds_refl].
  destruct (negb (sess_on s sid t)); [apply adds_refl|].
  destruct (negb (is_writer _)); [apply adds_refl|]. cbn [fst].
  apply adds_send; [reflexivity|]. apply fresh_pso; auto.
  unfold get_top, send, put_top. simpl. apply (aget_aset_same tname_eqb tname_eqb_eq).
Qed.

Lemma in_set_pud u p x : In (u, p) (t_users (set_pud u p x)).
Proof. unfold set_pud. simpl. apply (aget_in N.eqb Neqb_eq). apply (aget_aset_same N.eqb Neqb_eq). Qed.

Lemma adds_note s sid u t w seq :
  (match t with TMe _ => False | _ => True end) ->
  adds s (fst (note_op s sid u t w seq)) (fresh_ok (fst (note_op s sid u t w seq))).
Proof.
  intros Ht. unfold note_op.
  repeat match goal with
         | |- adds _ (fst (if ?c then _ else _)) (fresh_ok (fst (if ?c then _ else _))) =>
           destruct c eqn:?; [apply adds_refl|]
         end.
  destruct (get_top s t) as [x|] eqn:G; [|apply adds_refl].
  repeat match goal with
         | |- adds _ (fst (if ?c then _ else _)) (fresh_ok (fst (if ?c then _ else _))) =>
           destruct c eqn:?; [apply adds_refl|]
         end.
  cbn [fst].
  set (p := if found t x u then get_pud x u else blank_pud) in *.
  match goal with |- adds _ (send _ (put_top t ?y s)) _ => set (x1 := y) end.
  set (s' := send _ (put_top t x1 s)).
  assert (G1 : get_top s' t = Some x1).
  { unfold s', get_top, send, put_top. simpl. apply (aget_aset_same tname_eqb tname_eqb_eq). }
  apply adds_send; [reflexivity|]. apply Forall_app. split; [|apply fresh_iso; auto].
  destruct w; try apply Forall_nil.
  - (* read *)
    destruct (p_deleted p) eqn:Dp; [apply Forall_nil|].
    set (p' := p_set_marks seq (if (p_recv p <? seq)%Z then seq else p_recv p) seq (p_drecv p) p).
    apply (fresh_pss s' t x1 u p'); auto. apply in_set_pud.
  - (* recv *)
    destruct (p_deleted p) eqn:Dp; [apply Forall_nil|].
    set (rc := if (seq <? p_read p)%Z then p_read p else seq).
    set (p' := p_set_marks (p_read p) rc (p_dread p) rc p).
    apply (fresh_pss s' t x1 u p'); auto. apply in_set_pud.
Qed.

Lemma found_in t x u : found t x u = true -> In (u, get_pud x u) (t_users x).
Proof.
  unfold found, get_pud. destruct (aget N.eqb u (t_users x)) eqn:A; [|discriminate].
  intros _. now apply (aget_in N.eqb Neqb_eq).
Qed.

Lemma adds_delmsg s sid u t h :
  (match t with TMe _ => False | _ => True end) ->
  adds s (fst (delmsg_op s sid u t h)) (fresh_ok (fst (delmsg_op s sid u t h))).
Proof.
  intros Ht. unfold delmsg_op. destruct (get_top s t) as [x|] eqn:G; [|apply adds_refl].
  repeat match goal with
         | |- adds _ (fst (if ?c then _ else _)) (fresh_ok (fst (if ?c then _ else _))) =>
           destruct c eqn:?; [apply adds_refl|]
         end.
  destruct (h && has _ mD).
  - cbn [fst]. apply adds_send; [reflexivity|]. apply Forall_cons; [now apply fresh_pson|].
    apply fresh_pso; auto.
  - cbn [fst]. apply adds_send; [reflexivity|].
    destruct (found t x u) eqn:F.
    + destruct (p_deleted (get_pud x u)) eqn:Dp; cbn [orb]; [apply Forall_nil|].
      destruct (is_presencer _); cbn [negb]; [|apply Forall_nil].
      apply Forall_cons; [now apply fresh_pson|].
      apply (fresh_pss _ t x u (get_pud x u)); auto. now apply (found_in t).
    + simpl. apply Forall_nil.
Qed.

Lemma take_nth_in i : forall pre l g rest, take_nth i pre l = Some (g, rest) ->
  forall h, In h rest -> In h pre \/ In h l.
Proof.
  induction i as [|j IH]; intros pre l g rest H h Hh; destruct l as [|a r]; simpl in H; try discriminate.
  - destruct (existsb _ pre); [discriminate|]. injection H as <- <-.
    apply in_app_or in Hh as [Hh | Hh]; [left; now apply in_rev | right; now right].
  - destruct (IH _ _ _ _ H h Hh) as [[<- | Hp] | Hr]; [right; now left | now left | right; now right].
Qed.

Lemma adds_deliver s g rest i :
  take_nth i [] (s_net s) = Some (g, rest) ->
  adds s (fst (deliver_msg (set_net (fun _ => rest) s) g)) nc.
Proof.
  intros T.
  assert (R : adds s (set_net (fun _ => rest) s) nc).
  { intros h Hh. simpl in Hh. destruct (take_nth_in _ _ _ _ _ T h Hh) as [[] | Hl]. now left. }
  eapply adds_trans; [exact R|]. set (s1 := set_net (fun _ => rest) s). clearbody s1.
  unfold deliver_msg. destruct (m_dst g).
  - destruct (get_me s1 u); [|apply adds_refl]. destruct (is_info _); [apply adds_refl|].
    cbn [fst]. destruct (r_reply _) as [[[w' c'] rr]|] eqn:Rp; [|apply adds_same; reflexivity].
    apply adds_send; [reflexivity|]. apply Forall_cons; [|apply Forall_nil].
    unfold nc, mk_reply. simpl. eapply proc_reply_what; exact Rp.
  - destruct (get_top s1 (TP2P a b)); [|apply adds_refl]. destruct (negb (t_loaded t)); [apply adds_refl|].
    destruct (is_info _); [apply adds_refl|].
    cbn [fst]. destruct (r_reply _) as [[[w' c'] rr]|] eqn:Rp; [|apply adds_refl].
    apply adds_send; [reflexivity|]. apply Forall_cons; [|apply Forall_nil].
    unfold nc, mk_reply. simpl. eapply proc_reply_what; exact Rp.
  - destruct (get_top s1 (TGrp g0)); [|apply adds_refl]. destruct (negb (t_loaded t)); [apply adds_refl|].
    destruct (is_info _); [apply adds_refl|].
    cbn [fst]. destruct (r_reply _) as [[[w' c'] rr]|] eqn:Rp; [|apply adds_refl].
    apply adds_send; [reflexivity|]. apply Forall_cons; [|apply Forall_nil].
    unfold nc, mk_reply. simpl. eapply proc_reply_what; exact Rp.
Qed.

(* pending fan-outs of unregistered instances carry "off" only *)
Definition zomb_nc (s : state) : Prop := Forall (fun e => ncs (snd e)) (s_zomb s).

Lemma resolve_not_me' u r : r <> RMe -> match resolve u r with TMe _ => False | _ => True end.
Proof. apply resolve_not_me. Qed.

(* THE STEP LEMMA: whatever a step puts in flight is fresh_ok in the state after the step *)
Lemma step_adds s o :
  zomb_nc s -> adds s (fst (step s o)) (fresh_ok (fst (step s o))) /\ zomb_nc (fst (step s o)).
Proof.
  intros Z.
  assert (W : forall s', adds s s' nc -> adds s s' (fresh_ok s')).
  { intros s'. apply adds_weaken. intros g. apply nc_fresh. }
  destruct o; unfold step; simpl.
  - (* New *)
    destruct (open_sess s sid u bkg) as [[s1 b]|] eqn:O; [|split; [apply adds_refl|exact Z]].
    destruct (get_top s (TGrp g)); [split; [apply adds_refl|exact Z]|].
    destruct (if b then _ else _) as [x2 ms] eqn:P. cbn [fst]. split.
    + apply W. apply adds_send; [simpl; apply (s_net_open _ _ _ _ _ _ O)|]. eapply ncs_pair; exact P.
    + unfold zomb_nc. simpl. unfold open_sess in O. destruct (get_sess s sid).
      * destruct (negb _); [discriminate|]. destruct (sess_count_me s sid); injection O as <- <-; exact Z.
      * injection O as <- <-. exact Z.
  - (* Att *)
    destruct (open_sess s sid u bkg) as [[s1 b]|] eqn:O; [|split; [apply adds_refl|exact Z]].
    pose proof (s_net_open _ _ _ _ _ _ O) as E.
    assert (Z1 : forall s2, s_zomb s2 = s_zomb s1 -> zomb_nc s2).
    { intros s2 E2. unfold zomb_nc. rewrite E2. unfold open_sess in O. destruct (get_sess s sid).
      - destruct (negb _); [discriminate|]. destruct (sess_count_me s sid); injection O as <- <-; exact Z.
      - injection O as <- <-. exact Z. }
    destruct r.
    + split; [apply W, adds_att_me; exact E|]. apply Z1. unfold att_me.
      destruct (existsb _ _); [reflexivity|]. destruct (if b then _ else _); reflexivity.
    + split; [apply W, adds_att_p2p; exact E|]. apply Z1. unfold att_p2p.
      repeat match goal with
             | |- s_zomb (fst (match ?x with _ => _ end)) = _ => destruct x
             | |- s_zomb (fst (if ?x then _ else _)) = _ => destruct x
             end; reflexivity.
    + split; [apply W, adds_att_grp; exact E|]. apply Z1. unfold att_grp.
      repeat match goal with
             | |- s_zomb (fst (match ?x with _ => _ end)) = _ => destruct x
             | |- s_zomb (fst (if ?x then _ else _)) = _ => destruct x
             | |- s_zomb (fst (let '(_, _) := ?x in _)) = _ => destruct x
             end; reflexivity.
  - (* Det *)
    destruct (sess_user s sid); [|split; [apply adds_refl|exact Z]].
    destruct (sess_on s sid _); [|split; [apply adds_refl|exact Z]]. cbn [fst]. split; [apply W, adds_leave|].
    unfold zomb_nc, leave, leave_me, leave_top. destruct (resolve n r).
    + destruct (get_me s n); [|exact Z]. destruct (negb _); exact Z.
    + destruct (get_top s _); [|exact Z]. destruct (aget N.eqb sid _); exact Z.
    + destruct (get_top s _); [|exact Z]. destruct (aget N.eqb sid _); exact Z.
  - (* Unsub *)
    destruct (sess_user s sid); [|split; [apply adds_refl|exact Z]]. split; [apply W, adds_unsub|].
    unfold zomb_nc, unsub_op.
    repeat match goal with
           | |- Forall _ (s_zomb (fst (match ?x with _ => _ end))) => destruct x
           | |- Forall _ (s_zomb (fst (if ?x then _ else _))) => destruct x
           end; exact Z.
  - (* Disc *)
    destruct (sess_user s sid); [|split; [apply adds_refl|exact Z]]. cbn [fst]. split.
    + apply W. intros g Hg. simpl in Hg. apply (adds_fold_leave _ s sid n g Hg).
    + unfold zomb_nc. simpl.
      assert (F : forall l s0, s_zomb (fold_left (fun acc t => leave acc sid n t false) l s0) = s_zomb s0).
      { induction l as [|t r IH]; intros s0; simpl; [reflexivity|]. rewrite IH.
        unfold leave, leave_me, leave_top. destruct t.
        - destruct (get_me s0 n); [|reflexivity]. destruct (negb _); reflexivity.
        - destruct (get_top s0 _); [|reflexivity]. destruct (aget N.eqb sid _); reflexivity.
        - destruct (get_top s0 _); [|reflexivity]. destruct (aget N.eqb sid _); reflexivity. }
      rewrite F. exact Z.
  - (* Fg *)
    destruct (get_sess s sid) as [i|]; [|split; [apply adds_refl|exact Z]].
    destruct (negb (ss_bkg i)); [split; [apply adds_refl|exact Z]|]. cbn [fst]. split.
    + apply W. intros g Hg. apply (adds_fold_fg _ _ sid (ss_user i) g) in Hg. exact Hg.
    + unfold zomb_nc.
      assert (F : forall l s0, s_zomb (fold_left (fun acc t => to_fg acc sid (ss_user i) t) l s0) = s_zomb s0).
      { induction l as [|t r IH]; intros s0; simpl; [reflexivity|]. rewrite IH.
        unfold to_fg. destruct t.
        - destruct (get_me s0 _); [|reflexivity]. destruct (sub_notif_me _ _ _); reflexivity.
        - reflexivity.
        - destruct (get_top s0 _); [|reflexivity]. destruct (negb _); [reflexivity|].
          destruct (sub_notif_grp _ _ _ _); reflexivity. }
      rewrite F. exact Z.
  - (* Want *)
    destruct (sess_user s sid); [|split; [apply adds_refl|exact Z]].
    destruct r; [split; [apply adds_refl|exact Z]| |]; (split; [apply W, adds_want|]);
      unfold zomb_nc, want_op_gen;
      repeat match goal with
             | |- Forall _ (s_zomb (fst (match ?x with _ => _ end))) => destruct x
             | |- Forall _ (s_zomb (fst (if ?x then _ else _))) => destruct x
             end; exact Z.
  - (* Given *)
    destruct (sess_user s sid); [|split; [apply adds_refl|exact Z]].
    destruct r; [split; [apply adds_refl|exact Z]| |]; (destruct (n =? v); split; [apply W, adds_want| |apply W, adds_given|]);
      unfold zomb_nc, want_op_gen, given_op_gen;
      repeat match goal with
             | |- Forall _ (s_zomb (fst (match ?x with _ => _ end))) => destruct x
             | |- Forall _ (s_zomb (fst (if ?x then _ else _))) => destruct x
             end; exact Z.
  - (* Evict *)
    destruct (sess_user s sid); [|split; [apply adds_refl|exact Z]].
    destruct r; [split; [apply adds_refl|exact Z]| |]; (split; [apply W, adds_evict|]);
      unfold zomb_nc, evict_op;
      repeat match goal with
             | |- Forall _ (s_zomb (fst (match ?x with _ => _ end))) => destruct x
             | |- Forall _ (s_zomb (fst (if ?x then _ else _))) => destruct x
             end; exact Z.
  - (* Pub *)
    destruct (sess_user s sid); [|split; [apply adds_refl|exact Z]].
    destruct r; [split; [apply adds_refl|exact Z]| |];
      (split; [apply adds_pub; apply resolve_not_me; discriminate|]);
      unfold zomb_nc, pub_op;
      repeat match goal with
             | |- Forall _ (s_zomb (fst (match ?x with _ => _ end))) => destruct x
             | |- Forall _ (s_zomb (fst (if ?x then _ else _))) => destruct x
             end; exact Z.
  - (* Note *)
    match goal with |- adds _ (fst (if ?c then _ else _)) _ /\ _ => destruct c; [split; [apply adds_refl|exact Z]|] end.
    destruct r; [split; [apply adds_refl|exact Z]| |];
      (split; [apply adds_note; apply resolve_not_me; discriminate|]);
      unfold zomb_nc, note_op;
      repeat match goal with
             | |- Forall _ (s_zomb (fst (match ?x with _ => _ end))) => destruct x
             | |- Forall _ (s_zomb (fst (if ?x then _ else _))) => destruct x
             end; exact Z.
  - (* DelMsg *)
    destruct (sess_user s sid); [|split; [apply adds_refl|exact Z]].
    destruct r; [split; [apply adds_refl|exact Z]| |];
      (split; [apply adds_delmsg; apply resolve_not_me; discriminate|]);
      unfold zomb_nc, delmsg_op;
      repeat match goal with
             | |- Forall _ (s_zomb (fst (match ?x with _ => _ end))) => destruct x
             | |- Forall _ (s_zomb (fst (if ?x then _ else _))) => destruct x
             end; exact Z.
  - (* Unload *)
    destruct (idle s t); [|split; [apply adds_refl|exact Z]]. cbn [fst]. split.
    + apply W. apply adds_send; [apply s_net_drop | apply ncs_timeout].
    + unfold zomb_nc, drop_topic. simpl. destruct t; simpl; try exact Z; destruct (get_top s _); exact Z.
  - (* UnloadHub *)
    destruct (idle s t); [|split; [apply adds_refl|exact Z]]. cbn [fst]. split.
    + apply adds_same. simpl. apply s_net_drop.
    + unfold zomb_nc. simpl. apply Forall_app. split.
      * unfold drop_topic. destruct t; simpl; try exact Z; destruct (get_top s _); exact Z.
      * apply Forall_cons; [apply ncs_timeout | apply Forall_nil].
  - (* UnloadOff *)
    destruct (aget tname_eqb t (s_zomb s)) as [ms|] eqn:A; [|split; [apply adds_refl|exact Z]]. cbn [fst]. split.
    + apply W. apply adds_send; [reflexivity|].
      apply (aget_in tname_eqb tname_eqb_eq) in A. unfold zomb_nc in Z. rewrite Forall_forall in Z.
      exact (Z _ A).
    + unfold zomb_nc. simpl. apply adel_forall. exact Z.
  - (* Deliver *)
    destruct (take_nth i [] (s_net s)) as [[g rest]|] eqn:T; [|split; [apply adds_refl|exact Z]]. split.
    + apply W. eapply adds_deliver; exact T.
    + unfold zomb_nc, deliver_msg. destruct (m_dst g).
      * simpl. destruct (get_me _ _); [|exact Z]. destruct (is_info _); [exact Z|]. simpl. destruct (r_reply _); exact Z.
      * simpl. destruct (get_top _ _); [|exact Z]. destruct (negb _); [exact Z|]. destruct (is_info _); [exact Z|].
        simpl. destruct (r_reply _); exact Z.
      * simpl. destruct (get_top _ _); [|exact Z]. destruct (negb _); [exact Z|]. destruct (is_info _); [exact Z|].
        simpl. destruct (r_reply _); exact Z.
Qed.

(* ------------------------------------------------------------------ histories: provenance of what is in flight *)

(* a content notification in flight was addressed, in some reachable state, by a p2p/group topic to the 'me'
   topic of a non-deleted subscriber with P (R too for {info}); an {info} is only ever addressed to 'me' topics *)
Definition sent_ok (g : msg) : Prop :=
  is_content (m_what g) = true ->
  (is_info (m_what g) = true -> exists uid, m_dst g = TMe uid) /\
  (forall uid, m_dst g = TMe uid ->
     (match m_sender g with TMe _ => False | _ => True end) /\
     exists s0 x, reach s0 /\ get_top s0 (m_sender g) = Some x /\ addressed_ok (m_sender g) x g).

Lemma net_prov s : reach s -> zomb_nc s /\ Forall sent_ok (s_net s).
Proof.
  intros R. pattern s. apply reach_ind; [split; constructor| |exact R].
  clear s R. intros s o R [Z IH]. destruct (step_adds s o Z) as [A Z']. split; [exact Z'|].
  rewrite Forall_forall in *. intros g Hg. destruct (A g Hg) as [Hold | Hnew]; [now apply IH|].
  intros C. destruct (Hnew C) as [I D]. split; [exact I|]. intros uid Hd. destruct (D uid Hd) as [NM [x [G AO]]].
  split; [exact NM|]. exists (fst (step s o)), x. split; [now apply reach_step | auto].
Qed.

Lemma take_nth_elem i : forall pre l g rest, take_nth i pre l = Some (g, rest) -> In g l.
Proof.
  induction i as [|j IH]; intros pre l g rest H; destruct l as [|a r]; simpl in H; try discriminate.
  - destruct (existsb _ pre); [discriminate|]. injection H as <- _. now left.
  - right. eapply IH; exact H.
Qed.

Lemma proc_what isme self subs from w c wr w' :
  r_what (proc_pres_req isme self subs from w c wr) = Some w' -> w' = w.
Proof.
  unfold proc_pres_req. intros H.
  destruct w; simpl in H; try (injection H as <-; reflexivity);
    (destruct isme; [destruct (aget tname_eqb from subs) as [p|]; destruct c|]); simpl in H;
    repeat match type of H with
           | context[if ?x then _ else _] => destruct x; simpl in H
           end; try discriminate; injection H as <-; reflexivity.
Qed.

(* the step lemma on reachable states (the pending fan-outs of a reachable state carry "off" only) *)
Lemma step_emits_reach s o g :
  reach s -> In g (s_net (fst (step s o))) -> In g (s_net s) \/ fresh_ok (fst (step s o)) g.
Proof. intros R. destruct (net_prov s R) as [Z _]. destruct (step_adds s o Z) as [A _]. exact (A g). Qed.

Lemma in_flight_reach s : reach s -> Forall sent_ok (s_net s).
Proof. intros R. exact (proj2 (net_prov s R)). Qed.

(* END TO END, all histories and interleavings: a content notification ({pres} msg / del / read / recv / upd, {info}
   read / recv / kp) which a session receives on 'me' was addressed by the p2p/group topic behind its `src`,
   in a reachable state, to this user as a NON-DELETED subscriber whose mode has P - and R for {info}.
   Removed (deleted = true), never-subscribed and muted users get none. *)
Lemma no_leak_content_me s i g rest sid user u src w :
  reach s -> take_nth i [] (s_net s) = Some (g, rest) ->
  In (Frame sid user (TMe u) src w) (snd (step s (Deliver i))) -> is_content w = true ->
  user = u /\
  exists t s0 x p,
    (match t with TMe _ => False | _ => True end) /\ reach s0 /\ get_top s0 t = Some x /\
    In (u, p) (t_users x) /\ p_deleted p = false /\
    (is_presencer (p_mode p) = true \/ (w = WUpd /\ is_joiner (p_mode p) = true)) /\
    (is_info w = true -> is_reader (p_mode p) = true) /\ src = original t u.
Proof.
  intros R T Hin C. unfold step in Hin. simpl in Hin. rewrite T in Hin.
  destruct (net_prov s R) as [_ P]. rewrite Forall_forall in P.
  pose proof (P g (take_nth_elem _ _ _ _ _ T)) as SO. clear P.
  unfold deliver_msg in Hin. destruct (m_dst g) as [u'| |] eqn:D.
  - destruct (get_me _ u') as [m|]; [|destruct Hin].
    assert (K : user = u /\ u' = u /\ src = m_src g /\ w = m_what g).
    { destruct (is_info (m_what g)) eqn:II; simpl in Hin.
      - unfold bcast_me_info in Hin. apply in_flat_map in Hin as [sid' [_ Hin]].
        repeat match type of Hin with In _ (if ?c then _ else _) => destruct c; [destruct Hin|] end.
        destruct Hin as [E | []]. injection E as -> -> -> -> ->. auto.
      - destruct (r_what _) as [w0|] eqn:RW; [|destruct Hin]. destruct (m_local g); [|destruct Hin].
        apply proc_what in RW. subst w0.
        unfold bcast_me in Hin. apply in_flat_map in Hin as [sid' [_ Hin]].
        repeat match type of Hin with In _ (if ?c then _ else _) => destruct c; [destruct Hin|] end.
        destruct Hin as [E | []]. injection E as -> -> -> -> ->. auto. }
    destruct K as (-> & -> & -> & ->). split; [reflexivity|].
    destruct (SO C) as [_ SD]. destruct (SD u D) as [NM (s0 & x & R0 & G0 & AO)].
    destruct (AO u D) as (p & Hp & Del & PP & RR & Src & _).
    exists (m_sender g), s0, x, p. repeat split; auto.
  - exfalso. destruct (get_top _ _) as [x|]; [|destruct Hin]. destruct (negb (t_loaded x)); [destruct Hin|].
    destruct (is_info (m_what g)); simpl in Hin.
    + unfold bcast_top_info_routed in Hin. apply in_flat_map in Hin as [[sid' uid'] [_ Hin]].
      repeat match type of Hin with In _ (if ?c then _ else _) => destruct c; [destruct Hin|] end.
      destruct Hin as [E | []]. discriminate E.
    + destruct (r_reply _); simpl in Hin; (destruct (r_what _); [|destruct Hin]); (destruct (m_local g); [|destruct Hin]);
        unfold bcast_top in Hin; apply in_flat_map in Hin as [[sid' uid'] [_ Hin]];
        repeat match type of Hin with In _ (if ?c then _ else _) => destruct c; [destruct Hin|] end;
        destruct Hin as [E | []]; discriminate E.
  - exfalso. destruct (get_top _ _) as [x|]; [|destruct Hin]. destruct (negb (t_loaded x)); [destruct Hin|].
    destruct (is_info (m_what g)); simpl in Hin.
    + unfold bcast_top_info_routed in Hin. apply in_flat_map in Hin as [[sid' uid'] [_ Hin]].
      repeat match type of Hin with In _ (if ?c then _ else _) => destruct c; [destruct Hin|] end.
      destruct Hin as [E | []]. discriminate E.
    + destruct (r_reply _); simpl in Hin; (destruct (r_what _); [|destruct Hin]); (destruct (m_local g); [|destruct Hin]);
        unfold bcast_top in Hin; apply in_flat_map in Hin as [[sid' uid'] [_ Hin]];
        repeat match type of Hin with In _ (if ?c then _ else _) => destruct c; [destruct Hin|] end;
        destruct Hin as [E | []]; discriminate E.
Qed.

(* an {info} never travels to a p2p/group topic through the hub (so the unchecked forwarding of topic.go:1289-1291
   is only ever reached on 'me' topics) *)
Lemma info_only_to_me s g : reach s -> In g (s_net s) -> is_info (m_what g) = true -> exists uid, m_dst g = TMe uid.
Proof.
  intros R Hin I. destruct (net_prov s R) as [_ P]. rewrite Forall_forall in P.
  destruct (P g Hin (info_content _ I)) as [H _]. auto.
Qed.

(* the {info} frames a topic makes from a {note}: attached sessions of current, non-deleted subscribers with R *)
Lemma no_leak_note_reach s sid0 u0 r w0 seq sid user top src w :
  reach s -> In (Frame sid user top src w) (snd (step s (Note sid0 u0 r w0 seq))) ->
  is_info w = true /\
  exists x, get_top (fst (step s (Note sid0 u0 r w0 seq))) top = Some x /\ In (sid, user) (t_sess x) /\
            cached x user = true /\ is_reader (p_mode (get_pud x user)) = true.
Proof.
  intros R Hin. pose proof (no_leak_all s (Note sid0 u0 r w0 seq)) as A. rewrite Forall_forall in A.
  specialize (A _ Hin). unfold entitled_at, entitled_note in A. destruct A as [I A]. split; [exact I|].
  pose proof (members_ok_reach _ (reach_step s (Note sid0 u0 r w0 seq) R)) as M.
  destruct top; [destruct A| |]; destruct A as (x & G & Hs & Rd); exists x; repeat split; auto; exact (M _ _ _ _ G Hs).
Qed.

(* ------------------------------------------------------------------ the seeded scenario, in the model *)

(* users 1 and 2 chat; 1 deletes the subscription ({leave unsub}); the p2p topic stays loaded because session 2 is
   attached; 2 types and marks as read.  Session 3 (user 1, on 'me') gets "gone" for the removal and nothing else;
   the entry of user 1 stays in the topic, deleted, WITH its old want/given (P and R). *)
Definition h_removed : list op :=
  [Att 3 1 RMe false; Att 4 2 RMe false; Att 1 1 (RP2P 2) false; D; D; D; D; Att 2 2 (RP2P 1) false;
   Pub 2 (RP2P 1); D; D; Unsub 1 (RP2P 2); D; D; Note 2 2 (RP2P 1) WIKp 0; Note 2 2 (RP2P 1) WIRead 1; D; D; D].

Lemma removed_gets_nothing :
  (forall sid top src w, In (Frame sid 1 top src w) (snd (run init h_removed)) -> sid = 3 ->
     w = WOn \/ w = WOff \/ w = WGone \/ w = WMsg) /\
  In (Frame 3 1 (TMe 1) (TMe 2) WGone) (snd (run init h_removed)) /\
  s_net (fst (run init h_removed)) = [] /\
  exists x p, get_top (fst (run init h_removed)) (TP2P 1 2) = Some x /\ aget N.eqb 1 (t_users x) = Some p /\
              p_deleted p = true /\ is_presencer (p_mode p) = true /\ is_reader (p_mode p) = true /\
              t_loaded x = true.
Proof.
  split; [|split; [|split]].
  - intros sid top src w Hin ->. vm_compute in Hin.
    repeat (destruct Hin as [E | Hin]; [try discriminate E; injection E as <- <- <-; auto|]). destruct Hin.
  - vm_compute. repeat (first [left; reflexivity | right]).
  - vm_compute. reflexivity.
  - vm_compute. do 2 eexists. repeat split; reflexivity.
Qed.

(* ... while a subscriber with P and R who is not attached does get the receipt on 'me' (the hypotheses of
   no_leak_content_me are satisfiable) *)
Definition h_receipt : list op :=
  [Att 3 1 RMe false; Att 1 1 (RP2P 2) false; D; D; Att 2 2 (RP2P 1) false; Det 1 (RP2P 2);
   Pub 2 (RP2P 1); D; Note 2 2 (RP2P 1) WIKp 0; D; D].

Lemma receipt_delivered : In (Frame 3 1 (TMe 1) (TMe 2) WIKp) (snd (run init h_receipt)).
Proof. vm_compute. repeat (first [left; reflexivity | right]). Qed.
