(* C01: the OPTIONS of a description query.  Wrapper over the group-topic model
   Sys/Topic.v (whose {get desc} has no options) adding, statement by statement
   from server/topic.go:

     replyGetDesc(sess, asUid, asChan, opts, msg)   with opts = get.desc / sub.get.desc:
         opts.User != "" || opts.Limit != 0                  -> 400
         ifUpdated := opts == nil || opts.IfModifiedSince == nil
                      || opts.IfModifiedSince.Before(t.updated)
         desc.CreatedAt only when opts == nil || ims == nil
         desc.Public    only when ifUpdated
         desc.Acs ... as without options
         desc.SeqId / DelId / ReadSeqId / RecvSeqId for readers - NOT guarded by ifUpdated
     handleSubscription: subscriptionReply returned nil -> replyGetDesc(msgsub.Get.Desc)
     replySetDesc (group topic, desc.public only): owner check, mergeInterfaces,
         store.Topics.Update, t.public, t.updated = now
     session.go / hub.go: a session that is not attached is answered by
         replyOfflineTopicGetDesc (options ignored) / replyOfflineTopicSetSub (304).

   The timestamps matter only relative to t.updated, so the option is the
   three-valued [ims]: absent / before the topic's last metadata update / not
   before it.  {set desc public} moves t.updated: the driver picks concrete
   timestamps (zero, old, just before t.updated, exactly t.updated, now, future)
   on the side of the CURRENT t.updated that the scenario names.

   Public content is an opaque token (0 = nil, n >= 2 = the JSON number n);
   private content is never set in this model (desc.Private stays nil).

   Definitions only.  Proofs are in Sys/TopicImsC01Proofs.v. *)
From Coq Require Import ZArith NArith List Bool.
From Tinode Require Import Base.Util Pure.Acs Sys.Topic.
Import ListNotations.
Open Scope Z_scope.

Inductive ims := ImsAbsent | ImsBefore | ImsNotBefore.

(* ifUpdated := opts == nil || opts.IfModifiedSince == nil || opts.IfModifiedSince.Before(t.updated) *)
Definition if_updated_c01i (i : ims) : bool := match i with ImsNotBefore => false | _ => true end.
(* opts == nil || opts.IfModifiedSince == nil *)
Definition ims_absent_c01i (i : ims) : bool := match i with ImsAbsent => true | _ => false end.

Inductive iframe :=
| FB (fr : frame)                                        (* a frame of the base model *)
| FDesc (want given : N) (seq read recv del : Z) (reader : bool)
        (created : bool) (pub : N).                     (* {meta desc} answered by replyGetDesc with options *)
Definition iout := list (N * iframe).
Definition lift_c01i (o : out) : iout := map (fun e => (fst e, FB (snd e))) o.
(* replyOfflineTopicGetDesc (a session that is not attached): desc.CreatedAt always, desc.Public = stopic.Public;
   the options are not read *)
Definition lift_offline_c01i (spub : N) (o : out) : iout :=
  map (fun e => (fst e, match snd e with
                        | MetaDesc w g seq rd rc dl r => FDesc w g seq rd rc dl r true spub
                        | fr => FB fr
                        end)) o.

Record istate := mkIS {
  ibase : state;          (* the group-topic model's state *)
  s_pub : N;              (* topics.public *)
  c_pub : N;              (* Topic.public; meaningful while the topic is loaded *)
  icalls : nat            (* adapter calls of the last request *) }.

Inductive iop :=
| IBase (o : op)
| IGetDesc (sid : N) (i : ims) (bad : bool)                       (* bad: desc.user or desc.limit given *)
| ISubDesc (sid : N) (want : list N) (bkg : bool) (i : ims) (bad : bool)   (* {sub get={what=desc desc={..}}} *)
| ISetPub (sid : N) (tok : N).                                    (* {set desc={public: tok}} *)

(* replyGetDesc with options, request from an attached session *)
Definition get_desc_ims (c : cache) (cpub : N) (sid u : N) (i : ims) (bad : bool) : iout :=
  if bad then [(sid, FB (Ctrl 400 []))] else
  let if_updated := if_updated_c01i i in
  let created := ims_absent_c01i i in
  let pub := if if_updated then cpub else 0%N in
  match alookup u (c_users c) with
  | None => [(sid, FDesc ModeInvalid ModeInvalid 0 0 0 0 false created pub)]
  | Some p =>
    (* Don't report message IDs to users without Read access. *)
    if is_reader (pud_mode p) then
      [(sid, FDesc (p_want p) (p_given p) (c_lastid c) (p_read p) (Z.max (p_recv p) (p_read p))
                   (Z.max (p_delid p) (c_delid c)) true created pub)]
    else [(sid, FDesc (p_want p) (p_given p) 0 0 0 0 false created pub)]
  end.

(* subscriptionReply returned nil: it queued the {ctrl 200} (every error path returns before) *)
Definition sub_ok_c01i (sid : N) (o : out) : bool :=
  existsb (fun e => N.eqb (fst e) sid &&
                    match snd e with Ctrl 200 _ => true | CtrlAcs 200 _ _ _ => true | _ => false end) o.

Section IStep.
Variable del_ranges : Z -> list (Z * Z) -> option (list (Z * Z)).
Variable norm_ranges : list (Z * Z) -> list (Z * Z).
Variable sm : sessmap.

(* initTopicGrp: t.public = stopic.Public, on every not-loaded -> loaded transition *)
Definition reload_pub (x : istate) (b' : state) : N :=
  match ca (ibase x), ca b' with
  | None, Some _ => s_pub x
  | _, _ => c_pub x
  end.

Definition is_attached_c01i (b : state) (sid : N) : bool :=
  match ca b with Some c => attached c sid | None => false end.

Definition istep (f : fault) (x : istate) (o : iop) : istate * iout :=
  let b := ibase x in
  match o with
  | IBase bo =>
    let '(b1, o1) := step del_ranges norm_ranges sm f b bo in
    (mkIS b1 (s_pub x) (reload_pub x b1) (ncalls b1), lift_c01i o1)
  | IGetDesc sid i bad =>
    (* the base model's routing of {get desc}; the answer of an attached session is computed with the options *)
    let '(b1, o1) := step del_ranges norm_ranges sm f b (OGetDesc sid) in
    let o2 := match ca b with
              | Some c => if attached c sid then get_desc_ims c (c_pub x) sid (sess_uid sm sid) i bad
                          else lift_offline_c01i (s_pub x) o1
              | None => lift_offline_c01i (s_pub x) o1
              end in
    (mkIS b1 (s_pub x) (reload_pub x b1) (ncalls b1), o2)
  | ISubDesc sid want bkg i bad =>
    let '(b1, o1) := step del_ranges norm_ranges sm f b (OSub sid want bkg) in
    let pub1 := reload_pub x b1 in
    let o2 := if sub_ok_c01i sid o1 then
                match ca b1 with
                | Some c1 => get_desc_ims c1 pub1 sid (sess_uid sm sid) i bad
                | None => []
                end
              else [] in
    (mkIS b1 (s_pub x) pub1 (ncalls b1), lift_c01i o1 ++ o2)
  | ISetPub sid tok =>
    let reply code := [(sid, FB (Ctrl code []))] in
    match ca b with
    | Some c =>
      if attached c sid then
        let u := sess_uid sm sid in
        if negb (N.eqb (c_owner c) u) then
          (* non-owner: 403 when public is given; nothing to update otherwise *)
          (mkIS b (s_pub x) (c_pub x) 0, reply (if (tok =? 0)%N then 304 else 403))
        else if (tok =? 0)%N then (mkIS b (s_pub x) (c_pub x) 0, reply 304)
        else
          let '(ok1, n1) := call f 0 in                    (* store.Topics.Update *)
          if negb ok1 then (mkIS b (s_pub x) (c_pub x) n1, reply 500)
          else (mkIS b tok tok n1, reply 200)              (* t.public = public; t.updated = now *)
      else (mkIS b (s_pub x) (c_pub x) 0, reply 304)       (* replyOfflineTopicSetSub: nothing it handles *)
    | None => (mkIS b (s_pub x) (c_pub x) 0, reply 304)
    end
  end.

(* a crash discards the in-memory state after the faulty request *)
Definition istep_f (x : istate) (fo : fault * iop) : istate * iout :=
  let '(x1, o1) := istep (fst fo) x (snd fo) in
  match fst fo with
  | CrashAt _ => (mkIS (mkState (st (ibase x1)) None (ncalls (ibase x1))) (s_pub x1) (c_pub x1) (icalls x1), o1)
  | _ => (x1, o1)
  end.

Fixpoint irun (x : istate) (h : list (fault * iop)) : istate * list iout :=
  match h with
  | [] => (x, [])
  | fo :: r => let '(x1, o1) := istep_f x fo in
               let '(x2, os) := irun x1 r in (x2, o1 :: os)
  end.

(* the request of the base model that moves the base state the same way *)
Definition base_op_c01i (o : iop) : op :=
  match o with
  | IBase bo => bo
  | IGetDesc sid _ _ => OGetDesc sid
  | ISubDesc sid want bkg _ _ => OSub sid want bkg
  | ISetPub sid _ => OGetDesc sid        (* no effect on the base state; see istep_base *)
  end.
End IStep.

(* what a frame shows of the numbering slice *)
Definition iframe_desc_nums (fr : iframe) : option (Z * Z * Z * Z) :=
  match fr with
  | FDesc _ _ seq rd rc dl true _ _ => Some (seq, rd, rc, dl)
  | FB (MetaDesc _ _ seq rd rc dl true) => Some (seq, rd, rc, dl)
  | _ => None
  end.
