(* C01: a {pub} that lists ATTACHMENTS (extra.attachments).  Wrapper over the
   group-topic model Sys/Topic.v (whose publish has no attachments) adding,
   statement by statement from server/topic.go and server/store/store.go:

     handlePubBroadcast:  attachments = msg.Extra.Attachments (when non-empty)
     saveAndBroadcastMessage(msg, asUid, noEcho, attachments, head, content):
         write check; store.Messages.Save(&Message{SeqId: t.lastID+1 ..}, attachments, reader)
         error -> ErrUnknown (500) to the sender, return   [t.lastID NOT advanced]
         t.lastID++ ; marks ; 202 ; broadcast ; push
     messagesMapper.Save(msg, attachmentURLs, readBySender):
         adp.TopicUpdateOnMessage   error -> return
         adp.MessageSave            error -> return
         readBySender: adp.SubsUpdate(recv, read)   error ignored
         len(attachmentURLs) > 0 && mediaHandler != nil:
             fids := the URLs for which mediaHandler.GetIdFromUrl(url) is not zero
             len(fids) > 0: return adp.FileLinkAttachments("", 0, msg.Uid(), fids)
         return nil
     adapter FileLinkAttachments (mysql / memverif contract): one transaction; a listed
         file id without an upload record violates the foreign key: error, nothing linked.

   So the attachment-link call is the LAST adapter call of a publish and its error is the
   error of the whole Save although the topic row and the message row are already written.

   An attachment URL matters only through two facts, so it is one of three kinds:
   [AttJunk] (GetIdFromUrl gives the zero id: the URL is dropped), [AttUnknown] (a
   well-formed file id without an upload record), [AttKnown] (an uploaded file).
   The link rows themselves are not part of C01's projection and are not modelled
   (they are the subject of C16).  A media handler is configured.

   Definitions only.  Proofs are in Sys/TopicAttC01Proofs.v. *)
From Coq Require Import ZArith NArith List Bool.
From Tinode Require Import Base.Util Pure.Acs Sys.Topic.
Import ListNotations.
Open Scope Z_scope.

Inductive att_c01a := AttJunk | AttUnknown | AttKnown.

(* !mediaHandler.GetIdFromUrl(url).IsZero() *)
Definition att_has_id_c01a (a : att_c01a) : bool := match a with AttJunk => false | _ => true end.
(* the files row exists *)
Definition att_known_c01a (a : att_c01a) : bool := match a with AttKnown => true | _ => false end.

(* the file ids handed to FileLinkAttachments *)
Definition att_ids_c01a (atts : list att_c01a) : list att_c01a := filter att_has_id_c01a atts.

(* saveAndBroadcastMessage + messagesMapper.Save with attachments *)
Definition publish_att (f : fault) (s : store) (c : cache) (n : nat) (sid u : N) (content : N) (noecho : bool)
           (atts : list att_c01a) : hres :=
  let p := get_pud c u in
  let found := match alookup u (c_users c) with Some _ => true | None => false end in
  if negb (is_writer (pud_mode p)) then mkH s c n [(sid, Ctrl 403 [])] else
  let seq := c_lastid c + 1 in
  let fail s n := mkH s c n [(sid, Ctrl 500 [])] in
  let '(ok1, n1) := call f n in                        (* TopicUpdateOnMessage *)
  if negb ok1 then fail s n1 else
  let s1 := st_seqid seq s in
  let '(ok2, n2) := call f n1 in                       (* MessageSave *)
  if negb ok2 then fail s1 n2 else
  match ad_msg_save s1 seq u content with
  | None => fail s1 n2                                 (* duplicate (topic, seqid) *)
  | Some s2 =>
    let reader := is_reader (pud_mode p) in
    let '(ok3, n3) := if reader then call f n2 else (true, n2) in   (* SubsUpdate(from, recv, read): error ignored *)
    let s3 := if reader && ok3 then ad_subs_update s2 u (mkUpd None None (Some seq) (Some seq) None) else s2 in
    let accept n4 :=
      let c1 := c_set_lastid seq c in
      let c2 := if found then c_set_users (aset u (p_set_marks seq seq p)) c1 else c1 in
      mkH s3 c2 n4 ((sid, Ctrl 202 [(P_seq, seq)]) :: fanout_data c2 (if noecho then sid else 0%N) (Data seq u content)
                    ++ push_out c2 seq u) in
    match att_ids_c01a atts with
    | [] => accept n3
    | ids =>
      let '(ok4, n4) := call f n3 in                   (* FileLinkAttachments *)
      if negb ok4 || negb (forallb att_known_c01a ids)
      then fail s3 n4                                  (* the rows are written, the error is returned: t.lastID stays *)
      else accept n4
    end
  end.

Inductive aop_c01a :=
| ABase (o : op)
| APubAtt (sid content : N) (noecho : bool) (atts : list att_c01a).

(* the request of the base model with the attachments erased *)
Definition base_op_c01a (o : aop_c01a) : op :=
  match o with
  | ABase bo => bo
  | APubAtt sid content noecho _ => OPub sid content noecho
  end.

Section AStep.
Variable del_ranges : Z -> list (Z * Z) -> option (list (Z * Z)).
Variable norm_ranges : list (Z * Z) -> list (Z * Z).
Variable sm : sessmap.

(* session.go / hub.go route a {pub} without looking at extra: only the handler of an attached
   session's {pub} reads the attachments *)
Definition astep (f : fault) (x : state) (o : aop_c01a) : state * out :=
  match o with
  | ABase bo => step del_ranges norm_ranges sm f x bo
  | APubAtt sid content noecho atts =>
    match ca x with
    | Some c =>
      if attached c sid then
        let h := publish_att f (st x) c 0 sid (sess_uid sm sid) content noecho atts in
        (mkState (h_st h) (Some (h_ca h)) (h_n h), h_out h)
      else step del_ranges norm_ranges sm f x (OPub sid content noecho)
    | None => step del_ranges norm_ranges sm f x (OPub sid content noecho)
    end
  end.

(* a crash discards the in-memory state after the faulty request *)
Definition astep_f (x : state) (fo : fault * aop_c01a) : state * out :=
  let '(x1, o1) := astep (fst fo) x (snd fo) in
  match fst fo with
  | CrashAt _ => (mkState (st x1) None (ncalls x1), o1)
  | _ => (x1, o1)
  end.

Fixpoint arun (x : state) (h : list (fault * aop_c01a)) : state * list out :=
  match h with
  | [] => (x, [])
  | fo :: r => let '(x1, o1) := astep_f x fo in
               let '(x2, os) := arun x1 r in (x2, o1 :: os)
  end.
End AStep.

(* no listed URL names a file: nothing is handed to FileLinkAttachments *)
Definition no_file_ids_c01a (o : aop_c01a) : bool :=
  match o with
  | ABase _ => true
  | APubAtt _ _ _ atts => match att_ids_c01a atts with [] => true | _ => false end
  end.

(* the adapter call of a publish that links the attachments (1-based, counted from the
   n calls already made): after TopicUpdateOnMessage, MessageSave and, for a reader, SubsUpdate *)
Definition link_call_c01a (c : cache) (u : N) (n : nat) : nat :=
  if is_reader (pud_mode (get_pud c u)) then S (S (S (S n))) else S (S (S n)).

(* the attachment link of this publish cannot fail: every file id is known and the fault plan
   does not hit the link call *)
Definition link_safe_c01a (f : fault) (c : cache) (u : N) (n : nat) (atts : list att_c01a) : bool :=
  match att_ids_c01a atts with
  | [] => true
  | ids => forallb att_known_c01a ids && negb (fails f (link_call_c01a c u n))
  end.
