(* C07 proofs, part 8 (s07f): ONE request, any state, any fault: a user whose effective mode
   (want & given of the cache entry) had J before the request and lacks it afterwards (or whose
   entry is gone) has no attached session afterwards, of any kind. *)
From Coq Require Import ZArith NArith List Bool Lia.
From Tinode Require Import Base.Util Pure.Acs Sys.Topic Sys.TopicTac Sys.TopicFrame Sys.TopicMarks Sys.TopicAclC07
  Sys.TopicAclC07Proofs Sys.TopicAclC07Inv Sys.TopicAclC07Join Sys.TopicAclC07BanF.
Import ListNotations.
Open Scope Z_scope.

Definition effj_c07f (c : cache) (v : N) : bool :=
  match cwant c v, cgiven c v with Some w, Some g => is_joiner (N.land w g) | _, _ => false end.
Definition losej_c07f (c c' : cache) : Prop :=
  forall v, effj_c07f c v = true -> effj_c07f c' v = false -> no_sess c' v.

Lemma losej_refl_c07f c : losej_c07f c c.
Proof. intros v A B. congruence. Qed.
Lemma losej_eq_c07f c c' : (forall v, effj_c07f c' v = effj_c07f c v) -> losej_c07f c c'.
Proof. intros H v A B. rewrite H in B. congruence. Qed.
Lemma losej_shrink_c07f c c' : cacl_shrink c c' -> losej_c07f c c'.
Proof.
  intros [_ H] v A B. destruct (H v) as [[G W]|[_ [_ NS]]]; [|exact NS].
  unfold effj_c07f in *. rewrite G, W in B. congruence.
Qed.
Lemma is_joiner_land2_c07f a b : is_joiner (N.land a b) = is_joiner a && is_joiner b.
Proof. rewrite !is_joiner_bit, N.land_spec. reflexivity. Qed.

Lemma effj_aset_other_c07f c u p v : v <> u -> effj_c07f (c_set_users (aset u p) c) v = effj_c07f c v.
Proof.
  intros NE. apply N.eqb_neq in NE. unfold effj_c07f, cwant, cgiven. cbn [c_users c_set_users].
  rewrite alookup_aset, NE. reflexivity.
Qed.
Lemma effj_evict_c07f c u k c' o v : evict_user c u false k = (c', o) -> effj_c07f c' v = effj_c07f c v.
Proof.
  intros EV. unfold effj_c07f. rewrite (evict_cgiven _ _ _ _ _ _ v EV), (evict_cwant _ _ _ _ _ _ v EV), andb_false_r. reflexivity.
Qed.
Lemma effj_ostrip_c07f c u v :
  effj_c07f (c_set_owner u (c_set_users (aset (c_owner c)
     (p_set_modes (N.ldiff (p_want (get_pud c (c_owner c))) mO) (N.ldiff (p_given (get_pud c (c_owner c))) mO) (get_pud c (c_owner c)))) c)) v
  = effj_c07f c v.
Proof.
  unfold effj_c07f, cwant, cgiven. cbn [c_users c_set_users c_set_owner]. rewrite alookup_aset.
  destruct (N.eqb v (c_owner c)) eqn:E; [|reflexivity]. apply N.eqb_eq in E. subst v. cbn.
  unfold get_pud. destruct (alookup (c_owner c) (c_users c)) as [p|]; cbn.
  - rewrite !is_joiner_land2_c07f, !is_joiner_strip. reflexivity.
  - reflexivity.
Qed.

(* thisUserSub *)
Lemma tus_finish_nosess_c07f u w1 g1 ow og nb s3 c3 n3 :
  is_joiner w1 = false -> no_sess (h_ca (fst (tus_finish u w1 g1 ow og nb s3 c3 n3))) u.
Proof.
  intros EW. unfold tus_finish. rewrite EW. cbn [negb].
  destruct (evict_user _ u false 0) as [c5 o5] eqn:EV. cbn [fst h_ca]. apply (evict_all_c07f _ _ _ _ _ _ EV).
Qed.
Lemma tus_finish_losej_c07f c u w1 g1 ow og nb s3 c3 n3 :
  (forall v, effj_c07f c3 v = effj_c07f c v) -> (effj_c07f c u = true -> is_joiner g1 = true) ->
  losej_c07f c (h_ca (fst (tus_finish u w1 g1 ow og nb s3 c3 n3))).
Proof.
  intros E3 JG v A B. destruct (tus_finish_res u w1 g1 ow og nb s3 c3 n3) as [_ [RG [RW _]]]. cbv zeta in RG, RW.
  unfold effj_c07f in B. rewrite RG, RW in B. destruct (N.eq_dec v u) as [->|NE].
  - rewrite N.eqb_refl in B. rewrite is_joiner_land2_c07f, (JG A), andb_true_r in B.
    apply tus_finish_nosess_c07f. exact B.
  - apply N.eqb_neq in NE. rewrite NE in B. change (effj_c07f c3 v = false) in B. rewrite E3 in B. congruence.
Qed.

Lemma tus_losej_c07f f s c n u want nb : losej_c07f c (h_ca (fst (tus f s c n u want nb))).
Proof.
  unfold tus. destruct (tus_mw want) as [mw okw]. destruct (negb okw); [apply losej_refl_c07f|].
  destruct (alookup u (c_users c)) as [p0|] eqn:Eu.
  - unfold tus_exist. destruct (tus_chk _ _ _ _ _) as [[[mw1 g1] oc]|] eqn:EC; [|apply losej_refl_c07f].
    apply tus_chk_spec in EC. destruct EC as [-> [HGS _]].
    assert (is_joiner (p_given p0) = true -> is_joiner g1 = true) as JG0.
    { destruct HGS as [->|[[_ [_ ->]]|[_ [_ [_ ->]]]]]; auto; apply is_joiner_lor. }
    assert (effj_c07f c u = true -> is_joiner g1 = true) as JG.
    { intros A. apply JG0. unfold effj_c07f, cwant, cgiven in A. rewrite Eu in A. cbn in A.
      rewrite is_joiner_land2_c07f in A. apply andb_prop in A. apply A. }
    destruct (if negb _ then call f n else (true, n)) as [ok1 n1]. destruct (negb ok1); [apply losej_refl_c07f|].
    destruct oc.
    + destruct (call f n1) as [ok2 n2]. destruct (negb ok2); [apply losej_refl_c07f|].
      destruct (call f n2) as [ok3 n3]. destruct (negb ok3); [apply losej_refl_c07f|].
      apply tus_finish_losej_c07f; [|exact JG]. intros v. apply effj_ostrip_c07f.
    + apply tus_finish_losej_c07f; [reflexivity|exact JG].
  - assert (effj_c07f c u = false) as NU by (unfold effj_c07f, cwant; rewrite Eu; reflexivity).
    unfold tus_new. destruct (max_subs <=? _); [apply losej_refl_c07f|].
    destruct (call f n) as [ok1 n1]. destruct (negb ok1); [apply losej_refl_c07f|].
    destruct (negb (is_joiner _)); [apply losej_refl_c07f|].
    destruct (if (_ : bool) then call f n1 else (true, n1)) as [ok2 n2]. destruct (negb ok2); [apply losej_refl_c07f|].
    destruct (negb (is_joiner _)).
    + destruct (evict_user _ u false 0) as [c3 o3] eqn:EV. cbn [fst h_ca].
      intros v A B. destruct (N.eq_dec v u) as [->|NE]; [congruence|].
      rewrite (effj_evict_c07f _ _ _ _ _ v EV), effj_aset_other_c07f in B by exact NE. congruence.
    + cbn [fst h_ca]. intros v A B. destruct (N.eq_dec v u) as [->|NE]; [congruence|].
      rewrite effj_aset_other_c07f in B by exact NE. congruence.
Qed.

(* anotherUserSub *)
Lemma aus_losej_c07f f s c n u t mode : losej_c07f c (h_ca (fst (aus f s c n u t mode))).
Proof.
  pose proof (losej_refl_c07f c) as JR.
  unfold aus. destruct (alookup u (c_users c)) as [hp|]; [|exact JR].
  destruct (negb (is_sharer _)); [exact JR|]. destruct (tus_mw mode) as [mg okg]. destruct (negb okg); [exact JR|].
  destruct (_ && _); [exact JR|]. destruct (_ && _); [exact JR|].
  destruct (alookup t (c_users c)) as [pt|] eqn:Et.
  - unfold aus_exist. destruct (_ || _).
    + destruct (negb (is_joiner (p_given pt))) eqn:EJ; [|exact JR].
      destruct (evict_user c t false 0) as [c4 o4] eqn:EV. cbn [fst h_ca].
      apply losej_eq_c07f. intros v. apply (effj_evict_c07f _ _ _ _ _ v EV).
    + destruct (_ && _); [exact JR|]. destruct (call f n) as [ok1 n1]. destruct (negb ok1); [exact JR|].
      destruct (negb (is_joiner mg)) eqn:EJ.
      * destruct (evict_user _ t false 0) as [c4 o4] eqn:EV. cbn [fst h_ca].
        intros v A B. destruct (N.eq_dec v t) as [->|NE]; [apply (evict_all_c07f _ _ _ _ _ _ EV)|].
        rewrite (effj_evict_c07f _ _ _ _ _ v EV), effj_aset_other_c07f in B by exact NE. congruence.
      * cbn [fst h_ca]. apply negb_false_iff in EJ. intros v A B. destruct (N.eq_dec v t) as [->|NE].
        -- exfalso. unfold effj_c07f, cwant, cgiven in A, B. rewrite Et in A. cbn in A.
           cbn [c_users c_set_users] in B. rewrite alookup_aset, N.eqb_refl in B. cbn in B.
           rewrite is_joiner_land2_c07f in A, B. apply andb_prop in A. destruct A as [A1 _].
           rewrite A1, EJ in B. discriminate.
        -- rewrite effj_aset_other_c07f in B by exact NE. congruence.
  - assert (effj_c07f c t = false) as NT by (unfold effj_c07f, cwant; rewrite Et; reflexivity).
    unfold aus_new. destruct (max_subs <=? _); [exact JR|].
    destruct (call f n) as [ok1 n1]. destruct (negb ok1); [exact JR|].
    match goal with |- context [match ?w with (_, _) => _ end] => destruct w as [n2 [[code|wantm]|]] end; try exact JR.
    destruct (negb (is_joiner wantm)); [exact JR|].
    destruct (call f n2) as [ok3 n3]. destruct (negb ok3); [exact JR|].
    destruct (negb (is_joiner _)) eqn:EJ.
    + destruct (evict_user _ t false 0) as [c4 o4] eqn:EV. cbn [fst h_ca].
      intros v A B. destruct (N.eq_dec v t) as [->|NE]; [congruence|].
      rewrite (effj_evict_c07f _ _ _ _ _ v EV), effj_aset_other_c07f in B by exact NE. congruence.
    + cbn [fst h_ca]. intros v A B. destruct (N.eq_dec v t) as [->|NE]; [congruence|].
      rewrite effj_aset_other_c07f in B by exact NE. congruence.
Qed.

(* ---------- one request ---------- *)
Section LoseJ.
Variable dr : Z -> list (Z * Z) -> option (list (Z * Z)).
Variable nr : list (Z * Z) -> list (Z * Z).
Variable sm : sessmap.

Definition not_sub_c07f (o : op) : bool := match o with OSub _ _ _ => false | _ => true end.

Ltac keep_c07f := let E := fresh "E" in intros ? E; cbn [ca fst] in E; inv E; apply losej_refl_c07f.
Ltac same_c07f L := let E := fresh "E" in intros ? E; cbn [ca fst h_ca] in E; inv E; apply losej_shrink_c07f; apply L.

Lemma step_losej_c07f f x o c :
  inv_sm x -> ca x = Some c -> not_sub_c07f o = true ->
  forall c', ca (fst (step dr nr sm f x o)) = Some c' -> losej_c07f c c'.
Proof.
  intros SM EC NS. unfold inv_sm in SM. rewrite EC in SM. unfold step. rewrite EC.
  destruct o; try discriminate NS; cbn [fst].
  - (* leave *)
    destruct (attached c sid); cbn [negb fst]; [|keep_c07f].
    destruct unsub; cbn [fst].
    + same_c07f leave_unsub_same.
    + destruct (leave c sid _) as [c1 o1] eqn:EL. cbn [fst h_st h_ca h_n].
      intros c' E. cbn [ca] in E. inv E. apply losej_shrink_c07f.
      match goal with H : leave c sid ?a = _ |- _ => pose proof (leave_same c sid a SM) as L; rewrite H in L end. exact L.
  - destruct (attached c sid); cbn [negb fst]; [|keep_c07f]. same_c07f publish_same.
  - destruct (attached c sid); cbn [negb]; repeat break_match; cbn [fst]; try keep_c07f; same_c07f note_same.
  - destruct (attached c sid); cbn [negb fst]; [|keep_c07f]. same_c07f get_data_same.
  - destruct (attached c sid); cbn [negb fst]; [|keep_c07f]. same_c07f get_desc_same.
  - destruct (attached c sid); cbn [negb fst]; [|keep_c07f]. same_c07f get_sub_same.
  - destruct (attached c sid); cbn [negb fst]; [|keep_c07f]. same_c07f get_del_same.
  - destruct (attached c sid); cbn [negb fst]; [|keep_c07f]. same_c07f del_msg_same.
  - (* set sub *)
    destruct (attached c sid); cbn [negb fst]; [|keep_c07f].
    pose proof (set_sub_res f (st x) c 0 sid (sess_uid sm sid) target mode) as R. cbv zeta in R.
    intros c' E. cbn [ca] in E. inv E.
    destruct (_ || _); destruct R as [_ ->]; [apply tus_losej_c07f|apply aus_losej_c07f].
  - destruct (attached c sid); cbn [negb fst]; [|keep_c07f]. same_c07f del_sub_same.
  - destruct (c_sess c); cbn [fst]; [intros c' E; discriminate E|keep_c07f].
  - intros c' E. discriminate E.
Qed.

(* ... at every step of every history, every fault plan *)
Lemma run_step_losej_c07f x h f o c c' :
  inv_sm x -> ca (fst (run dr nr sm x h)) = Some c -> not_sub_c07f o = true ->
  ca (fst (step dr nr sm f (fst (run dr nr sm x h)) o)) = Some c' -> losej_c07f c c'.
Proof.
  intros SM EC NS E. apply (step_losej_c07f f (fst (run dr nr sm x h)) o c); auto.
  apply run_inv_sm. exact SM.
Qed.
End LoseJ.

(* non-vacuity on the background-only example of TopicAclC07BanF.v: user 2 has J before the ban and not after *)
Lemma bf_losej_example_c07f :
  let x3 := fst (run bf_dr_c07f bf_nr_c07f bf_sm_c07f bf_x_c07f bf_h_c07f) in
  inv_sm bf_x_c07f /\ not_sub_c07f bf_ban_c07f = true /\
  exists c c', ca x3 = Some c /\ ca (fst (step bf_dr_c07f bf_nr_c07f bf_sm_c07f NoFault x3 bf_ban_c07f)) = Some c' /\
    effj_c07f c 2%N = true /\ effj_c07f c' 2%N = false.
Proof.
  cbv zeta. split; [exact I|]. split; [reflexivity|]. vm_compute. eexists. eexists. repeat split; reflexivity.
Qed.
