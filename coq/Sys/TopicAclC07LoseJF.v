(* C07 proofs, part 8 (s07f): ONE request of any kind, any state, any fault: a user whose effective mode
   (want & given of the cache entry) had J before the request and lacks it afterwards (or whose
   entry is gone) has no attached session afterwards, of any kind. *)
From Coq Require Import ZArith NArith List Bool Lia.
From Tinode Require Import Base.Util Pure.Acs Sys.Topic Sys.TopicTac Sys.TopicFrame Sys.TopicMarks Sys.TopicAclC07
  Sys.TopicAclC07Proofs Sys.TopicAclC07Inv Sys.TopicAclC07Join Sys.TopicAclC07BanF.
Import ListNotations.
Open Scope Z_scope.

Definition effj_c07f (c : cache) (v : N) : bool :=
  match cwant c v, cgiven c v with Some w, Some g => is_joiner (N.land w g) | _, _ => false end.
Definition losej_c07f (c c' : cache) : Prop :=
  forall v, effj_c07f c v = true -> effj_c07f c' v = false -> no_sess c' v.

Lemma losej_refl_c07f c : losej_c07f c c.
Proof. intros v A B. congruence. Qed.
Lemma losej_eq_c07f c c' : (forall v, effj_c07f c' v = effj_c07f c v) -> losej_c07f c c'.
Proof. intros H v A B. rewrite H in B. congruence. Qed.
Lemma losej_shrink_c07f c c' : cacl_shrink c c' -> losej_c07f c c'.
Proof.
  intros [_ H] v A B. destruct (H v) as [[G W]|[_ [_ NS]]]; [|exact NS].
  unfold effj_c07f in *. rewrite G, W in B. congruence.
Qed.
Lemma is_joiner_land2_c07f a b : is_joiner (N.land a b) = is_joiner a && is_joiner b.
Proof. rewrite !is_joiner_bit, N.land_spec. reflexivity. Qed.

Lemma effj_aset_other_c07f c u p v : v <> u -> effj_c07f (c_set_users (aset u p) c) v = effj_c07f c v.
Proof.
  intros NE. apply N.eqb_neq in NE. unfold effj_c07f, cwant, cgiven. cbn [c_users c_set_users].
  rewrite alookup_aset, NE. reflexivity.
Qed.
Lemma effj_evict_c07f c u k c' o v : evict_user c u false k = (c', o) -> effj_c07f c' v = effj_c07f c v.
Proof.
  intros EV. unfold effj_c07f. rewrite (evict_cgiven _ _ _ _ _ _ v EV), (evict_cwant _ _ _ _ _ _ v EV), andb_false_r. reflexivity.
Qed.
Lemma effj_ostrip_c07f c u v :
  effj_c07f (c_set_owner u (c_set_users (aset (c_owner c)
     (p_set_modes (N.ldiff (p_want (get_pud c (c_owner c))) mO) (N.ldiff (p_given (get_pud c (c_owner c))) mO) (get_pud c (c_owner c)))) c)) v
  = effj_c07f c v.
Proof.
  unfold effj_c07f, cwant, cgiven. cbn [c_users c_set_users c_set_owner]. rewrite alookup_aset.
  destruct (N.eqb v (c_owner c)) eqn:E; [|reflexivity]. apply N.eqb_eq in E. subst v. cbn.
  unfold get_pud. destruct (alookup (c_owner c) (c_users c)) as [p|]; cbn.
  - rewrite !is_joiner_land2_c07f, !is_joiner_strip. reflexivity.
  - reflexivity.
Qed.

(* thisUserSub *)
Lemma tus_finish_nosess_c07f u w1 g1 ow og nb s3 c3 n3 :
  is_joiner w1 = false -> no_sess (h_ca (fst (tus_finish u w1 g1 ow og nb s3 c3 n3))) u.
Proof.
  intros EW. unfold tus_finish. rewrite EW. cbn [negb].
  destruct (evict_user _ u false 0) as [c5 o5] eqn:EV. cbn [fst h_ca]. apply (evict_all_c07f _ _ _ _ _ _ EV).
Qed.
Lemma tus_finish_losej_c07f c u w1 g1 ow og nb s3 c3 n3 :
  (forall v, effj_c07f c3 v = effj_c07f c v) -> (effj_c07f c u = true -> is_joiner g1 = true) ->
  losej_c07f c (h_ca (fst (tus_finish u w1 g1 ow og nb s3 c3 n3))).
Proof.
  intros E3 JG v A B. destruct (tus_finish_res u w1 g1 ow og nb s3 c3 n3) as [_ [RG [RW _]]]. cbv zeta in RG, RW.
  unfold effj_c07f in B. rewrite RG, RW in B. destruct (N.eq_dec v u) as [->|NE].
  - rewrite N.eqb_refl in B. rewrite is_joiner_land2_c07f, (JG A), andb_true_r in B.
    apply tus_finish_nosess_c07f. exact B.
  - apply N.eqb_neq in NE. rewrite NE in B. change (effj_c07f c3 v = false) in B. rewrite E3 in B. congruence.
Qed.

Lemma tus_losej_c07f f s c n u want nb : losej_c07f c (h_ca (fst (tus f s c n u want nb))).
Proof.
  unfold tus. destruct (tus_mw want) as [mw okw]. destruct (negb okw); [apply losej_refl_c07f|].
  destruct (alookup u (c_users c)) as [p0|] eqn:Eu.
  - unfold tus_exist. destruct (tus_chk _ _ _ _ _) as [[[mw1 g1] oc]|] eqn:EC; [|apply losej_refl_c07f].
    apply tus_chk_spec in EC. destruct EC as [-> [HGS _]].
    assert (is_joiner (p_given p0) = true -> is_joiner g1 = true) as JG0.
    { destruct HGS as [->|[[_ [_ ->]]|[_ [_ [_ ->]]]]]; auto; apply is_joiner_lor. }
    assert (effj_c07f c u = true -> is_joiner g1 = true) as JG.
    { intros A. apply JG0. unfold effj_c07f, cwant, cgiven in A. rewrite Eu in A. cbn in A.
      rewrite is_joiner_land2_c07f in A. apply andb_prop in A. apply A. }
    destruct (if negb _ then call f n else (true, n)) as [ok1 n1]. destruct (negb ok1); [apply losej_refl_c07f|].
    destruct oc.
    + destruct (call f n1) as [ok2 n2]. destruct (negb ok2); [apply losej_refl_c07f|].
      destruct (call f n2) as [ok3 n3]. destruct (negb ok3); [apply losej_refl_c07f|].
      apply tus_finish_losej_c07f; [|exact JG]. intros v. apply effj_ostrip_c07f.
    + apply tus_finish_losej_c07f; [reflexivity|exact JG].
  - assert (effj_c07f c u = false) as NU by (unfold effj_c07f, cwant; rewrite Eu; reflexivity).
    unfold tus_new. destruct (max_subs <=? _); [apply losej_refl_c07f|].
    destruct (call f n) as [ok1 n1]. destruct (negb ok1); [apply losej_refl_c07f|].
    destruct (negb (is_joiner _)); [apply losej_refl_c07f|].
    destruct (if (_ : bool) then call f n1 else (true, n1)) as [ok2 n2]. destruct (negb ok2); [apply losej_refl_c07f|].
    destruct (negb (is_joiner _)).
    + destruct (evict_user _ u false 0) as [c3 o3] eqn:EV. cbn [fst h_ca].
      intros v A B. destruct (N.eq_dec v u) as [->|NE]; [congruence|].
      rewrite (effj_evict_c07f _ _ _ _ _ v EV), effj_aset_other_c07f in B by exact NE. congruence.
    + cbn [fst h_ca]. intros v A B. destruct (N.eq_dec v u) as [->|NE]; [congruence|].
      rewrite effj_aset_other_c07f in B by exact NE. congruence.
Qed.

(* anotherUserSub *)
Lemma aus_losej_c07f f s c n u t mode : losej_c07f c (h_ca (fst (aus f s c n u t mode))).
Proof.
  pose proof (losej_refl_c07f c) as JR.
  unfold aus. destruct (alookup u (c_users c)) as [hp|]; [|exact JR].
  destruct (negb (is_sharer _)); [exact JR|]. destruct (tus_mw mode) as [mg okg]. destruct (negb okg); [exact JR|].
  destruct (_ && _); [exact JR|]. destruct (_ && _); [exact JR|].
  destruct (alookup t (c_users c)) as [pt|] eqn:Et.
  - unfold aus_exist. destruct (_ || _).
    + destruct (negb (is_joiner (p_given pt))) eqn:EJ; [|exact JR].
      destruct (evict_user c t false 0) as [c4 o4] eqn:EV. cbn [fst h_ca].
      apply losej_eq_c07f. intros v. apply (effj_evict_c07f _ _ _ _ _ v EV).
    + destruct (_ && _); [exact JR|]. destruct (call f n) as [ok1 n1]. destruct (negb ok1); [exact JR|].
      destruct (negb (is_joiner mg)) eqn:EJ.
      * destruct (evict_user _ t false 0) as [c4 o4] eqn:EV. cbn [fst h_ca].
        intros v A B. destruct (N.eq_dec v t) as [->|NE]; [apply (evict_all_c07f _ _ _ _ _ _ EV)|].
        rewrite (effj_evict_c07f _ _ _ _ _ v EV), effj_aset_other_c07f in B by exact NE. congruence.
      * cbn [fst h_ca]. apply negb_false_iff in EJ. intros v A B. destruct (N.eq_dec v t) as [->|NE].
        -- exfalso. unfold effj_c07f, cwant, cgiven in A, B. rewrite Et in A. cbn in A.
           cbn [c_users c_set_users] in B. rewrite alookup_aset, N.eqb_refl in B. cbn in B.
           rewrite is_joiner_land2_c07f in A, B. apply andb_prop in A. destruct A as [A1 _].
           rewrite A1, EJ in B. discriminate.
        -- rewrite effj_aset_other_c07f in B by exact NE. congruence.
  - assert (effj_c07f c t = false) as NT by (unfold effj_c07f, cwant; rewrite Et; reflexivity).
    unfold aus_new. destruct (max_subs <=? _); [exact JR|].
    destruct (call f n) as [ok1 n1]. destruct (negb ok1); [exact JR|].
    match goal with |- context [match ?w with (_, _) => _ end] => destruct w as [n2 [[code|wantm]|]] end; try exact JR.
    destruct (negb (is_joiner wantm)); [exact JR|].
    destruct (call f n2) as [ok3 n3]. destruct (negb ok3); [exact JR|].
    destruct (negb (is_joiner _)) eqn:EJ.
    + destruct (evict_user _ t false 0) as [c4 o4] eqn:EV. cbn [fst h_ca].
      intros v A B. destruct (N.eq_dec v t) as [->|NE]; [congruence|].
      rewrite (effj_evict_c07f _ _ _ _ _ v EV), effj_aset_other_c07f in B by exact NE. congruence.
    + cbn [fst h_ca]. intros v A B. destruct (N.eq_dec v t) as [->|NE]; [congruence|].
      rewrite effj_aset_other_c07f in B by exact NE. congruence.
Qed.

(* ---------- {sub}: what the reply of thisUserSub says about the cache ---------- *)
Lemma tus_finish_ch_c07f u w1 g1 ow og nb s3 c3 n3 ch :
  snd (tus_finish u w1 g1 ow og nb s3 c3 n3) = SubOk ch ->
  match ch with Some (w, g) => w = w1 /\ g = g1 | None => w1 = ow /\ g1 = og end.
Proof.
  assert (forall ch0, ch0 = (if nb || negb ((w1 =? ow)%N && (g1 =? og)%N) then Some (w1, g1) else None) ->
          match ch0 with Some (w, g) => w = w1 /\ g = g1 | None => w1 = ow /\ g1 = og end) as K.
  { intros ch0 ->. destruct (nb || negb ((w1 =? ow)%N && (g1 =? og)%N)) eqn:EC; [split; reflexivity|].
    apply orb_false_iff in EC. destruct EC as [_ EC]. apply negb_false_iff in EC. apply andb_prop in EC.
    destruct EC as [E1 E2]. apply N.eqb_eq in E1, E2. auto. }
  unfold tus_finish. destruct (negb (is_joiner w1)).
  - destruct (evict_user _ u false 0) as [c5 o5]. cbn [snd]. intros H. inv H. apply K. reflexivity.
  - destruct (negb (is_joiner g1)); cbn [snd]; [discriminate|]. intros H. inv H. apply K. reflexivity.
Qed.

Lemma tus_ch_c07f f s c n u want nb ch :
  snd (tus f s c n u want nb) = SubOk ch ->
  match ch with
  | Some (w, g) => cwant (h_ca (fst (tus f s c n u want nb))) u = Some w /\ cgiven (h_ca (fst (tus f s c n u want nb))) u = Some g
  | None => effj_c07f (h_ca (fst (tus f s c n u want nb))) u = effj_c07f c u
  end.
Proof.
  unfold tus. destruct (tus_mw want) as [mw okw]. destruct (negb okw); [discriminate|].
  destruct (alookup u (c_users c)) as [p0|] eqn:Eu.
  - unfold tus_exist. destruct (tus_chk _ _ _ _ _) as [[[mw1 g1] oc]|]; [|discriminate].
    destruct (if negb _ then call f n else (true, n)) as [ok1 n1]. destruct (negb ok1); [discriminate|].
    set (w1 := tus_w1 c u mw1 g1 (p_want p0)).
    assert (forall s3 c3 n3, snd (tus_finish u w1 g1 (p_want p0) (p_given p0) nb s3 c3 n3) = SubOk ch ->
      match ch with
      | Some (w, g) => cwant (h_ca (fst (tus_finish u w1 g1 (p_want p0) (p_given p0) nb s3 c3 n3))) u = Some w /\
                       cgiven (h_ca (fst (tus_finish u w1 g1 (p_want p0) (p_given p0) nb s3 c3 n3))) u = Some g
      | None => effj_c07f (h_ca (fst (tus_finish u w1 g1 (p_want p0) (p_given p0) nb s3 c3 n3))) u = effj_c07f c u
      end) as FIN.
    { intros s3 c3 n3 HS. pose proof (tus_finish_ch_c07f _ _ _ _ _ _ _ _ _ _ HS) as CH.
      destruct (tus_finish_res u w1 g1 (p_want p0) (p_given p0) nb s3 c3 n3) as [_ [RG [RW _]]]. cbv zeta in RG, RW.
      specialize (RG u). specialize (RW u). rewrite N.eqb_refl in RG, RW.
      destruct ch as [[w g]|].
      - destruct CH as [-> ->]. split; assumption.
      - destruct CH as [E1 E2]. unfold effj_c07f. rewrite RG, RW. unfold cwant, cgiven. rewrite Eu. cbn. rewrite E1, E2. reflexivity. }
    destruct oc; [|apply FIN].
    destruct (call f n1) as [ok2 n2]. destruct (negb ok2); [discriminate|].
    destruct (call f n2) as [ok3 n3]. destruct (negb ok3); [discriminate|]. apply FIN.
  - assert (effj_c07f c u = false) as NU by (unfold effj_c07f, cwant; rewrite Eu; reflexivity).
    unfold tus_new. destruct (max_subs <=? _); [discriminate|].
    destruct (call f n) as [ok1 n1]. destruct (negb ok1); [discriminate|].
    destruct (negb (is_joiner _)); [discriminate|].
    destruct (if (_ : bool) then call f n1 else (true, n1)) as [ok2 n2]. destruct (negb ok2); [discriminate|].
    match goal with |- context [mkPud ?wm ?gv 0 0 0 0] => set (wantm := wm); set (given := gv) end.
    assert (forall c1, cwant c1 u = Some wantm -> cgiven c1 u = Some given ->
      forall ch0, ch0 = (if nb || negb ((wantm =? 0)%N && (given =? 0)%N) then Some (wantm, given) else None) ->
      match ch0 with Some (w, g) => cwant c1 u = Some w /\ cgiven c1 u = Some g | None => effj_c07f c1 u = effj_c07f c u end) as K.
    { intros c1 W G ch0 ->. destruct (nb || negb ((wantm =? 0)%N && (given =? 0)%N)) eqn:EC; [split; assumption|].
      apply orb_false_iff in EC. destruct EC as [_ EC]. apply negb_false_iff in EC. apply andb_prop in EC.
      destruct EC as [E1 E2]. apply N.eqb_eq in E1, E2. unfold effj_c07f at 1. rewrite W, G, E1, E2, NU. reflexivity. }
    destruct (negb (is_joiner wantm)).
    + destruct (evict_user _ u false 0) as [c3 o3] eqn:EV. cbn [fst snd h_ca]. intros HS. inv HS. apply K; [| |reflexivity].
      * rewrite (evict_cwant _ _ _ _ _ _ u EV), andb_false_r. unfold cwant. cbn [c_users c_set_users]. rewrite alookup_aset, N.eqb_refl. reflexivity.
      * rewrite (evict_cgiven _ _ _ _ _ _ u EV), andb_false_r. unfold cgiven. cbn [c_users c_set_users]. rewrite alookup_aset, N.eqb_refl. reflexivity.
    + cbn [fst snd h_ca]. intros HS. inv HS. apply K; [| |reflexivity].
      * unfold cwant. cbn [c_users c_set_users]. rewrite alookup_aset, N.eqb_refl. reflexivity.
      * unfold cgiven. cbn [c_users c_set_users]. rewrite alookup_aset, N.eqb_refl. reflexivity.
Qed.

Lemma effj_online_c07f c u z v : effj_c07f (c_set_users (aset u (p_set_online z (get_pud c u))) c) v = effj_c07f c v.
Proof.
  unfold effj_c07f, cwant, cgiven. cbn [c_users c_set_users]. rewrite alookup_aset.
  destruct (N.eqb v u) eqn:E; [|reflexivity]. apply N.eqb_eq in E. subst v.
  unfold get_pud. destruct (alookup u (c_users c)); reflexivity.
Qed.

(* the reply path of {sub}: thisUserSub, then the requester's session is attached when want & given has J *)
Lemma sub_reply_losej_c07f f s c n sid u want bkg : losej_c07f c (h_ca (sub_reply f s c n sid u want bkg)).
Proof.
  unfold sub_reply. rewrite tus_eq.
  set (nb := match alookup u (c_users c) with Some _ => false | None => true end).
  pose proof (tus_losej_c07f f s c n u want nb) as L. pose proof (tus_ch_c07f f s c n u want nb) as CH.
  destruct (tus f s c n u want nb) as [h r]. cbn [fst snd] in *.
  destruct r as [code|ch]; cbn [h_ca]; [exact L|]. specialize (CH ch eq_refl).
  destruct (match ch with Some (w, g) => is_joiner (N.land g w) | None => true end) eqn:EJ; [|exact L].
  set (ca1 := c_set_sess (aset sid (u, bkg)) (h_ca h)).
  assert (forall v, effj_c07f (if bkg then ca1 else c_set_users (aset u (p_set_online (p_online (get_pud ca1 u) + 1) (get_pud ca1 u))) ca1) v
                    = effj_c07f (h_ca h) v) as EQ.
  { intros v. destruct bkg; [reflexivity|]. rewrite effj_online_c07f. reflexivity. }
  intros v A B. rewrite EQ in B. destruct (N.eq_dec v u) as [->|NE].
  - exfalso. destruct ch as [[w g]|].
    + destruct CH as [W G]. unfold effj_c07f in B. rewrite W, G, N.land_comm in B. congruence.
    + congruence.
  - pose proof (L v A B) as NS. intros sid0 b HI.
    assert (In (sid0, (v, b)) (aset sid (u, bkg) (c_sess (h_ca h)))) as HA by (destruct bkg; exact HI).
    apply in_aset in HA. destruct HA as [HA|HA]; [inv HA; congruence|]. exact (NS sid0 b HA).
Qed.

(* ---------- one request ---------- *)
Section LoseJ.
Variable dr : Z -> list (Z * Z) -> option (list (Z * Z)).
Variable nr : list (Z * Z) -> list (Z * Z).
Variable sm : sessmap.


Ltac keep_c07f := let E := fresh "E" in intros ? E; cbn [ca fst] in E; inv E; apply losej_refl_c07f.
Ltac same_c07f L := let E := fresh "E" in intros ? E; cbn [ca fst h_ca] in E; inv E; apply losej_shrink_c07f; apply L.

Lemma step_losej_c07f f x o c :
  inv_sm x -> ca x = Some c ->
  forall c', ca (fst (step dr nr sm f x o)) = Some c' -> losej_c07f c c'.
Proof.
  intros SM EC. unfold inv_sm in SM. rewrite EC in SM. unfold step. rewrite EC.
  destruct o; cbn [fst].
  - (* sub *)
    destruct (attached c sid); cbn [fst]; [keep_c07f|].
    intros c' E. cbn [ca] in E. inv E. apply sub_reply_losej_c07f.
  - (* leave *)
    destruct (attached c sid); cbn [negb fst]; [|keep_c07f].
    destruct unsub; cbn [fst].
    + same_c07f leave_unsub_same.
    + destruct (leave c sid _) as [c1 o1] eqn:EL. cbn [fst h_st h_ca h_n].
      intros c' E. cbn [ca] in E. inv E. apply losej_shrink_c07f.
      match goal with H : leave c sid ?a = _ |- _ => pose proof (leave_same c sid a SM) as L; rewrite H in L end. exact L.
  - destruct (attached c sid); cbn [negb fst]; [|keep_c07f]. same_c07f publish_same.
  - destruct (attached c sid); cbn [negb]; repeat break_match; cbn [fst]; try keep_c07f; same_c07f note_same.
  - destruct (attached c sid); cbn [negb fst]; [|keep_c07f]. same_c07f get_data_same.
  - destruct (attached c sid); cbn [negb fst]; [|keep_c07f]. same_c07f get_desc_same.
  - destruct (attached c sid); cbn [negb fst]; [|keep_c07f]. same_c07f get_sub_same.
  - destruct (attached c sid); cbn [negb fst]; [|keep_c07f]. same_c07f get_del_same.
  - destruct (attached c sid); cbn [negb fst]; [|keep_c07f]. same_c07f del_msg_same.
  - (* set sub *)
    destruct (attached c sid); cbn [negb fst]; [|keep_c07f].
    pose proof (set_sub_res f (st x) c 0 sid (sess_uid sm sid) target mode) as R. cbv zeta in R.
    intros c' E. cbn [ca] in E. inv E.
    destruct (_ || _); destruct R as [_ ->]; [apply tus_losej_c07f|apply aus_losej_c07f].
  - destruct (attached c sid); cbn [negb fst]; [|keep_c07f]. same_c07f del_sub_same.
  - destruct (c_sess c); cbn [fst]; [intros c' E; discriminate E|keep_c07f].
  - intros c' E. discriminate E.
Qed.

(* ... at every step of every history, every fault plan *)
Lemma run_step_losej_c07f x h f o c c' :
  inv_sm x -> ca (fst (run dr nr sm x h)) = Some c ->
  ca (fst (step dr nr sm f (fst (run dr nr sm x h)) o)) = Some c' -> losej_c07f c c'.
Proof.
  intros SM EC E. apply (step_losej_c07f f (fst (run dr nr sm x h)) o c); auto.
  apply run_inv_sm. exact SM.
Qed.
End LoseJ.

(* non-vacuity on the background-only example of TopicAclC07BanF.v: user 2 has J before the ban and not after *)
Lemma bf_losej_example_c07f :
  let x3 := fst (run bf_dr_c07f bf_nr_c07f bf_sm_c07f bf_x_c07f bf_h_c07f) in
  inv_sm bf_x_c07f /\
  exists c c', ca x3 = Some c /\ ca (fst (step bf_dr_c07f bf_nr_c07f bf_sm_c07f NoFault x3 bf_ban_c07f)) = Some c' /\
    effj_c07f c 2%N = true /\ effj_c07f c' 2%N = false.
Proof.
  cbv zeta. split; [exact I|]. vm_compute. eexists. eexists. repeat split; reflexivity.
Qed.
