(* C16  Lemmas about the full-field download gate of Sys/FilesServeC16c.v. *)
From Coq Require Import NArith ZArith List Bool.
From Tinode Require Import Pure.Url Sys.Files Sys.FilesGateProofs Sys.FilesStoreProofs Sys.FilesServeC16c.
Import ListNotations.

(* the full-field gate IS the gate of Sys/Files.v on the projected request: every theorem about
   [serve_gate] carries over *)
Lemma serve_gate_c16c_eq : forall r, serve_gate_c16c r = serve_gate (sreq_of_c16c r).
Proof. intros r. reflexivity. Qed.

Lemma serve_request_c16c_eq : forall s r serve url,
  serve_request_c16c s r serve url = serve_request s (sreq_of_c16c r) serve url.
Proof. intros s r serve url. reflexivity. Qed.

Lemma serve_c16c_work : forall r,
  effect_of (serve_gate_c16c r) <> ENone ->
  dq_meth r = MGet /\ first_some (dq_keys_c16c r) = Some KValid /\
  (exists u, auth_of (dq_creds_c16c r) (dq_sid_c16c r) = AuthUid u /\ u <> 0%N) /\
  dq_handler r = true /\ dq_hdr r = HdrStatus 0 /\ dq_found r = true /\
  serve_gate_c16c r = Reply 200 EServed.
Proof.
  intros r H. rewrite serve_gate_c16c_eq in *.
  destruct (serve_gate_work (sreq_of_c16c r) H) as [H1 [H2 [H3 [H4 [H5 [H6 H7]]]]]].
  cbn [sreq_of_c16c s_meth s_keys s_creds s_sid s_handler s_hdr s_found] in *.
  repeat split; try assumption. apply key_check_source. exact H2.
Qed.

(* the `topic` parameter - query or form, "newacc" or anything else - is not part of the decision *)
Lemma serve_c16c_ignores_topic : forall r tq tf,
  serve_gate_c16c (dq_with_topic_c16c r tq tf) = serve_gate_c16c r.
Proof. intros r tq tf. reflexivity. Qed.

Lemma serve_request_c16c_ignores_topic : forall s r tq tf serve url,
  serve_request_c16c s (dq_with_topic_c16c r tq tf) serve url = serve_request_c16c s r serve url.
Proof. intros s r tq tf serve url. reflexivity. Qed.

(* GET / HEAD with a valid key whose credentials yield the zero uid: 401, nothing served, whatever
   the other fields are *)
Lemma serve_c16c_unauthenticated : forall r,
  dq_meth r = MGet \/ dq_meth r = MHead ->
  key_check (dq_keys_c16c r) = true ->
  auth_of (dq_creds_c16c r) (dq_sid_c16c r) = AuthUid 0 ->
  serve_gate_c16c r = Reply 401 ENone.
Proof.
  intros r Hm Hk Ha. unfold serve_gate_c16c. rewrite Hk, Ha. cbn [negb N.eqb].
  destruct Hm as [Hm|Hm]; rewrite Hm; reflexivity.
Qed.

(* the zero uid comes out of authHttpRequest exactly when: no placement names a method and the sid
   is absent / unknown / of a session that has not logged in; or the first placement holds an unknown
   scheme or a token for the zero uid *)
Lemma auth_zero_cases : forall creds sid,
  auth_of creds sid = AuthUid 0 <->
  first_some creds = Some (CGood 0) \/ first_some creds = Some CUnknownScheme \/
  (first_some creds = None /\ (sid = None \/ sid = Some 0%N)).
Proof.
  intros creds sid. unfold auth_of. destruct (first_some creds) as [[v|c| |]|].
  - split.
    + intros H. inversion H; subst. left; reflexivity.
    + intros [H|[H|[H _]]]; [inversion H; reflexivity|discriminate|discriminate].
  - split; [discriminate|]. intros [H|[H|[H _]]]; discriminate.
  - split; [discriminate|]. intros [H|[H|[H _]]]; discriminate.
  - split; [intros _; right; left; reflexivity|reflexivity].
  - destruct sid as [u|].
    + split.
      * intros H. inversion H; subst. right; right. split; [reflexivity|right; reflexivity].
      * intros [H|[H|[_ [H|H]]]]; [discriminate|discriminate|discriminate|inversion H; reflexivity].
    + split; [intros _; right; right; split; [reflexivity|left; reflexivity]|reflexivity].
Qed.

(* a 200 to GET / HEAD - with or without bytes: HEAD, the media handler's own status - is given only
   behind the key and credential checks (credential errors are never reported as 200) *)
Lemma serve_c16c_200 : forall r e,
  dq_meth r = MGet \/ dq_meth r = MHead ->
  (forall c, auth_of (dq_creds_c16c r) (dq_sid_c16c r) = AuthErr c -> c <> 200%Z) ->
  serve_gate_c16c r = Reply 200 e ->
  first_some (dq_keys_c16c r) = Some KValid /\
  exists u, auth_of (dq_creds_c16c r) (dq_sid_c16c r) = AuthUid u /\ u <> 0%N.
Proof.
  intros r e Hm Hc H. unfold serve_gate_c16c in H.
  destruct (key_check (dq_keys_c16c r)) eqn:Hk; cbn [negb] in H;
    [|destruct Hm as [Hm|Hm]; rewrite Hm in H; discriminate H].
  destruct (auth_of (dq_creds_c16c r) (dq_sid_c16c r)) as [c| |u] eqn:Ha.
  - exfalso. apply (Hc c eq_refl). destruct Hm as [Hm|Hm]; rewrite Hm in H; inversion H; reflexivity.
  - destruct Hm as [Hm|Hm]; rewrite Hm in H; discriminate H.
  - destruct (u =? 0)%N eqn:Hu; [destruct Hm as [Hm|Hm]; rewrite Hm in H; discriminate H|].
    split; [apply key_check_source; exact Hk|].
    exists u. split; [reflexivity|apply N.eqb_neq; exact Hu].
Qed.

Lemma serve_c16c_methods : forall r,
  dq_meth r <> MGet -> dq_meth r <> MHead -> dq_meth r <> MOptions ->
  serve_gate_c16c r = Reply 405 ENone.
Proof.
  intros r H1 H2 H3. unfold serve_gate_c16c. destruct (dq_meth r); try reflexivity; congruence.
Qed.

Lemma serve_c16c_refused_no_effect : forall r c e,
  serve_gate_c16c r = Reply c e -> c <> 200%Z -> e = ENone.
Proof. intros r c e. rewrite serve_gate_c16c_eq. apply serve_refused_no_effect. Qed.

Lemma serve_request_c16c_served : forall s r serve url o f,
  serve_request_c16c s r serve url = (o, Some f) ->
  o = Reply 200 EServed /\ dq_meth r = MGet /\ first_some (dq_keys_c16c r) = Some KValid /\
  (exists u, auth_of (dq_creds_c16c r) (dq_sid_c16c r) = AuthUid u /\ u <> 0%N) /\
  download s serve url = Some f /\
  f_done f = true /\ In f (files s) /\ get_id_from_url serve url = f_id f /\ In (f_id f) (disk s).
Proof.
  intros s r serve url o f H. rewrite serve_request_c16c_eq in H.
  exact (serve_request_served s (sreq_of_c16c r) serve url o f H).
Qed.

Lemma serve_request_c16c_nothing : forall s r serve url o,
  serve_request_c16c s r serve url = (o, None) -> effect_of o = ENone.
Proof.
  intros s r serve url o H. rewrite serve_request_c16c_eq in H.
  exact (serve_request_nothing s (sreq_of_c16c r) serve url o H).
Qed.

(* a gate with the upload side's exemption serves a request without credentials *)
Definition exempt_witness_c16c : dreq_c16c :=
  {| dq_meth := MGet;
     dq_key_hdr := Some KValid; dq_key_query := None; dq_key_form := None; dq_key_cookie := None;
     dq_cred_xauth := None; dq_cred_authz := None; dq_cred_query := None; dq_cred_form := None; dq_cred_cookie := None;
     dq_sid_query := None; dq_sid_form := None;
     dq_topic_query := Some true; dq_topic_form := None;
     dq_body_form := false; dq_handler := true; dq_hdr := HdrStatus 0; dq_found := true |}.

Lemma exempt_witness_served : serve_gate_exempt_c16c exempt_witness_c16c = Reply 200 EServed.
Proof. vm_compute. reflexivity. Qed.

Lemma exempt_witness_refused : serve_gate_c16c exempt_witness_c16c = Reply 401 ENone.
Proof. vm_compute. reflexivity. Qed.

Lemma exempt_witness_no_credentials :
  auth_of (dq_creds_c16c exempt_witness_c16c) (dq_sid_c16c exempt_witness_c16c) = AuthUid 0.
Proof. vm_compute. reflexivity. Qed.

(* ... and differs from the real gate exactly on unauthenticated requests that say topic=newacc *)
Lemma exempt_differs_iff : forall r,
  serve_gate_exempt_c16c r <> serve_gate_c16c r ->
  (dq_meth r = MGet \/ dq_meth r = MHead) /\ key_check (dq_keys_c16c r) = true /\
  auth_of (dq_creds_c16c r) (dq_sid_c16c r) = AuthUid 0 /\ dq_newacc_c16c r = true.
Proof.
  intros r H. unfold serve_gate_exempt_c16c, serve_gate_c16c in H.
  destruct (dq_meth r) eqn:Hm; try (exfalso; apply H; reflexivity).
  - destruct (key_check (dq_keys_c16c r)) eqn:Hk; cbn [negb] in H; [|exfalso; apply H; reflexivity].
    destruct (auth_of (dq_creds_c16c r) (dq_sid_c16c r)) as [c| |u] eqn:Ha; try (exfalso; apply H; reflexivity).
    destruct (u =? 0)%N eqn:Hu; cbn [andb] in H; [|exfalso; apply H; reflexivity].
    apply N.eqb_eq in Hu. subst u.
    destruct (dq_newacc_c16c r) eqn:Hn; cbn [negb] in H; [|exfalso; apply H; reflexivity].
    repeat split; try reflexivity. left; reflexivity.
  - destruct (key_check (dq_keys_c16c r)) eqn:Hk; cbn [negb] in H; [|exfalso; apply H; reflexivity].
    destruct (auth_of (dq_creds_c16c r) (dq_sid_c16c r)) as [c| |u] eqn:Ha; try (exfalso; apply H; reflexivity).
    destruct (u =? 0)%N eqn:Hu; cbn [andb] in H; [|exfalso; apply H; reflexivity].
    apply N.eqb_eq in Hu. subst u.
    destruct (dq_newacc_c16c r) eqn:Hn; cbn [negb] in H; [|exfalso; apply H; reflexivity].
    repeat split; try reflexivity. right; reflexivity.
Qed.
