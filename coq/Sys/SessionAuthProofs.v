(** * Lemmas about the session model (property C11). *)
From Coq Require Import NArith List Bool Lia ZifyBool ZifyN.
From Tinode Require Import Sys.SessionAuth Sys.SessionGen.
Import ListNotations.
Local Open Scope N_scope.

Lemma guard_eqb_eq a b : guard_eqb a b = true -> a = b.
Proof.
  destruct a as [a1 a2 a3 a4], b as [b1 b2 b3 b4]; unfold guard_eqb; simpl.
  destruct a1, a2, a3, a4, b1, b2, b3, b4; simpl; intro H; try discriminate; reflexivity.
Qed.

Lemma table_ok_guard t : table_ok t = true -> forall k, guard_for t k = spec_guard k.
Proof.
  intros H k. unfold table_ok in H. rewrite forallb_forall in H.
  assert (Hin : In k all_kinds) by (destruct k; simpl; tauto).
  specialize (H k Hin). apply andb_true_iff in H as [_ H].
  unfold guard_for. destruct (lookup t k); [|discriminate]. now apply guard_eqb_eq.
Qed.

Lemma spec_table_ok : table_ok spec_table = true.
Proof. vm_compute. reflexivity. Qed.

Lemma gen_ok_table_ok g : gen_ok g = true -> table_ok (gen_table g) = true.
Proof.
  unfold gen_ok, gen_table. intro H. apply andb_true_iff in H as [_ H].
  destruct (table_of (gd_entries g)); [exact H|discriminate].
Qed.

(** ** Shape of the handlers: who writes the state *)

Lemma hello_ver st h : ver st <> 0 -> fst (hello st h) = st.
Proof.
  intro Hv. unfold hello. destruct (ver st =? 0) eqn:E; [apply N.eqb_eq in E; contradiction|].
  destruct (hi_empty h || (hi_parsed h =? ver st)); reflexivity.
Qed.

Lemma hello_user st h : uid (fst (hello st h)) = uid st /\ lvl (fst (hello st h)) = lvl st.
Proof.
  unfold hello.
  repeat match goal with |- context [if ?c then _ else _] => destruct c end; simpl; auto.
Qed.

Lemma on_login_cases st u l nl mi :
  (fst (on_login st u l nl mi) = st) \/
  (nl = false /\ mi = false /\ fst (on_login st u l nl mi) = set_user st u l).
Proof. unfold on_login. destruct mi, nl; simpl; auto. Qed.

Lemma login_cases st l :
  fst (login st l) = st \/
  (uid st = 0 /\ grants {| m_extra := no_extra; m_body := BLogin l |} <> None /\
   exists u v, grants {| m_extra := no_extra; m_body := BLogin l |} = Some (u, v) /\ fst (login st l) = set_user st u v).
Proof.
  unfold login, grants; simpl.
  destruct (lg_reset l); [left; reflexivity|].
  destruct (uid st =? 0) eqn:Eu; simpl; [apply N.eqb_eq in Eu|left; reflexivity].
  destruct (lg_auth l) as [| |a]; try (left; reflexivity).
  destruct (ar_state a); try (left; reflexivity).
  destruct (ar_challenge a); simpl; [left; reflexivity|].
  destruct (if ar_validated a then VSatisfied else lg_vld l); unfold on_login;
    destruct (ar_nologin a); simpl; try (left; reflexivity).
  right. split; [exact Eu|]. split; [discriminate|]. eauto.
Qed.

Lemma login_grant_indep e e' l :
  grants {| m_extra := e; m_body := BLogin l |} = grants {| m_extra := e'; m_body := BLogin l |}.
Proof. reflexivity. Qed.

Lemma create_cases st a :
  fst (create_user st a) = st \/
  (uid st = 0 /\ ac_login a = true /\
   exists u v, ac_create a = CrCreated u v false false /\ fst (create_user st a) = set_user st u v).
Proof.
  unfold create_user. destruct (ac_login a) eqn:El; simpl.
  - destruct (uid st =? 0) eqn:Eu; simpl; [apply N.eqb_eq in Eu|left; reflexivity].
    destruct (ac_create a) as [r|u v nl mi]; [left; reflexivity|].
    unfold on_login. destruct mi, nl; simpl; try (left; reflexivity).
    right. repeat split; auto. eauto.
  - destruct (ac_create a); left; reflexivity.
Qed.

Lemma update_tail_state st u a : fst (update_tail st u a) = st.
Proof.
  unfold update_tail.
  repeat match goal with |- context [if ?c then _ else _] => destruct c end; reflexivity.
Qed.

Lemma update_state st au al rec a : fst (update_user st au al rec a) = st.
Proof.
  unfold update_user. destruct rec as [[ru rl]|].
  - destruct (negb (au =? 0)); [reflexivity|apply update_tail_state].
  - destruct (uid st =? 0); [reflexivity|apply update_tail_state].
Qed.

Lemma acc_cases st au al a :
  fst (fst (acc st au al a)) = st \/
  (uid st = 0 /\ ac_new a = true /\ ac_login a = true /\
   exists u v, ac_create a = CrCreated u v false false /\ fst (fst (acc st au al a)) = set_user st u v).
Proof.
  unfold acc. destruct (ac_new a) eqn:En.
  - destruct (create_cases st a) as [H|(H1 & H2 & u & v & H3 & H4)]; [left; exact H|].
    right. split; [exact H1|]. split; [reflexivity|]. split; [exact H2|]. exists u, v. split; [exact H3|exact H4].
  - left. destruct (ac_tmp a); try exact (update_state _ _ _ _ _);
      destruct (negb (uid st =? 0)); try reflexivity; exact (update_state _ _ _ _ _).
Qed.

(** ** One step of dispatch: the state after *)

Definition after (t : table) (st : sstate) (m : msg) : sstate := r_state (dispatch t st m).

(** Every step either leaves the state alone, or is an accepted first {hi} (only the
    version changes, from 0), or is a granting login / creating acc on an unauthenticated
    session (only user and level change, to the granted pair), or is the log-out side
    effect (only the uid changes, to 0). *)
Lemma step_cases t st m :
  after t st m = st \/
  (ver st = 0 /\ kind_of m = KHi /\ ver (after t st m) <> 0 /\ uid (after t st m) = uid st /\ lvl (after t st m) = lvl st) \/
  (uid st = 0 /\ (kind_of m = KLogin \/ kind_of m = KAcc) /\ r_call (dispatch t st m) <> None /\
   exists u v, grants m = Some (u, v) /\ after t st m = set_user st u v) \/
  (logs_out m = true /\ after t st m = set_user st 0 (lvl st)).
Proof.
  unfold after, dispatch. destruct m as [e b]; simpl.
  destruct (resolve st e) as [[au al]|r]; [|left; reflexivity].
  set (g := guard_for t _).
  destruct (g_ver g && (ver st =? 0)); [left; reflexivity|].
  destruct (g_user g && (au =? 0)); [left; reflexivity|].
  destruct (g_sver g && (ver st =? 0) || g_suser g && (au =? 0)); [left; reflexivity|].
  destruct b as [h|l|a|tk sender lo]; simpl.
  - unfold kind_of; simpl. destruct (hello st h) as [st' rs] eqn:E; simpl.
    unfold hello in E. destruct (ver st =? 0) eqn:Ev.
    + apply N.eqb_eq in Ev. destruct (hi_parsed h =? 0) eqn:Ep; [inversion E; left; reflexivity|].
      destruct (negb (hi_supported h)); inversion E; subst; [left; reflexivity|].
      right; left. apply N.eqb_neq in Ep. simpl. auto.
    + destruct (hi_empty h || (hi_parsed h =? ver st)); inversion E; left; reflexivity.
  - unfold kind_of; simpl. destruct (login st l) as [st' rs] eqn:E; simpl.
    destruct (login_cases st l) as [H|(H1 & _ & u & v & H3 & H4)]; rewrite E in *; simpl in *.
    + left; exact H.
    + right; right; left. repeat split; auto. discriminate. exists u, v. split; [exact H3|exact H4].
  - unfold kind_of; simpl. destruct (acc st au al a) as [[st' rs] p] eqn:E; simpl.
    destruct (acc_cases st au al a) as [H|(H1 & H2 & H3 & u & v & H4 & H5)]; rewrite E in *; simpl in *.
    + left; exact H.
    + right; right; left. repeat split; auto. discriminate. exists u, v. split; [|exact H5].
      unfold grants; simpl. rewrite H2, H3, H4. reflexivity.
  - destruct tk; try (left; reflexivity). destruct lo; [|left; reflexivity].
    right; right; right. split; reflexivity.
Qed.

(** ** Refusal before the handshake / before login *)

Ltac kinds b := destruct b as [?h|?l|?a|[] ?sender ?lo].

Lemma pre_hi t st m : table_ok t = true -> ver st = 0 -> kind_of m <> KHi ->
  let r := dispatch t st m in
  r_state r = st /\ r_call r = None /\ r_panic r = false /\
  (ex_asuser (m_extra m) = None ->
     r_replies r = if kind_eqb (kind_of m) KNote then [] else [ROutOfSeq409]) /\
  (r_replies r = [] \/ r_replies r = [ROutOfSeq409] \/ r_replies r = [RDenied403] \/ r_replies r = [RMalformed400]) /\
  (kind_of m <> KNote -> r_replies r <> []).
Proof.
  intros Ht Hv Hk. unfold dispatch. rewrite (table_ok_guard t Ht).
  destruct m as [e b]. unfold resolve. cbn [m_extra m_body].
  destruct (ex_asuser e) as [u|] eqn:Ea.
  - destruct (negb (lvl st =? LRoot)); [cbn; repeat split; auto; try discriminate|].
    destruct (u =? 0); [cbn; repeat split; auto; try discriminate|].
    kinds b; try (exfalso; apply Hk; reflexivity);
      cbn; rewrite Hv; cbn; repeat split; auto; try discriminate; intros; try congruence.
  - kinds b; try (exfalso; apply Hk; reflexivity);
      cbn; rewrite Hv; cbn; repeat split; auto; try discriminate; intros; try congruence.
Qed.

Lemma pre_login t st m : table_ok t = true -> uid st = 0 -> lvl st <> LRoot ->
  kind_of m <> KHi -> kind_of m <> KLogin -> kind_of m <> KAcc ->
  let r := dispatch t st m in
  r_state r = st /\ r_call r = None /\ r_panic r = false /\
  (ex_asuser (m_extra m) = None ->
     r_replies r = if kind_eqb (kind_of m) KNote then []
                   else if ver st =? 0 then [ROutOfSeq409] else [RAuthRequired401]) /\
  (ex_asuser (m_extra m) <> None -> r_replies r = [RDenied403]) /\
  (kind_of m <> KNote -> r_replies r <> []).
Proof.
  intros Ht Hu Hl Hk1 Hk2 Hk3. unfold dispatch. rewrite (table_ok_guard t Ht).
  destruct m as [e b]. unfold resolve. cbn [m_extra m_body].
  assert (El : (lvl st =? LRoot) = false) by (apply N.eqb_neq; exact Hl).
  destruct (ex_asuser e) as [u|] eqn:Ea.
  - rewrite El. cbn. repeat split; auto; try discriminate; try (intro H; congruence).
  - kinds b; try solve [exfalso; apply Hk1; reflexivity | exfalso; apply Hk2; reflexivity | exfalso; apply Hk3; reflexivity];
      cbn; rewrite Hu; cbn; destruct (ver st =? 0); cbn; repeat split; auto; try discriminate; intros; try congruence.
Qed.

(** ** Login at most once, failed logins grant nothing *)

Lemma identity_fixed t st m : uid st <> 0 -> logs_out m = false ->
  uid (after t st m) = uid st /\ lvl (after t st m) = lvl st.
Proof.
  intros Hu Hl.
  destruct (step_cases t st m) as [H|[(H1 & H2 & H3 & H4 & H5)|[(H1 & _)|(H1 & _)]]].
  - rewrite H; auto.
  - auto.
  - contradiction.
  - congruence.
Qed.

Lemma login_once t st m : uid st <> 0 -> kind_of m = KLogin ->
  let r := dispatch t st m in
  r_state r = st /\
  (forall l, m_body m = BLogin l -> lg_reset l = None -> r_call r <> None -> r_replies r = [RAlreadyAuth409]).
Proof.
  intros Hu Hk. split.
  - destruct (step_cases t st m) as [H|[(H1 & H2 & _)|[(H1 & _)|(H1 & _)]]].
    + exact H.
    + congruence.
    + contradiction.
    + destruct m as [e b]; destruct b as [| | |[] s []]; simpl in *; discriminate.
  - intros l Hb Hr. unfold dispatch. destruct m as [e b]; simpl in Hb; subst b. cbn [m_extra m_body].
    destruct (resolve st e) as [[au al]|r]; [|intro H; exfalso; apply H; reflexivity].
    destruct (g_ver _ && _); [intro H; exfalso; apply H; reflexivity|].
    destruct (g_user _ && _); [intro H; exfalso; apply H; reflexivity|].
    destruct (_ || _); [intro H; exfalso; apply H; reflexivity|].
    intros _. unfold login. rewrite Hr.
    destruct (uid st =? 0) eqn:E; [apply N.eqb_eq in E; contradiction|]. reflexivity.
Qed.

Lemma no_grant_no_auth t st m : grants m = None -> uid st = 0 ->
  uid (after t st m) = 0 /\ lvl (after t st m) = lvl st.
Proof.
  intros Hg Hu.
  destruct (step_cases t st m) as [H|[(H1 & H2 & H3 & H4 & H5)|[(H1 & _ & _ & u & v & H3 & _)|(H1 & H2)]]].
  - rewrite H; auto.
  - rewrite H4, H5; auto.
  - congruence.
  - rewrite H2; auto.
Qed.

(** The outcomes that are not a full success. *)
Lemma login_not_granting e l :
  lg_reset l <> None \/
  lg_auth l = AUnknownScheme \/ (exists r, lg_auth l = AFailed r) \/
  (exists a, lg_auth l = ARec a /\
     (ar_state a <> USOk \/ ar_challenge a = true \/ ar_nologin a = true \/
      (ar_validated a = false /\ lg_vld l <> VSatisfied))) ->
  grants {| m_extra := e; m_body := BLogin l |} = None.
Proof.
  unfold grants; simpl. intros [H|[H|[[r H]|(a & H & H')]]].
  - destruct (lg_reset l); [reflexivity|contradiction].
  - rewrite H. destruct (lg_reset l); reflexivity.
  - rewrite H. destruct (lg_reset l); reflexivity.
  - rewrite H. destruct (lg_reset l); [reflexivity|].
    destruct H' as [H'|[H'|[H'|[H1 H2]]]].
    + destruct (ar_state a); try reflexivity. contradiction.
    + rewrite H'. destruct (ar_state a); reflexivity.
    + rewrite H'. destruct (ar_state a); try reflexivity. rewrite orb_true_r. reflexivity.
    + rewrite H1. destruct (ar_state a); try reflexivity. destruct (_ || _); [reflexivity|].
      destruct (lg_vld l); try reflexivity. contradiction.
Qed.

Lemma acc_not_granting e a :
  ac_new a = false \/ ac_login a = false \/ (exists r, ac_create a = CrRefused r) \/
  (exists u v nl mi, ac_create a = CrCreated u v nl mi /\ (nl = true \/ mi = true)) ->
  grants {| m_extra := e; m_body := BAcc a |} = None.
Proof.
  unfold grants; simpl. intros [H|[H|[[r H]|(u & v & nl & mi & H & H')]]].
  - rewrite H. reflexivity.
  - rewrite H. rewrite andb_false_r. reflexivity.
  - rewrite H. destruct (_ && _); reflexivity.
  - rewrite H. destruct (_ && _); [|reflexivity]. destruct H' as [-> | ->]; [reflexivity|destruct nl; reflexivity].
Qed.

(** ** Acting user *)

Lemma acts_as t st m c : r_call (dispatch t st m) = Some c ->
  c_kind c = kind_of m /\
  ((ex_asuser (m_extra m) = None /\ c_user c = uid st /\ c_level c = lvl st) \/
   (lvl st = LRoot /\ exists u, ex_asuser (m_extra m) = Some u /\ u <> 0 /\ c_user c = u /\
      c_level c = (if ex_level (m_extra m) =? LNone then LAuth else ex_level (m_extra m)))).
Proof.
  unfold dispatch. destruct m as [e b]. cbn [m_extra m_body]. unfold resolve.
  destruct (ex_asuser e) as [u|] eqn:Ea.
  - destruct (lvl st =? LRoot) eqn:El; cbn [negb]; [|discriminate]. apply N.eqb_eq in El.
    destruct (u =? 0) eqn:Eu; [discriminate|]. apply N.eqb_neq in Eu.
    destruct (g_ver _ && _); [discriminate|]. destruct (g_user _ && _); [discriminate|].
    destruct (_ || _); [discriminate|].
    destruct b as [h|l|a|tk s lo]; cbn;
      try destruct (hello st h); try destruct (login st l); try destruct (acc st u _ a) as [[? ?] ?];
      intro H; inversion H; subst; cbn; (split; [reflexivity|]); right; split; auto; exists u; auto.
  - destruct (g_ver _ && _); [discriminate|]. destruct (g_user _ && _); [discriminate|].
    destruct (_ || _); [discriminate|].
    destruct b as [h|l|a|tk s lo]; cbn;
      try destruct (hello st h); try destruct (login st l); try destruct (acc st _ _ a) as [[? ?] ?];
      intro H; inversion H; subst; cbn; (split; [reflexivity|]); left; auto.
Qed.

Lemma asuser_non_root t st m : lvl st <> LRoot -> ex_asuser (m_extra m) <> None ->
  dispatch t st m = refuse st [RDenied403].
Proof.
  intros Hl Ha. unfold dispatch, resolve. destruct (ex_asuser (m_extra m)); [|contradiction].
  apply N.eqb_neq in Hl. rewrite Hl. reflexivity.
Qed.

(** ** Version fixed *)

Lemma version_fixed t st m : ver st <> 0 -> ver (after t st m) = ver st.
Proof.
  intro Hv.
  destruct (step_cases t st m) as [H|[(H1 & _)|[(_ & _ & _ & u & v & _ & H)|(_ & H)]]].
  - rewrite H; auto.
  - contradiction.
  - rewrite H; reflexivity.
  - rewrite H; reflexivity.
Qed.

Lemma rehello t st e h : table_ok t = true -> ver st <> 0 -> ex_asuser e = None ->
  let r := dispatch t st {| m_extra := e; m_body := BHi h |} in
  r_state r = st /\
  r_replies r = if hi_empty h || (hi_parsed h =? ver st) then [RCreated201] else [ROutOfSeq409].
Proof.
  intros Ht Hv He. unfold dispatch. rewrite (table_ok_guard t Ht). unfold resolve. cbn [m_extra m_body].
  rewrite He. cbn. unfold hello. destruct (ver st =? 0) eqn:E; [apply N.eqb_eq in E; contradiction|].
  destruct (hi_empty h || (hi_parsed h =? ver st)); cbn; auto.
Qed.

(** ** Sender header *)

Lemma sender_header t st m c : r_call (dispatch t st m) = Some c ->
  c_sender c = if kind_eqb (kind_of m) KPub
               then (if c_user c =? uid st then None else Some (uid st))
               else None.
Proof.
  unfold dispatch. destruct m as [e b]. cbn [m_extra m_body].
  destruct (resolve st e) as [[au al]|r]; [|discriminate].
  destruct (g_ver _ && _); [discriminate|]. destruct (g_user _ && _); [discriminate|].
  destruct (_ || _); [discriminate|].
  destruct b as [h|l|a|tk s lo]; cbn;
    try destruct (hello st h); try destruct (login st l); try destruct (acc st _ _ a) as [[? ?] ?];
    intro H; inversion H; subst; cbn; try reflexivity.
  destruct tk; cbn; reflexivity.
Qed.

(** ** Histories *)

Lemma run_after t st m r : run t st (m :: r) = run t (after t st m) r.
Proof. reflexivity. Qed.

Lemma run_preserves t (P : sstate -> Prop) (Q : msg -> Prop) :
  (forall st m, Q m -> P st -> P (after t st m)) ->
  forall ms st, Forall Q ms -> P st -> P (run t st ms).
Proof.
  intros Hstep ms. induction ms as [|m r IH]; intros st HQ HP; [exact HP|].
  rewrite run_after. inversion HQ; subst. apply IH; auto.
Qed.

Lemma granting_needs_handshake t st m : table_ok t = true ->
  kind_of m = KLogin \/ kind_of m = KAcc -> r_call (dispatch t st m) <> None -> ver st <> 0.
Proof.
  intros Ht Hk. unfold dispatch. rewrite (table_ok_guard t Ht).
  destruct (resolve st (m_extra m)) as [[au al]|r]; [|intro H; exfalso; apply H; reflexivity].
  destruct Hk as [Hk|Hk]; rewrite Hk; cbn;
    (destruct (ver st =? 0) eqn:E; [intro H; exfalso; apply H; reflexivity|intros _; apply N.eqb_neq; exact E]).
Qed.

Definition inv_handshake (st : sstate) : Prop := uid st <> 0 -> ver st <> 0.
Definition inv_level (st : sstate) : Prop := uid st <> 0 -> lvl st <> LNone.
Definition inv_unauth (st : sstate) : Prop := uid st = 0 -> lvl st = LNone.

Lemma step_handshake t st m : table_ok t = true -> inv_handshake st -> inv_handshake (after t st m).
Proof.
  intros Ht Hi Hu.
  destruct (step_cases t st m) as [H|[(H1 & H2 & H3 & H4 & H5)|[(H1 & Hk & Hc & u & v & Hg & H)|(H1 & H)]]].
  - rewrite H in *. auto.
  - exact H3.
  - rewrite H. cbn. apply (granting_needs_handshake t st m Ht Hk Hc).
  - rewrite H in Hu. cbn in Hu. contradiction.
Qed.

Lemma step_level t st m : wf_msg m -> inv_level st -> inv_level (after t st m).
Proof.
  intros Hw Hi Hu.
  destruct (step_cases t st m) as [H|[(H1 & H2 & H3 & H4 & H5)|[(H1 & Hk & Hc & u & v & Hg & H)|(H1 & H)]]].
  - rewrite H in *. auto.
  - rewrite H5. apply Hi. congruence.
  - rewrite H. cbn. apply (Hw u v Hg).
  - rewrite H in Hu. cbn in Hu. contradiction.
Qed.

Lemma step_unauth t st m : wf_msg m -> logs_out m = false -> inv_unauth st -> inv_unauth (after t st m).
Proof.
  intros Hw Hl Hi Hu.
  destruct (step_cases t st m) as [H|[(H1 & H2 & H3 & H4 & H5)|[(H1 & Hk & Hc & u & v & Hg & H)|(H1 & H)]]].
  - rewrite H in *. auto.
  - rewrite H5. apply Hi. congruence.
  - rewrite H in Hu. cbn in Hu. destruct (Hw u v Hg) as [Hne _]. contradiction.
  - congruence.
Qed.

Lemma hist_handshake t ms : table_ok t = true -> inv_handshake (run t fresh ms).
Proof.
  intro Ht. apply (run_preserves t inv_handshake (fun _ => True)).
  - intros st m _. apply step_handshake; exact Ht.
  - apply Forall_forall; auto.
  - intro H; exfalso; apply H; reflexivity.
Qed.

Lemma hist_level t ms : Forall wf_msg ms -> inv_level (run t fresh ms).
Proof.
  intro Hw. apply (run_preserves t inv_level wf_msg); auto.
  - intros st m. apply step_level.
  - intro H; exfalso; apply H; reflexivity.
Qed.

Lemma hist_unauth t ms : Forall wf_msg ms -> Forall (fun m => logs_out m = false) ms ->
  inv_unauth (run t fresh ms).
Proof.
  intros Hw Hl. apply (run_preserves t inv_unauth (fun m => wf_msg m /\ logs_out m = false)).
  - intros st m [H1 H2]. apply step_unauth; auto.
  - rewrite Forall_forall in *. intros m Hin. split; auto.
  - intro; reflexivity.
Qed.

Lemma step_identity t st m : uid (after t st m) <> 0 ->
  (uid (after t st m) = uid st /\ lvl (after t st m) = lvl st) \/
  grants m = Some (uid (after t st m), lvl (after t st m)).
Proof.
  intro Hu.
  destruct (step_cases t st m) as [H|[(H1 & H2 & H3 & H4 & H5)|[(H1 & Hk & Hc & u & v & Hg & H)|(H1 & H)]]].
  - rewrite H. auto.
  - auto.
  - right. rewrite H. exact Hg.
  - rewrite H in Hu. cbn in Hu. contradiction.
Qed.

Lemma hist_auth_needs_grant_gen t ms : forall st,
  uid (run t st ms) <> 0 ->
  (uid (run t st ms) = uid st /\ lvl (run t st ms) = lvl st) \/
  Exists (fun m => grants m = Some (uid (run t st ms), lvl (run t st ms))) ms.
Proof.
  induction ms as [|m r IH]; intros st Hu; [left; auto|].
  rewrite run_after in *.
  destruct (IH _ Hu) as [[H1 H2]|H]; [|right; apply Exists_cons_tl; exact H].
  assert (Hu' : uid (after t st m) <> 0) by congruence.
  destruct (step_identity t st m Hu') as [[H3 H4]|H3].
  - left. split; congruence.
  - right. apply Exists_cons_hd. rewrite H1, H2. exact H3.
Qed.

Lemma hist_auth_needs_grant t ms :
  uid (run t fresh ms) <> 0 ->
  Exists (fun m => grants m = Some (uid (run t fresh ms), lvl (run t fresh ms))) ms.
Proof.
  intro Hu. destruct (hist_auth_needs_grant_gen t ms fresh Hu) as [[H _]|H]; [|exact H].
  exfalso. apply Hu. rewrite H. reflexivity.
Qed.

Lemma auth_steps_authed t ms : forall st, uid st <> 0 -> Forall (fun m => logs_out m = false) ms ->
  auth_steps t st ms = O.
Proof.
  induction ms as [|m r IH]; intros st Hu Hl; [reflexivity|].
  inversion Hl; subst. cbn [auth_steps].
  apply N.eqb_neq in Hu as Hu'. rewrite Hu'. cbn.
  apply IH; auto. fold (after t st m). destruct (identity_fixed t st m Hu H1) as [H _]. congruence.
Qed.

Lemma auth_steps_le1 t ms : forall st, Forall (fun m => logs_out m = false) ms ->
  (auth_steps t st ms <= 1)%nat.
Proof.
  induction ms as [|m r IH]; intros st Hl; [cbn; lia|].
  inversion Hl; subst. cbn [auth_steps]. fold (after t st m).
  destruct (uid st =? 0) eqn:E0; cbn [andb].
  - destruct (uid (after t st m) =? 0) eqn:E1; cbn [negb].
    + specialize (IH (after t st m) H2). lia.
    + apply N.eqb_neq in E1. rewrite (auth_steps_authed t r _ E1 H2). lia.
  - apply N.eqb_neq in E0. destruct (identity_fixed t st m E0 H1) as [H _].
    rewrite (auth_steps_authed t r (after t st m)); [lia| congruence | exact H2].
Qed.

(** ** Witnesses (finding obo-sub-missing-user-logs-out-session) *)

Definition w_hi : msg :=
  {| m_extra := no_extra; m_body := BHi {| hi_empty := false; hi_parsed := 5632; hi_supported := true |} |}.
Definition w_login (u l : N) : msg :=
  {| m_extra := no_extra;
     m_body := BLogin {| lg_reset := None;
                         lg_auth := ARec {| ar_uid := u; ar_lvl := l; ar_validated := false; ar_nologin := false;
                                            ar_state := USOk; ar_challenge := false |};
                         lg_vld := VSatisfied |} |}.
(** {sub topic:"me" extra:{obo: <user 99, whose account does not exist>}} *)
Definition w_sub_obo_missing : msg :=
  {| m_extra := {| ex_asuser := Some 99; ex_level := 0 |}; m_body := BTopic TSub None true |}.
Definition w_pub_obo : msg :=
  {| m_extra := {| ex_asuser := Some 2; ex_level := 0 |}; m_body := BTopic TPub None false |}.
Definition w_history : list msg := [w_hi; w_login 6 LRoot; w_sub_obo_missing].

Lemma w_history_wf : Forall wf_msg (w_history ++ [w_login 1 LAuth]).
Proof.
  unfold w_history; cbn [app].
  repeat (apply Forall_cons; [intros u l H; vm_compute in H; try discriminate; inversion H; subst; split; discriminate|]).
  apply Forall_nil.
Qed.
