(* C14: a terminated session ends up detached from every topic; deleted topics refuse. *)
From Coq Require Import List Arith Bool Lia.
Import ListNotations.
Require Import Tinode.Sys.Lifecycle Tinode.Sys.LifecycleProofs Tinode.Sys.LifecycleAttach.

(* ---------- the weak half of the balance holds on EVERY execution ----------
   (the step excluded by reach_safe only forgets a Done: the counter can stay too high, never too low) *)
Definition bal_le (c : config) : Prop := forall s, pending s c <= s_inflight (c_sess c s).

Lemma bal_le_unreg_step : forall c i a e c',
  init_true c -> bal_le c -> unreg_step c i a e = Some c' -> bal_le c'.
Proof.
  intros c i a e c' (H1 & H2 & H3) Hb Hs. unfold unreg_step in Hs. unfold bal_le in *.
  destruct (negb (is_run (i_phase (c_inst c i)))); [discriminate|].
  destruct (take_first i (c_tunreg c)) as [[r unreg']|] eqn:E; [|discriminate].
  simpl in Hs. inv_some.
  intros s0; generalize (cntp_take_first s0 _ _ _ _ E); intros Hc; revert s0 Hc.
  destruct (r_init r) eqn:Ei; simpl.
  + destruct (inactive (c_inst c i)); [fin Hb|].
    destruct (r_kind r) as [|[|]|]; simpl.
    * destruct (mem _ _); fin Hb.
    * destruct (_ =? _); [fin Hb|]. destruct e; [fin Hb|].
      intros s0 Hc. specialize (Hb s0). unfold pending in *. simpl in *.
      unfold on_sess, upd in *. simpl in *. unfold mine in *. rewrite Ei in *. simpl in *.
      destruct (Nat.eqb_spec s0 (r_sid r)) as [->|Hne].
      -- rewrite Nat.eqb_refl in *. simpl in *.
         destruct (mem (r_sid r) (i_sessions (c_inst c i)) && _); rewrite ?Nat.eqb_refl; autorewrite with lc; simpl; autorewrite with lc; lia.
      -- assert (En : Nat.eqb (r_sid r) s0 = false) by (apply Nat.eqb_neq; auto). rewrite En in *. simpl in *.
         destruct (mem s0 (i_sessions (c_inst c i)) && _);
           repeat (match goal with |- context [Nat.eqb ?a ?b] => destruct (Nat.eqb_spec a b); subst; simpl in * end);
           autorewrite with lc; simpl; autorewrite with lc; try lia; try congruence.
    * destruct (mem _ _); fin Hb.
    * destruct (mem _ _); fin Hb.
  + destruct (inactive (c_inst c i)); [fin Hb|].
    destruct (mem _ _); fin Hb.
Qed.

Lemma bal_le_pre404 : forall c r e, bal_le c -> bal_le (pre404 c r e).
Proof.
  intros c r e Hb s. destruct (pre404_sess c r e s) as (_ & -> & _).
  destruct (pre404_frame c r e) as (_ & _ & _ & E1 & _ & E2 & E3 & E4 & _).
  unfold pending. rewrite E1, E2, E3, E4. apply Hb.
Qed.

Lemma bal_le_step : forall c l c',
  init_true c -> bal_le c -> step c l c' -> bal_le c'.
Proof.
  intros c l c' (H1 & H2 & H3) Hb Hs. unfold step in Hs. unfold bal_le in *.
  destruct l; simpl in Hs.
  - (* ClientSub *)
    destruct (s_term (c_sess c s)) eqn:Et; [discriminate|].
    destruct (Nat.eqb_spec (s_inflight (c_sess c s)) 0) as [E0|]; [|discriminate]. simpl in Hs.
    destruct (lookup t (s_subs (c_sess c s))); inv_some; fin Hb.
  - destruct (s_term (c_sess c s)) eqn:Et; [discriminate|].
    destruct (Nat.eqb_spec (s_inflight (c_sess c s)) 0) as [E0|]; [|discriminate]. simpl in Hs.
    destruct (lookup t (s_subs (c_sess c s))); inv_some; fin Hb.
  - destruct (s_term (c_sess c s) || negb (c_user c s =? c_owner c t)); [discriminate|].
    inv_some; fin Hb.
  - (* HubJoin *)
    destruct (c_hjoin c) as [|r rest] eqn:E; [discriminate|]. simpl in Hs.
    assert (Hr : r_init r = true) by (apply H1; left; reflexivity).
    unfold pending in Hb. setoid_rewrite E in Hb.
    destruct (c_table c (r_topic r)) as [i|].
    + destruct (inactive (c_inst c i)); inv_some; fin Hb.
    + inv_some; fin Hb.
  - (* InitDone *)
    destruct (negb (is_init (i_phase (c_inst c i)))); [discriminate|].
    destruct (take_first i (c_inits c)) as [[r inits']|] eqn:E; [|discriminate].
    destruct (in_take_first _ _ _ _ _ E) as [Hin Hsub].
    assert (Hr : r_init r = true) by (apply (H2 (i, r)); auto).
    simpl in Hs. destruct ok.
    + destruct (negb (c_store c (i_name (c_inst c i)))); [discriminate|].
      destruct (i_deleted (c_inst c i)); inv_some; intros s0; generalize (cntp_take_first s0 _ _ _ _ E); intros Hc;
        revert s0 Hc; fin Hb.
    + unfold requeue_reg in Hs. simpl in Hs.
      destruct (drain_unreg i (c_tunreg c) _) as [unreg' f'] eqn:Ed. simpl in Hs.
      assert (Hgen : forall (fin : sess -> sess), (forall x, s_inflight (fin x) <= s_inflight x /\ pred (s_inflight x) <= s_inflight (fin x)) ->
                forall s0, cntr s0 (c_hjoin c ++ map snd (filter (fun x => i =? fst x) (c_treg c))) + cntp s0 inits' +
                           cntp s0 (filter (fun x => negb (i =? fst x)) (c_treg c)) + cntp s0 unreg'
                           <= s_inflight ((if s0 =? r_sid r then fin (f' (r_sid r)) else f' s0))).
      { intros fin Hfin s0. specialize (Hb s0). unfold pending in *.
        pose proof (cntp_take_first s0 _ _ _ _ E) as Hc.
        pose proof (cntp_requeue s0 i (c_treg c)) as Hq. unfold requeue_reg in Hq. simpl in Hq.
        pose proof (drain_unreg_bal _ _ _ _ _ Ed s0) as Hd.
        rewrite cntr_app.
        unfold upd in *. simpl in *. unfold mine in *. rewrite Hr in *. simpl in *.
        destruct (Nat.eqb_spec s0 (r_sid r)) as [->|Hne].
        - rewrite Nat.eqb_refl in *. autorewrite with lc in *. simpl in *.
          assert (Hle : cntp (r_sid r) (c_tunreg c) <= s_inflight (c_sess c (r_sid r))) by lia.
          specialize (Hd Hle). destruct (Hfin (f' (r_sid r))). lia.
        - assert (En : Nat.eqb (r_sid r) s0 = false) by (apply Nat.eqb_neq; auto). rewrite En in *.
          simpl in *.
          assert (Hle : cntp s0 (c_tunreg c) <= s_inflight (c_sess c s0)) by lia.
          specialize (Hd Hle). lia. }
      destruct (take_first i (c_texit c)) as [[b exit']|] eqn:Ex; inv_some; intros s0; unfold pending; simpl.
      * specialize (Hgen (fun x => x)). simpl in Hgen.
        assert (Hid : forall x : sess, s_inflight x <= s_inflight x /\ pred (s_inflight x) <= s_inflight x) by (intros; lia).
        specialize (Hgen Hid s0). destruct (s0 =? r_sid r) eqn:E0; [apply Nat.eqb_eq in E0; subst|]; exact Hgen.
      * assert (Hdn : forall x : sess, s_inflight (s_donereq x) <= s_inflight x /\ pred (s_inflight x) <= s_inflight (s_donereq x)) by (intros; simpl; lia).
        specialize (Hgen s_donereq Hdn s0). unfold on_sess, upd. simpl. exact Hgen.
  - (* TopicReg *)
    destruct (negb (is_run (i_phase (c_inst c i)))); [discriminate|].
    destruct (take_first i (c_treg c)) as [[r reg']|] eqn:E; [|discriminate].
    destruct (in_take_first _ _ _ _ _ E) as [Hin Hsub].
    assert (Hr : r_init r = true) by (apply (H3 (i, r)); auto).
    simpl in Hs. inv_some.
    intros s0; generalize (cntp_take_first s0 _ _ _ _ E); intros Hc; revert s0 Hc.
    destruct (inactive (c_inst c i)); [fin Hb|].
    destruct (lookup _ _); [fin Hb|].
    destruct (verify_chan _ _ _) as [aC [|]]; [fin Hb|].
    destruct ok; fin Hb.
  - (* TopicUnreg *)
    destruct (exec_unreg_inv _ _ _ Hs) as (r0 & rest0 & aC & eR & _ & _ & Hu).
    eapply bal_le_unreg_step; [| |exact Hu]; [apply init_true_pre404; repeat split; auto|apply bal_le_pre404; exact Hb].
  - (* Evict *)
    destruct (negb (is_run (i_phase (c_inst c i))) || negb (mem s (i_sessions (c_inst c i)))); [discriminate|].
    destruct (inactive (c_inst c i)); inv_some; fin Hb.
  - destruct (negb (is_run (i_phase (c_inst c i)))); [discriminate|].
    destruct (i_sessions (c_inst c i)); inv_some; fin Hb.
  - (* HubUnreg *)
    destruct (c_hunreg c) as [|[t|r] rest]; [discriminate| |]; simpl in Hs.
    + destruct (c_table c t); inv_some; fin Hb.
    + destruct (c_table c (r_topic r)) as [i|].
      * destruct (is_init (i_phase (c_inst c i)) && negb ownerVisible); inv_some; fin Hb.
      * destruct (c_store c (r_topic r)); inv_some; fin Hb.
  - (* TopicExit *)
    destruct (negb (is_run (i_phase (c_inst c i)))); [discriminate|].
    destruct (take_first i (c_texit c)) as [[b exit']|]; inv_some.
    intros s0. specialize (Hb s0). unfold pending in *. simpl.
    destruct (mem s0 (i_sessions (c_inst c i))); autorewrite with lc; auto.
  - destruct (s_detachq (c_sess c s)); inv_some; fin Hb.
  - destruct (s_term (c_sess c s)); inv_some; fin Hb.
  - (* DiscEnd *)
    destruct (negb (s_term (c_sess c s)) || s_done (c_sess c s) || negb (s_inflight (c_sess c s) =? 0)); inv_some.
    intros s0. specialize (Hb s0). unfold pending in *. simpl.
    rewrite cntp_app. rewrite cntp_all_internal by reflexivity.
    unfold on_sess, upd. simpl. destruct (Nat.eqb_spec s0 s); subst; simpl; lia.
  - (* HubUnregFail *)
    destruct (c_hunreg c) as [|[tq|r] rest]; try discriminate; simpl in Hs.
    destruct (c_table c (r_topic r)) as [i|].
    + destruct (is_init (i_phase (c_inst c i))); [discriminate|]. inv_some; fin Hb.
    + destruct (c_store c (r_topic r)); [|discriminate]. inv_some; fin Hb.
Qed.


Lemma bal_le_reach : forall st ow us c, reach st ow us c -> bal_le c.
Proof.
  induction 1.
  - intros s. unfold pending, cntp, cntr. simpl. lia.
  - eapply bal_le_step; eauto. eapply init_true_reach; eauto.
Qed.

(* ---------- generic case split of one step ---------- *)
Ltac exec_split Hs :=
  repeat (first
    [ discriminate Hs
    | match type of Hs with
      | context [match ?x with _ => _ end] =>
          match x with
          | context [match _ with _ => _ end] => fail 1
          | _ => destruct x eqn:?; simpl in Hs
          end
      end ]).

Lemma drain_unreg_inflight : forall i l f l' f',
  drain_unreg i l f = (l', f') -> forall s, s_inflight (f' s) <= s_inflight (f s).
Proof.
  induction l as [|[j r] rest IH]; intros f l' f' H s; simpl in H.
  - inversion H; subst. auto.
  - destruct (Nat.eqb i j).
    + specialize (IH _ _ _ H s). unfold upd in IH.
      destruct (Nat.eqb s (r_sid r)) eqn:E; auto.
      apply Nat.eqb_eq in E. subst s. destruct (r_init r); autorewrite with lc in *; simpl in *; lia.
    + destruct (drain_unreg i rest f) as [l2 f2] eqn:E. inversion H; subst. eapply IH; eauto.
Qed.

Lemma unreg_step_sess_flags : forall c i a e c', unreg_step c i a e = Some c' -> forall s0,
  s_done (c_sess c' s0) = s_done (c_sess c s0) /\ s_term (c_sess c' s0) = s_term (c_sess c s0) /\
  (s_inflight (c_sess c' s0) <= s_inflight (c_sess c s0) \/ s_term (c_sess c s0) = false).
Proof.
  intros c i a e c' Hs s0. unfold unreg_step in Hs.
  destruct (negb (is_run (i_phase (c_inst c i)))); [discriminate|].
  destruct (take_first i (c_tunreg c)) as [[r unreg']|] eqn:E; [|discriminate]. simpl in Hs. inv_some.
  destruct (inactive (c_inst c i)); [destruct (r_init r)|destruct (r_init r); [destruct (r_kind r) as [|[|]|]|]];
    simpl; unfold on_sess, on_inst, upd; simpl; deq;
    repeat match goal with |- context [if ?b then _ else _] => destruct b eqn:?; simpl end;
    deq; autorewrite with lc; simpl; auto; repeat split; auto; try (left; lia); congruence.
Qed.

(* what one step does to the termination flags and the in-flight counter of a session *)
Lemma step_sess_flags : forall c l c', step c l c' -> forall s0,
  (s_done (c_sess c' s0) = s_done (c_sess c s0) /\ s_term (c_sess c' s0) = s_term (c_sess c s0) /\
   (s_inflight (c_sess c' s0) <= s_inflight (c_sess c s0) \/ s_term (c_sess c s0) = false)) \/
  (l = DiscBegin s0 /\ s_term (c_sess c s0) = false /\ s_term (c_sess c' s0) = true /\ s_done (c_sess c' s0) = false /\
   s_inflight (c_sess c' s0) = s_inflight (c_sess c s0)) \/
  (l = DiscEnd s0 /\ s_term (c_sess c s0) = true /\ s_inflight (c_sess c s0) = 0 /\ s_done (c_sess c' s0) = true /\
   s_term (c_sess c' s0) = true /\ s_inflight (c_sess c' s0) = 0).
Proof.
  intros c l c' Hs s0. unfold step in Hs.
  destruct l; simpl in Hs.
  - destruct (s_term (c_sess c s)) eqn:Et; [discriminate|]. simpl in Hs. exec_split Hs; inv_some; left;
      simpl; unfold on_sess, upd; simpl; deq; autorewrite with lc; simpl; auto.
  - destruct (s_term (c_sess c s)) eqn:Et; [discriminate|]. simpl in Hs. exec_split Hs; inv_some; left;
      simpl; unfold on_sess, upd; simpl; deq; autorewrite with lc; simpl; auto.
  - exec_split Hs; inv_some; left; simpl; unfold on_sess, upd; simpl; deq; autorewrite with lc; simpl; auto.
  - exec_split Hs; inv_some; left; simpl; unfold on_sess, upd; simpl; deq; autorewrite with lc; simpl; auto; repeat split; auto; left; lia.
  - (* InitDone *)
    destruct (negb (is_init (i_phase (c_inst c i)))); [discriminate|].
    destruct (take_first i (c_inits c)) as [[r inits']|] eqn:E; [|discriminate]. simpl in Hs. destruct ok.
    + exec_split Hs; inv_some; left; simpl; unfold on_sess, on_inst, upd; simpl; deq; autorewrite with lc; simpl; auto; repeat split; auto; left; lia.
    + unfold requeue_reg in Hs. simpl in Hs.
      destruct (drain_unreg i (c_tunreg c) _) as [unreg' f'] eqn:Ed. simpl in Hs.
      pose proof (drain_unreg_frame _ _ _ _ _ Ed s0) as (_ & _ & Ft & Fd).
      pose proof (drain_unreg_inflight _ _ _ _ _ Ed s0) as Fi.
      left. destruct (take_first i (c_texit c)) as [[b exit']|]; inv_some; simpl; unfold on_sess, on_inst, upd in *; simpl in *;
        destruct (Nat.eqb_spec s0 (r_sid r)); subst; simpl in *; autorewrite with lc in *; simpl in *; rewrite ?Ft, ?Fd; repeat split; auto; left; lia.
  - (* TopicReg *)
    destruct (negb (is_run (i_phase (c_inst c i)))); [discriminate|].
    destruct (take_first i (c_treg c)) as [[r reg']|] eqn:E; [|discriminate]. simpl in Hs. inv_some. left.
    destruct (inactive (c_inst c i)); [|destruct (lookup _ _); [|destruct (verify_chan _ _ _) as [aC [|]]; [|destruct ok]]];
      simpl; unfold on_sess, on_inst, upd; simpl; deq; autorewrite with lc; simpl; auto; repeat split; auto; left; lia.
  - (* TopicUnreg *)
    destruct (exec_unreg_inv _ _ _ Hs) as (r0 & rest0 & aC & eR & _ & _ & Hu).
    left. pose proof (unreg_step_sess_flags _ _ _ _ _ Hu s0) as X.
    destruct (pre404_sess c r0 eR s0) as (_ & Q1 & Q2 & Q3 & _). rewrite Q1, Q2, Q3 in X. exact X.
  - exec_split Hs; inv_some; left; simpl; unfold on_sess, on_inst, upd; simpl; deq; autorewrite with lc; simpl; auto.
  - exec_split Hs; inv_some; left; simpl; auto.
  - exec_split Hs; inv_some; left; simpl; unfold on_sess, on_inst, upd; simpl; deq; autorewrite with lc; simpl; auto.
  - exec_split Hs; inv_some; left; simpl. destruct (mem s0 (i_sessions (c_inst c i))); autorewrite with lc; auto.
  - exec_split Hs; inv_some; left; simpl; unfold on_sess, on_inst, upd; simpl; deq; autorewrite with lc; simpl; auto.
  - destruct (s_term (c_sess c s)) eqn:Et; [discriminate|]. inv_some.
    destruct (Nat.eqb_spec s0 s) as [->|Hne].
    + right. left. simpl. unfold on_sess, upd. simpl. rewrite Nat.eqb_refl. simpl. auto.
    + left. simpl. unfold on_sess, upd. simpl. destruct (Nat.eqb_spec s0 s); [contradiction|]. auto.
  - destruct (s_term (c_sess c s)) eqn:Et; simpl in Hs; [|discriminate].
    destruct (s_done (c_sess c s)) eqn:Ed; simpl in Hs; [discriminate|].
    destruct (Nat.eqb_spec (s_inflight (c_sess c s)) 0) as [E0|]; simpl in Hs; [|discriminate]. inv_some.
    destruct (Nat.eqb_spec s0 s) as [->|Hne].
    + right. right. simpl. unfold on_sess, upd. simpl. rewrite Nat.eqb_refl. simpl. repeat split; auto.
    + left. simpl. unfold on_sess, upd. simpl. destruct (Nat.eqb_spec s0 s); [contradiction|]. auto.
  - (* HubUnregFail *)
    destruct (c_hunreg c) as [|[tq|r] rest]; try discriminate; simpl in Hs.
    destruct (c_table c (r_topic r)) as [i|].
    + destruct (is_init (i_phase (c_inst c i))); [discriminate|]. inv_some; left; simpl; unfold on_sess, on_inst, upd; simpl; deq; autorewrite with lc; simpl; auto.
    + destruct (c_store c (r_topic r)); [|discriminate]. inv_some; left; simpl; unfold on_sess, on_inst, upd; simpl; deq; autorewrite with lc; simpl; auto.
Qed.

Definition done_flags (c : config) : Prop :=
  forall s, s_done (c_sess c s) = true -> s_term (c_sess c s) = true /\ s_inflight (c_sess c s) = 0.

Lemma done_flags_step : forall c l c', done_flags c -> step c l c' -> done_flags c'.
Proof.
  intros c l c' H Hs s Hd.
  destruct (step_sess_flags _ _ _ Hs s) as [(A & B & C)|[(_ & _ & _ & A & _)|(_ & _ & _ & _ & A & B)]].
  - rewrite A in Hd. destruct (H s Hd) as [Ht H0]. rewrite B. split; auto.
    destruct C as [C|C]; [lia|congruence].
  - congruence.
  - auto.
Qed.

Lemma done_flags_reach : forall st ow us c, reach st ow us c -> done_flags c.
Proof. induction 1; [intros s; simpl; discriminate|eapply done_flags_step; eauto]. Qed.

(* an instance marked deleted whose run loop is still going has its termination request queued *)
Definition del_exit (c : config) : Prop :=
  forall j, i_deleted (c_inst c j) = true -> i_phase (c_inst c j) = PRun -> has_tag j (c_texit c) = true.

Definition same_del (c c' : config) : Prop :=
  (forall j, i_deleted (c_inst c' j) = i_deleted (c_inst c j) /\ i_phase (c_inst c' j) = i_phase (c_inst c j)) /\
  c_texit c' = c_texit c.

Lemma del_exit_same : forall c c', same_del c c' -> del_exit c -> del_exit c'.
Proof. intros c c' (Ei & Ex) H j. destruct (Ei j) as (-> & ->). rewrite Ex. apply H. Qed.

Ltac same_del_tac :=
  split; [intros; simpl; unfold on_sess, on_inst, upd; simpl; deq; simpl; auto|reflexivity].

Lemma del_exit_unreg_step : forall c i a e c', del_exit c -> unreg_step c i a e = Some c' -> del_exit c'.
Proof.
  intros c i a e c' H Hs. unfold unreg_step in Hs.
  destruct (negb (is_run (i_phase (c_inst c i)))); [discriminate|].
  destruct (take_first i (c_tunreg c)) as [[r unreg']|] eqn:E; [|discriminate]. simpl in Hs. inv_some.
  (eapply del_exit_same; [|exact H]).
  destruct (inactive (c_inst c i)); [destruct (r_init r)|destruct (r_init r); [destruct (r_kind r) as [|[|]|]|]];
    simpl; repeat match goal with |- context [if ?b then _ else _] => destruct b eqn:?; simpl end; same_del_tac.
Qed.

Lemma del_exit_step : forall c l c', del_exit c -> step c l c' -> del_exit c'.
Proof.
  intros c l c' H Hs. unfold step in Hs. destruct l; simpl in Hs.
  - exec_split Hs; inv_some; (eapply del_exit_same; [|exact H]); same_del_tac.
  - exec_split Hs; inv_some; (eapply del_exit_same; [|exact H]); same_del_tac.
  - exec_split Hs; inv_some; (eapply del_exit_same; [|exact H]); same_del_tac.
  - (* HubJoin *)
    destruct (c_hjoin c) as [|r rest]; [discriminate|]. simpl in Hs.
    destruct (c_table c (r_topic r)) as [i|].
    + destruct (inactive (c_inst c i)); inv_some; (eapply del_exit_same; [|exact H]); same_del_tac.
    + inv_some. intros j. simpl. unfold upd. destruct (Nat.eqb_spec j (c_next c)); simpl; [discriminate|apply H].
  - (* InitDone *)
    destruct (i_phase (c_inst c i)) eqn:Ep; simpl in Hs; try discriminate.
    destruct (take_first i (c_inits c)) as [[r inits']|] eqn:E; [|discriminate]. simpl in Hs. destruct ok.
    + destruct (negb (c_store c (i_name (c_inst c i)))); [discriminate|].
      destruct (i_deleted (c_inst c i)) eqn:Edl; inv_some; intros j; simpl; unfold on_sess, on_inst, upd; simpl;
        destruct (Nat.eqb_spec j i); subst; simpl; try discriminate; try congruence; try apply H.
    + unfold requeue_reg in Hs. simpl in Hs.
      destruct (drain_unreg i (c_tunreg c) _) as [unreg' f'] eqn:Ed. simpl in Hs.
      destruct (take_first i (c_texit c)) as [[b exit']|] eqn:Ex; inv_some; intros j; simpl; unfold on_sess, on_inst, upd; simpl;
        destruct (Nat.eqb_spec j i); subst; simpl; try discriminate; try apply H.
      intros A B. rewrite (has_tag_take_other _ j i _ _ _ Ex); auto.
  - (* TopicReg *)
    destruct (negb (is_run (i_phase (c_inst c i)))); [discriminate|].
    destruct (take_first i (c_treg c)) as [[r reg']|] eqn:E; [|discriminate]. simpl in Hs. inv_some.
    (eapply del_exit_same; [|exact H]).
    destruct (inactive (c_inst c i)); [|destruct (lookup _ _); [|destruct (verify_chan _ _ _) as [aC [|]]; [|destruct ok]]]; same_del_tac.
  - (* TopicUnreg *)
    destruct (exec_unreg_inv _ _ _ Hs) as (r0 & rest0 & aC & eR & _ & _ & Hu).
    eapply del_exit_unreg_step; [|exact Hu].
    intros j. destruct (pre404_frame c r0 eR) as (-> & _ & _ & _ & _ & _ & _ & _ & -> & _). apply H.
  - exec_split Hs; inv_some; (eapply del_exit_same; [|exact H]); same_del_tac.
  - exec_split Hs; inv_some; (eapply del_exit_same; [|exact H]); same_del_tac.
  - (* HubUnreg *)
    destruct (c_hunreg c) as [|[t|r] rest]; [discriminate| |]; simpl in Hs.
    + destruct (c_table c t) as [i|]; inv_some; [|(eapply del_exit_same; [|exact H]); same_del_tac].
      intros j. simpl. unfold on_inst, upd. simpl. rewrite has_tag_app. simpl.
      destruct (Nat.eqb_spec j i); subst; simpl; [intros; apply orb_true_r|]. intros A B. rewrite (H j A B). reflexivity.
    + destruct (c_table c (r_topic r)) as [i|].
      * destruct (is_init (i_phase (c_inst c i)) && negb ownerVisible); inv_some; [(eapply del_exit_same; [|exact H]); same_del_tac|].
        intros j. simpl. unfold on_sess, on_inst, upd. simpl. rewrite has_tag_app. simpl.
        destruct (Nat.eqb_spec j i); subst; simpl; [intros; apply orb_true_r|]. intros A B. rewrite (H j A B). reflexivity.
      * destruct (c_store c (r_topic r)); inv_some; (eapply del_exit_same; [|exact H]); same_del_tac.
  - (* TopicExit *)
    destruct (i_phase (c_inst c i)) eqn:Ep; simpl in Hs; try discriminate.
    destruct (take_first i (c_texit c)) as [[b exit']|] eqn:Ex; inv_some.
    intros j. simpl. unfold on_inst, upd. simpl. destruct (Nat.eqb_spec j i); subst; simpl; [discriminate|].
    intros A B. rewrite (has_tag_take_other _ j i _ _ _ Ex); auto.
  - exec_split Hs; inv_some; (eapply del_exit_same; [|exact H]); same_del_tac.
  - exec_split Hs; inv_some; (eapply del_exit_same; [|exact H]); same_del_tac.
  - exec_split Hs; inv_some; (eapply del_exit_same; [|exact H]); same_del_tac.
  - (* HubUnregFail *)
    destruct (c_hunreg c) as [|[tq|r] rest]; try discriminate; simpl in Hs.
    destruct (c_table c (r_topic r)) as [i|].
    + destruct (is_init (i_phase (c_inst c i))); [discriminate|]. inv_some; (eapply del_exit_same; [|exact H]); same_del_tac.
    + destruct (c_store c (r_topic r)); [|discriminate]. inv_some; (eapply del_exit_same; [|exact H]); same_del_tac.
Qed.

Lemma del_exit_reach : forall st ow us c, reach st ow us c -> del_exit c.
Proof. induction 1; [intros j; simpl; discriminate|eapply del_exit_step; eauto]. Qed.

(* ---------- a session whose cleanUp completed is on its way out of every topic ---------- *)
Definition done_leave (c : config) : Prop :=
  forall s j, s_done (c_sess c s) = true -> i_phase (c_inst c j) <> PDead -> mem s (i_sessions (c_inst c j)) = true ->
    i_deleted (c_inst c j) = true \/ exists r, In (j, r) (c_tunreg c) /\ r_init r = false /\ r_sid r = s.

Lemma done_leave_mono : forall c c',
  (forall s, s_done (c_sess c' s) = true -> s_done (c_sess c s) = true) ->
  (forall s j, i_phase (c_inst c' j) <> PDead -> mem s (i_sessions (c_inst c' j)) = true ->
               i_phase (c_inst c j) <> PDead /\ mem s (i_sessions (c_inst c j)) = true /\
               (i_deleted (c_inst c j) = true -> i_deleted (c_inst c' j) = true)) ->
  (forall x, In x (c_tunreg c) -> In x (c_tunreg c')) ->
  done_leave c -> done_leave c'.
Proof.
  intros c c' Hd Hm Hq H s j A B C.
  destruct (Hm _ _ B C) as (B0 & C0 & Hdel). destruct (H s j (Hd _ A) B0 C0) as [X|(r & X & Y)]; [left; auto|right].
  exists r. split; auto.
Qed.

Lemma lookup_In : forall t l i, lookup t l = Some i -> In (t, i) l.
Proof.
  induction l as [|[k j] r IH]; simpl; intros i H; [discriminate|].
  destruct (Nat.eqb_spec t k) as [->|]; [inversion H; subst; left; reflexivity|right; auto].
Qed.

Lemma drain_unreg_keeps : forall i l f l' f',
  drain_unreg i l f = (l', f') -> forall x, In x l -> fst x <> i -> In x l'.
Proof.
  induction l as [|[j r] rest IH]; intros f l' f' H x Hin Hne; simpl in H; [contradiction|].
  destruct (Nat.eqb_spec i j) as [->|Hij].
  - destruct Hin as [<-|Hin]; [simpl in Hne; congruence|]. eapply IH; eauto.
  - destruct (drain_unreg i rest f) as [l2 f2] eqn:E. inversion H; subst.
    destruct Hin as [<-|Hin]; [left; reflexivity|right; eapply IH; eauto].
Qed.

Lemma take_first_cases : forall (A : Type) i (l : list (inst * A)) a l' x,
  take_first i l = Some (a, l') -> In x l -> x = (i, a) \/ In x l'.
Proof.
  intros A i l a l' x H Hin. apply take_first_spec in H. destruct H as (l1 & l2 & -> & -> & _).
  apply in_app_or in Hin. destruct Hin as [Hin|[<-|Hin]]; auto; right; apply in_or_app; auto.
Qed.

Lemma cntp_in_pos : forall s l i r, In (i, r) l -> mine s r = true -> 1 <= cntp s l.
Proof.
  induction l as [|[j q] rest IH]; intros i r Hin Hm; [contradiction|].
  rewrite cntp_cons. destruct Hin as [E|Hin].
  - inversion E; subst. rewrite Hm. lia.
  - specialize (IH _ _ Hin Hm). lia.
Qed.

Ltac mono_tac H :=
  eapply done_leave_mono; [| | |exact H];
  [intros ?; simpl; unfold on_sess, upd; simpl; deq; autorewrite with lc; simpl; auto
  |intros ? ?; simpl; unfold on_sess, on_inst, upd; simpl; deq; simpl; auto; try (intros; repeat split; auto; congruence)
  |intros ?; simpl; auto; try (intros; apply in_or_app; auto; fail)].

Lemma done_leave_unreg_step : forall c i a e c',
  done_leave c -> unreg_step c i a e = Some c' -> done_leave c'.
Proof.
  intros c i a e c' H Hs. unfold unreg_step in Hs.
  destruct (i_phase (c_inst c i)) eqn:Ep; simpl in Hs; try discriminate.
  destruct (take_first i (c_tunreg c)) as [[r unreg']|] eqn:E; [|discriminate]. simpl in Hs. inv_some.
  (* generic: sessions only shrink, flags unchanged; the queue loses exactly (i, r) *)
  assert (Hgen : forall c2,
            (forall s, s_done (c_sess c2 s) = s_done (c_sess c s)) ->
            (forall j, i_phase (c_inst c2 j) = i_phase (c_inst c j) /\ i_deleted (c_inst c2 j) = i_deleted (c_inst c j) /\
                       forall s, mem s (i_sessions (c_inst c2 j)) = true -> mem s (i_sessions (c_inst c j)) = true) ->
            c_tunreg c2 = unreg' ->
            (inactive (c_inst c i) = true \/ r_init r = true \/ mem (r_sid r) (i_sessions (c_inst c2 i)) = false) ->
            done_leave c2).
  { intros c2 E1 E2 E3 E4 s j A B C. destruct (E2 j) as (Ph & Dl & Ms). rewrite Ph in B. rewrite Dl.
    rewrite E1 in A. destruct (H s j A B (Ms _ C)) as [X|(q & X & Y & Z)]; [left; auto|].
    destruct (take_first_cases _ _ _ _ _ _ E X) as [Eq|Hin].
    - inversion Eq; subst j q. destruct E4 as [E4|[E4|E4]].
      + left. unfold inactive in E4. rewrite Ep in E4. exact E4.
      + congruence.
      + subst s. congruence.
    - right. exists q. rewrite E3. auto. }
  destruct (inactive (c_inst c i)) eqn:Ein.
  { destruct (r_init r); apply Hgen; auto; intros; simpl; unfold on_sess, on_inst, upd; simpl; deq; autorewrite with lc; simpl; auto. }
  destruct (r_init r) eqn:Eri.
  + apply Hgen; auto.
    * intros s. destruct (r_kind r) as [|[|]|]; simpl; repeat match goal with |- context [if ?b then _ else _] => destruct b eqn:?; simpl end;
        unfold on_sess, on_inst, upd; simpl; deq; repeat match goal with |- context [if ?b then _ else _] => destruct b eqn:?; simpl end;
        autorewrite with lc; simpl; auto.
    * intros j. destruct (r_kind r) as [|[|]|]; simpl; repeat match goal with |- context [if ?b then _ else _] => destruct b eqn:?; simpl end;
        unfold on_sess, on_inst, upd; simpl; destruct (Nat.eqb_spec j i); subst; simpl; repeat split; auto;
        intros s; rewrite ?mem_remove_nat, ?mem_filter; intros X; apply andb_true_iff in X; tauto.
    * destruct (r_kind r) as [|[|]|]; simpl; repeat match goal with |- context [if ?b then _ else _] => destruct b eqn:?; simpl end; reflexivity.
  + apply Hgen; auto.
    * intros s. simpl; repeat match goal with |- context [if ?b then _ else _] => destruct b eqn:?; simpl end;
        unfold on_sess, on_inst, upd; simpl; deq; autorewrite with lc; simpl; auto.
    * intros j. simpl; repeat match goal with |- context [if ?b then _ else _] => destruct b eqn:?; simpl end;
        unfold on_sess, on_inst, upd; simpl; destruct (Nat.eqb_spec j i); subst; simpl; repeat split; auto;
        intros s; rewrite ?mem_remove_nat; intros X; apply andb_true_iff in X; tauto.
    * simpl; repeat match goal with |- context [if ?b then _ else _] => destruct b eqn:?; simpl end; reflexivity.
    * right. right. simpl. destruct (mem (r_sid r) (i_sessions (c_inst c i))) eqn:Em; simpl; unfold on_sess, on_inst, upd; simpl.
      -- rewrite Nat.eqb_refl. simpl. rewrite mem_remove_nat, Nat.eqb_refl, andb_false_r. reflexivity.
      -- exact Em.
Qed.

Lemma done_leave_pre404 : forall c r e, done_leave c -> done_leave (pre404 c r e).
Proof.
  intros c r e H s j. destruct (pre404_sess c r e s) as (_ & _ & _ & -> & _).
  destruct (pre404_frame c r e) as (-> & _ & _ & _ & _ & _ & _ & -> & _). apply H.
Qed.

Lemma done_leave_step : forall c l c',
  inv_att c -> init_true c -> bal_le c -> done_flags c -> done_leave c -> step c l c' -> done_leave c'.
Proof.
  intros c l c' IA IT BL DF H Hs. unfold step in Hs. destruct l; simpl in Hs.
  - exec_split Hs; inv_some; mono_tac H.
  - exec_split Hs; inv_some; mono_tac H.
  - exec_split Hs; inv_some; mono_tac H.
  - (* HubJoin *)
    destruct (c_hjoin c) as [|r rest]; [discriminate|]. simpl in Hs.
    destruct (c_table c (r_topic r)) as [i|].
    + destruct (inactive (c_inst c i)); inv_some; mono_tac H.
    + inv_some. mono_tac H.
  - (* InitDone *)
    destruct (i_phase (c_inst c i)) eqn:Ep; simpl in Hs; try discriminate.
    destruct (take_first i (c_inits c)) as [[r inits']|] eqn:E; [|discriminate]. simpl in Hs. destruct ok.
    + destruct (negb (c_store c (i_name (c_inst c i)))); [discriminate|].
      destruct (i_deleted (c_inst c i)) eqn:Edl; inv_some; mono_tac H; try congruence.
    + unfold requeue_reg in Hs. simpl in Hs.
      destruct (drain_unreg i (c_tunreg c) _) as [unreg' f'] eqn:Ed. simpl in Hs.
      pose proof (drain_unreg_frame _ _ _ _ _ Ed) as Fr.
      assert (Hgen : forall c2, (forall s, s_done (c_sess c2 s) = s_done (f' s)) ->
                (forall j, c_inst c2 j = if Nat.eqb j i then i_setphase (c_inst c i) PDead else c_inst c j) ->
                c_tunreg c2 = unreg' -> done_leave c2).
      { intros c2 E1 E2 E3 s j A B C. rewrite E2 in B, C. rewrite E2.
        destruct (Nat.eqb_spec j i) as [->|Hji]; [simpl in B; congruence|].
        rewrite E1 in A. destruct (Fr s) as (_ & _ & _ & Fd). rewrite Fd in A.
        assert (A0 : s_done (c_sess c s) = true).
        { unfold upd in A. destruct (Nat.eqb s (r_sid r)) eqn:Es; auto. apply Nat.eqb_eq in Es. subst. autorewrite with lc in A. exact A. }
        destruct (H s j A0 B C) as [X|(q & X & Y)]; [left; auto|right]. exists q. split; auto.
        rewrite E3. eapply drain_unreg_keeps; eauto. }
      destruct (take_first i (c_texit c)) as [[b exit']|]; inv_some; apply Hgen; auto; intros; simpl;
        unfold on_sess, on_inst, upd; simpl; deq; autorewrite with lc; simpl; auto.
  - (* TopicReg *)
    destruct (i_phase (c_inst c i)) eqn:Ep; simpl in Hs; try discriminate.
    destruct (take_first i (c_treg c)) as [[r reg']|] eqn:E; [|discriminate]. simpl in Hs. inv_some.
    destruct (in_take_first _ _ _ _ _ E) as [Hin _].
    destruct IT as (_ & _ & IT3). pose proof (IT3 _ Hin) as Hri. simpl in Hri.
    assert (Hnd : s_done (c_sess c (r_sid r)) = false).
    { destruct (s_done (c_sess c (r_sid r))) eqn:Ed; auto. exfalso.
      destruct (DF _ Ed) as [_ H0]. specialize (BL (r_sid r)). unfold pending in BL.
      assert (1 <= cntp (r_sid r) (c_treg c)).
      { eapply cntp_in_pos; eauto. unfold mine. rewrite Hri, Nat.eqb_refl. reflexivity. }
      lia. }
    destruct (inactive (c_inst c i)); [mono_tac H|].
    destruct (lookup _ _); [mono_tac H|]. destruct (verify_chan _ _ _) as [aC [|]]; [mono_tac H|]. destruct ok; [|mono_tac H].
    intros s j A B C. simpl in *. unfold on_sess, on_inst, upd in *. simpl in *.
    destruct (Nat.eqb_spec s (r_sid r)) as [->|Hs]; simpl in *; rewrite ?Nat.eqb_refl in *; simpl in *; autorewrite with lc in *; simpl in *; [congruence|].
    destruct (Nat.eqb_spec j i) as [->|Hji]; simpl in *.
    + rewrite mem_add in C. destruct (Nat.eqb_spec s (r_sid r)); [contradiction|]. rewrite orb_false_r in C. apply H; auto.
    + apply H; auto.
  - (* TopicUnreg *)
    destruct (exec_unreg_inv _ _ _ Hs) as (r0 & rest0 & aC & eR & _ & _ & Hu).
    eapply done_leave_unreg_step; [|exact Hu]. apply done_leave_pre404. exact H.
  - (* Evict *)
    exec_split Hs; inv_some; auto. mono_tac H. rewrite mem_remove_nat. intros ? X. apply andb_true_iff in X. tauto.
  - exec_split Hs; inv_some; mono_tac H.
  - (* HubUnreg *)
    destruct (c_hunreg c) as [|[t|r] rest]; [discriminate| |]; simpl in Hs.
    + destruct (c_table c t) as [i|]; inv_some; mono_tac H.
    + destruct (c_table c (r_topic r)) as [i|].
      * destruct (is_init (i_phase (c_inst c i)) && negb ownerVisible); inv_some; mono_tac H.
      * destruct (c_store c (r_topic r)); inv_some; mono_tac H.
  - (* TopicExit *)
    destruct (i_phase (c_inst c i)) eqn:Ep; simpl in Hs; try discriminate.
    destruct (take_first i (c_texit c)) as [[b exit']|] eqn:Ex; inv_some.
    eapply done_leave_mono; [| | |exact H]; simpl; auto.
    + intros s. destruct (mem s (i_sessions (c_inst c i))); autorewrite with lc; auto.
    + intros s j. unfold on_inst, upd. simpl. destruct (Nat.eqb_spec j i); subst; simpl; [congruence|auto].
  - exec_split Hs; inv_some; mono_tac H.
  - exec_split Hs; inv_some; mono_tac H. discriminate.
  - (* DiscEnd *)
    destruct (s_term (c_sess c s)) eqn:Et; simpl in Hs; [|discriminate].
    destruct (s_done (c_sess c s)) eqn:Ed; simpl in Hs; [discriminate|].
    destruct (Nat.eqb_spec (s_inflight (c_sess c s)) 0) as [E0|]; simpl in Hs; [|discriminate]. inv_some.
    intros s0 j A B C. simpl in *. unfold on_sess, upd in *. simpl in *.
    destruct (Nat.eqb_spec s0 s) as [->|Hne]; simpl in *.
    + right. pose proof (ia_mem_sub _ IA s j B C) as Hl. apply lookup_In in Hl.
      exists (mkReq s 0 (KLeave false) (i_name (c_inst c j)) false false). split; [|auto].
      apply in_or_app. right. apply in_map_iff. exists (i_name (c_inst c j), j). split; auto.
    + destruct (H s0 j A B C) as [X|(q & X & Y)]; [left; auto|right]. exists q. split; auto. apply in_or_app. auto.
  - (* HubUnregFail *)
    destruct (c_hunreg c) as [|[tq|r] rest]; try discriminate; simpl in Hs.
    destruct (c_table c (r_topic r)) as [i|].
    + destruct (is_init (i_phase (c_inst c i))); [discriminate|]. inv_some; mono_tac H.
    + destruct (c_store c (r_topic r)); [|discriminate]. inv_some; mono_tac H.
Qed.

Lemma done_leave_reach : forall st ow us c, reach st ow us c -> done_leave c.
Proof.
  induction 1.
  - intros s j; simpl; discriminate.
  - eapply done_leave_step; eauto.
    + eapply inv_att_reach; eauto.
    + eapply init_true_reach; eauto.
    + eapply bal_le_reach; eauto.
    + eapply done_flags_reach; eauto.
Qed.

(* A session whose cleanUp has completed is, at quiescence, attached to no running topic: every
   running instance has forgotten it (so the per-user online count, which the Go code keeps as the
   number of attached foreground sessions of the user, is back to what the other sessions give). *)
Lemma terminated_detached : forall st ow us c, reach st ow us c -> quiescent c ->
  forall s i, s_done (c_sess c s) = true -> i_phase (c_inst c i) = PRun -> mem s (i_sessions (c_inst c i)) = false.
Proof.
  intros st ow us c Hr Hq s i Hd Hp.
  destruct (mem s (i_sessions (c_inst c i))) eqn:Em; auto. exfalso.
  destruct Hq as (_ & _ & _ & _ & Hu & Hx & _).
  assert (Hnd : i_phase (c_inst c i) <> PDead) by congruence.
  destruct (done_leave_reach _ _ _ _ Hr s i Hd Hnd Em) as [X|(r & X & _)].
  - pose proof (del_exit_reach _ _ _ _ Hr i X Hp) as Y. rewrite Hx in Y. discriminate.
  - rewrite Hu in X. contradiction.
Qed.

(* number of sessions of user u attached to instance i: the model's online count *)
Definition online (c : config) (i : inst) (u : uid) : nat :=
  length (filter (fun s => Nat.eqb (c_user c s) u) (i_sessions (c_inst c i))).

Lemma online_terminated : forall st ow us c, reach st ow us c -> quiescent c ->
  forall i u, i_phase (c_inst c i) = PRun ->
    online c i u = length (filter (fun s => Nat.eqb (c_user c s) u && negb (s_done (c_sess c s))) (i_sessions (c_inst c i))).
Proof.
  intros st ow us c Hr Hq i u Hp. unfold online.
  assert (H : forall s, In s (i_sessions (c_inst c i)) -> s_done (c_sess c s) = false).
  { intros s Hin. destruct (s_done (c_sess c s)) eqn:Ed; auto.
    pose proof (terminated_detached _ _ _ _ Hr Hq s i Ed Hp) as X. apply mem_true_iff in Hin. congruence. }
  induction (i_sessions (c_inst c i)) as [|x l IH]; simpl; auto.
  rewrite (H x (or_introl eq_refl)). simpl. rewrite andb_true_r.
  destruct (Nat.eqb (c_user c x) u); simpl; rewrite IH; auto; intros; apply H; right; auto.
Qed.

(* ---------- a deleted topic refuses ---------- *)

Record inv_tbl (c : config) : Prop := mkIT {
  (* the hub's table points to live, unmarked instances of that name *)
  it_live : forall t i, c_table c t = Some i ->
            i < c_next c /\ i_name (c_inst c i) = t /\ i_phase (c_inst c i) <> PDead /\ i_deleted (c_inst c i) = false;
  (* a running instance in the table has its row *)
  it_row : forall t i, c_table c t = Some i -> i_phase (c_inst c i) = PRun -> c_store c t = true;
  (* a termination request is only ever queued together with the deleted mark *)
  it_exit : forall x, In x (c_texit c) -> fst x < c_next c /\ i_deleted (c_inst c (fst x)) = true }.

Lemma inv_tbl_init : forall st ow us ch, inv_tbl (init_config st ow us ch).
Proof. intros. constructor; simpl; intros; try discriminate; contradiction. Qed.

Lemma inv_tbl_unreg_step : forall c i a e c', inv_tbl c -> unreg_step c i a e = Some c' -> inv_tbl c'.
Proof.
  intros c i a e c' [L R X] Hs. unfold unreg_step in Hs.
  destruct (negb (is_run (i_phase (c_inst c i)))); [discriminate|].
  destruct (take_first i (c_tunreg c)) as [[r unreg']|] eqn:E; [|discriminate]. simpl in Hs. inv_some.
  assert (Hgen : forall c2, c_next c2 = c_next c -> c_store c2 = c_store c -> c_table c2 = c_table c -> c_texit c2 = c_texit c ->
            (forall j, i_name (c_inst c2 j) = i_name (c_inst c j) /\ i_phase (c_inst c2 j) = i_phase (c_inst c j) /\
                       i_deleted (c_inst c2 j) = i_deleted (c_inst c j)) -> inv_tbl c2).
  { intros c2 E1 E2 E3 E4 E5. constructor.
    - intros t j. rewrite E3, E1. destruct (E5 j) as (-> & -> & ->). apply L.
    - intros t j. rewrite E3, E2. destruct (E5 j) as (_ & -> & _). apply R.
    - intros x. rewrite E4, E1. destruct (E5 (fst x)) as (_ & _ & ->). apply X. }
  apply Hgen; destruct (inactive (c_inst c i)); destruct (r_init r); try (destruct (r_kind r) as [|[|]|]); simpl;
    repeat match goal with |- context [if ?b then _ else _] => destruct b eqn:?; simpl end; auto;
    intros; unfold on_sess, on_inst, upd; simpl; deq; simpl; auto.
Qed.

Lemma inv_tbl_pre404 : forall c r e, inv_tbl c -> inv_tbl (pre404 c r e).
Proof.
  intros c r e [L R X].
  destruct (pre404_frame c r e) as (Ei & En & Et & _ & _ & _ & _ & _ & Ex & Es & _).
  constructor; rewrite ?Ei, ?En, ?Et, ?Ex, ?Es; auto.
Qed.

Lemma inv_tbl_step : forall c l c', inv_tbl c -> step c l c' -> inv_tbl c'.
Proof.
  intros c l c' [L R X] Hs. unfold step in Hs. destruct l; simpl in Hs.
  - exec_split Hs; inv_some; constructor; simpl; auto.
  - exec_split Hs; inv_some; constructor; simpl; auto.
  - exec_split Hs; inv_some; constructor; simpl; auto.
  - (* HubJoin *)
    destruct (c_hjoin c) as [|r rest]; [discriminate|]. simpl in Hs.
    destruct (c_table c (r_topic r)) as [i|] eqn:Et.
    + destruct (inactive (c_inst c i)); inv_some; constructor; simpl; auto.
    + inv_some. constructor; simpl; unfold upd.
      * intros t i. destruct (Nat.eqb_spec t (r_topic r)) as [->|Hne].
        -- intros E. inversion E; subst. rewrite Nat.eqb_refl. simpl. repeat split; auto; discriminate.
        -- intros E. destruct (L _ _ E) as (A & B & C & D). destruct (Nat.eqb_spec i (c_next c)); [lia|]. repeat split; auto.
      * intros t i. destruct (Nat.eqb_spec t (r_topic r)) as [->|Hne].
        -- intros E. inversion E; subst. rewrite Nat.eqb_refl. simpl. discriminate.
        -- intros E. destruct (L _ _ E) as (A & _). destruct (Nat.eqb_spec i (c_next c)); [lia|]. apply R; auto.
      * intros x Hin. destruct (X _ Hin) as (A & B). destruct (Nat.eqb_spec (fst x) (c_next c)); [lia|]. split; auto.
  - (* InitDone *)
    destruct (i_phase (c_inst c i)) eqn:Ep; simpl in Hs; try discriminate.
    destruct (take_first i (c_inits c)) as [[r inits']|] eqn:E; [|discriminate]. simpl in Hs. destruct ok.
    + destruct (c_store c (i_name (c_inst c i))) eqn:Est; simpl in Hs; [|discriminate].
      destruct (i_deleted (c_inst c i)) eqn:Edl; inv_some; constructor; simpl; unfold on_sess, on_inst, upd; simpl.
      * intros t j Et. destruct (L _ _ Et) as (A & B & C & D). destruct (Nat.eqb_spec j i); subst; simpl; [congruence|eauto].
      * intros t j Et. destruct (L _ _ Et) as (A & B & C & D). destruct (Nat.eqb_spec j i); subst; simpl; [discriminate|eauto].
      * intros x Hin. destruct (X _ Hin) as (A & B). destruct (Nat.eqb_spec (fst x) i) as [Ex0|]; simpl; [try rewrite <- Ex0|]; auto.
      * intros t j Et. destruct (L _ _ Et) as (A & B & C & D). destruct (Nat.eqb_spec j i); subst; simpl; [repeat split; auto; discriminate|auto].
      * intros t j Et. destruct (L _ _ Et) as (A & B & C & D). destruct (Nat.eqb_spec j i); subst; simpl; [intros _; congruence|eauto].
      * intros x Hin. destruct (X _ Hin) as (A & B). destruct (Nat.eqb_spec (fst x) i) as [Ex0|]; simpl; [try rewrite <- Ex0|]; auto.
    + unfold requeue_reg in Hs. simpl in Hs.
      destruct (drain_unreg i (c_tunreg c) _) as [unreg' f'] eqn:Ed. simpl in Hs.
      assert (Hgen : forall c2, c_next c2 = c_next c -> c_store c2 = c_store c ->
                (forall j, c_inst c2 j = if Nat.eqb j i then i_setphase (c_inst c i) PDead else c_inst c j) ->
                (forall t, c_table c2 t = if Nat.eqb t (i_name (c_inst c i)) then None else c_table c t) ->
                (forall x, In x (c_texit c2) -> In x (c_texit c)) -> inv_tbl c2).
      { intros c2 E1 E2 E3 E4 E5. constructor.
        - intros t j. rewrite E4, E1, E3. destruct (Nat.eqb_spec t (i_name (c_inst c i))); [discriminate|].
          intros Et. destruct (L _ _ Et) as (A & B & C & D). destruct (Nat.eqb_spec j i); subst; [congruence|eauto].
        - intros t j. rewrite E4, E2, E3. destruct (Nat.eqb_spec t (i_name (c_inst c i))); [discriminate|].
          intros Et. destruct (L _ _ Et) as (A & B & C & D). destruct (Nat.eqb_spec j i); subst; [congruence|eauto].
        - intros x Hin. apply E5 in Hin. destruct (X _ Hin) as (A & B). rewrite E1, E3.
          destruct (Nat.eqb_spec (fst x) i) as [Ex0|]; simpl; [try rewrite <- Ex0|]; auto. }
      destruct (take_first i (c_texit c)) as [[b exit']|] eqn:Ex; inv_some; apply Hgen; auto; intros; simpl;
        unfold on_sess, on_inst, upd; simpl; deq; simpl; auto.
      destruct (in_take_first _ _ _ _ _ Ex) as [_ Hsub]. auto.
  - (* TopicReg *)
    destruct (negb (is_run (i_phase (c_inst c i)))); [discriminate|].
    destruct (take_first i (c_treg c)) as [[r reg']|] eqn:E; [|discriminate]. simpl in Hs. inv_some.
    assert (Hgen : forall c2, c_next c2 = c_next c -> c_store c2 = c_store c -> c_table c2 = c_table c -> c_texit c2 = c_texit c ->
              (forall j, i_name (c_inst c2 j) = i_name (c_inst c j) /\ i_phase (c_inst c2 j) = i_phase (c_inst c j) /\
                         i_deleted (c_inst c2 j) = i_deleted (c_inst c j)) -> inv_tbl c2).
    { intros c2 E1 E2 E3 E4 E5. constructor.
      - intros t j. rewrite E3, E1. destruct (E5 j) as (-> & -> & ->). apply L.
      - intros t j. rewrite E3, E2. destruct (E5 j) as (_ & -> & _). apply R.
      - intros x. rewrite E4, E1. destruct (E5 (fst x)) as (_ & _ & ->). apply X. }
    apply Hgen; destruct (inactive (c_inst c i)); try (destruct (lookup _ _); [|destruct (verify_chan _ _ _) as [aC [|]]; [|destruct ok]]); simpl; auto;
      intros; unfold on_sess, on_inst, upd; simpl; deq; simpl; auto.
  - (* TopicUnreg *)
    destruct (exec_unreg_inv _ _ _ Hs) as (r0 & rest0 & aC & eR & _ & _ & Hu).
    eapply inv_tbl_unreg_step; [|exact Hu]. apply inv_tbl_pre404. constructor; auto.
  - (* Evict *)
    destruct (negb (is_run (i_phase (c_inst c i))) || negb (mem s (i_sessions (c_inst c i)))); [discriminate|].
    destruct (inactive (c_inst c i)); inv_some; [constructor; auto|].
    constructor; simpl; unfold on_sess, on_inst, upd; simpl.
    + intros t j Et. destruct (L _ _ Et) as (A & B & C & D). destruct (Nat.eqb_spec j i); subst; simpl; auto.
    + intros t j Et. destruct (Nat.eqb_spec j i); subst; simpl; eauto.
    + intros x Hin. destruct (X _ Hin) as (A & B). destruct (Nat.eqb_spec (fst x) i) as [Ex0|]; simpl; [try rewrite <- Ex0|]; auto.
  - exec_split Hs; inv_some; constructor; simpl; auto.
  - (* HubUnreg *)
    destruct (c_hunreg c) as [|[t|r] rest]; [discriminate| |]; simpl in Hs.
    + destruct (c_table c t) as [i|] eqn:Et; inv_some; [|constructor; simpl; auto].
      destruct (L _ _ Et) as (A0 & B0 & C0 & D0).
      constructor; simpl; unfold on_inst, upd; simpl.
      * intros t0 j. destruct (Nat.eqb_spec t0 t); [discriminate|]. intros E. destruct (L _ _ E) as (A & B & C & D).
        destruct (Nat.eqb_spec j i); subst; simpl; [congruence|eauto].
      * intros t0 j. destruct (Nat.eqb_spec t0 t); [discriminate|]. intros E. destruct (L _ _ E) as (A & B & C & D).
        destruct (Nat.eqb_spec j i); subst; simpl; [congruence|eauto].
      * intros x Hin. apply in_app_or in Hin. destruct Hin as [Hin|[<-|[]]]; simpl.
        -- destruct (X _ Hin) as (A & B). destruct (Nat.eqb_spec (fst x) i) as [Ex0|]; simpl; [try rewrite <- Ex0|]; auto.
        -- rewrite Nat.eqb_refl. simpl. auto.
    + destruct (c_table c (r_topic r)) as [i|] eqn:Et.
      * destruct (L _ _ Et) as (A0 & B0 & C0 & D0).
        destruct (is_init (i_phase (c_inst c i)) && negb ownerVisible); inv_some; [constructor; simpl; auto|].
        constructor; simpl; unfold on_sess, on_inst, upd; simpl.
        -- intros t0 j. destruct (Nat.eqb_spec t0 (r_topic r)); [discriminate|]. intros E. destruct (L _ _ E) as (A & B & C & D).
           destruct (Nat.eqb_spec j i); subst; simpl; [congruence|eauto].
        -- intros t0 j. destruct (Nat.eqb_spec t0 (r_topic r)); [discriminate|]. intros E. destruct (L _ _ E) as (A & B & C & D).
           destruct (Nat.eqb_spec j i); subst; simpl; [congruence|eauto].
        -- intros x Hin. apply in_app_or in Hin. destruct Hin as [Hin|[<-|[]]]; simpl.
           ++ destruct (X _ Hin) as (A & B). destruct (Nat.eqb_spec (fst x) i) as [Ex0|]; simpl; [try rewrite <- Ex0|]; auto.
           ++ rewrite Nat.eqb_refl. simpl. auto.
      * destruct (c_store c (r_topic r)); inv_some; constructor; simpl; unfold on_sess, upd; simpl; auto.
        intros t0 j E. destruct (Nat.eqb_spec t0 (r_topic r)); subst; [congruence|eauto].
  - (* TopicExit *)
    destruct (i_phase (c_inst c i)) eqn:Ep; simpl in Hs; try discriminate.
    destruct (take_first i (c_texit c)) as [[b exit']|] eqn:Ex; inv_some.
    destruct (in_take_first _ _ _ _ _ Ex) as [Hin Hsub]. destruct (X _ Hin) as (_ & Hdel). simpl in Hdel.
    constructor; simpl; unfold on_inst, upd; simpl.
    + intros t j Et. destruct (L _ _ Et) as (A & B & C & D). destruct (Nat.eqb_spec j i); subst; simpl; [congruence|eauto].
    + intros t j Et. destruct (L _ _ Et) as (A & B & C & D). destruct (Nat.eqb_spec j i); subst; simpl; [congruence|eauto].
    + intros x Hx. destruct (X _ (Hsub _ Hx)) as (A & B). destruct (Nat.eqb_spec (fst x) i) as [Ex0|]; simpl; [try rewrite <- Ex0|]; auto.
  - exec_split Hs; inv_some; constructor; simpl; auto.
  - exec_split Hs; inv_some; constructor; simpl; auto.
  - exec_split Hs; inv_some; constructor; simpl; auto.
  - (* HubUnregFail *)
    destruct (c_hunreg c) as [|[tq|r] rest]; try discriminate; simpl in Hs.
    destruct (c_table c (r_topic r)) as [i|].
    + destruct (is_init (i_phase (c_inst c i))); [discriminate|]. inv_some; constructor; simpl; auto.
    + destruct (c_store c (r_topic r)); [|discriminate]. inv_some; constructor; simpl; auto.
Qed.

Lemma inv_tbl_reach : forall st ow us c, reach st ow us c -> inv_tbl c.
Proof. induction 1; [apply inv_tbl_init|eapply inv_tbl_step; eauto]. Qed.

Lemma store_unreg_step : forall c i a e c', unreg_step c i a e = Some c' -> c_store c' = c_store c.
Proof.
  intros c i a e c' Hs. unfold unreg_step in Hs.
  destruct (negb (is_run (i_phase (c_inst c i)))); [discriminate|].
  destruct (take_first i (c_tunreg c)) as [[r unreg']|]; [|discriminate]. simpl in Hs. inv_some.
  destruct (inactive (c_inst c i)); destruct (r_init r); try (destruct (r_kind r) as [|[|]|]); simpl;
    repeat match goal with |- context [if ?b then _ else _] => destruct b eqn:?; simpl end; auto.
Qed.

(* the topic row never comes back *)
Lemma store_false_step : forall c l c' t, step c l c' -> c_store c t = false -> c_store c' t = false.
Proof.
  intros c l c' t Hs H. unfold step in Hs. destruct l as [s0 t0 ch0|s0 t0 u0 ch0|s0 t0| |i ok|i ok|i|i s0|i|vis|i|s0|s0|s0|]; simpl in Hs.
  - exec_split Hs; inv_some; simpl; auto.
  - exec_split Hs; inv_some; simpl; auto.
  - exec_split Hs; inv_some; simpl; auto.
  - exec_split Hs; inv_some; simpl; auto.
  - destruct (negb (is_init (i_phase (c_inst c i)))); [discriminate|].
    destruct (take_first i (c_inits c)) as [[r inits']|]; [|discriminate]. simpl in Hs. destruct ok.
    + exec_split Hs; inv_some; simpl; auto.
    + unfold requeue_reg in Hs. simpl in Hs. destruct (drain_unreg i (c_tunreg c) _) as [u f]. simpl in Hs.
      destruct (take_first i (c_texit c)) as [[b e]|]; inv_some; simpl; auto.
  - destruct (negb (is_run (i_phase (c_inst c i)))); [discriminate|].
    destruct (take_first i (c_treg c)) as [[r reg']|]; [|discriminate]. simpl in Hs. inv_some.
    destruct (inactive (c_inst c i)); [|destruct (lookup _ _); [|destruct (verify_chan _ _ _) as [aC [|]]; [|destruct ok]]]; simpl; auto.
  - destruct (exec_unreg_inv _ _ _ Hs) as (r0 & rest0 & aC & eR & _ & _ & Hu).
    rewrite (store_unreg_step _ _ _ _ _ Hu).
    destruct (pre404_frame c r0 eR) as (_ & _ & _ & _ & _ & _ & _ & _ & _ & -> & _). exact H.
  - exec_split Hs; inv_some; simpl; auto.
  - exec_split Hs; inv_some; simpl; auto.
  - destruct (c_hunreg c) as [|[t1|r] rest]; [discriminate| |]; simpl in Hs.
    + destruct (c_table c t1); inv_some; simpl; auto.
    + destruct (c_table c (r_topic r)) as [i|].
      * destruct (is_init (i_phase (c_inst c i)) && negb vis); inv_some; simpl; auto.
        unfold upd. destruct (Nat.eqb t (r_topic r)); auto.
      * destruct (c_store c (r_topic r)); inv_some; simpl; auto. unfold upd. destruct (Nat.eqb t (r_topic r)); auto.
  - exec_split Hs; inv_some; simpl; auto.
  - exec_split Hs; inv_some; simpl; auto.
  - exec_split Hs; inv_some; simpl; auto.
  - exec_split Hs; inv_some; simpl; auto.
  - (* HubUnregFail *)
    destruct (c_hunreg c) as [|[tq|r] rest]; try discriminate; simpl in Hs.
    destruct (c_table c (r_topic r)) as [i|].
    + destruct (is_init (i_phase (c_inst c i))); [discriminate|]. inv_some; simpl; auto.
    + destruct (c_store c (r_topic r)); [|discriminate]. inv_some; simpl; auto.
Qed.

(* the hub's answer to a {sub} for a topic whose row is gone: "locked", or a fresh load *)
Lemma deleted_hub_refuses : forall st ow us c r rest c',
  reach st ow us c -> c_hjoin c = r :: rest -> c_store c (r_topic r) = false -> step c HubJoin c' ->
  (c' = on_sess (set_hjoin c rest) (r_sid r) (fun x => s_reply (s_donereq x) (rep r CLocked))) \/
  (c_table c (r_topic r) = None /\ c_inits c' = c_inits c ++ [(c_next c, r)] /\
   i_phase (c_inst c' (c_next c)) = PInit /\ i_name (c_inst c' (c_next c)) = r_topic r /\ c_treg c' = c_treg c).
Proof.
  intros st ow us c r rest c' Hr Hq Hst Hs. unfold step in Hs. simpl in Hs. rewrite Hq in Hs. simpl in Hs.
  destruct (inv_tbl_reach _ _ _ _ Hr) as [L R X].
  destruct (c_table c (r_topic r)) as [i|] eqn:Et.
  - destruct (L _ _ Et) as (A & B & C & D).
    assert (Hin : inactive (c_inst c i) = true).
    { unfold inactive. destruct (i_phase (c_inst c i)) eqn:Ep; auto; try congruence.
      rewrite (R _ _ Et Ep) in Hst. discriminate. }
    rewrite Hin in Hs. inv_some. left. reflexivity.
  - inv_some. right. simpl. unfold upd. rewrite Nat.eqb_refl. simpl. auto.
Qed.

(* ... and the load of a topic without a row cannot succeed *)
Lemma deleted_load_fails : forall c i c', c_store c (i_name (c_inst c i)) = false -> step c (InitDone i true) c' -> False.
Proof.
  intros c i c' Hst Hs. unfold step in Hs. simpl in Hs.
  destruct (negb (is_init (i_phase (c_inst c i)))); [discriminate|].
  destruct (take_first i (c_inits c)) as [[r inits']|]; [|discriminate]. simpl in Hs. rewrite Hst in Hs. discriminate.
Qed.

(* no session is ever attached to a topic whose row is gone: registerSession never accepts *)
Lemma deleted_never_attached : forall st ow us c i ok c',
  reach st ow us c -> c_store c (i_name (c_inst c i)) = false -> c_table c (i_name (c_inst c i)) = Some i ->
  step c (TopicReg i ok) c' -> i_sessions (c_inst c' i) = i_sessions (c_inst c i).
Proof.
  intros st ow us c i ok c' Hr Hst Et Hs.
  destruct (inv_tbl_reach _ _ _ _ Hr) as [L R X].
  unfold step in Hs. simpl in Hs.
  destruct (i_phase (c_inst c i)) eqn:Ep; simpl in Hs; try discriminate.
  rewrite (R _ _ Et Ep) in Hst. discriminate.
Qed.
