(* Proofs about the table-driven protobuf converters of Sys/PbTable.v. *)
From Coq Require Import List String Ascii ZArith NArith Bool Lia.
From Tinode Require Import Sys.PbTable.
Import ListNotations.
Local Open Scope Z_scope.

(* ---------- leaf kinds ---------- *)

Lemma wrap32_range : forall z, -2147483648 <= wrap32 z <= 2147483647.
Proof.
  intro z. unfold wrap32.
  pose proof (Z.mod_pos_bound (z + 2147483648) 4294967296 ltac:(lia)). lia.
Qed.

Lemma wrap32_id : forall z, -2147483648 <= z <= 2147483647 -> wrap32 z = z.
Proof.
  intros z H. unfold wrap32. rewrite Z.mod_small by lia. lia.
Qed.

Lemma wrap32_idem : forall z, wrap32 (wrap32 z) = wrap32 z.
Proof. intro z. apply wrap32_id. apply wrap32_range. Qed.

Lemma wrap32_congr : forall z, (wrap32 z - z) mod 4294967296 = 0.
Proof.
  intro z. unfold wrap32.
  rewrite (Z.mod_eq (z + 2147483648) 4294967296) by lia.
  replace (z + 2147483648 - 4294967296 * ((z + 2147483648) / 4294967296) - 2147483648 - z)
    with ((- ((z + 2147483648) / 4294967296)) * 4294967296) by lia.
  apply Z.mod_mul. lia.
Qed.

Lemma ms_ns_ms : forall ms, ms_of_ns (ns_of_ms ms) = ms.
Proof. intro ms. unfold ms_of_ns, ns_of_ms. apply Z.quot_mul. lia. Qed.

(* int -> int32 -> int is the identity within range *)
Lemma int32_roundtrip : forall z, -2147483648 <= z <= 2147483647 -> z <> 0 ->
  obind (fwd KInt (LInt z)) (bwd KInt) = Some (LInt z).
Proof.
  intros z H Hz. cbn [fwd]. rewrite wrap32_id by exact H.
  destruct (Z.eqb_spec z 0); [contradiction|]. reflexivity.
Qed.

(* time -> ms -> time is the identity on millisecond-rounded times after the epoch *)
Lemma time_ms_roundtrip : forall ms, 0 < ms ->
  obind (fwd KTime (LTime (ns_of_ms ms))) (bwd KTime) = Some (LTime (ns_of_ms ms)).
Proof.
  intros ms H. cbn [fwd]. rewrite ms_ns_ms.
  destruct (Z.eqb_spec ms 0); [lia|]. cbn [obind bwd].
  destruct (Z.ltb_spec 0 ms); [reflexivity|lia].
Qed.

(* any time: what survives is the time truncated to milliseconds *)
Lemma time_truncation : forall ns, 0 < ms_of_ns ns ->
  obind (fwd KTime (LTime ns)) (bwd KTime) = Some (LTime (ns_of_ms (ms_of_ns ns))).
Proof.
  intros ns H. cbn [fwd].
  destruct (Z.eqb_spec (ms_of_ns ns) 0); [lia|]. cbn [obind bwd].
  destruct (Z.ltb_spec 0 (ms_of_ns ns)); [reflexivity|lia].
Qed.

Lemma opt_string_eqb_eq : forall a b, opt_string_eqb a b = true -> a = b.
Proof.
  intros [a|] [b|]; cbn; intro H; try discriminate; try reflexivity.
  apply String.eqb_eq in H. now subst.
Qed.

Lemma enum_ser_l_in : forall l s, existsb (fun x : string * Z => String.eqb (fst x) s) l = true ->
  exists s' n, In (s', n) l /\ s' = s.
Proof.
  induction l as [|[s' n] r IH]; cbn; intros s H; [discriminate|].
  apply orb_true_iff in H. destruct H as [H|H].
  - apply String.eqb_eq in H. exists s', n. auto.
  - destruct (IH s H) as (a & b & Hin & E). exists a, b. auto.
Qed.

(* the enum tables are mutually inverse on their domain *)
Lemma enum_bij_sound : forall e, enum_bij e = true -> forall n s, In (n, s) (e_deser e) -> n <> 0 ->
  enum_ser e s = n /\ enum_deser e (enum_ser e s) = Some s /\ -2147483648 <= n <= 2147483647.
Proof.
  intros e H n s Hin Hn. unfold enum_bij in H. rewrite forallb_forall in H.
  specialize (H _ Hin). cbn in H.
  destruct (Z.eqb_spec n 0); [contradiction|]. cbn in H.
  apply andb_true_iff in H. destruct H as [H H3]. apply andb_true_iff in H. destruct H as [H1 H2].
  apply Z.eqb_eq in H1. apply opt_string_eqb_eq in H2.
  unfold in_int32 in H3. apply andb_true_iff in H3. destruct H3 as [Ha Hb].
  apply Z.leb_le in Ha. apply Z.leb_le in Hb.
  rewrite H1. auto.
Qed.

(* a spelling of the domain, sent as its number, is read as a spelling with the same normal form *)
Lemma enum_roundtrip : forall e s, enum_rt_ok e = true ->
  existsb (fun x : string * Z => String.eqb (fst x) s) (e_ser e) = true ->
  obind (obind (fwd (KEnum e) (LStr s)) (bwd (KEnum e))) (norm (KEnum e)) = norm (KEnum e) (LStr s).
Proof.
  intros e s Hok Hin. unfold enum_rt_ok in Hok. rewrite forallb_forall in Hok.
  destruct (enum_ser_l_in _ _ Hin) as (s' & n & Hin' & E). subst s'.
  specialize (Hok _ Hin'). cbn [fst] in Hok.
  cbn [fwd]. destruct (Z.eqb_spec (enum_ser e s) 0) as [Hz|Hz].
  - apply opt_string_eqb_eq in Hok. cbn [obind norm]. now rewrite Hok.
  - cbn [obind bwd]. destruct (enum_deser e (enum_ser e s)) as [s'|].
    + apply opt_string_eqb_eq in Hok. cbn [obind norm]. now rewrite Hok.
    + apply opt_string_eqb_eq in Hok. cbn [obind norm]. now rewrite Hok.
Qed.

(* the round trip of one value of a well-formed kind is the identity up to normalisation *)
Lemma leaf_roundtrip : forall k v, kind_ok k = true -> wf_leaf k v = true ->
  obind (obind (fwd k v) (bwd k)) (norm k) = norm k v.
Proof.
  intros k v Hk Hwf. destruct k.
  - destruct v; reflexivity.
  - destruct v; try reflexivity. cbn [fwd norm].
    destruct (Z.eqb_spec (wrap32 z) 0) as [E|E]; [reflexivity|].
    cbn [obind bwd norm]. rewrite wrap32_idem.
    destruct (Z.eqb_spec (wrap32 z) 0); [contradiction|reflexivity].
  - destruct v; try reflexivity. destruct b; reflexivity.
  - destruct v; reflexivity.
  - destruct v; try reflexivity. cbn [fwd norm].
    destruct (Z.eqb_spec (ms_of_ns ns) 0) as [E|E].
    + rewrite E. reflexivity.
    + cbn [obind bwd]. destruct (Z.ltb_spec 0 (ms_of_ns ns)); [|reflexivity].
      cbn [obind norm]. rewrite ms_ns_ms.
      destruct (Z.ltb_spec 0 (ms_of_ns ns)); [reflexivity|lia].
  - destruct v; reflexivity.
  - destruct v; reflexivity.
  - destruct v; try discriminate. cbn [kind_ok] in Hk. unfold enum_ok in Hk.
    apply andb_true_iff in Hk. destruct Hk as [Hrt _]. cbn [wf_leaf] in Hwf.
    apply enum_roundtrip; assumption.
Qed.

(* normalisation is idempotent for the arithmetic kinds (so "=norm" is an equivalence with normal forms) *)
Lemma norm_idem_int : forall z, obind (norm KInt (LInt z)) (norm KInt) = norm KInt (LInt z).
Proof.
  intro z. cbn [norm]. destruct (Z.eqb_spec (wrap32 z) 0) as [E|E]; [reflexivity|].
  cbn [obind norm]. rewrite wrap32_idem. destruct (Z.eqb_spec (wrap32 z) 0); [contradiction|reflexivity].
Qed.

Lemma norm_idem_time : forall ns, obind (norm KTime (LTime ns)) (norm KTime) = norm KTime (LTime ns).
Proof.
  intro ns. cbn [norm]. destruct (Z.ltb_spec 0 (ms_of_ns ns)) as [H|H]; [|reflexivity].
  cbn [obind norm]. rewrite ms_ns_ms. destruct (Z.ltb_spec 0 (ms_of_ns ns)); [reflexivity|lia].
Qed.

(* ---------- tables ---------- *)

Lemma find_row_In : forall t sp k f, find_row t sp = Some (k, f) -> In (sp, k, f) t.
Proof.
  induction t as [|[[p k'] f'] r IH]; cbn; intros sp k f H; [discriminate|].
  destruct (String.eqb_spec p sp).
  - inversion H; subst. now left.
  - right. now apply IH.
Qed.

Lemma table_ok_leaf_ok : forall t sp k f, table_ok t = true -> find_row t sp = Some (k, f) ->
  fate_ok k f = true /\ kind_ok k = true.
Proof.
  intros t sp k f Hok Hf. apply find_row_In in Hf. unfold table_ok in Hok. rewrite forallb_forall in Hok.
  specialize (Hok _ Hf). cbn in Hok. now apply andb_true_iff in Hok.
Qed.

Lemma flat_map_flat_map : forall {A B C} (f : B -> list C) (g : A -> list B) (l : list A),
  flat_map f (flat_map g l) = flat_map (fun x => flat_map f (g x)) l.
Proof.
  intros A B C f g l. induction l as [|x r IH]; cbn; [reflexivity|].
  rewrite flat_map_app, IH. reflexivity.
Qed.

(* every leaf is converted on its own: the gRPC reading of a request is the concatenation of
   the readings of its leaves *)
Lemma rt_homomorphic : forall t m, deser t (ser t m) = flat_map (rt_leaf t) m.
Proof. intros t m. unfold deser, ser, rt_leaf, deser. apply flat_map_flat_map. Qed.

Lemma fate_ok_cases : forall k f, fate_ok k f = true -> f = Same \/ exists x, f = Transformed x.
Proof.
  intros k f H. destruct f; try discriminate; [now left|right; eauto].
Qed.

(* one safe leaf: its gRPC reading is its JSON reading up to the documented normalisation *)
Lemma request_leaf : forall t p v, leaf_ok t (fst p) = true -> wf_leaf_t t (p, v) = true ->
  norm_msg t (rt_leaf t (p, v)) = norm_msg t [(p, v)].
Proof.
  intros t p v Hok Hwf. unfold leaf_ok in Hok. unfold wf_leaf_t in Hwf. cbn [fst snd] in Hwf.
  unfold rt_leaf, norm_msg. cbn [flat_map ser1 norm1]. rewrite app_nil_r.
  destruct (find_row t (fst p)) as [[k f]|] eqn:Hf; [|discriminate].
  apply andb_true_iff in Hok. destruct Hok as [Hfate Hkind].
  pose proof (leaf_roundtrip k v Hkind Hwf) as RT.
  assert (Hser : ser1 t (p, v) = opt_list p (fwd k v)).
  { unfold ser1. rewrite Hf. destruct (fate_ok_cases _ _ Hfate) as [->|[x ->]]; reflexivity. }
  unfold ser1 in Hser. rewrite Hf in Hser. rewrite Hser. clear Hser.
  destruct (fwd k v) as [w|]; cbn [obind] in RT; cbn [opt_list deser flat_map deser1 fst].
  - rewrite Hf, app_nil_r. destruct (bwd k w) as [v'|]; cbn [obind] in RT; cbn [opt_list flat_map norm1 fst].
    + rewrite Hf, app_nil_r. now rewrite RT.
    + now rewrite <- RT.
  - now rewrite <- RT.
Qed.

Lemma norm_msg_app : forall t a b, norm_msg t (a ++ b) = norm_msg t a ++ norm_msg t b.
Proof. intros. unfold norm_msg. apply flat_map_app. Qed.

(* the generic theorem for requests *)
Lemma request_equiv : forall t, table_ok t = true -> forall m, wf_msg t m = true ->
  norm_msg t (deser t (ser t m)) = norm_msg t m.
Proof.
  intros t Hok m Hwf. rewrite rt_homomorphic.
  induction m as [|[p v] r IH]; [reflexivity|].
  cbn [wf_msg forallb] in Hwf. apply andb_true_iff in Hwf. destruct Hwf as [Hw Hr].
  cbn [flat_map]. rewrite norm_msg_app, (IH Hr).
  change (norm_msg t ((p, v) :: r)) with (norm_msg t ([(p, v)] ++ r)). rewrite norm_msg_app. f_equal.
  destruct (find_row t (fst p)) as [[k f]|] eqn:Hf.
  - apply request_leaf; [|exact Hw]. unfold leaf_ok. rewrite Hf.
    destruct (table_ok_leaf_ok _ _ _ _ Hok Hf) as [H1 H2]. now rewrite H1, H2.
  - unfold rt_leaf, norm_msg. cbn [ser1 flat_map norm1]. rewrite Hf. reflexivity.
Qed.

Lemma table_ok_no_panic : forall t, table_ok t = true -> forall m, panics t m = false.
Proof.
  intros t Hok m. unfold panics. induction m as [|[p v] r IH]; [reflexivity|].
  cbn [existsb fst]. rewrite IH, orb_false_r.
  destruct (find_row t (fst p)) as [[k f]|] eqn:Hf; [|reflexivity].
  destruct (table_ok_leaf_ok _ _ _ _ Hok Hf) as [H1 _]. destruct f; try reflexivity; discriminate.
Qed.

(* a dropped leaf really breaks the equivalence: the premise table_ok is needed *)
Lemma dropped_breaks : forall sp k v v', norm k v = Some v' ->
  let t := [(sp, k, Dropped)] in
  norm_msg t (deser t (ser t [((sp, []), v)])) <> norm_msg t [((sp, []), v)].
Proof.
  intros sp k v v' H t. unfold t, ser, deser, norm_msg. cbn [flat_map ser1 norm1 find_row fst].
  rewrite String.eqb_refl. cbn [flat_map]. rewrite H. discriminate.
Qed.

(* ---------- server replies ---------- *)

Lemma find_srow_In : forall t sp k q f, find_srow t sp = Some (k, q, f) -> In (sp, k, q, f) t.
Proof.
  induction t as [|[[[p k'] q'] f'] r IH]; cbn; intros sp k q f H; [discriminate|].
  destruct (String.eqb_spec p sp).
  - inversion H; subst. now left.
  - right. now apply IH.
Qed.

Lemma find_swire_In : forall t q p k f, find_swire t q = Some (p, k, f) -> In (p, k, q, f) t.
Proof.
  induction t as [|[[[p' k'] q'] f'] r IH]; cbn; intros q p k f H; [discriminate|].
  destruct (String.eqb_spec q' q).
  - inversion H; subst. now left.
  - right. now apply IH.
Qed.

(* every field the schema defines is on the wire at its protobuf path, and read back it is the
   normalised JSON value *)
Lemma reply_fields : forall t, table_ok_srv t = true ->
  forall m p v k q f, In (p, v) m -> find_srow t (fst p) = Some (k, q, f) -> in_schema_f f = true ->
  wf_leaf k v = true ->
  forall v', norm k v = Some v' ->
  exists w, In ((q, snd p), w) (ser_srv t m) /\ obind (bwd k w) (norm k) = Some v'.
Proof.
  intros t Hok m p v k q f Hin Hf Hs Hwf v' Hn.
  unfold table_ok_srv in Hok. apply andb_true_iff in Hok. destruct Hok as [Hrows _].
  rewrite forallb_forall in Hrows.
  pose proof (Hrows _ (find_srow_In _ _ _ _ _ Hf)) as Hr. cbn in Hr.
  assert (Hfk : fate_ok k f = true /\ kind_ok k = true).
  { destruct f; try discriminate; now apply andb_true_iff in Hr. }
  destruct Hfk as [Hfate Hkind].
  pose proof (leaf_roundtrip k v Hkind Hwf) as RT. rewrite Hn in RT.
  destruct (fwd k v) as [w|] eqn:Hw; [|discriminate].
  exists w. split.
  - unfold ser_srv. apply in_flat_map. exists (p, v). split; [exact Hin|].
    unfold ser_srv1. rewrite Hf.
    destruct (fate_ok_cases _ _ Hfate) as [->|[x ->]]; rewrite Hw; now left.
  - exact RT.
Qed.

(* nothing is invented: every leaf on the wire comes from a leaf of the reply, at its row's path *)
Lemma reply_no_invention : forall t m q w, In (q, w) (ser_srv t m) ->
  exists p v k f, In (p, v) m /\ find_srow t (fst p) = Some (k, fst q, f) /\ snd q = snd p /\ fwd k v = Some w.
Proof.
  intros t m q w H. unfold ser_srv in H. apply in_flat_map in H. destruct H as [[p v] [Hin H]].
  unfold ser_srv1 in H. destruct (find_srow t (fst p)) as [[[k q'] f]|] eqn:Hf; [|contradiction].
  assert (H' : In (q, w) (opt_list (q', snd p) (fwd k v))) by (destruct f; try contradiction; exact H).
  destruct (fwd k v) as [w'|] eqn:Hw; [|contradiction].
  destruct H' as [E|[]]. inversion E; subst. exists p, v, k, f. cbn. auto.
Qed.

(* reading the whole protobuf reply back: the in-schema part of the JSON rendering, normalised *)
Lemma reply_read_back : forall t, table_ok_srv t = true -> forall m, wf_smsg t m = true ->
  deser_srv t (ser_srv t m) = norm_srv t m.
Proof.
  intros t Hok m Hwf. unfold deser_srv, ser_srv, norm_srv. rewrite flat_map_flat_map.
  unfold table_ok_srv in Hok. apply andb_true_iff in Hok. destruct Hok as [Hrows Hsw].
  rewrite forallb_forall in Hrows. unfold swire_ok in Hsw. rewrite forallb_forall in Hsw.
  induction m as [|[p v] r IH]; [reflexivity|].
  cbn [wf_smsg forallb] in Hwf. apply andb_true_iff in Hwf. destruct Hwf as [Hw Hr].
  cbn [flat_map]. rewrite (IH Hr). f_equal.
  unfold ser_srv1, norm_srv1. unfold wf_sleaf_t in Hw. cbn [fst snd] in Hw.
  destruct (find_srow t (fst p)) as [[[k q] f]|] eqn:Hf; [|reflexivity].
  pose proof (find_srow_In _ _ _ _ _ Hf) as HIn.
  pose proof (Hrows _ HIn) as Hrow. pose proof (Hsw _ HIn) as Hwire. cbn in Hrow, Hwire.
  assert (Hgo : in_schema_f f = true -> fate_ok k f = true -> kind_ok k = true ->
    flat_map (deser_srv1 t) (opt_list (q, snd p) (fwd k v)) = opt_list p (norm k v)).
  { intros Hs Hfate Hkind. pose proof (leaf_roundtrip k v Hkind Hw) as RT.
    assert (Hwire' : match find_swire t q with Some (p', _, _) => String.eqb p' (fst p) | None => false end = true)
      by (destruct (fate_ok_cases _ _ Hfate) as [E|[x E]]; rewrite E in Hwire; exact Hwire).
    destruct (find_swire t q) as [[[p' k'] f']|] eqn:Hq; [|discriminate].
    assert (p' = fst p) by (now apply String.eqb_eq in Hwire'). subst p'.
    destruct (fwd k v) as [w|]; cbn [opt_list flat_map deser_srv1 fst snd].
    - rewrite Hq, Hf, Hs, String.eqb_refl, app_nil_r. cbn [andb obind] in *. rewrite RT.
      destruct p; reflexivity.
    - cbn [obind] in RT. now rewrite <- RT. }
  destruct f; cbn [in_schema_f]; try discriminate; try reflexivity.
  - apply andb_true_iff in Hrow. destruct Hrow as [Hfate Hkind]. now apply Hgo.
  - apply andb_true_iff in Hrow. destruct Hrow as [Hfate Hkind]. now apply Hgo.
Qed.
